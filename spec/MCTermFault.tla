---------------------------- MODULE MCTermFault ----------------------------
(* Model-checking instances of TermFault.tla: the message tables of the scenarios.
     TabA   (a) three subscribers of object 1 on three connections (+ one of object 2), a remote
            terminate, a call to the other object; Remove / Service.Terminate / write faults / shutdowns
     TabB   (b) a busy object with a one-slot mailbox: calls and a post from three connections (the
            later ones park), a call to the other object behind a parked one, a remote terminate, a
            registration that is still queued when the object goes
     TabH   (1) subscriber churn before the removal (unregisterEvent / shutdown / re-registration)
     TabL   (2) a registration racing the termination on the connection of an existing subscriber (LockSteps)
     TabC   (c) three objects, two of them removed at the same time, subscribers shared between them,
            a call parked in each mailbox                                                         *)
EXTENDS TermFault

M(c, kind, o) == [c |-> c, kind |-> kind, o |-> o, r |-> 0]
MU(c, o, r) == [c |-> c, kind |-> "unsub", o |-> o, r |-> r]      \* unregisterEvent of registration r

TabA == << M("c1", "sub", 1), M("c2", "sub", 1), M("c3", "sub", 1), M("c1", "sub", 2),
           M("c3", "term", 1), M("c2", "call", 2) >>
RegA == {1, 2, 3, 4}

TabB == << M("c1", "call", 1), M("c2", "call", 1), M("c3", "post", 1), M("c2", "call", 2),
           M("c3", "term", 1), M("c1", "sub", 1) >>
RegB == {}

TabC == << M("c1", "sub", 1), M("c2", "sub", 1), M("c1", "sub", 2), M("c2", "sub", 2),
           M("c3", "call", 1), M("c3", "call", 2), M("c1", "call", 3) >>
RegC == {1, 2, 3, 4}
\* the quick variant of (c): without the call to the third object
TabCq == SubSeq(TabC, 1, 6)

\* small tables for the behaviour export of the quick tier
TabGa == << M("c1", "sub", 1), M("c2", "sub", 1), M("c3", "sub", 1), M("c3", "term", 1), M("c2", "call", 2) >>
RegGa == {1, 2, 3}
TabGb == << M("c1", "call", 1), M("c2", "call", 1), M("c3", "term", 1), M("c1", "sub", 1), M("c2", "call", 2) >>
TabGc == << M("c1", "sub", 1), M("c2", "sub", 1), M("c1", "sub", 2), M("c2", "sub", 2), M("c3", "call", 1) >>
RegGc == {1, 2, 3, 4}
\* two registrations still queued behind the slow call when the object is removed: they run while the
\* terminator stands between two notifications
TabGe == << M("c1", "sub", 1), M("c2", "sub", 1), M("c3", "call", 1), M("c3", "sub", 1), M("c1", "sub", 1) >>
RegGe == {1, 2}

\* (1) churn before the removal: three subscribers [A, B, C] in every table order; A and B cancel their
\* registration (unregisterEvent), A registers again, a connection may shut down; then the object goes
TabH == << M("c1", "sub", 1), M("c2", "sub", 1), M("c3", "sub", 1),
           MU("c1", 1, 1), M("c1", "sub", 1), MU("c2", 1, 2), M("c3", "term", 1) >>
RegH == {1, 2, 3}
TabHq == << M("c1", "sub", 1), M("c2", "sub", 1), M("c3", "sub", 1), MU("c1", 1, 1), M("c1", "sub", 1) >>     \* quick tier
\* (2) a registration over connection A (which already holds one) queued behind the slow call while the
\* object is removed: addSignalUser against RemoveHandler, with the owners of the two mutexes; afterwards
\* connection A must still dispatch (its call to object 2)
TabL == << M("c1", "sub", 1), M("c2", "sub", 1), M("c3", "call", 1), M("c1", "sub", 1), M("c1", "call", 2) >>
RegL == {1, 2}
=============================================================================
