SPECIFICATION GSpec
CONSTANTS
  Gor = {"g1", "g2", "g3"}
  Addrs = {"A", "B"}
  SampleMod = 50
  MaxReq = 2
  ConnLoss = FALSE
  Dev_RUnlockUnderWriteLock = FALSE
VIEW View
CONSTRAINT Replayable
INVARIANTS NoBadUnlock MutexOK AtMostOneConnPerEndpoint AllGetTheSharedClient
CHECK_DEADLOCK FALSE
