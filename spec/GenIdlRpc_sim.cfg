SPECIFICATION RSpec
CONSTANTS
  Pool = "c"
  MaxActions = 3
  MaxOps = 6
INVARIANTS RTypeOK OnlyCarriable SubsConsistent GetSeesLastSet DeliveredIffSubscribed Export
CHECK_DEADLOCK FALSE
