SPECIFICATION Spec
CONSTANTS
  Threads <- T2
  Conns = {"c1"}
  Signals = {"A"}
  ConnOf <- OneConn
  SigOf <- SameSig
  Rounds <- R21
  EmitSeq <- EmitA
  QCap = 2
  Dev_ProxySectionsNotAtomic = FALSE
  Dev_SendAfterSnapshot = FALSE
  Objects = {"o1"}
  ObjOf <- AllO1
  Devs = {}
  Probe <- NoProbe
  Failing = {}
  Inject <- NoInject
  Rogue = {}
INVARIANTS TypeOK NoDuplicate InOrderNoGap Complete NoForeignSignal ClosedAfterCancel NothingAfterUnregisterAck OthersUndisturbed AtMostOneRegistration NoLeak RemovedAtMostOnce NoDeadRegistration
CHECK_DEADLOCK FALSE
