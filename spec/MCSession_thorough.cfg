SPECIFICATION FairSpec
CONSTANTS
  Gor = {"g1", "g2", "g3"}
  Addrs = {"A", "B"}
  MaxReq = 2
  ConnLoss = FALSE
  Dev_RUnlockUnderWriteLock = FALSE
INVARIANTS TypeOK NoBadUnlock MutexOK AtMostOneConnPerEndpoint AllGetTheSharedClient ReturnedIsOpen NoDeadlock
PROPERTIES Terminates
CHECK_DEADLOCK FALSE
