SPECIFICATION FairSpec
CONSTANTS
  Gor = {"g1", "g2", "g3"}
  Eps = {"E", "F"}
  Svcs = {"xe", "e", "ef", "f", "t"}
  Adv <- AdvAll
  MaxReq = 1
  MaxLoss = 0
  AuthMayRefuse = FALSE
  Dev_RUnlockUnderWriteLock = FALSE
  Dev_NilChannelWhenAllSkipped = FALSE
  Dev_AuthFailureLeaksConnection = FALSE
  Dev_DeadClientStaysInPool = FALSE
  Dev_PoolKeyedByAdvertised = FALSE
  Dev_CloserBeforeInsert = FALSE
INVARIANTS TypeOK ProcessAlive NoBadUnlock MutexOK RequestOutcome ReturnedIsOpen AtMostOneConnPerEndpoint ExtraConnectionsClosed PoolHoldsLiveClients AllGetTheSharedClient NoDeadlock
PROPERTIES Terminates
CHECK_DEADLOCK FALSE
