\* transition coverage with a REAL provider (log_provider.go): what it does with what it is told decides which of its messages are sent
SPECIFICATION GSpec
CONSTANTS
  Listeners = {1}
  Providers = {1}
  RealProv = {1}
  LevelsUsed = {2, 6}
  BadLevel = 7
  Pats = {"core", "app"}
  BadPat = "("
  Cats = {"core", "core.net", "app"}
  InitLive = {}
  InitProv = {}
  Hist = TRUE
  MaxHold = 0
  MaxMgr = 4
  MaxLst = 2
  MgrOps = {"create", "addprov", "rlog"}
  LstOps = {"setlevel", "addfilter", "clear"}
  MaxCmds = 99
  PrintAll = TRUE
  Match <- MCMatch
  PCat <- MCPCat
  ClientOf <- MCClientOf
  Batches <- MCBatches1
  Dev_FilterOnlyWidens = TRUE
  Dev_MinCategoryJoin = TRUE
  Dev_NoRecomputeOnTerminate = TRUE
  Dev_LostListenerKept = TRUE
  Dev_StalePush = TRUE
  Dev_SetLevelBypassesProperty = TRUE
  Dev_AddFilterHoldsLock = TRUE
  Dev_UnlockedFilterRead = TRUE
  Dev_RejectedWriteSaved = FALSE
VIEW View
CHECK_DEADLOCK FALSE
