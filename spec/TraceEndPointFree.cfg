SPECIFICATION TSpec
CONSTANTS
  Handlers <- HandlerRange
  MaxHandlers = 400
  Msgs = {0}
  InitSlots = 10
CONSTRAINT Track
INVARIANTS CloserAtMostOnce QueueCloseAtMostOnce CloserBeforeQueueClose SlotUniqueAmongLive
PROPERTIES NoDeliveryAfterCloseT NoSlotStealingT
POSTCONDITION Accepted
CHECK_DEADLOCK FALSE
