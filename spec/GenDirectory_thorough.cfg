SPECIFICATION GSpec
CONSTANTS
  Names = {"a", "b"}
  MaxId = 4
  BadKinds = {"noep"}
  Eps = {"e1", "e2"}
  UpdKinds = {"ok"}
  Tag = "T"
  SampleMod = 10
  MaxLen = 99
VIEW View
INVARIANTS NameHeldByAtMostOne VisibleIffReady EventsOncePerTransitionInOrder
CHECK_DEADLOCK FALSE
