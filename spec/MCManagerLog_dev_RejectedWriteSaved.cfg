\* vacuity guard: with Dev_RejectedWriteSaved the demand LogLevelIsRegister must FAIL
SPECIFICATION Spec
CONSTANTS
  Listeners = {1}
  Providers = {1}
  RealProv = {}
  LevelsUsed = {2, 6}
  BadLevel = 7
  Pats = {"core"}
  BadPat = "("
  Cats = {"core", "core.net", "app"}
  MgrOps = {"log"}
  LstOps = {"setlevel", "setprop", "getprop"}
  MaxMgr = 1
  MaxLst = 3
  InitLive = {1}
  InitProv = {1}
  Hist = FALSE
  MaxHold = 0
  Match <- MCMatch
  PCat <- MCPCat
  ClientOf <- MCClientOf
  Batches <- MCBatches1
  Dev_FilterOnlyWidens = FALSE
  Dev_MinCategoryJoin = FALSE
  Dev_NoRecomputeOnTerminate = FALSE
  Dev_LostListenerKept = FALSE
  Dev_StalePush = FALSE
  Dev_SetLevelBypassesProperty = FALSE
  Dev_AddFilterHoldsLock = FALSE
  Dev_UnlockedFilterRead = FALSE
  Dev_RejectedWriteSaved = TRUE
INVARIANTS LogLevelIsRegister
CHECK_DEADLOCK FALSE
