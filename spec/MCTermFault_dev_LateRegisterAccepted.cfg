SPECIFICATION Spec
CONSTANTS
  Objs = {1, 2}
  Conns = {"c1", "c2", "c3"}
  MsgTab <- TabB
  InitReg <- RegB
  BoxCap = 1
  WithFill = FALSE
  Removable = {1}
  WithSvcTerm = FALSE
  MaxBreaks = 0
  MaxDrops = 0
  LockSteps = FALSE
  Dev_LateRegisterAccepted = TRUE
  Dev_StopAtFailedSend = FALSE
  Dev_KeepHandlerOnFailedSend = FALSE
  Dev_KeepTableOnTerminate = FALSE
  Dev_CloseBoxOnRemove = FALSE
  Dev_MailboxStopsOnRemove = FALSE
  Dev_BoxKeptAfterRemove = FALSE
  Dev_SendUnderReadLock = FALSE
  Dev_TerminateCallEndsService = FALSE
  Dev_ForgetDropsLast = FALSE
  Dev_AddUnderLock = FALSE
INVARIANTS Sanity NoSubscriberLeftBehind
CHECK_DEADLOCK FALSE
