SPECIFICATION Spec
CONSTANTS
  Srv = {1, 2}
  Names = {"a", "b"}
  Clients = {1}
  MaxAtt = 3
  MaxCuts = 1
  MaxProxies = 1
  MaxDrops = 0
  Dev_NoCleanup = FALSE
  Dev_RouterFirst = FALSE
  Dev_NoLease = FALSE
  Dev_StaleKept = FALSE
  Dev_StagingUnchecked = FALSE
  Dev_IdReuse = FALSE
  Dev_LookupStaged = FALSE
  Dev_RemovedForStaged = TRUE
  Dev_EnableErrorIgnored = FALSE
INVARIANTS EventsOnce
VIEW MCView
CHECK_DEADLOCK FALSE
