SPECIFICATION Spec
CONSTANTS
  MaxDepth = 3
  SibSet = "two"
  NameSet = "two"
INVARIANTS TypeOK InvRoundTrip InvBlanks InvKey
CHECK_DEADLOCK FALSE
