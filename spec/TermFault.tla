------------------------------ MODULE TermFault ------------------------------
(* C16, extension "termfault": removal and termination of a served object WHILE ITS
   ENVIRONMENT MISBEHAVES - subscribers whose connection fails on write, a busy object
   with a full mailbox and senders parked in the mailbox send, several objects of one
   service removed at the same time.  One action per critical section / linearization
   point of the code (line numbers of the tree with the verification hooks, i.e. /repo 4f0a64d + the
   hook commit of this module):

   the object table of the service                                   bus/service.go
     RemoveCall(k) / LockedApi(k)   serviceImpl.Remove l.155-169: Lock, objects[id] and
                                    boxes[id] deleted, Unlock (one critical section);
                                    the mailbox CHANNEL is neither closed nor drained
     ExecTerm(k) / LockedBox(k)     a `terminate` call (action 3) run by the object's
                                    mailbox goroutine: object_stub_gen.go l.289-306 ->
                                    object.go l.137-144 -> Activation.Terminate ->
                                    objectTerminator (service.go l.12-16) -> Remove(own
                                    id); the error of Remove is dropped, the call is
                                    answered with a Reply afterwards
     SvcTermCall / LockedSvc        serviceImpl.Terminate l.186-202: both maps replaced
                                    under the lock, then OnTerminate of every object, one
                                    after the other in map order (SvcPick), then the
                                    service leaves the router (SvcDone)
   the termination of ONE object (who runs it: tby = api | box | svc)
     THook(k)      service.go l.162-163 (gate service.remove.unlocked) ->
                   object_stub_gen.go l.210-214 stubObject.OnTerminate: the implementor's
                   hook, then signalHandler.OnTerminate TWICE (objectImpl, then stub)
     TSnap(k)      signal.go l.276-282: signalsMutex.Lock; signals := o.signals;
                   o.signals = {}; Unlock            (first and second call: tph = 1, 2)
     TSend(k)      signal.go l.284-285 (gate signal.terminate.send), sendTerminate
                   l.265-274: one Error message written on the subscriber's connection;
                   THE RESULT OF THE WRITE IS IGNORED
     TRelease(k)   signal.go l.286-287 (gate signal.terminate.release):
                   EndPoint().RemoveHandler(contextID) - endpoint.go l.262-274, under the
                   end point's handlersMutex; the closer (signal.go l.88-92) finds
                   nothing to forget
     TFinish(k)    OnTerminate has returned: Remove returns nil (api), the terminate call
                   is answered (box), the next object is taken (svc)
   the way of a message                                  bus/server.go, bus/service.go
     Send(m)       the client writes the frame; endPoint.dispatch (endpoint.go l.325-365)
                   puts it into the connection's consumer queue (server.go l.192)
     Route(c)      the connection's consumer goroutine (server.go l.193-211): firewall,
                   Router.Receive, serviceImpl.Receive l.172-183: RLock, boxes[id] looked
                   up, RUnlock; no mailbox: SendError(ErrObjectNotFound) - whatever the
                   type of the message; a mailbox: `box <- mail`, which BLOCKS the
                   consumer goroutine of that connection when the 10 slots are taken
                   (mailbox.go l.30): the sender is PARKED (parkq: first come, first
                   served, like the channel's wait queue); taking a mail out of a full
                   mailbox hands the slot to the first parked sender in the same step
                   (the runtime's chanrecv copies the waiting sender's value)
     ExecFiller(k) / ExecHello(k) / Release(k) / ExecSub(k) / ExecTerm(k)
                   mailbox.go l.31-45: the mailbox goroutine takes the next mail and
                   runs it.  hello (action 100) is the slow method: it stays in the
                   method body until the environment lets it return (Release); a filler
                   is a post that returns at once; registerEvent (action 0) is
                   signal.go l.135-174 = addSignalUser l.60-102 (MakeHandler on the
                   caller's end point + append under signalsMutex) and the Reply.
                   THE GOROUTINE DOES NOT KNOW THAT ITS OBJECT WAS REMOVED: mails that
                   were queued or parked when the object went are run afterwards
   the environment
     Break(c)      the server-side writes of connection c fail from now on (error other
                   than io.EOF); its read side has not noticed: c stays registered
     Drop(c)       the read side reports: endPoint.closeWith (endpoint.go l.236-252):
                   every handler detached under handlersMutex, then one goroutine per
                   handler runs its closer
     Closer(c, m)  signal.go l.88-92 -> forgetSignalUser l.116-133: the user leaves the
                   table (swap with the last entry) if it is still there

   Deviations (FALSE in the property configuration):
     Dev_LateRegisterAccepted     THE CODE AS FOUND: a registerEvent that was queued (or
                                  parked) when the object was removed is run after the
                                  termination and ACCEPTED: a subscriber of a dead object,
                                  never told, its disconnection handler never released
     Dev_StopAtFailedSend         the notification loop ends at the first write error
     Dev_KeepHandlerOnFailedSend  RemoveHandler only after a successful write
     Dev_KeepTableOnTerminate     the snapshot does not clear the table: the second
                                  OnTerminate of stubObject tells everybody again
     Dev_CloseBoxOnRemove         Remove closes the mailbox channel: a parked (or racing)
                                  sender panics - the server process dies
     Dev_MailboxStopsOnRemove     the mailbox goroutine ends with the removal: queued and
                                  parked mails are never run, never answered, the parked
                                  connections never come back
     Dev_BoxKeptAfterRemove       Remove leaves boxes[id] (Service.tla's deviation)
     Dev_TerminateCallEndsService the terminator handed to an object is the service's: a remote
                                  terminate of one object takes every object out of the table
     Dev_ForgetDropsLast          forgetSignalUser without the swap: the LAST entry of the table goes,
                                  the subscriber that left stays (told later, the other one not)
     Dev_AddUnderLock             addSignalUser keeps signalsMutex from the duplicate check to the
                                  append (LockSteps): with RemoveHandler - handlersMutex, then
                                  signalsMutex in the closer - a wait cycle on the connection of an
                                  existing subscriber: Remove never returns, the connection is dead
     Dev_SendUnderReadLock        Receive keeps the read lock during `box <- mail`: a
                                  parked sender holds it, Remove waits for it, and a
                                  waiting writer keeps every other reader out - the whole
                                  service stops; with a remote terminate for ever          *)
EXTENDS Naturals, Sequences, FiniteSets, TLC

CONSTANTS Objs,          \* objects of the service (numbers)
          Conns,         \* connections
          MsgTab,        \* <<[c, kind, o, r]>>: the messages of the scenario; kind: call | post | sub | unsub | term
          InitReg,       \* registrations (kind sub) in place at the start, in any table order
          BoxCap,        \* slots of a mailbox (10 in the code)
          WithFill,      \* Fill(k): BoxCap fillers at once (the harness' way to a full mailbox)
          Removable,     \* objects the scenario removes through Service.Remove
          WithSvcTerm,   \* the scenario may call Service.Terminate
          MaxBreaks,     \* connections whose writes may start to fail
          MaxDrops,      \* connections that may shut down
          Dev_LateRegisterAccepted, Dev_StopAtFailedSend, Dev_KeepHandlerOnFailedSend,
          Dev_KeepTableOnTerminate, Dev_CloseBoxOnRemove, Dev_MailboxStopsOnRemove,
          Dev_BoxKeptAfterRemove, Dev_SendUnderReadLock, Dev_TerminateCallEndsService,
          LockSteps,     \* the two mutexes of signal.go x endpoint.go with their owners: RemoveHandler and
                         \* addSignalUser as the steps a second goroutine can interleave with
          Dev_ForgetDropsLast, Dev_AddUnderLock

Msgs == 1..Len(MsgTab)
C(m) == MsgTab[m].c
K(m) == MsgTab[m].kind
O(m) == MsgTab[m].o
R(m) == MsgTab[m].r           \* kind unsub: the registration it cancels (else 0)
F    == 0                     \* a filler mail
NONE == Len(MsgTab) + 1       \* "no mail"
Regs == {m \in Msgs : K(m) = "sub"}

VARIABLES
  reg,       \* k -> objects[k] is there
  boxreg,    \* k -> boxes[k] is there
  boxclosed, \* k -> the mailbox channel was closed (Dev_CloseBoxOnRemove)
  svcpc,     \* "idle" | "wait" | "run" | "done"     Service.Terminate
  svcrest,   \* objects Service.Terminate still has to terminate
  sub,       \* k -> sequence of registrations (signalHandler.signals, in table order)
  hnd,       \* c -> registrations whose disconnection handler sits on c's end point
  closing,   \* c -> handlers detached by the shutdown whose closer has not run yet
  health,    \* c -> "ok" | "wfail" | "down"
  cq,        \* c -> consumer queue of the connection
  box,       \* k -> mailbox (sequence of messages and fillers)
  parkq,     \* k -> senders parked in `box <- mail`, in order of arrival
  busy,      \* k -> the mail the mailbox goroutine is running | NONE
  stage,     \* m -> "unsent" | "cq" | "parked" | "box" | "busy" | "done" | "refused"
  ans,       \* m -> "none" | "ok" | "err" | "lost"   what came back on the connection
  late,      \* m -> the mailbox was looked up after the removal
  tpc,       \* k -> "none" | "hook" | "snap" | "send" | "rel" | "fin" | "done"
  tby,       \* k -> "none" | "api" | "box" | "svc"
  tph,       \* k -> 1 | 2: which of the two signalHandler.OnTerminate calls
  ttodo,     \* k -> what is left of the snapshot
  tsent,     \* k -> the last termination message was written
  snapped,   \* k -> registrations that were in a snapshot ("remaining subscribers")
  term,      \* k -> calls of the implementor's termination hook
  told,      \* registration -> termination messages that reached the subscriber
  latesub,   \* registrations accepted after the first snapshot of their object's termination
  rm,        \* k -> "idle" | "wait" | "run" | "ok" | "err"   Service.Remove(k) from the API
  wantW,     \* threads waiting for the write lock of the service (Dev_SendUnderReadLock)
  crashed,   \* the process died
  hown,      \* c -> owner of the end point's handlersMutex (0: free; LockSteps)
  sown,      \* k -> owner of the signal handler's signalsMutex (0: free; LockSteps)
  bpc,       \* k -> where the mailbox goroutine stands inside addSignalUser: "none" | "make" | "made" | "undo" (LockSteps)
  active,    \* registrations as their CLIENTS see them: accepted, not cancelled, connection not shut down
  due,       \* k -> the registrations active when the termination of k took its first snapshot
  rel        \* c -> disconnection handlers of subscribers released on c's end point so far

svars == <<reg, boxreg, boxclosed, svcpc, svcrest>>
gvars == <<sub, hnd, closing, health>>
mvars == <<cq, box, parkq, busy, stage, ans, late>>
tvars == <<tpc, tby, tph, ttodo, tsent, snapped, term, told, latesub>>
avars == <<rm, wantW, crashed>>
xvars == <<hown, sown, bpc, active, due, rel>>
vars  == <<svars, gvars, mvars, tvars, avars, xvars>>

Perms(S) == {s \in [1..Cardinality(S) -> S] : \A i, j \in 1..Cardinality(S) : i # j => s[i] # s[j]}

Init ==
  /\ reg = [k \in Objs |-> TRUE] /\ boxreg = [k \in Objs |-> TRUE]
  /\ boxclosed = [k \in Objs |-> FALSE]
  /\ svcpc = "idle" /\ svcrest = {}
  /\ sub \in {f \in [Objs -> UNION {Perms(T) : T \in SUBSET InitReg}] :
                \A k \in Objs : {f[k][i] : i \in 1..Len(f[k])} = {m \in InitReg : O(m) = k}}
  /\ hnd = [c \in Conns |-> {m \in InitReg : C(m) = c}]
  /\ closing = [c \in Conns |-> {}]
  /\ health = [c \in Conns |-> "ok"]
  /\ cq = [c \in Conns |-> <<>>]
  /\ box = [k \in Objs |-> <<>>] /\ parkq = [k \in Objs |-> <<>>]
  /\ busy = [k \in Objs |-> NONE]
  /\ stage = [m \in Msgs |-> IF m \in InitReg THEN "done" ELSE "unsent"]
  /\ ans = [m \in Msgs |-> IF m \in InitReg THEN "ok" ELSE "none"]
  /\ late = [m \in Msgs |-> FALSE]
  /\ tpc = [k \in Objs |-> "none"] /\ tby = [k \in Objs |-> "none"]
  /\ tph = [k \in Objs |-> 1] /\ ttodo = [k \in Objs |-> <<>>]
  /\ tsent = [k \in Objs |-> FALSE] /\ snapped = [k \in Objs |-> {}]
  /\ term = [k \in Objs |-> 0] /\ told = [m \in Regs |-> 0] /\ latesub = {}
  /\ rm = [k \in Objs |-> "idle"] /\ wantW = {} /\ crashed = FALSE
  /\ hown = [c \in Conns |-> 0] /\ sown = [k \in Objs |-> 0] /\ bpc = [k \in Objs |-> "none"]
  /\ active = InitReg /\ due = [k \in Objs |-> {}] /\ rel = [c \in Conns |-> 0]

Alive == ~crashed
\* what a write on connection c of an answer to m yields
Answer(m, a) == IF health[C(m)] = "ok" THEN a ELSE "lost"
Parked(c) == \E k \in Objs : \E i \in 1..Len(parkq[k]) : C(parkq[k][i]) = c
\* the read lock of the service is free: nobody sleeps in `box <- mail` while holding it
LockFree == ~Dev_SendUnderReadLock \/ \A k \in Objs : parkq[k] = <<>>

-----------------------------------------------------------------------------
(* the object table *)

\* the deletion inside the critical section of Remove (the caller sets tpc, tby)
Delete(k, by) ==
  /\ reg' = IF Dev_TerminateCallEndsService /\ by = "box" THEN [j \in Objs |-> FALSE] ELSE [reg EXCEPT ![k] = FALSE]
  /\ boxreg' = IF Dev_BoxKeptAfterRemove THEN boxreg
               ELSE IF Dev_TerminateCallEndsService /\ by = "box" THEN [j \in Objs |-> FALSE]
               ELSE [boxreg EXCEPT ![k] = FALSE]
  /\ boxclosed' = IF Dev_CloseBoxOnRemove THEN [boxclosed EXCEPT ![k] = TRUE] ELSE boxclosed
  /\ crashed' = (Dev_CloseBoxOnRemove /\ parkq[k] # <<>>)      \* "send on closed channel" in a parked sender

\* Service.Remove(k) called from the API
LockedApi(k) ==
  IF reg[k]
    THEN /\ Delete(k, "api")
         /\ tpc' = [tpc EXCEPT ![k] = "hook"] /\ tby' = [tby EXCEPT ![k] = "api"]
         /\ rm' = [rm EXCEPT ![k] = "run"]
         /\ UNCHANGED <<svcpc, svcrest, gvars, mvars, tph, ttodo, tsent, snapped, term, told, latesub>>
    ELSE /\ rm' = [rm EXCEPT ![k] = "err"]
         /\ UNCHANGED <<svars, gvars, mvars, tvars, crashed>>

RemoveCall(k) ==
  /\ Alive /\ rm[k] = "idle" /\ k \in Removable
  /\ IF LockFree THEN LockedApi(k) /\ UNCHANGED wantW
     ELSE /\ wantW' = wantW \cup {<<"api", k>>} /\ rm' = [rm EXCEPT ![k] = "wait"]
          /\ UNCHANGED <<svars, gvars, mvars, tvars, crashed>>

\* the terminate call m (busy[k] = m) is over: a Reply, whatever Remove said
EndOfTermCall(k) ==
  LET m == busy[k] IN
  /\ busy' = [busy EXCEPT ![k] = NONE]
  /\ stage' = [stage EXCEPT ![m] = "done"]
  /\ ans' = [ans EXCEPT ![m] = Answer(m, "ok")]

LockedBox(k) ==
  IF reg[k]
    THEN /\ Delete(k, "box")
         /\ tpc' = [tpc EXCEPT ![k] = "hook"] /\ tby' = [tby EXCEPT ![k] = "box"]
         /\ UNCHANGED <<svcpc, svcrest, gvars, mvars, tph, ttodo, tsent, snapped, term, told, latesub, rm>>
    ELSE /\ EndOfTermCall(k)
         /\ UNCHANGED <<svars, gvars, cq, box, parkq, late, tvars, rm, crashed>>

LockedSvc ==
  /\ svcrest' = {k \in Objs : reg[k]}
  /\ reg' = [k \in Objs |-> FALSE] /\ boxreg' = [k \in Objs |-> FALSE]
  /\ svcpc' = "run"
  /\ UNCHANGED <<boxclosed, gvars, mvars, tvars, rm, crashed>>

SvcTermCall ==
  /\ Alive /\ svcpc = "idle" /\ WithSvcTerm
  /\ IF LockFree THEN LockedSvc /\ UNCHANGED wantW
     ELSE /\ wantW' = wantW \cup {<<"svc", 0>>} /\ svcpc' = "wait"
          /\ UNCHANGED <<reg, boxreg, boxclosed, svcrest, gvars, mvars, tvars, rm, crashed>>

\* a waiting writer gets the lock once the last reader has left
Acquire ==
  /\ Alive /\ wantW # {} /\ LockFree
  /\ \E t \in wantW :
       /\ wantW' = wantW \ {t}
       /\ \/ t[1] = "api" /\ LockedApi(t[2])
          \/ t[1] = "box" /\ LockedBox(t[2])
          \/ t[1] = "svc" /\ LockedSvc

\* Service.Terminate takes the next object (map order: any)
SvcPick ==
  /\ Alive /\ svcpc = "run" /\ svcrest # {}
  /\ \A k \in Objs : tby[k] = "svc" => tpc[k] = "done"
  /\ \E k \in svcrest :
       /\ svcrest' = svcrest \ {k}
       /\ tpc' = [tpc EXCEPT ![k] = "hook"] /\ tby' = [tby EXCEPT ![k] = "svc"]
  /\ UNCHANGED <<reg, boxreg, boxclosed, svcpc, gvars, mvars, tph, ttodo, tsent, snapped, term, told, latesub, avars>>

SvcDone ==
  /\ Alive /\ svcpc = "run" /\ svcrest = {}
  /\ \A k \in Objs : tby[k] = "svc" => tpc[k] = "done"
  /\ svcpc' = "done"
  /\ UNCHANGED <<reg, boxreg, boxclosed, svcrest, gvars, mvars, tvars, avars>>

-----------------------------------------------------------------------------
(* the termination of one object *)

THook(k) ==
  /\ Alive /\ tpc[k] = "hook"
  /\ term' = [term EXCEPT ![k] = @ + 1]
  /\ tpc' = [tpc EXCEPT ![k] = "snap"]
  /\ UNCHANGED <<svars, gvars, mvars, tby, tph, ttodo, tsent, snapped, told, latesub, avars>>

TSnap(k) ==
  /\ Alive /\ tpc[k] = "snap"
  /\ ttodo' = [ttodo EXCEPT ![k] = sub[k]]
  /\ snapped' = [snapped EXCEPT ![k] = @ \cup {sub[k][i] : i \in 1..Len(sub[k])}]
  /\ sub' = IF Dev_KeepTableOnTerminate THEN sub ELSE [sub EXCEPT ![k] = <<>>]
  /\ tpc' = [tpc EXCEPT ![k] = IF sub[k] # <<>> THEN "send" ELSE IF tph[k] = 1 THEN "snap" ELSE "fin"]
  /\ tph' = [tph EXCEPT ![k] = IF sub[k] = <<>> /\ tph[k] = 1 THEN 2 ELSE @]
  /\ UNCHANGED <<svars, hnd, closing, health, mvars, tby, tsent, term, told, latesub, avars>>

\* the end of one notification loop
AfterLoop(k) == IF tph[k] = 1 THEN "snap" ELSE "fin"

TSend(k) ==
  /\ Alive /\ tpc[k] = "send"
  /\ LET m == Head(ttodo[k])
         okw == health[C(m)] = "ok"
     IN /\ told' = IF okw THEN [told EXCEPT ![m] = @ + 1] ELSE told
        /\ tsent' = [tsent EXCEPT ![k] = okw]
        /\ IF Dev_StopAtFailedSend /\ ~okw
             THEN /\ ttodo' = [ttodo EXCEPT ![k] = <<>>]
                  /\ tpc' = [tpc EXCEPT ![k] = AfterLoop(k)]
                  /\ tph' = [tph EXCEPT ![k] = 2]
             ELSE /\ tpc' = [tpc EXCEPT ![k] = "rel"]
                  /\ UNCHANGED <<ttodo, tph>>
  /\ UNCHANGED <<svars, gvars, mvars, tby, snapped, term, latesub, avars>>

TRelBody(k) ==
  /\ Alive
  /\ LET m == Head(ttodo[k]) IN
     /\ hnd' = IF Dev_KeepHandlerOnFailedSend /\ ~tsent[k] THEN hnd
               ELSE [hnd EXCEPT ![C(m)] = @ \ {m}]       \* nothing there after a shutdown: an error, ignored
     /\ ttodo' = [ttodo EXCEPT ![k] = Tail(@)]
     /\ tpc' = [tpc EXCEPT ![k] = IF Tail(ttodo[k]) # <<>> THEN "send" ELSE AfterLoop(k)]
     /\ tph' = [tph EXCEPT ![k] = IF Tail(ttodo[k]) = <<>> THEN 2 ELSE @]
  /\ UNCHANGED <<svars, sub, closing, health, mvars, tby, tsent, snapped, term, told, latesub, avars>>
TRelease(k) == tpc[k] = "rel" /\ TRelBody(k)

TFinish(k) ==
  /\ Alive /\ tpc[k] = "fin"
  /\ tpc' = [tpc EXCEPT ![k] = "done"]
  /\ \/ tby[k] = "api" /\ rm' = [rm EXCEPT ![k] = "ok"] /\ UNCHANGED <<busy, stage, ans>>
     \/ tby[k] = "box" /\ EndOfTermCall(k) /\ UNCHANGED rm
     \/ tby[k] = "svc" /\ UNCHANGED <<rm, busy, stage, ans>>
  /\ UNCHANGED <<svars, gvars, cq, box, parkq, late, tby, tph, ttodo, tsent, snapped, term, told, latesub, wantW, crashed>>

-----------------------------------------------------------------------------
(* the way of a message *)

Send(m) ==
  /\ Alive /\ stage[m] = "unsent" /\ health[C(m)] # "down"
  /\ \A n \in Msgs : (C(n) = C(m) /\ n < m) => stage[n] # "unsent"     \* a client writes its frames in table order
  /\ stage' = [stage EXCEPT ![m] = "cq"]
  /\ cq' = [cq EXCEPT ![C(m)] = Append(@, m)]
  /\ UNCHANGED <<svars, gvars, box, parkq, busy, ans, late, tvars, avars>>

Route(c) ==
  /\ Alive /\ cq[c] # <<>> /\ ~Parked(c)
  /\ ~Dev_SendUnderReadLock \/ wantW = {}             \* a waiting writer keeps new readers out
  /\ LET m == Head(cq[c])
         k == O(m)
     IN /\ cq' = [cq EXCEPT ![c] = Tail(@)]
        /\ IF boxreg[k]
             THEN /\ late' = [late EXCEPT ![m] = ~reg[k]]
                  /\ IF boxclosed[k]
                       THEN crashed' = TRUE /\ UNCHANGED <<box, parkq, stage>>
                       ELSE /\ UNCHANGED crashed
                            /\ IF Len(box[k]) < BoxCap
                                 THEN /\ box' = [box EXCEPT ![k] = Append(@, m)]
                                      /\ stage' = [stage EXCEPT ![m] = "box"]
                                      /\ UNCHANGED parkq
                                 ELSE /\ parkq' = [parkq EXCEPT ![k] = Append(@, m)]
                                      /\ stage' = [stage EXCEPT ![m] = "parked"]
                                      /\ UNCHANGED box
                  /\ UNCHANGED ans
             ELSE /\ late' = [late EXCEPT ![m] = TRUE]
                  /\ stage' = [stage EXCEPT ![m] = "refused"]
                  /\ ans' = [ans EXCEPT ![m] = Answer(m, "err")]      \* ErrObjectNotFound, posts included
                  /\ UNCHANGED <<box, parkq, crashed>>
  /\ UNCHANGED <<svars, gvars, busy, tvars, rm, wantW>>

\* taking a mail out of a full mailbox hands the free slot to the first parked sender in the same
\* step (runtime chanrecv: the receiver copies the waiting sender's value into the buffer)
PopBox(k)  == IF parkq[k] # <<>> THEN Append(Tail(box[k]), Head(parkq[k])) ELSE Tail(box[k])
PopPark(k) == IF parkq[k] # <<>> THEN Tail(parkq[k]) ELSE parkq[k]
Unparked(k, st) == IF parkq[k] # <<>> THEN [st EXCEPT ![Head(parkq[k])] = "box"] ELSE st
Pop(k) == box' = [box EXCEPT ![k] = PopBox(k)] /\ parkq' = [parkq EXCEPT ![k] = PopPark(k)]

\* the mailbox goroutine of k can take the next mail
Stopped(k) == Dev_MailboxStopsOnRemove /\ ~reg[k]     \* ... unless it has ended with its object
Idle(k) == Alive /\ busy[k] = NONE /\ box[k] # <<>> /\ ~Stopped(k)

ExecFiller(k) ==
  /\ Idle(k) /\ Head(box[k]) = F
  /\ Pop(k) /\ stage' = Unparked(k, stage)
  /\ UNCHANGED <<svars, gvars, cq, busy, ans, late, tvars, avars>>

ExecHello(k) ==
  /\ Idle(k) /\ Head(box[k]) # F /\ K(Head(box[k])) \in {"call", "post"}
  /\ Pop(k)
  /\ busy' = [busy EXCEPT ![k] = Head(box[k])]
  /\ stage' = Unparked(k, [stage EXCEPT ![Head(box[k])] = "busy"])
  /\ UNCHANGED <<svars, gvars, cq, ans, late, tvars, avars>>

Release(k) ==
  /\ Alive /\ busy[k] # NONE /\ K(busy[k]) \in {"call", "post"}
  /\ LET m == busy[k] IN
     /\ busy' = [busy EXCEPT ![k] = NONE]
     /\ stage' = [stage EXCEPT ![m] = "done"]
     /\ ans' = IF K(m) = "call" THEN [ans EXCEPT ![m] = Answer(m, "ok")] ELSE ans
  /\ UNCHANGED <<svars, gvars, cq, box, parkq, late, tvars, avars>>

\* registerEvent: the object has been told to terminate (first snapshot taken)
Terminated(k) == tpc[k] \notin {"none", "hook"} /\ ~(tpc[k] = "snap" /\ tph[k] = 1)

ExecSub(k) ==
  /\ Idle(k) /\ Head(box[k]) # F /\ K(Head(box[k])) = "sub"
  /\ LET m == Head(box[k]) IN
     /\ Pop(k)
     /\ stage' = Unparked(k, [stage EXCEPT ![m] = "done"])
     /\ IF Terminated(k) /\ ~Dev_LateRegisterAccepted
          THEN /\ ans' = [ans EXCEPT ![m] = Answer(m, "err")]
               /\ UNCHANGED <<sub, hnd>>
               /\ UNCHANGED latesub
          ELSE /\ ans' = [ans EXCEPT ![m] = Answer(m, "ok")]
               /\ sub' = [sub EXCEPT ![k] = Append(@, m)]
               /\ hnd' = [hnd EXCEPT ![C(m)] = @ \cup {m}]      \* also on an end point that has shut down: it stays there
               /\ latesub' = IF Terminated(k) THEN latesub \cup {m} ELSE latesub
  /\ UNCHANGED <<svars, closing, health, cq, busy, late, tpc, tby, tph, ttodo, tsent, snapped, term, told, avars>>

ExecTerm(k) ==
  /\ Idle(k) /\ Head(box[k]) # F /\ K(Head(box[k])) = "term"
  /\ LET m == Head(box[k]) IN
     IF LockFree
       THEN IF reg[k]
              THEN /\ Delete(k, "box")
                   /\ tpc' = [tpc EXCEPT ![k] = "hook"] /\ tby' = [tby EXCEPT ![k] = "box"]
                   /\ Pop(k)
                   /\ busy' = [busy EXCEPT ![k] = m]
                   /\ stage' = Unparked(k, [stage EXCEPT ![m] = "busy"])
                   /\ UNCHANGED <<svcpc, svcrest, gvars, cq, ans, late, tph, ttodo, tsent, snapped, term, told, latesub, rm, wantW>>
              ELSE /\ Pop(k)
                   /\ stage' = Unparked(k, [stage EXCEPT ![m] = "done"])
                   /\ ans' = [ans EXCEPT ![m] = Answer(m, "ok")]
                   /\ UNCHANGED <<svars, gvars, cq, busy, late, tvars, avars>>
       ELSE /\ Pop(k)
            /\ busy' = [busy EXCEPT ![k] = m]
            /\ stage' = Unparked(k, [stage EXCEPT ![m] = "busy"])
            /\ wantW' = wantW \cup {<<"box", k>>}
            /\ UNCHANGED <<svars, gvars, cq, ans, late, tvars, rm, crashed>>

\* the harness' way to a full mailbox: BoxCap posts that return at once, behind a mail that does not
Fill(k) ==
  /\ WithFill /\ Alive /\ busy[k] # NONE /\ box[k] = <<>> /\ boxreg[k]
  /\ box' = [box EXCEPT ![k] = [i \in 1..BoxCap |-> F]]
  /\ UNCHANGED <<svars, gvars, cq, parkq, busy, stage, ans, late, tvars, avars>>

-----------------------------------------------------------------------------
(* the connections *)

Broken == {c \in Conns : health[c] = "wfail"}
Down   == {c \in Conns : health[c] = "down"}
Break(c) ==
  /\ Alive /\ health[c] = "ok" /\ Cardinality(Broken) < MaxBreaks
  /\ health' = [health EXCEPT ![c] = "wfail"]
  /\ UNCHANGED <<svars, sub, hnd, closing, mvars, tvars, avars>>

Drop(c) ==
  /\ Alive /\ health[c] # "down" /\ Cardinality(Down) < MaxDrops
  /\ health' = [health EXCEPT ![c] = "down"]
  /\ closing' = [closing EXCEPT ![c] = hnd[c]]
  /\ hnd' = [hnd EXCEPT ![c] = {}]
  /\ UNCHANGED <<svars, sub, mvars, tvars, avars>>

\* forgetSignalUser: o.signals[i] = o.signals[last]; o.signals = o.signals[:last]
Forget(s, m) ==
  IF \E i \in 1..Len(s) : s[i] = m
    THEN LET i == CHOOSE j \in 1..Len(s) : s[j] = m
             n == Len(s)
         IN IF Dev_ForgetDropsLast THEN SubSeq(s, 1, n - 1)        \* the swap is missing: the LAST entry goes
            ELSE SubSeq([s EXCEPT ![i] = s[n]], 1, n - 1)
    ELSE s

Closer(c, m) ==
  /\ Alive /\ m \in closing[c]
  /\ closing' = [closing EXCEPT ![c] = @ \ {m}]
  /\ sub' = [sub EXCEPT ![O(m)] = Forget(@, m)]
  /\ UNCHANGED <<svars, hnd, health, mvars, tvars, avars>>

-----------------------------------------------------------------------------
(* the layer of the two mutexes, of the clients' view of the registrations and of unregisterEvent.
   The actions above leave xvars alone; here each gets its part of them.  With LockSteps = FALSE
   RemoveHandler and addSignalUser are single steps (TRelease, ExecSub); with LockSteps = TRUE they are the
   critical sections of the code, with the OWNER of each mutex:

     XTRelLock(k)    endpoint.go RemoveHandler l.262-268: handlersMutex of the subscriber's end point taken
                     (kept while the closer runs: gate handler.closeWith, l.93)
     XTRelCloser(k)  Handler.closeWith l.92-100 -> the closer signal.go l.88-92 -> forgetSignalUser l.116-133:
                     signalsMutex of the object taken INSIDE handlersMutex; handler gone, both released
     XSubCheck(k)    addSignalUser l.74-82: signalsMutex, duplicate check, released
                     (Dev_AddUnderLock: kept until the append)
     XSubMake(k)     l.93 EndPoint.MakeHandler (endpoint.go l.278-292): handlersMutex of the CALLER's end point
                     (gate signal.add.made, l.94)
     XSubAppend(k)   l.96-99: signalsMutex, append, released; then the Reply
     XSend / XDrop   endPoint.dispatch / closeWith need the end point's handlersMutex: a connection whose mutex
                     is held for ever dispatches nothing any more
     XCloser / XTSnap / XExecUnsub need signalsMutex
   unregisterEvent (UnregisterEvent l.176-208 -> removeSignalUser l.106-113): forgetSignalUser takes the user out
   of the table (SWAP WITH THE LAST ENTRY, l.122-123), RemoveHandler releases its handler, empty Reply; an
   unknown user (or one registered by another connection) is an error.                                      *)
Tid(k) == IF tby[k] = "box" THEN 10 + k ELSE k        \* the goroutine that terminates k
Bid(k) == 10 + k                                       \* the mailbox goroutine of k
Count(c, before, after) == [rel EXCEPT ![c] = @ + Cardinality(before \ after)]

Plain(A) == A /\ UNCHANGED xvars

XSend(m) == Send(m) /\ (LockSteps => hown[C(m)] = 0) /\ UNCHANGED xvars
XDrop(c) ==
  /\ Drop(c) /\ (LockSteps => hown[c] = 0)
  /\ active' = active \ {m \in Regs : C(m) = c}
  /\ rel' = [rel EXCEPT ![c] = @ + Cardinality(hnd[c])]
  /\ UNCHANGED <<hown, sown, bpc, due>>
XCloser(c, m) == Closer(c, m) /\ (LockSteps => sown[O(m)] = 0) /\ UNCHANGED xvars
XTSnap(k) ==
  /\ TSnap(k) /\ (LockSteps => sown[k] = 0)
  /\ due' = IF tph[k] = 1 THEN [due EXCEPT ![k] = {m \in active : O(m) = k}] ELSE due
  /\ UNCHANGED <<hown, sown, bpc, active, rel>>
XTRelease(k) ==
  /\ ~LockSteps /\ TRelease(k)
  /\ rel' = Count(C(Head(ttodo[k])), hnd[C(Head(ttodo[k]))], hnd'[C(Head(ttodo[k]))])
  /\ UNCHANGED <<hown, sown, bpc, active, due>>
XTRelLock(k) ==
  /\ LockSteps /\ Alive /\ tpc[k] = "rel"
  /\ LET m == Head(ttodo[k])
         c == C(m)
     IN /\ hown[c] = 0
        /\ IF m \in hnd[c] /\ ~(Dev_KeepHandlerOnFailedSend /\ ~tsent[k])
             THEN /\ hown' = [hown EXCEPT ![c] = Tid(k)]
                  /\ tpc' = [tpc EXCEPT ![k] = "relc"]
                  /\ UNCHANGED <<svars, gvars, mvars, tby, tph, ttodo, tsent, snapped, term, told, latesub, avars,
                                 sown, bpc, active, due, rel>>
             ELSE TRelBody(k) /\ UNCHANGED xvars          \* no handler in that slot: an error, ignored
XTRelCloser(k) ==
  /\ LockSteps /\ tpc[k] = "relc" /\ sown[k] = 0
  /\ TRelBody(k)
  /\ hown' = [hown EXCEPT ![C(Head(ttodo[k]))] = 0]
  /\ rel' = [rel EXCEPT ![C(Head(ttodo[k]))] = @ + 1]
  /\ UNCHANGED <<sown, bpc, active, due>>

XExecSub(k) ==
  /\ ~LockSteps /\ ExecSub(k)
  /\ active' = IF sub'[k] # sub[k] THEN active \cup {Head(box[k])} ELSE active
  /\ UNCHANGED <<hown, sown, bpc, due, rel>>
XSubCheck(k) ==
  /\ LockSteps /\ Idle(k) /\ Head(box[k]) # F /\ K(Head(box[k])) = "sub" /\ sown[k] = 0
  /\ LET m == Head(box[k]) IN
     /\ Pop(k)
     /\ IF Terminated(k) /\ ~Dev_LateRegisterAccepted
          THEN /\ stage' = Unparked(k, [stage EXCEPT ![m] = "done"])
               /\ ans' = [ans EXCEPT ![m] = Answer(m, "err")]
               /\ UNCHANGED <<busy, xvars>>
          ELSE /\ stage' = Unparked(k, [stage EXCEPT ![m] = "busy"])
               /\ busy' = [busy EXCEPT ![k] = m]
               /\ bpc' = [bpc EXCEPT ![k] = "make"]
               /\ sown' = IF Dev_AddUnderLock THEN [sown EXCEPT ![k] = Bid(k)] ELSE sown
               /\ UNCHANGED <<ans, hown, active, due, rel>>
  /\ UNCHANGED <<svars, gvars, cq, late, tvars, avars>>
XSubMake(k) ==
  /\ LockSteps /\ Alive /\ bpc[k] = "make" /\ hown[C(busy[k])] = 0
  /\ hnd' = [hnd EXCEPT ![C(busy[k])] = @ \cup {busy[k]}]
  /\ bpc' = [bpc EXCEPT ![k] = "made"]
  /\ UNCHANGED <<svars, sub, closing, health, mvars, tvars, avars, hown, sown, active, due, rel>>
XSubAppend(k) ==
  /\ LockSteps /\ Alive /\ bpc[k] = "made" /\ sown[k] \in {0, Bid(k)}
  /\ LET m == busy[k] IN
     /\ sown' = [sown EXCEPT ![k] = 0]
     /\ IF Terminated(k) /\ ~Dev_LateRegisterAccepted
          THEN \* the repaired tree (/repo fix "a terminated object accepts no subscriber"): the second look under
               \* signalsMutex finds the object terminated; the handler just made is given back by RemoveHandler,
               \* outside signalsMutex (XSubUndo), then the request is answered with an error
               /\ bpc' = [bpc EXCEPT ![k] = "undo"]
               /\ UNCHANGED <<busy, stage, ans, hnd, sub, latesub, active>>
          ELSE /\ busy' = [busy EXCEPT ![k] = NONE]
               /\ stage' = [stage EXCEPT ![m] = "done"]
               /\ bpc' = [bpc EXCEPT ![k] = "none"]
               /\ ans' = [ans EXCEPT ![m] = Answer(m, "ok")]
               /\ sub' = [sub EXCEPT ![k] = Append(@, m)]
               /\ latesub' = IF Terminated(k) THEN latesub \cup {m} ELSE latesub
               /\ active' = active \cup {m}
               /\ UNCHANGED hnd
  /\ UNCHANGED <<svars, closing, health, cq, box, parkq, late, tpc, tby, tph, ttodo, tsent, snapped, term, told, avars,
                 hown, due, rel>>
\* RemoveHandler(id) of the handler made for the refused registration: needs the end point's handler mutex; its closer
\* (forgetSignalUser) finds nothing in the table
XSubUndo(k) ==
  /\ LockSteps /\ Alive /\ bpc[k] = "undo" /\ hown[C(busy[k])] = 0
  /\ LET m == busy[k] IN
     /\ busy' = [busy EXCEPT ![k] = NONE]
     /\ stage' = [stage EXCEPT ![m] = "done"]
     /\ bpc' = [bpc EXCEPT ![k] = "none"]
     /\ ans' = [ans EXCEPT ![m] = Answer(m, "err")]
     /\ hnd' = [hnd EXCEPT ![C(m)] = @ \ {m}]
     /\ rel' = [rel EXCEPT ![C(m)] = @ + 1]
  /\ UNCHANGED <<svars, sub, latesub, active, closing, health, cq, box, parkq, late, tpc, tby, tph, ttodo, tsent, snapped, term,
                 told, avars, hown, sown, due>>

XExecUnsub(k) ==
  /\ Idle(k) /\ Head(box[k]) # F /\ K(Head(box[k])) = "unsub"
  /\ LET m == Head(box[k])
         u == R(m)
         c == C(m)
         found == C(u) = c /\ \E i \in 1..Len(sub[k]) : sub[k][i] = u
     IN /\ LockSteps => (sown[k] = 0 /\ hown[c] = 0)
        /\ Pop(k)
        /\ stage' = Unparked(k, [stage EXCEPT ![m] = "done"])
        /\ IF found
             THEN /\ sub' = [sub EXCEPT ![k] = Forget(@, u)]
                  /\ hnd' = [hnd EXCEPT ![c] = @ \ {u}]
                  /\ rel' = Count(c, hnd[c], hnd'[c])
                  /\ active' = active \ {u}
                  /\ ans' = [ans EXCEPT ![m] = Answer(m, "ok")]
             ELSE /\ ans' = [ans EXCEPT ![m] = Answer(m, "err")]       \* "unknown user id"
                  /\ UNCHANGED <<sub, hnd, rel, active>>
  /\ UNCHANGED <<svars, closing, health, cq, busy, late, tvars, avars, hown, sown, bpc, due>>

TermStep(k) == Plain(THook(k)) \/ XTSnap(k) \/ Plain(TSend(k)) \/ XTRelease(k) \/ XTRelLock(k) \/ XTRelCloser(k)
               \/ Plain(TFinish(k))

\* what the server does by itself
Internal ==
  \/ Plain(Acquire) \/ Plain(SvcPick) \/ Plain(SvcDone)
  \/ \E c \in Conns : Plain(Route(c)) \/ \E m \in Regs : XCloser(c, m)
  \/ \E k \in Objs : \/ Plain(ExecFiller(k)) \/ Plain(ExecHello(k)) \/ Plain(ExecTerm(k))
                      \/ XExecSub(k) \/ XSubCheck(k) \/ XSubMake(k) \/ XSubAppend(k) \/ XSubUndo(k) \/ XExecUnsub(k)
\* what the environment decides: clients, API callers, the slow method, the network
Env ==
  \/ Plain(SvcTermCall)
  \/ \E m \in Msgs : XSend(m)
  \/ \E k \in Objs : Plain(RemoveCall(k)) \/ Plain(Release(k)) \/ Plain(Fill(k))
  \/ \E c \in Conns : Plain(Break(c)) \/ XDrop(c)

Next == Internal \/ Env \/ \E k \in Objs : TermStep(k)
Spec == Init /\ [][Next]_vars

-----------------------------------------------------------------------------
(* C16 under faults *)

TypeOK ==
  /\ \A k \in Objs : /\ tpc[k] \in {"none", "hook", "snap", "send", "rel", "relc", "fin", "done"}
                     /\ tby[k] \in {"none", "api", "box", "svc"}
                     /\ busy[k] \in Msgs \cup {NONE}
                     /\ Len(box[k]) <= BoxCap
                     /\ rm[k] \in {"idle", "wait", "run", "ok", "err"}
  /\ \A m \in Msgs : /\ stage[m] \in {"unsent", "cq", "parked", "box", "busy", "done", "refused"}
                     /\ ans[m] \in {"none", "ok", "err", "lost"}
  /\ \A c \in Conns : health[c] \in {"ok", "wfail", "down"}
  /\ \A k \in Objs : parkq[k] # <<>> => Len(box[k]) = BoxCap

\* nobody panics, the server process survives
NoCrash == ~crashed

\* its remaining subscribers are told: every registration that was in the table when the object went,
\* on a connection that still carries data, has received the termination message
RemainingSubscribersTold ==
  \A k \in Objs : tpc[k] = "done" =>
     /\ \A m \in snapped[k] : health[C(m)] = "ok" => told[m] >= 1
     /\ \A m \in due[k] : health[C(m)] = "ok" => told[m] >= 1          \* ... whoever its client believes registered
\* ... and nobody else: a subscriber that had left (unregisterEvent acknowledged) is not told
OnlyRemainingTold == \A m \in Regs : told[m] > 0 => (m \in due[O(m)] \/ m \in latesub)
\* ... once
ToldAtMostOnce == \A m \in Regs : told[m] <= 1

\* the disconnection handlers of the subscribers are released
HandlersReleased ==
  \A k \in Objs : tpc[k] = "done" =>
     \A m \in snapped[k] : m \notin hnd[C(m)]

\* nobody stays (or becomes) a subscriber of an object that has terminated
NoSubscriberLeftBehind ==
  \A k \in Objs : tpc[k] = "done" =>
     /\ sub[k] = <<>>
     /\ \A c \in Conns : \A m \in hnd[c] : O(m) = k => busy[k] = m       \* ... but for a registration still under way

\* a message that reaches the service after the removal is answered with an error and never runs
LateRefused ==
  \A m \in Msgs : late[m] => stage[m] = "refused" /\ ans[m] \in {"err", "lost"}

\* what can still move by itself or by the environment letting a method return / a terminator go on
Progress == Internal \/ \E k \in Objs : Plain(Release(k)) \/ TermStep(k)
\* no message is stuck for ever: when nothing can move, nothing waits in a queue
NothingStuck ==
  (Alive /\ ~ENABLED Progress) => \A m \in Msgs : stage[m] \notin {"cq", "parked", "box", "busy"}

\* removing one object never affects the others: while an object is busy, full and being removed,
\* every connection that is not itself parked in ITS mailbox gets its messages routed, and every
\* object that is not busy runs its mails
OthersKeepAnswering ==
  (Alive /\ ~ENABLED Internal) =>
     /\ \A c \in Conns : ~Parked(c) => cq[c] = <<>>
     /\ \A k \in Objs : (busy[k] = NONE /\ ~Stopped(k)) => box[k] = <<>>
     /\ wantW = {}

\* no wait cycle between RemoveHandler (handlersMutex, then signalsMutex in the closer) and a registration
\* on the same connection: when nothing can move no mutex is held, Remove has returned, no registration is
\* half done - and (XSend) the connection still dispatches
NoWaitCycle ==
  (Alive /\ ~ENABLED Progress) =>
     /\ \A c \in Conns : hown[c] = 0
     /\ \A k \in Objs : sown[k] = 0 /\ bpc[k] = "none" /\ rm[k] # "run" /\ tpc[k] \notin {"rel", "relc"}

\* an object leaves the table only through its own removal or through Service.Terminate
OnlyTheRemovedLeaves ==
  [][\A k \in Objs : (reg[k] /\ ~reg'[k]) =>
        \/ svcpc' = "run" /\ svcpc # "run"
        \/ (tpc[k] = "none" /\ tpc'[k] = "hook" /\ \A j \in Objs \ {k} : reg'[j] = reg[j])]_vars

\* bookkeeping of the model itself (no deviation breaks these): a call that has left the pipeline has its
\* one answer (or its connection is broken), a post that ran has none, termination messages only come
\* from an object that is going
Sanity ==
  /\ TypeOK
  /\ \A m \in Msgs : (K(m) # "post" /\ stage[m] \in {"done", "refused"}) => ans[m] # "none"
  /\ \A m \in Msgs : (K(m) = "post" /\ stage[m] = "done") => ans[m] = "none"
  /\ \A m \in Regs : told[m] > 0 => tpc[O(m)] \notin {"none", "hook"}
=============================================================================
