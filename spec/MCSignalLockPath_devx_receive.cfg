SPECIFICATION Spec
CONSTANTS
  HConns = {"h1", "h2"}
  Objs = {"o1", "o2"}
  HTargets = {"o1"}
  Kinds = {"call", "term"}
  MaxLen = 2
  MaxFlood = 3
  MaxReg = 0
  Closes = {}
  PMax = 1
  QCap = 1
  BCap = 1
  NoRead = {}
  OutCap = 1
  Dev_ReceiveHoldsLockWhileEnqueuing = TRUE
  Dev_DispatchBlocksOnFullQueue = FALSE
  Dev_ConsumerGivesUpOnFullMailbox = FALSE
  Dev_RemoveClosesMailbox = FALSE
INVARIANTS ExportCycles

CHECK_DEADLOCK FALSE
