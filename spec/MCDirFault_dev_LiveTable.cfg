SPECIFICATION FSpec
CONSTANTS
  Names = {"a"}
  MaxId = 3
  BadKinds = {}
  Eps = {}
  ObsSeq <- Obs2
  WithBreak = TRUE
  WithDrop = TRUE
  WithStall = FALSE
  WithReads = FALSE
  Dev_ReturnSendError = FALSE
  Dev_RollbackOnSendError = FALSE
  Dev_EmitThenCommit = FALSE
  Dev_StopAtFirstError = FALSE
  Dev_ResendOnError = FALSE
  Dev_LiveTable = TRUE
CONSTRAINT KeepDirectory
INVARIANTS EveryObserverSeesAPrefix
CHECK_DEADLOCK FALSE
