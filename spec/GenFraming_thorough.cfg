SPECIFICATION GSpec
CONSTANTS
  MaxMsgs = 3
  PLens = {0, 1, 2}
  WithCuts = FALSE
VIEW View
CHECK_DEADLOCK FALSE
