SPECIFICATION GSpec
CONSTANTS
  Updaters = {"u1", "u2"}
  Subs = {"s1", "s2", "s3", "f"}
  ValuesOf <- ValuesC
  MaxOps <- OpsCu
  InitTables <- Tab3f
  Foreign = {"f"}
  Movers = {"s1", "s2", "s3", "f"}
  Closers = {"s1", "s2", "s3"}
  MaxMoves = 1
  Atomic = FALSE
  Dev_IterateLiveSlice = FALSE
  Dev_SendErrorFailsWrite = FALSE
CHECK_DEADLOCK FALSE
