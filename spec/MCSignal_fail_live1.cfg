SPECIFICATION FairSpec
CONSTANTS
  Threads <- Cast9
  Conns = {"c3"}
  Signals = {"A"}
  Objects = {"o1"}
  ConnOf <- CastConn
  SigOf <- CastSig
  ObjOf <- CastObj
  Rounds <- CR1
  EmitSeq <- EmitO1
  QCap = 2
  Dev_ProxySectionsNotAtomic = FALSE
  Dev_SendAfterSnapshot = FALSE
  Devs = {}
  Probe <- NoProbe
  Failing = {"c3"}
  Inject <- NoInject
  Rogue = {}
PROPERTIES EventuallyClosed EmitReturns
CHECK_DEADLOCK FALSE
