SPECIFICATION Spec
CONSTANTS
  Conns = {1, 2}
  Users = {1}
  Alphabet <- Alpha_disc
  MaxMsgs = 2
  MaxStack = 12
  WithDisconnect = TRUE
  SendWhen = "between"
  AutoOff = FALSE
  KeepOut = "none"
  Dev_NoTraceGuard = FALSE
  Dev_CompareChannel = FALSE
  Dev_TracedWrapsRaw = FALSE
  Dev_StatAnyAction = FALSE
  Dev_ClearForgets = FALSE
  Dev_ReplyBypassesTrace = FALSE
  Dev_RemoveDropsLast = FALSE
  Dev_LateRegistrationKept = FALSE
INVARIANTS TypeOK
PROPERTIES ComesToRest
CHECK_DEADLOCK FALSE
