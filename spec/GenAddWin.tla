----------------------------- MODULE GenAddWin -----------------------------
(* Behaviour export for AddWin (DESIGN.md 2.2 b), replayed on a real bus.Service by harness/cmd/registry
   (sub-command addwin).  Every step of AddWin is a command the harness can issue at rest: the adder's
   goroutine is parked inside its own object's Activate (user code - no hook needed), the generator is the
   process-wide math/rand source the harness re-seeds.
     reseed            rand.Seed(the seed the behaviour started with)
     addstart a        a goroutine calls svc.Add(object a); the harness waits until Activate has been entered
     addfinish a ok    Activate returns (nil / an error); the harness waits for Add to return
     remove id         svc.Remove(the real identifier of the abstract identifier id)
     call id           Hello() from another connection addressed to it
     terminate         svc.Terminate()
   Tag "T": one behaviour per transition of the state graph (hist and out hidden by the VIEW, the PrintT
   inside the action); tag "S": every behaviour up to MaxLen steps (no VIEW).
   obs: the outcome of the step (identifier drawn / returned, "ok" instance executed, "err", "none" = no
   answer), the identifier every adder holds, OnTerminate and execution counters per instance.          *)
EXTENDS AddWin, Json, IOUtils

CONSTANTS Tag, MaxLen, SampleMod
VARIABLE hist
gvars == <<vars, hist>>

Op(k, a, id, ok) == [k |-> k, a |-> a, id |-> id, ok |-> ok]
Obs == [out |-> out, aid |-> [a \in Adders |-> aid[a]], pc |-> [a \in Adders |-> pc[a]],
        live |-> live, term |-> term, exec |-> exec, up |-> up]
Selected == SampleMod = 1 \/ TLCGet("generated") % SampleMod = (CHOOSE n \in 0..99 : ToString(n) = IOEnv.SEL)
Step(o) == /\ hist' = Append(hist, [op |-> o, obs |-> Obs'])
           /\ Selected => PrintT(<<Tag, ToJson(hist')>>)

GInit == Init /\ hist = <<>>
GNext == \/ Reseed /\ Step(Op("reseed", 0, 0, 0))
         \/ Terminate /\ Step(Op("terminate", 0, 0, 0))
         \/ \E a \in Adders : \/ AddStart(a) /\ Step(Op("addstart", a, 0, 0))
                              \/ AddFinish(a, TRUE) /\ Step(Op("addfinish", a, 0, 1))
                              \/ AddFinish(a, FALSE) /\ Step(Op("addfinish", a, 0, 0))
         \/ \E id \in Ids : \/ Remove(id) /\ Step(Op("remove", 0, id, 0))
                            \/ Call(id) /\ Step(Op("call", 0, id, 0))
GSpec == GInit /\ [][GNext]_gvars
Short == Len(hist) < MaxLen
View == <<objects, boxes, rng, reseeds, pc, aid, ret, live, term, exec, ghost, up, ncalls, nrem, unanswered>>
=============================================================================
