------------------------------ MODULE MCSystem ------------------------------
(* Model-checking instances of System.tla for C04. *)
EXTENDS System

RF(t, c, ty, s, o, a, i, p) == [tag |-> t, conn |-> c, type |-> ty, svc |-> s, obj |-> o, act |-> a, id |-> i, pl |-> p]

(* server.handle's filter drops Reply, Error, Event, Cancelled (server.go l.184-190) *)
CodeFilter == {"call", "post", "capability", "cancel"}
ReqTypes == {"call", "post"}
CallOnly == {"call"}
NoScript == <<TRUE>>
NoPeerMsgs == {}
AllConns == {"cA", "cB"}
TwoObjs == {<<1, 1>>, <<1, 2>>}
OneObj == {<<1, 1>>}

(* --- scenario A: 3 calls on 2 connections, one object, one action; k1 and k2 through the
       same bus.Client; a post and the non-call kinds injected with the ids of the calls *)
KA == {"k1", "k2", "k3"}
clientA == [k \in KA |-> IF k = "k3" THEN "cl3" ELSE "cl1"]
epA == [cl \in {"cl1", "cl3"} |-> IF cl = "cl3" THEN "cB" ELSE "cA"]
svcA == [k \in KA |-> 1]
objA == [k \in KA |-> 1]
actA == [k \in KA |-> 100]
rawA == { RF("p1", "cB", "post", 1, 1, 100, 3, "ok"),
          RF("x1", "cA", "cancel", 1, 1, 100, 3, "ok") }
rawA2 == { RF("p1", "cB", "post", 1, 1, 100, 3, "ok"),
           RF("x1", "cA", "cancel", 1, 1, 100, 3, "ok"),
           RF("x2", "cA", "capability", 1, 1, 100, 5, "ok"),
           RF("x3", "cB", "reply", 1, 1, 100, 3, "ok") }

(* --- scenario B: two objects, two actions, a failing call, a call to a missing object,
       a call to a missing action, a post *)
KB == {"k1", "k2", "k3", "k4"}
clientB == [k \in KB |-> IF k \in {"k1", "k2"} THEN "cl1" ELSE "cl2"]
epB == [cl \in {"cl1", "cl2"} |-> IF cl = "cl1" THEN "cA" ELSE "cB"]
svcB == [k \in KB |-> 1]
objB == [k \in KB |-> IF k = "k2" THEN 2 ELSE IF k = "k4" THEN 9 ELSE 1]
actB == [k \in KB |-> IF k = "k3" THEN 999 ELSE 100]
rawB == { RF("p1", "cA", "post", 1, 2, 100, 3, "ok"),
          RF("x1", "cB", "event", 1, 1, 100, 3, "ok") }
failB == {"k1"}

(* --- scenario S: bus.Cache.Proxy before the fix: two bus.Client on ONE endpoint *)
KS == {"k1", "k2"}
clientS == [k \in KS |-> IF k = "k1" THEN "cl1" ELSE "cl2"]
epS == [cl \in {"cl1", "cl2"} |-> "cA"]
svcS == [k \in KS |-> 1]
objS == [k \in KS |-> 1]
actS == [k \in KS |-> 100]
rawS == {}
OneConn == {"cA"}
=============================================================================
