------------------------------ MODULE MCSystem ------------------------------
(* Model-checking instances of System.tla for C04. *)
EXTENDS System

RF(t, c, ty, s, o, a, i, p) == [tag |-> t, conn |-> c, type |-> ty, svc |-> s, obj |-> o, act |-> a, id |-> i, pl |-> p]

(* server.handle's filter drops Reply, Error, Event, Cancelled (server.go l.184-190) *)
CodeFilter == {"call", "post", "capability", "cancel"}
ReqTypes == {"call", "post"}
CallOnly == {"call"}
NoScript == <<TRUE>>
NoPeerMsgs == {}
AllConns == {"cA", "cB"}
TwoObjs == {<<1, 1>>, <<1, 2>>}
OneObj == {<<1, 1>>}

(* --- scenario A: 3 calls on 2 connections, one object, one action; k1 and k2 through the
       same bus.Client; a post and the non-call kinds injected with the ids of the calls *)
KA == {"k1", "k2", "k3"}
clientA == [k \in KA |-> IF k = "k3" THEN "cl3" ELSE "cl1"]
epA == [cl \in {"cl1", "cl3"} |-> IF cl = "cl3" THEN "cB" ELSE "cA"]
svcA == [k \in KA |-> 1]
objA == [k \in KA |-> 1]
actA == [k \in KA |-> 100]
rawA == { RF("p1", "cB", "post", 1, 1, 100, 3, "ok"),
          RF("x1", "cA", "cancel", 1, 1, 100, 3, "ok") }
rawA2 == { RF("p1", "cB", "post", 1, 1, 100, 3, "ok"),
           RF("x1", "cA", "cancel", 1, 1, 100, 3, "ok"),
           RF("x2", "cA", "capability", 1, 1, 100, 5, "ok"),
           RF("x3", "cB", "reply", 1, 1, 100, 3, "ok") }

(* --- scenario B: two objects, two actions, a failing call, a call to a missing object,
       a call to a missing action, a post *)
KB == {"k1", "k2", "k3", "k4"}
clientB == [k \in KB |-> IF k \in {"k1", "k2"} THEN "cl1" ELSE "cl2"]
epB == [cl \in {"cl1", "cl2"} |-> IF cl = "cl1" THEN "cA" ELSE "cB"]
svcB == [k \in KB |-> 1]
objB == [k \in KB |-> IF k = "k2" THEN 2 ELSE IF k = "k4" THEN 9 ELSE 1]
actB == [k \in KB |-> IF k = "k3" THEN 999 ELSE 100]
rawB == { RF("p1", "cA", "post", 1, 2, 100, 3, "ok"),
          RF("x1", "cB", "event", 1, 1, 100, 3, "ok") }
failB == {"k1"}

(* --- scenario S: bus.Cache.Proxy before the fix: two bus.Client on ONE endpoint *)
KS == {"k1", "k2"}
clientS == [k \in KS |-> IF k = "k1" THEN "cl1" ELSE "cl2"]
epS == [cl \in {"cl1", "cl2"} |-> "cA"]
svcS == [k \in KS |-> 1]
objS == [k \in KS |-> 1]
actS == [k \in KS |-> 100]
rawS == {}
OneConn == {"cA"}

(* --- scenario T: several bus.Client objects on ONE end point, the way bus.NewClientObject builds them (one
       NewClient per client-hosted object on the connection of the hosting peer): every client counts its
       message ids from 1, so k1..k4 all carry id 3 and are told apart by ONE field of the reply filter each:
       k2 by the object, k3 by the service, k4 by the action.  k5 is the second call of k1's client (id 5, same
       target: told apart from k1 by the id alone).                                                          *)
KT == {"k1", "k2", "k3", "k4", "k5"}
KT4 == {"k1", "k2", "k3", "k4"}
clientT == [k \in KT |-> CASE k = "k2" -> "cl2" [] k = "k3" -> "cl3" [] k = "k4" -> "cl4" [] OTHER -> "cl1"]
epT == [cl \in {"cl1", "cl2", "cl3", "cl4"} |-> "cA"]
svcT == [k \in KT |-> IF k = "k3" THEN 2 ELSE 1]
objT == [k \in KT |-> IF k = "k2" THEN 2 ELSE 1]
actT == [k \in KT |-> IF k = "k4" THEN 101 ELSE 100]
(* the pairs of scenario T used by the small configurations *)
KTobj == {"k1", "k2"}
KTsvc == {"k1", "k3"}
KTact == {"k1", "k4"}
KTid  == {"k1", "k5"}
KT3   == {"k1", "k2", "k5"}
ObjsT == {<<1, 1>>, <<1, 2>>, <<2, 1>>}
rawT == {}
(* ... with a post that carries the id all of them share *)
rawT1 == { RF("p1", "cA", "post", 1, 2, 100, 3, "ok") }
NoDev == {}
=============================================================================
