SPECIFICATION MCSpec
CONSTANTS
  Handlers = {1, 2}
  Msgs = {11}
  InitSlots = 1
  FilterOf <- MCFilter
  MaxShutdowns = 1
INVARIANTS TypeOK CloserAtMostOnce QueueCloseAtMostOnce CloserBeforeQueueClose ClosedMeansBoth
           SlotUniqueAmongLive SlotsHoldOpenHandlers DeliveredInOrderOnce NoStuckMutex
PROPERTIES NoDeliveryAfterClose NoSlotStealing EventuallyClosed ProcessCleansUp MutexReleased
CHECK_DEADLOCK FALSE
