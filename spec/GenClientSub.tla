----------------------------- MODULE GenClientSub ---------------------------
(***************************************************************************)
(* Behaviour export for Client (C11): the harness plays the environment of  *)
(* Client.tla - it starts calls, holds each request inside the stream's     *)
(* Write (a gate) and lets it return, feeds replies (whole or in two        *)
(* pieces) and events, and injects the fault - one command at a time, the   *)
(* client's own goroutines running to quiescence in between (ALL their      *)
(* interleavings are explored: while they run, the history is part of the   *)
(* state).  Every (quiescent state, command) transition is exported with the *)
(* observation reached; commands whose outcome depends on a race of the      *)
(* client's goroutines (reply and error both ready) appear once per outcome: *)
(* the check accepts any of them.                                            *)
(***************************************************************************)
EXTENDS ClientSub, Json

VARIABLES hist, settled
gvars == <<svars, hist, settled>>

GInit == SInit /\ hist = <<>> /\ settled = TRUE

CallCode(k) == CASE cst[k] = "idle" -> 0
                 [] cst[k] = "writing" -> 4
                 [] cst[k] = "done" -> out[k]
                 [] OTHER -> 1
Obs == [c |-> [k \in Calls |-> CallCode(k)],
        sub |-> CASE sub = "off" -> 0 [] sub = "on" -> 1 [] OTHER -> 2,
        got |-> subGot,
        cb |-> closerN[HD],
        dead |-> IF proc = "stopped" THEN 1 ELSE 0]

Cmd(o, a) == /\ hist' = Append(hist, [o |-> o, a |-> a, post |-> Obs])
             /\ settled' = FALSE

Plain(A) == Guarded(A)
Command ==
  \/ \E k \in Calls : \/ Plain(StartCall(k)) /\ Cmd("start", k)
                      \/ Plain(SendEnd(k) \/ SendFail(k)) /\ Cmd("release", k)
                      \/ Plain(PeerReply(k)) /\ Cmd("reply", k)
  \/ Plain(PeerEvent) /\ Cmd("event", 0)
  \/ Plain(StartSub) /\ Cmd("sub", 0)
  \/ Plain(Fail) /\ Cmd("fail", 0)
  \/ Plain(PeerCloseC) /\ Cmd("eof", 0)
  \/ Plain(LocalClose) /\ Cmd("close", 0)
  \/ CancelReq /\ Cmd("cancel", 0)
  \/ Pause /\ Cmd("pause", 0)
  \/ Resume /\ Cmd("resume", 0)

Settle == /\ ~settled /\ settled' = TRUE
          /\ hist' = [hist EXCEPT ![Len(hist)].post = Obs]
          /\ PrintT(<<"T", ToJson(hist')>>)
          /\ UNCHANGED svars

GNext == IF ENABLED SInternal THEN (SInternal /\ UNCHANGED <<hist, settled>>)
         ELSE IF ~settled THEN Settle
         ELSE Command
GSpec == GInit /\ [][GNext]_gvars
View == <<svars, settled, IF settled THEN <<>> ELSE hist>>
=============================================================================
