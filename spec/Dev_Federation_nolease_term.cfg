SPECIFICATION Spec
CONSTANTS
  Srv = {1, 2}
  Names = {"a", "b"}
  Clients = {1}
  MaxAtt = 3
  MaxCuts = 1
  MaxProxies = 1
  MaxDrops = 0
  Dev_NoCleanup = FALSE
  Dev_RouterFirst = FALSE
  Dev_NoLease = TRUE
  Dev_StaleKept = FALSE
  Dev_StagingUnchecked = FALSE
  Dev_IdReuse = FALSE
  Dev_LookupStaged = FALSE
  Dev_RemovedForStaged = FALSE
  Dev_EnableErrorIgnored = FALSE
INVARIANTS TerminatedInvisible
VIEW MCView
CHECK_DEADLOCK FALSE
