SPECIFICATION Spec
CONSTANTS
  Gor = {"g1", "g2"}
  Eps = {"E"}
  Svcs = {"e"}
  Adv <- AdvAll
  MaxReq = 1
  MaxLoss = 1
  AuthMayRefuse = FALSE
  Dev_RUnlockUnderWriteLock = FALSE
  Dev_NilChannelWhenAllSkipped = FALSE
  Dev_AuthFailureLeaksConnection = FALSE
  Dev_DeadClientStaysInPool = TRUE
  Dev_PoolKeyedByAdvertised = FALSE
  Dev_CloserBeforeInsert = FALSE
INVARIANTS TypeOK PoolHoldsLiveClients
CHECK_DEADLOCK FALSE
