---------------------------- MODULE MCSignature ----------------------------
(* Design check of Signature: the generator machine with the theorems as
   invariants, plus the theorems on the universes that are not reached by the
   machine (Wide: every scalar in every position; the near-miss
   neighbourhoods of the seed signatures).                                  *)
EXTENDS Signature

ASSUME \A T \in Wide : RoundTrip(T) /\ TrailingBlankRejected(T) /\ LeadingBlankAccepted(T)
ASSUME \A T \in Seeds : RoundTrip(T)
\* whatever the reference parser accepts among the near misses is a fixed point
ASSUME \A T \in Seeds : \A s \in NearMiss(Sig(T)) : FixedPoint(s)
\* near misses are not vacuous: some are accepted, some rejected, and an
\* accepted one may denote a different type
ASSUME \E T \in Seeds : \E s \in NearMiss(Sig(T)) : Parse(s).ok /\ Parse(s).t # T
ASSUME \E T \in Seeds : \E s \in NearMiss(Sig(T)) : ~Parse(s).ok
\* the grammar's corner cases, stated once
ASSUME Parse(<<"(",")","<","A",">">>) = [ok |-> TRUE, t |-> Struct(N_A, <<>>, <<>>)]
ASSUME ~Parse(<<"(","i",")","<","A",">">>).ok                 \* one member, no name
ASSUME ~Parse(<<"(",")","<","A",",","x",">">>).ok             \* no member, one name
ASSUME Parse(<<"(",")","<","A","<","b",">",">">>).t.name = <<"A","<","b",">">>
ASSUME ~Parse(<<"(","i",")","<","A","<","b",",","x",">">>).ok \* broken template name
ASSUME ~Parse(<<>>).ok /\ ~Parse(<<"i","i">>).ok /\ ~Parse(<<"[","]">>).ok /\ ~Parse(<<"{","i","}">>).ok
ASSUME Parse(<<"(", " ", "i", "\t", ")", "\n", "<", " ", "A", " ", ",", " ", "x", " ", ">">>)
         = [ok |-> TRUE, t |-> Struct(N_A, <<I32>>, Fields(1))]
ASSUME ~Parse(<<"(","i",")","<","A"," ","<","b",">",",","x",">">>).ok  \* blank inside a template name
=============================================================================
