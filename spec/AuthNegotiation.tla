--------------------------- MODULE AuthNegotiation ---------------------------
(***************************************************************************)
(* The authentication NEGOTIATION on one connection, both sides, one action *)
(* per critical section / step of the code (extension of C06; the FIREWALL  *)
(* under hostile traffic on several connections is Server.tla's business).  *)
(*                                                                         *)
(* server side                                                             *)
(*   Consume     bus/server.go l.192-204   consumer goroutine: firewall     *)
(*               (l.56-61) -> refuse: error answer + stream.Close | route   *)
(*               (service 0: into the mailbox of serviceAuthenticate)       *)
(*   SrvRead     bus/authenticate.go l.129-136 wrapAuthenticate decodes the *)
(*               map (undecodable -> Error message), l.150-165 Authenticate *)
(*               reads auth_user / auth_token: absent -> "", a value that   *)
(*               is not a string -> capError (l.144-148), nobody is asked   *)
(*   SrvAsk      l.166 s.auth.Authenticate(user, token): Yes l.40, No l.48, *)
(*               Dictionary l.54-57, or user code (may take its time: Hold) *)
(*   SrvMark     l.167 from.SetAuthenticated() = bus/channel.go l.88-93     *)
(*               (under capabilityMutex) -> capability[__qi_auth_state] =   *)
(*               uint 3; l.168 answer = from.Cap() (channel.go l.97-106)    *)
(*   the gate    bus/channel.go l.81-86 Authenticated() -> bus/auth.go      *)
(*               l.39-57 CapabilityMap.Authenticated(): ReadsAsDone         *)
(* client side                                                             *)
(*   CliStart    bus/auth.go l.235-237 AuthenticateUser -> ClientCap        *)
(*               l.100-109 (an empty user / token is NOT sent) -> l.252     *)
(*               Authentication -> l.111-134 authenticateCall step 1-2      *)
(*   CliReply    l.133-136 the call returned a map -> l.257-281 the switch  *)
(*               on __qi_auth_state (uint or int; 3 done, 2 continue, 1     *)
(*               error) ; continue -> l.181-194 authenticateContinue: the   *)
(*               new token replaces the token and ONE more call is made;    *)
(*               l.195-222 its switch (continue again -> "dropped")         *)
(*   CliCallFails l.138-151 the call failed (Error message, undecodable     *)
(*               answer, connection lost): the map is sent as a Capability  *)
(*               message (id 2) and l.153-172 a Capability message is       *)
(*               awaited for 1 s: its map is taken AS DONE (l.170)          *)
(*   CliFallback l.153-172 the ends of that wait (message, bad message,    *)
(*               silence = timer); CliLost: the connection is lost          *)
(* A reply is handed to every call registered with its message id           *)
(* (bus/net/endpoint.go dispatch l.334-359); every authenticateCall makes   *)
(* its own bus.Client (bus/auth.go l.130 NewCache), whose first call has    *)
(* id 3: two authentications racing on one connection both take the FIRST   *)
(* answer (SharedAnswer below - what the code does).                        *)
(*                                                                         *)
(* Named behaviour of the code that a reader might not expect (all on):     *)
(*   AbsentIsEmpty          an absent credential is the empty string        *)
(*   failed re-authentication does NOT revoke (FailedAuthKeepsGate)         *)
(*   a refused authenticate is answered, the connection stays open         *)
(*   CapabilityFallback     a Capability message counts as "done"           *)
(*   NilTokenAfterRenewal   renewal without a token leaves a nil entry      *)
(* Deviations from the properties (constants Dev_*, all FALSE in the        *)
(* property configurations; each must violate its invariant).               *)
(***************************************************************************)
EXTENDS Naturals, Sequences, FiniteSets, TLC

CONSTANTS
  AuthMode,      \* "yes" | "no" | "dict" | "dictempty" | "script"
  Script,        \* AuthMode = "script": decision of the n-th invocation (cyclic)
  Shapes,        \* capability maps of the raw peer: [u, t, x, st]
  Creds,         \* <<user, token>> string pairs of the real client ("" = none)
  Answers,       \* alphabet of a foreign (non qiloop) server: [k, nt]
  Foreign,       \* BOOLEAN: the server is not qiloop's: it answers what it likes
  Driver,        \* "peer" (raw frames) | "client" (bus.Authentication)
  Clients,       \* client goroutines on the one connection ({1} or {1, 2})
  MaxSends,      \* frames / commands of the environment
  MaxProbes,
  Holds,         \* BOOLEAN: the Authenticator may be slow (Hold / Release)
  Dev_WrongTypedReadAsEmpty,  \* a credential of another type is read as ""
  Dev_ClientStateTrusted,     \* the client's __qi_auth_state entry reaches the channel's map
  Dev_MarkBeforeAsk,          \* SetAuthenticated before the Authenticator answered, revoked on refusal
  Dev_ContinueReadsAsDone,    \* Authenticated() true for state 2
  Dev_RefusalLeavesOpen,      \* firewall refusal without stream.Close
  Dev_FailureOpens,           \* a failed authenticate changes the gate
  Dev_NewTokenSubstitutes,    \* auth_newToken of the request is taken for the token
  Dev_ContinueForEver,        \* client: continue answered with continue -> another round
  Dev_TokenNotKept,           \* client: the issued token is not stored
  Dev_ContinueCountsAsDone    \* client: continue ends the procedure with success

GoodUser == "alice"
GoodToken == "secret"
V(k, v) == [k |-> k, v |-> v]
Abs == V("abs", "")
NoShape == [u |-> Abs, t |-> Abs, x |-> "none", st |-> "none"]

(* bus/auth.go l.39-57: only uint 3 / int 3 read as done *)
StateVals == {"none", "u1", "u2", "u3", "i3", "i2", "s3", "l3", "u4", "b1"}
ReadsAsDone(s) == s \in {"u3", "i3"} \/ (Dev_ContinueReadsAsDone /\ s \in {"u2", "i2"})

(* the Authenticator *)
AuthAccepts(u, t, n) ==
  CASE AuthMode = "yes"       -> TRUE
    [] AuthMode = "no"        -> FALSE
    [] AuthMode = "dict"      -> u = GoodUser /\ t = GoodToken
    [] AuthMode = "dictempty" -> (u = GoodUser /\ t = GoodToken) \/ (u = "" /\ t = "")
    [] AuthMode = "script"    -> Script[((n - 1) % Len(Script)) + 1]

(* bus/authenticate.go l.150-165: what the server reads of one credential *)
WellTyped(v) == v.k \in {"abs", "str"}
AbsentIsEmpty(v) == IF v.k = "str" THEN v.v ELSE ""       \* abs -> "" (ClientCap does not send empty strings)
TokenOf(sh) == IF Dev_NewTokenSubstitutes /\ sh.x = "newtok" THEN V("str", GoodToken) ELSE sh.t
Readable(v) == WellTyped(v) \/ Dev_WrongTypedReadAsEmpty
Garbage(sh) == sh.x = "garbage"

VARIABLES
  inq,        \* frames written towards the server, not yet taken by the consumer goroutine
  mbox,       \* authenticate requests in the mailbox of service 0
  sph,        \* service 0's goroutine: "idle" | "asking" | "marking"
  scur,       \* the request it works on: [src, u, t]
  cstate,     \* the server channel's capability[__qi_auth_state]
  sclosed,    \* the server has closed the stream
  hold,       \* the Authenticator does not answer for the moment
  outq,       \* frames written by the server, not yet read by the other side
  cli,        \* cli[i]: the i-th client goroutine
  asked,      \* history: Authenticator invocations [u, t, ok]
  presented,  \* history: well-typed pairs <<u, t>> presented by requests service 0 has read
  accepted,   \* history: the Authenticator accepted a presented pair
  nprobe,     \* history: probes handed to the probe service
  badDeliv,   \* history: a probe was delivered while no accepted pair had been processed
  refusedOpen,\* history: the firewall refused a frame and the stream stayed open
  got,        \* history: frames the raw peer received
  issued,     \* history: last token a (foreign) server issued in a continue answer
  ncalls,     \* history: authenticate calls the clients made
  sent,
  fq          \* foreign server: requests waiting for its answer

srvVars == <<mbox, sph, scur, cstate, sclosed, asked, presented, accepted, nprobe, badDeliv, refusedOpen>>
vars == <<inq, srvVars, hold, outq, cli, got, issued, ncalls, sent, fq>>

Gate == ReadsAsDone(cstate)

Frame(kind, src, sh) == [kind |-> kind, src |-> src, sh |-> sh]
Ans(kind, to, nt) == [kind |-> kind, to |-> to, nt |-> nt]
NoCur == [src |-> 0, u |-> "", t |-> ""]
IdleCli == [ph |-> "idle", out |-> "", u |-> "", t |-> Abs, nt |-> Abs, ot |-> Abs, n |-> 0, la |-> "", cb |-> ""]

Init ==
  /\ inq = <<>> /\ mbox = <<>> /\ sph = "idle" /\ scur = NoCur
  /\ cstate = "none" /\ sclosed = FALSE /\ hold = FALSE /\ outq = <<>>
  /\ cli = [i \in Clients |-> IdleCli]
  /\ asked = <<>> /\ presented = {} /\ accepted = FALSE /\ nprobe = 0
  /\ badDeliv = FALSE /\ refusedOpen = FALSE /\ got = <<>> /\ issued = "" /\ ncalls = 0 /\ sent = 0
  /\ fq = <<>>

Respond(a) == IF sclosed THEN outq ELSE Append(outq, a)

-----------------------------------------------------------------------------
(* SERVER (qiloop)                                                          *)

(* server.go l.192-204: the consumer goroutine takes one frame *)
Consume ==
  /\ ~Foreign /\ inq # <<>> /\ ~sclosed
  /\ LET f == Head(inq) IN
     /\ inq' = Tail(inq)
     /\ IF f.kind = "auth"
        THEN /\ mbox' = Append(mbox, f)             \* service 0 passes the firewall whatever the gate says
             /\ UNCHANGED <<outq, sclosed, nprobe, badDeliv, refusedOpen>>
        ELSE IF f.kind = "cap"
        THEN \* a Capability message to service 0: serviceAuthenticate.Receive l.109 refuses it, no answer
             UNCHANGED <<mbox, outq, sclosed, nprobe, badDeliv, refusedOpen>>
        ELSE IF Gate
        THEN /\ nprobe' = nprobe + 1
             /\ badDeliv' = (badDeliv \/ ~accepted)
             /\ outq' = Append(outq, Ans("probeok", f.src, ""))
             /\ UNCHANGED <<mbox, sclosed, refusedOpen>>
        ELSE /\ outq' = Append(outq, Ans("notauth", f.src, ""))
             /\ sclosed' = ~Dev_RefusalLeavesOpen
             /\ refusedOpen' = (refusedOpen \/ Dev_RefusalLeavesOpen)
             /\ UNCHANGED <<mbox, nprobe, badDeliv>>
  /\ UNCHANGED <<sph, scur, cstate, asked, presented, accepted, hold, cli, got, issued, ncalls, sent, fq>>

(* authenticate.go l.129-165 *)
SrvRead ==
  /\ ~Foreign /\ sph = "idle" /\ mbox # <<>>
  /\ LET f == Head(mbox)
         sh == f.sh
         tv == TokenOf(sh)
         st2 == IF Dev_ClientStateTrusted /\ sh.st # "none" /\ ~Garbage(sh) THEN sh.st ELSE cstate IN
     /\ mbox' = Tail(mbox)
     /\ IF Garbage(sh)
        THEN /\ outq' = Respond(Ans("errmsg", f.src, ""))
             /\ UNCHANGED <<sph, scur, cstate, presented>>
        ELSE IF ~(Readable(sh.u) /\ Readable(tv))
        THEN /\ outq' = Respond(Ans("error", f.src, ""))
             /\ cstate' = (IF Dev_FailureOpens THEN "u3" ELSE st2)
             /\ UNCHANGED <<sph, scur, presented>>
        ELSE /\ sph' = "asking"
             /\ scur' = [src |-> f.src, u |-> AbsentIsEmpty(sh.u), t |-> AbsentIsEmpty(tv)]
             /\ presented' = IF WellTyped(sh.u) /\ WellTyped(sh.t)
                             THEN presented \cup {<<AbsentIsEmpty(sh.u), AbsentIsEmpty(sh.t)>>} ELSE presented
             /\ cstate' = IF Dev_MarkBeforeAsk THEN "u3" ELSE st2
             /\ UNCHANGED outq
  /\ UNCHANGED <<inq, sclosed, asked, accepted, nprobe, badDeliv, refusedOpen, hold, cli, got, issued, ncalls, sent, fq>>

(* authenticate.go l.166: the Authenticator answers *)
SrvAsk ==
  /\ sph = "asking" /\ ~hold
  /\ LET ok == AuthAccepts(scur.u, scur.t, Len(asked) + 1) IN
     /\ asked' = Append(asked, [u |-> scur.u, t |-> scur.t, ok |-> ok])
     /\ IF ok
        THEN /\ sph' = "marking"
             /\ accepted' = (accepted \/ <<scur.u, scur.t>> \in presented)
             /\ UNCHANGED <<outq, scur, cstate>>
        ELSE /\ sph' = "idle" /\ scur' = NoCur
             /\ outq' = Respond(Ans("error", scur.src, ""))
             /\ cstate' = IF Dev_MarkBeforeAsk THEN "u1" ELSE cstate    \* FailedAuthKeepsGate
             /\ UNCHANGED accepted
  /\ UNCHANGED <<inq, mbox, sclosed, presented, nprobe, badDeliv, refusedOpen, hold, cli, got, issued, ncalls, sent, fq>>

(* authenticate.go l.167-168, channel.go l.88-93 and l.97-106 *)
SrvMark ==
  /\ sph = "marking"
  /\ cstate' = "u3"
  /\ outq' = Respond(Ans("done", scur.src, ""))
  /\ sph' = "idle" /\ scur' = NoCur
  /\ UNCHANGED <<inq, mbox, sclosed, asked, presented, accepted, nprobe, badDeliv, refusedOpen, hold, cli, got, issued, ncalls, sent, fq>>

SrvStep == Consume \/ SrvRead \/ SrvAsk \/ SrvMark

-----------------------------------------------------------------------------
(* A FOREIGN SERVER: answers the request at the head of its queue           *)
InCall(c) == c.ph \in {"call1", "call2"}
InFallback(c) == c.ph \in {"fb1", "fb2"}

ForeignTake ==
  /\ Foreign /\ inq # <<>>
  /\ inq' = Tail(inq) /\ fq' = Append(fq, Head(inq))
  /\ UNCHANGED <<srvVars, hold, outq, cli, got, issued, ncalls, sent>>

ForeignAnswer(a) ==
  /\ Foreign /\ fq # <<>> /\ ~sclosed
  /\ LET f == Head(fq) IN
     /\ (f.kind = "auth") => a.k \notin {"capmsg", "silent", "badcap"}
     /\ (f.kind = "cap")  => a.k \in {"capmsg", "silent", "badcap", "close"}
     /\ fq' = Tail(fq)
     /\ IF a.k = "close" THEN sclosed' = TRUE /\ UNCHANGED outq
        ELSE UNCHANGED sclosed /\ outq' = Append(outq, Ans(a.k, f.src, a.nt))
     /\ issued' = IF a.k = "cont" /\ a.nt \notin {"#abs", "#int"} THEN a.nt ELSE issued
  /\ UNCHANGED <<inq, mbox, sph, scur, cstate, asked, presented, accepted, nprobe, badDeliv, refusedOpen,
                 hold, cli, got, ncalls, sent>>

-----------------------------------------------------------------------------
(* THE RAW PEER (harness)                                                   *)
PeerAuth(sh) ==
  /\ Driver = "peer" /\ sent < MaxSends
  /\ sent' = sent + 1
  /\ inq' = IF sclosed THEN inq ELSE Append(inq, Frame("auth", 0, sh))
  /\ UNCHANGED <<srvVars, hold, outq, cli, got, issued, ncalls, fq>>

PeerProbe ==
  /\ Driver = "peer" /\ sent < MaxSends
  /\ Cardinality({i \in 1..Len(got) : got[i].kind \in {"probeok", "notauth"}}) + Cardinality({i \in 1..Len(inq) : inq[i].kind = "probe"}) < MaxProbes
  /\ sent' = sent + 1
  /\ inq' = IF sclosed THEN inq ELSE Append(inq, Frame("probe", 0, NoShape))
  /\ UNCHANGED <<srvVars, hold, outq, cli, got, issued, ncalls, fq>>

PeerRead ==
  /\ outq # <<>> /\ Head(outq).to = 0
  /\ got' = Append(got, Head(outq))
  /\ outq' = Tail(outq)
  /\ UNCHANGED <<inq, srvVars, hold, cli, issued, ncalls, sent, fq>>

Hold    == Holds /\ ~hold /\ sph = "idle" /\ mbox = <<>> /\ inq = <<>> /\ hold' = TRUE
           /\ sent < MaxSends /\ sent' = sent + 1
           /\ UNCHANGED <<inq, srvVars, outq, cli, got, issued, ncalls, fq>>
Release == hold /\ hold' = FALSE /\ UNCHANGED <<inq, srvVars, outq, cli, got, issued, ncalls, sent, fq>>

-----------------------------------------------------------------------------
(* THE CLIENT (bus.Authentication)                                          *)
StrVal(s) == IF s = "" THEN Abs ELSE V("str", s)        \* ClientCap l.100-109
ClientShape(c) == [u |-> StrVal(c.u), t |-> c.t, x |-> "benign", st |-> "none"]
SendAuth(c) == IF sclosed THEN inq ELSE Append(inq, Frame("auth", 1, ClientShape(c)))

CliStart(i, cr) ==
  /\ Driver = "client" /\ sent < MaxSends /\ cli[i].ph = "idle" /\ cli[i].out = ""
  /\ sent' = sent + 1
  /\ LET c == [IdleCli EXCEPT !.u = cr[1], !.t = StrVal(cr[2]), !.ph = "call1", !.n = 1] IN
     /\ cli' = [cli EXCEPT ![i] = c]
     /\ inq' = SendAuth(c)
  /\ ncalls' = ncalls + 1
  /\ UNCHANGED <<srvVars, hold, outq, got, issued, fq>>

Finish(c, out) == [c EXCEPT !.ph = "end", !.out = out]

(* the procedure run again with the SAME prefered map (channel.Authenticate() on a kept channel): the map
   still holds auth_newToken and the restored auth_token - NilTokenAfterRenewal: after a renewal that
   started without a token the entry is a nil value, WriteCapabilityMap (authenticate.go l.60-75) calls
   its Write method: the client process panics *)
CliAgain(i) ==
  /\ Driver = "client" /\ sent < MaxSends /\ cli[i].ph = "end" /\ cli[i].out = "ok"
  /\ sent' = sent + 1
  /\ IF cli[i].t.k = "nil"
     THEN /\ cli' = [cli EXCEPT ![i] = Finish(cli[i], "panic")]
          /\ UNCHANGED <<inq, ncalls>>
     ELSE LET c == [cli[i] EXCEPT !.ph = "call1", !.out = "", !.n = 1, !.ot = Abs, !.la = "", !.cb = ""] IN
          /\ cli' = [cli EXCEPT ![i] = c]
          /\ inq' = SendAuth(c)
          /\ ncalls' = ncalls + 1
  /\ UNCHANGED <<srvVars, hold, outq, got, issued, fq>>
Sfx(c) == IF c.ph \in {"call2", "fb2"} THEN "2" ELSE ""

(* what one client does with the state of an answer map: auth.go l.254-281 and l.200-222 *)
Evaluate(c, kind, nt) ==
  IF c.ph \in {"call1", "fb1"} THEN
    CASE kind \in {"done", "stateint3"} -> Finish(c, "ok")
      [] kind = "error"    -> Finish(c, "refused")
      [] kind = "nostate"  -> Finish(c, "nostate")
      [] kind = "statestr" -> Finish(c, "statetype")
      [] kind = "state7"   -> Finish(c, "invalidstate")
      [] kind = "cont"     ->
           IF Dev_ContinueCountsAsDone THEN Finish(c, "ok")
           ELSE IF nt = "#abs" THEN Finish(c, "nonewtoken")
           ELSE IF nt = "#int" THEN Finish(c, "newtokenformat")
           ELSE [c EXCEPT !.ph = "call2", !.ot = c.t, !.t = V("str", nt), !.n = c.n + 1, !.cb = ""]
  ELSE
    CASE kind \in {"done", "stateint3"} ->
           \* l.212-215: the new token is kept under auth_newToken, the old token comes back
           \* (NilTokenAfterRenewal: no old token -> a nil entry under auth_token)
           [Finish(c, "ok") EXCEPT !.nt = IF Dev_TokenNotKept THEN Abs ELSE c.t,
                                   !.t = IF c.ot.k = "abs" THEN V("nil", "") ELSE c.ot]
      [] kind = "error"    -> Finish(c, "refused2")
      [] kind = "nostate"  -> Finish(c, "nostate")
      [] kind = "statestr" -> Finish(c, "statetype")
      [] kind = "state7"   -> Finish(c, "invalidstate")
      [] kind = "cont"     ->
           IF Dev_ContinueForEver /\ nt \notin {"#abs", "#int"}
           THEN [c EXCEPT !.t = V("str", nt), !.n = c.n + 1, !.cb = ""]
           ELSE Finish(c, "dropped")

MapAnswers == {"done", "error", "nostate", "statestr", "stateint3", "state7", "cont"}
(* l.111-127: every authenticateCall registers, BEFORE its call, a handler for Capability messages with a
   one-slot queue: a Capability message that arrives while the call waits (e.g. the answer to ANOTHER
   client's fall-back on the same connection) is kept (cb) and ends this client's fall-back at once *)
ToFallback(c) ==
  IF c.cb = "capmsg" THEN [Evaluate(c, "done", "") EXCEPT !.la = "capmsg", !.cb = ""]
  ELSE IF c.cb = "badcap" THEN [Finish(c, "badcap" \o Sfx(c)) EXCEPT !.cb = ""]
  ELSE [c EXCEPT !.ph = IF c.ph = "call1" THEN "fb1" ELSE "fb2"]

(* a reply to message id 3 is handed to every call registered with that id (SharedAnswer) *)
CliReply ==
  /\ outq # <<>> /\ Head(outq).to = 1 /\ Head(outq).kind \notin {"capmsg", "badcap", "silent"}
  /\ LET a == Head(outq)
         next(c) == IF ~InCall(c) THEN c
                    ELSE IF a.kind \in MapAnswers THEN [Evaluate(c, a.kind, a.nt) EXCEPT !.la = a.kind]
                    ELSE IF c.cb = "" THEN [ToFallback(c) EXCEPT !.la = a.kind]   \* Error message / undecodable answer: l.138
                    ELSE ToFallback(c)
         newc == [i \in Clients |-> next(cli[i])]
         more == Cardinality({i \in Clients : newc[i].n > cli[i].n})
         fbs  == IF a.kind \in MapAnswers THEN 0 ELSE Cardinality({i \in Clients : InCall(cli[i])}) IN
     /\ outq' = Tail(outq)
     /\ cli' = newc
     /\ ncalls' = ncalls + more
     \* at most one client goes on per answer in the configurations checked (two racing clients both
     \* end, or both continue with the same token: one frame each)
     /\ inq' = IF sclosed THEN inq
               ELSE inq \o [k \in 1..more |-> Frame("auth", 1, ClientShape(newc[CHOOSE i \in Clients : newc[i].n > cli[i].n]))]
                        \o [k \in 1..fbs |-> Frame("cap", 1, NoShape)]
  /\ UNCHANGED <<srvVars, hold, got, issued, sent, fq>>

(* the connection is lost while a call waits: the call fails, the Capability message cannot be sent *)
CliLost(i) ==
  /\ sclosed /\ outq = <<>> /\ (InCall(cli[i]) \/ InFallback(cli[i]))
  /\ cli' = [cli EXCEPT ![i] = Finish(cli[i], "closed" \o Sfx(cli[i]))]
  /\ UNCHANGED <<inq, srvVars, hold, outq, got, issued, ncalls, sent, fq>>

(* l.153-172: what ends the wait for the Capability message *)
CliFallback ==
  /\ outq # <<>> /\ Head(outq).to = 1 /\ Head(outq).kind \in {"capmsg", "badcap", "silent"}
  /\ LET a == Head(outq)
         next(c) == IF InCall(c) /\ c.cb = "" /\ a.kind # "silent" THEN [c EXCEPT !.cb = a.kind]
                    ELSE IF ~InFallback(c) THEN c
                    ELSE IF a.kind = "capmsg" THEN [Evaluate([c EXCEPT !.ph = IF c.ph = "fb1" THEN "call1" ELSE "call2"], "done", "") EXCEPT !.la = "capmsg"]
                    ELSE IF a.kind = "badcap" THEN Finish(c, "badcap" \o Sfx(c))
                    ELSE Finish(c, "timeout" \o Sfx(c)) IN
     /\ outq' = Tail(outq)
     /\ cli' = [i \in Clients |-> next(cli[i])]
  /\ UNCHANGED <<inq, srvVars, hold, got, issued, ncalls, sent, fq>>

(* Against qiloop's own server nobody answers the Capability message (serviceAuthenticate.Receive l.109): the
   1 s timer would fire ("silent").  The real client cannot get there: the server answers an Error message
   only to a map it cannot decode, and the client's maps decode.                                           *)

CliStep == CliReply \/ CliFallback \/ \E i \in Clients : CliLost(i)

-----------------------------------------------------------------------------
Internal == SrvStep \/ ForeignTake \/ PeerRead \/ CliStep
Env == \/ \E sh \in Shapes : PeerAuth(sh)
       \/ PeerProbe
       \/ Hold \/ Release
       \/ \E i \in Clients, cr \in Creds : CliStart(i, cr)
       \/ \E i \in Clients : CliAgain(i)
       \/ \E a \in Answers : ForeignAnswer(a)
Next == Internal \/ Env
Spec == Init /\ [][Next]_vars
FairSpec == Spec /\ WF_vars(Internal) /\ WF_vars(Release) /\ WF_vars(\E a \in Answers : ForeignAnswer(a))

-----------------------------------------------------------------------------
(* PROPERTIES.  C06 ("authneg/gate/..." verdicts)                           *)
TypeOK ==
  /\ cstate \in StateVals /\ sph \in {"idle", "asking", "marking"}
  /\ sclosed \in BOOLEAN /\ hold \in BOOLEAN /\ accepted \in BOOLEAN

(* the gate opens only after an authenticate request whose user and token are well-typed and which the
   Authenticator accepted as that very pair *)
GateNeedsAcceptedPair == Gate => accepted
(* the Authenticator is asked about pairs that were presented, never about a value read out of a
   credential of another type *)
AskedOnlyPresentedPairs == \A k \in 1..Len(asked) : <<asked[k].u, asked[k].t>> \in presented
(* nothing reaches the probe service before *)
DeliveredOnlyBehindAcceptedPair == ~badDeliv
ContinueNeverOpens == cstate \in StateVals /\ \A s \in StateVals : ReadsAsDone(s) => s \in {"u3", "i3"}
RefusedProbeCloses == ~refusedOpen
(* a refused, ill-typed or undecodable authenticate leaves the gate as it was: a closed gate stays closed,
   and - what the code does - an open gate stays open (no revocation) *)
FailedAuthKeepsGate == [][(cstate' # cstate) => (sph = "marking" /\ cstate' = "u3")]_vars

(* outside C06: the client *)
Terminal(c) == c.ph \in {"idle", "end"}
AtMostTwoCalls == \A i \in Clients : cli[i].n <= 2
ClientTerminates == \A i \in Clients : (cli[i].ph # "idle") ~> (cli[i].ph = "end")
(* the client that succeeded after a renewal holds the token the server issued last *)
TokenIsLastIssued == \A i \in Clients : (cli[i].out = "ok" /\ cli[i].n = 2) => cli[i].nt = V("str", issued)
(* a client that was told "done" can run the procedure again *)
NoClientPanic == \A i \in Clients : cli[i].out # "panic"
(* success needs a done answer (or the Capability fall-back, which the code takes as done) *)
OkNeedsDone == \A i \in Clients : cli[i].out = "ok" => cli[i].la \in {"done", "stateint3", "capmsg"}
(* qiloop client against qiloop server: the client succeeds exactly when the gate is open at rest *)
OkMeansGateOpen == \A i \in Clients : (~Foreign /\ cli[i].out = "ok") => Gate
=============================================================================
