SPECIFICATION Spec
CONSTANTS
  LocalConns = {}
  FreeOrder = FALSE
  DevBoth = FALSE
  PinConn = FALSE
  WithGates = FALSE
  MaxGates = 0
  Modes = {"fast"}
  CloseErr = {1}
  Svcs = {1}
  Objs = {11}
  InitSvcs = {1}
  Conns = {1, 2}
  InitConns = {1}
  Calls = {1}
  MaxSrvTerm = 2
  TermSvcs = {}
  CallConns = {1, 2}
  CallObjs = {11}
  EnvOps = {"offer", "cclose", "listenfail"}
  Dev_SecondTerminatePanics = FALSE
  Dev_TerminateAfterStopPanics = FALSE
  Dev_LateAcceptStaysOpen = FALSE
  Dev_FailedNewServiceKeepsName = FALSE
  Dev_CloseAllStopsAtError = FALSE
  Dev_SplitSvcSwap = FALSE
  Dev_TerminatorKeepsName = FALSE
  Dev_TerminatorRemovesAll = FALSE
  Dev_TerminateKeepsService = FALSE
  Dev_EnqueueDropsAfterTerminate = FALSE
  Dev_ListenFailNoStop = FALSE
INVARIANTS TypeOK NoPanic TermAtMostOnce ServerDownComplete AllConnectionsClosed ListenFailStops SvcDownComplete LateCallsRefused FailedNewServiceFreesName
PROPERTIES OthersKeepAnswering
CHECK_DEADLOCK FALSE
