SPECIFICATION GSpec
CONSTANTS
  MaxLen = 99
  Names = {"a"}
  Eps = {"E", "F"}
  MaxReg = 1
  Gor = {"g1"}
  Terms = {}
  QCap = 2
  WithGone = FALSE
  WithIdReq = FALSE
  Dev_ListBeforeSubscribe = TRUE
  Dev_AddedIgnored = FALSE
  Dev_RemovedIgnored = FALSE
  Dev_RefreshThenDrain = FALSE
  Dev_StoreNotAtomic = FALSE
  Dev_CancelNotCleared = FALSE
  Dev_CancelCheckOutsideLock = FALSE
  Dev_FailedRefreshKeepsSession = FALSE
  Dev_TerminateLeavesDirectory = FALSE
  Dev_ResolveByNameAgain = FALSE
INVARIANTS CexRegisteredNotFound TypeOK
VIEW View
CONSTRAINT Short
CHECK_DEADLOCK FALSE
