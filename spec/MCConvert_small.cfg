SPECIFICATION Spec
CONSTANTS
  Universe = "small"
INVARIANTS InvWant InvValueOfTarget InvRoundTrip InvIdentity InvExclusive InvMapsKeepSize InvWellFormed
CHECK_DEADLOCK FALSE
