SPECIFICATION GSpec
CONSTANTS
  LocalConns = {2}
  FreeOrder = FALSE
  DevBoth = TRUE
  PinConn = TRUE
  WithGates = TRUE
  MaxGates = 1
  Modes = {"fast", "slow", "parkS"}
  CloseErr = {1}
  Svcs = {1, 2}
  Objs = {11, 12, 21}
  InitSvcs = {1}
  Conns = {1, 2}
  InitConns = {1, 2}
  Calls = {1, 2}
  MaxSrvTerm = 1
  TermSvcs = {1, 2}
  CallConns = {1, 2}
  CallObjs = {11, 21}
  EnvOps = {"newsvcfail"}
  MaxLen = 4
  Dev_SecondTerminatePanics = FALSE
  Dev_TerminateAfterStopPanics = FALSE
  Dev_LateAcceptStaysOpen = FALSE
  Dev_FailedNewServiceKeepsName = FALSE
  Dev_CloseAllStopsAtError = FALSE
  Dev_SplitSvcSwap = FALSE
  Dev_TerminatorKeepsName = FALSE
  Dev_TerminatorRemovesAll = FALSE
  Dev_TerminateKeepsService = FALSE
  Dev_EnqueueDropsAfterTerminate = FALSE
  Dev_ListenFailNoStop = FALSE
VIEW View
CHECK_DEADLOCK FALSE
