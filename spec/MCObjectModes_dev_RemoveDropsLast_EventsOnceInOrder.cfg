SPECIFICATION Spec
CONSTANTS
  Conns = {1, 2}
  Users = {1, 2}
  Alphabet <- Alpha_dev_sub
  MaxMsgs = 3
  MaxStack = 12
  WithDisconnect = FALSE
  SendWhen = "idle"
  AutoOff = FALSE
  KeepOut = "none"
  Dev_NoTraceGuard = FALSE
  Dev_CompareChannel = FALSE
  Dev_TracedWrapsRaw = FALSE
  Dev_StatAnyAction = FALSE
  Dev_ClearForgets = FALSE
  Dev_ReplyBypassesTrace = FALSE
  Dev_RemoveDropsLast = TRUE
  Dev_LateRegistrationKept = FALSE
INVARIANTS EventsOnceInOrder
CHECK_DEADLOCK FALSE
