--------------------------- MODULE TraceManagerLog ---------------------------
(***************************************************************************)
(* Validation of recorded, free-running concurrent executions of a real     *)
(* LogManager against ManagerLog.tla (the code as found: its Dev_* on).     *)
(* harness/cmd/signal logger-record: per round a fresh server; 2 recording  *)
(* providers and 4 listener slots (the third belongs to the client of the   *)
(* first) are driven by concurrent client goroutines (one per listener, one *)
(* per provider, one that creates listeners; calls to the manager object    *)
(* are issued one at a time, as its mail box runs them).  One ndjson line   *)
(* per event, in the order of the process-wide counter of the hooks:        *)
(*  harness   reset | call(t,o,l,p,v,q,msgs) | ret(t,r,v) | subscribed(l) |   *)
(*            drop(l) | recv(l,id) | batch(l,ids) | pev(l,v) | told_c(p) |    *)
(*            quiet                                                          *)
(*  hooks of bus/logger (emitted under the lock that protects the step):    *)
(*            log_begin, decide(l,msg,keep), log_end, lst_add(l,index),      *)
(*            lst_del(l), lst_level(l,v),                                    *)
(*            lst_filter(l,q,v), lst_clear(l), vjoin(v,racy),                *)
(*            fjoin(f,racy), vpush(p,v), fpush(p,f), prov_add(p,index),      *)
(*            prov_del(index), prov_del_unknown(index)                       *)
(* Every event must be the step of ManagerLog.tla it names, taken by the    *)
(* thread that can take it (TLC searches which one where the event does     *)
(* not say), with the logged values: the decision of filter() is the        *)
(* specification's for the listener's settings at that moment, a join is    *)
(* the join over the table at that moment, a push carries a join its        *)
(* thread computed, table changes happen when the locks allow them.  The    *)
(* steps the code takes without an event (idx, svcrm, tpend, unsub, psave,  *)
(* pnotify, pget, funlock, rej, nop, turning to a listener whose lock is    *)
(* taken, a push round without providers) are silent steps.  What a client  *)
(* receives (recv / batch / pev) must be the next element the specification *)
(* delivered to it - each once, in order, nothing else; at `quiet` every     *)
(* operation has returned and every connected client has received           *)
(* everything.                                                              *)
(*   UpdateVerbosity / UpdateFilters read the listeners' level and filters  *)
(* WITHOUT the listeners' filtersMutex: a join that overlaps a change       *)
(* (flagged racy by the recorder: a lst_level / lst_filter / lst_clear      *)
(* event between the join's begin and end events; or the change's call is   *)
(* in progress) may have seen the old or the new value: both are accepted.  *)
(***************************************************************************)
EXTENDS MCManagerLog, Json, IOUtils, TLCExt

ASSUME TLCSet(2, ndJsonDeserialize(IOEnv.TRACE))
TraceLog == TLCGet(2)
ASSUME TLCSet(3, Len(TraceLog))
TraceLen == TLCGet(3)

VARIABLES i, rc, bc, pc, prevl
tvars == <<vars, i, rc, bc, pc, prevl>>
T == TraceLog[i]
Zero == [l \in Listeners |-> 0]

TInit == Init /\ i = 1 /\ rc = Zero /\ bc = Zero /\ pc = Zero /\ prevl = [l \in Listeners |-> 4]
Keep == UNCHANGED <<rc, bc, pc, prevl>>
Is(k) == i <= TraceLen /\ T.k = k
Next1 == i' = i + 1

TReset == Is("reset") /\ Reset /\ rc' = Zero /\ bc' = Zero /\ pc' = Zero /\ prevl' = [l \in Listeners |-> 4] /\ Next1

\* ---- the clients ----------------------------------------------------------
Msgs(ms) == [j \in 1..Len(ms) |-> [id |-> ms[j].id, lvl |-> ms[j].lvl, cat |-> ms[j].cat]]
OkOf(o, v, q) == CASE o \in {"setlevel", "setprop"} -> Valid(v)
                   [] o = "addfilter" -> Valid(v) /\ q \in Pats
                   [] OTHER -> TRUE
TCall == /\ Is("call")
         /\ LET o == IF T.t # 0 /\ lst[T.t].st = "dead" THEN "gone" ELSE T.o IN
            Launch(T.t, o, OkOf(T.o, T.v, T.q), [l |-> T.l, p |-> T.p, v |-> T.v, q |-> T.q, msgs |-> Msgs(T.msgs)], "")
         /\ (T.t # 0 => lst[T.t].st \in {"live", "dead"})
         /\ (T.o = "create" => lst[T.l].st = "none")
         /\ UNCHANGED <<nMgr, nLst, mid, conn, pconn>> /\ UnchCode /\ Keep /\ Next1
TRet == /\ Is("ret") /\ ~Busy(T.t) /\ th[T.t].ret = T.r
        /\ (T.v # -1 => th[T.t].val = T.v)
        /\ UNCHANGED vars /\ Keep /\ Next1
TDrop == Is("drop") /\ Drop(T.l) /\ UNCHANGED <<nMgr, mid, pconn>> /\ Keep /\ Next1

\* ---- steps of the code that carry an event --------------------------------
PlainAt(t, s) == StepGuard(t) /\ Cur(t) = s /\ UnchEnv /\ Plain(t)
TPlain == \/ Is("log_begin") /\ PlainAt(0, "lbeg")
          \/ Is("log_end") /\ PlainAt(0, "lend")
          \/ Is("lst_add") /\ th[0].l = T.l /\ lst[T.l].idx = T.index /\ PlainAt(0, "ins")
          \/ Is("lst_del") /\ PlainAt(T.l, "tdel")
          \/ Is("lst_level") /\ \/ th[T.l].v = T.v /\ PlainAt(T.l, "lvl")
                                \/ th[0].l = T.l /\ T.v = 4 /\ PlainAt(0, "act")
          \/ Is("lst_filter") /\ th[T.l].q = T.q /\ th[T.l].v = T.v /\ PlainAt(T.l, "flock")
          \/ Is("lst_clear") /\ PlainAt(T.l, "fclr")
          \/ Is("prov_add") /\ th[0].p = T.p /\ pnext = T.index /\ PlainAt(0, "pins")
          \/ Is("prov_del") /\ th[0].v = T.index /\ (\E p \in Providers : prov[p].st = "in" /\ prov[p].idx = T.index) /\ PlainAt(0, "pdel")
          \/ Is("prov_del_unknown") /\ th[0].v = T.index /\ ~(\E p \in Providers : prov[p].st = "in" /\ prov[p].idx = T.index) /\ PlainAt(0, "pdel")
          \/ Is("told_c") /\ th[0].p = T.p /\ PlainAt(0, "pcat0")
          \/ Is("subscribed") /\ th[0].l = T.l /\ PlainAt(0, "subs")
TPlainK == TPlain /\ prevl' = (IF Is("lst_level") /\ T.l \in Listeners THEN [prevl EXCEPT ![T.l] = lst[T.l].lvl] ELSE prevl)
           /\ UNCHANGED <<rc, bc, pc>> /\ Next1

TDecide == /\ Is("decide") /\ StepGuard(0) /\ Cur(0) = "ldec"
           /\ (th[0].cur = 0 \/ th[0].cur = T.l)
           /\ th[0].msgs[th[0].mi].id = T.msg
           /\ Admits(T.l, th[0].msgs[th[0].mi]) = T.keep
           /\ UnchEnv /\ Decide(0, T.l) /\ Keep /\ Next1

\* the values a join may have read for listener l
CandV(l) == {lst[l].lvl} \cup (IF Busy(l) /\ Cur(l) = "lvl" THEN {th[l].v} ELSE {}) \cup (IF T.racy THEN {prevl[l]} ELSE {})
AchievableV(v) == /\ v >= Max({Min(CandV(l)) : l \in Table} \cup {0})
                  /\ v <= Max({Max(CandV(l)) : l \in Table} \cup {0})
                  /\ (v = 0 \/ \E l \in Table : v \in CandV(l))
TVJoin == /\ Is("vjoin") /\ AchievableV(T.v)
          /\ \E t \in Threads : StepGuard(t) /\ UnchEnv /\ JoinVStep(t, T.v)
          /\ Keep /\ Next1
FiltersMoving == T.racy \/ \E l \in Listeners : Busy(l) /\ Cur(l) \in {"flock", "fclr"}
TF == [q \in Pats |-> T.f[q]]
TFJoin == /\ Is("fjoin") /\ (FiltersMoving \/ TF = JoinF(Table))
          /\ \E t \in Threads : StepGuard(t) /\ UnchEnv /\ JoinFStep(t, TF)
          /\ Keep /\ Next1
TVPush == /\ Is("vpush")
          /\ \E t \in Threads : StepGuard(t) /\ Cur(t) = "vp" /\ th[t].jv = T.v /\ UnchEnv /\ Push(t, T.p)
          /\ Keep /\ Next1
TFPush == /\ Is("fpush")
          /\ \E t \in Threads : StepGuard(t) /\ Cur(t) = "fp" /\ th[t].jf = TF /\ UnchEnv /\ Push(t, T.p)
          /\ Keep /\ Next1

\* ---- steps without an event -----------------------------------------------
SilentSteps == {"idx", "svcrm", "tpend", "unsub", "psave", "pnotify", "pget", "funlock", "rej", "nop"}
TSilent == /\ i <= TraceLen
           /\ \E t \in Threads : /\ StepGuard(t) /\ UnchEnv
                                 /\ \/ Cur(t) \in SilentSteps /\ Plain(t)
                                    \/ Commit(t)
                                    \/ PushNone(t)
           /\ Keep /\ UNCHANGED i

\* ---- what the clients receive ---------------------------------------------
TRecv == /\ Is("recv") /\ rc[T.l] < Len(rcv[T.l]) /\ rcv[T.l][rc[T.l] + 1] = T.id
         /\ rc' = [rc EXCEPT ![T.l] = @ + 1] /\ UNCHANGED <<vars, bc, pc, prevl>> /\ Next1
TBatch == /\ Is("batch") /\ bc[T.l] < Len(bat[T.l]) /\ bat[T.l][bc[T.l] + 1] = T.ids
          /\ bc' = [bc EXCEPT ![T.l] = @ + 1] /\ UNCHANGED <<vars, rc, pc, prevl>> /\ Next1
TPev == /\ Is("pev") /\ pc[T.l] < Len(pev[T.l]) /\ pev[T.l][pc[T.l] + 1] = T.v
        /\ pc' = [pc EXCEPT ![T.l] = @ + 1] /\ UNCHANGED <<vars, rc, bc, prevl>> /\ Next1
TQuiet == /\ Is("quiet") /\ Quiet
          /\ \A l \in Listeners : conn[l] => (rc[l] = Len(rcv[l]) /\ bc[l] = Len(bat[l]) /\ pc[l] = Len(pev[l]))
          /\ UNCHANGED vars /\ Keep /\ Next1

TNext == TReset \/ TCall \/ TRet \/ TDrop \/ TPlainK \/ TDecide \/ TVJoin \/ TFJoin \/ TVPush \/ TFPush \/ TSilent
         \/ TRecv \/ TBatch \/ TPev \/ TQuiet
TSpec == TInit /\ [][TNext]_tvars

Track == TLCSet(1, IF TLCGet(1) < i THEN i ELSE TLCGet(1))
Accepted == /\ PrintT(<<"HWM", TLCGet(1), TraceLen>>)
            /\ TLCGet(1) = TraceLen + 1
ASSUME TLCSet(1, 0)
\* the register demands of the hosting property hold on every recorded state
TraceRegister == LogLevelIsRegister
=============================================================================
