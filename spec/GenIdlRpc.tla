----------------------------- MODULE GenIdlRpc -----------------------------
(* Export for IdlRpc (C05): one line per complete behaviour:
   "S": [cls, key, lines, acts, ops]
     cls    class of the interface (of its one non-plain action, else plain)
     key    the pool indices of the interface (one generated package per key)
     lines  the IDL text, one string per line
     acts   per action, in the order of the text: kind, id, name, cls, number
            of parameters, void, initial value (properties)
     ops    the operations with concrete values and expected observations  *)
EXTENDS IdlRpc, Json

ItfClass == IF \E i \in chosen : Special(i)
            THEN ThePool[CHOOSE i \in chosen : Special(i)].cls ELSE "plain"
ActOut(i) == LET a == ThePool[i]
             IN [kind |-> a.kind, id |-> a.id, name |-> a.name, cls |-> a.cls, np |-> Len(a.ps),
                 void |-> (a.ret = Void),
                 init |-> IF a.kind = "property" THEN Args(a, InitK) ELSE <<>>]
OpOut(h) == LET a == ThePool[h.idx]
            IN [op |-> h.op, id |-> h.id, deliver |-> h.deliver,
                args |-> IF h.op \in {"call", "emit", "set"} THEN Args(a, h.k) ELSE <<>>,
                ret |-> IF h.op = "call" /\ h.r # 0 THEN <<Val(a.ret, h.r)>>
                        ELSE IF h.op = "get" THEN Args(a, h.r) ELSE <<>>]
Scenario == [cls |-> ItfClass, key |-> ChosenSeq, lines |-> IdlText,
             acts |-> [j \in DOMAIN ChosenSeq |-> ActOut(ChosenSeq[j])],
             ops |-> [n \in DOMAIN hist |-> OpOut(hist[n])]]
Complete == phase = "run" /\ Len(hist) = MaxOps
Export == Complete => PrintT(<<"S", ToJson(Scenario)>>)
=============================================================================
