----------------------------- MODULE GenIdlRpc -----------------------------
(* Export for IdlRpc (C05): one line per complete behaviour:
   "S": [cls, key, layout, itfs, lines, acts, ops]
     cls    class of the interface (of its one special action, else "object"
            when it exchanges objects, else "plain")
     key    the pool indices of the interface (one generated package per key
            and layout)
     layout where the other interfaces of the package stand in the IDL text
     itfs   the interfaces of the package whose objects are exchanged
     lines  the IDL text of the package, one string per line
     acts   per action, in the order of the text: kind, id, name, cls, number
            of parameters, void, go (the Go name the generators give it, first
            letter still lower case: IdlRpc!GoName), grp (overload group),
            psig (parameter signature), initial value (properties) with the
            references inside it
     ops    the operations with concrete values and expected observations;
            an object slot of a value is [slot |-> n]: the n-th entry of
            objs (arguments / payload) resp. robjs (result): hs the sender's
            handle, hg the receiver's new handle, obj the object denoted    *)
EXTENDS IdlRpc, Json

RECURSIVE SeqOfStrings(_)
SeqOfStrings(S) == IF S = {} THEN <<>> ELSE LET x == CHOOSE y \in S : TRUE IN <<x>> \o SeqOfStrings(S \ {x})

ItfClass == IF \E i \in chosen : Special(i)
            THEN ThePool[CHOOSE i \in chosen : Special(i)].cls
            ELSE IF \E i \in chosen : ThePool[i].cls = "object" THEN "object"
            ELSE IF \E i \in chosen : ThePool[i].cls = "overload" THEN "overload" ELSE "plain"
ActOut(i) == LET a == ThePool[i]
                 ss == ArgSlots(a, InitK)
             IN [kind |-> a.kind, id |-> a.id, name |-> a.name, cls |-> a.cls, np |-> Len(a.ps),
                 void |-> (a.ret = Void), go |-> GoName(i), grp |-> a.grp, psig |-> ParamSig(a),
                 init |-> IF a.kind = "property" THEN Args(a, InitK) ELSE <<>>,
                 initobjs |-> IF a.kind = "property"
                              THEN Unsent(Picks(SHeld0, Table0, ss, 1), ss, SHeld0, Table0) ELSE <<>>]
OpOut(h) == IF h.idx = 0
            THEN [op |-> h.op, id |-> 0, deliver |-> FALSE, args |-> <<>>, ret |-> <<>>, j |-> 0,
                  side |-> h.side, h |-> h.h, g |-> h.g, objs |-> h.objs, robjs |-> h.robjs,
                  exec |-> h.exec, dev |-> h.dev, ran |-> 0, rango |-> ""]
            ELSE LET a == ThePool[h.idx]
                 IN [op |-> h.op, id |-> h.id, deliver |-> h.deliver,
                     args |-> IF h.op \in {"call", "emit", "set"} THEN Args(a, h.k) ELSE <<>>,
                     ret |-> IF h.op = "call" /\ h.r # 0 THEN <<Val(a.ret, h.r)>>
                             ELSE IF h.op = "get" THEN Args(a, h.r) ELSE <<>>,
                     j |-> h.j, side |-> h.side, h |-> h.h, g |-> h.g, objs |-> h.objs, robjs |-> h.robjs,
                     exec |-> h.exec, dev |-> h.dev,
                     \* the method the object must execute: its uid and its Go name (the implementor's method)
                     ran |-> IF h.ran = 0 THEN 0 ELSE ThePool[h.ran].id,
                     rango |-> IF h.ran = 0 THEN "" ELSE GoName(h.ran)]
Scenario == [cls |-> ItfClass, key |-> ChosenSeq, layout |-> layout, itfs |-> SeqOfStrings(PkgItfs),
             lines |-> IdlText,
             acts |-> [j \in DOMAIN ChosenSeq |-> ActOut(ChosenSeq[j])],
             ops |-> [n \in DOMAIN hist |-> OpOut(hist[n])]]
Complete == phase = "run" /\ Len(hist) = MaxOps
Export == Complete => PrintT(<<"S", ToJson(Scenario)>>)
=============================================================================
