SPECIFICATION GSpec
CONSTANTS
  Threads <- Cast914
  Conns = {"c1", "c2", "c3"}
  Signals = {"A", "B"}
  Objects = {"o1"}
  ConnOf <- CastConn
  SigOf <- CastSig
  ObjOf <- CastObj
  Rounds <- CR1
  EmitSeq <- EmitAAA
  QCap = 8
  Dev_ProxySectionsNotAtomic = TRUE
  Dev_SendAfterSnapshot = TRUE
  Devs = {}
  Probe <- NoProbe
  Failing = {"c3"}
  Inject <- NoInject
  Rogue = {}
  Hunt = ""
CHECK_DEADLOCK FALSE
