------------------------------ MODULE MCServer ------------------------------
(* Model-checking instances of Server.tla for C06 (hostile pre-authentication
   traffic on two connections).                                              *)
EXTENDS Server, IOUtils

PM(t, s, o, a, p) == [type |-> t, svc |-> s, obj |-> o, act |-> a, id |-> 7, tag |-> "x", pl |-> p]

AuthPls == {"good", "bad", "empty", "forgedU", "forgedI", "badforged", "wrongtype", "malformed"}
(* authenticate calls with every payload class *)
AuthCalls == {PM("call", 0, 0, 8, p) : p \in AuthPls}
(* every message kind x service in {0, probe} x action in {authenticate, other};
   the payload of the non-call kinds to service 0 is the forged map *)
Others == {PM(t, 0, 0, 8, "forgedU") : t \in Types \ {"call"}}
     \cup {PM(t, 0, 0, 100, "ok") : t \in Types}
     \cup {PM(t, 1, 1, 100, "ok") : t \in Types}
     \cup {PM(t, 1, 1, 8, "ok") : t \in Types}
     \cup {PM("capability", 0, 0, 8, "good"), PM("post", 0, 0, 8, "good")}
FullAlphabet == AuthCalls \cup Others
(* one representative of each class the server can tell apart *)
SmallAlphabet == AuthCalls
     \cup {PM("call", 1, 1, 100, "ok"), PM("post", 1, 1, 100, "ok"), PM("cancel", 1, 1, 100, "ok"),
           PM("capability", 0, 0, 8, "forgedU"), PM("capability", 0, 0, 8, "good"),
           PM("post", 0, 0, 8, "good"), PM("reply", 1, 1, 100, "ok"), PM("call", 0, 0, 100, "ok")}
TinyAlphabet == {PM("call", 0, 0, 8, "good"), PM("call", 0, 0, 8, "bad"), PM("call", 0, 0, 8, "forgedU"),
                 PM("call", 1, 1, 100, "ok"), PM("post", 1, 1, 100, "ok"), PM("capability", 0, 0, 8, "good")}
ProbeObjs == {<<1, 1>>}
TwoConns == {"c1", "c2"}
NoConns == {}
(* parameters of the generation runs come from the environment *)
EnvAuthMode == IOEnv.AUTHMODE
EnvAlphabet == CASE IOEnv.ALPHABET = "full" -> FullAlphabet
                 [] IOEnv.ALPHABET = "small" -> SmallAlphabet
                 [] IOEnv.ALPHABET = "tiny" -> TinyAlphabet
EnvMaxSends == CASE IOEnv.MAXSENDS = "1" -> 1 [] IOEnv.MAXSENDS = "2" -> 2 [] IOEnv.MAXSENDS = "3" -> 3
                 [] IOEnv.MAXSENDS = "4" -> 4 [] IOEnv.MAXSENDS = "5" -> 5
(* server.handle's filter drops Reply, Error, Event, Cancelled (server.go l.184-190) *)
CodeFilter == {"call", "post", "capability", "cancel"}
ReqTypes == {"call", "post"}
CallOnly == {"call"}
ScriptFTF == <<FALSE, TRUE, FALSE>>
=============================================================================
