SPECIFICATION GSpec
CONSTANTS
  Updaters = {"u1", "u2"}
  Subs = {"s1", "s2"}
  ValuesOf <- ValuesT
  MaxOps <- OpsT
  InitTables <- TabNone
  Foreign = {}
  Movers = {}
  Closers = {}
  MaxMoves = 0
  Atomic = TRUE
  Dev_IterateLiveSlice = FALSE
  Dev_SendErrorFailsWrite = FALSE
CHECK_DEADLOCK FALSE
