SPECIFICATION GSpec
CONSTANTS
  Updaters = {"u1", "u2"}
  Subs = {"s1", "s2"}
  ValuesOf <- ValuesT
  MaxOps <- OpsT
CHECK_DEADLOCK FALSE
