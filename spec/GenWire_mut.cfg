SPECIFICATION Spec
CONSTANTS
  Level = 2
  DynDepth = 1
INVARIANTS TypeOK ThRoundTrip ThWorkBounded ThOverlongRefused ThScaleLaw ExportM
CHECK_DEADLOCK FALSE
