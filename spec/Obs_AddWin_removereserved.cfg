SPECIFICATION Spec
CONSTANTS
  NAdd = 3
  StreamLen = 4
  MaxReseed = 2
  MaxCalls = 2
  MaxRemoves = 2
  ReserveMode = "both"
  CommitMode = "both"
  PendingAnswers = TRUE
  RemoveReserved = TRUE
  WithTerminate = FALSE
INVARIANTS TypeOK UniqueLiveIds
CHECK_DEADLOCK FALSE
