SPECIFICATION GSpec
CONSTANTS
  Conns <- OneConn
  InitAuthed <- OneConn
  Svcs = {1, 2}
  Objs <- ObjsT
  Methods = {100, 101}
  GenericActs = {8}
  FailTags = {}
  QCap = 10
  MCap = 10
  SrvAccept <- CodeFilter
  StubRuns <- ReqTypes
  AuthRuns <- CallOnly
  AuthMode = "yes"
  Script <- NoScript
  PeerMsgs <- NoPeerMsgs
  MaxSends = 0
  Hangups = FALSE
  Dev_CapMapUnsynchronised = FALSE
  Calls <- KT
  ClientOf <- clientT
  EpOf <- epT
  SvcOf <- svcT
  ObjOf <- objT
  ActOf <- actT
  Raws <- rawT1
  Deviations <- NoDev
INVARIANTS Export AtMostOneOutcome OwnResult ExecOnceIfOk ExecAtMostOnce PostAtMostOnce PostNoResponse FramesOwed OnlyCallAndPostExecute
CHECK_DEADLOCK FALSE
