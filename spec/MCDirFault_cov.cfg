SPECIFICATION FSpec
CONSTANTS
  Names = {"a"}
  MaxId = 2
  BadKinds = {"noname"}
  Eps = {"e2"}
  ObsSeq <- Obs2
  WithBreak = TRUE
  WithDrop = TRUE
  WithStall = FALSE
  WithReads = TRUE
  Dev_ReturnSendError = FALSE
  Dev_RollbackOnSendError = FALSE
  Dev_EmitThenCommit = FALSE
  Dev_StopAtFirstError = FALSE
  Dev_ResendOnError = FALSE
  Dev_LiveTable = FALSE
CONSTRAINT KeepDirectory
INVARIANTS FTypeOK OutcomeIsSequential StateIsSequential HealthyObserversSeeEveryTransitionOnce
           EveryObserverSeesAPrefix NoRemovedForRegistered AtMostOncePerTransition
           QEventsOncePerTransitionInOrder DeafStaysSubscribed NoticeOrderIrrelevant
PROPERTIES FailedOpChangesAndEmitsNothing
CHECK_DEADLOCK FALSE
