SPECIFICATION FSpec
CONSTANTS
  Names = {"a"}
  MaxId = 3
  BadKinds = {}
  Eps = {}
  ObsSeq <- Obs3
  WithBreak = TRUE
  WithDrop = TRUE
  WithStall = FALSE
  WithReads = FALSE
  Dev_ReturnSendError = FALSE
  Dev_RollbackOnSendError = FALSE
  Dev_EmitThenCommit = FALSE
  Dev_StopAtFirstError = FALSE
  Dev_ResendOnError = FALSE
  Dev_LiveTable = FALSE
CONSTRAINT KeepDirectory
INVARIANTS FTypeOK OutcomeIsSequential StateIsSequential HealthyObserversSeeEveryTransitionOnce
           EveryObserverSeesAPrefix NoRemovedForRegistered AtMostOncePerTransition
           QEventsOncePerTransitionInOrder DeafStaysSubscribed NoticeOrderIrrelevant
PROPERTIES FailedOpChangesAndEmitsNothing
CHECK_DEADLOCK FALSE
