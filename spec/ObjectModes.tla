---------------------------- MODULE ObjectModes ----------------------------
(***************************************************************************)
(* The per-object OBSERVATION MODES of a served object and what they do to *)
(* the message path (extension of C12; C13 for the subscriptions).         *)
(*                                                                         *)
(* One object (bus/object.go objectImpl behind the generated stubObject,   *)
(* bus/object_stub_gen.go l.215-254) served on a server with the client    *)
(* connections Conns.  The object is executed by ONE goroutine (its mail   *)
(* box, bus/mailbox.go): `stack` is what that goroutine still has to do    *)
(* for the message it is processing, one frame per critical section /      *)
(* linearization point, the head is the next step.  The closers of a lost  *)
(* connection run in goroutines of their own (bus/net/endpoint.go l.236-   *)
(* 253: `go handler.closeWith`).                                           *)
(*                                                                         *)
(*  action          code                                                   *)
(*  ClientSend      socket -> end point -> server -> router -> mail box    *)
(*                  (FIFO per connection; the order between connections is *)
(*                  the order of the enqueue)                              *)
(*  Dequeue         bus/mailbox.go: the next mail is given to Receive      *)
(*  Tracer          object.go l.356-371  Tracer(msg, from): the channel    *)
(*                  is wrapped PER MESSAGE: statChannel iff statsEnabled,  *)
(*                  tracedChannel (outermost) iff traceEnabled; nextTrace  *)
(*                  ++ and Trace(msg) for the incoming message             *)
(*  TraceSkip       object.go l.324-326  Trace(): action 0x56 is not traced*)
(*  TraceEmit       object.go l.328-341  Trace(): EventTrace{Id: nextTrace,*)
(*                  Kind: type, SlotId: action} -> SignalTraceObject ->    *)
(*                  UpdateSignal(0x56)                                     *)
(*  Snapshot        signal.go l.214-221  UpdateSignal: the subscribers of  *)
(*                  the signal, in table order, under signalsMutex.RLock   *)
(*  CtxSend         signal.go l.255-262  replyEvent -> user.context.Send:  *)
(*                  the channel STORED at registration; a tracedChannel    *)
(*                  traces again (channel.go l.119-122), a statChannel     *)
(*                  updates the statistics (l.145-148)                     *)
(*  StatUpdate      object.go l.347-354  updateMethodStatistics under      *)
(*                  statsMutex: only identifiers present in the map        *)
(*  Deliver         channel.go l.71-73   endpoint.Send (a closed           *)
(*                  connection loses the frame)                            *)
(*  ExecRegEnable   object.go l.111-120  registerEvent of signal 0x56      *)
(*                  switches tracing on (before anything else is checked)  *)
(*  RegCheck        signal.go l.74-82    duplicate user id refused         *)
(*  RegMake         signal.go l.93       MakeHandler: disconnection handler*)
(*  RegAppend       signal.go l.95-98    table append under signalsMutex   *)
(*  Forget          signal.go l.115-132  forgetSignalUser: user id AND the *)
(*                  END POINT of the channel (wrappers forward EndPoint()) *)
(*                  swap-remove under signalsMutex                         *)
(*  UnHandler       signal.go l.110      RemoveHandler (its closer runs    *)
(*                  forgetSignalUser once more: nothing left to forget)    *)
(*  ExecModes       object.go l.239-289  IsStatsEnabled EnableStats Stats  *)
(*                  ClearStats IsTraceEnabled EnableTrace                  *)
(*  ExecHello       user method (examples/pong hello)                      *)
(*  ExecFire        user method that emits the user signal (pong ping ->   *)
(*                  SignalPong -> UpdateSignal(102)) before it returns     *)
(*  Answer          stub c.SendReply / c.SendError on the wrapped channel: *)
(*                  trace (outermost), statistics, wire                    *)
(*  Disconnect      endpoint.go l.236-253 closeWith: every handler of the  *)
(*                  end point gets a closer goroutine                      *)
(*  Closer          signal.go l.88-92    forgetSignalUser(userID, from)    *)
(*                                                                         *)
(* What the code does and the properties do not promise is modelled as it  *)
(* is: tracing stays on after the last traceObject subscriber has left     *)
(* (there is no code that switches it off); a failing registerEvent of     *)
(* signal 0x56 switches tracing on all the same; after EnableTrace(false)  *)
(* the channels stored or created while tracing was on still trace;        *)
(* unregisterEvent ignores the signal id; a registration executed after    *)
(* its connection was lost stays in the table.                             *)
(* AutoOff = TRUE is the OTHER design the properties allow (not what this   *)
(* code does): the unregisterEvent that removes the last traceObject        *)
(* subscriber switches tracing off.  The replay accepts both.               *)
(*                                                                         *)
(* Deviations (all FALSE in the property configurations):                  *)
(*  Dev_NoTraceGuard       Trace() also traces traceObject events          *)
(*  Dev_CompareChannel     forgetSignalUser compares the Channel values    *)
(*                         (a wrapper is a fresh value per message)        *)
(*  Dev_TracedWrapsRaw     the tracedChannel wraps the raw channel: the    *)
(*                         statChannel is lost when both modes are on      *)
(*  Dev_StatAnyAction      updateMethodStatistics without the map check    *)
(*  Dev_ClearForgets       ClearStats leaves the map empty                 *)
(*  Dev_ReplyBypassesTrace tracedChannel.SendReply goes to the inner       *)
(*                         channel's SendReply                             *)
(*  Dev_RemoveDropsLast    forgetSignalUser truncates without the swap     *)
(*  Dev_LateRegistrationKept  THE CODE AS FOUND: registration and loss of   *)
(*                         the connection are not atomic.  A registerEvent *)
(*                         that waited in the mail box while its           *)
(*                         connection was lost is executed afterwards:     *)
(*                         MakeHandler on the shut end point succeeds, no  *)
(*                         closer will ever run; and a connection lost     *)
(*                         between MakeHandler (l.93) and the append       *)
(*                         (l.95-98) has its closer find nothing.  Either  *)
(*                         way the subscriber stays for ever (FALSE: a     *)
(*                         registration that finds its connection gone is  *)
(*                         refused)                                        *)
(***************************************************************************)
EXTENDS Naturals, Sequences, FiniteSets, TLC

CONSTANTS Conns, Users, Alphabet, MaxMsgs, MaxStack, WithDisconnect, SendWhen, KeepOut, AutoOff,
          Dev_NoTraceGuard, Dev_CompareChannel, Dev_TracedWrapsRaw, Dev_StatAnyAction,
          Dev_ClearForgets, Dev_ReplyBypassesTrace, Dev_RemoveDropsLast, Dev_LateRegistrationKept

\* action identifiers of the meta object (bus/object_stub_gen.go, examples/pong)
A_REG == 0   A_UNREG == 1   A_ISSTATS == 80   A_ESTATS == 81   A_STATS == 82   A_CLEAR == 83
A_ISTRACE == 84   A_ETRACE == 85   A_HELLO == 100   A_FIRE == 101
SIG_T == 86   SIG_S == 102
Methods == {A_REG, A_UNREG, A_ISSTATS, A_ESTATS, A_STATS, A_CLEAR, A_ISTRACE, A_ETRACE, A_HELLO, A_FIRE}
Ids == Methods \cup {SIG_T, SIG_S}
\* message types (bus/net/message.go)
K_CALL == 1   K_REPLY == 2   K_ERROR == 3   K_EVENT == 5

\* a request template: action, signal, user id, boolean argument (0 where unused)
Tmpl(a, sig, u, b) == [a |-> a, sig |-> sig, u |-> u, b |-> b]
FullAlphabet ==
  {Tmpl(A_REG, s, u, 0) : s \in {SIG_S, SIG_T}, u \in Users} \cup {Tmpl(A_UNREG, 0, u, 0) : u \in Users}
  \cup {Tmpl(a, 0, 0, b) : a \in {A_ESTATS, A_ETRACE}, b \in {0, 1}}
  \cup {Tmpl(a, 0, 0, 0) : a \in {A_ISSTATS, A_ISTRACE, A_STATS, A_CLEAR, A_HELLO, A_FIRE}}

VARIABLES conn, mbox, stack, statsOn, traceOn, nextTrace, subs, hnd, closers, counts, tracked, sent, out,
          \* monitors (ghost state: what the properties talk about)
          ans, nEmit, flowT, nFire, lastE, lastF, dead, live, want, unregBad, lateEvent, evBad, overflow

core == <<conn, mbox, stack, statsOn, traceOn, nextTrace, subs, hnd, closers, counts, tracked, sent>>
mons == <<ans, nEmit, flowT, nFire, lastE, lastF, dead, live, want, unregBad, lateEvent, evBad, overflow>>
vars == <<core, out, mons>>

ZeroCounts == [a \in Ids |-> 0]
\* one frame of the mail box goroutine (uniform record: every field always present)
F0 == [op |-> "", n |-> 0, c |-> 0, a |-> 0, k |-> 0, sig |-> 0, u |-> 0, b |-> 0, mid |-> 0,
       ws |-> FALSE, wt |-> FALSE, s0 |-> FALSE, e |-> 0, id |-> 0, tk |-> 0, ts |-> 0, r |-> 0, cnt |-> ZeroCounts]
Entry(u, sig, c, mid, ws, wt) == [u |-> u, sig |-> sig, c |-> c, mid |-> mid, ws |-> ws, wt |-> wt]

Init ==
  /\ conn = [c \in Conns |-> "open"] /\ mbox = <<>> /\ stack = <<>>
  /\ statsOn = FALSE /\ traceOn = FALSE /\ nextTrace = 0 /\ subs = <<>>
  /\ hnd = [c \in Conns |-> {}] /\ closers = {} /\ counts = ZeroCounts /\ tracked = Methods /\ sent = 0
  /\ out = [c \in Conns |-> <<>>]
  /\ ans = [n \in 1..MaxMsgs |-> 0] /\ nEmit = 0 /\ flowT = 0 /\ nFire = 0
  /\ lastE = [n \in 1..MaxMsgs |-> 0] /\ lastF = [n \in 1..MaxMsgs |-> 0] /\ dead = {} /\ live = {} /\ want = ZeroCounts
  /\ unregBad = FALSE /\ lateEvent = FALSE /\ evBad = FALSE /\ overflow = FALSE

Alive == ~overflow
Top == Head(stack)
Rest == Tail(stack)
\* the goroutine goes on with `fs` before what it had left; a stack beyond MaxStack is the end of the process
\* (runtime: goroutine stack exceeds the limit -> fatal error)
PushOn(fs, rest) == IF Len(fs) + Len(rest) > MaxStack THEN stack' = <<>> /\ overflow' = TRUE
                    ELSE stack' = fs \o rest /\ UNCHANGED overflow
Push(fs) == PushOn(fs, Rest)
Running(op) == Alive /\ stack # <<>> /\ Top.op = op

\* ---------------------------------------------------------------- environment
\* Sends commute with the steps of the mail box goroutine (only Dequeue reads the queue, FIFO): a send is taken
\* between two mails only ("between"), which loses no order of the queue and no interleaving with Disconnect /
\* Closer.  Without Disconnect nothing is concurrent with the goroutine and the queue never needs to hold more than
\* one mail ("idle").
ClientSend(c, t) ==
  /\ Alive /\ conn[c] = "open" /\ sent < MaxMsgs /\ t \in Alphabet /\ stack = <<>>
  /\ SendWhen = "idle" => mbox = <<>> /\ closers = {}
  /\ sent' = sent + 1
  /\ mbox' = Append(mbox, [F0 EXCEPT !.op = "tracer", !.n = sent + 1, !.c = c, !.a = t.a, !.sig = t.sig, !.u = t.u, !.b = t.b])
  /\ out' = IF KeepOut = "delta" THEN [d \in Conns |-> <<>>] ELSE out
  /\ UNCHANGED <<conn, stack, statsOn, traceOn, nextTrace, subs, hnd, closers, counts, tracked, mons>>

Disconnect(c) ==
  /\ Alive /\ WithDisconnect /\ conn[c] = "open"
  /\ conn' = [conn EXCEPT ![c] = "closed"]
  /\ closers' = closers \cup {<<c, u>> : u \in hnd[c]}
  /\ hnd' = [hnd EXCEPT ![c] = {}]
  /\ out' = IF KeepOut = "delta" THEN [d \in Conns |-> <<>>] ELSE out
  /\ UNCHANGED <<mbox, stack, statsOn, traceOn, nextTrace, subs, counts, tracked, sent, mons>>

\* ---------------------------------------------------------------- subscriber table
\* forgetSignalUser: the entry of user u whose channel has the end point of `from`.
\* plain: `from` is the connection's own channel value (no wrapper); same: `from` IS the stored value (the closer)
Matches(s, u, c, plain, same) ==
  /\ s.u = u /\ s.c = c
  /\ Dev_CompareChannel => (same \/ (plain /\ ~s.ws /\ ~s.wt))
Found(u, c, plain, same) == {i \in 1..Len(subs) : Matches(subs[i], u, c, plain, same)}
Removed(i) == IF Dev_RemoveDropsLast THEN SubSeq(subs, 1, Len(subs) - 1)
              ELSE SubSeq([subs EXCEPT ![i] = subs[Len(subs)]], 1, Len(subs) - 1)
ForgetIn(u, c, plain, same) ==
  IF Found(u, c, plain, same) = {} THEN subs ELSE Removed(CHOOSE i \in Found(u, c, plain, same) : TRUE)

Closer(c, u) ==
  /\ Alive /\ <<c, u>> \in closers
  /\ closers' = closers \ {<<c, u>>}
  /\ subs' = ForgetIn(u, c, FALSE, TRUE)
  /\ live' = live \ {subs[i].mid : i \in {j \in 1..Len(subs) : subs[j].u = u /\ subs[j].c = c}}
  /\ UNCHANGED <<conn, mbox, stack, statsOn, traceOn, nextTrace, hnd, counts, tracked, sent, out,
                 ans, nEmit, flowT, nFire, lastE, lastF, dead, want, unregBad, lateEvent, evBad, overflow>>

\* ---------------------------------------------------------------- the mail box goroutine
Dequeue ==
  /\ Alive /\ stack = <<>> /\ mbox # <<>>
  /\ stack' = <<Head(mbox)>> /\ mbox' = Tail(mbox)
  /\ UNCHANGED <<conn, statsOn, traceOn, nextTrace, subs, hnd, closers, counts, tracked, sent, out, mons>>

TraceFrame(k, a) == [F0 EXCEPT !.op = "trace", !.k = k, !.a = a]

\* Tracer applied to the mail m0 (what the goroutine has left after it: rest)
TracerStep(m0, rest) ==
  LET m == [m0 EXCEPT !.op = "exec", !.s0 = statsOn, !.wt = traceOn,
                      !.ws = IF Dev_TracedWrapsRaw /\ traceOn THEN FALSE ELSE statsOn]
  IN IF traceOn
     THEN /\ nextTrace' = nextTrace + 1 /\ flowT' = flowT + 1
          /\ PushOn(<<TraceFrame(K_CALL, m.a), m>>, rest)
     ELSE /\ PushOn(<<m>>, rest) /\ UNCHANGED <<nextTrace, flowT>>
Tracer ==
  /\ Running("tracer")
  /\ TracerStep(Top, Rest)
  /\ UNCHANGED <<conn, mbox, statsOn, traceOn, subs, hnd, closers, counts, tracked, sent, out,
                 ans, nEmit, nFire, lastE, lastF, dead, live, want, unregBad, lateEvent, evBad>>

TraceSkip ==
  /\ Running("trace") /\ Top.a = SIG_T /\ ~Dev_NoTraceGuard
  /\ stack' = Rest
  /\ UNCHANGED <<conn, mbox, statsOn, traceOn, nextTrace, subs, hnd, closers, counts, tracked, sent, out, mons>>

TraceEmit ==
  /\ Running("trace") /\ (Top.a # SIG_T \/ Dev_NoTraceGuard)
  /\ nEmit' = nEmit + 1
  /\ Push(<<[F0 EXCEPT !.op = "snap", !.sig = SIG_T, !.e = nEmit + 1, !.id = nextTrace, !.tk = Top.k, !.ts = Top.a]>>)
  /\ UNCHANGED <<conn, mbox, statsOn, traceOn, nextTrace, subs, hnd, closers, counts, tracked, sent, out,
                 ans, flowT, nFire, lastE, lastF, dead, live, want, unregBad, lateEvent, evBad>>

Snapshot ==
  /\ Running("snap")
  /\ LET sel == SelectSeq(subs, LAMBDA s : s.sig = Top.sig)
     IN Push([i \in 1..Len(sel) |->
              [Top EXCEPT !.op = "send", !.u = sel[i].u, !.c = sel[i].c, !.mid = sel[i].mid, !.ws = sel[i].ws, !.wt = sel[i].wt]])
  /\ UNCHANGED <<conn, mbox, statsOn, traceOn, nextTrace, subs, hnd, closers, counts, tracked, sent, out,
                 ans, nEmit, flowT, nFire, lastE, lastF, dead, live, want, unregBad, lateEvent, evBad>>

CtxSend ==
  /\ Running("send")
  /\ LET f == Top IN
     /\ lateEvent' = (lateEvent \/ f.mid \in dead)
     /\ IF f.sig = SIG_T
        THEN /\ evBad' = (evBad \/ f.e # lastE[f.mid] + 1) /\ lastE' = [lastE EXCEPT ![f.mid] = f.e] /\ UNCHANGED lastF
        ELSE /\ evBad' = (evBad \/ f.e # lastF[f.mid] + 1) /\ lastF' = [lastF EXCEPT ![f.mid] = f.e] /\ UNCHANGED lastE
     /\ flowT' = IF f.wt /\ f.sig # SIG_T THEN flowT + 1 ELSE flowT
     /\ Push((IF f.wt THEN <<TraceFrame(K_EVENT, f.sig)>> ELSE <<>>)
             \o (IF f.ws THEN <<[F0 EXCEPT !.op = "stat", !.a = f.sig]>> ELSE <<>>)
             \o <<[f EXCEPT !.op = "deliver", !.k = K_EVENT, !.n = f.mid]>>)
  /\ UNCHANGED <<conn, mbox, statsOn, traceOn, nextTrace, subs, hnd, closers, counts, tracked, sent, out,
                 ans, nEmit, nFire, dead, live, want, unregBad>>

StatUpdate ==
  /\ Running("stat")
  /\ IF Top.a \in tracked \/ Dev_StatAnyAction
     THEN counts' = [counts EXCEPT ![Top.a] = @ + 1] /\ tracked' = tracked \cup {Top.a}
     ELSE UNCHANGED <<counts, tracked>>
  /\ stack' = Rest
  /\ UNCHANGED <<conn, mbox, statsOn, traceOn, nextTrace, subs, hnd, closers, sent, out, mons>>

\* what a client reads: message type, the request it answers (events: the registration), the event
Wire(f) == [k |-> f.k, n |-> f.n, sig |-> IF f.k = K_EVENT THEN f.sig ELSE 0, e |-> IF f.k = K_EVENT THEN f.e ELSE 0,
            id |-> IF f.k = K_EVENT THEN f.id ELSE 0, tk |-> IF f.k = K_EVENT THEN f.tk ELSE 0,
            ts |-> IF f.k = K_EVENT THEN f.ts ELSE 0, r |-> f.r, cnt |-> f.cnt]
Deliver ==
  /\ Running("deliver")
  /\ out' = IF conn[Top.c] = "open" /\ KeepOut # "none" THEN [out EXCEPT ![Top.c] = Append(@, Wire(Top))] ELSE out
  /\ ans' = IF Top.k \in {K_REPLY, K_ERROR} THEN [ans EXCEPT ![Top.n] = @ + 1] ELSE ans
  /\ stack' = Rest
  /\ UNCHANGED <<conn, mbox, statsOn, traceOn, nextTrace, subs, hnd, closers, counts, tracked, sent,
                 nEmit, flowT, nFire, lastE, lastF, dead, live, want, unregBad, lateEvent, evBad, overflow>>

AnswerFrame(f, k, r, cnt) == [f EXCEPT !.op = "answer", !.k = k, !.r = r, !.cnt = cnt]
Reply(f) == AnswerFrame(f, K_REPLY, 0, ZeroCounts)
Error(f) == AnswerFrame(f, K_ERROR, 0, ZeroCounts)

ExecRegEnable ==
  /\ Running("exec") /\ Top.a = A_REG
  /\ traceOn' = (traceOn \/ Top.sig = SIG_T)
  /\ stack' = <<[Top EXCEPT !.op = "regcheck"]>> \o Rest
  /\ UNCHANGED <<conn, mbox, statsOn, nextTrace, subs, hnd, closers, counts, tracked, sent, out, mons>>

RegCheck ==
  /\ Running("regcheck")
  /\ IF \E i \in 1..Len(subs) : subs[i].u = Top.u
     THEN stack' = <<Error(Top)>> \o Rest
     ELSE stack' = <<[Top EXCEPT !.op = "regmake"]>> \o Rest
  /\ UNCHANGED <<conn, mbox, statsOn, traceOn, nextTrace, subs, hnd, closers, counts, tracked, sent, out, mons>>

RegMake ==
  /\ Running("regmake")
  /\ IF conn[Top.c] = "closed" /\ ~Dev_LateRegistrationKept
     THEN stack' = <<Error(Top)>> \o Rest /\ UNCHANGED hnd
     ELSE /\ hnd' = [hnd EXCEPT ![Top.c] = @ \cup {Top.u}]
          /\ stack' = <<[Top EXCEPT !.op = "regappend"]>> \o Rest
  /\ UNCHANGED <<conn, mbox, statsOn, traceOn, nextTrace, subs, closers, counts, tracked, sent, out, mons>>

RegAppend ==
  /\ Running("regappend")
  /\ IF conn[Top.c] = "closed" /\ ~Dev_LateRegistrationKept
     THEN stack' = <<Error(Top)>> \o Rest /\ UNCHANGED <<subs, lastE, lastF, live>>
     ELSE /\ subs' = Append(subs, Entry(Top.u, Top.sig, Top.c, Top.n, Top.ws, Top.wt))
          /\ lastE' = [lastE EXCEPT ![Top.n] = nEmit] /\ lastF' = [lastF EXCEPT ![Top.n] = nFire]
          /\ stack' = <<Reply(Top)>> \o Rest
          /\ live' = live \cup {Top.n}
  /\ UNCHANGED <<conn, mbox, statsOn, traceOn, nextTrace, hnd, closers, counts, tracked, sent, out,
                 ans, nEmit, flowT, nFire, dead, want, unregBad, lateEvent, evBad, overflow>>

Forget ==
  /\ Running("exec") /\ Top.a = A_UNREG
  /\ LET f == Top
         plain == ~f.ws /\ ~f.wt
         hit == Found(f.u, f.c, plain, FALSE)
     IN IF hit = {}
        THEN /\ unregBad' = (unregBad \/ \E i \in 1..Len(subs) : subs[i].u = f.u /\ subs[i].c = f.c)
             /\ stack' = <<Error(f)>> \o Rest
             /\ UNCHANGED <<subs, dead, live>>
        ELSE /\ subs' = ForgetIn(f.u, f.c, plain, FALSE)
             /\ dead' = dead \cup {subs[CHOOSE i \in hit : TRUE].mid}
             /\ live' = live \ {subs[CHOOSE i \in hit : TRUE].mid}
             /\ stack' = <<[f EXCEPT !.op = "unhandler"]>> \o Rest
             /\ UNCHANGED unregBad
  /\ traceOn' = IF AutoOff /\ (\E i \in 1..Len(subs) : subs[i].sig = SIG_T) /\ ~(\E i \in 1..Len(subs') : subs'[i].sig = SIG_T)
                 THEN FALSE ELSE traceOn
  /\ UNCHANGED <<conn, mbox, statsOn, nextTrace, hnd, closers, counts, tracked, sent, out,
                 ans, nEmit, flowT, nFire, lastE, lastF, want, lateEvent, evBad, overflow>>

UnHandler ==
  /\ Running("unhandler")
  /\ hnd' = [hnd EXCEPT ![Top.c] = @ \ {Top.u}]
  /\ subs' = IF Top.u \in hnd[Top.c] THEN ForgetIn(Top.u, Top.c, FALSE, TRUE) ELSE subs   \* the closer of the removed handler
  /\ stack' = <<Reply(Top)>> \o Rest
  /\ UNCHANGED <<conn, mbox, statsOn, traceOn, nextTrace, closers, counts, tracked, sent, out, mons>>

ExecModes ==
  /\ Running("exec") /\ Top.a \in {A_ESTATS, A_ETRACE, A_ISSTATS, A_ISTRACE, A_STATS, A_CLEAR}
  /\ LET f == Top IN
     /\ statsOn' = IF f.a = A_ESTATS THEN f.b = 1 ELSE statsOn
     /\ traceOn' = IF f.a = A_ETRACE THEN f.b = 1 ELSE traceOn
     /\ counts' = IF f.a = A_CLEAR THEN ZeroCounts ELSE counts
     /\ tracked' = IF f.a = A_CLEAR THEN (IF Dev_ClearForgets THEN {} ELSE Methods) ELSE tracked
     /\ want' = IF f.a = A_CLEAR THEN ZeroCounts ELSE want
     /\ stack' = <<AnswerFrame(f, K_REPLY,
                               CASE f.a = A_ISSTATS -> (IF statsOn THEN 1 ELSE 0)
                                 [] f.a = A_ISTRACE -> (IF traceOn THEN 1 ELSE 0)
                                 [] OTHER -> 0,
                               IF f.a = A_STATS THEN counts ELSE ZeroCounts)>> \o Rest
  /\ UNCHANGED <<conn, mbox, nextTrace, subs, hnd, closers, sent, out,
                 ans, nEmit, flowT, nFire, lastE, lastF, dead, live, unregBad, lateEvent, evBad, overflow>>

ExecHello ==
  /\ Running("exec") /\ Top.a = A_HELLO
  /\ stack' = <<Reply(Top)>> \o Rest
  /\ UNCHANGED <<conn, mbox, statsOn, traceOn, nextTrace, subs, hnd, closers, counts, tracked, sent, out, mons>>

ExecFire ==
  /\ Running("exec") /\ Top.a = A_FIRE
  /\ nFire' = nFire + 1
  /\ Push(<<[F0 EXCEPT !.op = "snap", !.sig = SIG_S, !.e = nFire + 1], Reply(Top)>>)
  /\ UNCHANGED <<conn, mbox, statsOn, traceOn, nextTrace, subs, hnd, closers, counts, tracked, sent, out,
                 ans, nEmit, flowT, lastE, lastF, dead, live, want, unregBad, lateEvent, evBad>>

Answer ==
  /\ Running("answer")
  /\ LET f == Top IN
     /\ want' = IF f.s0 THEN [want EXCEPT ![f.a] = @ + 1] ELSE want
     /\ flowT' = IF f.wt THEN flowT + 1 ELSE flowT
     /\ Push((IF f.wt /\ ~(Dev_ReplyBypassesTrace /\ f.k = K_REPLY) THEN <<TraceFrame(f.k, f.a)>> ELSE <<>>)
             \o (IF f.ws THEN <<[F0 EXCEPT !.op = "stat", !.a = f.a]>> ELSE <<>>)
             \o <<[f EXCEPT !.op = "deliver"]>>)
  /\ UNCHANGED <<conn, mbox, statsOn, traceOn, nextTrace, subs, hnd, closers, counts, tracked, sent, out,
                 ans, nEmit, nFire, lastE, lastF, dead, live, unregBad, lateEvent, evBad>>

MailBox == Dequeue \/ Tracer \/ TraceSkip \/ TraceEmit \/ Snapshot \/ CtxSend \/ StatUpdate \/ Deliver
           \/ ExecRegEnable \/ RegCheck \/ RegMake \/ RegAppend \/ Forget \/ UnHandler \/ ExecModes \/ ExecHello \/ ExecFire
           \/ Answer
Closers == \E c \in Conns, u \in Users : Closer(c, u)
Internal == MailBox \/ Closers
Env == \/ \E c \in Conns, t \in Alphabet : ClientSend(c, t)
       \/ \E c \in Conns : Disconnect(c)
Next == Internal \/ Env
Spec == Init /\ [][Next]_vars /\ WF_vars(MailBox) /\ WF_vars(Closers)

Idle == stack = <<>> /\ mbox = <<>> /\ closers = {}

\* ---------------------------------------------------------------- properties
TypeOK ==
  /\ conn \in [Conns -> {"open", "closed"}] /\ statsOn \in BOOLEAN /\ traceOn \in BOOLEAN
  /\ nextTrace \in 0..MaxMsgs /\ sent \in 0..MaxMsgs /\ Len(stack) <= MaxStack
  /\ \A i \in 1..Len(subs) : subs[i].u \in Users /\ subs[i].c \in Conns /\ subs[i].sig \in {SIG_S, SIG_T}
  /\ closers \subseteq (Conns \X Users) /\ tracked \subseteq Ids

\* (3) tracing terminates: the goroutine's work for one message is bounded
NoCrash == ~overflow
\* (1) every call is answered, once (the answer is handed to the connection: Deliver)
AnsweredOnce == /\ \A n \in 1..MaxMsgs : ans[n] <= 1
                /\ (stack = <<>> /\ mbox = <<>>) => \A n \in 1..sent : ans[n] = 1
\* (2) unregisterEvent of a registration made on the same connection succeeds, whatever the modes were
UnregisterOwnSucceeds == ~unregBad
\* (2) no event for a registration whose removal was acknowledged
NoEventAfterUnregister == ~lateEvent
\* (2)(4) a subscriber gets every emission made while it is in the table, once, in order:
\*        events of the user signal and trace events alike
UniqueUsers == \A i, j \in 1..Len(subs) : subs[i].u = subs[j].u => i = j
EventsOnceInOrder ==
  /\ ~evBad /\ UniqueUsers
  /\ Idle => (\A i \in 1..Len(subs) :
                IF subs[i].sig = SIG_T THEN lastE[subs[i].mid] = nEmit ELSE lastF[subs[i].mid] = nFire)
  \* nobody is dropped: a registration that was acknowledged and neither cancelled nor lost is in the table
  /\ Idle => (\A m \in live : \E k \in 1..Len(subs) : subs[k].mid = m)
\* (2) nobody stays subscribed on a connection that is gone
NoSubscriberOfLostConnection == Idle => \A i \in 1..Len(subs) : conn[subs[i].c] = "open"
\* (3)(4) one trace event per message that passes a traced channel, none for trace events
TraceBounded == nEmit <= flowT /\ ((stack = <<>>) => nEmit = flowT)
\* (5) the counters are the answered calls that arrived while the statistics were on, since the last ClearStats
StatsExact == (stack = <<>>) => \A a \in Ids : counts[a] = (IF a \in Methods THEN want[a] ELSE 0)

\* liveness: the object comes to rest with nothing left to do (every message sent is answered: AnsweredOnce)
ComesToRest == <>[](stack = <<>> /\ mbox = <<>>)
=============================================================================
