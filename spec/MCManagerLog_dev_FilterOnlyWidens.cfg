\* vacuity guard: with Dev_FilterOnlyWidens the demand DeliveredExactly must FAIL
SPECIFICATION Spec
CONSTANTS
  Listeners = {1, 2}
  Providers = {1}
  RealProv = {}
  LevelsUsed = {2, 6}
  BadLevel = 7
  Pats = {"core"}
  BadPat = "("
  Cats = {"core", "core.net", "app"}
  MgrOps = {"log"}
  LstOps = {"setlevel", "addfilter", "clear", "terminate", "drop"}
  MaxMgr = 1
  MaxLst = 1
  InitLive = {1, 2}
  InitProv = {}
  Hist = FALSE
  MaxHold = 0
  Match <- MCMatch
  PCat <- MCPCat
  ClientOf <- MCClientOf
  Batches <- MCBatches1
  Dev_FilterOnlyWidens = TRUE
  Dev_MinCategoryJoin = FALSE
  Dev_NoRecomputeOnTerminate = FALSE
  Dev_LostListenerKept = FALSE
  Dev_StalePush = FALSE
  Dev_SetLevelBypassesProperty = FALSE
  Dev_AddFilterHoldsLock = FALSE
  Dev_UnlockedFilterRead = FALSE
  Dev_RejectedWriteSaved = FALSE
INVARIANTS DeliveredExactly
CHECK_DEADLOCK FALSE
