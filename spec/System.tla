------------------------------- MODULE System -------------------------------
(***************************************************************************)
(* End-to-end call path: bus.Client callers || network FIFOs || Server.     *)
(*                                                                         *)
(*   bus/client.go  Call: nextMessageID (l.23-28, per bus.Client counter,  *)
(*                  starts at 1, +2), MakeHandler with a single-shot       *)
(*                  filter on service/object/action/id (l.62-77), Send     *)
(*                  (l.80), wait on the reply queue (l.97-112)             *)
(*   bus/net/endpoint.go dispatch on the client side: every matching       *)
(*                  handler gets the message, keep=false handlers are      *)
(*                  closed and their slot cleared (l.313-352)              *)
(*   bus/cache.go   Cache.Proxy: which proxies share a bus.Client          *)
(*                  (ClientOf) and which clients share an endpoint (EpOf)  *)
(*                                                                         *)
(* Raw frames (Raws) are what a peer can write on a connection without     *)
(* going through bus.Client: posts and the six other message kinds.        *)
(***************************************************************************)
EXTENDS Server

CONSTANTS
  Calls,      \* identities of the calls made through bus.Client.Call (strings: also the argument tag)
  ClientOf,   \* Calls -> bus.Client objects
  EpOf,       \* bus.Client -> connection (several clients may share one endpoint)
  SvcOf, ObjOf, ActOf,   \* target of each call
  Raws        \* raw frames: [tag, conn, type, svc, obj, act, id, pl]

Clients == {ClientOf[k] : k \in Calls}
ConnOf(k) == EpOf[ClientOf[k]]

VARIABLES
  cst,      \* cst[k]: "init" | "ided" | "registered" | "waiting" | "done"
  mid,      \* mid[k]: message id of call k (0: not allocated yet)
  ctr,      \* ctr[cl]: client.messageID
  hnd,      \* hnd[c]: calls whose single-shot reply handler is in the endpoint table of c
  outcome,  \* outcome[k]: what Call returned, as a sequence (the property wants length <= 1)
  rawSent   \* tags of the raw frames written so far

cliVars == <<cst, mid, ctr, hnd, outcome, rawSent>>
svars   == <<netVars, srvVars, histVars, sent, cliVars>>

SysInit ==
  /\ SrvInit /\ sent = 0
  /\ cst = [k \in Calls |-> "init"]
  /\ mid = [k \in Calls |-> 0]
  /\ ctr = [cl \in Clients |-> 1]
  /\ hnd = [c \in Conns |-> {}]
  /\ outcome = [k \in Calls |-> <<>>]
  /\ rawSent = {}

srvAll == <<srvVars, histVars, sent>>

(* client.nextMessageID under messageIDMutex *)
NextID(k) ==
  /\ cst[k] = "init"
  /\ ctr' = [ctr EXCEPT ![ClientOf[k]] = @ + 2]
  /\ mid' = [mid EXCEPT ![k] = ctr[ClientOf[k]] + 2]
  /\ cst' = [cst EXCEPT ![k] = "ided"]
  /\ UNCHANGED <<netVars, srvAll, hnd, outcome, rawSent>>

(* endpoint.MakeHandler(filter, reply, closer): "1. starts listening for an answer" *)
Register(k) ==
  /\ cst[k] = "ided"
  /\ hnd' = [hnd EXCEPT ![ConnOf(k)] = @ \cup {k}]
  /\ cst' = [cst EXCEPT ![k] = "registered"]
  /\ UNCHANGED <<netVars, srvAll, mid, ctr, outcome, rawSent>>

CallMsg(k) == [type |-> "call", svc |-> SvcOf[k], obj |-> ObjOf[k], act |-> ActOf[k], id |-> mid[k],
               tag |-> k, pl |-> "ok", conn |-> ConnOf(k)]

(* endpoint.Send: header and payload in one stream write *)
Send(k) ==
  /\ cst[k] = "registered"
  /\ c2s' = [c2s EXCEPT ![ConnOf(k)] = Append(@, CallMsg(k))]
  /\ cst' = [cst EXCEPT ![k] = "waiting"]
  /\ UNCHANGED <<s2c, sclosed, pclosed, srvAll, mid, ctr, hnd, outcome, rawSent>>

(* a peer writes a frame of its own making *)
SendRaw(r) ==
  /\ r.tag \notin rawSent
  /\ rawSent' = rawSent \cup {r.tag}
  /\ c2s' = [c2s EXCEPT ![r.conn] = Append(@, [type |-> r.type, svc |-> r.svc, obj |-> r.obj, act |-> r.act,
                                              id |-> r.id, tag |-> r.tag, pl |-> r.pl, conn |-> r.conn])]
  /\ UNCHANGED <<s2c, sclosed, pclosed, srvAll, cst, mid, ctr, hnd, outcome>>

(* client side endpoint: process() reads one frame, dispatch offers it to every
   handler whose filter matches; a Call handler matches on service, object,
   action and id, takes the message and is removed (keep = false).  Call then
   returns what it got (client.go l.114-135).                               *)
Matches(k, m) == SvcOf[k] = m.svc /\ ObjOf[k] = m.obj /\ ActOf[k] = m.act /\ mid[k] = m.id
CliDispatch(c) ==
  /\ s2c[c] # <<>>
  /\ LET m == Head(s2c[c])
         match == {k \in hnd[c] : Matches(k, m)}
     IN /\ s2c' = [s2c EXCEPT ![c] = Tail(@)]
        /\ hnd' = [hnd EXCEPT ![c] = @ \ match]
        /\ outcome' = [k \in Calls |-> IF k \in match THEN Append(outcome[k], [kind |-> m.type, val |-> m.val])
                                                      ELSE outcome[k]]
        /\ cst' = [k \in Calls |-> IF k \in match THEN "done" ELSE cst[k]]
  /\ UNCHANGED <<c2s, sclosed, pclosed, srvAll, mid, ctr, rawSent>>

CliNext ==
  \/ \E k \in Calls : NextID(k) \/ Register(k) \/ Send(k)
  \/ \E r \in Raws : SendRaw(r)
  \/ \E c \in Conns : CliDispatch(c)

SysNext == \/ SrvNext /\ UNCHANGED <<sent, cliVars>>
           \/ CliNext
SysSpec == SysInit /\ [][SysNext]_svars /\ WF_svars(SysNext)
(* every goroutine keeps running: weak fairness of each of them *)
Srv(A) == A /\ UNCHANGED <<sent, cliVars>>
SysFairSpec ==
  /\ SysInit /\ [][SysNext]_svars
  /\ \A c \in Conns : WF_svars(Srv(SrvRead(c))) /\ WF_svars(Srv(ConsumerTake(c))) /\ WF_svars(Srv(ConsumerStep(c)))
                      /\ WF_svars(Srv(ConsumerRefuse(c))) /\ WF_svars(Srv(ConsumerClose(c)))
                      /\ WF_svars(CliDispatch(c))
  /\ \A o \in AllObjs : WF_svars(Srv(ObjRecv(o))) /\ WF_svars(Srv(ObjStub(o))) /\ WF_svars(Srv(ObjExecEnd(o)))
                        /\ WF_svars(Srv(ObjReply(o)))
  /\ WF_svars(Srv(AuthStub))
  /\ \A k \in Calls : WF_svars(NextID(k)) /\ WF_svars(Register(k)) /\ WF_svars(Send(k))

-----------------------------------------------------------------------------
(* C04 *)
Execs(t) == Cardinality({i \in 1..Len(execLog) : execLog[i].tag = t})
Ok(k) == Len(outcome[k]) >= 1 /\ outcome[k][1].kind = "reply"

(* each call returns exactly one outcome (at most one here, at least one: EveryCallAnswered) *)
AtMostOneOutcome == \A k \in Calls : Len(outcome[k]) <= 1
(* a successful outcome is the result computed for that call's own arguments *)
OwnResult == \A k \in Calls : \A i \in 1..Len(outcome[k]) :
                outcome[k][i].kind = "reply" => outcome[k][i].val = k
(* the method body runs exactly once for a successful call and at most once otherwise *)
ExecOnceIfOk == \A k \in Calls : Ok(k) => Execs(k) = 1
ExecAtMostOnce == \A k \in Calls : Execs(k) <= 1
(* a post runs the method at most once and produces no response *)
WellFormedPost(r) == r.type = "post" /\ r.pl = "ok" /\ r.act \in Methods /\ <<r.svc, r.obj>> \in Objs
PostAtMostOnce == \A r \in Raws : r.type = "post" => Execs(r.tag) <= 1
PostNoResponse == \A r \in Raws : WellFormedPost(r) => ~\E x \in respLog : x.tag = r.tag
(* messages of any other kind never cause a method to run *)
OnlyCallAndPostExecute == \A i \in 1..Len(execLog) : execLog[i].type \in {"call", "post"}
(* an application error is reported to the caller that caused it *)
ErrorIsOwn == \A k \in Calls : \A i \in 1..Len(outcome[k]) :
                 outcome[k][i].kind = "error" /\ outcome[k][i].val = "app" => k \in FailTags
(* liveness, no faults, fair scheduling: every call returns *)
EveryCallAnswered == \A k \in Calls : <>(cst[k] = "done")
=============================================================================
