------------------------------- MODULE System -------------------------------
(***************************************************************************)
(* End-to-end call path: bus.Client callers || network FIFOs || Server.     *)
(*                                                                         *)
(*   bus/client.go  Call: nextMessageID (l.23-28, per bus.Client counter,  *)
(*                  starts at 1, +2), MakeHandler with a single-shot       *)
(*                  filter on service/object/action/id (l.62-77), Send     *)
(*                  (l.80), wait on the reply queue (l.97-112)             *)
(*   bus/net/endpoint.go dispatch on the client side: every matching       *)
(*                  handler gets the message, keep=false handlers are      *)
(*                  closed and their slot cleared (l.313-352)              *)
(*   bus/cache.go   Cache.Proxy: which proxies share a bus.Client          *)
(*                  (ClientOf) and which clients share an endpoint (EpOf)  *)
(*                                                                         *)
(* Raw frames (Raws) are what a peer can write on a connection without     *)
(* going through bus.Client: posts and the six other message kinds.        *)
(*                                                                         *)
(* Several bus.Client objects may share one end point (EpOf not injective): *)
(* bus.NewClientObject (bus/object.go l.404-410) builds one NewClient per   *)
(* client-hosted object on the connection of the peer that hosts them, each *)
(* with a message id counter of its own starting at 1.  Calls of different  *)
(* clients then carry EQUAL ids; what keeps their answers apart is the rest *)
(* of the reply filter: service, object and action (client.go l.63-69).     *)
(* Deviations of the filter and of the drop step of a saturated end point   *)
(* are named (Deviations), off in the property-checking configurations.     *)
(***************************************************************************)
EXTENDS Server

CONSTANTS
  Calls,      \* identities of the calls made through bus.Client.Call (strings: also the argument tag)
  ClientOf,   \* Calls -> bus.Client objects
  EpOf,       \* bus.Client -> connection (several clients may share one endpoint)
  SvcOf, ObjOf, ActOf,   \* target of each call
  Raws,       \* raw frames: [tag, conn, type, svc, obj, act, id, pl]
  Deviations  \* names of the deviations switched on ({} : the code as it is)

(* the reply filter of client.Call leaves one of its four comparisons out *)
Dev_FilterIgnoresService == "FilterIgnoresService" \in Deviations
Dev_FilterIgnoresObject  == "FilterIgnoresObject" \in Deviations
Dev_FilterIgnoresAction  == "FilterIgnoresAction" \in Deviations
Dev_FilterIgnoresId      == "FilterIgnoresId" \in Deviations
(* the drop step of endPoint.dispatch (full consumer queue) answers what it must not answer *)
Dev_DroppedPostAnswered      == "DroppedPostAnswered" \in Deviations
Dev_DroppedCallAnsweredTwice == "DroppedCallAnsweredTwice" \in Deviations

Clients == {ClientOf[k] : k \in Calls}
ConnOf(k) == EpOf[ClientOf[k]]

VARIABLES
  cst,      \* cst[k]: "init" | "ided" | "registered" | "waiting" | "done"
  mid,      \* mid[k]: message id of call k (0: not allocated yet)
  ctr,      \* ctr[cl]: client.messageID
  hnd,      \* hnd[c]: calls whose single-shot reply handler is in the endpoint table of c
  outcome,  \* outcome[k]: what Call returned, as a sequence (the property wants length <= 1)
  rawSent,  \* tags of the raw frames written so far
  owed,     \* history: owed[c] = tags of the Calls written on c whose answer frame the server has not written yet
  unowed    \* history: the server wrote a frame on some connection that no Call was owed

cliVars  == <<cst, mid, ctr, hnd, outcome, rawSent>>
wireVars == <<owed, unowed>>
svars    == <<netVars, srvVars, histVars, sent, cliVars, wireVars>>

SysInit ==
  /\ SrvInit /\ sent = 0
  /\ cst = [k \in Calls |-> "init"]
  /\ mid = [k \in Calls |-> 0]
  /\ ctr = [cl \in Clients |-> 1]
  /\ hnd = [c \in Conns |-> {}]
  /\ outcome = [k \in Calls |-> <<>>]
  /\ rawSent = {}
  /\ owed = [c \in Conns |-> {}]
  /\ unowed = FALSE

srvAll == <<srvVars, histVars, sent>>

(* client.nextMessageID under messageIDMutex *)
NextID(k) ==
  /\ cst[k] = "init"
  /\ ctr' = [ctr EXCEPT ![ClientOf[k]] = @ + 2]
  /\ mid' = [mid EXCEPT ![k] = ctr[ClientOf[k]] + 2]
  /\ cst' = [cst EXCEPT ![k] = "ided"]
  /\ UNCHANGED <<netVars, srvAll, hnd, outcome, rawSent, wireVars>>

(* endpoint.MakeHandler(filter, reply, closer): "1. starts listening for an answer" *)
Register(k) ==
  /\ cst[k] = "ided"
  /\ hnd' = [hnd EXCEPT ![ConnOf(k)] = @ \cup {k}]
  /\ cst' = [cst EXCEPT ![k] = "registered"]
  /\ UNCHANGED <<netVars, srvAll, mid, ctr, outcome, rawSent, wireVars>>

CallMsg(k) == [type |-> "call", svc |-> SvcOf[k], obj |-> ObjOf[k], act |-> ActOf[k], id |-> mid[k],
               tag |-> k, pl |-> "ok", conn |-> ConnOf(k)]

(* endpoint.Send: header and payload in one stream write *)
Send(k) ==
  /\ cst[k] = "registered"
  /\ c2s' = [c2s EXCEPT ![ConnOf(k)] = Append(@, CallMsg(k))]
  /\ cst' = [cst EXCEPT ![k] = "waiting"]
  /\ owed' = [owed EXCEPT ![ConnOf(k)] = @ \cup {k}]
  /\ UNCHANGED <<s2c, sclosed, pclosed, srvAll, mid, ctr, hnd, outcome, rawSent, unowed>>

(* a peer writes a frame of its own making *)
SendRaw(r) ==
  /\ r.tag \notin rawSent
  /\ rawSent' = rawSent \cup {r.tag}
  /\ c2s' = [c2s EXCEPT ![r.conn] = Append(@, [type |-> r.type, svc |-> r.svc, obj |-> r.obj, act |-> r.act,
                                              id |-> r.id, tag |-> r.tag, pl |-> r.pl, conn |-> r.conn])]
  /\ owed' = IF r.type = "call" THEN [owed EXCEPT ![r.conn] = @ \cup {r.tag}] ELSE owed
  /\ UNCHANGED <<s2c, sclosed, pclosed, srvAll, cst, mid, ctr, hnd, outcome, unowed>>

(* client side endpoint: process() reads one frame, dispatch offers it to every
   handler whose filter matches; a Call handler matches on service, object,
   action and id, takes the message and is removed (keep = false).  Call then
   returns what it got (client.go l.114-135).                               *)
Matches(k, m) == /\ (Dev_FilterIgnoresService \/ SvcOf[k] = m.svc)
                 /\ (Dev_FilterIgnoresObject  \/ ObjOf[k] = m.obj)
                 /\ (Dev_FilterIgnoresAction  \/ ActOf[k] = m.act)
                 /\ (Dev_FilterIgnoresId      \/ mid[k] = m.id)
CliDispatch(c) ==
  /\ s2c[c] # <<>>
  /\ LET m == Head(s2c[c])
         match == {k \in hnd[c] : Matches(k, m)}
     IN /\ s2c' = [s2c EXCEPT ![c] = Tail(@)]
        /\ hnd' = [hnd EXCEPT ![c] = @ \ match]
        /\ outcome' = [k \in Calls |-> IF k \in match THEN Append(outcome[k], [kind |-> m.type, val |-> m.val])
                                                      ELSE outcome[k]]
        /\ cst' = [k \in Calls |-> IF k \in match THEN "done" ELSE cst[k]]
  /\ UNCHANGED <<c2s, sclosed, pclosed, srvAll, mid, ctr, rawSent, wireVars>>

CliNext ==
  \/ \E k \in Calls : NextID(k) \/ Register(k) \/ Send(k)
  \/ \E r \in Raws : SendRaw(r)
  \/ \E c \in Conns : CliDispatch(c)

-----------------------------------------------------------------------------
(* The wire as the peer sees it.  Every frame the server writes on a connection
   is owed by exactly one Call written on that connection before (same service,
   object, action and id) and pays that debt off: a Call is answered by at most
   one frame, a Post (executed, queued or DROPPED by a saturated end point) by
   none.  The error answers the code gives to one-way messages that reach no
   method (missing service / object / action, undecodable arguments; see
   PostNoResponse) are the named exemption.                                  *)
Hdr4(m) == <<m.svc, m.obj, m.act, m.id>>
RawCalls == {r \in Raws : r.type = "call"}
ReqHdr(t) == IF t \in Calls THEN <<SvcOf[t], ObjOf[t], ActOf[t], mid[t]>>
             ELSE Hdr4(CHOOSE r \in RawCalls : r.tag = t)
Excused(c, f) == /\ f.type = "error" /\ f.val \in {"nosvc", "noobj", "noact", "badargs"}
                 /\ \E r \in Raws : /\ r.conn = c /\ r.tag \in rawSent /\ r.type \in SrvAccept \ {"call"}
                                     /\ Hdr4(r) = Hdr4(f)
RECURSIVE PayOff(_, _, _)
PayOff(c, ow, fs) ==
  IF fs = <<>> THEN [ow |-> ow, bad |-> FALSE]
  ELSE LET f == Head(fs)
           cand == {t \in ow : ReqHdr(t) = Hdr4(f)}
       IN IF cand # {} THEN PayOff(c, ow \ {CHOOSE t \in cand : TRUE}, Tail(fs))
          ELSE IF Excused(c, f) THEN PayOff(c, ow, Tail(fs))
          ELSE [ow |-> ow, bad |-> TRUE]
(* server steps only append to s2c *)
NewFrames(c) == SubSeq(s2c'[c], Len(s2c[c]) + 1, Len(s2c'[c]))
Account ==
  /\ owed' = [c \in Conns |-> PayOff(c, owed[c], NewFrames(c)).ow]
  /\ unowed' = (unowed \/ \E c \in Conns : PayOff(c, owed[c], NewFrames(c)).bad)

(* Deviations of the drop step of SrvRead (endPoint.dispatch on a full consumer
   queue, endpoint.go l.343-350): the dropped Post is answered like a dropped
   Call; the dropped Call is answered twice.                                  *)
DevDrop(c) ==
  /\ ~crashed /\ ~sclosed[c] /\ c2s[c] # <<>>
  /\ LET m == Head(c2s[c])  e == ErrResp(m, "busy") IN
       /\ m.type \in SrvAccept /\ Len(srvq[c]) >= QCap
       /\ \/ /\ Dev_DroppedPostAnswered /\ m.type = "post"
             /\ s2c' = [s2c EXCEPT ![c] = Append(@, e)]
          \/ /\ Dev_DroppedCallAnsweredTwice /\ m.type = "call"
             /\ s2c' = [s2c EXCEPT ![c] = @ \o <<e, e>>]
       /\ respLog' = Logged(m, e)
       /\ c2s' = [c2s EXCEPT ![c] = Tail(@)]
  /\ UNCHANGED <<sclosed, pclosed, srvVars, histNoResp, rejected>>

(* a step of the server seen from the composition *)
Srv(A) == A /\ UNCHANGED <<sent, cliVars>> /\ Account

SysNext == \/ Srv(SrvNext)
           \/ \E c \in Conns : Srv(DevDrop(c))
           \/ CliNext
SysSpec == SysInit /\ [][SysNext]_svars /\ WF_svars(SysNext)
(* every goroutine keeps running: weak fairness of each of them *)
SysFairSpec ==
  /\ SysInit /\ [][SysNext]_svars
  /\ \A c \in Conns : WF_svars(Srv(SrvRead(c))) /\ WF_svars(Srv(ConsumerTake(c))) /\ WF_svars(Srv(ConsumerStep(c)))
                      /\ WF_svars(Srv(ConsumerRefuse(c))) /\ WF_svars(Srv(ConsumerClose(c)))
                      /\ WF_svars(CliDispatch(c))
  /\ \A o \in AllObjs : WF_svars(Srv(ObjRecv(o))) /\ WF_svars(Srv(ObjStub(o))) /\ WF_svars(Srv(ObjExecEnd(o)))
                        /\ WF_svars(Srv(ObjReply(o)))
  /\ WF_svars(Srv(AuthStub))
  /\ \A k \in Calls : WF_svars(NextID(k)) /\ WF_svars(Register(k)) /\ WF_svars(Send(k))

-----------------------------------------------------------------------------
(* C04 *)
Execs(t) == Cardinality({i \in 1..Len(execLog) : execLog[i].tag = t})
Ok(k) == Len(outcome[k]) >= 1 /\ outcome[k][1].kind = "reply"

(* each call returns exactly one outcome (at most one here, at least one: EveryCallAnswered) *)
AtMostOneOutcome == \A k \in Calls : Len(outcome[k]) <= 1
(* a successful outcome is the result computed for that call's own arguments *)
OwnResult == \A k \in Calls : \A i \in 1..Len(outcome[k]) :
                outcome[k][i].kind = "reply" => outcome[k][i].val = k
(* the method body runs exactly once for a successful call and at most once otherwise *)
ExecOnceIfOk == \A k \in Calls : Ok(k) => Execs(k) = 1
ExecAtMostOnce == \A k \in Calls : Execs(k) <= 1
(* a post runs the method at most once and produces no response *)
WellFormedPost(r) == r.type = "post" /\ r.pl = "ok" /\ r.act \in Methods /\ <<r.svc, r.obj>> \in Objs
PostAtMostOnce == \A r \in Raws : r.type = "post" => Execs(r.tag) <= 1
PostNoResponse == \A r \in Raws : WellFormedPost(r) => ~\E x \in respLog : x.tag = r.tag
(* ... on the wire: every frame the peer receives is owed by exactly one Call (a dropped Call is answered by
   exactly one Error carrying its id, a dropped Post by nothing) *)
FramesOwed == ~unowed
(* messages of any other kind never cause a method to run *)
OnlyCallAndPostExecute == \A i \in 1..Len(execLog) : execLog[i].type \in {"call", "post"}
(* an application error is reported to the caller that caused it *)
ErrorIsOwn == \A k \in Calls : \A i \in 1..Len(outcome[k]) :
                 outcome[k][i].kind = "error" /\ outcome[k][i].val = "app" => k \in FailTags
(* liveness, no faults, fair scheduling: every call returns *)
EveryCallAnswered == \A k \in Calls : <>(cst[k] = "done")
=============================================================================
