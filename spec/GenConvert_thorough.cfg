SPECIFICATION Spec
CONSTANTS
  Universe = "full"
INVARIANTS InvWant InvValueOfTarget InvRoundTrip InvIdentity InvExclusive InvMapsKeepSize InvWellFormed Export
CHECK_DEADLOCK FALSE
