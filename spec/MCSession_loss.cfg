SPECIFICATION Spec
CONSTANTS
  Gor = {"g1", "g2"}
  Addrs = {"A", "B"}
  MaxReq = 2
  ConnLoss = TRUE
  Dev_RUnlockUnderWriteLock = FALSE
INVARIANTS TypeOK NoBadUnlock MutexOK AtMostOneConnPerEndpoint NoDeadlock
CHECK_DEADLOCK FALSE
