SPECIFICATION FairSpec
CONSTANTS
  AuthMode = "no"
  Script <- ScriptFTF
  Shapes <- NoAnswers
  Creds <- FewCreds
  Answers <- AllAnswers
  Foreign = TRUE
  Driver = "client"
  Clients <- One
  MaxSends = 2
  MaxProbes = 0
  Holds = FALSE
  Dev_WrongTypedReadAsEmpty = FALSE
  Dev_ClientStateTrusted = FALSE
  Dev_MarkBeforeAsk = FALSE
  Dev_ContinueReadsAsDone = FALSE
  Dev_RefusalLeavesOpen = FALSE
  Dev_FailureOpens = FALSE
  Dev_NewTokenSubstitutes = FALSE
  Dev_ContinueForEver = FALSE
  Dev_TokenNotKept = FALSE
  Dev_ContinueCountsAsDone = FALSE
INVARIANTS TypeOK AtMostTwoCalls TokenIsLastIssued OkNeedsDone OkMeansGateOpen
PROPERTIES ClientTerminates
CHECK_DEADLOCK FALSE
