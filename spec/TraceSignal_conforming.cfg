SPECIFICATION TSpec
CONSTANTS
  Threads <- Cast
  Conns = {"c1", "c2", "c3"}
  Signals = {"A", "B"}
  ConnOf <- CastConn
  SigOf <- CastSig
  Rounds <- CR99
  EmitSeq <- NoEmit
  QCap = 100
  Dev_ProxySectionsNotAtomic = FALSE
  Dev_SendAfterSnapshot = FALSE
  Objects = {"o1", "o2", "o3"}
  ObjOf <- CastObj
  Devs = {}
  Probe <- NoProbe
  Failing = {"c3"}
  Inject <- InjAny
  Rogue = {"c1", "c2"}
  SkipScenarios = FALSE
CONSTRAINT Check
POSTCONDITION Report
CHECK_DEADLOCK FALSE
