SPECIFICATION GSpec
CONSTANTS
  MaxMsgs = 2
  PLens = {0, 2}
  WithCuts = FALSE
VIEW View
CHECK_DEADLOCK FALSE
