SPECIFICATION Spec
CONSTANTS
  Threads <- T1
  Conns = {"c1"}
  Signals = {"A"}
  Objects = {"o1"}
  ConnOf <- CastConn
  SigOf <- CastSig
  ObjOf <- CastObj
  Rounds <- CR2
  EmitSeq <- EmitO11
  QCap = 3
  Dev_ProxySectionsNotAtomic = FALSE
  Dev_SendAfterSnapshot = FALSE
  Devs = {}
  Probe <- NoProbe
  Failing = {}
  Inject <- InjC1O1A
  Rogue = {}
INVARIANTS TypeOK NoDuplicate InOrderNoGap Complete NoForeignSignal ClosedAfterCancel NothingAfterUnregisterAck OthersUndisturbed AtMostOneRegistration NoLeak RemovedAtMostOnce NoDeadRegistration
CHECK_DEADLOCK FALSE
