\* the code as found (its Dev_* on), scenario deliver: what still holds
SPECIFICATION Spec
CONSTANTS
  Listeners = {1, 2}
  Providers = {1}
  RealProv = {}
  LevelsUsed = {2, 6}
  BadLevel = 7
  Pats = {"core"}
  BadPat = "("
  Cats = {"core", "core.net", "app"}
  MgrOps = {"log"}
  LstOps = {"setlevel", "addfilter", "clear", "terminate", "drop"}
  MaxMgr = 1
  MaxLst = 1
  InitLive = {1, 2}
  InitProv = {}
  Hist = FALSE
  MaxHold = 0
  Match <- MCMatch
  PCat <- MCPCat
  ClientOf <- MCClientOf
  Batches <- MCBatches1
  Dev_FilterOnlyWidens = TRUE
  Dev_MinCategoryJoin = TRUE
  Dev_NoRecomputeOnTerminate = TRUE
  Dev_LostListenerKept = TRUE
  Dev_StalePush = TRUE
  Dev_SetLevelBypassesProperty = TRUE
  Dev_AddFilterHoldsLock = TRUE
  Dev_UnlockedFilterRead = TRUE
  Dev_RejectedWriteSaved = FALSE
INVARIANTS TypeOK LogLevelIsRegister
CHECK_DEADLOCK FALSE
