SPECIFICATION GSpec
CONSTANTS
  MaxInst = 5
  MaxExec = 1
  MaxEmit = 1
  Subs = {}
  SampleMod = 2
  Tag = "CT"
  MaxLen = 99
  Dev_BoxKeptAfterRemove = FALSE
  Dev_IdZeroAfterMainRemoved = FALSE
  Dev_TerminateKeepsObjects = FALSE
  Dev_FailedAddLeavesEntry = FALSE
  ClientSide = TRUE
  Dev_ClientRemoveKeepsEntry = FALSE
  Dev_ClientLateCallDropped = FALSE
VIEW View
CONSTRAINT Bounded
INVARIANTS UniqueLiveIds TerminateHookExactlyOnce SubscribersTold NoCrash ClientTable EveryCallAnswered
CHECK_DEADLOCK FALSE
