SPECIFICATION Spec
CONSTANTS
  Cap = 2
  NMsgs = 4
  Dev_StopOnConsumerError = TRUE
INVARIANTS InOrderNoLoss RoomMeansNoDrop
PROPERTIES EverythingConsumed
CHECK_DEADLOCK FALSE
