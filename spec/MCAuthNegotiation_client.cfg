SPECIFICATION FairSpec
CONSTANTS
  AuthMode <- EnvAuthMode
  Script <- ScriptFTF
  Shapes <- NoAnswers
  Creds <- FewCreds
  Answers <- NoAnswers
  Foreign = FALSE
  Driver = "client"
  Clients <- Two
  MaxSends = 3
  MaxProbes = 0
  Holds = TRUE
  Dev_WrongTypedReadAsEmpty = FALSE
  Dev_ClientStateTrusted = FALSE
  Dev_MarkBeforeAsk = FALSE
  Dev_ContinueReadsAsDone = FALSE
  Dev_RefusalLeavesOpen = FALSE
  Dev_FailureOpens = FALSE
  Dev_NewTokenSubstitutes = FALSE
  Dev_ContinueForEver = FALSE
  Dev_TokenNotKept = FALSE
  Dev_ContinueCountsAsDone = FALSE
INVARIANTS TypeOK GateNeedsAcceptedPair AskedOnlyPresentedPairs DeliveredOnlyBehindAcceptedPair ContinueNeverOpens RefusedProbeCloses AtMostTwoCalls TokenIsLastIssued OkNeedsDone OkMeansGateOpen
PROPERTIES FailedAuthKeepsGate ClientTerminates
CHECK_DEADLOCK FALSE
