SPECIFICATION Spec
CONSTANTS
  MaxLen = 3
  Alphabet = "noread1"
  Dev_DupUserStucksObject = FALSE
  Dev_AuthFloodCrashes = FALSE
  Dev_HostileCountCrashes = FALSE
  Dev_SaturationDeadlocks = FALSE
  Dev_SendBlocksOnUnreadSocket = TRUE
INVARIANTS ServerUp AllServe
CHECK_DEADLOCK FALSE
