SPECIFICATION Spec
CONSTANTS
  MaxLen = 2
  Alphabet = "small"
  Dev_DupUserStucksObject = TRUE
  Dev_AuthFloodCrashes = TRUE
  Dev_HostileCountCrashes = TRUE
  Dev_SaturationDeadlocks = FALSE
  Dev_SendBlocksOnUnreadSocket = FALSE
INVARIANTS ServerUp AllServe
CHECK_DEADLOCK FALSE
