SPECIFICATION GSpec
CONSTANTS
  AuthMode <- EnvAuthMode
  Script <- ScriptFTF
  Shapes <- EnvShapes
  Creds <- EnvCreds
  Answers <- EnvAnswers
  Foreign <- EnvForeign
  Driver <- EnvDriver
  Clients <- EnvClients
  MaxSends <- EnvMaxSends
  MaxProbes <- EnvMaxProbes
  Holds <- EnvHolds
  Dev_WrongTypedReadAsEmpty = FALSE
  Dev_ClientStateTrusted = FALSE
  Dev_MarkBeforeAsk = FALSE
  Dev_ContinueReadsAsDone = FALSE
  Dev_RefusalLeavesOpen = FALSE
  Dev_FailureOpens = FALSE
  Dev_NewTokenSubstitutes = FALSE
  Dev_ContinueForEver = FALSE
  Dev_TokenNotKept = FALSE
  Dev_ContinueCountsAsDone = FALSE
VIEW View
INVARIANTS TypeOK GateNeedsAcceptedPair AskedOnlyPresentedPairs DeliveredOnlyBehindAcceptedPair RefusedProbeCloses AtMostTwoCalls OkNeedsDone
CHECK_DEADLOCK FALSE
