SPECIFICATION TSpec
CONSTANTS
  Names = {"a", "b"}
  Eps = {"E", "F"}
  MaxReg = 9
  Gor = {}
  Terms = {}
  QCap = 99
  WithGone = FALSE
  WithIdReq = TRUE
  Dev_ListBeforeSubscribe = FALSE
  Dev_AddedIgnored = FALSE
  Dev_RemovedIgnored = FALSE
  Dev_RefreshThenDrain = FALSE
  Dev_StoreNotAtomic = FALSE
  Dev_CancelNotCleared = FALSE
  Dev_CancelCheckOutsideLock = FALSE
  Dev_FailedRefreshKeepsSession = FALSE
  Dev_TerminateLeavesDirectory = FALSE
  Dev_ResolveByNameAgain = FALSE
INVARIANTS ProcessAlive ListIsSnapshot QuiescentListCurrent
CONSTRAINT Track
POSTCONDITION Accepted
CHECK_DEADLOCK FALSE
