--------------------------- MODULE SignalLockPath ---------------------------
(***************************************************************************)
(* C12, saturation: lock-owner / bounded-queue model of the path a request *)
(* takes inside the server, in the style of SignalLock.tla (goroutines     *)
(* with program counters, resources with owners):                          *)
(*                                                                         *)
(*   socket -> endPoint.process / dispatch: the READER goroutine of the    *)
(*     connection, under the end point's handlersMutex, NON-blocking       *)
(*     enqueue into the handler queue (full: drop, error answer to a call) *)
(*   -> the CONSUMER goroutine server.handle starts for the connection:    *)
(*     firewall, Router.Receive, serviceImpl.Receive = table lookup under  *)
(*     the service's RWMutex, then BLOCKING enqueue into the mailbox       *)
(*   -> the MAILBOX goroutine of the object: the stub runs the method;     *)
(*     registerEvent / unregisterEvent take the handlersMutex of the       *)
(*     caller's end point (MakeHandler / RemoveHandler); terminate takes   *)
(*     the write lock of the service (Service.Remove) and then the         *)
(*     handlersMutex of every subscriber's end point (OnTerminate)         *)
(*                                                                         *)
(*   bus/net/endpoint.go  process l.372-393, dispatch l.324-368 (select /  *)
(*                        default l.339-359), closeWith l.236-252,         *)
(*                        MakeHandler l.278-292, RemoveHandler l.262-274   *)
(*   bus/server.go        handle: consumer goroutine l.193-211             *)
(*   bus/router.go        Receive l.82-91 (RLock around the map lookup; no *)
(*                        client request takes the router's write lock:    *)
(*                        not a resource of the model)                     *)
(*   bus/service.go       Receive l.172-182, Remove l.155-169              *)
(*   bus/mailbox.go       NewMailBox l.29-46                               *)
(*   bus/signal.go        addSignalUser l.59-100, removeSignalUser         *)
(*                        l.104-111, OnTerminate l.268-279                 *)
(*   bus/object.go        Terminate l.137-144                              *)
(*                                                                         *)
(* One hostile client writes, on each of its connections HConns, a script  *)
(* of requests: slow call (the method body waits for the environment:      *)
(* `released`), call, post, registerEvent, unregisterEvent, terminate (of  *)
(* the object the request is addressed to), and may then disconnect.  The  *)
(* socket is an unbounded FIFO, so writing everything at once loses no     *)
(* behaviour: the reader takes the requests whenever it likes.  A second,  *)
(* cooperative client (connection "p") asks every object once, at any      *)
(* moment, one request at a time.                                          *)
(*                                                                         *)
(* sync.RWMutex as Go implements it: Lock first takes the writers' mutex   *)
(* (S.w) - from that moment no new reader gets in: "a pending writer       *)
(* blocks new readers" - and then waits until the readers inside have left.*)
(* Sending an answer is a blocking write on the socket of the caller       *)
(* (channel.SendReply -> endPoint.Send -> Message.Write, no deadline): it  *)
(* returns at once when the client reads its socket.  NoRead are the       *)
(* hostile connections whose client does NOT read: the socket takes OutCap *)
(* answers, the next SendReply to it waits until the connection is closed. *)
(* The property configurations have NoRead = {}: with a connection in      *)
(* NoRead the code AS FOUND loses OthersServed (finding, not a deviation). *)
(*                                                                         *)
(* Named deviations (all FALSE in the property configurations):            *)
(*  Dev_ReceiveHoldsLockWhileEnqueuing  serviceImpl.Receive releases the   *)
(*        read lock only after `box <- mail` has returned (defer RUnlock)  *)
(*  Dev_DispatchBlocksOnFullQueue       dispatch waits for room in a full  *)
(*        handler queue when the message is not a call, handlersMutex held *)
(*  Dev_ConsumerGivesUpOnFullMailbox    the consumer goroutine of a        *)
(*        connection ends when it finds a mailbox full                     *)
(*  Dev_RemoveClosesMailbox             Service.Remove closes the mailbox  *)
(*        channel: a consumer that looked the box up before the removal    *)
(*        sends on a closed channel (panic: the process dies)              *)
(***************************************************************************)
EXTENDS Naturals, Sequences, FiniteSets, TLC, Json

CONSTANTS
  HConns,      \* connections of the hostile client
  Objs,        \* objects of the service
  HTargets,    \* objects the hostile requests are addressed to
  Kinds,       \* request kinds the hostile client uses
  MaxLen,      \* requests per hostile connection
  MaxFlood,    \* at most that many call + post requests (all connections together)
  MaxReg,      \* at most that many registerEvent, and that many unregisterEvent requests
  Closes,      \* hostile connections that may be closed (after their last request)
  PMax,        \* number of objects the other client asks (each at most once)
  QCap, BCap,  \* capacity of a handler queue (10 in the code) / of a mailbox (10)
  NoRead,      \* hostile connections whose client does not read its socket
  OutCap,      \* answers the socket of such a connection takes
  Dev_ReceiveHoldsLockWhileEnqueuing, Dev_DispatchBlocksOnFullQueue,
  Dev_ConsumerGivesUpOnFullMailbox, Dev_RemoveClosesMailbox

P == "p"                          \* the connection of the other client
Conns == HConns \cup {P}
NoG == <<"no", "">>
Rd(c) == <<"rd", c>>              \* endPoint.process of connection c
Cs(c) == <<"cs", c>>              \* the consumer goroutine server.handle starts for c
Mb(o) == <<"mb", o>>              \* the mailbox goroutine of object o
G == {Rd(c) : c \in Conns} \cup {Cs(c) : c \in Conns} \cup {Mb(o) : o \in Objs}
NoMsg == [k |-> "", o |-> "", c |-> ""]
Msg(k, o, c) == [k |-> k, o |-> o, c |-> c]

VARIABLES
  wire,      \* wire[c]: requests written by the client, not yet read by the reader
  eof,       \* hostile connections closed after their last request (chosen initially)
  script,    \* script[c]: what the hostile client writes on connection c (chosen initially; the exported schedule)
  rd,        \* rd[c] = [pc, m]   reader goroutine
  H,         \* H[c]: owner of the handlersMutex of end point c
  Q,         \* Q[c]: the queue of the server's handler on c (chan *Message, QCap)
  qclosed,   \* the queue was closed (closeWith -> Handler.closeWith)
  cs,        \* cs[c] = [pc, m]   consumer goroutine
  S,         \* the service's RWMutex: [readers, w]  (w: owner of the writers' mutex = the pending or active writer)
  table,     \* objects in the service's table (objects / boxes)
  B,         \* B[o]: the mailbox (chan Mail, BCap)
  bclosed,   \* mailboxes closed (only with Dev_RemoveClosesMailbox)
  mb,        \* mb[o] = [pc, m]   mailbox goroutine
  subs,      \* subs[o]: connections with a disconnect handler made by a registerEvent on o
  released,  \* the environment has released the slow method
  pasked,    \* objects the other client has asked
  out,       \* out[c]: answers written to a connection of NoRead
  pres,      \* pres[o]: what the other client got ("" nothing yet, "reply", "notfound", "blocked")
  crashed    \* the process died

vars == <<wire, eof, script, rd, H, Q, qclosed, cs, S, table, B, bclosed, mb, subs, released, pasked, out, pres, crashed>>

(* the scripts of the hostile client *)
RECURSIVE SeqsUpTo(_, _)
SeqsUpTo(c, n) == IF n = 0 THEN {<<>>}
                  ELSE LET s == SeqsUpTo(c, n - 1) IN
                       s \cup {Append(x, Msg(k, o, c)) : x \in s, k \in Kinds, o \in HTargets}
Items(f) == UNION {{<<c, i>> : i \in 1..Len(f[c])} : c \in HConns}
CountOf(f, ks, o) == Cardinality({it \in Items(f) : f[it[1]][it[2]].k \in ks /\ (o = "" \/ f[it[1]][it[2]].o = o)})
ScriptOk(f) ==
  /\ CountOf(f, {"slow"}, "") <= 1
  /\ \A o \in HTargets : CountOf(f, {"term"}, o) <= 1
  /\ CountOf(f, {"call", "post"}, "") <= MaxFlood
  /\ CountOf(f, {"reg"}, "") <= MaxReg /\ CountOf(f, {"unreg"}, "") <= MaxReg
Scripts == LET SS == [c \in HConns |-> SeqsUpTo(c, MaxLen)] IN
           {f \in [HConns -> UNION {SS[c] : c \in HConns}] : (\A c \in HConns : f[c] \in SS[c]) /\ ScriptOk(f)}
Named(o) == CountOf(script, {"term"}, o) > 0     \* objects a terminate request names: removal is their documented purpose

Init ==
  /\ script \in Scripts
  /\ wire = [c \in Conns |-> IF c \in HConns THEN script[c] ELSE <<>>]
  /\ eof \in SUBSET (HConns \cap Closes)
  /\ rd = [c \in Conns |-> [pc |-> "read", m |-> NoMsg]]
  /\ H = [c \in Conns |-> NoG]
  /\ Q = [c \in Conns |-> <<>>] /\ qclosed = {}
  /\ cs = [c \in Conns |-> [pc |-> "idle", m |-> NoMsg]]
  /\ S = [readers |-> {}, w |-> NoG]
  /\ table = Objs
  /\ B = [o \in Objs |-> <<>>] /\ bclosed = {}
  /\ mb = [o \in Objs |-> [pc |-> "idle", m |-> NoMsg]]
  /\ subs = [o \in Objs |-> {}]
  /\ out = [c \in Conns |-> 0]
  /\ released = FALSE /\ pasked = {} /\ pres = [o \in Objs |-> ""]
  /\ crashed = FALSE

-----------------------------------------------------------------------------
(* the environment and the other client *)
Release ==
  /\ ~released /\ released' = TRUE
  /\ UNCHANGED <<wire, eof, script, rd, H, Q, qclosed, cs, S, table, B, bclosed, mb, subs, pasked, out, pres, crashed>>

PSend(o) ==           \* one request at a time, every object once, at any moment
  /\ o \in Objs \ pasked /\ Cardinality(pasked) < PMax /\ \A x \in pasked : pres[x] # ""
  /\ wire' = [wire EXCEPT ![P] = Append(@, Msg("call", o, P))]
  /\ pasked' = pasked \cup {o}
  /\ UNCHANGED <<eof, script, rd, H, Q, qclosed, cs, S, table, B, bclosed, mb, subs, released, out, pres, crashed>>

Answer(m, what) == IF m.c = P /\ m.k = "call" THEN [pres EXCEPT ![m.o] = what] ELSE pres

-----------------------------------------------------------------------------
(* endPoint.process: the reader goroutine of connection c *)
RdDispatch(c) ==      \* msg.Read(e.stream); dispatch: handlersMutex.Lock(); select { case h.consumer <- msg: default: drop,
                      \* error answer to a call }; Unlock.  Nothing blocks between Lock and Unlock: one step (the deviation
                      \* stops in the middle, the mutex held)
  /\ rd[c].pc = "read" /\ wire[c] # <<>> /\ H[c] = NoG
  /\ wire' = [wire EXCEPT ![c] = Tail(@)]
  /\ LET m == Head(wire[c]) IN
     IF Len(Q[c]) < QCap
       THEN /\ Q' = [Q EXCEPT ![c] = Append(@, m)]
            /\ UNCHANGED <<H, rd, pres>>
       ELSE IF Dev_DispatchBlocksOnFullQueue /\ m.k = "post"
         THEN /\ rd' = [rd EXCEPT ![c] = [pc |-> "wait", m |-> m]]      \* h.consumer <- msg with handlersMutex held
              /\ H' = [H EXCEPT ![c] = Rd(c)]
              /\ UNCHANGED <<Q, pres>>
         ELSE /\ pres' = Answer(m, "blocked")                           \* dropped; a call is answered "consumer blocked"
              /\ UNCHANGED <<Q, H, rd>>
  /\ UNCHANGED <<eof, script, qclosed, cs, S, table, B, bclosed, mb, subs, released, pasked, out, crashed>>
RdWait(c) ==          \* (deviation) the blocked send completes; Unlock
  /\ rd[c].pc = "wait" /\ Len(Q[c]) < QCap
  /\ Q' = [Q EXCEPT ![c] = Append(@, rd[c].m)]
  /\ H' = [H EXCEPT ![c] = NoG]
  /\ rd' = [rd EXCEPT ![c] = [pc |-> "read", m |-> NoMsg]]
  /\ UNCHANGED <<wire, eof, script, qclosed, cs, S, table, B, bclosed, mb, subs, released, pasked, out, pres, crashed>>
RdClose(c) ==         \* read error -> closeWith: Lock; every handler detached, its closer and close(queue) in a
                      \* goroutine; Unlock (what the closers of disconnect handlers do under signalsMutex: SignalLock.tla)
  /\ rd[c].pc = "read" /\ wire[c] = <<>> /\ c \in eof /\ H[c] = NoG
  /\ qclosed' = qclosed \cup {c}
  /\ subs' = [o \in Objs |-> subs[o] \ {c}]
  /\ rd' = [rd EXCEPT ![c].pc = "closed"]
  /\ UNCHANGED <<wire, eof, script, H, Q, cs, S, table, B, bclosed, mb, released, pasked, out, pres, crashed>>
RdStep(c) == ~crashed /\ (RdDispatch(c) \/ RdWait(c) \/ RdClose(c))

-----------------------------------------------------------------------------
(* the consumer goroutine of connection c: firewall, Router.Receive, serviceImpl.Receive *)
CsTake(c) ==          \* for msg := range consumer; the firewall passes (authenticated); Router: map lookup
  /\ cs[c].pc = "idle" /\ Q[c] # <<>>
  /\ cs' = [cs EXCEPT ![c] = [pc |-> "rlock", m |-> Head(Q[c])]]
  /\ Q' = [Q EXCEPT ![c] = Tail(@)]
  /\ UNCHANGED <<wire, eof, script, rd, H, qclosed, S, table, B, bclosed, mb, subs, released, pasked, out, pres, crashed>>
CsExit(c) ==          \* the queue is closed and empty
  /\ cs[c].pc = "idle" /\ Q[c] = <<>> /\ c \in qclosed
  /\ cs' = [cs EXCEPT ![c].pc = "exit"]
  /\ UNCHANGED <<wire, eof, script, rd, H, Q, qclosed, S, table, B, bclosed, mb, subs, released, pasked, out, pres, crashed>>
CsLookup(c) ==        \* s.RLock() - not while a writer is pending or active; box, ok := s.boxes[id]; s.RUnlock();
                      \* !ok -> error answer.  The read section contains no blocking step: one step (the deviation keeps
                      \* the read lock until the enqueue has returned)
  /\ cs[c].pc = "rlock" /\ S.w = NoG
  /\ LET m == cs[c].m IN
     IF m.o \in table
       THEN /\ cs' = [cs EXCEPT ![c].pc = "enq"]
            /\ S' = IF Dev_ReceiveHoldsLockWhileEnqueuing THEN [S EXCEPT !.readers = @ \cup {Cs(c)}] ELSE S
            /\ UNCHANGED pres
       ELSE /\ cs' = [cs EXCEPT ![c] = [pc |-> "idle", m |-> NoMsg]]
            /\ pres' = Answer(m, "notfound")
            /\ UNCHANGED S
  /\ UNCHANGED <<wire, eof, script, rd, H, Q, qclosed, table, B, bclosed, mb, subs, released, pasked, out, crashed>>
CsEnq(c) ==           \* box <- NewMail(m, from): waits for room
  /\ cs[c].pc = "enq"
  /\ LET m == cs[c].m IN
     IF m.o \in bclosed
       THEN /\ crashed' = TRUE                       \* panic: send on closed channel
            /\ UNCHANGED <<cs, B, S>>
       ELSE IF Len(B[m.o]) < BCap
         THEN /\ B' = [B EXCEPT ![m.o] = Append(@, m)]
              /\ S' = [S EXCEPT !.readers = @ \ {Cs(c)}]
              /\ cs' = [cs EXCEPT ![c] = [pc |-> "idle", m |-> NoMsg]]
              /\ UNCHANGED crashed
         ELSE /\ Dev_ConsumerGivesUpOnFullMailbox
              /\ cs' = [cs EXCEPT ![c] = [pc |-> "exit", m |-> NoMsg]]
              /\ S' = [S EXCEPT !.readers = @ \ {Cs(c)}]
              /\ UNCHANGED <<B, crashed>>
  /\ UNCHANGED <<wire, eof, script, rd, H, Q, qclosed, table, bclosed, mb, subs, released, pasked, out, pres>>
CsStep(c) == ~crashed /\ (CsTake(c) \/ CsExit(c) \/ CsLookup(c) \/ CsEnq(c))

-----------------------------------------------------------------------------
(* the mailbox goroutine of object o (it outlives the removal of the object: nobody closes the box) *)
MbTake(o) ==          \* mail := <-box; r.Receive(mail.Msg, mail.From).  A call, a post, a slow call when the method
                      \* is released, an unregisterEvent of an unknown user: done (and answered) at once
  /\ mb[o].pc = "idle" /\ B[o] # <<>>
  /\ LET m == Head(B[o]) IN
       /\ mb' = [mb EXCEPT ![o] =
                CASE m.k = "slow" -> IF released THEN [pc |-> "idle", m |-> NoMsg] ELSE [pc |-> "gate", m |-> m]
                  [] m.k = "call" -> IF m.c \in NoRead /\ out[m.c] >= OutCap THEN [pc |-> "send", m |-> m]   \* SendReply waits
                                     ELSE [pc |-> "idle", m |-> NoMsg]
                  [] m.k = "post" -> [pc |-> "idle", m |-> NoMsg]
                  [] m.k = "reg" -> [pc |-> "mkh", m |-> m]
                  [] m.k = "unreg" -> IF m.c \in subs[o] THEN [pc |-> "rmh", m |-> m] ELSE [pc |-> "idle", m |-> NoMsg]
                  [] m.k = "term" -> [pc |-> "w1", m |-> m]]
       /\ pres' = Answer(m, "reply")
       /\ out' = IF m.k = "call" /\ m.c \in NoRead /\ out[m.c] < OutCap THEN [out EXCEPT ![m.c] = @ + 1] ELSE out
  /\ B' = [B EXCEPT ![o] = Tail(@)]
  /\ UNCHANGED <<wire, eof, script, rd, H, Q, qclosed, cs, S, table, bclosed, subs, released, pasked, crashed>>
MbSendFails(o) ==     \* the write to a socket nobody reads returns (with an error) when the connection is closed
  /\ mb[o].pc = "send" /\ rd[mb[o].m.c].pc = "closed"
  /\ mb' = [mb EXCEPT ![o] = [pc |-> "idle", m |-> NoMsg]]
  /\ UNCHANGED <<wire, eof, script, rd, H, Q, qclosed, cs, S, table, B, bclosed, subs, released, pasked, out, pres, crashed>>
MbGate(o) ==          \* the slow method returns once the environment lets it
  /\ mb[o].pc = "gate" /\ released
  /\ mb' = [mb EXCEPT ![o] = [pc |-> "idle", m |-> NoMsg]]
  /\ UNCHANGED <<wire, eof, script, rd, H, Q, qclosed, cs, S, table, B, bclosed, subs, released, pasked, out, pres, crashed>>
MbMkh(o) ==           \* addSignalUser: from.EndPoint().MakeHandler(..): Lock, slot, Unlock; answer
  /\ mb[o].pc = "mkh" /\ H[mb[o].m.c] = NoG
  /\ subs' = [subs EXCEPT ![o] = @ \cup {mb[o].m.c}]
  /\ mb' = [mb EXCEPT ![o] = [pc |-> "idle", m |-> NoMsg]]
  /\ UNCHANGED <<wire, eof, script, rd, H, Q, qclosed, cs, S, table, B, bclosed, released, pasked, out, pres, crashed>>
MbRmh(o) ==           \* removeSignalUser: EndPoint().RemoveHandler(id): Lock, closer, Unlock; answer
  /\ mb[o].pc = "rmh" /\ H[mb[o].m.c] = NoG
  /\ subs' = [subs EXCEPT ![o] = @ \ {mb[o].m.c}]
  /\ mb' = [mb EXCEPT ![o] = [pc |-> "idle", m |-> NoMsg]]
  /\ UNCHANGED <<wire, eof, script, rd, H, Q, qclosed, cs, S, table, B, bclosed, released, pasked, out, pres, crashed>>
MbW1(o) ==            \* terminate -> Service.Remove(o): s.Lock(), first half: the writers' mutex; readers are shut out from now on
  /\ mb[o].pc = "w1" /\ S.w = NoG
  /\ S' = [S EXCEPT !.w = Mb(o)]
  /\ mb' = [mb EXCEPT ![o].pc = "w2"]
  /\ UNCHANGED <<wire, eof, script, rd, H, Q, qclosed, cs, table, B, bclosed, subs, released, pasked, out, pres, crashed>>
MbW2(o) ==            \* second half: the readers inside have left; delete(objects), delete(boxes); Unlock
  /\ mb[o].pc = "w2" /\ S.readers = {}
  /\ S' = [S EXCEPT !.w = NoG]
  /\ table' = table \ {o}
  /\ bclosed' = IF Dev_RemoveClosesMailbox /\ o \in table THEN bclosed \cup {o} ELSE bclosed
  /\ mb' = [mb EXCEPT ![o] = IF o \in table THEN [pc |-> "oterm", m |-> mb[o].m]
                             ELSE [pc |-> "idle", m |-> NoMsg]]         \* not in the table: error answer, no OnTerminate
  /\ UNCHANGED <<wire, eof, script, rd, H, Q, qclosed, cs, B, subs, released, pasked, out, pres, crashed>>
NextSub(o) == CHOOSE c \in subs[o] : TRUE
MbOTerm(o) ==         \* obj.OnTerminate(): for every subscriber RemoveHandler on its end point; then the answer
  /\ mb[o].pc = "oterm"
  /\ IF subs[o] = {}
       THEN /\ mb' = [mb EXCEPT ![o] = [pc |-> "idle", m |-> NoMsg]]
            /\ UNCHANGED subs
       ELSE /\ H[NextSub(o)] = NoG
            /\ subs' = [subs EXCEPT ![o] = @ \ {NextSub(o)}]
            /\ UNCHANGED mb
  /\ UNCHANGED <<wire, eof, script, rd, H, Q, qclosed, cs, S, table, B, bclosed, released, pasked, out, pres, crashed>>
MbStep(o) == ~crashed /\ (MbTake(o) \/ MbSendFails(o) \/ MbGate(o) \/ MbMkh(o) \/ MbRmh(o) \/ MbW1(o) \/ MbW2(o) \/ MbOTerm(o))

Next == \/ ~crashed /\ (Release \/ \E o \in Objs : PSend(o))
        \/ \E c \in Conns : RdStep(c) \/ CsStep(c)
        \/ \E o \in Objs : MbStep(o)
Spec == /\ Init /\ [][Next]_vars
        /\ WF_vars(~crashed /\ Release) /\ WF_vars(~crashed /\ \E o \in Objs : PSend(o))
        /\ \A c \in Conns : WF_vars(RdStep(c)) /\ WF_vars(CsStep(c))
        /\ \A o \in Objs : WF_vars(MbStep(o))

-----------------------------------------------------------------------------
(* who waits for whom: the goroutines whose progress a blocked goroutine needs (all of them) *)
WaitsFor(g) ==
  IF g[1] = "rd" THEN
    LET c == g[2] IN
      IF rd[c].pc = "read" /\ (wire[c] # <<>> \/ c \in eof) /\ H[c] # NoG THEN {H[c]}
      ELSE IF rd[c].pc = "wait" /\ Len(Q[c]) >= QCap THEN {Cs(c)}
      ELSE {}
  ELSE IF g[1] = "cs" THEN
    LET c == g[2] IN
      IF cs[c].pc = "rlock" /\ S.w # NoG THEN {S.w}
      ELSE IF cs[c].pc = "enq" /\ cs[c].m.o \notin bclosed /\ Len(B[cs[c].m.o]) >= BCap /\ ~Dev_ConsumerGivesUpOnFullMailbox
        THEN {Mb(cs[c].m.o)}
      ELSE {}
  ELSE
    LET o == g[2] IN
      IF mb[o].pc \in {"mkh", "rmh"} /\ H[mb[o].m.c] # NoG THEN {H[mb[o].m.c]}
      ELSE IF mb[o].pc = "oterm" /\ subs[o] # {} /\ H[NextSub(o)] # NoG THEN {H[NextSub(o)]}
      ELSE IF mb[o].pc = "w1" /\ S.w # NoG THEN {S.w}
      ELSE IF mb[o].pc = "w2" THEN S.readers
      ELSE {}
WaitGraph == [g \in G |-> WaitsFor(g)]
RECURSIVE Closure(_, _, _)
Closure(W, X, n) == IF n = 0 THEN X ELSE Closure(W, X \cup UNION {W[h] : h \in X}, n - 1)
ReachIn(W, g) == IF W[g] = {} THEN {} ELSE Closure(W, W[g], Cardinality(G) - 1)

(* C12 *)
(* no goroutine waits, directly or transitively, for a resource held by a goroutine that waits for it *)
NoWaitCycle == LET W == WaitGraph IN \A g \in G : g \notin ReachIn(W, g)
(* the blocking enqueue into a mailbox is never made with a lock held, and nobody waits for room in a queue with
   handlersMutex held *)
Holds(g) == g \in S.readers \/ S.w = g \/ \E c \in Conns : H[c] = g
NoLockHeldWhileEnqueuing ==
  /\ \A c \in Conns : cs[c].pc = "enq" => ~Holds(Cs(c))
  /\ \A c \in Conns : rd[c].pc # "wait"
(* a slow method delays only the mail addressed to its own object: the only goroutines that wait (transitively) for a
   mailbox goroutine inside the slow method are consumers carrying a mail for that very object *)
AtGate(h) == h[1] = "mb" /\ mb[h[2]].pc = "gate"
SlowDelaysOnlyItsOwnMail ==
  (\E o \in Objs : mb[o].pc = "gate") =>
    LET W == WaitGraph IN
    \A g \in G : \A h \in ReachIn(W, g) :
       AtGate(h) => g[1] = "cs" /\ cs[g[2]].pc = "enq" /\ cs[g[2]].m.o = h[2]
ServerUp == ~crashed
(* the other client, which never fills a queue, is never refused *)
OtherNeverRefused == \A o \in Objs : pres[o] # "blocked"
(* the other client is served: under fairness - the slow method is released at some point - every object it asks
   answers: a reply, or, for an object a terminate request names, any answer *)
Served(o) == pres[o] = "reply" \/ (Named(o) /\ pres[o] # "")
OthersServed == <>[](Cardinality(pasked) = PMax /\ \A o \in pasked : Served(o))

(* export (configurations with a deviation on): the schedule of every state with a wait cycle / of every crash - what
   the hostile client wrote on which connection, which objects the other client had asked.  The harness replays them at
   the real capacities (a request of the script becomes a flood) against the real server. *)
Schedule == [script |-> script, eof |-> eof, asked |-> pasked, released |-> released]
ExportCycles == NoWaitCycle \/ PrintT(<<"X", ToJson(Schedule)>>)
ExportCrashes == ServerUp \/ PrintT(<<"X", ToJson(Schedule)>>)
=============================================================================
