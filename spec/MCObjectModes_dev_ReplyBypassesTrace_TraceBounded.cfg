SPECIFICATION Spec
CONSTANTS
  Conns = {1, 2}
  Users = {1}
  Alphabet <- Alpha_three
  MaxMsgs = 2
  MaxStack = 12
  WithDisconnect = FALSE
  SendWhen = "idle"
  AutoOff = FALSE
  KeepOut = "none"
  Dev_NoTraceGuard = FALSE
  Dev_CompareChannel = FALSE
  Dev_TracedWrapsRaw = FALSE
  Dev_StatAnyAction = FALSE
  Dev_ClearForgets = FALSE
  Dev_ReplyBypassesTrace = TRUE
  Dev_RemoveDropsLast = FALSE
  Dev_LateRegistrationKept = FALSE
INVARIANTS TraceBounded
CHECK_DEADLOCK FALSE
