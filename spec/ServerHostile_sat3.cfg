SPECIFICATION Spec
CONSTANTS
  MaxLen = 3
  Alphabet = "sat"
  Dev_DupUserStucksObject = FALSE
  Dev_AuthFloodCrashes = FALSE
  Dev_HostileCountCrashes = FALSE
  Dev_SaturationDeadlocks = FALSE
  Dev_SendBlocksOnUnreadSocket = FALSE
INVARIANTS Export ServerUp AllServe
CHECK_DEADLOCK FALSE
