SPECIFICATION GSpec
CONSTANTS
  Objs = {1, 2}
  Conns = {"c1", "c2", "c3"}
  MsgTab <- TabGe
  InitReg <- RegGe
  BoxCap = 10
  WithFill = FALSE
  Removable = {1}
  WithSvcTerm = FALSE
  MaxBreaks = 0
  MaxDrops = 0
  LockSteps = FALSE
  Dev_LateRegisterAccepted = FALSE
  Dev_StopAtFailedSend = FALSE
  Dev_KeepHandlerOnFailedSend = FALSE
  Dev_KeepTableOnTerminate = FALSE
  Dev_CloseBoxOnRemove = FALSE
  Dev_MailboxStopsOnRemove = FALSE
  Dev_BoxKeptAfterRemove = FALSE
  Dev_SendUnderReadLock = FALSE
  Dev_TerminateCallEndsService = FALSE
  Dev_ForgetDropsLast = FALSE
  Dev_AddUnderLock = FALSE
  FineSteps = TRUE
  SampleMod = 1
  MaxLen = 99
VIEW View
CONSTRAINT Short
INVARIANTS Sanity NoCrash RemainingSubscribersTold OnlyRemainingTold ToldAtMostOnce HandlersReleased NoSubscriberLeftBehind LateRefused
CHECK_DEADLOCK FALSE
