SPECIFICATION TSpec
CONSTANTS
  Threads <- Cast
  Conns = {"c1", "c2"}
  Signals = {"A", "B"}
  ConnOf <- CastConn
  SigOf <- CastSig
  Rounds <- CR99
  EmitSeq <- NoEmit
  QCap = 100
  Dev_ProxySectionsNotAtomic = FALSE
  Dev_SendAfterSnapshot = TRUE
CONSTRAINT Check
POSTCONDITION Report
CHECK_DEADLOCK FALSE
