SPECIFICATION TSpec
CONSTANTS
  Conns = {1, 2, 3}
  Users = {1, 2, 3}
  Alphabet <- Alpha_all
  MaxMsgs = 64
  MaxStack = 40
  WithDisconnect = TRUE
  SendWhen = "between"
  AutoOff = FALSE
  KeepOut = "none"
  Dev_NoTraceGuard = FALSE
  Dev_CompareChannel = FALSE
  Dev_TracedWrapsRaw = FALSE
  Dev_StatAnyAction = FALSE
  Dev_ClearForgets = FALSE
  Dev_ReplyBypassesTrace = FALSE
  Dev_RemoveDropsLast = FALSE
  Dev_LateRegistrationKept = TRUE
CONSTRAINT Track
INVARIANTS NoCrash AnsweredOnceT UnregisterOwnSucceeds NoEventAfterUnregister EventsOnceInOrder TraceBounded StatsExact
POSTCONDITION Accepted
CHECK_DEADLOCK FALSE
