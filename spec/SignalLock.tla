----------------------------- MODULE SignalLock -----------------------------
(***************************************************************************)
(* Lock-owner model of bus/signal.go x bus/net/endpoint.go for C12: who    *)
(* holds signalsMutex (S) and an end point's handlersMutex (H[c]) while    *)
(* which function runs, for every script of registerEvent / unregisterEvent *)
(* requests one client can send to one object, with the connection going   *)
(* away at any moment.                                                     *)
(*                                                                         *)
(*  signal.go  addSignalUser (l.58-93): MakeHandler for the disconnect     *)
(*             handler, then under S: duplicate user id ? -> RemoveHandler  *)
(*             removeSignalUser (l.96-112): under S delete the user, then   *)
(*             RemoveHandler(user.contextID) outside S                      *)
(*  endpoint.go RemoveHandler (l.256-265): H.Lock; closer(); close; nil;    *)
(*             Unlock - the closer of a disconnect handler is               *)
(*             removeSignalUser, and it runs while H is held                *)
(*             closeWith (l.232-246): under H every handler is detached and *)
(*             its closer started in a goroutine of its own                 *)
(*                                                                         *)
(* Goroutines: "mb" the object's mailbox goroutine (runs the requests one   *)
(* after the other), "dc" the end point's reader noticing the disconnect,   *)
(* "k1".. the closer goroutines it spawns.  sync.Mutex is not re-entrant:   *)
(* a goroutine that asks for a mutex it owns waits for ever (SelfDeadlock). *)
(*                                                                         *)
(* Variant = "orig"      the code as found: duplicate -> RemoveHandler of   *)
(*                       the EXISTING user's handler                        *)
(*           "removeNew" candidate: RemoveHandler of the NEW handler        *)
(*           "checkFirst" candidate: look for the duplicate before the      *)
(*                       handler is made, nothing to undo                   *)
(*           "fixed"     the repair: checkFirst + the closer of a           *)
(*                       disconnect handler only forgets the user (it does  *)
(*                       not call RemoveHandler: whoever runs a closer is   *)
(*                       already removing that handler)                     *)
(***************************************************************************)
EXTENDS Naturals, Sequences, FiniteSets, TLC

CONSTANTS Users, Conns, MaxLen, Variant, Disconnects   \* Disconnects: connections that may go away

NoG == "none"
NSlots == 3
Closers == {"k1", "k2", "k3"}
G == {"mb", "dc"} \cup Closers

Ops == {"reg", "unreg"}
Req == [op : Ops, u : Users, c : Conns]
RECURSIVE SeqsUpTo(_)
SeqsUpTo(n) == IF n = 0 THEN {<<>>}
               ELSE LET s == SeqsUpTo(n - 1) IN s \cup {Append(x, r) : x \in s, r \in Req}
Scripts == SeqsUpTo(MaxLen)

VARIABLES
  reqs,     \* the script (chosen initially)
  reqi,     \* next request of the script
  H,        \* H[c]: owner of the handlersMutex of end point c (NoG: free)
  S,        \* owner of signalsMutex (write lock)
  table,    \* registered users: set of [u, c, slot]
  slots,    \* slots[c][i]: user whose disconnect handler sits in slot i of c ("" : empty)
  stack,    \* stack[g]: call stack of goroutine g (sequence of frames)
  gone,     \* connections whose end point was shut down
  replies   \* answers sent by the mailbox goroutine

vars == <<reqs, reqi, H, S, table, slots, stack, gone, replies>>

Frame(fn, pc, u, c, slot) == [fn |-> fn, pc |-> pc, u |-> u, c |-> c, slot |-> slot]
Top(g) == stack[g][Len(stack[g])]
Running(g) == stack[g] # <<>>
SetTop(g, f) == [stack EXCEPT ![g] = [@ EXCEPT ![Len(@)] = f]]
PushOn(g, f, callee) == [stack EXCEPT ![g] = Append([@ EXCEPT ![Len(@)] = f], callee)]
Pop(g) == [stack EXCEPT ![g] = SubSeq(@, 1, Len(@) - 1)]
At(g, fn, pc) == Running(g) /\ Top(g).fn = fn /\ Top(g).pc = pc
Known(u) == \E t \in table : t.u = u
Entry(u) == CHOOSE t \in table : t.u = u
FreeSlot(c) == CHOOSE i \in 1..NSlots : slots[c][i] = "" /\ \A j \in 1..(i - 1) : slots[c][j] # ""
HasFree(c) == \E i \in 1..NSlots : slots[c][i] = ""

Init ==
  /\ reqs \in Scripts /\ reqi = 1
  /\ H = [c \in Conns |-> NoG] /\ S = NoG
  /\ table = {}
  /\ slots = [c \in Conns |-> [i \in 1..NSlots |-> ""]]
  /\ stack = [g \in G |-> <<>>]
  /\ gone = {}
  /\ replies = <<>>

(* mailbox goroutine: next mail (mailbox.go l.30-41) -> RegisterEvent / UnregisterEvent *)
Start ==
  /\ ~Running("mb") /\ reqi <= Len(reqs)
  /\ LET r == reqs[reqi] IN
       stack' = [stack EXCEPT !["mb"] =
                   << Frame(IF r.op = "reg" THEN "add" ELSE "unreg",
                            IF r.op = "reg" /\ Variant \in {"checkFirst", "fixed"} THEN "pre" ELSE "begin", r.u, r.c, 0) >>]
  /\ reqi' = reqi + 1
  /\ UNCHANGED <<reqs, H, S, table, slots, gone, replies>>

-----------------------------------------------------------------------------
(* addSignalUser *)
AddPreLock(g) ==      \* checkFirst: signalsMutex.Lock()
  /\ At(g, "add", "pre") /\ S = NoG /\ S' = g
  /\ stack' = SetTop(g, [Top(g) EXCEPT !.pc = "prechk"])
  /\ UNCHANGED <<reqs, reqi, H, table, slots, gone, replies>>
AddPreCheck(g) ==     \* duplicate ? -> Unlock, error : Unlock, go on
  /\ At(g, "add", "prechk") /\ S' = NoG
  /\ stack' = SetTop(g, [Top(g) EXCEPT !.pc = IF Known(Top(g).u) THEN "fail" ELSE "begin"])
  /\ UNCHANGED <<reqs, reqi, H, table, slots, gone, replies>>
AddMakeHandler(g) ==  \* e.MakeHandler(f, q, cl): Lock, first free slot, Unlock (one step)
  /\ At(g, "add", "begin") /\ H[Top(g).c] = NoG /\ HasFree(Top(g).c)
  /\ slots' = [slots EXCEPT ![Top(g).c][FreeSlot(Top(g).c)] = Top(g).u]
  /\ stack' = SetTop(g, [Top(g) EXCEPT !.pc = "lockS", !.slot = FreeSlot(Top(g).c)])
  /\ UNCHANGED <<reqs, reqi, H, S, table, gone, replies>>
AddLockS(g) ==
  /\ At(g, "add", "lockS") /\ S = NoG /\ S' = g
  /\ stack' = SetTop(g, [Top(g) EXCEPT !.pc = "check"])
  /\ UNCHANGED <<reqs, reqi, H, table, slots, gone, replies>>
AddCheck(g) ==        \* under S: duplicate ? -> Unlock, RemoveHandler(..), error : append, Unlock
  /\ At(g, "add", "check") /\ S' = NoG
  /\ LET f == Top(g) IN
     IF Known(f.u)
       THEN /\ UNCHANGED table
            /\ stack' = IF Variant = "orig"
                          THEN PushOn(g, [f EXCEPT !.pc = "fail"], Frame("rmh", "lock", f.u, Entry(f.u).c, Entry(f.u).slot))
                          ELSE PushOn(g, [f EXCEPT !.pc = "fail"], Frame("rmh", "lock", f.u, f.c, f.slot))
       ELSE /\ table' = table \cup {[u |-> f.u, c |-> f.c, slot |-> f.slot]}
            /\ stack' = SetTop(g, [f EXCEPT !.pc = "ok"])
  /\ UNCHANGED <<reqs, reqi, H, slots, gone, replies>>
AddReply(g) ==
  /\ Running(g) /\ Top(g).fn = "add" /\ Top(g).pc \in {"ok", "fail"}
  /\ replies' = Append(replies, [u |-> Top(g).u, r |-> Top(g).pc])
  /\ stack' = Pop(g)
  /\ UNCHANGED <<reqs, reqi, H, S, table, slots, gone>>

(* UnregisterEvent = removeSignalUser, then the answer *)
UnregBegin(g) ==
  /\ At(g, "unreg", "begin")
  /\ stack' = PushOn(g, [Top(g) EXCEPT !.pc = "ret"], Frame("rmu", "lock", Top(g).u, Top(g).c, 0))
  /\ UNCHANGED <<reqs, reqi, H, S, table, slots, gone, replies>>
UnregReply(g) ==
  /\ At(g, "unreg", "ret")
  /\ replies' = Append(replies, [u |-> Top(g).u, r |-> "unreg"])
  /\ stack' = Pop(g)
  /\ UNCHANGED <<reqs, reqi, H, S, table, slots, gone>>

(* the closer of a disconnect handler *)
CloserFn == IF Variant = "fixed" THEN "fgt" ELSE "rmu"

(* "fixed": forgetSignalUser(u, from): under S delete the user; nothing else *)
FgtLock(g) ==
  /\ At(g, "fgt", "lock") /\ S = NoG /\ S' = g
  /\ stack' = SetTop(g, [Top(g) EXCEPT !.pc = "body"])
  /\ UNCHANGED <<reqs, reqi, H, table, slots, gone, replies>>
FgtBody(g) ==
  /\ At(g, "fgt", "body") /\ S' = NoG
  /\ LET f == Top(g) IN
       table' = IF Known(f.u) /\ Entry(f.u).c = f.c THEN table \ {Entry(f.u)} ELSE table
  /\ stack' = Pop(g)
  /\ UNCHANGED <<reqs, reqi, H, slots, gone, replies>>

(* removeSignalUser(u, from) *)
RmuLock(g) ==
  /\ At(g, "rmu", "lock") /\ S = NoG /\ S' = g
  /\ stack' = SetTop(g, [Top(g) EXCEPT !.pc = "body"])
  /\ UNCHANGED <<reqs, reqi, H, table, slots, gone, replies>>
RmuBody(g) ==         \* found on the same end point: delete, Unlock, RemoveHandler(contextID) : Unlock, error
  /\ At(g, "rmu", "body") /\ S' = NoG
  /\ LET f == Top(g) IN
     IF Known(f.u) /\ Entry(f.u).c = f.c
       THEN /\ table' = table \ {Entry(f.u)}
            /\ stack' = PushOn(g, [f EXCEPT !.pc = "ret"], Frame("rmh", "lock", f.u, f.c, Entry(f.u).slot))
       ELSE /\ UNCHANGED table
            /\ stack' = SetTop(g, [f EXCEPT !.pc = "ret"])
  /\ UNCHANGED <<reqs, reqi, H, slots, gone, replies>>
RmuRet(g) ==
  /\ At(g, "rmu", "ret") /\ stack' = Pop(g)
  /\ UNCHANGED <<reqs, reqi, H, S, table, slots, gone, replies>>

(* endPoint.RemoveHandler(slot) *)
RmhLock(g) ==
  /\ At(g, "rmh", "lock")
  /\ H[Top(g).c] = NoG                \* sync.Mutex: whoever holds it, the caller waits
  /\ H' = [H EXCEPT ![Top(g).c] = g]
  /\ LET f == Top(g) IN
     IF slots[f.c][f.slot] # ""
       THEN \* closer(): the disconnect handler's closer is removeSignalUser(its user, its channel)
            stack' = PushOn(g, [f EXCEPT !.pc = "closed"], Frame(CloserFn, "lock", slots[f.c][f.slot], f.c, 0))
       ELSE stack' = SetTop(g, [f EXCEPT !.pc = "unlock"])
  /\ UNCHANGED <<reqs, reqi, S, table, slots, gone, replies>>
RmhClosed(g) ==
  /\ At(g, "rmh", "closed")
  /\ slots' = [slots EXCEPT ![Top(g).c][Top(g).slot] = ""]
  /\ stack' = SetTop(g, [Top(g) EXCEPT !.pc = "unlock"])
  /\ UNCHANGED <<reqs, reqi, H, S, table, gone, replies>>
RmhUnlock(g) ==
  /\ At(g, "rmh", "unlock")
  /\ H' = [H EXCEPT ![Top(g).c] = NoG]
  /\ stack' = Pop(g)
  /\ UNCHANGED <<reqs, reqi, S, table, slots, gone, replies>>

(* the connection goes away: endPoint.closeWith under H: every handler detached, one
   goroutine per closer                                                      *)
Live(c) == {i \in 1..NSlots : slots[c][i] # ""}
Disconnect(c) ==
  /\ c \in Disconnects \ gone /\ H[c] = NoG
  /\ \A k \in Closers : ~Running(k)
  /\ gone' = gone \cup {c}
  /\ LET live == Live(c)
         kOf == [i \in 1..NSlots |-> <<"k1", "k2", "k3">>[i]]
     IN stack' = [g \in G |-> IF \E i \in live : kOf[i] = g
                               THEN << Frame(CloserFn, "lock", slots[c][CHOOSE i \in live : kOf[i] = g], c, 0) >>
                               ELSE stack[g]]
  /\ slots' = [slots EXCEPT ![c] = [i \in 1..NSlots |-> ""]]
  /\ UNCHANGED <<reqs, reqi, H, S, table, replies>>

Step(g) == \/ AddPreLock(g) \/ AddPreCheck(g) \/ AddMakeHandler(g) \/ AddLockS(g) \/ AddCheck(g) \/ AddReply(g)
           \/ UnregBegin(g) \/ UnregReply(g) \/ RmuLock(g) \/ RmuBody(g) \/ RmuRet(g)
           \/ RmhLock(g) \/ RmhClosed(g) \/ RmhUnlock(g) \/ FgtLock(g) \/ FgtBody(g)
Finished == reqi > Len(reqs) /\ \A g \in G : ~Running(g)
Next == \/ Start
        \/ \E g \in G : Step(g)
        \/ \E c \in Conns : Disconnect(c)
        \/ Finished /\ UNCHANGED vars
Spec == Init /\ [][Next]_vars /\ WF_vars(Start) /\ \A g \in G : WF_vars(Step(g))

-----------------------------------------------------------------------------
(* C12 *)
(* a goroutine asks for a mutex it holds itself: it never runs again, and with it the object *)
SelfDeadlock(g) == At(g, "rmh", "lock") /\ H[Top(g).c] = g
NoSelfDeadlock == \A g \in G : ~SelfDeadlock(g)
(* no blocking call is made with signalsMutex held *)
NoBlockingUnderS == \A g \in G : (S = g /\ Running(g)) => Top(g).fn # "rmh"
(* a closer never asks for the mutex of the end point that runs it *)
CloserDoesNotReenter == \A g \in G : \A i \in 1..Len(stack[g]) : \A j \in 1..Len(stack[g]) :
   (i < j /\ stack[g][i].fn = "rmh" /\ stack[g][i].pc = "closed") => stack[g][j].fn # "rmh"
(* every request is answered: the object keeps serving *)
ObjectKeepsServing == <>(Finished /\ Len(replies) = Len(reqs))
(* the table and the handler slots stay consistent at rest *)
TableConsistent == Finished => \A t \in table : t.c \in gone \/ slots[t.c][t.slot] = t.u
=============================================================================
