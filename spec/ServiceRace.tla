----------------------------- MODULE ServiceRace -----------------------------
(* The "split rendering" of the service object table (C16), in the style of
   DirectoryRace.tla: the bodies of Remove / Add / Terminate of bus/service.go
   (serviceImpl) and of bus/service_reference.go (clientService) as the steps
   racing goroutines can interleave, with the RWMutex modelled (readers,
   the writer, WAITING writers - a waiting writer keeps new readers out, also
   a goroutine that already holds the read lock).

   Service.tla takes every operation as one atomic action; that is justified
   exactly when check and mutation sit in ONE critical section.  This module
   shows what the atomicity rests on, per operation and rendering:

   Remove(id)
     "locked"   serviceImpl.Remove l.153-166 (the code): Lock; found? delete;
                Unlock; OnTerminate outside the lock
     "split"    the class of defect: RLock; found?; RUnlock  ...  Lock; delete
                (no second look); Unlock; OnTerminate - two removers both pass
                the check: TerminateHookExactlyOnce and OneRemoveSucceeds break
     "client0"  clientService.Remove as found (l.99-108): RLock; found? DELETE
                (a map write under the READ lock); RUnlock; RemoveHandler(slot)
                - a second goroutine inside the read lock: NoDataRace breaks
                (Go: fatal error: concurrent map read and map write)
     "client"   the repair: Lock; found? delete; Unlock; RemoveHandler(slot)
                (RemoveHandler is one critical section of the end point: the
                handler is there -> closer -> OnTerminate, or an error)
   Terminate
     "locked"   serviceImpl.Terminate l.178-192: Lock; take the table, install
                an empty one; Unlock; OnTerminate of every object taken
     "split"    RLock; copy; RUnlock ... Lock; clear; Unlock; hooks of the copy -
                a Remove in between runs the hook of the same object again
     "client0"  clientService.Terminate as found (l.110-120): RLock; for every
                entry Remove(id) - which takes the read lock AGAIN; RUnlock.
                A writer (Add) arriving in between waits for the outer read
                lock and keeps the inner one out: DEADLOCK
     "client"   the repair: RLock; copy the identifiers; RUnlock; Remove(id) each
   Add
     "locked"   Lock; pick a free identifier, insert; Unlock  (the reservation
                of serviceImpl.Add l.89-103; clientService.Add l.93-96)
     "split"    RLock; pick a free identifier; RUnlock ... Lock; insert; Unlock -
                two adders pick the same identifier, the second replaces the first

   TLC (MCServiceRace*.cfg): with "locked" (and "client") every interleaving of
   2-3 racers keeps the invariants and never deadlocks; each other rendering
   breaks the invariant named above.                                         *)
EXTENDS Naturals, FiniteSets, TLC

CONSTANTS Racers,        \* the goroutines
          Live0,         \* objects registered at the start: identifiers (= instances) 1..Live0
          Pool,          \* identifiers an Add may draw (disjoint from 1..Live0)
          Ops,           \* operations a racer may choose: subset of {"remove", "add", "terminate"}
          MaxOps,        \* operations per racer
          RemoveMode, TerminateMode, AddMode

Ids == (1..Live0) \cup Pool
NONE == 0
NoOne == "nobody"

VARIABLES objects,     \* id -> instance | NONE                     (serviceImpl.objects / objectsHandlers)
          handler,     \* instance -> BOOLEAN: its end point handler is installed (client renderings)
          known,       \* instances ever added successfully, with the identifier returned: inst -> id (0: not)
          term,        \* instance -> OnTerminate calls
          okrm,        \* instance -> Remove calls that returned nil for it
          w, rd, ww,   \* RWMutex: the writer | NoOne; racer -> read holds; racers waiting in Lock()
          pc, arg, obj, todo, ops,   \* per racer: program counter, identifier, remembered instance(s), work list, operations begun
          fault        \* a map write while another goroutine is inside the read lock
vars == <<objects, handler, known, term, okrm, w, rd, ww, pc, arg, obj, todo, ops, fault>>

\* a fresh instance number for the n-th operation of racer r: racers are numbered by a fixed bijection
RacerNo == CHOOSE f \in [Racers -> 1..Cardinality(Racers)] : \A a, b \in Racers : a # b => f[a] # f[b]
NewInst(r, n) == Live0 + (RacerNo[r] - 1) * MaxOps + n
Inst == 1..(Live0 + Cardinality(Racers) * MaxOps)

Init == /\ objects = [i \in Ids |-> IF i <= Live0 THEN i ELSE NONE]
        /\ handler = [k \in Inst |-> k <= Live0]
        /\ known = [k \in Inst |-> IF k <= Live0 THEN k ELSE 0]
        /\ term = [k \in Inst |-> 0]
        /\ okrm = [k \in Inst |-> 0]
        /\ w = NoOne /\ rd = [r \in Racers |-> 0] /\ ww = {}
        /\ pc = [r \in Racers |-> "idle"] /\ arg = [r \in Racers |-> 0]
        /\ obj = [r \in Racers |-> {}] /\ todo = [r \in Racers |-> {}]
        /\ ops = [r \in Racers |-> 0]
        /\ fault = FALSE

Goto(r, l) == pc' = [pc EXCEPT ![r] = l]
Client(m) == m \in {"client0", "client"}

(* ---- the RWMutex ---- *)
RLock(r)    == w = NoOne /\ ww = {} /\ rd' = [rd EXCEPT ![r] = @ + 1] /\ UNCHANGED <<w, ww>>
RUnlock(r)  == rd' = [rd EXCEPT ![r] = @ - 1] /\ UNCHANGED <<w, ww>>
LockReq(r)  == ww' = ww \cup {r} /\ UNCHANGED <<w, rd>>                 \* Lock() called: new readers wait
LockAcq(r)  == r \in ww /\ w = NoOne /\ (\A q \in Racers : rd[q] = 0) /\ w' = r /\ ww' = ww \ {r} /\ UNCHANGED rd
Unlock(r)   == w' = NoOne /\ UNCHANGED <<rd, ww>>
NoLock      == UNCHANGED <<w, rd, ww>>
\* a write to the map by r: a fault if somebody else is inside the read lock
Writes(r)   == fault' = (fault \/ \E q \in Racers \ {r} : rd[q] > 0)

Begin(r, op, id) ==
  /\ pc[r] = "idle" /\ ops[r] < MaxOps /\ op \in Ops
  /\ ops' = [ops EXCEPT ![r] = @ + 1]
  /\ arg' = [arg EXCEPT ![r] = id]
  /\ obj' = [obj EXCEPT ![r] = {}] /\ todo' = [todo EXCEPT ![r] = {}]
  /\ Goto(r, op)
  /\ NoLock /\ UNCHANGED <<objects, handler, known, term, okrm, fault>>

(* ---- Remove(arg[r]); `back` is where the racer continues (idle, or the loop of a client Terminate) ---- *)
\* first lock request of Remove
RmEnter(r) ==
  /\ pc[r] = "remove"
  /\ IF RemoveMode \in {"locked", "client"}
       THEN LockReq(r) /\ Goto(r, "rm_wlock")
       ELSE RLock(r) /\ Goto(r, "rm_rlocked")
  /\ UNCHANGED <<objects, handler, known, term, okrm, arg, obj, todo, ops, fault>>
\* "locked" / "client": the whole decision under the write lock
RmLocked(r) ==
  /\ pc[r] = "rm_wlock" /\ RemoveMode \in {"locked", "client"} /\ LockAcq(r)
  /\ Goto(r, "rm_decide")
  /\ UNCHANGED <<objects, handler, known, term, okrm, arg, obj, todo, ops, fault>>
RmDecide(r) ==       \* found? delete : refuse; Unlock
  /\ pc[r] = "rm_decide" /\ Unlock(r)
  /\ LET id == arg[r] IN
     IF objects[id] # NONE
       THEN /\ obj' = [obj EXCEPT ![r] = {objects[id]}]
            /\ objects' = [objects EXCEPT ![id] = NONE]
            /\ Writes(r) /\ Goto(r, "rm_hook")
       ELSE /\ obj' = [obj EXCEPT ![r] = {}]
            /\ Goto(r, "rm_done") /\ UNCHANGED <<objects, fault>>
  /\ UNCHANGED <<handler, known, term, okrm, arg, todo, ops>>
\* "split" / "client0": the look-up under the read lock
RmCheck(r) ==
  /\ pc[r] = "rm_rlocked"
  /\ LET id == arg[r] IN
     IF objects[id] # NONE
       THEN /\ obj' = [obj EXCEPT ![r] = {objects[id]}]
            /\ IF RemoveMode = "client0"
                 THEN objects' = [objects EXCEPT ![id] = NONE] /\ Writes(r)      \* delete under the READ lock
                 ELSE UNCHANGED <<objects, fault>>
            /\ Goto(r, "rm_found")
       ELSE obj' = [obj EXCEPT ![r] = {}] /\ Goto(r, "rm_unknown") /\ UNCHANGED <<objects, fault>>
  /\ NoLock /\ UNCHANGED <<handler, known, term, okrm, arg, todo, ops>>
RmRUnlock(r) ==
  /\ pc[r] \in {"rm_found", "rm_unknown"} /\ RUnlock(r)
  /\ Goto(r, IF pc[r] = "rm_unknown" THEN "rm_done"
             ELSE IF RemoveMode = "client0" THEN "rm_hook" ELSE "rm_split_req")
  /\ UNCHANGED <<objects, handler, known, term, okrm, arg, obj, todo, ops, fault>>
RmSplitReq(r) ==
  /\ pc[r] = "rm_split_req" /\ LockReq(r) /\ Goto(r, "rm_split_wlock")
  /\ UNCHANGED <<objects, handler, known, term, okrm, arg, obj, todo, ops, fault>>
RmSplitDelete(r) ==    \* second critical section: delete without looking again
  /\ pc[r] = "rm_split_wlock" /\ LockAcq(r)
  /\ objects' = [objects EXCEPT ![arg[r]] = NONE] /\ Writes(r)
  /\ Goto(r, "rm_split_unlock")
  /\ UNCHANGED <<handler, known, term, okrm, arg, obj, todo, ops>>
RmSplitUnlock(r) ==
  /\ pc[r] = "rm_split_unlock" /\ Unlock(r) /\ Goto(r, "rm_hook")
  /\ UNCHANGED <<objects, handler, known, term, okrm, arg, obj, todo, ops, fault>>
\* outside the lock: OnTerminate (server) / RemoveHandler(slot) whose closer runs OnTerminate (client)
RmHook(r) ==
  /\ pc[r] = "rm_hook" /\ NoLock
  /\ LET k == CHOOSE x \in obj[r] : TRUE IN
     IF Client(RemoveMode)
       THEN IF handler[k]
              THEN /\ handler' = [handler EXCEPT ![k] = FALSE]
                   /\ term' = [term EXCEPT ![k] = @ + 1]
                   /\ okrm' = [okrm EXCEPT ![k] = @ + 1]
                   /\ UNCHANGED obj
              ELSE obj' = [obj EXCEPT ![r] = {}] /\ UNCHANGED <<handler, term, okrm>>   \* "invalid handler id": Remove fails
       ELSE /\ term' = [term EXCEPT ![k] = @ + 1]
            /\ okrm' = [okrm EXCEPT ![k] = @ + 1]
            /\ UNCHANGED <<handler, obj>>
  /\ Goto(r, "rm_done")
  /\ UNCHANGED <<objects, known, arg, todo, ops, fault>>
RmDone(r) ==        \* obj[r] = {}: the Remove failed.  Inside a client Terminate: back to its loop, which a failure ends
  /\ pc[r] = "rm_done" /\ NoLock
  /\ Goto(r, IF todo[r] # {} \/ rd[r] > 0 THEN "tm_loop" ELSE "idle")
  /\ todo' = [todo EXCEPT ![r] = IF obj[r] = {} THEN {} ELSE @]           \* `return err` at the first failure
  /\ UNCHANGED <<objects, handler, known, term, okrm, arg, obj, ops, fault>>

(* ---- Add ---- *)
\* a free identifier (the code draws random bits / counts; which one does not matter here)
FreeId == CHOOSE id \in Pool : objects[id] = NONE /\ \A j \in Pool : objects[j] = NONE => id <= j
AdEnter(r) ==
  /\ pc[r] = "add"
  /\ IF AddMode = "locked" THEN LockReq(r) /\ Goto(r, "ad_wlock")
                           ELSE RLock(r) /\ Goto(r, "ad_rlocked")
  /\ UNCHANGED <<objects, handler, known, term, okrm, arg, obj, todo, ops, fault>>
AdInsert(r) ==      \* pick a free identifier and insert, one critical section
  /\ pc[r] = "ad_wlock" /\ AddMode = "locked" /\ LockAcq(r)
  /\ LET id == FreeId IN
       /\ objects' = [objects EXCEPT ![id] = NewInst(r, ops[r])]
       /\ known' = [known EXCEPT ![NewInst(r, ops[r])] = id]
       /\ handler' = [handler EXCEPT ![NewInst(r, ops[r])] = TRUE]
  /\ Writes(r) /\ Goto(r, "ad_unlock")
  /\ UNCHANGED <<term, okrm, arg, obj, todo, ops>>
AdPick(r) ==        \* split: the identifier is chosen under the read lock ...
  /\ pc[r] = "ad_rlocked" /\ RUnlock(r)
  /\ arg' = [arg EXCEPT ![r] = FreeId]
  /\ Goto(r, "ad_split_req")
  /\ UNCHANGED <<objects, handler, known, term, okrm, obj, todo, ops, fault>>
AdSplitReq(r) ==
  /\ pc[r] = "ad_split_req" /\ LockReq(r) /\ Goto(r, "ad_split_wlock")
  /\ UNCHANGED <<objects, handler, known, term, okrm, arg, obj, todo, ops, fault>>
AdSplitInsert(r) == \* ... and used under a later write lock
  /\ pc[r] = "ad_split_wlock" /\ LockAcq(r)
  /\ objects' = [objects EXCEPT ![arg[r]] = NewInst(r, ops[r])]
  /\ known' = [known EXCEPT ![NewInst(r, ops[r])] = arg[r]]
  /\ handler' = [handler EXCEPT ![NewInst(r, ops[r])] = TRUE]
  /\ Writes(r) /\ Goto(r, "ad_unlock")
  /\ UNCHANGED <<term, okrm, arg, obj, todo, ops>>
AdUnlock(r) ==
  /\ pc[r] = "ad_unlock" /\ Unlock(r) /\ Goto(r, "idle")
  /\ UNCHANGED <<objects, handler, known, term, okrm, arg, obj, todo, ops, fault>>

(* ---- Terminate ---- *)
TmEnter(r) ==
  /\ pc[r] = "terminate"
  /\ IF TerminateMode = "locked" THEN LockReq(r) /\ Goto(r, "tm_wlock")
                                 ELSE RLock(r) /\ Goto(r, "tm_rlocked")
  /\ UNCHANGED <<objects, handler, known, term, okrm, arg, obj, todo, ops, fault>>
TmSwap(r) ==        \* "locked": take the table, install an empty one
  /\ pc[r] = "tm_wlock" /\ TerminateMode = "locked" /\ LockAcq(r)
  /\ obj' = [obj EXCEPT ![r] = {objects[i] : i \in {j \in Ids : objects[j] # NONE}}]
  /\ objects' = [i \in Ids |-> NONE] /\ Writes(r)
  /\ Goto(r, "tm_unlock")
  /\ UNCHANGED <<handler, known, term, okrm, arg, todo, ops>>
TmUnlock(r) ==
  /\ pc[r] = "tm_unlock" /\ Unlock(r) /\ Goto(r, "tm_hooks")
  /\ UNCHANGED <<objects, handler, known, term, okrm, arg, obj, todo, ops, fault>>
TmHooks(r) ==       \* OnTerminate of every object taken, outside the lock
  /\ pc[r] = "tm_hooks" /\ NoLock
  /\ term' = [k \in Inst |-> IF k \in obj[r] THEN term[k] + 1 ELSE term[k]]
  /\ Goto(r, "idle")
  /\ UNCHANGED <<objects, handler, known, okrm, arg, obj, todo, ops, fault>>
TmCopy(r) ==        \* under the read lock: "split" copies the objects, the client renderings the identifiers
  /\ pc[r] = "tm_rlocked"
  /\ IF TerminateMode = "split"
       THEN /\ obj' = [obj EXCEPT ![r] = {objects[i] : i \in {j \in Ids : objects[j] # NONE}}]
            /\ RUnlock(r) /\ Goto(r, "tm_split_req") /\ UNCHANGED todo
       ELSE /\ todo' = [todo EXCEPT ![r] = {j \in Ids : objects[j] # NONE}]
            /\ IF TerminateMode = "client" THEN RUnlock(r) ELSE NoLock       \* client0 keeps the read lock
            /\ Goto(r, "tm_loop") /\ UNCHANGED obj
  /\ UNCHANGED <<objects, handler, known, term, okrm, arg, ops, fault>>
TmSplitReq(r) ==
  /\ pc[r] = "tm_split_req" /\ LockReq(r) /\ Goto(r, "tm_split_wlock")
  /\ UNCHANGED <<objects, handler, known, term, okrm, arg, obj, todo, ops, fault>>
TmSplitClear(r) ==
  /\ pc[r] = "tm_split_wlock" /\ LockAcq(r)
  /\ objects' = [i \in Ids |-> NONE] /\ Writes(r) /\ Goto(r, "tm_unlock")
  /\ UNCHANGED <<handler, known, term, okrm, arg, obj, todo, ops>>
TmLoop(r) ==        \* client renderings: Remove(id) for the next identifier, or leave
  /\ pc[r] = "tm_loop"
  /\ IF todo[r] # {}
       THEN \E id \in todo[r] :
              /\ todo' = [todo EXCEPT ![r] = @ \ {id}]
              /\ arg' = [arg EXCEPT ![r] = id]
              /\ (IF TerminateMode = "client0" /\ objects[id] = NONE
                    THEN Goto(r, "tm_loop")      \* `range` does not produce an entry deleted meanwhile
                    ELSE Goto(r, "remove"))
              /\ NoLock
       ELSE /\ (IF rd[r] > 0 THEN RUnlock(r) ELSE NoLock)
            /\ Goto(r, "idle") /\ UNCHANGED <<todo, arg>>
  /\ UNCHANGED <<objects, handler, known, term, okrm, obj, ops, fault>>

Step(r) == \/ \E id \in 1..Live0 : Begin(r, "remove", id)
           \/ Begin(r, "add", 0) \/ Begin(r, "terminate", 0)
           \/ RmEnter(r) \/ RmLocked(r) \/ RmDecide(r) \/ RmCheck(r) \/ RmRUnlock(r)
           \/ RmSplitReq(r) \/ RmSplitDelete(r) \/ RmSplitUnlock(r) \/ RmHook(r) \/ RmDone(r)
           \/ AdEnter(r) \/ AdInsert(r) \/ AdPick(r) \/ AdSplitReq(r) \/ AdSplitInsert(r) \/ AdUnlock(r)
           \/ TmEnter(r) \/ TmSwap(r) \/ TmUnlock(r) \/ TmHooks(r) \/ TmCopy(r)
           \/ TmSplitReq(r) \/ TmSplitClear(r) \/ TmLoop(r)
Quiescent == \A r \in Racers : pc[r] = "idle"
Finished == Quiescent /\ \A r \in Racers : ops[r] = MaxOps
Next == (\E r \in Racers : Step(r)) \/ (Quiescent /\ UNCHANGED vars)     \* no deadlock report when all are idle
Spec == Init /\ [][Next]_vars

-----------------------------------------------------------------------------
TypeOK == /\ \A i \in Ids : objects[i] \in Inst \cup {NONE}
          /\ w \in Racers \cup {NoOne} /\ ww \subseteq Racers
\* the RWMutex really is one
MutualExclusion == w # NoOne => \A q \in Racers : rd[q] = 0
\* the termination hook never runs twice; once everybody has returned it has run exactly
\* once for every object that left the table and never for one that is still there
Gone(k) == known[k] # 0 /\ objects[known[k]] # k
TerminateHookExactlyOnce ==
  /\ \A k \in Inst : term[k] <= 1
  /\ Quiescent => \A k \in Inst : (known[k] # 0 => (Gone(k) <=> term[k] = 1)) /\ (known[k] = 0 => term[k] = 0)
\* of the concurrent removals of one object exactly one succeeds (never two)
OneRemoveSucceeds == \A k \in Inst : okrm[k] <= 1
\* identifiers unique among live objects: an added object is never replaced by another Add
UniqueLiveIds == \A j, k \in Inst : (j # k /\ known[j] # 0 /\ known[j] = known[k]) => (term[j] > 0 \/ term[k] > 0 \/ ~Quiescent)
NoDataRace == ~fault
=============================================================================
