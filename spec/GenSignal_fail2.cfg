SPECIFICATION GSpec
CONSTANTS
  Threads <- Cast9410
  Conns = {"c2", "c3"}
  Signals = {"A", "B"}
  Objects = {"o1", "o2"}
  ConnOf <- CastConn
  SigOf <- CastSig
  ObjOf <- CastObj
  Rounds <- CR1
  EmitSeq <- EmitO112
  QCap = 8
  Dev_ProxySectionsNotAtomic = TRUE
  Dev_SendAfterSnapshot = TRUE
  Devs = {}
  Probe <- NoProbe
  Failing = {"c3"}
  Inject <- NoInject
  Rogue = {}
  Hunt = ""
CHECK_DEADLOCK FALSE
