SPECIFICATION Spec
CONSTANTS
  LocalConns = {}
  FreeOrder = FALSE
  DevBoth = FALSE
  PinConn = FALSE
  WithGates = FALSE
  MaxGates = 0
  Modes = {"fast"}
  CloseErr = {1}
  Svcs = {1, 2}
  Objs = {11, 12, 21}
  InitSvcs = {1}
  Conns = {1}
  InitConns = {1}
  Calls = {1}
  MaxSrvTerm = 0
  TermSvcs = {1, 2}
  CallConns = {1}
  CallObjs = {11, 21}
  EnvOps = {"newsvcfail"}
  Dev_SecondTerminatePanics = FALSE
  Dev_TerminateAfterStopPanics = FALSE
  Dev_LateAcceptStaysOpen = FALSE
  Dev_FailedNewServiceKeepsName = FALSE
  Dev_CloseAllStopsAtError = FALSE
  Dev_SplitSvcSwap = FALSE
  Dev_TerminatorKeepsName = FALSE
  Dev_TerminatorRemovesAll = FALSE
  Dev_TerminateKeepsService = TRUE
  Dev_EnqueueDropsAfterTerminate = FALSE
  Dev_ListenFailNoStop = FALSE
INVARIANTS LateCallsRefused
CHECK_DEADLOCK FALSE
