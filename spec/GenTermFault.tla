---------------------------- MODULE GenTermFault ----------------------------
(* Behaviour export for TermFault (DESIGN.md 2.2 b), replayed on a real server by
   harness/cmd/system (sub-command tf-replay).

   The harness plays the environment of TermFault.tla one COMMAND at a time and lets the
   server's own goroutines run to quiescence in between (all their interleavings are
   explored: while they run, the history is part of the state):

     send(m)     the client of message m writes its frame (call / post of the slow method
                 hello, registerEvent, terminate)
     fill(k)     BoxCap posts that return at once, written one by one by a connection of
                 their own, behind the mail object k is running: the mailbox is full
     release(k)  the slow method running in object k returns
     remove(k)   a goroutine of the harness calls Service.Remove(id of k)
     svcterm     a goroutine of the harness calls Service.Terminate()
     break(c)    the server-side writes of connection c fail from now on
     drop(c)     the client side of c is closed: the server's reader sees the end of the
                 stream and shuts the end point down
     step(k)     (FineSteps) the goroutine that terminates object k - parked in the gate
                 service.remove.unlocked or signal.terminate.send, with LockSteps also INSIDE
                 RemoveHandler (gate handler.closeWith: it holds the end point's mutex and is
                 about to take the signal handler's) - goes on to the next gate
     go(k)       (FineSteps + LockSteps) the mailbox goroutine of k, parked inside addSignalUser
                 between MakeHandler and the append (gate signal.add.made), goes on

   With FineSteps the termination of an object removed through Remove or through a remote
   terminate advances one gate per command, so that faults, removals of other objects and
   messages are placed BETWEEN the notifications; terminations run by Service.Terminate are
   never gated.  "T" lines: one behaviour per (quiescent state, command) transition of the
   state graph, with the observation the harness must make after every command:

     st   m -> where the message is: 0 unsent, 1 consumer queue, 2 parked, 3 mailbox, 4 running, 5 done,
          6 refused                   an   m -> what its connection received: 0 nothing, 1 reply, 2 error
     tl   m -> termination messages received for registration m
     hn   c -> disconnection handlers of subscribers on c's server end point
     sn   k -> length of the subscriber table       rg   k -> in the object table
     tp   k -> where its terminator stands (0 none, 1 before the hook, 3 before a notification, 7 inside
          RemoveHandler before the closer, 6 done),
          td: notifications left, nx: registration told next
     tm   k -> calls of the implementor's hook      rm   k -> Service.Remove: 0 idle, 2 running, 3 nil, 4 error
     bx   k -> mails in the mailbox, pk: messages parked in front of it
     bs   k -> message the mailbox goroutine is running
     hr   c -> subscriber handlers released on c's end point so far (each exactly once)
     bp   k -> where its mailbox goroutine stands inside addSignalUser (0 not there, 1 before / inside
          MakeHandler, 2 handler made, append to come)
     lt   registrations accepted by an object that had already terminated (Dev_LateRegisterAccepted)
     sv   Service.Terminate: 0 idle, 2 running, 3 done   cr   the process died
     tb   the subscriber tables (registrations in table order)                                  *)
EXTENDS MCTermFault, Json, IOUtils

CONSTANT FineSteps
CONSTANT SampleMod        \* 1: everything; n > 1: the 1/n sample selected by the environment variable SEL
VARIABLES hist, settled
gvars2 == <<vars, hist, settled>>

ASSUME PrintT(<<"TAB", ToJson([tab |-> MsgTab, cap |-> BoxCap, objs |-> Cardinality(Objs), fine |-> FineSteps, locks |-> LockSteps])>>)

GInit == Init /\ hist = <<>> /\ settled = FALSE

Fine(k) == FineSteps /\ tby[k] \in {"api", "box"}

StageCode(x) == CASE x = "unsent" -> 0 [] x = "cq" -> 1 [] x = "parked" -> 2 [] x = "box" -> 3
                   [] x = "busy" -> 4 [] x = "done" -> 5 [] x = "refused" -> 6
AnsCode(x) == CASE x = "ok" -> 1 [] x = "err" -> 2 [] OTHER -> 0          \* lost = nothing received
TpcCode(x) == CASE x = "none" -> 0 [] x = "hook" -> 1 [] x = "snap" -> 2 [] x = "send" -> 3
                [] x = "rel" -> 4 [] x = "fin" -> 5 [] x = "done" -> 6 [] x = "relc" -> 7
BpcCode(x) == CASE x = "none" -> 0 [] x = "make" -> 1 [] x = "made" -> 2 [] x = "undo" -> 3
RmCode(x) == CASE x = "idle" -> 0 [] x = "wait" -> 1 [] x = "run" -> 2 [] x = "ok" -> 3 [] x = "err" -> 4
SvCode(x) == CASE x = "idle" -> 0 [] x = "wait" -> 1 [] x = "run" -> 2 [] x = "done" -> 3

Obs == [st |-> [m \in Msgs |-> StageCode(stage[m])],
        an |-> [m \in Msgs |-> AnsCode(ans[m])],
        tl |-> [m \in Msgs |-> IF m \in Regs THEN told[m] ELSE 0],
        hn |-> [c \in Conns |-> Cardinality(hnd[c])],
        sn |-> [k \in Objs |-> Len(sub[k])],
        rg |-> [k \in Objs |-> IF reg[k] THEN 1 ELSE 0],
        tp |-> [k \in Objs |-> TpcCode(tpc[k])],
        td |-> [k \in Objs |-> Len(ttodo[k])],
        nx |-> [k \in Objs |-> IF tpc[k] = "send" THEN Head(ttodo[k]) ELSE 0],
        tm |-> term,
        rm |-> [k \in Objs |-> RmCode(rm[k])],
        bx |-> [k \in Objs |-> Len(box[k])],
        pk |-> parkq,
        bs |-> [k \in Objs |-> IF busy[k] = NONE THEN 0 ELSE busy[k]],
        hr |-> rel,
        bp |-> [k \in Objs |-> BpcCode(bpc[k])],
        lt |-> Cardinality(latesub),
        sv |-> SvCode(svcpc),
        cr |-> IF crashed THEN 1 ELSE 0]

Cmd(o, a, c) == /\ hist' = Append(hist, [o |-> o, a |-> a, c |-> c, post |-> Obs, tb |-> sub])
                /\ settled' = FALSE

\* with both kinds of steps the registration waits in the gate signal.add.made as well
GateAdd == FineSteps /\ LockSteps

GInternal ==
  \/ Plain(Acquire) \/ Plain(SvcPick) \/ Plain(SvcDone)
  \/ \E c \in Conns : Plain(Route(c)) \/ \E m \in Regs : XCloser(c, m)
  \/ \E k \in Objs :
       \/ Plain(ExecFiller(k)) \/ Plain(ExecHello(k)) \/ Plain(ExecTerm(k))
       \/ XExecSub(k) \/ XSubCheck(k) \/ XSubMake(k) \/ XSubUndo(k) \/ XExecUnsub(k)
       \/ (~GateAdd /\ XSubAppend(k))
       \/ XTSnap(k) \/ XTRelease(k) \/ XTRelLock(k) \/ Plain(TFinish(k))
       \/ (~Fine(k) /\ (Plain(THook(k)) \/ Plain(TSend(k)) \/ XTRelCloser(k)))

Command ==
  \/ \E m \in Msgs : XSend(m) /\ Cmd("send", m, C(m))
  \/ \E k \in Objs :
       \/ (Plain(Fill(k)) /\ Cmd("fill", k, ""))
       \/ (Plain(Release(k)) /\ Cmd("release", k, ""))
       \/ (Plain(RemoveCall(k)) /\ Cmd("remove", k, ""))
       \/ (Fine(k) /\ (Plain(THook(k)) \/ Plain(TSend(k)) \/ XTRelCloser(k)) /\ Cmd("step", k, ""))
       \/ (GateAdd /\ XSubAppend(k) /\ Cmd("go", k, ""))
  \/ (Plain(SvcTermCall) /\ Cmd("svcterm", 0, ""))
  \/ \E c \in Conns : (Plain(Break(c)) /\ Cmd("break", 0, c)) \/ (XDrop(c) /\ Cmd("drop", 0, c))

\* the first record of a behaviour: the order of the registrations in place at the start
Start == /\ hist = <<>> /\ ~settled
         /\ hist' = <<[o |-> "init", a |-> 0, c |-> "", post |-> Obs, tb |-> sub]>>
         /\ settled' = TRUE
         /\ UNCHANGED vars

\* the sample: a hash of the COMMANDS of the behaviour - every outcome of a selected command sequence is
\* exported (where goroutines of the server race, a command sequence has several final observations: the
\* harness accepts each of them), whichever worker of TLC finds it
RECURSIVE SumH(_)
OpCode(o) == CASE o = "send" -> 1 [] o = "step" -> 2 [] o = "release" -> 3 [] o = "remove" -> 5 [] o = "fill" -> 7
               [] o = "break" -> 11 [] o = "drop" -> 13 [] o = "svcterm" -> 17 [] o = "go" -> 19 [] OTHER -> 0
ConnCode(c) == CASE c = "c1" -> 1 [] c = "c2" -> 2 [] c = "c3" -> 3 [] OTHER -> 0
SumH(n) == IF n = 0 THEN 0 ELSE (SumH(n - 1) * 3 + n * OpCode(hist'[n].o) + 7 * hist'[n].a + 5 * ConnCode(hist'[n].c)) % 100003
Hash == SumH(Len(hist'))
Selected == SampleMod = 1 \/ Hash % SampleMod = (CHOOSE n \in 0..999 : ToString(n) = IOEnv.SEL)
Settle == /\ ~settled /\ hist # <<>> /\ settled' = TRUE
          /\ hist' = [hist EXCEPT ![Len(hist)].post = Obs, ![Len(hist)].tb = sub]
          /\ Selected => PrintT(<<"T", ToJson(hist')>>)
          /\ UNCHANGED vars

GNext == IF hist = <<>> THEN Start
         ELSE IF ENABLED GInternal THEN (GInternal /\ UNCHANGED <<hist, settled>>)
         ELSE IF ~settled THEN Settle
         ELSE Command
GSpec == GInit /\ [][GNext]_gvars2
View == <<vars, settled, IF settled THEN <<>> ELSE hist>>

\* bound of the export: behaviours of at most MaxLen commands
CONSTANT MaxLen
Short == Len(hist) <= MaxLen
=============================================================================
