--------------------------- MODULE TraceDirectory ---------------------------
(* Linearizability of recorded concurrent histories of the real service
   directory against the sequential specification Directory.tla (C15, c).

   The harness (harness/cmd/registry, c15conc) drives one fresh
   directory.NewServer from several goroutines - remote clients (each its own
   session / connection), local goroutines calling the directory's
   bus.Namespace directly, and goroutines using Server.NewService /
   Service.Terminate - and logs, under one mutex, an "inv" record before and a
   "res" record after every call.  The trace is the concatenation of many
   histories, each introduced by a "reset" record and closed by an "events"
   record holding what a subscriber (one connection, one queue: emission
   order) received.

   For every pending operation TLC may place the linearization point (Lin)
   anywhere between its inv and its res; Lin applies the *sequential*
   specification's action and remembers the value it returned; res must find
   that value equal to the recorded one; "events" must find the
   specification's event log equal to the subscriber's.  No placement =>
   no behaviour consumes the whole trace => the POSTCONDITION fails.

   Composite local operations: newservice(n) = Register(n) ; Ready(id)  (two
   linearization points of one call: Server.NewService), terminate(id) =
   Unregister(id) with the outcome not reported to the caller.               *)
EXTENDS Directory, Json, IOUtils, TLCExt

\* the trace is parsed once, into a TLC register (a plain definition is re-evaluated at every use)
ASSUME TLCSet(2, ndJsonDeserialize(IOEnv.TRACE))
TraceLog == TLCGet(2)
ASSUME TLCSet(3, Len(TraceLog))
TraceLen == TLCGet(3)

VARIABLES l,      \* next record of the trace
          pend    \* client -> [st, op, res, tmp]
tvars == <<vars, l, pend>>

Clients == {"r0", "r1", "r2", "r3", "l0", "l1", "l2", "s0", "s1", "s2"}   \* the recorder's goroutine names
NoOp == [op |-> "", n |-> "", id |-> 0, kind |-> "", ep |-> ""]
Idle == [st |-> "idle", op |-> NoOp, res |-> R("", 0), tmp |-> 0]
ToSet(s) == {s[i] : i \in 1..Len(s)}
T == TraceLog[l]

TInit == Init /\ l = 1 /\ pend = [c \in Clients |-> Idle]

Reset == /\ l <= TraceLen /\ T.k = "reset"
         /\ \A c \in Clients : pend[c].st = "idle"
         /\ staging' = [i \in {} |-> [name |-> SD, ep |-> "e1"]]
         /\ services' = [i \in {1} |-> [name |-> SD, ep |-> "e1"]]
         /\ lastID' = 1
         /\ events' = <<Ev("added", 1, SD)>>
         /\ ret' = R("", 0)
         /\ life' = [i \in {1} |-> "ready"]
         /\ l' = l + 1 /\ UNCHANGED pend

Invoke == /\ l <= TraceLen /\ T.k = "inv"
          /\ pend[T.c].st = "idle"
          /\ pend' = [pend EXCEPT ![T.c] = [st |-> "pending", op |-> T.op, res |-> R("", 0), tmp |-> 0]]
          /\ l' = l + 1 /\ UNCHANGED vars

Apply(o) ==
  CASE o.op = "register"   -> Register(o.n, o.kind)
    [] o.op = "ready"      -> Ready(o.id)
    [] o.op = "unregister" -> Unregister(o.id)
    [] o.op = "terminate"  -> Unregister(o.id)
    [] o.op = "update"     -> Update(o.id, o.n, o.kind, o.ep)
    [] o.op = "lookup"     -> Lookup(o.n)
    [] o.op = "resolve"    -> Lookup(o.n)
    [] o.op = "list"       -> List
    [] o.op = "newservice" -> Register(o.n, "ok")

Lin(c) ==
  \/ /\ pend[c].st = "pending"
     /\ Apply(pend[c].op)
     /\ IF pend[c].op.op = "newservice" /\ ret'.e = ""
          THEN pend' = [pend EXCEPT ![c].st = "half", ![c].tmp = ret'.v]
          ELSE pend' = [pend EXCEPT ![c].st = "done", ![c].res = ret']
     /\ UNCHANGED l
  \/ /\ pend[c].st = "half"              \* second half of Server.NewService: Enable(id)
     /\ Ready(pend[c].tmp)
     /\ pend' = [pend EXCEPT ![c].st = "done",
                             ![c].res = IF ret'.e = "" THEN R("", pend[c].tmp) ELSE ret']
     /\ UNCHANGED l

(* What the caller can see of the outcome. *)
SameOutcome(o, spec, seen) ==
  CASE o.op = "terminate" -> TRUE                       \* Service.Terminate returns nothing about it
    [] o.op = "resolve"   -> (spec.e = "") = (seen.e = "") /\ spec.v = seen.v
    [] OTHER -> /\ (spec.e = "") = (seen.e = "")
                /\ spec.v = seen.v
                /\ spec.l = ToSet(seen.l)

Return == /\ l <= TraceLen /\ T.k = "res"
          /\ pend[T.c].st = "done"
          /\ SameOutcome(pend[T.c].op, pend[T.c].res, T.res)
          /\ pend' = [pend EXCEPT ![T.c] = Idle]
          /\ l' = l + 1 /\ UNCHANGED vars

\* quiescence: the subscriber's log is the specification's event log
Events == /\ l <= TraceLen /\ T.k = "events"
          /\ \A c \in Clients : pend[c].st = "idle"
          /\ SubSeq(events, 2, Len(events)) = T.log
          /\ l' = l + 1 /\ UNCHANGED <<vars, pend>>

TNext == Reset \/ Invoke \/ Return \/ Events \/ \E c \in Clients : Lin(c)
TSpec == TInit /\ [][TNext]_tvars

\* high-water mark of consumed records (-workers 1)
Track == TLCSet(1, IF TLCGet(1) < l THEN l ELSE TLCGet(1))
Accepted == /\ PrintT(<<"HWM", TLCGet(1), TraceLen>>)
            /\ TLCGet(1) = TraceLen + 1
ASSUME TLCSet(1, 0)
=============================================================================
