------------------------------ MODULE SessionList ------------------------------
(* bus/session/session.go l.110-262 (line numbers of the tree without the hook
   lines): the SERVICE LIST of a session (extension of C19; Session.tla covers
   Session.client = the connection pool, this module covers what Proxy() /
   Object() resolve a name or an identifier TO, and the goroutine that keeps
   that list current).

   A session keeps `serviceList` (a copy of the directory's list of services)
   under `serviceListMutex`.  NewAuthSession fetches it once and subscribes to
   the directory's serviceAdded / serviceRemoved signals; the goroutine
   `updateLoop` replaces the WHOLE list by a fresh `Directory.Services()`
   whenever one of the two signals arrives.  `Terminate` cancels the two
   subscriptions (guarded by `cancelMutex` and by `cancel = nil`: the cancel
   function closes a channel, a second run aborts the process) and closes
   every pooled connection.  A refresh that fails (the directory is gone)
   calls Terminate from the update loop and empties the list.

   State: {directory content, announced events in flight, the session's
   list, requests in flight} + the life cycle (creation, Terminate, loss of
   the directory connection).

   One action per critical section / linearization point:

     DirReg(n, e)      bus/directory/directory.go ServiceReady l.152-167 (services[id] = i;
                       SignalServiceAdded under the directory's mutex) - the registration
                       gets a fresh identifier (RegisterService l.108-129: lastID++)
     DirUnreg(n)       directory.go UnregisterService l.131-150 (delete; SignalServiceRemoved)
     DirGone           the session's connection to the directory is lost (peer / network)
     NewInit           session.go NewAuthSession l.166-209 - as the property needs it: the
                       list is fetched and the subscriptions are active in one step
        NewList / NewSubscribe   what the code does (Dev_ListBeforeSubscribe): l.190 Services(),
                       THEN l.195-202 the two subscriptions: a change in between is never announced
     LoopTake(ch)      updateLoop l.247-261: a signal is received from `removed` / `added`
                       (two channels, `select`: either one when both are ready)
     DirServices       updateServiceList l.217 -> directory.go Services() l.97-106 under the
                       directory's mutex: the snapshot
     LoopCallFail      l.217-218: the call fails (connection lost)
     LoopStore         l.225-227 under serviceListMutex: the list is replaced as a whole
     LoopFailTerminate l.219-223: the failed refresh calls Terminate (actor "L") ...
     LoopStoreNil      ... and l.225-227 stores the nil list
     LoopExit(ch)      l.250-253 / l.255-258: a subscription channel is closed and drained
     ReqFind(g, n)     findServiceName l.110-119 under serviceListMutex  (Proxy, l.133-139)
     ReqFindId(g, k)   findServiceID l.121-130 under serviceListMutex    (Object, l.144-154)
     ReqResolve(g)     newService / newObject l.32-52: Session.client(info) (the pool: Session.tla)
                       and the meta object call, with the info the request FOUND
     TermCall(t)       a goroutine calls Terminate l.231
     TermLock(t)       l.233-234 cancelMutex.Lock(); cancel != nil ?   (no: unlock, go on to the pool)
     TermCancelR(t)    l.235 -> l.204 cancelRemoved(): unsubscribe + close(abort): a second run
                       of it is `close of closed channel` = the process dies
     TermCancelA(t)    l.205 cancelAdded(); l.236 cancel = nil; l.238 Unlock
     TermClosePool(t)  l.239-243 under pollMutex: every pooled end point is closed
     Closer(e)         session.go l.85-91: the closer of a closed pooled connection deletes its
                       entry (asynchronous: `go handler.closeWith`)

   Signals in flight: the directory writes a signal to the subscriber's
   connection under its own mutex; on the session's side it sits in the
   subscription's queue (client.go Subscribe: 100 slots, dispatch DROPS what
   does not fit: endpoint.go l.340-352) until the update loop takes it.  qA /
   qR count the signals waiting per channel (capacity QCap, overflow dropped).
   Cancelling a subscription may drop what waits (client.go l.163-179: `select`
   between the queue and `abort`); a connection that closes delivers what is
   queued and then closes the channel.

   Deviations (each FALSE in the property configuration, each breaks the
   invariant named - vacuity guards; the first one is the code AS FOUND):
     Dev_ListBeforeSubscribe        QuiescentListCurrent (a service announced while the session
                                    is being created is never listed)
     Dev_AddedIgnored               QuiescentListCurrent (serviceAdded does not refresh)
     Dev_RemovedIgnored             QuiescentListCurrent (serviceRemoved does not refresh)
     Dev_RefreshThenDrain           QuiescentListCurrent (signals that arrived during the refresh
                                    are discarded after it: "debounce")
     Dev_StoreNotAtomic             ListIsSnapshot (the list is updated entry by entry, the lock
                                    released in between: a half-updated list is observable)
     Dev_CancelNotCleared           CancelAtMostOnce / ProcessAlive (cancel is not set to nil)
     Dev_CancelCheckOutsideLock     CancelAtMostOnce / ProcessAlive (no cancelMutex)
     Dev_FailedRefreshKeepsSession  FailedRefreshClosesSession (a failed refresh is only logged)
     Dev_TerminateLeavesDirectory   TerminatedIsStopped (Terminate neither cancels the
                                    subscriptions nor closes the directory connection)
     Dev_ResolveByNameAgain         ResolvedWhatWasFound (the request looks the name up a second
                                    time after connecting: identifier and end point of two lists) *)
EXTENDS Naturals, FiniteSets, TLC

CONSTANTS Names,        \* service names
          Eps,          \* end points that host services ("E", "F"); "D" is the directory
          MaxReg,       \* registrations per behaviour (identifiers 1..MaxReg, never reused)
          Gor,          \* requesting goroutines (one request each)
          Terms,        \* goroutines that call Terminate (once each)
          QCap,         \* capacity of a subscription queue
          WithGone,     \* the connection to the directory may be lost
          WithIdReq,    \* Object(ref) requests (lookup by identifier)
          Dev_ListBeforeSubscribe, Dev_AddedIgnored, Dev_RemovedIgnored, Dev_RefreshThenDrain,
          Dev_StoreNotAtomic, Dev_CancelNotCleared, Dev_CancelCheckOutsideLock,
          Dev_FailedRefreshKeepsSession, Dev_TerminateLeavesDirectory, Dev_ResolveByNameAgain

ASSUME "L" \notin Terms /\ "D" \notin Eps
Actors == Terms \cup {"L"}          \* "L": the update loop calling Terminate after a failed refresh
Ids == 0..MaxReg                    \* 0: none
Regs == 1..MaxReg
Addrs == Eps \cup {"D"}
NoList == [n \in Names |-> 0]
Min(a, b) == IF a < b THEN a ELSE b

VARIABLES
  dir,        \* [Names -> Ids]   the directory: name -> registration
  nreg,       \* registrations so far
  regName,    \* [Regs -> Names \cup {""}]
  regEp,      \* [Regs -> Eps \cup {""}]   where the registration is hosted
  snaps,      \* every value `dir` has had: what a Services() call can have returned
  init,       \* "none" | "listed" | "ready"   progress of NewAuthSession
  list,       \* [Names -> Ids]   Session.serviceList
  chR, chA,   \* the subscription channel is open
  qR, qA,     \* signals waiting in it
  loop,       \* "off" | "wait" | "taken" | "got" | "failed" | "term" | "fstore" | "exited"
  snap,       \* the list the pending refresh has fetched
  cmOwner,    \* holder of cancelMutex ("" : free)
  cancelSet,  \* s.cancel != nil
  tpc,        \* [Actors -> "idle" | "lock" | "cancelR" | "cancelA" | "pool" | "done"]
  ncancel,    \* runs of the cancel function
  crashed,    \* close of closed channel
  pool,       \* addresses with an entry in Session.poll
  live,       \* ... whose connection is open
  rpc,        \* [Gor -> "idle" | "found" | "done"]
  rname,      \* [Gor -> Names \cup {""}]   name asked for ("" : asked by identifier)
  rfound,     \* [Gor -> Ids]   registration the list named
  rres,       \* [Gor -> 0 | 1 ok | 2 not found | 3 error]
  rreached,   \* [Gor -> Ids]   registration the proxy leads to
  nstore, nexit, failedRefresh

vars == <<dir, nreg, regName, regEp, snaps, init, list, chR, chA, qR, qA, loop, snap, cmOwner, cancelSet,
          tpc, ncancel, crashed, pool, live, rpc, rname, rfound, rres, rreached, nstore, nexit, failedRefresh>>

dirvars == <<dir, nreg, regName, regEp, snaps>>
subvars == <<chR, chA, qR, qA>>
termvars == <<cmOwner, cancelSet, tpc, ncancel, crashed>>
reqvars == <<rpc, rname, rfound, rres, rreached>>
cntvars == <<nstore, nexit, failedRefresh>>

DirUp == "D" \in live
Alive == ~crashed

Init == /\ dir = NoList /\ nreg = 0
        /\ regName = [k \in Regs |-> ""] /\ regEp = [k \in Regs |-> ""]
        /\ snaps = {NoList}
        /\ init = "none" /\ list = NoList
        /\ chR = FALSE /\ chA = FALSE /\ qR = 0 /\ qA = 0
        /\ loop = "off" /\ snap = NoList
        /\ cmOwner = "" /\ cancelSet = FALSE
        /\ tpc = [t \in Actors |-> "idle"] /\ ncancel = 0 /\ crashed = FALSE
        /\ pool = {} /\ live = {}
        /\ rpc = [g \in Gor |-> "idle"] /\ rname = [g \in Gor |-> ""] /\ rfound = [g \in Gor |-> 0]
        /\ rres = [g \in Gor |-> 0] /\ rreached = [g \in Gor |-> 0]
        /\ nstore = 0 /\ nexit = 0 /\ failedRefresh = "no"

(* ------------------------------ the directory ------------------------------ *)
Push(q) == IF q < QCap THEN q + 1 ELSE q          \* a full queue drops the signal

DirReg(n, e) ==
  /\ Alive /\ dir[n] = 0 /\ nreg < MaxReg
  /\ nreg' = nreg + 1
  /\ dir' = [dir EXCEPT ![n] = nreg + 1]
  /\ regName' = [regName EXCEPT ![nreg + 1] = n]
  /\ regEp' = [regEp EXCEPT ![nreg + 1] = e]
  /\ snaps' = snaps \cup {dir'}
  /\ qA' = IF chA /\ DirUp THEN Push(qA) ELSE qA
  /\ UNCHANGED <<init, list, chR, chA, qR, loop, snap, termvars, pool, live, reqvars, cntvars>>

DirUnreg(n) ==
  /\ Alive /\ dir[n] # 0
  /\ dir' = [dir EXCEPT ![n] = 0]
  /\ snaps' = snaps \cup {dir'}
  /\ qR' = IF chR /\ DirUp THEN Push(qR) ELSE qR
  /\ UNCHANGED <<nreg, regName, regEp, init, list, chR, chA, qA, loop, snap, termvars, pool, live, reqvars, cntvars>>

\* the connection closes: what is queued is still delivered, then the channels close
DirGone ==
  /\ Alive /\ WithGone /\ init = "ready" /\ DirUp
  /\ live' = live \ {"D"}
  /\ chR' = FALSE /\ chA' = FALSE
  /\ UNCHANGED <<dirvars, init, list, qR, qA, loop, snap, termvars, pool, reqvars, cntvars>>

(* ---------------------------- creation of the session ---------------------------- *)
NewInit ==
  /\ ~Dev_ListBeforeSubscribe /\ init = "none"
  /\ init' = "ready" /\ list' = dir
  /\ chR' = TRUE /\ chA' = TRUE /\ cancelSet' = TRUE /\ loop' = "wait"
  /\ pool' = {"D"} /\ live' = {"D"}
  /\ UNCHANGED <<dirvars, qR, qA, snap, cmOwner, tpc, ncancel, crashed, reqvars, cntvars>>

NewList ==
  /\ Dev_ListBeforeSubscribe /\ init = "none"
  /\ init' = "listed" /\ list' = dir
  /\ pool' = {"D"} /\ live' = {"D"}
  /\ UNCHANGED <<dirvars, subvars, loop, snap, termvars, reqvars, cntvars>>

NewSubscribe ==
  /\ Dev_ListBeforeSubscribe /\ init = "listed"
  /\ init' = "ready"
  /\ chR' = TRUE /\ chA' = TRUE /\ cancelSet' = TRUE /\ loop' = "wait"
  /\ UNCHANGED <<dirvars, list, qR, qA, snap, cmOwner, tpc, ncancel, crashed, pool, live, reqvars, cntvars>>

(* ------------------------------ the update loop ------------------------------ *)
Ignored(ch) == (ch = "A" /\ Dev_AddedIgnored) \/ (ch = "R" /\ Dev_RemovedIgnored)

LoopTake(ch) ==
  /\ Alive /\ loop = "wait"
  /\ \/ ch = "R" /\ qR > 0 /\ qR' = qR - 1 /\ qA' = qA
     \/ ch = "A" /\ qA > 0 /\ qA' = qA - 1 /\ qR' = qR
  /\ loop' = IF Ignored(ch) THEN "wait" ELSE "taken"
  /\ UNCHANGED <<dirvars, init, list, chR, chA, snap, termvars, pool, live, reqvars, cntvars>>

DirServices ==
  /\ Alive /\ loop = "taken" /\ DirUp
  /\ snap' = dir /\ loop' = "got"
  /\ UNCHANGED <<dirvars, init, list, subvars, termvars, pool, live, reqvars, cntvars>>

LoopCallFail ==
  /\ Alive /\ loop = "taken" /\ ~DirUp
  /\ loop' = "failed"
  /\ UNCHANGED <<dirvars, init, list, subvars, snap, termvars, pool, live, reqvars, cntvars>>

Drained == IF Dev_RefreshThenDrain THEN qR' = 0 /\ qA' = 0 ELSE UNCHANGED <<qR, qA>>

LoopStore ==
  /\ Alive /\ loop = "got"
  /\ IF Dev_StoreNotAtomic /\ list # snap
       THEN \E n \in Names : /\ list[n] # snap[n]
                             /\ list' = [list EXCEPT ![n] = snap[n]]
                             /\ loop' = IF list' = snap THEN "wait" ELSE "got"
                             /\ nstore' = IF list' = snap THEN nstore + 1 ELSE nstore
                             /\ UNCHANGED <<qR, qA>>
       ELSE list' = snap /\ loop' = "wait" /\ nstore' = nstore + 1 /\ Drained
  /\ UNCHANGED <<dirvars, init, chR, chA, snap, termvars, pool, live, reqvars, nexit, failedRefresh>>

LoopFailTerminate ==
  /\ Alive /\ loop = "failed"
  /\ IF Dev_FailedRefreshKeepsSession
       THEN loop' = "wait" /\ failedRefresh' = "kept" /\ UNCHANGED tpc
       ELSE loop' = "term" /\ failedRefresh' = "pending" /\ tpc' = [tpc EXCEPT !["L"] = "lock"]
  /\ UNCHANGED <<dirvars, init, list, subvars, snap, cmOwner, cancelSet, ncancel, crashed, pool, live, reqvars, nstore, nexit>>

LoopTermReturned ==
  /\ Alive /\ loop = "term" /\ tpc["L"] = "done"
  /\ loop' = "fstore" /\ tpc' = [tpc EXCEPT !["L"] = "idle"]
  /\ UNCHANGED <<dirvars, init, list, subvars, snap, cmOwner, cancelSet, ncancel, crashed, pool, live, reqvars, cntvars>>

LoopStoreNil ==
  /\ Alive /\ loop = "fstore"
  /\ list' = NoList /\ loop' = "wait" /\ nstore' = nstore + 1
  /\ UNCHANGED <<dirvars, init, subvars, snap, termvars, pool, live, reqvars, nexit, failedRefresh>>

LoopExit(ch) ==
  /\ Alive /\ loop = "wait"
  /\ \/ ch = "R" /\ ~chR /\ qR = 0
     \/ ch = "A" /\ ~chA /\ qA = 0
  /\ loop' = "exited" /\ nexit' = nexit + 1
  /\ UNCHANGED <<dirvars, init, list, subvars, snap, termvars, pool, live, reqvars, nstore, failedRefresh>>

(* ------------------------------ requests ------------------------------ *)
ReqFind(g, n) ==
  /\ Alive /\ init = "ready" /\ rpc[g] = "idle"
  /\ rname' = [rname EXCEPT ![g] = n]
  /\ rfound' = [rfound EXCEPT ![g] = list[n]]
  /\ IF list[n] = 0 THEN rpc' = [rpc EXCEPT ![g] = "done"] /\ rres' = [rres EXCEPT ![g] = 2]
                    ELSE rpc' = [rpc EXCEPT ![g] = "found"] /\ rres' = rres
  /\ UNCHANGED <<dirvars, init, list, subvars, loop, snap, termvars, pool, live, rreached, cntvars>>

Listed(k) == \E n \in Names : list[n] = k
ReqFindId(g, k) ==
  /\ Alive /\ WithIdReq /\ init = "ready" /\ rpc[g] = "idle" /\ k <= nreg
  /\ rname' = [rname EXCEPT ![g] = ""]
  /\ rfound' = [rfound EXCEPT ![g] = IF Listed(k) THEN k ELSE 0]
  /\ IF ~Listed(k) THEN rpc' = [rpc EXCEPT ![g] = "done"] /\ rres' = [rres EXCEPT ![g] = 2]
                   ELSE rpc' = [rpc EXCEPT ![g] = "found"] /\ rres' = rres
  /\ UNCHANGED <<dirvars, init, list, subvars, loop, snap, termvars, pool, live, rreached, cntvars>>

\* the registration the proxy is built for (Dev: the name is looked up again after the connection exists)
Target(g) == IF Dev_ResolveByNameAgain /\ rname[g] # "" /\ list[rname[g]] # 0 THEN list[rname[g]] ELSE rfound[g]
ReqResolve(g) ==
  /\ Alive /\ rpc[g] = "found"
  /\ LET e == regEp[rfound[g]] IN
       IF e \in pool
         THEN /\ UNCHANGED <<pool, live>>
              /\ IF e \in live THEN rres' = [rres EXCEPT ![g] = 1] /\ rreached' = [rreached EXCEPT ![g] = Target(g)]
                               ELSE rres' = [rres EXCEPT ![g] = 3] /\ rreached' = rreached   \* a pooled client that was closed
         ELSE /\ pool' = pool \cup {e} /\ live' = live \cup {e}
              /\ rres' = [rres EXCEPT ![g] = 1] /\ rreached' = [rreached EXCEPT ![g] = Target(g)]
  /\ rpc' = [rpc EXCEPT ![g] = "done"]
  /\ UNCHANGED <<dirvars, init, list, subvars, loop, snap, termvars, rname, rfound, cntvars>>

(* ------------------------------ Terminate ------------------------------ *)
TermCall(t) ==
  /\ Alive /\ t \in Terms /\ init = "ready" /\ tpc[t] = "idle"
  /\ tpc' = [tpc EXCEPT ![t] = "lock"]
  /\ UNCHANGED <<dirvars, init, list, subvars, loop, snap, cmOwner, cancelSet, ncancel, crashed, pool, live, reqvars, cntvars>>

TermLock(t) ==
  /\ Alive /\ tpc[t] = "lock"
  /\ Dev_CancelCheckOutsideLock \/ cmOwner = ""
  /\ IF cancelSet /\ ~Dev_TerminateLeavesDirectory
       THEN /\ tpc' = [tpc EXCEPT ![t] = "cancelR"]
            /\ cmOwner' = IF Dev_CancelCheckOutsideLock THEN cmOwner ELSE t
       ELSE tpc' = [tpc EXCEPT ![t] = "pool"] /\ cmOwner' = cmOwner
  /\ UNCHANGED <<dirvars, init, list, subvars, loop, snap, cancelSet, ncancel, crashed, pool, live, reqvars, cntvars>>

TermCancelR(t) ==
  /\ Alive /\ tpc[t] = "cancelR"
  /\ ncancel' = ncancel + 1
  /\ IF ncancel >= 1
       THEN crashed' = TRUE /\ UNCHANGED <<chR, qR, tpc>>       \* close(abort) of a closed channel
       ELSE /\ crashed' = crashed /\ chR' = FALSE
            /\ \E k \in 0..qR : qR' = k                          \* what waits may be dropped
            /\ tpc' = [tpc EXCEPT ![t] = "cancelA"]
  /\ UNCHANGED <<dirvars, init, list, chA, qA, loop, snap, cmOwner, cancelSet, pool, live, reqvars, cntvars>>

TermCancelA(t) ==
  /\ Alive /\ tpc[t] = "cancelA"
  /\ chA' = FALSE /\ \E k \in 0..qA : qA' = k
  /\ cancelSet' = IF Dev_CancelNotCleared THEN cancelSet ELSE FALSE
  /\ cmOwner' = IF cmOwner = t THEN "" ELSE cmOwner
  /\ tpc' = [tpc EXCEPT ![t] = "pool"]
  /\ UNCHANGED <<dirvars, init, list, chR, qR, loop, snap, ncancel, crashed, pool, live, reqvars, cntvars>>

TermClosePool(t) ==
  /\ Alive /\ tpc[t] = "pool"
  /\ IF Dev_TerminateLeavesDirectory
       THEN live' = live \cap {"D"} /\ UNCHANGED <<chR, chA>>
       ELSE live' = {} /\ chR' = FALSE /\ chA' = FALSE
  /\ tpc' = [tpc EXCEPT ![t] = "done"]
  /\ failedRefresh' = IF t = "L" THEN "closed" ELSE failedRefresh
  /\ UNCHANGED <<dirvars, init, list, qR, qA, loop, snap, cmOwner, cancelSet, ncancel, crashed, pool, reqvars, nstore, nexit>>

Closer(e) ==
  /\ Alive /\ e \in pool \ live
  /\ pool' = pool \ {e}
  /\ UNCHANGED <<dirvars, init, list, subvars, loop, snap, termvars, live, reqvars, cntvars>>

(* ------------------------------ next-state ------------------------------ *)
Env == \/ \E n \in Names, e \in Eps : DirReg(n, e)
       \/ \E n \in Names : DirUnreg(n)
       \/ DirGone
       \/ \E t \in Terms : TermCall(t)
       \/ \E g \in Gor : (\E n \in Names : ReqFind(g, n)) \/ (\E k \in Regs : ReqFindId(g, k))

LoopStep == \/ \E ch \in {"R", "A"} : LoopTake(ch) \/ LoopExit(ch)
            \/ DirServices \/ LoopCallFail \/ LoopStore
            \/ LoopFailTerminate \/ LoopTermReturned \/ LoopStoreNil
TermStep == \E t \in Actors : TermLock(t) \/ TermCancelR(t) \/ TermCancelA(t) \/ TermClosePool(t)
ReqStep == \E g \in Gor : ReqResolve(g)
NewStep == NewInit \/ NewList \/ NewSubscribe
CloserStep == \E e \in Addrs : Closer(e)

Sys == NewStep \/ LoopStep \/ TermStep \/ ReqStep \/ CloserStep
Next == Env \/ Sys
Spec == Init /\ [][Next]_vars
FairSpec == Spec /\ WF_vars(NewStep) /\ WF_vars(LoopStep) /\ WF_vars(ReqStep) /\ WF_vars(CloserStep)
                 /\ \A t \in Actors : WF_vars(TermLock(t) \/ TermCancelR(t) \/ TermCancelA(t) \/ TermClosePool(t))

(* ------------------------------ properties ------------------------------ *)
TypeOK ==
  /\ dir \in [Names -> Ids] /\ nreg \in Ids /\ list \in [Names -> Ids] /\ snap \in [Names -> Ids]
  /\ init \in {"none", "listed", "ready"}
  /\ chR \in BOOLEAN /\ chA \in BOOLEAN /\ qR \in 0..QCap /\ qA \in 0..QCap
  /\ loop \in {"off", "wait", "taken", "got", "failed", "term", "fstore", "exited"}
  /\ cmOwner \in Actors \cup {""} /\ cancelSet \in BOOLEAN
  /\ tpc \in [Actors -> {"idle", "lock", "cancelR", "cancelA", "pool", "done"}]
  /\ pool \subseteq Addrs /\ live \subseteq pool
  /\ rpc \in [Gor -> {"idle", "found", "done"}] /\ rres \in [Gor -> 0..3]
  /\ rfound \in [Gor -> Ids] /\ rreached \in [Gor -> Ids]

ProcessAlive == ~crashed
CancelAtMostOnce == ncancel <= 1

\* never a half-updated list: what requests read is a list the directory has had (or the nil list)
ListIsSnapshot == list \in snaps

\* nothing in flight, session in service: the list IS the directory's
TermIdle == \A t \in Actors : tpc[t] = "idle"
Quiescent == /\ init = "ready" /\ loop = "wait" /\ qR = 0 /\ qA = 0
             /\ DirUp /\ chR /\ chA /\ TermIdle /\ failedRefresh = "no"
QuiescentListCurrent == Quiescent => list = dir

\* a request resolves the registration the list named (identifier and end point of ONE entry),
\* reports "not found" only for what the list does not hold, an error only on a closed connection
ResolvedWhatWasFound ==
  \A g \in Gor : rpc[g] = "done" =>
     /\ rres[g] = 1 => rreached[g] = rfound[g] /\ rfound[g] # 0
     /\ rres[g] = 2 => rfound[g] = 0
     /\ rres[g] # 0
     /\ rfound[g] # 0 /\ rname[g] # "" => regName[rfound[g]] = rname[g]

\* a failed refresh is handled by closing every connection of the session ("closed": Terminate's
\* sweep of the pool ran on behalf of the update loop; requests that come later may dial again)
FailedRefreshClosesSession == loop \in {"wait", "exited"} => failedRefresh \in {"no", "closed"}

\* Terminate has returned (and nothing else is under way): subscriptions released once, loop stopped
\* or about to notice (channels closed), directory connection closed
TerminatedIsStopped ==
  (\E t \in Terms : tpc[t] = "done") /\ (\A t \in Actors : tpc[t] \in {"idle", "done"})
     => /\ ~chR /\ ~chA /\ ~DirUp
        /\ ncancel <= 1
LoopStopsOnce == nexit <= 1

\* liveness (FairSpec)
AnnouncedIsListed == \A n \in Names : \A k \in Regs :
   (dir[n] = k /\ init = "ready") ~> (list[n] = k \/ dir[n] # k \/ ~DirUp \/ ~TermIdle \/ failedRefresh # "no" \/ crashed)
RemovedIsForgotten == \A n \in Names :
   (dir[n] = 0 /\ init = "ready") ~> (list[n] = 0 \/ dir[n] # 0 \/ ~DirUp \/ ~TermIdle \/ failedRefresh # "no" \/ crashed)
RequestsReturn == \A g \in Gor : (rpc[g] = "found") ~> (rpc[g] = "done" \/ crashed)
TerminateReturns == \A t \in Terms : (tpc[t] = "lock") ~> (tpc[t] = "done" \/ crashed)
LoopStops == (\E t \in Terms : tpc[t] = "done") ~> (loop = "exited" \/ crashed)
=============================================================================
