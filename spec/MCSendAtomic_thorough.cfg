SPECIFICATION Spec
CONSTANTS
  Senders = {1, 2, 3}
  PerSender = 4
  WritesPerSend = 1
INVARIANTS Intact ExactlyOnce PerSenderFIFO Complete
CHECK_DEADLOCK FALSE
