SPECIFICATION Spec
CONSTANTS
  Universe = "quick"
  MapOrder = {}
  LastChanceAny = {}
  WalkSorted = TRUE
  AssumeUserRange = FALSE
  QueryTypes = {"full"}
INVARIANTS FullKeepsActions
CHECK_DEADLOCK FALSE
