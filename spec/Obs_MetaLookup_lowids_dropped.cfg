SPECIFICATION Spec
CONSTANTS
  Universe = "quick"
  MapOrder = {}
  LastChanceAny = {}
  WalkSorted = TRUE
  AssumeUserRange = FALSE
INVARIANTS FullKeepsActions
CHECK_DEADLOCK FALSE
