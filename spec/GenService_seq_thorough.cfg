SPECIFICATION GSpec
CONSTANTS
  MaxInst = 3
  MaxExec = 1
  MaxEmit = 1
  Subs = {}
  SampleMod = 1
  Tag = "S"
  MaxLen = 4
  Dev_BoxKeptAfterRemove = FALSE
  Dev_IdZeroAfterMainRemoved = FALSE
  Dev_TerminateKeepsObjects = FALSE
  Dev_FailedAddLeavesEntry = FALSE
  ClientSide = FALSE
  Dev_ClientRemoveKeepsEntry = FALSE
  Dev_ClientLateCallDropped = FALSE
CONSTRAINT Bounded
CONSTRAINT Short
INVARIANTS UniqueLiveIds TerminateHookExactlyOnce SubscribersTold NoCrash
CHECK_DEADLOCK FALSE
