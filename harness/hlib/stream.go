package hlib

import (
	"context"
	"errors"
	"fmt"
	"io"
	"sync"
	"time"
)

// MemStream is a harness-owned net.Stream: the harness plays the peer.  It
// decides which bytes arrive (Feed), when the stream ends (FeedEOF) or fails
// (Fail), sees every Write call of the code under test, and can tell when the
// reader of the stream is idle (blocked in Read with nothing buffered), i.e.
// when everything fed so far has been fully processed.
type MemStream struct {
	mu       sync.Mutex
	cond     *sync.Cond
	in       []byte
	eof      bool  // no more data after `in`
	failErr  error // reads and writes fail with it
	closed   bool  // Close called by the code under test
	blocked  bool  // a Read call is waiting for data
	gone     bool  // a Read call returned an error: the reader is finished
	maxChunk int   // >0: serve at most that many bytes per Read
	Writes   [][]byte
	WriteErr func(n int, p []byte) (int, error) // optional scripted write behaviour
	OnWrite  func(p []byte)                     // called after a successful write (outside the lock)
	Gate     func(p []byte)                     // called first by every Write, outside the lock: may block
	Name     string
	closeN   int
	// CloseErr, if set, is what Close returns - after closing all the same (a transport whose Close
	// reports a failure, e.g. a TLS connection that cannot send its close alert)
	CloseErr error
	// CloseGate, if set, is called at the entry of Close, before the stream is marked closed: it may
	// block, which holds the code under test between its decision to shut down and the transport's Close
	CloseGate func()
	stalled   bool // the peer does not drain: Write blocks until SetStall(false), Close or Fail
	wblocked  int  // writers parked by the stall
}

// NewMemStream returns an open stream.
func NewMemStream(name string) *MemStream {
	s := &MemStream{Name: name}
	s.cond = sync.NewCond(&s.mu)
	return s
}

// ErrClosed is what Read/Write return after Close.
var ErrClosed = errors.New("use of closed stream")

func (s *MemStream) Read(p []byte) (int, error) {
	s.mu.Lock()
	defer s.mu.Unlock()
	for len(s.in) == 0 && !s.eof && s.failErr == nil && !s.closed {
		s.blocked = true
		s.cond.Broadcast()
		s.cond.Wait()
	}
	s.blocked = false
	if s.closed {
		s.gone = true
		s.cond.Broadcast()
		return 0, ErrClosed
	}
	if s.failErr != nil {
		s.gone = true
		s.cond.Broadcast()
		return 0, s.failErr
	}
	if len(s.in) == 0 { // eof
		s.gone = true
		s.cond.Broadcast()
		return 0, io.EOF
	}
	n := len(p)
	if n > len(s.in) {
		n = len(s.in)
	}
	if s.maxChunk > 0 && n > s.maxChunk {
		n = s.maxChunk
	}
	copy(p, s.in[:n])
	s.in = s.in[n:]
	s.cond.Broadcast()
	return n, nil
}

func (s *MemStream) Write(p []byte) (int, error) {
	if g := s.Gate; g != nil {
		g(p)
	}
	s.mu.Lock()
	for s.stalled && !s.closed && s.failErr == nil {
		s.wblocked++
		s.cond.Broadcast()
		s.cond.Wait()
		s.wblocked--
	}
	if s.closed {
		s.mu.Unlock()
		return 0, ErrClosed
	}
	if s.failErr != nil {
		e := s.failErr
		s.mu.Unlock()
		return 0, e
	}
	if s.WriteErr != nil {
		n, err := s.WriteErr(len(s.Writes), p)
		if err != nil {
			if n > 0 {
				s.Writes = append(s.Writes, append([]byte{}, p[:n]...))
			}
			s.mu.Unlock()
			return n, err
		}
	}
	s.Writes = append(s.Writes, append([]byte{}, p...))
	cb := s.OnWrite
	s.cond.Broadcast()
	s.mu.Unlock()
	if cb != nil {
		cb(p)
	}
	return len(p), nil
}

// Close is called by the code under test.
func (s *MemStream) Close() error {
	if g := s.CloseGate; g != nil {
		g()
	}
	s.mu.Lock()
	s.closed = true
	s.closeN++
	s.cond.Broadcast()
	s.mu.Unlock()
	return s.CloseErr
}

func (s *MemStream) String() string { return "mem://" + s.Name }

// Context implements net.Stream.
func (s *MemStream) Context() context.Context { return context.TODO() }

// Feed makes bytes available to the reader.
func (s *MemStream) Feed(b []byte) {
	s.mu.Lock()
	s.in = append(s.in, b...)
	s.cond.Broadcast()
	s.mu.Unlock()
}

// FeedEOF ends the incoming byte stream after what was fed.
func (s *MemStream) FeedEOF() {
	s.mu.Lock()
	s.eof = true
	s.cond.Broadcast()
	s.mu.Unlock()
}

// Fail makes every pending and later Read and Write fail with err.
func (s *MemStream) Fail(err error) {
	s.mu.Lock()
	s.failErr = err
	s.cond.Broadcast()
	s.mu.Unlock()
}

// SetStall makes the peer stop (true) or resume (false) draining the stream: while it is stalled a
// Write blocks, as on a synchronous pipe or a full socket buffer, until the peer resumes or the stream is
// closed or fails.
func (s *MemStream) SetStall(b bool) {
	s.mu.Lock()
	s.stalled = b
	s.cond.Broadcast()
	s.mu.Unlock()
}

// BlockedWriters returns the number of Write calls parked by the stall.
func (s *MemStream) BlockedWriters() int {
	s.mu.Lock()
	defer s.mu.Unlock()
	return s.wblocked
}

// Idle reports if the reader waits in Read with nothing buffered: everything fed has been consumed.
func (s *MemStream) Idle() bool {
	s.mu.Lock()
	defer s.mu.Unlock()
	return s.blocked && len(s.in) == 0
}

// Gone reports if a Read call has returned an error (the reader is finished).
func (s *MemStream) Gone() bool {
	s.mu.Lock()
	defer s.mu.Unlock()
	return s.gone
}

// SetMaxChunk bounds the bytes served per Read call.
func (s *MemStream) SetMaxChunk(n int) {
	s.mu.Lock()
	s.maxChunk = n
	s.mu.Unlock()
}

// Closed reports if the code under test closed the stream, and how often.
func (s *MemStream) Closed() (bool, int) {
	s.mu.Lock()
	defer s.mu.Unlock()
	return s.closed, s.closeN
}

// NumWrites returns the number of write calls so far.
func (s *MemStream) NumWrites() int {
	s.mu.Lock()
	defer s.mu.Unlock()
	return len(s.Writes)
}

// WriteAt returns a copy of the i-th write.
func (s *MemStream) WriteAt(i int) []byte {
	s.mu.Lock()
	defer s.mu.Unlock()
	return append([]byte{}, s.Writes[i]...)
}

// WaitIdle blocks until everything fed has been consumed and the reader is
// blocked in Read again (or is finished).  False on timeout.
func (s *MemStream) WaitIdle(d time.Duration) bool {
	return s.waitFor(d, func() bool { return s.gone || (len(s.in) == 0 && s.blocked) })
}

// WaitGone blocks until a Read call has returned an error.
func (s *MemStream) WaitGone(d time.Duration) bool {
	return s.waitFor(d, func() bool { return s.gone })
}

// WaitWrites blocks until at least n write calls happened.
func (s *MemStream) WaitWrites(n int, d time.Duration) bool {
	return s.waitFor(d, func() bool { return len(s.Writes) >= n })
}

func (s *MemStream) waitFor(d time.Duration, ok func() bool) bool {
	deadline := time.Now().Add(d)
	timer := time.AfterFunc(d, func() {
		s.mu.Lock()
		s.cond.Broadcast()
		s.mu.Unlock()
	})
	defer timer.Stop()
	s.mu.Lock()
	defer s.mu.Unlock()
	for !ok() {
		if time.Now().After(deadline) {
			return false
		}
		s.cond.Wait()
	}
	return true
}

// Desc describes the state for diagnostics.
func (s *MemStream) Desc() string {
	s.mu.Lock()
	defer s.mu.Unlock()
	return fmt.Sprintf("in=%d eof=%v closed=%v blocked=%v gone=%v writes=%d", len(s.in), s.eof, s.closed, s.blocked, s.gone, len(s.Writes))
}
