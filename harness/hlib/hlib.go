// Package hlib is the shared part of the conformance harness that binds the
// TLA+ specifications of /verif/spec to the real qiloop code.  Each family of
// properties has its own binary under harness/cmd/<family>; a binary offers
// sub-commands that replay TLC-generated vectors and behaviours into the
// implementation or record traces of the implementation for TLC to validate,
// and print one JSON Result on stdout.
package hlib

import (
	"bufio"
	"encoding/json"
	"fmt"
	"io"
	"log"
	"os"
	"runtime"
	"sort"
	"strconv"
	"sync/atomic"
	"time"
)

// Failure is one observed deviation of the real code from the expectation
// derived from the specification.  Class names *what fails* (the key used by
// known_findings.json), Case is the replayable input.
type Failure struct {
	Class  string      `json:"class"`
	Detail string      `json:"detail"`
	Case   interface{} `json:"case,omitempty"`
}

// Result is what every sub-command reports.
type Result struct {
	Evaluations int                    `json:"evaluations"`
	Distinct    int                    `json:"distinct"`
	Failures    []Failure              `json:"failures"`
	FailCount   map[string]int         `json:"fail_count"`
	Samples     []interface{}          `json:"samples"`
	Extra       map[string]interface{} `json:"extra,omitempty"`
}

// MaxFailuresPerClass bounds the failures kept per class (all are counted).
const MaxFailuresPerClass = 5

func (r *Result) Fail(class, detail string, c interface{}) {
	if r.FailCount == nil {
		r.FailCount = map[string]int{}
	}
	r.FailCount[class]++
	if r.FailCount[class] <= MaxFailuresPerClass {
		r.Failures = append(r.Failures, Failure{class, detail, c})
	}
}

func (r *Result) Sample(s interface{}) {
	if len(r.Samples) < 5 {
		r.Samples = append(r.Samples, s)
	}
}

func (r *Result) SetExtra(k string, v interface{}) {
	if r.Extra == nil {
		r.Extra = map[string]interface{}{}
	}
	r.Extra[k] = v
}

func (r *Result) Emit() {
	if r.Failures == nil {
		r.Failures = []Failure{}
	}
	if r.Samples == nil {
		r.Samples = []interface{}{}
	}
	enc := json.NewEncoder(os.Stdout)
	if err := enc.Encode(r); err != nil {
		Fatal("encode result: %v", err)
	}
}

var commands = map[string]func(args []string){}

func Register(name string, f func(args []string)) { commands[name] = f }

func Fatal(format string, a ...interface{}) {
	fmt.Fprintf(os.Stderr, "harness: "+format+"\n", a...)
	os.Exit(3)
}

func Seed() int64 {
	s, err := strconv.ParseInt(os.Getenv("VERIF_SEED"), 10, 64)
	if err != nil {
		return 1
	}
	return s
}

func Thorough() bool { return os.Getenv("VERIF_TIER") == "thorough" }

// readLines calls f for every line of an ndjson file.
func ReadLines(path string, f func(line []byte)) {
	fh, err := os.Open(path)
	if err != nil {
		Fatal("open %s: %v", path, err)
	}
	defer fh.Close()
	sc := bufio.NewScanner(fh)
	sc.Buffer(make([]byte, 1<<20), 1<<28)
	for sc.Scan() {
		b := sc.Bytes()
		if len(b) == 0 {
			continue
		}
		f(b)
	}
	if err := sc.Err(); err != nil {
		Fatal("read %s: %v", path, err)
	}
}

// Main dispatches to the registered sub-command.
func Main() {
	if os.Getenv("VERIF_LOG") == "" {
		log.SetOutput(io.Discard) // qiloop logs every dropped message
	}
	if len(os.Args) < 2 {
		names := []string{}
		for n := range commands {
			names = append(names, n)
		}
		sort.Strings(names)
		Fatal("usage: harness <command> ...; commands: %v", names)
	}
	f, ok := commands[os.Args[1]]
	if !ok {
		Fatal("unknown command %q", os.Args[1])
	}
	f(os.Args[2:])
}

// Watchdog reports a harness that makes no progress: when *progress has not changed for `limit`, the
// result gathered so far is emitted with one more failure of class `class` (a goroutine of the harness is
// blocked inside the code under test - a deadlock or an operation that never returns) and the process
// exits normally, so that the hang is a verdict and not a time-out of the check.
func Watchdog(res *Result, progress *int64, limit time.Duration, class string, what func() string) {
	go func() {
		last := atomic.LoadInt64(progress)
		since := time.Now()
		for {
			time.Sleep(limit / 20)
			cur := atomic.LoadInt64(progress)
			if cur != last {
				last, since = cur, time.Now()
				continue
			}
			if time.Since(since) < limit {
				continue
			}
			buf := make([]byte, 1<<16)
			n := runtime.Stack(buf, true)
			stack := string(buf[:n])
			if len(stack) > 6000 {
				stack = stack[:6000]
			}
			detail := fmt.Sprintf("no progress for %v", limit)
			if what != nil {
				detail += ": " + what()
			}
			res.Fail(class, detail, map[string]interface{}{"goroutines": stack})
			res.Emit()
			os.Exit(0)
		}
	}()
}
