package hlib

import (
	"encoding/json"
	"io"
	"sync"
	"time"

	"github.com/lugu/qiloop/vhook"
)

// Recorder collects vhook events (the harness' own events go through
// vhook.Emit too, so that everything shares one sequence counter).
type Recorder struct {
	mu     sync.Mutex
	cond   *sync.Cond
	events []vhook.Event
	// OnEvent, if set, is called under the recorder lock for every event
	OnEvent func(e vhook.Event)
}

// NewRecorder installs a recorder as the vhook sink.
func NewRecorder() *Recorder {
	r := &Recorder{}
	r.cond = sync.NewCond(&r.mu)
	vhook.SetSink(func(e vhook.Event) {
		r.mu.Lock()
		r.events = append(r.events, e)
		if r.OnEvent != nil {
			r.OnEvent(e)
		}
		r.cond.Broadcast()
		r.mu.Unlock()
	})
	return r
}

// Stop removes the sink.
func (r *Recorder) Stop() { vhook.SetSink(nil) }

// Take returns and forgets the events recorded so far.
func (r *Recorder) Take() []vhook.Event {
	r.mu.Lock()
	defer r.mu.Unlock()
	ev := r.events
	r.events = nil
	return ev
}

// Wait blocks until ok() (evaluated under the recorder lock, after each new
// event) holds.  False on timeout.
func (r *Recorder) Wait(d time.Duration, ok func() bool) bool {
	deadline := time.Now().Add(d)
	timer := time.AfterFunc(d, func() {
		r.mu.Lock()
		r.cond.Broadcast()
		r.mu.Unlock()
	})
	defer timer.Stop()
	r.mu.Lock()
	defer r.mu.Unlock()
	for !ok() {
		if time.Now().After(deadline) {
			return false
		}
		r.cond.Wait()
	}
	return true
}

// KV returns the value of key k of the event (nil if absent).
func KV(e vhook.Event, k string) interface{} {
	for i := 0; i+1 < len(e.KV); i += 2 {
		if s, ok := e.KV[i].(string); ok && s == k {
			return e.KV[i+1]
		}
	}
	return nil
}

// Num converts a logged scalar to int (bool: 0/1; absent: -1).
func Num(v interface{}) int {
	switch x := v.(type) {
	case nil:
		return -1
	case bool:
		if x {
			return 1
		}
		return 0
	case int:
		return x
	case int32:
		return int(x)
	case int64:
		return int(x)
	case uint:
		return int(x)
	case uint8:
		return int(x)
	case uint16:
		return int(x)
	case uint32:
		return int(x)
	case uint64:
		return int(x)
	}
	return -1
}

// WriteLine writes one ndjson record.
func WriteLine(w io.Writer, rec map[string]interface{}) {
	b, err := json.Marshal(rec)
	if err != nil {
		Fatal("marshal: %v", err)
	}
	w.Write(append(b, '\n'))
}
