// Command harness binds the TLA+ specifications of /verif/spec to the real
// qiloop code: it replays TLC-generated vectors and behaviours into the
// implementation and records traces of the implementation for TLC to
// validate.  One sub-command per property family; every sub-command prints
// one JSON Result on stdout.
package main

import (
	"bufio"
	"encoding/json"
	"fmt"
	"os"
	"sort"
	"strconv"
)

// Failure is one observed deviation of the real code from the expectation
// derived from the specification.  Class names *what fails* (the key used by
// known_findings.json), Case is the replayable input.
type Failure struct {
	Class  string      `json:"class"`
	Detail string      `json:"detail"`
	Case   interface{} `json:"case,omitempty"`
}

// Result is what every sub-command reports.
type Result struct {
	Evaluations int                    `json:"evaluations"`
	Distinct    int                    `json:"distinct"`
	Failures    []Failure              `json:"failures"`
	FailCount   map[string]int         `json:"fail_count"`
	Samples     []interface{}          `json:"samples"`
	Extra       map[string]interface{} `json:"extra,omitempty"`
}

const maxFailuresPerClass = 5

func (r *Result) fail(class, detail string, c interface{}) {
	if r.FailCount == nil {
		r.FailCount = map[string]int{}
	}
	r.FailCount[class]++
	if r.FailCount[class] <= maxFailuresPerClass {
		r.Failures = append(r.Failures, Failure{class, detail, c})
	}
}

func (r *Result) sample(s interface{}) {
	if len(r.Samples) < 5 {
		r.Samples = append(r.Samples, s)
	}
}

func (r *Result) extra(k string, v interface{}) {
	if r.Extra == nil {
		r.Extra = map[string]interface{}{}
	}
	r.Extra[k] = v
}

func (r *Result) emit() {
	if r.Failures == nil {
		r.Failures = []Failure{}
	}
	if r.Samples == nil {
		r.Samples = []interface{}{}
	}
	enc := json.NewEncoder(os.Stdout)
	if err := enc.Encode(r); err != nil {
		fatal("encode result: %v", err)
	}
}

var commands = map[string]func(args []string){}

func register(name string, f func(args []string)) { commands[name] = f }

func fatal(format string, a ...interface{}) {
	fmt.Fprintf(os.Stderr, "harness: "+format+"\n", a...)
	os.Exit(3)
}

func seed() int64 {
	s, err := strconv.ParseInt(os.Getenv("VERIF_SEED"), 10, 64)
	if err != nil {
		return 1
	}
	return s
}

func thorough() bool { return os.Getenv("VERIF_TIER") == "thorough" }

// readLines calls f for every line of an ndjson file.
func readLines(path string, f func(line []byte)) {
	fh, err := os.Open(path)
	if err != nil {
		fatal("open %s: %v", path, err)
	}
	defer fh.Close()
	sc := bufio.NewScanner(fh)
	sc.Buffer(make([]byte, 1<<20), 1<<28)
	for sc.Scan() {
		b := sc.Bytes()
		if len(b) == 0 {
			continue
		}
		f(b)
	}
	if err := sc.Err(); err != nil {
		fatal("read %s: %v", path, err)
	}
}

func main() {
	if len(os.Args) < 2 {
		names := []string{}
		for n := range commands {
			names = append(names, n)
		}
		sort.Strings(names)
		fatal("usage: harness <command> ...; commands: %v", names)
	}
	f, ok := commands[os.Args[1]]
	if !ok {
		fatal("unknown command %q", os.Args[1])
	}
	f(os.Args[2:])
}
