package main

// rig: one real qiloop server (bus.StandAloneServer) on a harness listener, a
// probe service made of generated-stub objects (examples/pong) whose method
// bodies belong to the harness, and connections over harness streams.

import (
	"fmt"
	"io"
	"log"
	"sync"
	"time"

	"github.com/lugu/qiloop/bus"
	"github.com/lugu/qiloop/bus/net"
	"github.com/lugu/qiloop/examples/pong"
	"github.com/lugu/qiloop/vhook"
)

var tBound = 10 * time.Second // in-process streams: normal latency is microseconds

func init() { log.SetOutput(io.Discard) }

// impl is the body of the probe object's methods.
type impl struct {
	rig   *rig
	name  string // object name of the specification ("1", "2", ..)
	delay func()
}

func (p *impl) Activate(activation bus.Activation, helper pong.PingPongSignalHelper) error { return nil }
func (p *impl) OnTerminate()                                                               {}

func (p *impl) run(a string) error {
	r := p.rig
	vhook.Emit("harness", nil, "exec_begin", "obj", p.name, "tag", a, "rig", r.gen)
	var ch chan struct{}
	r.gmu.Lock()
	if r.gating {
		var ok bool
		ch, ok = r.gates[a]
		if !ok {
			ch = make(chan struct{})
			r.gates[a] = ch
		}
	}
	r.gmu.Unlock()
	if ch != nil {
		vhook.Emit("harness", nil, "gate", "obj", p.name, "tag", a, "rig", r.gen)
		<-ch
		vhook.Emit("harness", nil, "ungate", "obj", p.name, "tag", a, "rig", r.gen)
	} else if p.delay != nil {
		p.delay()
	}
	vhook.Emit("harness", nil, "exec_end", "obj", p.name, "tag", a, "rig", r.gen)
	if r.fail[a] {
		return fmt.Errorf("app:%s", a)
	}
	return nil
}

func (p *impl) Hello(a string) (string, error) {
	if err := p.run(a); err != nil {
		return "", err
	}
	return "re:" + a, nil
}

func (p *impl) Ping(a string) error { return p.run(a) }

type hobj struct {
	name string
	id   uint32
	svc  uint32 // id of the service the object belongs to
	impl *impl
}

type hconn struct {
	name    string
	cli     *hStream
	srv     *hStream
	ep      net.EndPoint
	epID    int
	srvEpID int
	sniffer int
	sniff   chan *net.Message
	base    uint32 // last message id used on the connection before the scenario starts
	// raw connections (no client end point: the harness reads and writes frames itself)
	raw    bool
	rdN    int            // frames read by the harness (under world.mu)
	rdEOF  bool           // the harness reader saw the end of the stream
	frames []*net.Message // what the peer received
}

type rig struct {
	w      *world
	rec    *recorder
	lis    *hListener
	srv    bus.Server
	svc    bus.Service
	svcID  uint32
	objs   map[string]*hobj
	conns  map[string]*hconn
	auth   *logAuth
	gating bool
	gmu    sync.Mutex
	gates  map[string]chan struct{}
	fail   map[string]bool
	gen    int
}

var rigGen int

func newRig(auth *logAuth, objs []string, gating bool) (*rig, error) {
	w := newWorld()
	r := &rig{w: w, rec: newRecorder(w), /*dbg*/ lis: newListener(), objs: map[string]*hobj{}, conns: map[string]*hconn{},
		auth: auth, gating: gating, gates: map[string]chan struct{}{}, fail: map[string]bool{}}
	rigGen++
	r.gen = rigGen
	r.rec.gen = rigGen
	vhook.SetSink(r.rec.sink)
	srv, err := bus.StandAloneServer(r.lis, auth, bus.PrivateNamespace())
	if err != nil {
		return nil, err
	}
	r.srv = srv
	for i, name := range objs {
		o := &hobj{name: name, impl: &impl{rig: r, name: name}}
		actor := pong.PingPongObject(o.impl)
		if i == 0 {
			svc, err := srv.NewService("probe", actor)
			if err != nil {
				return nil, err
			}
			r.svc = svc
			r.svcID = svc.ServiceID()
			o.id = 1
		} else {
			id, err := r.svc.Add(actor)
			if err != nil {
				return nil, err
			}
			o.id = id
		}
		o.svc = r.svcID
		r.objs[name] = o
	}
	return r, nil
}

// addService registers one more service made of probe objects (the first gets object id 1).
func (r *rig) addService(svcName string, objs []string) (uint32, error) {
	var svc bus.Service
	for i, name := range objs {
		o := &hobj{name: name, impl: &impl{rig: r, name: name}}
		actor := pong.PingPongObject(o.impl)
		if i == 0 {
			s, err := r.srv.NewService(svcName, actor)
			if err != nil {
				return 0, err
			}
			svc = s
			o.id = 1
		} else {
			id, err := svc.Add(actor)
			if err != nil {
				return 0, err
			}
			o.id = id
		}
		o.svc = svc.ServiceID()
		r.objs[name] = o
	}
	if svc == nil {
		return 0, fmt.Errorf("service without object")
	}
	return svc.ServiceID(), nil
}

// connect creates connection `name`: a client end point with a sniffer handler
// (sees every incoming frame) and the server side accepted by the real server.
func (r *rig) connect(name string) (*hconn, error) {
	cli, srv := newPipe(r.w, name)
	c := &hconn{name: name, cli: cli, srv: srv, sniff: make(chan *net.Message, 4096)}
	c.ep = net.EndPointFinalizer(cli, func(e net.EndPoint) {
		c.sniffer = e.MakeHandler(func(hdr *net.Header) (bool, bool) { return true, true }, c.sniff, nil)
	})
	c.epID = vhook.ID(c.ep)
	r.w.mu.Lock()
	known := len(r.rec.made)
	r.w.mu.Unlock()
	select {
	case r.lis.ch <- srv:
	case <-time.After(tBound):
		return nil, fmt.Errorf("server does not accept")
	}
	ok := r.w.waitFor(tBound, func() bool { return len(r.rec.made) > known })
	if !ok {
		return nil, fmt.Errorf("server end point not created")
	}
	r.w.mu.Lock()
	c.srvEpID = r.rec.made[known]
	r.w.mu.Unlock()
	r.conns[name] = c
	return c, nil
}

// connectRaw creates a connection whose client side is the harness itself.
func (r *rig) connectRaw(name string) (*hconn, error) {
	cli, srv := newPipe(r.w, name)
	c := &hconn{name: name, cli: cli, srv: srv, raw: true}
	r.w.mu.Lock()
	known := len(r.rec.made)
	r.w.mu.Unlock()
	select {
	case r.lis.ch <- srv:
	case <-time.After(tBound):
		return nil, fmt.Errorf("server does not accept")
	}
	if !r.w.waitFor(tBound, func() bool { return len(r.rec.made) > known }) {
		return nil, fmt.Errorf("server end point not created")
	}
	r.w.mu.Lock()
	c.srvEpID = r.rec.made[known]
	r.w.mu.Unlock()
	go func() {
		for {
			m := new(net.Message)
			err := m.Read(cli)
			r.w.mu.Lock()
			if err != nil {
				c.rdEOF = true
				r.w.cond.Broadcast()
				r.w.mu.Unlock()
				return
			}
			c.rdN++
			c.frames = append(c.frames, m)
			r.w.cond.Broadcast()
			r.w.mu.Unlock()
		}
	}()
	r.conns[name] = c
	return c, nil
}

// settled: nothing moves any more inside the server, on the streams and in the
// client end points; method bodies blocked in a harness gate count as at rest.
// Evaluated under world.mu.
func (r *rig) settledLocked(returned func() int, deliveredToCalls func() int) bool {
	for _, c := range r.conns {
		if !c.srv.r.idleLocked() || !c.cli.r.idleLocked() {
			return false
		}
		e := r.rec.epc(c.srvEpID)
		if !e.rejected {
			if e.deliver != e.fw || e.fw != e.consumed {
				return false
			}
		}
		// every frame the server has read was dispatched
		if !c.srv.r.closed && e.dispatch != c.cli.w.frames {
			return false
		}
		if c.raw {
			if !c.rdEOF && c.rdN != c.srv.w.frames {
				return false
			}
			if c.cli.r.closed && !c.rdEOF {
				return false
			}
			continue
		}
		ce := r.rec.epc(c.epID)
		if !c.cli.r.closed && ce.dispatch != c.srv.w.frames {
			return false
		}
	}
	for _, b := range r.rec.box {
		if b.recv == b.done {
			// the mailbox goroutine is between two mails: nothing may be waiting
			if b.tobox > b.recv {
				return false
			}
			continue
		}
		// a mail is being processed: at rest only if its method body sits in a harness gate
		if b.recv != b.done+1 {
			return false
		}
		name := ""
		for _, o := range r.objs {
			if o.id == b.obj && b.svc == o.svc {
				name = o.name
			}
		}
		if name == "" || !r.rec.gated[name] {
			return false
		}
	}
	if returned != nil && returned() != deliveredToCalls() {
		return false
	}
	return true
}

// callDeliveries: frames handed to handlers other than the sniffer on the client end points.
func (r *rig) callDeliveriesLocked() int {
	n := 0
	for _, c := range r.conns {
		for slot, k := range r.rec.ndeliv[c.epID] {
			if slot != c.sniffer {
				n += k
			}
		}
	}
	return n
}

func (r *rig) release(tag string) {
	r.gmu.Lock()
	ch, ok := r.gates[tag]
	if !ok {
		ch = make(chan struct{})
		r.gates[tag] = ch
	}
	select {
	case <-ch:
	default:
		close(ch)
	}
	r.gmu.Unlock()
}

func (r *rig) close() {
	r.gmu.Lock()
	r.gating = false
	for _, ch := range r.gates {
		select {
		case <-ch:
		default:
			close(ch)
		}
	}
	r.gmu.Unlock()
	// let what is still running finish before the next rig installs its recorder
	r.w.waitFor(2*time.Second, func() bool {
		for _, b := range r.rec.box {
			if b.tobox > b.recv || b.recv != b.done {
				return false
			}
		}
		return true
	})
	for _, c := range r.conns {
		if c.raw {
			c.cli.Close()
		} else {
			c.ep.Close()
		}
	}
	done := make(chan struct{})
	go func() { r.srv.Terminate(); close(done) }()
	select {
	case <-done:
	case <-time.After(tBound):
	}
	vhook.SetSink(nil)
}

// dump describes the counters the settle predicate looks at (diagnostics).
func (r *rig) dump() string {
	r.w.mu.Lock()
	defer r.w.mu.Unlock()
	s := ""
	for _, c := range r.conns {
		e, ce := r.rec.epc(c.srvEpID), r.rec.epc(c.epID)
		s += fmt.Sprintf("[%s srvIdle=%v cliIdle=%v srv{disp=%d deliver=%d fw=%d consumed=%d rej=%v frames=%d} cli{disp=%d frames=%d}] ",
			c.name, c.srv.r.idleLocked(), c.cli.r.idleLocked(), e.dispatch, e.deliver, e.fw, e.consumed, e.rejected,
			c.cli.w.frames, ce.dispatch, c.srv.w.frames)
	}
	for i, b := range r.rec.box {
		s += fmt.Sprintf("[box%d %d/%d tobox=%d recv=%d done=%d] ", i, b.svc, b.obj, b.tobox, b.recv, b.done)
	}
	s += fmt.Sprintf("gated=%v callDeliveries=%d", r.rec.gated, r.callDeliveriesLocked())
	for _, e := range r.rec.evs {
		if e.Comp != "endpoint" {
			s += fmt.Sprintf("\n%d %s#%d %s %v", e.Seq, e.Comp, e.Inst, e.Ev, e.KV)
		}
	}
	return s
}

// bounded runs a set-up call (authenticate, meta object lookup) that is itself a call
// through the code under test: if it does not return, that is an observation, not a hang
// of the harness.
func bounded(what string, f func() error) error {
	ch := make(chan error, 1)
	go func() { ch <- f() }()
	select {
	case err := <-ch:
		return err
	case <-time.After(tBound):
		return fmt.Errorf("%s did not return within %v", what, tBound)
	}
}

// setupClient authenticates connection c and looks the probe service up, through the real client code.
func (r *rig) setupClient(c *hconn) (*bus.Cache, error) {
	if err := bounded("authenticate call", func() error { return bus.AuthenticateUser(c.ep, "u", "t") }); err != nil {
		return nil, err
	}
	cache := bus.NewCache(c.ep)
	if err := bounded("metaObject call", func() error { return cache.Lookup("probe", r.svcID) }); err != nil {
		return nil, err
	}
	return cache, nil
}
