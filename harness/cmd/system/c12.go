package main

// C12: hostile sequences of one authenticated client replayed against a real
// server (directory + a probe service with two objects) that runs IN A CHILD
// PROCESS over real unix sockets; after each sequence a fresh client probes
// every object.  Verdict: every object the specification expects to serve
// answers within the bound and the server process is alive.

import (
	"bufio"
	"bytes"
	"encoding/binary"
	"encoding/json"
	"fmt"
	"io"
	"math/rand"
	gonet "net"
	"os"
	"os/exec"
	"path/filepath"
	"strings"
	"sync"
	"syscall"
	"time"

	"github.com/lugu/qiloop/bus"
	"github.com/lugu/qiloop/bus/directory"
	"github.com/lugu/qiloop/bus/net"
	"github.com/lugu/qiloop/examples/pong"
	"github.com/lugu/qiloop/type/basic"
	"github.com/lugu/qiloop/type/value"
	"verif/harness/hlib"
)

// ---------------------------------------------------------------------------
// child: the server
// ---------------------------------------------------------------------------

// plainImpl: hello("wait") does not return before the harness opens the gate.
// The gate is driven through the child's stdin / stdout: nothing of it travels
// through the queues under test.
type plainImpl struct{ name string }

func (p *plainImpl) Activate(activation bus.Activation, helper pong.PingPongSignalHelper) error {
	return nil
}
func (p *plainImpl) OnTerminate() {}
func (p *plainImpl) Hello(a string) (string, error) {
	if a == "wait" {
		theGate.wait(p.name)
	}
	return "re:" + a, nil
}
func (p *plainImpl) Ping(a string) error { return nil }

type gate struct {
	mu   sync.Mutex
	ch   chan struct{} // closed: the gate is open
	open bool
	out  sync.Mutex
}

// the gate starts open: hello("wait") is an ordinary call until the harness closes it
var theGate = func() *gate {
	g := &gate{ch: make(chan struct{}), open: true}
	close(g.ch)
	return g
}()

func (g *gate) say(s string) {
	g.out.Lock()
	fmt.Println(s)
	g.out.Unlock()
}

func (g *gate) wait(name string) {
	g.mu.Lock()
	ch, open := g.ch, g.open
	g.mu.Unlock()
	if open {
		return
	}
	g.say("entered " + name)
	<-ch
}

// shut: calls of the slow method that arrive from now on wait.
func (g *gate) shut() {
	g.mu.Lock()
	if g.open {
		g.ch = make(chan struct{})
		g.open = false
	}
	g.mu.Unlock()
	g.say("closed")
}

// release: every waiting call returns; later ones do not wait (a slow call that was still in a queue when the
// gate opened must not find it closed again).
func (g *gate) release() {
	g.mu.Lock()
	if !g.open {
		close(g.ch)
		g.open = true
	}
	g.mu.Unlock()
	g.say("released")
}

type serveInfo struct {
	Ready bool   `json:"ready"`
	Addr  string `json:"addr"`
	Svc   uint32 `json:"svc"`
	Obj2  uint32 `json:"obj2"`
}

// c12-serve <dir>: starts the server, prints one JSON line, serves until stdin is closed.
// stdin: "close" shuts the gate of the slow method, "release" opens it (answers on stdout: "closed", "released").
func cmdC12Serve(args []string) {
	// a hostile count can make a decoder ask for tens of gigabytes: the request must fail, not be served
	lim := syscall.Rlimit{Cur: 6 << 30, Max: 6 << 30}
	syscall.Setrlimit(syscall.RLIMIT_AS, &lim)
	addr := "unix://" + filepath.Join(args[0], "sock")
	srv, err := directory.NewServer(addr, nil)
	if err != nil {
		hlib.Fatal("server: %v", err)
	}
	svc, err := srv.NewService("pong", pong.PingPongObject(&plainImpl{"p1"}))
	if err != nil {
		hlib.Fatal("service: %v", err)
	}
	obj2, err := svc.Add(pong.PingPongObject(&plainImpl{"p2"}))
	if err != nil {
		hlib.Fatal("object: %v", err)
	}
	b, _ := json.Marshal(serveInfo{true, addr, svc.ServiceID(), obj2})
	theGate.say(string(b))
	in := bufio.NewScanner(os.Stdin)
	for in.Scan() {
		switch strings.TrimSpace(in.Text()) {
		case "close":
			theGate.shut()
		case "release":
			theGate.release()
		}
	}
	os.Exit(0)
}

// ---------------------------------------------------------------------------
// parent: hostile client and probe
// ---------------------------------------------------------------------------

type hostOp struct {
	K string `json:"k"`
	T string `json:"t"`
	A int    `json:"a"`
	X string `json:"x"`
}

type hostStep struct {
	Op  hostOp   `json:"op"`
	Ans string   `json:"ans"`
	Srv []string `json:"srv"` // probe_others: the objects a fresh client asks in the middle of the sequence
}

type hostExpect struct {
	Up      bool     `json:"up"`
	Serving []string `json:"serving"`
	Gone    []string `json:"gone"` // objects a terminate request has named
}

type hostCase struct {
	H []hostStep `json:"h"`
	E hostExpect `json:"e"`
}

type child struct {
	cmd    *exec.Cmd
	stdin  io.WriteCloser
	info   serveInfo
	dir    string
	stderr *bytes.Buffer
	exited chan struct{}
	victim *rawClient
	lines  chan string // what the child says after its first line ("entered <object>", "released")
	gated  bool        // a slow call may be inside the method
}

const victimUID = 4242

func startChild() *child {
	dir, err := os.MkdirTemp(os.Getenv("VERIF_SCRATCH_DIR"), "c12-")
	if err != nil {
		hlib.Fatal("tmp: %v", err)
	}
	c := &child{dir: dir, stderr: &bytes.Buffer{}, exited: make(chan struct{})}
	c.cmd = exec.Command(os.Args[0], "c12-serve", dir)
	c.cmd.Stderr = c.stderr
	c.stdin, _ = c.cmd.StdinPipe()
	out, _ := c.cmd.StdoutPipe()
	if err := c.cmd.Start(); err != nil {
		hlib.Fatal("start server: %v", err)
	}
	rdr := bufio.NewReader(out)
	line, err := rdr.ReadString('\n')
	if err != nil || json.Unmarshal([]byte(line), &c.info) != nil || !c.info.Ready {
		hlib.Fatal("server child did not start: %v %s %s", err, line, c.stderr.String())
	}
	c.lines = make(chan string, 64)
	go func() {
		for {
			l, err := rdr.ReadString('\n')
			if err != nil {
				break
			}
			select {
			case c.lines <- strings.TrimSpace(l):
			default:
			}
		}
		c.cmd.Wait()
		close(c.exited)
	}()
	// a cooperative subscriber on a connection of its own
	v, err := dialRaw(c)
	if err != nil {
		hlib.Fatal("victim: %v", err)
	}
	for _, t := range []string{"dir", "p1", "p2"} {
		svc, obj := c.target(t)
		ans := v.request(svc, obj, 0, regPayload(obj, 102, victimUID), 5*time.Second)
		if ans != "reply" {
			hlib.Fatal("victim registration on %s: %s", t, ans)
		}
	}
	c.victim = v
	return c
}

// await: the child says `what` within d.
func (c *child) await(what string, d time.Duration) bool {
	t := time.After(d)
	for {
		select {
		case l := <-c.lines:
			if l == what {
				return true
			}
		case <-c.exited:
			return false
		case <-t:
			return false
		}
	}
}

// shut closes the gate of the slow method (through the child's stdin, not through the server).
func (c *child) shut() bool {
	if c.gated {
		return true
	}
	c.gated = true
	if _, err := io.WriteString(c.stdin, "close\n"); err != nil {
		return false
	}
	return c.await("closed", 10*time.Second)
}

// release opens the gate of the slow method (through the child's stdin, not through the server).
func (c *child) release() bool {
	c.gated = false
	if _, err := io.WriteString(c.stdin, "release\n"); err != nil {
		return false
	}
	return c.await("released", 10*time.Second)
}

func (c *child) alive() bool {
	select {
	case <-c.exited:
		return false
	default:
		return true
	}
}

func (c *child) stop() {
	if c.victim != nil {
		c.victim.conn.Close()
	}
	c.stdin.Close()
	select {
	case <-c.exited:
	case <-time.After(2 * time.Second):
		c.cmd.Process.Signal(syscall.SIGKILL)
		<-c.exited
	}
	os.RemoveAll(c.dir)
}

func (c *child) target(t string) (svc, obj uint32) {
	switch t {
	case "dir":
		return 1, 1
	case "p1":
		return c.info.Svc, 1
	case "ghost": // an object that does not exist (self-test of the probe)
		return c.info.Svc, 0x7ffffff0
	}
	return c.info.Svc, c.info.Obj2
}

// rawClient: a connection the harness drives frame by frame.
type rawClient struct {
	conn   gonet.Conn
	mu     sync.Mutex
	cond   *sync.Cond
	frames map[uint32]*net.Message
	eof    bool
	nextID uint32
	paused bool // the client does not read its socket any more
	wedged bool // a write to the server timed out: the server does not read this connection any more
}

func dialRaw(c *child) (*rawClient, error) {
	conn, err := gonet.Dial("unix", strings.TrimPrefix(c.info.Addr, "unix://"))
	if err != nil {
		return nil, err
	}
	r := &rawClient{conn: conn, frames: map[uint32]*net.Message{}, nextID: 1}
	r.cond = sync.NewCond(&r.mu)
	go func() {
		for {
			m := new(net.Message)
			err := m.Read(conn)
			r.mu.Lock()
			if err != nil {
				r.eof = true
				r.cond.Broadcast()
				r.mu.Unlock()
				return
			}
			for r.paused { // stop_reading: the client leaves what the server sends in the socket
				r.cond.Wait()
			}
			r.frames[m.Header.ID] = m
			r.cond.Broadcast()
			r.mu.Unlock()
		}
	}()
	var b bytes.Buffer
	bus.WriteCapabilityMap(bus.ClientCap("u", "t"), &b)
	if ans := r.request(0, 0, 8, b.Bytes(), 5*time.Second); ans != "reply" {
		conn.Close()
		return nil, fmt.Errorf("authenticate: %s", ans)
	}
	return r, nil
}

func (r *rawClient) send(typ uint8, svc, obj, act uint32, payload []byte) uint32 {
	return r.sendMany(1, typ, svc, obj, act, payload)
}

// sendMany writes n copies of a request (fresh message ids) with ONE write: a flood must not depend on how many
// small packets the socket takes.  A server that has stopped reading this connection is not waited for more than
// once: what the other clients get is the verdict, not what becomes of the hostile client's own bytes.
func (r *rawClient) sendMany(n int, typ uint8, svc, obj, act uint32, payload []byte) uint32 {
	var b bytes.Buffer
	for i := 0; i < n; i++ {
		r.nextID += 2
		m := net.NewMessage(net.NewHeader(typ, svc, obj, act, r.nextID), payload)
		m.Write(&b)
	}
	if r.wedged {
		return r.nextID
	}
	r.conn.SetWriteDeadline(time.Now().Add(5 * time.Second))
	if _, err := r.conn.Write(b.Bytes()); err != nil {
		if ne, ok := err.(gonet.Error); ok && ne.Timeout() {
			r.wedged = true
		}
	}
	return r.nextID
}

// wait returns "reply", "error", "closed" or "timeout".
func (r *rawClient) wait(id uint32, d time.Duration) string {
	deadline := time.Now().Add(d)
	t := time.AfterFunc(d, func() { r.mu.Lock(); r.cond.Broadcast(); r.mu.Unlock() })
	defer t.Stop()
	r.mu.Lock()
	defer r.mu.Unlock()
	for {
		if m, ok := r.frames[id]; ok {
			delete(r.frames, id)
			if m.Header.Type == net.Reply {
				return "reply"
			}
			return "error"
		}
		if r.eof {
			return "closed"
		}
		if time.Now().After(deadline) {
			return "timeout"
		}
		r.cond.Wait()
	}
}

func (r *rawClient) request(svc, obj, act uint32, payload []byte, d time.Duration) string {
	return r.wait(r.send(net.Call, svc, obj, act, payload), d)
}

func regPayload(obj, sig uint32, uid uint64) []byte {
	var b bytes.Buffer
	basic.WriteUint32(obj, &b)
	basic.WriteUint32(sig, &b)
	basic.WriteUint64(uid, &b)
	return b.Bytes()
}

// validPayload: a well-formed argument list for the action (the starting point of the mutations).
func validPayload(t string, act int, obj uint32) []byte {
	var b bytes.Buffer
	switch {
	case act == 0 || act == 1:
		return regPayload(obj, 102, 99)
	case act == 2 || act == 3:
		basic.WriteUint32(obj, &b)
	case act == 5:
		value.String("nothing").Write(&b)
	case act == 6:
		value.String("nothing").Write(&b)
		value.Int(1).Write(&b)
	case act == 8:
		basic.WriteUint32(obj, &b)
		basic.WriteUint32(102, &b)
		basic.WriteUint64(98, &b)
		basic.WriteString("(s)", &b)
	case act == 81 || act == 85:
		basic.WriteBool(true, &b)
	case t == "dir" && (act == 102 || act == 105):
		// ServiceInfo: name, serviceId, machineId, processId, endpoints, sessionId, objectUid
		basic.WriteString("hostile", &b)
		basic.WriteUint32(77, &b)
		basic.WriteString("m", &b)
		basic.WriteUint32(1, &b)
		basic.WriteUint32(1, &b) // one end point
		basic.WriteString("tcp://127.0.0.1:1", &b)
		basic.WriteString("s", &b)
		basic.WriteString("", &b)
	case t == "dir" && act == 100:
		basic.WriteString("pong", &b)
	case t == "dir" && (act == 103 || act == 104 || act == 109):
		basic.WriteUint32(4000, &b)
	case t != "dir" && (act == 100 || act == 101):
		basic.WriteString("x", &b)
	}
	return b.Bytes()
}

func garbagePayload(kind, t string, act int, obj uint32, rng *rand.Rand) []byte {
	v := validPayload(t, act, obj)
	switch kind {
	case "empty":
		return []byte{}
	case "trunc":
		if len(v) > 1 {
			return v[:len(v)/2]
		}
		return []byte{0x01}
	case "garbage":
		b := make([]byte, 1+rng.Intn(40))
		rng.Read(b)
		return b
	case "count":
		// every 32-bit field that can be a length or a count says 0xFFFFFFFF
		if t == "dir" && (act == 102 || act == 105) {
			var b bytes.Buffer
			basic.WriteString("hostile", &b)
			basic.WriteUint32(77, &b)
			basic.WriteString("m", &b)
			basic.WriteUint32(1, &b)
			binary.Write(&b, binary.LittleEndian, uint32(0xFFFFFFFF))
			return b.Bytes()
		}
		b := []byte{0xff, 0xff, 0xff, 0xff, 0xff, 0xff, 0xff, 0xff, 0xff, 0xff, 0xff, 0x7f, 1, 2, 3, 4}
		return b
	}
	return v
}

type probeResult struct {
	Target string `json:"target"`
	Answer string `json:"answer"`
}

// probe: a fresh client calls every object the specification expects to serve.
func probe(c *child, serving []string, d time.Duration) ([]probeResult, bool) {
	res := []probeResult{}
	ok := true
	r, err := dialRaw(c)
	if err != nil {
		for _, t := range serving {
			res = append(res, probeResult{t, "cannot connect or authenticate: " + err.Error()})
		}
		return res, false
	}
	defer func() { r.conn.Close() }()
	for _, t := range serving {
		svc, obj := c.target(t)
		var ans string
		if t == "dir" {
			ans = r.request(svc, obj, 101, []byte{}, d) // services()
		} else {
			ans = r.request(svc, obj, 100, strPayload("probe"), d) // hello("probe")
		}
		res = append(res, probeResult{t, ans})
		if ans != "reply" {
			ok = false
			// the request that got no answer may sit in front of the next one in the queues of this
			// connection: the other objects are asked on a connection of their own
			if r2, err := dialRaw(c); err == nil {
				r.conn.Close()
				r = r2
			}
		}
	}
	return res, ok
}

func crashReason(stderr string) string {
	for _, l := range strings.Split(stderr, "\n") {
		if strings.HasPrefix(l, "fatal error:") || strings.HasPrefix(l, "panic:") {
			return l
		}
	}
	return "process exited"
}

func crashClass(reason string) string {
	switch {
	case strings.Contains(reason, "concurrent map"):
		return "c12/crash-concurrent-map-access"
	case strings.Contains(reason, "makeslice") || strings.Contains(reason, "out of memory") || strings.Contains(reason, "out of range"):
		return "c12/crash-decoder-hostile-count"
	}
	return "c12/crash"
}

// hostileRun: what one replay leaves behind for the verdict.
type hostileRun struct {
	seen    []string
	conns   map[string]*rawClient // the connections of the hostile client ("A", "B")
	vcalls  []victimCall          // calls of the cooperative client whose answers are due once the gate is open
	midFail []probeResult         // probe_others: objects outside the slow method that did not answer
	slowed  bool
	deaf    bool // a connection of the hostile client has stopped reading
}

type victimCall struct {
	target string
	id     uint32
}

func (h *hostileRun) closeAll() {
	for _, r := range h.conns {
		r.conn.Close()
		r.mu.Lock()
		r.paused = false
		r.cond.Broadcast()
		r.mu.Unlock()
	}
}

// runHostile plays one sequence on new connections; returns what the hostile client saw.
func runHostile(c *child, hc *hostCase, seqNo int, rng *rand.Rand, floodAuth int, tb time.Duration) (*hostileRun, error) {
	h := &hostileRun{conns: map[string]*rawClient{}}
	r, err := dialRaw(c)
	if err != nil {
		return h, err
	}
	h.conns["A"] = r
	conn := func(x string) *rawClient {
		if x != "B" {
			return r
		}
		if h.conns["B"] == nil {
			rb, err := dialRaw(c)
			if err != nil {
				return r
			}
			h.conns["B"] = rb
		}
		return h.conns["B"]
	}
	fresh := uint64(1000000 + seqNo*100)
	last := map[string]uint64{}
	many := map[string][]uint64{}
	flooded := map[string]bool{} // connections with a flood in the queues behind a slow call
	short := 3 * time.Second
	for _, st := range hc.H {
		op := st.Op
		svc, obj := c.target(op.T)
		ans := "none"
		switch op.K {
		case "reg":
			var uid uint64
			switch op.X {
			case "fresh":
				fresh++
				uid = fresh
			case "again":
				uid = last[op.T]
				if uid == 0 {
					fresh++
					uid = fresh
				}
			case "victim":
				uid = victimUID
			}
			id := r.send(net.Call, svc, obj, 0, regPayload(obj, 102, uid))
			if st.Ans != "none" {
				ans = r.wait(id, short)
			}
			if op.X != "victim" && last[op.T] == 0 {
				last[op.T] = uid
			}
		case "unreg":
			uid := uint64(555)
			if op.X == "mine" {
				uid = last[op.T]
				if uid == 0 {
					uid = 556
				}
			} else if op.X == "victim" {
				uid = victimUID
			}
			id := r.send(net.Call, svc, obj, 1, regPayload(obj, 102, uid))
			if st.Ans != "none" {
				ans = r.wait(id, short)
			}
			if op.X == "mine" {
				last[op.T] = 0
			}
		case "reg_wrongobj":
			fresh++
			ans = r.wait(r.send(net.Call, svc, obj, 0, regPayload(obj+7, 102, fresh)), short)
		case "unknown_action":
			ans = r.wait(r.send(net.Call, svc, obj, 9999, strPayload("x")), short)
		case "garbage":
			id := r.send(net.Call, svc, obj, uint32(op.A), garbagePayload(op.X, op.T, op.A, obj, rng))
			if st.Ans != "none" {
				ans = r.wait(id, short)
			}
		case "setprop":
			var b bytes.Buffer
			if op.X == "wrongname" {
				value.String("no-such-property").Write(&b)
				value.Int(1).Write(&b)
			} else {
				value.Int(3).Write(&b)
				value.String("x").Write(&b)
			}
			ans = r.wait(r.send(net.Call, svc, obj, 6, b.Bytes()), short)
		case "terminate_other":
			var b bytes.Buffer
			basic.WriteUint32(obj+13, &b)
			ans = r.wait(r.send(net.Call, svc, obj, 3, b.Bytes()), short)
		case "flood_calls":
			conn(op.X).sendMany(op.A, net.Call, svc, obj, 100, strPayload("flood"))
			flooded[op.X] = flooded[op.X] || h.slowed
		case "auth_wrongtype":
			// authenticate once more: the capability map {sm} decodes, a credential in it is not a string
			caps := bus.CapabilityMap{}
			for k, v := range bus.ClientCap("u", "t") {
				caps[k] = v
			}
			switch op.X {
			case "user":
				caps[bus.KeyUser] = value.Uint(7)
			case "token":
				caps[bus.KeyToken] = value.Bool(true)
			case "both":
				caps[bus.KeyUser] = value.List([]value.Value{value.Int(1)})
				caps[bus.KeyToken] = value.Raw([]byte{1, 2, 3})
			default:
				caps[bus.KeyNewToken] = value.Float(1.5)
				caps[bus.KeyState] = value.String("done")
			}
			var b bytes.Buffer
			bus.WriteCapabilityMap(caps, &b)
			ans = r.wait(r.send(net.Call, 0, 0, 8, b.Bytes()), short)
		case "flood_auth":
			var b bytes.Buffer
			bus.WriteCapabilityMap(bus.ClientCap("u", "t"), &b)
			for i := 0; i < floodAuth; i += 100 {
				r.sendMany(100, net.Call, 0, 0, 8, b.Bytes())
			}
		case "disconnect":
			m := net.NewMessage(net.NewHeader(net.Call, svc, obj, 100, 9), strPayload("a long enough payload"))
			var b bytes.Buffer
			m.Write(&b)
			cut := 13
			if op.X == "payload" {
				cut = net.HeaderSize + 5
			}
			r.conn.Write(b.Bytes()[:cut])
			h.closeAll() // the client goes away in the middle of a frame

		// saturation: nothing below waits for an answer of the server
		case "slow":
			// the method body waits for the gate: from now on the object's mailbox goroutine is busy
			c.shut()
			h.slowed = true
			conn(op.X).send(net.Call, svc, obj, 100, strPayload("wait"))
			// normally a matter of microseconds; a slow call that sits behind a flood of the same connection
			// does not get in before the release: not waited for (nothing is demanded of the hostile client's requests)
			if !flooded[op.X] {
				c.await("entered "+op.T, 2*time.Second)
			}
		case "flood_posts":
			conn(op.X).sendMany(op.A, net.Post, svc, obj, 101, strPayload("p"))
			flooded[op.X] = flooded[op.X] || h.slowed
		case "reg_many":
			rc := conn(op.X)
			for i := 0; i < op.A; i++ {
				fresh++
				many[op.T+op.X] = append(many[op.T+op.X], fresh)
				rc.send(net.Call, svc, obj, 0, regPayload(obj, 102, fresh))
			}
		case "unreg_many":
			rc := conn(op.X)
			uids := many[op.T+op.X]
			many[op.T+op.X] = nil
			for i := len(uids); i < op.A; i++ {
				uids = append(uids, uint64(777000+i)) // users nobody registered
			}
			for _, uid := range uids {
				rc.send(net.Call, svc, obj, 1, regPayload(obj, 102, uid))
			}
		case "terminate":
			// terminate of the object itself: its documented purpose is the removal of exactly this object
			var b bytes.Buffer
			basic.WriteUint32(obj, &b)
			conn(op.X).send(net.Call, svc, obj, 3, b.Bytes())
		case "victim_call":
			// the cooperative client, on its own connection, calls while the hostile one saturates
			if op.T == "dir" {
				h.vcalls = append(h.vcalls, victimCall{op.T, c.victim.send(net.Call, svc, obj, 101, []byte{})}) // services()
			} else {
				h.vcalls = append(h.vcalls, victimCall{op.T, c.victim.send(net.Call, svc, obj, 100, strPayload("victim"))})
			}
		case "probe_others":
			// while the gate is closed: the objects outside the slow method answer a fresh client
			pr, ok := probe(c, st.Srv, tb)
			if !ok && c.alive() {
				pr, ok = probe(c, st.Srv, tb)
			}
			if !ok {
				h.midFail = append(h.midFail, pr...)
			}
		case "release":
			c.release()

		// a client that does not read what the server sends to it
		case "stop_reading":
			rc := conn(op.X)
			rc.mu.Lock()
			rc.paused = true
			rc.mu.Unlock()
			h.deaf = true
		case "flood_big":
			// calls whose replies (the argument is sent back) are larger than what a socket buffers
			conn(op.X).sendMany(op.A, net.Call, svc, obj, 100, strPayload(strings.Repeat("x", 60000)))
			time.Sleep(100 * time.Millisecond) // let the replies reach the socket
		}
		h.seen = append(h.seen, ans)
		if !c.alive() {
			break
		}
	}
	return h, nil
}

// c12-run <cases.ndjson> [floodAuth]
func cmdC12Run(args []string) {
	var res hlib.Result
	floodAuth := 3000
	if len(args) > 1 {
		fmt.Sscan(args[1], &floodAuth)
	}
	tb := 5 * time.Second
	if hlib.Thorough() {
		tb = 10 * time.Second
	}
	rng := rand.New(rand.NewSource(hlib.Seed()))
	var c *child
	defer func() {
		if c != nil {
			c.stop()
		}
	}()
	seqNo := 0
	restarts := 0
	failing := 0
	saturated := 0
	answers := map[string]int{}
	hlib.ReadLines(args[0], func(line []byte) {
		if failing >= 40 {
			return
		}
		var hc hostCase
		if err := json.Unmarshal(line, &hc); err != nil {
			hlib.Fatal("bad case: %v", err)
		}
		if c == nil {
			c = startChild()
		}
		seqNo++
		res.Evaluations++
		h, err := runHostile(c, &hc, seqNo, rng, floodAuth, tb)
		seen := h.seen
		removes := false
		for _, st := range hc.H {
			if st.Op.K == "terminate" {
				removes = true
			}
		}
		fail := func(class, detail string, extra map[string]interface{}) {
			if !strings.HasPrefix(class, "c12/crash") {
				failing++ // a hang costs two probe time-outs: stop early when they pile up; a crash is cheap
			}
			cs := map[string]interface{}{"sequence": hc.H, "hostile_saw": seen}
			for k, v := range extra {
				cs[k] = v
			}
			res.Fail(class, detail, cs)
			c.stop()
			c = nil
			restarts++
		}
		if err != nil && c.alive() {
			// the hostile client itself could not connect: the probe below tells whether the server still serves
			seen = []string{"connect: " + err.Error()}
		}
		// answers the hostile client got vs the specification (a missing answer is only recorded:
		// the property speaks about the other clients)
		for i, a := range seen {
			if i < len(hc.H) {
				answers[hc.H[i].Ans+"->"+a]++
			}
		}
		// saturation: the gate is opened at the latest now; only from here on is anything demanded of the slow
		// object: the calls the cooperative client made meanwhile are answered ...
		if c.gated {
			c.release()
		}
		gone := map[string]bool{}
		for _, t := range hc.E.Gone {
			gone[t] = true
		}
		unanswered := []string{}
		for _, v := range h.vcalls {
			a := c.victim.wait(v.id, 2*tb)
			if a != "reply" && !(a == "error" && gone[v.target]) {
				unanswered = append(unanswered, v.target+":"+a)
			}
		}
		h.closeAll()
		time.Sleep(2 * time.Millisecond) // let the server notice the disconnection
		// ... and a fresh client is served by every object no terminate request has named
		pr, ok := probe(c, hc.E.Serving, tb)
		if !ok && c.alive() {
			// a busy machine ? an object that hangs stays hung: ask again
			pr2, ok2 := probe(c, hc.E.Serving, tb)
			if ok2 {
				pr, ok = pr2, true
				res.SetExtra("probe_retries", 1)
			}
		}
		if !ok {
			// a dying process refuses connections a little before its exit is seen
			select {
			case <-c.exited:
			case <-time.After(500 * time.Millisecond):
			}
		}
		if !c.alive() {
			reason := crashReason(c.stderr.String())
			fail(crashClass(reason), "the server process died: "+reason, map[string]interface{}{"probe": pr})
			return
		}
		if !ok {
			hung := []string{}
			for _, p := range pr {
				if p.Answer != "reply" {
					hung = append(hung, p.Target+":"+p.Answer)
				}
			}
			class := "c12/object-stops-serving"
			for _, st := range hc.H {
				if st.Op.K == "reg" && (st.Op.X == "again" || st.Op.X == "victim") {
					class = "c12/object-stops-serving-after-duplicate-user-id"
				}
			}
			if h.slowed {
				class = "c12/object-stops-serving-after-saturation"
			}
			fail(class, fmt.Sprintf("after the hostile sequence a fresh client gets no answer from %v within %v (asked twice)", hung, tb),
				map[string]interface{}{"probe": pr, "other_client_unanswered": unanswered})
			return
		}
		if len(unanswered) > 0 {
			fail("c12/other-clients-call-not-answered-after-saturation",
				fmt.Sprintf("calls another client made while the hostile one saturated an object get no answer within %v of the release of the slow method: %v", 2*tb, unanswered),
				map[string]interface{}{"probe": pr})
			return
		}
		if len(h.midFail) > 0 {
			hung := []string{}
			for _, p := range h.midFail {
				if p.Answer != "reply" {
					hung = append(hung, p.Target+":"+p.Answer)
				}
			}
			if h.deaf {
				fail("c12/object-blocked-by-client-that-does-not-read",
					fmt.Sprintf("while a client that has stopped reading its socket keeps its connection open, a fresh client gets no answer from %v within %v (asked twice); "+
						"once that connection is closed the objects answer again", hung, tb),
					map[string]interface{}{"probe_after_disconnect": pr})
				return
			}
			fail("c12/object-stops-serving-while-another-is-slow",
				fmt.Sprintf("while one object was inside a slow method and flooded, a fresh client got no answer from %v within %v (asked twice)", hung, tb),
				map[string]interface{}{"probe": pr})
			return
		}
		if h.slowed {
			saturated++
		}
		if removes {
			// an object is gone, as asked: a new server for the next sequence
			c.stop()
			c = nil
		}
		if seqNo%500 == 1 {
			res.Sample(map[string]interface{}{"sequence": hc.H, "hostile_saw": seen, "probe": pr})
		}
	})
	res.Distinct = seqNo
	res.SetExtra("server_restarts", restarts)
	res.SetExtra("saturation_sequences", saturated)
	res.SetExtra("hostile_answers", answers)
	res.Emit()
}

func init() {
	hlib.Register("c12-serve", cmdC12Serve)
	hlib.Register("c12-run", cmdC12Run)
}
