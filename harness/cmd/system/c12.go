package main

// C12: hostile sequences of one authenticated client replayed against a real
// server (directory + a probe service with two objects) that runs IN A CHILD
// PROCESS over real unix sockets; after each sequence a fresh client probes
// every object.  Verdict: every object the specification expects to serve
// answers within the bound and the server process is alive.

import (
	"bufio"
	"bytes"
	"encoding/binary"
	"encoding/json"
	"fmt"
	"io"
	"math/rand"
	gonet "net"
	"os"
	"os/exec"
	"path/filepath"
	"strings"
	"sync"
	"syscall"
	"time"

	"github.com/lugu/qiloop/bus"
	"github.com/lugu/qiloop/bus/directory"
	"github.com/lugu/qiloop/bus/net"
	"github.com/lugu/qiloop/examples/pong"
	"github.com/lugu/qiloop/type/basic"
	"github.com/lugu/qiloop/type/value"
	"verif/harness/hlib"
)

// ---------------------------------------------------------------------------
// child: the server
// ---------------------------------------------------------------------------

type plainImpl struct{}

func (p *plainImpl) Activate(activation bus.Activation, helper pong.PingPongSignalHelper) error {
	return nil
}
func (p *plainImpl) OnTerminate()                   {}
func (p *plainImpl) Hello(a string) (string, error) { return "re:" + a, nil }
func (p *plainImpl) Ping(a string) error            { return nil }

type serveInfo struct {
	Ready bool   `json:"ready"`
	Addr  string `json:"addr"`
	Svc   uint32 `json:"svc"`
	Obj2  uint32 `json:"obj2"`
}

// c12-serve <dir>: starts the server, prints one JSON line, serves until stdin is closed.
func cmdC12Serve(args []string) {
	// a hostile count can make a decoder ask for tens of gigabytes: the request must fail, not be served
	lim := syscall.Rlimit{Cur: 6 << 30, Max: 6 << 30}
	syscall.Setrlimit(syscall.RLIMIT_AS, &lim)
	addr := "unix://" + filepath.Join(args[0], "sock")
	srv, err := directory.NewServer(addr, nil)
	if err != nil {
		hlib.Fatal("server: %v", err)
	}
	svc, err := srv.NewService("pong", pong.PingPongObject(&plainImpl{}))
	if err != nil {
		hlib.Fatal("service: %v", err)
	}
	obj2, err := svc.Add(pong.PingPongObject(&plainImpl{}))
	if err != nil {
		hlib.Fatal("object: %v", err)
	}
	b, _ := json.Marshal(serveInfo{true, addr, svc.ServiceID(), obj2})
	fmt.Println(string(b))
	io.Copy(io.Discard, os.Stdin)
	os.Exit(0)
}

// ---------------------------------------------------------------------------
// parent: hostile client and probe
// ---------------------------------------------------------------------------

type hostOp struct {
	K string `json:"k"`
	T string `json:"t"`
	A int    `json:"a"`
	X string `json:"x"`
}

type hostStep struct {
	Op  hostOp `json:"op"`
	Ans string `json:"ans"`
}

type hostExpect struct {
	Up      bool     `json:"up"`
	Serving []string `json:"serving"`
}

type hostCase struct {
	H []hostStep `json:"h"`
	E hostExpect `json:"e"`
}

type child struct {
	cmd    *exec.Cmd
	stdin  io.WriteCloser
	info   serveInfo
	dir    string
	stderr *bytes.Buffer
	exited chan struct{}
	victim *rawClient
}

const victimUID = 4242

func startChild() *child {
	dir, err := os.MkdirTemp(os.Getenv("VERIF_SCRATCH_DIR"), "c12-")
	if err != nil {
		hlib.Fatal("tmp: %v", err)
	}
	c := &child{dir: dir, stderr: &bytes.Buffer{}, exited: make(chan struct{})}
	c.cmd = exec.Command(os.Args[0], "c12-serve", dir)
	c.cmd.Stderr = c.stderr
	c.stdin, _ = c.cmd.StdinPipe()
	out, _ := c.cmd.StdoutPipe()
	if err := c.cmd.Start(); err != nil {
		hlib.Fatal("start server: %v", err)
	}
	line, err := bufio.NewReader(out).ReadString('\n')
	if err != nil || json.Unmarshal([]byte(line), &c.info) != nil || !c.info.Ready {
		hlib.Fatal("server child did not start: %v %s %s", err, line, c.stderr.String())
	}
	go func() { c.cmd.Wait(); close(c.exited) }()
	// a cooperative subscriber on a connection of its own
	v, err := dialRaw(c)
	if err != nil {
		hlib.Fatal("victim: %v", err)
	}
	for _, t := range []string{"dir", "p1", "p2"} {
		svc, obj := c.target(t)
		ans := v.request(svc, obj, 0, regPayload(obj, 102, victimUID), 5*time.Second)
		if ans != "reply" {
			hlib.Fatal("victim registration on %s: %s", t, ans)
		}
	}
	c.victim = v
	return c
}

func (c *child) alive() bool {
	select {
	case <-c.exited:
		return false
	default:
		return true
	}
}

func (c *child) stop() {
	if c.victim != nil {
		c.victim.conn.Close()
	}
	c.stdin.Close()
	select {
	case <-c.exited:
	case <-time.After(2 * time.Second):
		c.cmd.Process.Signal(syscall.SIGKILL)
		<-c.exited
	}
	os.RemoveAll(c.dir)
}

func (c *child) target(t string) (svc, obj uint32) {
	switch t {
	case "dir":
		return 1, 1
	case "p1":
		return c.info.Svc, 1
	case "ghost": // an object that does not exist (self-test of the probe)
		return c.info.Svc, 0x7ffffff0
	}
	return c.info.Svc, c.info.Obj2
}

// rawClient: a connection the harness drives frame by frame.
type rawClient struct {
	conn   gonet.Conn
	mu     sync.Mutex
	cond   *sync.Cond
	frames map[uint32]*net.Message
	eof    bool
	nextID uint32
	noRead bool
}

func dialRaw(c *child) (*rawClient, error) {
	conn, err := gonet.Dial("unix", strings.TrimPrefix(c.info.Addr, "unix://"))
	if err != nil {
		return nil, err
	}
	r := &rawClient{conn: conn, frames: map[uint32]*net.Message{}, nextID: 1}
	r.cond = sync.NewCond(&r.mu)
	go func() {
		for {
			m := new(net.Message)
			err := m.Read(conn)
			r.mu.Lock()
			if err != nil {
				r.eof = true
				r.cond.Broadcast()
				r.mu.Unlock()
				return
			}
			r.frames[m.Header.ID] = m
			r.cond.Broadcast()
			r.mu.Unlock()
		}
	}()
	var b bytes.Buffer
	bus.WriteCapabilityMap(bus.ClientCap("u", "t"), &b)
	if ans := r.request(0, 0, 8, b.Bytes(), 5*time.Second); ans != "reply" {
		conn.Close()
		return nil, fmt.Errorf("authenticate: %s", ans)
	}
	return r, nil
}

func (r *rawClient) send(typ uint8, svc, obj, act uint32, payload []byte) uint32 {
	r.nextID += 2
	id := r.nextID
	m := net.NewMessage(net.NewHeader(typ, svc, obj, act, id), payload)
	r.conn.SetWriteDeadline(time.Now().Add(5 * time.Second))
	m.Write(r.conn)
	return id
}

// wait returns "reply", "error", "closed" or "timeout".
func (r *rawClient) wait(id uint32, d time.Duration) string {
	deadline := time.Now().Add(d)
	t := time.AfterFunc(d, func() { r.mu.Lock(); r.cond.Broadcast(); r.mu.Unlock() })
	defer t.Stop()
	r.mu.Lock()
	defer r.mu.Unlock()
	for {
		if m, ok := r.frames[id]; ok {
			delete(r.frames, id)
			if m.Header.Type == net.Reply {
				return "reply"
			}
			return "error"
		}
		if r.eof {
			return "closed"
		}
		if time.Now().After(deadline) {
			return "timeout"
		}
		r.cond.Wait()
	}
}

func (r *rawClient) request(svc, obj, act uint32, payload []byte, d time.Duration) string {
	return r.wait(r.send(net.Call, svc, obj, act, payload), d)
}

func regPayload(obj, sig uint32, uid uint64) []byte {
	var b bytes.Buffer
	basic.WriteUint32(obj, &b)
	basic.WriteUint32(sig, &b)
	basic.WriteUint64(uid, &b)
	return b.Bytes()
}

// validPayload: a well-formed argument list for the action (the starting point of the mutations).
func validPayload(t string, act int, obj uint32) []byte {
	var b bytes.Buffer
	switch {
	case act == 0 || act == 1:
		return regPayload(obj, 102, 99)
	case act == 2 || act == 3:
		basic.WriteUint32(obj, &b)
	case act == 5:
		value.String("nothing").Write(&b)
	case act == 6:
		value.String("nothing").Write(&b)
		value.Int(1).Write(&b)
	case act == 8:
		basic.WriteUint32(obj, &b)
		basic.WriteUint32(102, &b)
		basic.WriteUint64(98, &b)
		basic.WriteString("(s)", &b)
	case act == 81 || act == 85:
		basic.WriteBool(true, &b)
	case t == "dir" && (act == 102 || act == 105):
		// ServiceInfo: name, serviceId, machineId, processId, endpoints, sessionId, objectUid
		basic.WriteString("hostile", &b)
		basic.WriteUint32(77, &b)
		basic.WriteString("m", &b)
		basic.WriteUint32(1, &b)
		basic.WriteUint32(1, &b) // one end point
		basic.WriteString("tcp://127.0.0.1:1", &b)
		basic.WriteString("s", &b)
		basic.WriteString("", &b)
	case t == "dir" && act == 100:
		basic.WriteString("pong", &b)
	case t == "dir" && (act == 103 || act == 104 || act == 109):
		basic.WriteUint32(4000, &b)
	case t != "dir" && (act == 100 || act == 101):
		basic.WriteString("x", &b)
	}
	return b.Bytes()
}

func garbagePayload(kind, t string, act int, obj uint32, rng *rand.Rand) []byte {
	v := validPayload(t, act, obj)
	switch kind {
	case "empty":
		return []byte{}
	case "trunc":
		if len(v) > 1 {
			return v[:len(v)/2]
		}
		return []byte{0x01}
	case "garbage":
		b := make([]byte, 1+rng.Intn(40))
		rng.Read(b)
		return b
	case "count":
		// every 32-bit field that can be a length or a count says 0xFFFFFFFF
		if t == "dir" && (act == 102 || act == 105) {
			var b bytes.Buffer
			basic.WriteString("hostile", &b)
			basic.WriteUint32(77, &b)
			basic.WriteString("m", &b)
			basic.WriteUint32(1, &b)
			binary.Write(&b, binary.LittleEndian, uint32(0xFFFFFFFF))
			return b.Bytes()
		}
		b := []byte{0xff, 0xff, 0xff, 0xff, 0xff, 0xff, 0xff, 0xff, 0xff, 0xff, 0xff, 0x7f, 1, 2, 3, 4}
		return b
	}
	return v
}

type probeResult struct {
	Target string `json:"target"`
	Answer string `json:"answer"`
}

// probe: a fresh client calls every object the specification expects to serve.
func probe(c *child, serving []string, d time.Duration) ([]probeResult, bool) {
	res := []probeResult{}
	ok := true
	r, err := dialRaw(c)
	if err != nil {
		for _, t := range serving {
			res = append(res, probeResult{t, "cannot connect or authenticate: " + err.Error()})
		}
		return res, false
	}
	defer r.conn.Close()
	for _, t := range serving {
		svc, obj := c.target(t)
		var ans string
		if t == "dir" {
			ans = r.request(svc, obj, 101, []byte{}, d) // services()
		} else {
			ans = r.request(svc, obj, 100, strPayload("probe"), d) // hello("probe")
		}
		res = append(res, probeResult{t, ans})
		if ans != "reply" {
			ok = false
		}
	}
	return res, ok
}

func crashReason(stderr string) string {
	for _, l := range strings.Split(stderr, "\n") {
		if strings.HasPrefix(l, "fatal error:") || strings.HasPrefix(l, "panic:") {
			return l
		}
	}
	return "process exited"
}

func crashClass(reason string) string {
	switch {
	case strings.Contains(reason, "concurrent map"):
		return "c12/crash-concurrent-map-access"
	case strings.Contains(reason, "makeslice") || strings.Contains(reason, "out of memory") || strings.Contains(reason, "out of range"):
		return "c12/crash-decoder-hostile-count"
	}
	return "c12/crash"
}

// runHostile plays one sequence on a new connection; returns what the hostile client saw.
func runHostile(c *child, hc *hostCase, seqNo int, rng *rand.Rand, floodAuth int) ([]string, error) {
	r, err := dialRaw(c)
	if err != nil {
		return nil, err
	}
	defer r.conn.Close()
	seen := []string{}
	fresh := uint64(1000000 + seqNo*100)
	last := map[string]uint64{}
	short := 3 * time.Second
	for _, st := range hc.H {
		op := st.Op
		svc, obj := c.target(op.T)
		ans := "none"
		switch op.K {
		case "reg":
			var uid uint64
			switch op.X {
			case "fresh":
				fresh++
				uid = fresh
			case "again":
				uid = last[op.T]
				if uid == 0 {
					fresh++
					uid = fresh
				}
			case "victim":
				uid = victimUID
			}
			id := r.send(net.Call, svc, obj, 0, regPayload(obj, 102, uid))
			if st.Ans != "none" {
				ans = r.wait(id, short)
			}
			if op.X != "victim" && last[op.T] == 0 {
				last[op.T] = uid
			}
		case "unreg":
			uid := uint64(555)
			if op.X == "mine" {
				uid = last[op.T]
				if uid == 0 {
					uid = 556
				}
			} else if op.X == "victim" {
				uid = victimUID
			}
			id := r.send(net.Call, svc, obj, 1, regPayload(obj, 102, uid))
			if st.Ans != "none" {
				ans = r.wait(id, short)
			}
			if op.X == "mine" {
				last[op.T] = 0
			}
		case "reg_wrongobj":
			fresh++
			ans = r.wait(r.send(net.Call, svc, obj, 0, regPayload(obj+7, 102, fresh)), short)
		case "unknown_action":
			ans = r.wait(r.send(net.Call, svc, obj, 9999, strPayload("x")), short)
		case "garbage":
			id := r.send(net.Call, svc, obj, uint32(op.A), garbagePayload(op.X, op.T, op.A, obj, rng))
			if st.Ans != "none" {
				ans = r.wait(id, short)
			}
		case "setprop":
			var b bytes.Buffer
			if op.X == "wrongname" {
				value.String("no-such-property").Write(&b)
				value.Int(1).Write(&b)
			} else {
				value.Int(3).Write(&b)
				value.String("x").Write(&b)
			}
			ans = r.wait(r.send(net.Call, svc, obj, 6, b.Bytes()), short)
		case "terminate_other":
			var b bytes.Buffer
			basic.WriteUint32(obj+13, &b)
			ans = r.wait(r.send(net.Call, svc, obj, 3, b.Bytes()), short)
		case "flood_calls":
			for i := 0; i < 25; i++ {
				r.send(net.Call, svc, obj, 100, strPayload("flood"))
			}
		case "flood_auth":
			var b bytes.Buffer
			bus.WriteCapabilityMap(bus.ClientCap("u", "t"), &b)
			for i := 0; i < floodAuth; i++ {
				r.send(net.Call, 0, 0, 8, b.Bytes())
			}
		case "disconnect":
			m := net.NewMessage(net.NewHeader(net.Call, svc, obj, 100, 9), strPayload("a long enough payload"))
			var b bytes.Buffer
			m.Write(&b)
			cut := 13
			if op.X == "payload" {
				cut = net.HeaderSize + 5
			}
			r.conn.Write(b.Bytes()[:cut])
		}
		seen = append(seen, ans)
		if !c.alive() {
			break
		}
	}
	return seen, nil
}

// c12-run <cases.ndjson> [floodAuth]
func cmdC12Run(args []string) {
	var res hlib.Result
	floodAuth := 3000
	if len(args) > 1 {
		fmt.Sscan(args[1], &floodAuth)
	}
	tb := 5 * time.Second
	if hlib.Thorough() {
		tb = 10 * time.Second
	}
	rng := rand.New(rand.NewSource(hlib.Seed()))
	var c *child
	defer func() {
		if c != nil {
			c.stop()
		}
	}()
	seqNo := 0
	restarts := 0
	failing := 0
	answers := map[string]int{}
	hlib.ReadLines(args[0], func(line []byte) {
		if failing >= 40 {
			return
		}
		var hc hostCase
		if err := json.Unmarshal(line, &hc); err != nil {
			hlib.Fatal("bad case: %v", err)
		}
		if c == nil {
			c = startChild()
		}
		seqNo++
		res.Evaluations++
		seen, err := runHostile(c, &hc, seqNo, rng, floodAuth)
		fail := func(class, detail string, extra map[string]interface{}) {
			if !strings.HasPrefix(class, "c12/crash") {
				failing++ // a hang costs two probe time-outs: stop early when they pile up; a crash is cheap
			}
			cs := map[string]interface{}{"sequence": hc.H, "hostile_saw": seen}
			for k, v := range extra {
				cs[k] = v
			}
			res.Fail(class, detail, cs)
			c.stop()
			c = nil
			restarts++
		}
		if err != nil && c.alive() {
			// the hostile client itself could not connect: the probe below tells whether the server still serves
			seen = []string{"connect: " + err.Error()}
		}
		// answers the hostile client got vs the specification (a missing answer is only recorded:
		// the property speaks about the other clients)
		for i, a := range seen {
			if i < len(hc.H) {
				answers[hc.H[i].Ans+"->"+a]++
			}
		}
		time.Sleep(2 * time.Millisecond) // let the server notice the disconnection
		pr, ok := probe(c, hc.E.Serving, tb)
		if !ok && c.alive() {
			// a busy machine ? an object that hangs stays hung: ask again
			pr2, ok2 := probe(c, hc.E.Serving, tb)
			if ok2 {
				pr, ok = pr2, true
				res.SetExtra("probe_retries", 1)
			}
		}
		if !ok {
			// a dying process refuses connections a little before its exit is seen
			select {
			case <-c.exited:
			case <-time.After(500 * time.Millisecond):
			}
		}
		if !c.alive() {
			reason := crashReason(c.stderr.String())
			fail(crashClass(reason), "the server process died: "+reason, map[string]interface{}{"probe": pr})
			return
		}
		if !ok {
			hung := []string{}
			for _, p := range pr {
				if p.Answer != "reply" {
					hung = append(hung, p.Target+":"+p.Answer)
				}
			}
			last := hc.H[len(hc.H)-1].Op
			class := "c12/object-stops-serving"
			for _, st := range hc.H {
				if st.Op.K == "reg" && (st.Op.X == "again" || st.Op.X == "victim") {
					class = "c12/object-stops-serving-after-duplicate-user-id"
				}
			}
			_ = last
			fail(class, fmt.Sprintf("after the hostile sequence a fresh client gets no answer from %v within %v (asked twice)", hung, tb),
				map[string]interface{}{"probe": pr})
			return
		}
		if seqNo%500 == 1 {
			res.Sample(map[string]interface{}{"sequence": hc.H, "hostile_saw": seen, "probe": pr})
		}
	})
	res.Distinct = seqNo
	res.SetExtra("server_restarts", restarts)
	res.SetExtra("hostile_answers", answers)
	res.Emit()
}

func init() {
	hlib.Register("c12-serve", cmdC12Serve)
	hlib.Register("c12-run", cmdC12Run)
}
