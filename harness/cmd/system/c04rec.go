package main

// C04 (c): randomised concurrent drivers on a real server; everything the
// hooks and the harness see is written as one trace per run, in the order of
// vhook's process-wide sequence counter, for TLC to validate against
// TraceSystem.tla.

import (
	"encoding/json"
	"fmt"
	"math/rand"
	"os"
	"path/filepath"
	"runtime"
	"sort"
	"sync"
	"time"

	"github.com/lugu/qiloop/bus/net"
	"github.com/lugu/qiloop/vhook"
	"verif/harness/hlib"
)

// trEvent: one line of the trace; every field always present (TLC compares values of one type only).
type trEvent struct {
	Ev   string `json:"ev"`
	C    string `json:"c"`
	K    string `json:"k"`
	ID   int    `json:"id"`
	Type string `json:"type"`
	Svc  int    `json:"svc"`
	Obj  int    `json:"obj"`
	Act  int    `json:"act"`
	Res  string `json:"res"`
	Kind string `json:"kind"`
	Val  string `json:"val"`
	Ok   bool   `json:"ok"`
	N    int    `json:"n"`
	Seq  int    `json:"seq"`
}

type trConfig struct {
	Ev      string            `json:"ev"`
	Calls   map[string]scCall `json:"calls"`
	Clients map[string]string `json:"clients"`
	Raws    map[string]scRaw  `json:"raws"`
	Conns   []string          `json:"conns"`
	Objs    []int             `json:"objs"`
	Fail    []string          `json:"fail"`
	Kind    string            `json:"kind"`
}

type plannedCall struct {
	tag string
	c   scCall
}

const missingObj = 9
const missingAct = 999

func (r *rig) realObj(o int) uint32 {
	if h, ok := r.objs[fmt.Sprint(o)]; ok {
		return h.id
	}
	return 0x7ffffff0 + uint32(o)
}

func (r *rig) modelObj(id uint32) int {
	for name, h := range r.objs {
		if h.id == id {
			o := 0
			fmt.Sscan(name, &o)
			return o
		}
	}
	if id >= 0x7ffffff0 {
		return int(id - 0x7ffffff0)
	}
	return -1
}

// normalise turns the recorded hook events into the vocabulary of TraceSystem.tla.
func (r *rig) normalise(evs []event) []trEvent {
	srvEp, cliEp := map[int]*hconn{}, map[int]*hconn{}
	for _, c := range r.conns {
		srvEp[c.srvEpID] = c
		cliEp[c.epID] = c
	}
	out := []trEvent{}
	hdr := func(c *hconn, kv map[string]interface{}, e *trEvent) {
		e.C = c.name
		e.ID = int(u32(kv["id"])) - int(c.base) + 1
		e.Type = typeName[uint8(u32(kv["type"]))]
		e.Svc = 1
		if u32(kv["service"]) != r.svcID {
			e.Svc = int(u32(kv["service"]))
		}
		e.Obj = r.modelObj(u32(kv["object"]))
		e.Act = int(u32(kv["action"]))
	}
	for i, e := range evs {
		t := trEvent{Seq: int(e.Seq)}
		switch e.Comp {
		case "harness":
			switch e.Ev {
			case "call", "raw":
				t.Ev, t.K = e.Ev, e.KV["tag"].(string)
			case "ret":
				t.Ev, t.K, t.Kind, t.Val = "ret", e.KV["tag"].(string), e.KV["kind"].(string), e.KV["val"].(string)
			case "exec_begin", "exec_end":
				t.Ev, t.K = e.Ev, e.KV["tag"].(string)
				fmt.Sscan(e.KV["obj"].(string), &t.Obj)
			default:
				continue
			}
		case "endpoint":
			if e.Ev != "dispatch" {
				continue
			}
			// outcome of this dispatch: the deliver/blocked events of the same end point before its next dispatch
			deliv, blocked, nonSniffer := 0, 0, 0
			var c *hconn
			server := false
			if x, ok := srvEp[e.Inst]; ok {
				c, server = x, true
			} else if x, ok := cliEp[e.Inst]; ok {
				c = x
			} else {
				continue
			}
			for _, f := range evs[i+1:] {
				if f.Comp != "endpoint" || f.Inst != e.Inst {
					continue
				}
				if f.Ev == "dispatch" || f.Ev == "shutdown" {
					break
				}
				if f.Ev == "deliver" {
					deliv++
					if s, _ := f.KV["slot"].(int); s != c.sniffer {
						nonSniffer++
					}
				}
				if f.Ev == "blocked" {
					blocked++
				}
			}
			hdr(c, e.KV, &t)
			if server {
				t.Ev = "sdisp"
				switch {
				case deliv > 0:
					t.Res = "deliver"
				case blocked > 0:
					t.Res = "blocked"
				default:
					t.Res = "nomatch"
				}
			} else {
				t.Ev, t.N = "cdisp", nonSniffer
			}
		case "server":
			c, ok := srvEp[e.Inst]
			if !ok || e.Ev != "fw" {
				continue
			}
			hdr(c, e.KV, &t)
			t.Ev, t.Ok = "fw", e.KV["ok"].(bool)
		case "mailbox":
			b := r.rec.box[e.Inst]
			if b == nil || b.svc != r.svcID {
				continue
			}
			switch e.Ev {
			case "recv":
				from, _ := e.KV["from"].(int)
				c, ok := srvEp[from]
				if !ok {
					continue
				}
				hdr(c, e.KV, &t)
				t.Ev = "recv"
			case "done":
				t.Ev, t.Obj = "done", r.modelObj(b.obj)
			}
		default:
			continue
		}
		out = append(out, t)
	}
	return out
}

type recPlan struct {
	cfg   trConfig
	byG   [][]plannedCall // per goroutine
	raws  []scRaw
	delay bool
	seq   []floodItem // flood: the requests in the order they are written
}

// floodItem: a call (made by a goroutine through the bus.Client) or a raw frame (a post).
type floodItem struct {
	call *plannedCall
	raw  *scRaw
}

func planRandom(rng *rand.Rand) *recPlan {
	p := &recPlan{cfg: trConfig{Ev: "config", Calls: map[string]scCall{}, Clients: map[string]string{},
		Raws: map[string]scRaw{}, Fail: []string{}, Kind: "random"}}
	nobj := 1 + rng.Intn(2)
	for o := 1; o <= nobj; o++ {
		p.cfg.Objs = append(p.cfg.Objs, o)
	}
	nconn := 1 + rng.Intn(3)
	for i := 0; i < nconn; i++ {
		cn := fmt.Sprintf("c%c", 'A'+i)
		p.cfg.Conns = append(p.cfg.Conns, cn)
		p.cfg.Clients["cl"+cn] = cn
	}
	ng := 2 + rng.Intn(4)
	perConn := map[string]int{}
	for g := 0; g < ng; g++ {
		cn := p.cfg.Conns[rng.Intn(nconn)]
		n := 1 + rng.Intn(4)
		var l []plannedCall
		for j := 0; j < n; j++ {
			tag := fmt.Sprintf("k%d_%d", g, j)
			c := scCall{Client: "cl" + cn, Conn: cn, Svc: 1, Obj: 1 + rng.Intn(nobj), Act: 100}
			switch rng.Intn(12) {
			case 0:
				c.Obj = missingObj
			case 1:
				c.Act = missingAct
			case 2:
				p.cfg.Fail = append(p.cfg.Fail, tag)
			}
			p.cfg.Calls[tag] = c
			l = append(l, plannedCall{tag, c})
			perConn[cn]++
		}
		p.byG = append(p.byG, l)
	}
	types := []string{"post", "post", "post", "cancel", "capability", "reply", "error", "event", "cancelled", "call"}
	nraw := rng.Intn(6)
	for i := 0; i < nraw; i++ {
		cn := p.cfg.Conns[rng.Intn(nconn)]
		t := types[rng.Intn(len(types))]
		rw := scRaw{Tag: fmt.Sprintf("r%d", i), Conn: cn, Type: t, Svc: 1, Obj: 1 + rng.Intn(nobj), Act: 100, Pl: "ok"}
		// ids of calls that are (or will be) in flight on that connection: 3, 5, ...
		rw.ID = 3 + 2*rng.Intn(perConn[cn]+1)
		if t == "call" {
			rw.ID = 1001 + 2*i // a second caller on the connection must pick ids of its own
		}
		switch rng.Intn(10) {
		case 0:
			rw.Obj = missingObj
		case 1:
			rw.Act = missingAct
		case 2:
			if t == "post" || t == "call" {
				rw.Pl = "bad"
			}
		}
		p.cfg.Raws[rw.Tag] = rw
		p.raws = append(p.raws, rw)
	}
	p.delay = rng.Intn(2) == 0
	return p
}

// planShared: SEVERAL bus.Client objects on one end point (what bus.NewClientObject builds): every client counts
// its ids from 1 and has a target of its own (object, or action on a shared object), so calls of different
// clients are in flight under equal ids.  Sometimes a second connection with an ordinary client.
func planShared(rng *rand.Rand) *recPlan {
	p := &recPlan{cfg: trConfig{Ev: "config", Calls: map[string]scCall{}, Clients: map[string]string{},
		Raws: map[string]scRaw{}, Fail: []string{}, Kind: "shared", Conns: []string{"cA"}}}
	ncl := 2 + rng.Intn(2)
	nobj := 2
	p.cfg.Objs = []int{1, 2}
	type target struct{ obj, act int }
	targets := []target{{1, 100}, {2, 100}, {1, 101}, {2, 101}}
	rng.Shuffle(len(targets), func(i, j int) { targets[i], targets[j] = targets[j], targets[i] })
	g := 0
	add := func(cl, cn string, t target, n int) {
		var l []plannedCall
		for j := 0; j < n; j++ {
			tag := fmt.Sprintf("k%d_%d", g, j)
			c := scCall{Client: cl, Conn: cn, Svc: 1, Obj: t.obj, Act: t.act}
			if t.act == 100 && rng.Intn(10) == 0 {
				p.cfg.Fail = append(p.cfg.Fail, tag)
			}
			p.cfg.Calls[tag] = c
			l = append(l, plannedCall{tag, c})
		}
		p.byG = append(p.byG, l)
		g++
	}
	maxCalls := 0
	for i := 0; i < ncl; i++ {
		cl := fmt.Sprintf("cl%d", i+1)
		p.cfg.Clients[cl] = "cA"
		// every client is fresh (counter 1): the i-th call of each of them carries the same id
		n := 1 + rng.Intn(3)
		if n > maxCalls {
			maxCalls = n
		}
		add(cl, "cA", targets[i], n)
		if rng.Intn(3) == 0 {
			add(cl, "cA", targets[i], 1+rng.Intn(2)) // a second goroutine on the same client
		}
	}
	if rng.Intn(2) == 0 {
		p.cfg.Conns = append(p.cfg.Conns, "cB")
		p.cfg.Clients["clcB"] = "cB"
		add("clcB", "cB", target{1 + rng.Intn(nobj), 100}, 1+rng.Intn(3))
	}
	// posts and the other kinds with the ids everybody uses
	types := []string{"post", "post", "cancel", "capability", "reply", "error"}
	for i := 0; i < rng.Intn(4); i++ {
		t := types[rng.Intn(len(types))]
		rw := scRaw{Tag: fmt.Sprintf("r%d", i), Conn: "cA", Type: t, Svc: 1, Obj: 1 + rng.Intn(nobj), Act: 100 + rng.Intn(2),
			Pl: "ok", ID: 3 + 2*rng.Intn(maxCalls)}
		p.cfg.Raws[rw.Tag] = rw
		p.raws = append(p.raws, rw)
	}
	p.delay = rng.Intn(2) == 0
	return p
}

// planFlood: saturation.  One connection; the first call parks in the method (harness gate), then more calls AND
// posts than the mailbox (10), the consumer (1) and the consumer queue (10) can hold, one frame at a time: the
// overflow is dropped by endPoint.dispatch - a dropped Call is answered "consumer blocked", a dropped Post by
// nothing.  The tail alternates posts and calls so that both kinds are dropped.  Half of the posts carry the id
// of a call in flight, the others an id no call uses (even).
func planFlood(rng *rand.Rand) *recPlan {
	p := &recPlan{cfg: trConfig{Ev: "config", Calls: map[string]scCall{}, Clients: map[string]string{"clcA": "cA"},
		Raws: map[string]scRaw{}, Fail: []string{}, Kind: "flood", Conns: []string{"cA"}, Objs: []int{1}}}
	n := 27 + rng.Intn(7)
	ncalls, nposts := 0, 0
	for j := 0; j < n; j++ {
		post := j > 0 && rng.Intn(5) < 2
		if j >= n-6 {
			post = (n-j)%2 == 0
		}
		if post {
			rw := scRaw{Tag: fmt.Sprintf("r%d", nposts), Conn: "cA", Type: "post", Svc: 1, Obj: 1, Act: 100, Pl: "ok"}
			if nposts%2 == 0 {
				rw.ID = 3 + 2*rng.Intn(ncalls+1) // the id of a call in flight (or of the next one)
			} else {
				rw.ID = 1000 + 2*nposts
			}
			nposts++
			p.cfg.Raws[rw.Tag] = rw
			p.raws = append(p.raws, rw)
			p.seq = append(p.seq, floodItem{raw: &rw})
			continue
		}
		tag := fmt.Sprintf("k%d", ncalls)
		ncalls++
		c := scCall{Client: "clcA", Conn: "cA", Svc: 1, Obj: 1, Act: 100}
		p.cfg.Calls[tag] = c
		pc := plannedCall{tag, c}
		p.byG = append(p.byG, []plannedCall{pc})
		p.seq = append(p.seq, floodItem{call: &pc})
	}
	return p
}

func (r *rig) sendRaw(rw scRaw) error {
	c := r.conns[rw.Conn]
	svc := r.svcID
	if rw.Svc != 1 {
		svc = 0x7fff0000 + uint32(rw.Svc)
	}
	payload := strPayload(rw.Tag)
	if rw.Pl == "bad" {
		payload = []byte{0xff, 0xff, 0xff, 0x7f}
	}
	hdr := net.NewHeader(typeCode[rw.Type], svc, r.realObj(rw.Obj), uint32(rw.Act), c.base+uint32(rw.ID)-1)
	vhook.Emit("harness", nil, "raw", "tag", rw.Tag, "rig", r.gen)
	return c.ep.Send(net.NewMessage(hdr, payload))
}

func (r *rig) doCall(cl *caller, pc plannedCall) {
	px, err := cl.proxy("probe", r.svcID, r.realObj(pc.c.Obj))
	if err != nil {
		hlib.Fatal("proxy: %v", err)
	}
	vhook.Emit("harness", nil, "call", "tag", pc.tag, "rig", r.gen)
	out := invoke(cl, px, pc.c.Act, pc.tag)
	vhook.Emit("harness", nil, "ret", "tag", pc.tag, "kind", out.Kind, "val", out.Val, "rig", r.gen)
}

// recordOne runs one plan; returns the trace and "" or a description of a hang.
func recordOne(p *recPlan, rng *rand.Rand) ([]trEvent, string) {
	names := []string{}
	for _, o := range p.cfg.Objs {
		names = append(names, fmt.Sprint(o))
	}
	flood := p.cfg.Kind == "flood"
	r, err := newRig(newAuth("yes", nil), names, flood)
	if err != nil {
		hlib.Fatal("rig: %v", err)
	}
	defer r.close()
	for _, t := range p.cfg.Fail {
		r.fail[t] = true
	}
	if p.delay {
		for _, o := range r.objs {
			o.impl.delay = func() {
				if rand.Intn(3) == 0 {
					time.Sleep(time.Duration(rand.Intn(200)) * time.Microsecond)
				} else {
					runtime.Gosched()
				}
			}
		}
	}
	for _, cn := range p.cfg.Conns {
		if _, err := r.connect(cn); err != nil {
			hlib.Fatal("connect: %v", err)
		}
	}
	callers, shared, err := r.buildCallers(p.cfg.Clients, map[int]uint32{1: r.svcID})
	if err != nil {
		return nil, "set-up call: " + err.Error()
	}
	if !r.w.waitFor(3*tBound, func() bool { return r.settledLocked(nil, nil) }) {
		return nil, "set-up does not settle: " + r.dump()
	}
	r.w.mu.Lock()
	for _, c := range r.conns {
		c.base = c.cli.w.lastID
		if shared[c.name] {
			c.base = 1
		}
	}
	r.rec.keep = true
	r.w.mu.Unlock()

	var wg sync.WaitGroup
	hang := ""
	if flood {
		// one request at a time so that at most one request has unobserved steps pending; nothing is released
		// before the last frame was dispatched (the error answer of the drop step is written by the reader
		// goroutine: no answer of another goroutine can slip in between)
		c := r.conns["cA"]
		h := c.cli.w
		for _, it := range p.seq {
			r.w.mu.Lock()
			before := h.frames
			r.w.mu.Unlock()
			if it.raw != nil {
				r.sendRaw(*it.raw)
			} else {
				wg.Add(1)
				go func(pc plannedCall) { defer wg.Done(); r.doCall(callers[pc.c.Client], pc) }(*it.call)
			}
			r.w.waitFor(tBound, func() bool { return h.frames > before })
			// the frame has reached the server's reader and was dispatched
			r.w.waitFor(tBound, func() bool { return c.srv.r.idleLocked() && r.rec.epc(c.srvEpID).dispatch == c.cli.w.frames })
			time.Sleep(200 * time.Microsecond)
		}
		// let everything go
		r.gmu.Lock()
		r.gating = false
		for _, ch := range r.gates {
			select {
			case <-ch:
			default:
				close(ch)
			}
		}
		r.gmu.Unlock()
	} else {
		for _, l := range p.byG {
			wg.Add(1)
			go func(l []plannedCall) {
				defer wg.Done()
				for _, pc := range l {
					r.doCall(callers[pc.c.Client], pc)
				}
			}(l)
		}
		wg.Add(1)
		go func() {
			defer wg.Done()
			for _, rw := range p.raws {
				if rng.Intn(2) == 0 {
					time.Sleep(time.Duration(rng.Intn(300)) * time.Microsecond)
				}
				r.sendRaw(rw)
			}
		}()
	}
	done := make(chan struct{})
	go func() { wg.Wait(); close(done) }()
	select {
	case <-done:
	case <-time.After(tBound):
		hang = "calls still pending after " + tBound.String()
	}
	r.w.waitFor(tBound, func() bool { return r.settledLocked(nil, nil) })
	r.w.mu.Lock()
	evs := append([]event{}, r.rec.evs...)
	r.rec.keep = false
	r.w.mu.Unlock()
	return r.normalise(evs), hang
}

func writeTrace(path string, cfg *trConfig, evs []trEvent) {
	f, err := os.Create(path)
	if err != nil {
		hlib.Fatal("create: %v", err)
	}
	defer f.Close()
	enc := json.NewEncoder(f)
	sort.Strings(cfg.Conns)
	enc.Encode(cfg)
	for _, e := range evs {
		enc.Encode(e)
	}
}

// c04-record <outdir> <n>: n traces (of five: three random, one with several clients on one end point, one flood), files trace-<i>.ndjson
func cmdC04Record(args []string) {
	if len(args) < 2 {
		hlib.Fatal("usage: c04-record <outdir> <n>")
	}
	n := 0
	fmt.Sscan(args[1], &n)
	var res hlib.Result
	files := []string{}
	hung := []string{}
	events := 0
	for i := 0; i < n; i++ {
		rng := rand.New(rand.NewSource(hlib.Seed()*100003 + int64(i)))
		var p *recPlan
		switch i % 5 {
		case 4:
			p = planFlood(rng)
		case 2:
			p = planShared(rng)
		default:
			p = planRandom(rng)
		}
		evs, hang := recordOne(p, rng)
		path := filepath.Join(args[0], fmt.Sprintf("trace-%d.ndjson", i))
		writeTrace(path, &p.cfg, evs)
		files = append(files, path)
		events += len(evs)
		res.Evaluations++
		if hang != "" {
			hung = append(hung, path)
			res.Fail("c04/no-outcome", hang, map[string]interface{}{"trace": path, "kind": p.cfg.Kind})
		}
	}
	res.Distinct = n
	res.SetExtra("traces", files)
	res.SetExtra("hung", hung)
	res.SetExtra("events", events)
	res.Emit()
}

func init() { hlib.Register("c04-record", cmdC04Record) }
