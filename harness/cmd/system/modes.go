package main

// Extension "modes" of C12 (spec/ObjectModes.tla): the per-object observation
// modes (statistics, tracing) of a served object and what they do to the
// message path.
//
//   modes-replay <tests.ndjson> <raw|proxy>   behaviours exported by GenObjectModes replayed on a real
//                                             server; the cases run in a CHILD process (the server lives
//                                             there): a crash or a hang of qiloop is attributed to the case
//                                             the journal names, the child is restarted behind it, and a
//                                             failure budget ends a broken tree within minutes
//   modes-child  <tests> <from> <mode>        the child: one fresh server per case, the clients of the
//                                             specification as raw unix-socket connections (or through the
//                                             generated proxies), one journal line per case on stdout
//   modes-record <out.ndjson> <rounds>        free-running concurrent clients; the hook events of the object
//                                             and of its subscriber table are written for TraceObjectModes
//   modes-rec-child ...                       the child of modes-record

import (
	"bufio"
	"bytes"
	"encoding/binary"
	"encoding/json"
	"fmt"
	"math/rand"
	gonet "net"
	"os"
	"os/exec"
	"path/filepath"
	"runtime"
	"runtime/debug"
	"sort"
	"strconv"
	"strings"
	"sync"
	"sync/atomic"
	"syscall"
	"time"

	"github.com/lugu/qiloop/bus"
	"github.com/lugu/qiloop/bus/net"
	"github.com/lugu/qiloop/examples/pong"
	"github.com/lugu/qiloop/type/basic"
	"github.com/lugu/qiloop/vhook"
	"verif/harness/hlib"
)

func init() {
	hlib.Register("modes-late", cmdModesLate)
	hlib.Register("modes-late-child", cmdModesLateChild)
	hlib.Register("modes-replay", cmdModesReplay)
	hlib.Register("modes-child", cmdModesChild)
	hlib.Register("modes-record", cmdModesRecord)
	hlib.Register("modes-rec-child", cmdModesRecChild)
}

const (
	mdReg, mdUnreg                      = 0, 1
	mdIsStats, mdEStats, mdStats        = 80, 81, 82
	mdClear, mdIsTrace, mdETrace        = 83, 84, 85
	mdHello, mdFire                     = 100, 101
	mdSigT, mdSigS                      = 86, 102
	mdBarrierID                  uint32 = 1 << 20
	mdBound                             = 8 * time.Second // unix sockets on one machine: normal latency is well below a millisecond
	mdEventBound                        = 3 * time.Second // an event the proxies forward after the call that caused it has returned
)

var mdActName = map[int]string{mdReg: "registerEvent", mdUnreg: "unregisterEvent", mdIsStats: "isStatsEnabled", mdEStats: "enableStats",
	mdStats: "stats", mdClear: "clearStats", mdIsTrace: "isTraceEnabled", mdETrace: "enableTrace", mdHello: "hello", mdFire: "ping"}

// ---------------------------------------------------------------------------
// the exported behaviours
// ---------------------------------------------------------------------------

type mdCmd struct {
	O   string `json:"o"`
	C   int    `json:"c"`
	N   int    `json:"n"`
	A   int    `json:"a"`
	Sig int    `json:"sig"`
	U   int    `json:"u"`
	B   int    `json:"b"`
}

type mdFrame struct {
	K   int      `json:"k"`
	N   int      `json:"n"`
	Sig int      `json:"sig"`
	E   int      `json:"e"`
	ID  int      `json:"id"`
	Tk  int      `json:"tk"`
	Ts  int      `json:"ts"`
	R   int      `json:"r"`
	Cnt [][2]int `json:"cnt"`
}

type mdPost struct {
	Out     [][]mdFrame `json:"out"`
	Stats   bool        `json:"stats"`
	Trace   bool        `json:"trace"`
	Subs    [][4]int    `json:"subs"`
	Crashed bool        `json:"crashed"`
}

type mdCase struct {
	ID    int        `json:"id"`
	Cmds  []mdCmd    `json:"cmds"`
	Cands [][]mdPost `json:"cands"` // the outcomes of the specification for this command sequence
}

func mdLoad(path string) []mdCase {
	var cs []mdCase
	hlib.ReadLines(path, func(line []byte) {
		var c mdCase
		if err := json.Unmarshal(line, &c); err != nil {
			hlib.Fatal("bad case: %v", err)
		}
		cs = append(cs, c)
	})
	return cs
}

// ---------------------------------------------------------------------------
// the served object
// ---------------------------------------------------------------------------

type mdImpl struct {
	helper  pong.PingPongSignalHelper
	mu      sync.Mutex
	emitEr  []string
	gate    chan struct{} // hello("wait") returns when it is closed (nil: at once)
	entered chan struct{}
}

func (p *mdImpl) Activate(activation bus.Activation, helper pong.PingPongSignalHelper) error {
	p.helper = helper
	return nil
}
func (p *mdImpl) OnTerminate() {}
func (p *mdImpl) Hello(a string) (string, error) {
	if a == "wait" && p.gate != nil {
		p.entered <- struct{}{}
		<-p.gate
	}
	return "re:" + a, nil
}

// Ping emits the user signal before it returns (the emitter of the specification runs in the
// object's own goroutine).  A subscriber that cannot be reached is not the caller's problem.
func (p *mdImpl) Ping(a string) error {
	if err := p.helper.SignalPong(a); err != nil {
		p.mu.Lock()
		p.emitEr = append(p.emitEr, err.Error())
		p.mu.Unlock()
	}
	return nil
}

type mdServer struct {
	srv   bus.Server
	path  string
	svc   uint32
	bar   uint32 // a second object of the service, never put into any mode: the barrier
	impl  *mdImpl
	table *mdTable
}

// the subscriber table of the object as the hooks of bus/signal.go report it
type mdTable struct {
	mu   sync.Mutex
	cond *sync.Cond
	user map[int]int // user id -> signal
	evs  int
	anon bool
}

func newMdTable() *mdTable {
	t := &mdTable{user: map[int]int{}}
	t.cond = sync.NewCond(&t.mu)
	return t
}

func mdInt(v interface{}) int {
	switch x := v.(type) {
	case int:
		return x
	case float64:
		return int(x)
	case uint32:
		return int(x)
	case uint64:
		return int(x)
	case int64:
		return int(x)
	case uint8:
		return int(x)
	case int32:
		return int(x)
	case bool:
		if x {
			return 1
		}
		return 0
	}
	return -1
}

func (t *mdTable) sink(e vhook.Event) {
	if e.Comp != "signal" || (e.Ev != "add" && e.Ev != "remove") {
		return
	}
	m := e.Map()
	t.mu.Lock()
	if e.Ev == "add" {
		t.user[mdInt(m["user"])] = mdInt(m["signal"])
	} else {
		delete(t.user, mdInt(m["user"]))
	}
	t.evs++
	t.cond.Broadcast()
	t.mu.Unlock()
}

func (t *mdTable) equals(subs [][4]int) bool {
	if len(subs) != len(t.user) {
		return false
	}
	if t.anon { // the proxies draw the user ids: the signals, with multiplicity
		n := map[int]int{}
		for _, s := range subs {
			n[s[1]]++
		}
		for _, sig := range t.user {
			n[sig]--
		}
		for _, k := range n {
			if k != 0 {
				return false
			}
		}
		return true
	}
	for _, s := range subs {
		if sig, ok := t.user[s[0]]; !ok || sig != s[1] {
			return false
		}
	}
	return true
}

func (t *mdTable) waitEquals(subs [][4]int, d time.Duration) (bool, string) {
	timer := time.AfterFunc(d, func() { t.mu.Lock(); t.cond.Broadcast(); t.mu.Unlock() })
	defer timer.Stop()
	deadline := time.Now().Add(d)
	t.mu.Lock()
	defer t.mu.Unlock()
	for !t.equals(subs) {
		if time.Now().After(deadline) {
			return false, fmt.Sprintf("%v", t.user)
		}
		t.cond.Wait()
	}
	return true, ""
}

var mdSockN int

func mdStartServer(withTable bool) (*mdServer, error) {
	dir := os.Getenv("VERIF_SCRATCH_DIR")
	if dir == "" {
		dir = os.TempDir()
	}
	mdSockN++
	s := &mdServer{path: filepath.Join(dir, fmt.Sprintf("md%d-%d.sock", os.Getpid(), mdSockN)), impl: &mdImpl{}}
	os.Remove(s.path)
	if withTable {
		s.table = newMdTable()
		vhook.SetSink(s.table.sink)
	}
	lis, err := net.Listen("unix://" + s.path)
	if err != nil {
		return nil, err
	}
	srv, err := bus.StandAloneServer(lis, bus.Yes{}, bus.PrivateNamespace())
	if err != nil {
		return nil, err
	}
	s.srv = srv
	svc, err := srv.NewService("modes", pong.PingPongObject(s.impl))
	if err != nil {
		return nil, err
	}
	s.svc = svc.ServiceID()
	s.bar, err = svc.Add(pong.PingPongObject(&mdImpl{}))
	if err != nil {
		return nil, err
	}
	return s, nil
}

func (s *mdServer) stop() {
	done := make(chan struct{})
	go func() { s.srv.Terminate(); close(done) }()
	select {
	case <-done:
	case <-time.After(2 * time.Second):
	}
	os.Remove(s.path)
}

// ---------------------------------------------------------------------------
// a raw client connection: the harness reads and writes the frames itself
// ---------------------------------------------------------------------------

type mdConn struct {
	conn   gonet.Conn
	mu     sync.Mutex
	cond   *sync.Cond
	frames []*net.Message
	mark   int
	eof    bool
	closed bool
	bar    uint32
}

func mdDial(s *mdServer) (*mdConn, error) {
	conn, err := gonet.Dial("unix", s.path)
	if err != nil {
		return nil, err
	}
	c := &mdConn{conn: conn, bar: mdBarrierID}
	c.cond = sync.NewCond(&c.mu)
	go func() {
		for {
			m := new(net.Message)
			err := m.Read(conn)
			c.mu.Lock()
			if err != nil {
				c.eof = true
				c.cond.Broadcast()
				c.mu.Unlock()
				return
			}
			c.frames = append(c.frames, m)
			c.cond.Broadcast()
			c.mu.Unlock()
		}
	}()
	var b bytes.Buffer
	bus.WriteCapabilityMap(bus.ClientCap("u", "t"), &b)
	c.bar++
	if err := c.send(net.Call, 0, 0, 8, c.bar, b.Bytes()); err != nil {
		conn.Close()
		return nil, err
	}
	if m := c.wait(c.bar, mdBound); m == nil || m.Header.Type != net.Reply {
		conn.Close()
		return nil, fmt.Errorf("authentication not answered")
	}
	return c, nil
}

func (c *mdConn) send(typ uint8, svc, obj, act, id uint32, payload []byte) error {
	var b bytes.Buffer
	m := net.NewMessage(net.NewHeader(typ, svc, obj, act, id), payload)
	if err := m.Write(&b); err != nil {
		return err
	}
	c.conn.SetWriteDeadline(time.Now().Add(mdBound))
	_, err := c.conn.Write(b.Bytes())
	return err
}

// wait: the answer (reply or error) to request id, nil when it does not come.
func (c *mdConn) wait(id uint32, d time.Duration) *net.Message {
	timer := time.AfterFunc(d, func() { c.mu.Lock(); c.cond.Broadcast(); c.mu.Unlock() })
	defer timer.Stop()
	deadline := time.Now().Add(d)
	c.mu.Lock()
	defer c.mu.Unlock()
	seen := 0
	for {
		for ; seen < len(c.frames); seen++ {
			m := c.frames[seen]
			if m.Header.ID == id && (m.Header.Type == net.Reply || m.Header.Type == net.Error) {
				return m
			}
		}
		if c.eof || time.Now().After(deadline) {
			return nil
		}
		c.cond.Wait()
	}
}

// barrier: a call to the OTHER object of the service; what the object under test wrote to this
// connection before is read before the barrier's answer (one socket, FIFO).
func (c *mdConn) barrier(s *mdServer) bool {
	c.bar++
	var b bytes.Buffer
	basic.WriteString("barrier", &b)
	if c.send(net.Call, s.svc, s.bar, mdHello, c.bar, b.Bytes()) != nil {
		return false
	}
	return c.wait(c.bar, mdBound) != nil
}

// take: the frames read since the last take, without the barrier traffic.
func (c *mdConn) take() []*net.Message {
	c.mu.Lock()
	defer c.mu.Unlock()
	var out []*net.Message
	for _, m := range c.frames[c.mark:] {
		if m.Header.ID < mdBarrierID {
			out = append(out, m)
		}
	}
	c.mark = len(c.frames)
	return out
}

func mdRegPayload(obj uint32, sig, u int) []byte {
	var b bytes.Buffer
	basic.WriteUint32(obj, &b)
	basic.WriteUint32(uint32(sig), &b)
	basic.WriteUint64(uint64(u), &b)
	return b.Bytes()
}

func mdStr(s string) []byte {
	var b bytes.Buffer
	basic.WriteString(s, &b)
	return b.Bytes()
}

// ---------------------------------------------------------------------------
// observation -> the frames of the specification
// ---------------------------------------------------------------------------

type mdEventTrace struct{ ID, Kind, Slot int }

func mdDecodeTrace(p []byte) (mdEventTrace, error) {
	if len(p) < 12 {
		return mdEventTrace{}, fmt.Errorf("trace event of %d bytes", len(p))
	}
	return mdEventTrace{int(binary.LittleEndian.Uint32(p[0:])), int(int32(binary.LittleEndian.Uint32(p[4:]))),
		int(binary.LittleEndian.Uint32(p[8:]))}, nil
}

// stats(): map<uint32, MethodStatistics{count uint32, 3 x (min, max, sum float32)}>
func mdDecodeStats(p []byte) (map[int]int, error) {
	if len(p) < 4 {
		return nil, fmt.Errorf("statistics of %d bytes", len(p))
	}
	n := int(binary.LittleEndian.Uint32(p))
	if len(p) != 4+n*44 {
		return nil, fmt.Errorf("statistics: %d entries in %d bytes", n, len(p))
	}
	m := map[int]int{}
	for i := 0; i < n; i++ {
		e := p[4+i*44:]
		m[int(binary.LittleEndian.Uint32(e))] = int(binary.LittleEndian.Uint32(e[4:]))
	}
	return m, nil
}

// mdCanon: one line per frame, the form in which expectation and observation are compared.
// Trace identifiers are compared up to a constant offset (off: observed - specified, fixed by
// the first trace event of the case).
type mdCanonCtx struct {
	haveOff bool
	off     int
	fires   map[string]int // payload of a user event -> number of the emission
}

func (x *mdCanonCtx) expected(f mdFrame, acts map[int]int) string {
	switch f.K {
	case 5:
		if f.Sig == mdSigT {
			return fmt.Sprintf("trace reg=%d id=%d kind=%d slot=%d", f.N, f.ID, f.Tk, f.Ts)
		}
		return fmt.Sprintf("event reg=%d sig=%d emission=%d", f.N, f.Sig, f.E)
	}
	s := fmt.Sprintf("answer n=%d %s", f.N, map[int]string{2: "reply", 3: "error"}[f.K])
	if f.K == 2 {
		switch acts[f.N] {
		case mdIsStats, mdIsTrace:
			s += fmt.Sprintf(" value=%d", f.R)
		case mdStats:
			cnt := append([][2]int{}, f.Cnt...)
			sort.Slice(cnt, func(i, j int) bool { return cnt[i][0] < cnt[j][0] })
			s += fmt.Sprintf(" counts=%v", cnt)
		}
	}
	return s
}

func (x *mdCanonCtx) observed(m *net.Message, acts map[int]int) string {
	n := int(m.Header.ID)
	switch m.Header.Type {
	case net.Event:
		if m.Header.Action == mdSigT {
			t, err := mdDecodeTrace(m.Payload)
			if err != nil {
				return "trace undecodable: " + err.Error()
			}
			return fmt.Sprintf("trace reg=%d id=%d kind=%d slot=%d", n, t.ID-x.off, t.Kind, t.Slot)
		}
		var e int
		if s, err := basic.ReadString(bytes.NewBuffer(m.Payload)); err == nil {
			e = x.fires[s]
		}
		return fmt.Sprintf("event reg=%d sig=%d emission=%d", n, m.Header.Action, e)
	case net.Reply:
		s := fmt.Sprintf("answer n=%d reply", n)
		switch acts[n] {
		case mdIsStats, mdIsTrace:
			v := -1
			if len(m.Payload) == 1 {
				v = int(m.Payload[0])
			}
			s += fmt.Sprintf(" value=%d", v)
		case mdStats:
			st, err := mdDecodeStats(m.Payload)
			if err != nil {
				return s + " " + err.Error()
			}
			cnt := [][2]int{}
			for a, c := range st {
				if c > 0 {
					cnt = append(cnt, [2]int{a, c})
				}
			}
			sort.Slice(cnt, func(i, j int) bool { return cnt[i][0] < cnt[j][0] })
			s += fmt.Sprintf(" counts=%v", cnt)
		}
		return s
	case net.Error:
		return fmt.Sprintf("answer n=%d error", n)
	}
	return fmt.Sprintf("frame type=%d action=%d id=%d", m.Header.Type, m.Header.Action, n)
}

// align fixes the offset of the trace identifiers with the first trace event both sides have.
func (x *mdCanonCtx) align(exp []mdFrame, obs []*net.Message) {
	if x.haveOff {
		return
	}
	want := -1
	for _, f := range exp {
		if f.K == 5 && f.Sig == mdSigT {
			want = f.ID
			break
		}
	}
	for _, m := range obs {
		if m.Header.Type == net.Event && m.Header.Action == mdSigT {
			if t, err := mdDecodeTrace(m.Payload); err == nil && want >= 0 {
				x.off = t.ID - want
				x.haveOff = true
			}
			break
		}
	}
}

// mdClassify names what differs between the expected and the observed frames of one connection.
func mdClassify(exp, obs []string, cmd mdCmd, unregistered map[int]bool) (string, string) {
	count := func(l []string, prefix string) map[string]int {
		m := map[string]int{}
		for _, s := range l {
			if strings.HasPrefix(s, prefix) {
				m[s]++
			}
		}
		return m
	}
	act := mdActName[cmd.A]
	if cmd.O == "disc" {
		act = "disconnect"
	}
	// the answer
	var ea, oa string
	for _, s := range exp {
		if strings.HasPrefix(s, "answer") {
			ea = s
		}
	}
	for _, s := range obs {
		if strings.HasPrefix(s, "answer") {
			oa = s
		}
	}
	if ea != oa {
		switch {
		case oa == "":
			return "modes/answer/missing/" + act, "expected " + ea
		case ea == "":
			return "modes/answer/unexpected/" + act, "got " + oa
		case strings.Contains(ea, " reply") && strings.Contains(oa, " error"):
			if cmd.A == mdUnreg {
				return "modes/unregister/own-registration-refused", "expected " + ea + ", got " + oa
			}
			return "modes/answer/error-instead-of-reply/" + act, "expected " + ea + ", got " + oa
		case strings.Contains(ea, " error") && strings.Contains(oa, " reply"):
			return "modes/answer/reply-instead-of-error/" + act, "expected " + ea + ", got " + oa
		case strings.Contains(ea, "counts="):
			return "modes/stats/counters", "expected " + ea + ", got " + oa
		default:
			return "modes/answer/value/" + act, "expected " + ea + ", got " + oa
		}
	}
	for _, kind := range []string{"event", "trace"} {
		e, o := count(exp, kind), count(obs, kind)
		for s, n := range o {
			if n > e[s] {
				var reg int
				fmt.Sscanf(s[strings.Index(s, "reg=")+4:], "%d", &reg)
				switch {
				case unregistered[reg]:
					return "modes/" + kind + "/after-unregister", fmt.Sprintf("%q was delivered %d time(s), expected %d", s, n, e[s])
				case e[s] > 0:
					return "modes/" + kind + "/duplicated", fmt.Sprintf("%q was delivered %d time(s), expected %d", s, n, e[s])
				}
				return "modes/" + kind + "/unexpected", fmt.Sprintf("%q was delivered, not expected", s)
			}
		}
		for s, n := range e {
			if n > o[s] {
				return "modes/" + kind + "/missing", fmt.Sprintf("%q expected %d time(s), delivered %d", s, n, o[s])
			}
		}
	}
	return "modes/order", "the same frames in another order"
}

// ---------------------------------------------------------------------------
// one case, raw connections
// ---------------------------------------------------------------------------

type mdFail struct {
	Class  string      `json:"class"`
	Detail string      `json:"detail"`
	Step   int         `json:"step"`
	Extra  interface{} `json:"extra,omitempty"`
	Wedged bool        `json:"wedged,omitempty"` // the server of the case is not at rest: the child must not go on
}

// mdWhyStuck looks at the goroutines of the process (the server lives here): a message path that
// calls itself without end is named as such.
func mdWhyStuck(class string) (string, string) {
	buf := make([]byte, 4<<20)
	dump := string(buf[:runtime.Stack(buf, true)])
	if n := strings.Count(dump, "(*objectImpl).Trace("); n >= 10 {
		return "modes/runaway/message-path-recurses-without-end",
			fmt.Sprintf("; a goroutine of the server is %d+ frames deep in objectImpl.Trace -> UpdateSignal -> tracedChannel.Send -> objectImpl.Trace", n)
	}
	for _, g := range strings.Split(dump, "\n\n") {
		if strings.Contains(g, "bus.(*mailBox)") || strings.Contains(g, "bus.(*signalHandler)") || strings.Contains(g, "bus.(*objectImpl)") {
			if strings.Contains(g, "[sync.Mutex.Lock") || strings.Contains(g, "[sync.RWMutex") || strings.Contains(g, "[semacquire") {
				l := strings.Split(g, "\n")
				if len(l) > 12 {
					l = l[:12]
				}
				return class, "; a goroutine of the object waits for a lock: " + strings.Join(l, " | ")
			}
		}
	}
	return class, ""
}

// mdMemoryGuard: a path that recurses without end keeps every message it made: the process is
// stopped long before the machine feels it, and the case is named in the journal.
func mdMemoryGuard(say func(mdJournal), current *int64) {
	mdMemoryWatch(func(class, detail string) {
		say(mdJournal{I: int(atomic.LoadInt64(current)), St: "end", Fail: &mdFail{Class: class, Wedged: true, Detail: detail}})
		say(mdJournal{St: "exit"})
		os.Exit(0)
	})
}

func mdMemoryWatch(found func(class, detail string)) {
	go func() {
		var ms runtime.MemStats
		for {
			time.Sleep(100 * time.Millisecond)
			runtime.ReadMemStats(&ms)
			if ms.HeapAlloc+ms.StackInuse > 1500<<20 {
				class, why := mdWhyStuck("modes/runaway/memory")
				found(class, fmt.Sprintf("the process that serves the object holds %d MB%s", (ms.HeapAlloc+ms.StackInuse)>>20, why))
			}
		}
	}()
}

func mdEqual(a, b []string) bool {
	if len(a) != len(b) {
		return false
	}
	for i := range a {
		if a[i] != b[i] {
			return false
		}
	}
	return true
}

func mdRunRaw(cs mdCase) *mdFail {
	s, err := mdStartServer(true)
	if err != nil {
		hlib.Fatal("server: %v", err)
	}
	defer s.stop()
	defer vhook.SetSink(nil)
	conns := map[int]*mdConn{}
	defer func() {
		for _, c := range conns {
			c.conn.Close()
		}
	}()
	for _, k := range []int{1, 2} {
		c, err := mdDial(s)
		if err != nil {
			return &mdFail{Class: "modes/setup/connect", Detail: err.Error()}
		}
		conns[k] = c
	}
	acts := map[int]int{}
	alive := make([]int, len(cs.Cands))
	for i := range alive {
		alive[i] = i
	}
	canon := &mdCanonCtx{fires: map[string]int{}}
	fires := 0
	liveSig := map[int]int{} // user -> signal of its registration (as the specification has it)
	regOf := map[int]int{}   // user -> request number of its registration
	unregistered := map[int]bool{}
	for step, cmd := range cs.Cmds {
		var answered *net.Message
		switch cmd.O {
		case "send":
			c := conns[cmd.C]
			acts[cmd.N] = cmd.A
			var payload []byte
			switch cmd.A {
			case mdReg:
				payload = mdRegPayload(1, cmd.Sig, cmd.U)
			case mdUnreg:
				sig, ok := liveSig[cmd.U]
				if !ok {
					sig = mdSigS
				}
				payload = mdRegPayload(1, sig, cmd.U)
			case mdEStats, mdETrace:
				payload = []byte{byte(cmd.B)}
			case mdHello:
				payload = mdStr("h")
			case mdFire:
				fires++
				p := fmt.Sprintf("f%d", fires)
				canon.fires[p] = fires
				payload = mdStr(p)
			default:
				payload = []byte{}
			}
			if err := c.send(net.Call, s.svc, 1, uint32(cmd.A), uint32(cmd.N), payload); err != nil {
				return &mdFail{Class: "modes/send", Detail: err.Error(), Step: step}
			}
			answered = c.wait(uint32(cmd.N), mdBound)
			if answered == nil {
				class, why := mdWhyStuck("modes/unanswered/" + mdActName[cmd.A])
				return &mdFail{Class: class, Wedged: true,
					Detail: fmt.Sprintf("request %d (%s) of connection %d was not answered within %v%s", cmd.N, mdActName[cmd.A], cmd.C, mdBound, why), Step: step}
			}
			for k, d := range conns {
				if k != cmd.C && !d.closed {
					if !d.barrier(s) {
						return &mdFail{Class: "modes/barrier", Detail: fmt.Sprintf("connection %d: the other object of the service does not answer", k), Step: step}
					}
				}
			}
		case "disc":
			c := conns[cmd.C]
			c.closed = true
			c.conn.Close()
		}
		if cmd.O == "disc" {
			// the closers of the lost connection run in goroutines of their own: wait for the table
			if ok, have := s.table.waitEquals(cs.Cands[alive[0]][step].Subs, mdBound); !ok {
				found := false
				for _, ci := range alive[1:] {
					if ok, _ := s.table.waitEquals(cs.Cands[ci][step].Subs, 0); ok {
						found = true
					}
				}
				if !found {
					return &mdFail{Class: "modes/table/subscriber-of-lost-connection-kept", Step: step,
						Detail: fmt.Sprintf("after %s the subscriber table (user -> signal) is %s, the specification has (user, signal, connection, request) %v", mdDescribe(cmd), have, cs.Cands[alive[0]][step].Subs)}
				}
			}
		}
		// what every connection has read
		obs := map[int][]*net.Message{}
		for k, d := range conns {
			obs[k] = d.take()
		}
		var next []int
		var firstClass, firstDetail string
		for _, ci := range alive {
			post := cs.Cands[ci][step]
			ok := true
			for k := 1; k <= 2; k++ {
				if conns[k].closed && cmd.O != "send" {
					continue
				}
				canon.align(post.Out[k-1], obs[k])
			}
			for k := 1; k <= 2 && ok; k++ {
				if conns[k].closed {
					continue
				}
				var e, o []string
				for _, f := range post.Out[k-1] {
					e = append(e, canon.expected(f, acts))
				}
				for _, m := range obs[k] {
					o = append(o, canon.observed(m, acts))
				}
				if !mdEqual(e, o) {
					ok = false
					if firstClass == "" {
						firstClass, firstDetail = mdClassify(e, o, cmd, unregistered)
						firstDetail = fmt.Sprintf("connection %d after %s: %s; expected %v, observed %v", k, mdDescribe(cmd), firstDetail, e, o)
					}
				}
			}
			if ok {
				next = append(next, ci)
			}
		}
		if len(next) == 0 {
			return &mdFail{Class: firstClass, Detail: firstDetail, Step: step}
		}
		alive = next
		// the subscriber table as the hooks of bus/signal.go report it
		if cmd.O == "send" {
			tableOK := false
			var have string
			for _, ci := range alive {
				ok, h := s.table.waitEquals(cs.Cands[ci][step].Subs, 0)
				if ok {
					tableOK = true
					break
				}
				have = h
			}
			if !tableOK {
				return &mdFail{Class: "modes/table/differs", Step: step,
					Detail: fmt.Sprintf("after %s the subscriber table (user -> signal) is %s, the specification has (user, signal, connection, request) %v", mdDescribe(cmd), have, cs.Cands[alive[0]][step].Subs)}
			}
		}
		// bookkeeping for the payloads and the classification
		if cmd.O == "send" && answered.Header.Type == net.Reply {
			switch cmd.A {
			case mdReg:
				liveSig[cmd.U] = cmd.Sig
				regOf[cmd.U] = cmd.N
			case mdUnreg:
				unregistered[regOf[cmd.U]] = true
				delete(liveSig, cmd.U)
			}
		}
	}
	// the object still serves a client that has not been seen before
	p, err := mdDial(s)
	if err != nil {
		return &mdFail{Class: "modes/probe/connect", Detail: err.Error(), Step: len(cs.Cmds)}
	}
	defer p.conn.Close()
	if p.send(net.Call, s.svc, 1, mdHello, 7, mdStr("probe")) != nil || p.wait(7, mdBound) == nil {
		return &mdFail{Class: "modes/probe/unanswered", Detail: "a fresh client's call is not answered after the sequence", Step: len(cs.Cmds)}
	}
	return nil
}

func mdDescribe(c mdCmd) string {
	if c.O == "disc" {
		return fmt.Sprintf("disconnect(%d)", c.C)
	}
	switch c.A {
	case mdReg:
		return fmt.Sprintf("c%d.registerEvent(signal %d, user %d)#%d", c.C, c.Sig, c.U, c.N)
	case mdUnreg:
		return fmt.Sprintf("c%d.unregisterEvent(user %d)#%d", c.C, c.U, c.N)
	case mdEStats, mdETrace:
		return fmt.Sprintf("c%d.%s(%d)#%d", c.C, mdActName[c.A], c.B, c.N)
	}
	return fmt.Sprintf("c%d.%s()#%d", c.C, mdActName[c.A], c.N)
}

// ---------------------------------------------------------------------------
// one case through the generated proxies (bus.ObjectProxy + pong.PingPongProxy)
// ---------------------------------------------------------------------------

// mdExpressible: the proxy API keeps one registration per (connection, signal) and draws the
// user ids itself: a case can be played through it when every registerEvent of the sequence is
// a first registration of its user and of its (connection, signal), every unregisterEvent names
// a live registration of its own connection, and nothing is sent after a disconnection on the
// lost connection (never the case in the export).
func mdExpressible(cs mdCase) bool {
	type key struct{ c, sig int }
	live := map[int]key{}
	used := map[key]bool{}
	for _, cmd := range cs.Cmds {
		if cmd.O == "disc" {
			for u, k := range live {
				if k.c == cmd.C {
					delete(live, u)
					delete(used, k)
				}
			}
			continue
		}
		switch cmd.A {
		case mdReg:
			k := key{cmd.C, cmd.Sig}
			if _, ok := live[cmd.U]; ok || used[k] {
				return false
			}
			live[cmd.U] = k
			used[k] = true
		case mdUnreg:
			k, ok := live[cmd.U]
			if !ok || k.c != cmd.C {
				return false
			}
			delete(live, cmd.U)
			delete(used, k)
		}
	}
	return true
}

type mdSub struct {
	cancel func()
	mu     sync.Mutex
	cond   *sync.Cond
	got    []string
	taken  int
}

func (s *mdSub) add(x string) {
	s.mu.Lock()
	s.got = append(s.got, x)
	s.cond.Broadcast()
	s.mu.Unlock()
}

// waitN: at least n lines beyond what was taken, then takes everything there is.
func (s *mdSub) waitN(n int, d time.Duration) []string {
	timer := time.AfterFunc(d, func() { s.mu.Lock(); s.cond.Broadcast(); s.mu.Unlock() })
	defer timer.Stop()
	deadline := time.Now().Add(d)
	s.mu.Lock()
	defer s.mu.Unlock()
	for len(s.got)-s.taken < n && time.Now().Before(deadline) {
		s.cond.Wait()
	}
	out := append([]string{}, s.got[s.taken:]...)
	s.taken = len(s.got)
	return out
}

type mdProxyConn struct {
	ep     net.EndPoint
	obj    pong.PingPongProxy
	bar    pong.PingPongProxy
	closed bool
}

func mdBounded(f func() error) (error, bool) {
	ch := make(chan error, 1)
	go func() { ch <- f() }()
	select {
	case err := <-ch:
		return err, true
	case <-time.After(mdBound):
		return nil, false
	}
}

func mdRunProxy(cs mdCase) *mdFail {
	s, err := mdStartServer(true)
	if err != nil {
		hlib.Fatal("server: %v", err)
	}
	s.table.anon = true
	defer s.stop()
	defer vhook.SetSink(nil)
	conns := map[int]*mdProxyConn{}
	defer func() {
		for _, c := range conns {
			c.ep.Close()
		}
	}()
	for _, k := range []int{1, 2} {
		var pc mdProxyConn
		err, ok := mdBounded(func() error {
			ep, err := net.DialEndPoint("unix://" + s.path)
			if err != nil {
				return err
			}
			pc.ep = ep
			if err := bus.AuthenticateUser(ep, "u", "t"); err != nil {
				return err
			}
			cache := bus.NewCache(ep)
			if err := cache.Lookup("modes", s.svc); err != nil {
				return err
			}
			p1, err := cache.Proxy("modes", 1)
			if err != nil {
				return err
			}
			p2, err := cache.Proxy("modes", s.bar)
			if err != nil {
				return err
			}
			pc.obj, pc.bar = pong.MakePingPong(cache, p1), pong.MakePingPong(cache, p2)
			return nil
		})
		if !ok || err != nil {
			return &mdFail{Class: "modes/setup/proxy", Detail: fmt.Sprintf("%v (returned: %v)", err, ok)}
		}
		c := pc
		conns[k] = &c
	}
	alive := make([]int, len(cs.Cands))
	for i := range alive {
		alive[i] = i
	}
	subs := map[int]*mdSub{} // registration request number -> the subscription
	userReg := map[int]int{}
	unregistered := map[int]bool{}
	acts := map[int]int{}
	canon := &mdCanonCtx{fires: map[string]int{}}
	fires := 0
	for step, cmd := range cs.Cmds {
		answer := "" // the canonical answer line as observed
		if cmd.O == "send" {
			c := conns[cmd.C]
			acts[cmd.N] = cmd.A
			var val string
			err, returned := mdBounded(func() error {
				switch cmd.A {
				case mdReg:
					sub := &mdSub{}
					sub.cond = sync.NewCond(&sub.mu)
					if cmd.Sig == mdSigT {
						cancel, ch, err := c.obj.SubscribeTraceObject()
						if err != nil {
							return err
						}
						sub.cancel = cancel
						n := cmd.N
						go func() {
							for e := range ch {
								sub.add(fmt.Sprintf("%d %d %d", e.Id, e.Kind, e.SlotId))
							}
							_ = n
						}()
					} else {
						cancel, ch, err := c.obj.SubscribePong()
						if err != nil {
							return err
						}
						sub.cancel = cancel
						go func() {
							for e := range ch {
								sub.add(e)
							}
						}()
					}
					subs[cmd.N] = sub
					userReg[cmd.U] = cmd.N
				case mdUnreg:
					// the cancel function only logs a refusal of the server: the table (hooks) tells
					subs[userReg[cmd.U]].cancel()
					unregistered[userReg[cmd.U]] = true
				case mdEStats:
					return c.obj.EnableStats(cmd.B == 1)
				case mdETrace:
					return c.obj.EnableTrace(cmd.B == 1)
				case mdIsStats:
					b, err := c.obj.IsStatsEnabled()
					val = fmt.Sprintf(" value=%d", mdInt(b))
					return err
				case mdIsTrace:
					b, err := c.obj.IsTraceEnabled()
					val = fmt.Sprintf(" value=%d", mdInt(b))
					return err
				case mdStats:
					st, err := c.obj.Stats()
					cnt := [][2]int{}
					for a, m := range st {
						if m.Count > 0 {
							cnt = append(cnt, [2]int{int(a), int(m.Count)})
						}
					}
					sort.Slice(cnt, func(i, j int) bool { return cnt[i][0] < cnt[j][0] })
					val = fmt.Sprintf(" counts=%v", cnt)
					return err
				case mdClear:
					return c.obj.ClearStats()
				case mdHello:
					_, err := c.obj.Hello("h")
					return err
				case mdFire:
					fires++
					p := fmt.Sprintf("f%d", fires)
					canon.fires[p] = fires
					return c.obj.Ping(p)
				}
				return nil
			})
			if !returned {
				class, why := mdWhyStuck("modes/unanswered/" + mdActName[cmd.A])
				return &mdFail{Class: class, Wedged: true,
					Detail: fmt.Sprintf("%s through the proxy of connection %d did not return within %v%s", mdActName[cmd.A], cmd.C, mdBound, why), Step: step}
			}
			if err != nil {
				answer = fmt.Sprintf("answer n=%d error", cmd.N)
			} else {
				answer = fmt.Sprintf("answer n=%d reply%s", cmd.N, val)
			}
			for k, d := range conns {
				if !d.closed {
					if _, ok := mdBounded(func() error { _, err := d.bar.Hello("barrier"); return err }); !ok {
						return &mdFail{Class: "modes/barrier", Detail: fmt.Sprintf("connection %d: the other object of the service does not answer", k), Step: step}
					}
				}
			}
		} else {
			c := conns[cmd.C]
			c.closed = true
			c.ep.Close()
		}
		tableOK := false
		var have string
		for _, ci := range alive {
			ok, h := s.table.waitEquals(cs.Cands[ci][step].Subs, map[bool]time.Duration{true: mdBound, false: 0}[ci == alive[0]])
			if ok {
				tableOK = true
				break
			}
			have = h
		}
		if !tableOK {
			cl := "modes/table/differs"
			if cmd.O == "disc" {
				cl = "modes/table/subscriber-of-lost-connection-kept"
			} else if cmd.A == mdUnreg {
				cl = "modes/unregister/own-registration-refused"
			}
			return &mdFail{Class: cl, Detail: fmt.Sprintf("after %s the subscriber table (user -> signal) is %s, the specification has %d subscriber(s)", mdDescribe(cmd), have, len(cs.Cands[alive[0]][step].Subs)), Step: step}
		}
		// per subscription: the events of this command; the answer
		var next []int
		var firstClass, firstDetail string
		type want struct {
			lines []string
		}
		obsBySub := map[int][]string{}
		for _, ci := range alive {
			post := cs.Cands[ci][step]
			exp := map[int][]mdFrame{}
			expAnswer := ""
			for k := 1; k <= 2; k++ {
				if conns[k].closed {
					continue
				}
				for _, f := range post.Out[k-1] {
					if f.K == 5 {
						exp[f.N] = append(exp[f.N], f)
					} else {
						expAnswer = canon.expected(f, acts)
					}
				}
			}
			ok := true
			if cmd.O == "send" && cmd.A != mdUnreg && expAnswer != answer {
				ok = false
				if firstClass == "" {
					firstClass, firstDetail = mdClassify([]string{expAnswer}, []string{answer}, cmd, unregistered)
				}
			}
			for reg, sub := range subs {
				if _, done := obsBySub[reg]; !done {
					obsBySub[reg] = sub.waitN(len(exp[reg]), mdEventBound)
				}
			}
			for reg := range subs {
				var e, o []string
				frames := exp[reg]
				if !canon.haveOff {
					for _, f := range frames {
						if f.Sig == mdSigT && len(obsBySub[reg]) > 0 {
							var id int
							fmt.Sscanf(obsBySub[reg][0], "%d", &id)
							canon.off, canon.haveOff = id-f.ID, true
							break
						}
					}
				}
				for _, f := range frames {
					e = append(e, canon.expected(f, acts))
				}
				for _, l := range obsBySub[reg] {
					var id, kind, slot int
					if n, _ := fmt.Sscanf(l, "%d %d %d", &id, &kind, &slot); n == 3 {
						o = append(o, fmt.Sprintf("trace reg=%d id=%d kind=%d slot=%d", reg, id-canon.off, kind, slot))
					} else {
						o = append(o, fmt.Sprintf("event reg=%d sig=%d emission=%d", reg, mdSigS, canon.fires[l]))
					}
				}
				if !mdEqual(e, o) {
					ok = false
					if firstClass == "" {
						firstClass, firstDetail = mdClassify(e, o, cmd, unregistered)
						firstDetail = fmt.Sprintf("subscription made by request %d after %s: %s; expected %v, observed %v", reg, mdDescribe(cmd), firstDetail, e, o)
					}
				}
			}
			if ok {
				next = append(next, ci)
			}
		}
		if len(next) == 0 {
			return &mdFail{Class: firstClass, Detail: firstDetail, Step: step}
		}
		alive = next
	}
	// late arrivals (the proxies forward events through goroutines of their own)
	time.Sleep(3 * time.Millisecond)
	for reg, sub := range subs {
		if extra := sub.waitN(0, 0); len(extra) > 0 {
			return &mdFail{Class: "modes/event/unexpected", Detail: fmt.Sprintf("subscription made by request %d received %v after the sequence", reg, extra), Step: len(cs.Cmds)}
		}
	}
	var pc *mdProxyConn
	for _, c := range conns {
		if !c.closed {
			pc = c
		}
	}
	if pc != nil {
		if err, ok := mdBounded(func() error { _, err := pc.obj.Hello("probe"); return err }); !ok || err != nil {
			return &mdFail{Class: "modes/probe/unanswered", Detail: fmt.Sprintf("hello after the sequence: %v (returned: %v)", err, ok), Step: len(cs.Cmds)}
		}
	}
	return nil
}

// ---------------------------------------------------------------------------
// child and parent
// ---------------------------------------------------------------------------

type mdJournal struct {
	I    int     `json:"i"`
	St   string  `json:"st"` // begin | end | skip
	Fail *mdFail `json:"fail,omitempty"`
}

func cmdModesChild(args []string) {
	debug.SetMaxStack(64 << 20) // a message path that recurses without end dies quickly
	cases := mdLoad(args[0])
	from, _ := strconv.Atoi(args[1])
	mode := args[2]
	lim := syscall.Rlimit{Cur: 6 << 30, Max: 6 << 30}
	syscall.Setrlimit(syscall.RLIMIT_AS, &lim)
	out := bufio.NewWriter(os.Stdout)
	var omu sync.Mutex
	say := func(j mdJournal) {
		b, _ := json.Marshal(j)
		omu.Lock()
		out.Write(append(b, '\n'))
		out.Flush()
		omu.Unlock()
	}
	var current int64
	mdMemoryGuard(say, &current)
	stride := 1
	if len(args) > 3 {
		stride, _ = strconv.Atoi(args[3])
	}
	for i := from; i < len(cases); i += stride {
		if mode == "proxy" && !mdExpressible(cases[i]) {
			say(mdJournal{I: i, St: "skip"})
			continue
		}
		atomic.StoreInt64(&current, int64(i))
		say(mdJournal{I: i, St: "begin"})
		var f *mdFail
		if mode == "proxy" {
			f = mdRunProxy(cases[i])
		} else {
			f = mdRunRaw(cases[i])
		}
		say(mdJournal{I: i, St: "end", Fail: f})
		if f != nil && f.Wedged {
			say(mdJournal{St: "exit"})
			os.Exit(0)
		}
	}
	say(mdJournal{St: "exit"})
}

func mdCrashClass(stderr string) string {
	switch {
	case strings.Contains(stderr, "stack overflow") || strings.Contains(stderr, "goroutine stack exceeds"):
		return "modes/crash/message-path-recurses-without-end"
	case strings.Contains(stderr, "concurrent map"):
		return "modes/crash/concurrent-map-access"
	case strings.Contains(stderr, "all goroutines are asleep"):
		return "modes/crash/deadlock"
	case strings.Contains(stderr, "panic:"):
		return "modes/crash/panic"
	case strings.Contains(stderr, "fatal error:"):
		return "modes/crash/fatal-error"
	}
	return "modes/crash/server-process-died"
}

func mdCaseText(c mdCase, upto int) []string {
	var l []string
	for i, cmd := range c.Cmds {
		if upto >= 0 && i > upto {
			break
		}
		l = append(l, mdDescribe(cmd))
	}
	return l
}

func cmdModesReplay(args []string) {
	cases := mdLoad(args[0])
	mode := args[1]
	lanes := 1
	if len(args) > 2 {
		lanes, _ = strconv.Atoi(args[2])
	}
	var res hlib.Result
	var mu sync.Mutex // res, bad, failed, skipped
	budget := 6       // crashes + hangs + silent cases after which the tree is given up
	bad, failed, skipped := 0, 0, 0
	givenUp := false
	stall := 60 * time.Second
	// lane k plays the cases k, k + lanes, ...; every lane has a child of its own
	lane := func(k int) {
		from := k
		for from < len(cases) {
			mu.Lock()
			stop := bad >= budget
			mu.Unlock()
			if stop {
				mu.Lock()
				givenUp = true
				mu.Unlock()
				return
			}
			cmd := exec.Command(os.Args[0], "modes-child", args[0], strconv.Itoa(from), mode, strconv.Itoa(lanes))
			var stderr bytes.Buffer
			cmd.Stderr = &stderr
			stdout, _ := cmd.StdoutPipe()
			if err := cmd.Start(); err != nil {
				hlib.Fatal("child: %v", err)
			}
			lines := make(chan mdJournal, 1024)
			go func() {
				sc := bufio.NewScanner(stdout)
				sc.Buffer(make([]byte, 1<<20), 1<<26)
				for sc.Scan() {
					var j mdJournal
					if json.Unmarshal(sc.Bytes(), &j) == nil {
						lines <- j
					}
				}
				close(lines)
			}()
			current := -1
			hung := false
			left := false // the child has said that it leaves
		loop:
			for {
				select {
				case j, ok := <-lines:
					if !ok {
						break loop
					}
					mu.Lock()
					switch j.St {
					case "exit":
						left = true
					case "begin":
						current = j.I
					case "skip":
						skipped++
						from = j.I + lanes
					case "end":
						res.Evaluations++
						from = j.I + lanes
						current = -1
						if j.Fail != nil {
							res.Fail(j.Fail.Class, j.Fail.Detail, map[string]interface{}{"case": cases[j.I].ID, "mode": mode,
								"commands": mdCaseText(cases[j.I], -1), "failed_at": j.Fail.Step})
							failed++
							if j.Fail.Wedged || strings.HasPrefix(j.Fail.Class, "modes/unanswered") || strings.HasPrefix(j.Fail.Class, "modes/probe") ||
								strings.HasPrefix(j.Fail.Class, "modes/barrier") || strings.HasPrefix(j.Fail.Class, "modes/table") {
								bad++ // each costs the bound: a tree that answers nothing must not take the whole time
							}
							if failed >= 20 {
								bad = budget // enough is known about this tree
							}
						} else if res.Evaluations%97 == 1 {
							res.Sample(map[string]interface{}{"mode": mode, "commands": mdCaseText(cases[j.I], -1)})
						}
					}
					stop := bad >= budget
					mu.Unlock()
					if stop {
						left = true
						break loop
					}
				case <-time.After(stall):
					hung = true
					break loop
				}
			}
			cmd.Process.Kill()
			cmd.Wait()
			mu.Lock()
			if current >= 0 && !left {
				// the child died (or stalled) inside case `current`
				res.Evaluations++
				bad++
				e := stderr.String()
				class := mdCrashClass(e)
				if hung {
					class = "modes/hang/harness-stalled-inside-the-code"
				}
				head := e
				if len(head) > 1500 {
					head = head[:1500]
				}
				res.Fail(class, fmt.Sprintf("the process that serves the object ended while the sequence ran: %s", strings.SplitN(head, "\n", 2)[0]),
					map[string]interface{}{"case": cases[current].ID, "mode": mode, "commands": mdCaseText(cases[current], -1), "stderr": head})
				from = current + lanes
			} else if !hung && !left && from < len(cases) {
				bad++
				e := stderr.String()
				res.Fail("modes/crash/between-cases", e[:min(len(e), 800)], nil)
			}
			mu.Unlock()
		}
	}
	var wg sync.WaitGroup
	for k := 0; k < lanes; k++ {
		wg.Add(1)
		go func(k int) { defer wg.Done(); lane(k) }(k)
	}
	wg.Wait()
	res.Distinct = len(cases)
	res.SetExtra("cases", len(cases))
	res.SetExtra("not_expressible_through_the_proxy_api", skipped)
	res.SetExtra("given_up", givenUp)
	res.SetExtra("mode", mode)
	res.Emit()
}

// ---------------------------------------------------------------------------
// free-running concurrent clients, recorded for TraceObjectModes
// ---------------------------------------------------------------------------

type mdRec struct {
	mu    sync.Mutex
	w     *bufio.Writer
	plan  map[uint32]mdCmd // wire id -> what the harness sent
	eps   map[int]int      // server side end point (hook id) -> connection of the specification
	lines int
	objs  map[int]bool // instances (hook ids) of the object under test: objectImpl and its signalHandler
	seenT bool
}

func (r *mdRec) write(m map[string]interface{}) {
	b, _ := json.Marshal(m)
	r.w.Write(append(b, '\n'))
	r.lines++
}

// sink: called with the hook package's lock held - the order of the lines is the order of the events
func (r *mdRec) sink(e vhook.Event) {
	if e.Comp != "object" && e.Comp != "signal" && e.Comp != "harness" {
		return
	}
	m := e.Map()
	r.mu.Lock()
	defer r.mu.Unlock()
	rec := map[string]interface{}{"ev": e.Ev, "n": 0, "c": 0, "a": 0, "sig": 0, "u": 0, "b": 0, "stats": false, "trace": false,
		"next": 0, "id": 0, "kind": 0, "slot": 0, "cnt": 0, "ok": false, "size": 0, "counts": [][2]int{}}
	switch e.Comp {
	case "object":
		if e.Ev == "tracer" {
			cmd, ok := r.plan[uint32(mdInt(m["mid"]))]
			if !ok {
				return // the barrier object, the probe
			}
			r.objs[e.Inst] = true
			r.objs[mdInt(m["sh"])] = true
			r.eps[mdInt(m["ep"])] = cmd.C
			r.seenT = true
			rec["n"], rec["c"], rec["a"], rec["sig"], rec["u"], rec["b"] = cmd.N, cmd.C, cmd.A, cmd.Sig, cmd.U, cmd.B
			rec["stats"], rec["trace"], rec["next"] = m["stats"], m["trace"], mdInt(m["next"])
		} else if !r.objs[e.Inst] {
			return
		}
		switch e.Ev {
		case "trace":
			rec["id"], rec["kind"], rec["slot"] = mdInt(m["id"]), mdInt(m["kind"]), mdInt(m["slot"])
		case "trace_skip":
			rec["kind"] = mdInt(m["kind"])
		case "stat":
			rec["a"], rec["ok"], rec["cnt"] = mdInt(m["act"]), m["ok"], mdInt(m["count"])
		case "mode":
			rec["stats"], rec["trace"] = m["stats"], m["trace"]
		}
	case "signal":
		if !r.objs[e.Inst] {
			return
		}
		switch e.Ev {
		case "add", "add_dup":
			rec["u"], rec["sig"], rec["c"], rec["size"] = mdInt(m["user"]), mdInt(m["signal"]), r.eps[mdInt(m["ep"])], mdInt(m["n"])
		case "remove":
			rec["u"], rec["sig"], rec["c"], rec["size"] = mdInt(m["user"]), mdInt(m["signal"]), r.eps[mdInt(m["ep"])], mdInt(m["n"])
		case "remove_unknown":
			rec["u"], rec["c"] = mdInt(m["user"]), r.eps[mdInt(m["ep"])]
		case "snapshot":
			rec["sig"], rec["size"] = mdInt(m["signal"]), mdInt(m["n"])
		default:
			return
		}
	case "harness":
		switch e.Ev {
		case "md_send":
			if !r.seenT {
				return
			}
			rec["ev"] = "send"
			rec["u"], rec["sig"] = mdInt(m["user"]), mdInt(m["signal"])
		case "md_reset", "md_disc", "md_statsres":
			rec["ev"] = strings.TrimPrefix(e.Ev, "md_")
			rec["c"] = mdInt(m["c"])
			if cs, ok := m["counts"].([][2]int); ok {
				rec["counts"] = cs
			}
		default:
			return
		}
	}
	r.write(rec)
}

func mdRandomCmd(rng *rand.Rand, c, n int, users int) mdCmd {
	cmd := mdCmd{O: "send", C: c, N: n}
	switch k := rng.Intn(20); {
	case k < 5:
		cmd.A, cmd.U = mdReg, 1+rng.Intn(users)
		cmd.Sig = []int{mdSigS, mdSigT}[rng.Intn(2)]
	case k < 8:
		cmd.A, cmd.U = mdUnreg, 1+rng.Intn(users)
	case k < 10:
		cmd.A, cmd.B = mdEStats, rng.Intn(2)
	case k < 12:
		cmd.A, cmd.B = mdETrace, rng.Intn(2)
	case k < 13:
		cmd.A = mdIsStats
	case k < 14:
		cmd.A = mdStats
	case k < 15:
		cmd.A = mdClear
	case k < 17:
		cmd.A = mdHello
	default:
		cmd.A = mdFire
	}
	return cmd
}

// modes-rec-child <out> <rounds> <msgs per client> : rounds of three concurrent raw clients
func cmdModesRecChild(args []string) {
	debug.SetMaxStack(64 << 20)
	rounds, _ := strconv.Atoi(args[1])
	per, _ := strconv.Atoi(args[2])
	f, err := os.Create(args[0])
	if err != nil {
		hlib.Fatal("%v", err)
	}
	rng := rand.New(rand.NewSource(hlib.Seed()*7919 + 13))
	rec := &mdRec{w: bufio.NewWriterSize(f, 1<<20)}
	unanswered := 0
	lim := syscall.Rlimit{Cur: 6 << 30, Max: 6 << 30}
	syscall.Setrlimit(syscall.RLIMIT_AS, &lim)
	mdMemoryWatch(func(class, detail string) {
		b, _ := json.Marshal(map[string]interface{}{"runaway": class, "detail": detail})
		fmt.Println(string(b))
		os.Exit(0)
	})
	for round := 0; round < rounds; round++ {
		rec.mu.Lock()
		rec.plan, rec.eps, rec.objs, rec.seenT = map[uint32]mdCmd{}, map[int]int{}, map[int]bool{}, false
		rec.mu.Unlock()
		vhook.SetSink(rec.sink)
		vhook.SetGate("signal.update.send", func(kv ...interface{}) {
			m := vhook.Event{KV: kv}.Map()
			vhook.Emit("harness", nil, "md_send", "user", m["user"], "signal", m["signal"])
		})
		s, err := mdStartServer(false)
		if err != nil {
			hlib.Fatal("server: %v", err)
		}
		vhook.Emit("harness", nil, "md_reset", "c", 0)
		nconn := 2 + rng.Intn(2)
		conns := make([]*mdConn, nconn)
		for i := range conns {
			if conns[i], err = mdDial(s); err != nil {
				hlib.Fatal("dial: %v", err)
			}
		}
		// the plan: every request has a number of its own (also its wire id)
		plans := make([][]mdCmd, nconn)
		n := 0
		for i := range plans {
			for k := 0; k < per; k++ {
				n++
				cmd := mdRandomCmd(rng, i+1, n, 3)
				plans[i] = append(plans[i], cmd)
				rec.mu.Lock()
				rec.plan[uint32(n)] = cmd
				rec.mu.Unlock()
			}
		}
		discAt := -1
		if rng.Intn(3) == 0 {
			discAt = rng.Intn(per)
		}
		var wg sync.WaitGroup
		var umu sync.Mutex
		for i := range conns {
			wg.Add(1)
			go func(i int) {
				defer wg.Done()
				c := conns[i]
				for k, cmd := range plans[i] {
					if i == 0 && k == discAt {
						vhook.Emit("harness", nil, "md_disc", "c", 1)
						c.closed = true
						c.conn.Close()
						return
					}
					var payload []byte
					switch cmd.A {
					case mdReg, mdUnreg:
						sig := cmd.Sig
						if sig == 0 {
							sig = mdSigS
						}
						payload = mdRegPayload(1, sig, cmd.U)
					case mdEStats, mdETrace:
						payload = []byte{byte(cmd.B)}
					case mdHello, mdFire:
						payload = mdStr(fmt.Sprintf("m%d", cmd.N))
					default:
						payload = []byte{}
					}
					c.send(net.Call, s.svc, 1, uint32(cmd.A), uint32(cmd.N), payload)
					if c.wait(uint32(cmd.N), mdBound) == nil {
						class, why := mdWhyStuck("modes/unanswered/concurrent-clients")
						b, _ := json.Marshal(map[string]interface{}{"runaway": class,
							"detail": fmt.Sprintf("request %s of the concurrent rounds was not answered within %v%s", mdDescribe(cmd), mdBound, why)})
						umu.Lock()
						fmt.Println(string(b))
						os.Exit(0)
					}
				}
			}(i)
		}
		wg.Wait()
		// at rest: the counters as a client reads them
		last := conns[nconn-1]
		n++
		cmd := mdCmd{O: "send", C: nconn, N: n, A: mdStats}
		rec.mu.Lock()
		rec.plan[uint32(n)] = cmd
		rec.mu.Unlock()
		last.send(net.Call, s.svc, 1, mdStats, uint32(n), []byte{})
		if m := last.wait(uint32(n), mdBound); m != nil && m.Header.Type == net.Reply {
			if st, err := mdDecodeStats(m.Payload); err == nil {
				cnt := [][2]int{}
				for a, c := range st {
					if c > 0 {
						cnt = append(cnt, [2]int{a, c})
					}
				}
				sort.Slice(cnt, func(i, j int) bool { return cnt[i][0] < cnt[j][0] })
				// wait until the object's goroutine has finished the request (its answer is the last thing it sends)
				for _, c := range conns {
					if !c.closed {
						c.barrier(s)
					}
				}
				vhook.Emit("harness", nil, "md_statsres", "c", nconn, "counts", cnt)
			}
		} else {
			unanswered++
		}
		for i, c := range conns {
			if !c.closed {
				vhook.Emit("harness", nil, "md_disc", "c", i+1)
			}
			c.conn.Close()
		}
		time.Sleep(2 * time.Millisecond)
		vhook.SetSink(nil)
		vhook.SetGate("signal.update.send", nil)
		s.stop()
	}
	rec.w.Flush()
	f.Close()
	b, _ := json.Marshal(map[string]int{"lines": rec.lines, "unanswered": unanswered, "rounds": rounds})
	fmt.Println(string(b))
}

// modes-record <out.ndjson> <rounds> <msgs per client>
func cmdModesRecord(args []string) {
	var res hlib.Result
	cmd := exec.Command(os.Args[0], "modes-rec-child", args[0], args[1], args[2])
	var stderr bytes.Buffer
	var stdout bytes.Buffer
	cmd.Stderr, cmd.Stdout = &stderr, &stdout
	if err := cmd.Start(); err != nil {
		hlib.Fatal("child: %v", err)
	}
	done := make(chan error, 1)
	go func() { done <- cmd.Wait() }()
	rounds, _ := strconv.Atoi(args[1])
	select {
	case err := <-done:
		if err != nil {
			e := stderr.String()
			if len(e) > 1500 {
				e = e[:1500]
			}
			res.Fail(mdCrashClass(e), "the process that serves the object ended during the concurrent rounds: "+strings.SplitN(e, "\n", 2)[0],
				map[string]interface{}{"stderr": e})
		}
	case <-time.After(time.Duration(60+rounds/2) * time.Second):
		cmd.Process.Kill()
		res.Fail("modes/hang/harness-stalled-inside-the-code", "the concurrent rounds did not end", nil)
	}
	var info map[string]interface{}
	if json.Unmarshal(bytes.TrimSpace(stdout.Bytes()), &info) == nil {
		if cl, ok := info["runaway"].(string); ok {
			res.Fail(cl, fmt.Sprint(info["detail"]), nil)
			res.SetExtra("incomplete", true)
		} else {
			res.Evaluations = mdInt(info["rounds"])
			res.SetExtra("lines", mdInt(info["lines"]))
			if mdInt(info["unanswered"]) > 0 {
				res.Fail("modes/unanswered/concurrent-clients", fmt.Sprintf("%d request(s) of the concurrent rounds were not answered within %v", mdInt(info["unanswered"]), mdBound), nil)
			}
		}
	}
	res.Emit()
}

// ---------------------------------------------------------------------------
// a registerEvent that is executed after its connection was lost
// ---------------------------------------------------------------------------

// modes-late-child <variant>: connection 2 keeps the object busy (hello("wait") sits in the method body),
// connection 1 sends registerEvent (it waits in the mail box) and hangs up; when the server has shut the
// end point down the method returns and the registration is executed.  variant: plain | stats | trace
// (the modes the object is in when the registration is executed).  Prints one JSON line.
func cmdModesLateChild(args []string) {
	variant := args[0]
	type ev struct {
		comp, ev string
		id       int
	}
	var mu sync.Mutex
	cond := sync.NewCond(&mu)
	var evs []ev
	table := newMdTable()
	vhook.SetSink(func(e vhook.Event) {
		table.sink(e)
		if (e.Comp == "server" && e.Ev == "consumed") || (e.Comp == "endpoint" && e.Ev == "shutdown") || (e.Comp == "signal" && e.Ev == "remove_unknown") {
			mu.Lock()
			evs = append(evs, ev{e.Comp, e.Ev, mdInt(e.Map()["id"])})
			cond.Broadcast()
			mu.Unlock()
		}
	})
	waitEv := func(comp, name string, id int) bool {
		timer := time.AfterFunc(mdBound, func() { mu.Lock(); cond.Broadcast(); mu.Unlock() })
		defer timer.Stop()
		deadline := time.Now().Add(mdBound)
		mu.Lock()
		defer mu.Unlock()
		for {
			for _, e := range evs {
				if e.comp == comp && e.ev == name && (id < 0 || e.id == id) {
					return true
				}
			}
			if time.Now().After(deadline) {
				return false
			}
			cond.Wait()
		}
	}
	out := map[string]interface{}{"variant": variant, "ok": false}
	say := func() {
		b, _ := json.Marshal(out)
		fmt.Println(string(b))
		os.Exit(0)
	}
	s, err := mdStartServer(false)
	if err != nil {
		hlib.Fatal("server: %v", err)
	}
	s.impl.gate, s.impl.entered = make(chan struct{}), make(chan struct{}, 4)
	c1, err1 := mdDial(s)
	c2, err2 := mdDial(s)
	if err1 != nil || err2 != nil {
		out["error"] = "connect"
		say()
	}
	call := func(c *mdConn, act int, id uint32, payload []byte) bool {
		return c.send(net.Call, s.svc, 1, uint32(act), id, payload) == nil && c.wait(id, mdBound) != nil
	}
	switch variant {
	case "stats":
		call(c2, mdEStats, 1, []byte{1})
	case "trace":
		call(c2, mdETrace, 1, []byte{1})
	}
	if variant == "race" {
		// the connection is lost between MakeHandler and the append to the table (gate signal.add.made)
		made, goOn := make(chan struct{}, 1), make(chan struct{})
		vhook.SetGate("signal.add.made", func(kv ...interface{}) { made <- struct{}{}; <-goOn })
		c1.send(net.Call, s.svc, 1, mdReg, 3, mdRegPayload(1, mdSigS, 7))
		select {
		case <-made:
		case <-time.After(mdBound):
			out["error"] = "gate signal.add.made not reached (the tree has no such hook)"
			say()
		}
		c1.conn.Close()
		if !waitEv("signal", "remove_unknown", -1) {
			out["error"] = "the closer of the lost connection did not run"
			say()
		}
		close(goOn)
		vhook.SetGate("signal.add.made", nil)
	} else {
		c2.send(net.Call, s.svc, 1, mdHello, 2, mdStr("wait"))
		select {
		case <-s.impl.entered:
		case <-time.After(mdBound):
			out["error"] = "the slow method was not entered"
			say()
		}
		c1.send(net.Call, s.svc, 1, mdReg, 3, mdRegPayload(1, mdSigS, 7))
		if !waitEv("server", "consumed", 3) {
			out["error"] = "the registration did not reach the mail box"
			say()
		}
		c1.conn.Close()
		if !waitEv("endpoint", "shutdown", -1) {
			out["error"] = "the server did not notice the lost connection"
			say()
		}
		close(s.impl.gate)
		if c2.wait(2, mdBound) == nil {
			out["error"] = "the slow call was not answered"
			say()
		}
	}
	// the registration is executed now; ask the object once more so that it is over
	answered := call(c2, mdHello, 4, mdStr("h"))
	kept, _ := table.waitEquals([][4]int{{7, mdSigS, 1, 3}}, 0)
	time.Sleep(300 * time.Millisecond) // a closer that is only late would have run by now
	keptLater, _ := table.waitEquals([][4]int{{7, mdSigS, 1, 3}}, 0)
	table.mu.Lock()
	have := fmt.Sprintf("%v", table.user)
	table.mu.Unlock()
	fired := call(c2, mdFire, 5, mdStr("f1"))
	s.impl.mu.Lock()
	emitErr := append([]string{}, s.impl.emitEr...)
	s.impl.mu.Unlock()
	out["ok"] = true
	out["answered"] = answered && fired
	out["registered"] = kept
	out["kept"] = kept && keptLater
	out["table"] = have
	out["emission_errors"] = emitErr
	say()
}

// modes-late: the three variants, each in a child with a wall-clock limit
func cmdModesLate(args []string) {
	var res hlib.Result
	for _, variant := range []string{"plain", "stats", "trace", "race"} {
		cmd := exec.Command(os.Args[0], "modes-late-child", variant)
		var stdout, stderr bytes.Buffer
		cmd.Stdout, cmd.Stderr = &stdout, &stderr
		if err := cmd.Start(); err != nil {
			hlib.Fatal("child: %v", err)
		}
		done := make(chan error, 1)
		go func() { done <- cmd.Wait() }()
		res.Evaluations++
		select {
		case err := <-done:
			var out map[string]interface{}
			if err != nil || json.Unmarshal(bytes.TrimSpace(stdout.Bytes()), &out) != nil {
				e := stderr.String()
				res.Fail(mdCrashClass(e), "registerEvent executed after its connection was lost: the serving process ended: "+strings.SplitN(e, "\n", 2)[0],
					map[string]interface{}{"variant": variant, "stderr": e[:min(len(e), 1500)]})
				continue
			}
			if out["ok"] != true {
				if variant == "race" && strings.Contains(fmt.Sprint(out["error"]), "no such hook") {
					res.SetExtra("race_variant", "skipped: "+fmt.Sprint(out["error"]))
					res.Evaluations--
					continue
				}
				res.Fail("modes/late-registration/scenario-not-reached", fmt.Sprint(out["error"]), out)
				continue
			}
			if out["answered"] != true {
				res.Fail("modes/unanswered/after-late-registration", "the object does not answer after a registerEvent was executed for a lost connection", out)
			}
			if out["kept"] == true {
				res.Fail("modes/table/registration-executed-after-disconnect-kept",
					fmt.Sprintf("variant %s: a registerEvent whose connection is lost %s stays in the subscriber table (user -> signal: %v): no closer is left to forget it; every later emission is sent to the closed connection (errors: %v)",
						variant, map[bool]string{true: "between MakeHandler and the append to the table", false: "while it waits in the object's mail box"}[variant == "race"], out["table"], out["emission_errors"]), out)
			}
			res.Sample(out)
		case <-time.After(60 * time.Second):
			cmd.Process.Kill()
			res.Fail("modes/hang/harness-stalled-inside-the-code", "registerEvent executed after its connection was lost: the scenario did not end", map[string]interface{}{"variant": variant})
		}
	}
	res.Emit()
}
