package main

// ServerLife (extension hosted by C16): the life cycle of a server, its router and its services.
//
//   serverlife-replay <tests.ndjson> [workers]   replay behaviours exported from GenServerLife.tla: the parent
//                                                runs `workers` children, restarts a child that dies, and
//                                                turns a death / a child that stops talking into a failure class
//   serverlife-child  <tests.ndjson> <from> <w> <n>   replay the tests i >= from with i mod n = w, one JSON line each
//   serverlife-record <out.ndjson> <rounds>      free-running concurrent rounds, hook events for TraceServerLife.tla
//
// World per behaviour: a real bus.StandAloneServer on a harness listener (Accept can hold the stream it returns,
// can start failing), harness streams (Close of the server side can block and can report an error), a private
// namespace, services made of examples/pong objects whose implementor counts Hello invocations and OnTerminate
// calls and can block in either, real bus clients (one per connection) for the calls.  The two vhook gates
// router.receive.unlocked / service.receive.unlocked hold the consumer goroutine of a connection after the
// router's and after the service's look-up.
//
// One command of the behaviour at a time; after each the harness waits until what it observes IS one of the
// observations the specification allows for that command sequence (and nothing has moved for a moment), for at
// most slBound.  A goroutine of qiloop that must be at rest is at rest at a harness gate, and the observation
// says which gates hold a goroutine, so an allowed observation cannot be met "on the way".

import (
	"bufio"
	"bytes"
	"context"
	"encoding/json"
	"fmt"
	"io"
	"math/rand"
	"os"
	"os/exec"
	"reflect"
	"runtime"
	"sort"
	"strings"
	"sync"
	"sync/atomic"
	"time"

	"github.com/lugu/qiloop/bus"
	"github.com/lugu/qiloop/bus/net"
	"github.com/lugu/qiloop/examples/pong"
	"github.com/lugu/qiloop/type/object"
	"github.com/lugu/qiloop/vhook"
	"verif/harness/hlib"
)

func init() {
	hlib.Register("serverlife-replay", cmdSLReplay)
	hlib.Register("serverlife-child", cmdSLChild)
	hlib.Register("serverlife-record", cmdSLRecord)
	hlib.Register("serverlife-record-child", cmdSLRecordChild)
}

var slBound = 5 * time.Second          // in-process streams: normal latency is microseconds
const slQuiet = 400 * time.Microsecond // nothing moved for this long

// ---------------------------------------------------------------------------
// test format (written by checks/ext_shutdown.py from TLC's export)
// ---------------------------------------------------------------------------

type slON struct {
	O int `json:"o"`
	N int `json:"n"`
}
type slCS struct {
	C  int    `json:"c"`
	St string `json:"st"`
}
type slTS struct {
	T  int    `json:"t"`
	St string `json:"st"`
}
type slGN struct {
	G string `json:"g"`
	N int    `json:"n"`
}
type slSN struct {
	S int `json:"s"`
	N int `json:"n"`
}
type slSS struct {
	S  int    `json:"s"`
	St string `json:"st"`
}

type slObs struct {
	Calls  []int  `json:"calls"`
	Exec   []slON `json:"exec"`
	Term   []slON `json:"term"`
	Conns  []slCS `json:"conns"`
	Thr    []slTS `json:"thr"`
	Acc    string `json:"acc"`
	Gates  []slGN `json:"gates"`
	Routed []slSN `json:"routed"`
	Boxed  []slON `json:"boxed"`
	Wait   bool   `json:"wait"`
	Ns     []slSS `json:"ns"`
}

func (o *slObs) norm() {
	sort.Slice(o.Exec, func(i, j int) bool { return o.Exec[i].O < o.Exec[j].O })
	sort.Slice(o.Term, func(i, j int) bool { return o.Term[i].O < o.Term[j].O })
	sort.Slice(o.Conns, func(i, j int) bool { return o.Conns[i].C < o.Conns[j].C })
	sort.Slice(o.Thr, func(i, j int) bool { return o.Thr[i].T < o.Thr[j].T })
	sort.Slice(o.Gates, func(i, j int) bool {
		if o.Gates[i].G != o.Gates[j].G {
			return o.Gates[i].G < o.Gates[j].G
		}
		return o.Gates[i].N < o.Gates[j].N
	})
	sort.Slice(o.Ns, func(i, j int) bool { return o.Ns[i].S < o.Ns[j].S })
	sort.Slice(o.Routed, func(i, j int) bool { return o.Routed[i].S < o.Routed[j].S })
	sort.Slice(o.Boxed, func(i, j int) bool { return o.Boxed[i].O < o.Boxed[j].O })
}

func (o *slObs) key() string {
	return fmt.Sprint(o.Calls, o.Exec, o.Term, o.Conns, o.Thr, o.Acc, o.Gates, o.Routed, o.Boxed, o.Wait, o.Ns)
}

type slAllowed struct {
	Obs  slObs    `json:"obs"`
	Devs []string `json:"devs"` // deviations of the code as found NEWLY needed to get there
}

type slStep struct {
	O       string      `json:"o"`
	A       int         `json:"a"`
	B       int         `json:"b"`
	C       int         `json:"c"`
	M       string      `json:"m"`
	Post    slObs       `json:"post"`
	Allowed []slAllowed `json:"allowed"`
}

type slCfg struct {
	Svcs        []int `json:"svcs"`
	InitSvcs    []int `json:"initsvcs"`
	Objs        []int `json:"objs"`
	Conns       []int `json:"conns"`
	InitConns   []int `json:"initconns"`
	CloseErr    []int `json:"closeerr"`
	LocalConns  []int `json:"localconns"`  // made with Server.Client()
	LisCloseErr bool  `json:"liscloseerr"` // Listener.Close reports an error
	SrvTerms    int   `json:"srvterms"`
	Calls       int   `json:"calls"`
}

type slTest struct {
	Cfg   slCfg    `json:"cfg"`
	Steps []slStep `json:"steps"`
}

func inInts(l []int, x int) bool {
	for _, y := range l {
		if x == y {
			return true
		}
	}
	return false
}

// ---------------------------------------------------------------------------
// gates
// ---------------------------------------------------------------------------

type slGate struct {
	armed    bool
	occupied bool
	ch       chan struct{}
}

// the world of the behaviour being replayed (the vhook gates and the sink are process-wide)
var slCur atomic.Value // *slWorld

type slWorld struct {
	cfg     slCfg
	gen     int
	mu      sync.Mutex
	gates   map[string]*slGate
	parks   map[string]int // "parkS:<service>:<object>" -> call waiting to be parked there
	lastAct int64          // unix nano of the last thing that moved
	dead    bool

	lis     *slListener
	srv     bus.Server
	ns      bus.Namespace
	svcs    map[int]*slSvc
	objs    map[int]*slObj
	conns   map[int]*slConn
	calls   map[int]*slCall
	thr     map[int]string
	panics  map[int]string
	wait    bool
	waiters int

	// what the hooks of THIS world's server have shown (sink; under hmu)
	hmu        sync.Mutex
	serverInst int
	routerInst int
	nRoute     map[uint32]int // service id -> router look-ups
	nBox       map[[2]uint32]int
}

type slSvc struct {
	id   int
	name string
	svc  bus.Service
	sid  uint32
}

type slObj struct {
	id     int
	w      *slWorld
	oid    uint32 // real object id (0: not created)
	execs  int32
	terms  int32
	refuse bool // Activate returns an error
}

type slConn struct {
	id     int
	cli    *slStream
	srv    *slStream
	ep     net.EndPoint
	client bus.Client
	st     string // none | wait | open | unauth (closed is separate)
	closed bool
}

type slCall struct {
	k    int
	code int
	err  string
}

func (w *slWorld) touch() { atomic.StoreInt64(&w.lastAct, time.Now().UnixNano()) }

func (w *slWorld) gate(name string) *slGate {
	g, ok := w.gates[name]
	if !ok {
		g = &slGate{}
		w.gates[name] = g
	}
	return g
}

func (w *slWorld) arm(name string) {
	w.mu.Lock()
	g := w.gate(name)
	if !g.armed {
		g.armed = true
		g.ch = make(chan struct{})
	}
	w.mu.Unlock()
}

// enter blocks the caller while the gate is armed.
func (w *slWorld) enter(name string) {
	w.mu.Lock()
	g, ok := w.gates[name]
	if !ok || !g.armed || w.dead {
		w.mu.Unlock()
		return
	}
	g.occupied = true
	ch := g.ch
	w.mu.Unlock()
	w.touch()
	<-ch
	w.mu.Lock()
	g.occupied = false
	w.mu.Unlock()
	w.touch()
}

func (w *slWorld) release(name string) {
	w.mu.Lock()
	if g, ok := w.gates[name]; ok && g.armed {
		g.armed = false
		close(g.ch)
	}
	w.mu.Unlock()
	w.touch()
}

func (w *slWorld) releaseAll() {
	w.mu.Lock()
	w.dead = true
	for _, g := range w.gates {
		if g.armed {
			g.armed = false
			close(g.ch)
		}
	}
	w.mu.Unlock()
}

// hookGate: the consumer goroutine of a connection passes a vhook gate with a message for (service, object).
func slHookGate(mode string) func(kv ...interface{}) {
	return func(kv ...interface{}) {
		w, _ := slCur.Load().(*slWorld)
		if w == nil {
			return
		}
		var svc, obj uint32
		for i := 0; i+1 < len(kv); i += 2 {
			switch kv[i] {
			case "service":
				svc = u32(kv[i+1])
			case "object":
				obj = u32(kv[i+1])
			}
		}
		key := fmt.Sprintf("%s:%d:%d", mode, svc, obj)
		w.mu.Lock()
		k, ok := w.parks[key]
		if ok {
			delete(w.parks, key)
		}
		w.mu.Unlock()
		if ok {
			w.enter(fmt.Sprintf("call:%d", k))
		}
	}
}

// ---------------------------------------------------------------------------
// streams and listener
// ---------------------------------------------------------------------------

type slHalf struct {
	mu     sync.Mutex
	cond   *sync.Cond
	buf    []byte
	closed bool
}

func newSLHalf() *slHalf {
	h := &slHalf{}
	h.cond = sync.NewCond(&h.mu)
	return h
}

type slStream struct {
	w        *slWorld
	name     string
	conn     int
	server   bool
	r, wr    *slHalf
	closeErr bool
	once     sync.Once
}

func newSLPipe(w *slWorld, conn int, closeErr bool) (*slStream, *slStream) {
	a, b := newSLHalf(), newSLHalf()
	name := fmt.Sprintf("w%d-c%d", w.gen, conn)
	return &slStream{w: w, name: name + "/cli", conn: conn, r: a, wr: b},
		&slStream{w: w, name: name + "/srv", conn: conn, server: true, r: b, wr: a, closeErr: closeErr}
}

func (s *slStream) Read(p []byte) (int, error) {
	h := s.r
	h.mu.Lock()
	defer h.mu.Unlock()
	for len(h.buf) == 0 && !h.closed {
		h.cond.Wait()
	}
	if len(h.buf) == 0 {
		return 0, io.EOF
	}
	n := copy(p, h.buf)
	h.buf = h.buf[n:]
	s.w.touch()
	return n, nil
}

func (s *slStream) Write(p []byte) (int, error) {
	h := s.wr
	h.mu.Lock()
	defer h.mu.Unlock()
	if h.closed {
		return 0, io.ErrClosedPipe
	}
	h.buf = append(h.buf, p...)
	h.cond.Broadcast()
	s.w.touch()
	return len(p), nil
}

// Close closes both directions.  The FIRST Close of a server side stream passes the close gate of its
// connection (closeAll calls it under contextsMutex) and reports an error if the behaviour says so.
func (s *slStream) Close() error {
	first := false
	s.once.Do(func() { first = true })
	if first && s.server {
		s.w.enter(fmt.Sprintf("close:%d", s.conn))
	}
	for _, h := range []*slHalf{s.r, s.wr} {
		h.mu.Lock()
		h.closed = true
		h.cond.Broadcast()
		h.mu.Unlock()
	}
	s.w.touch()
	if first && s.server && s.closeErr {
		return fmt.Errorf("close fault injected by the harness")
	}
	return nil
}

func (s *slStream) String() string           { return "harness://" + s.name }
func (s *slStream) Context() context.Context { return context.Background() }

type slListener struct {
	w        *slWorld
	ch       chan net.Stream
	closed   chan struct{}
	failing  chan struct{}
	once     sync.Once
	failOnce sync.Once
	inAccept int32
}

func newSLListener(w *slWorld) *slListener {
	return &slListener{w: w, ch: make(chan net.Stream), closed: make(chan struct{}), failing: make(chan struct{})}
}

func (l *slListener) Accept() (net.Stream, error) {
	atomic.AddInt32(&l.inAccept, 1)
	defer func() { atomic.AddInt32(&l.inAccept, -1); l.w.touch() }()
	l.w.touch()
	// a closed or failing listener reports its error even if a stream is waiting
	select {
	case <-l.closed:
		return nil, fmt.Errorf("listener closed")
	case <-l.failing:
		return nil, fmt.Errorf("accept fault injected by the harness")
	default:
	}
	select {
	case s := <-l.ch:
		l.w.enter("accept") // the stream is taken, Accept has not returned yet
		return s, nil
	case <-l.closed:
		return nil, fmt.Errorf("listener closed")
	case <-l.failing:
		return nil, fmt.Errorf("accept fault injected by the harness")
	}
}

func (l *slListener) Close() error {
	l.once.Do(func() { close(l.closed) })
	l.w.touch()
	if l.w.cfg.LisCloseErr {
		return fmt.Errorf("listener close fault injected by the harness")
	}
	return nil
}

func (l *slListener) fail() { l.failOnce.Do(func() { close(l.failing) }) }

// ---------------------------------------------------------------------------
// implementor
// ---------------------------------------------------------------------------

func (o *slObj) Activate(a bus.Activation, h pong.PingPongSignalHelper) error {
	if o.refuse {
		return fmt.Errorf("activation refused (harness)")
	}
	return nil
}

// OnTerminate: the specification counts the hook when it has run (SOn); while the gate holds it, it has not.
func (o *slObj) OnTerminate() {
	o.w.touch()
	o.w.enter(fmt.Sprintf("term:%d", o.id))
	atomic.AddInt32(&o.terms, 1)
	vhook.Emit("serverlife", nil, "onterminate", "obj", o.id, "world", o.w.gen)
	o.w.touch()
}

// Hello(tag): tag = "<call>:<mode>"
func (o *slObj) Hello(tag string) (string, error) {
	atomic.AddInt32(&o.execs, 1)
	vhook.Emit("serverlife", nil, "exec", "obj", o.id, "tag", tag, "world", o.w.gen)
	o.w.touch()
	var k int
	var mode string
	if n, _ := fmt.Sscanf(strings.Replace(tag, ":", " ", 1), "%d %s", &k, &mode); n == 2 && mode == "slow" {
		o.w.enter(fmt.Sprintf("call:%d", k))
	}
	return "re:" + tag, nil
}

func (o *slObj) Ping(a string) error { return nil }

// ---------------------------------------------------------------------------
// world
// ---------------------------------------------------------------------------

var slGen int
var slHooksOnce sync.Once

// server side end point (vhook identity) -> server that registered it (process-wide: worlds follow each other)
var slEpOwner sync.Map

// slSink runs with vhook's lock held: it must not call into vhook.
func slSink(e vhook.Event) {
	w, _ := slCur.Load().(*slWorld)
	if w == nil {
		return
	}
	w.touch()
	switch e.Comp {
	case "server":
		if e.Ev == "ctx_add" {
			slEpOwner.Store(hlib.Num(hlib.KV(e, "ep")), e.Inst)
		}
	case "router":
		if e.Ev == "route" || e.Ev == "noroute" {
			w.hmu.Lock()
			if e.Inst == w.routerInst {
				w.nRoute[u32(hlib.KV(e, "service"))]++
			}
			w.hmu.Unlock()
		}
	case "service":
		if e.Ev == "tobox" {
			// a mail of this world: its end point was registered by this world's server - or by none (a connection
			// the server does not track can only be found wanting if its calls are seen)
			owner, known := slEpOwner.Load(e.Inst)
			w.hmu.Lock()
			if !known || owner.(int) == w.serverInst {
				w.nBox[[2]uint32{u32(hlib.KV(e, "service")), u32(hlib.KV(e, "object"))}]++
			}
			w.hmu.Unlock()
		}
	}
}

func newSLWorld(cfg slCfg) (*slWorld, error) {
	slGen++
	w := &slWorld{cfg: cfg, gen: slGen, gates: map[string]*slGate{}, parks: map[string]int{}, svcs: map[int]*slSvc{},
		objs: map[int]*slObj{}, conns: map[int]*slConn{}, calls: map[int]*slCall{}, thr: map[int]string{}, panics: map[int]string{},
		nRoute: map[uint32]int{}, nBox: map[[2]uint32]int{}}
	slHooksOnce.Do(func() {
		vhook.SetGate("router.receive.unlocked", slHookGate("parkR"))
		vhook.SetGate("service.receive.unlocked", slHookGate("parkS"))
	})
	w.lis = newSLListener(w)
	w.ns = bus.PrivateNamespace()
	vhook.SetSink(nil) // the events of the server's construction are not needed, and the world is not there yet
	srv, err := bus.StandAloneServer(w.lis, bus.Yes{}, w.ns)
	if err != nil {
		return nil, err
	}
	w.srv = srv
	// the identities under which this server and its router appear in the hook events
	w.serverInst = vhook.ID(srv)
	if f := reflect.ValueOf(srv).Elem().FieldByName("Router"); f.IsValid() && f.CanInterface() {
		w.routerInst = vhook.ID(f.Interface())
	} else {
		return nil, fmt.Errorf("the server has no exported Router field")
	}
	slCur.Store(w)
	if slSinkFn == nil {
		vhook.SetSink(slSink)
	} else {
		vhook.SetSink(func(e vhook.Event) {
			slSink(e)
			if f := slSinkFn; f != nil {
				f(e)
			}
		})
	}
	for i := 0; i < 2; i++ { // two users wait: both must be released
		go func() {
			ch := srv.WaitTerminate()
			<-ch
			w.mu.Lock()
			w.waiters++
			w.wait = w.waiters == 2
			w.mu.Unlock()
			w.touch()
		}()
	}
	for _, o := range cfg.Objs {
		w.objs[o] = &slObj{id: o, w: w}
	}
	for _, s := range cfg.Svcs {
		w.svcs[s] = &slSvc{id: s, name: fmt.Sprintf("s%d", s)}
	}
	for _, s := range cfg.InitSvcs {
		if err := w.newService(s); err != nil {
			return nil, err
		}
	}
	for _, t := range w.threads() {
		w.thr[t] = "idle"
	}
	for _, c := range cfg.Conns {
		w.conns[c] = &slConn{id: c, st: "none"}
	}
	for _, c := range cfg.InitConns {
		if inInts(cfg.LocalConns, c) {
			// Server.Client(): the connection is made by handle() on this goroutine
			cn := w.conns[c]
			cn.client = srv.Client()
			cn.st = "open"
			cn.client.OnDisconnect(func(error) {
				w.mu.Lock()
				cn.closed = true
				w.mu.Unlock()
				w.touch()
			})
			continue
		}
		w.offer(c)
		if !w.waitUntil(slBound, func() bool { return w.conns[c].st == "open" }) {
			return nil, fmt.Errorf("connection %d not established: %s", c, w.conns[c].st)
		}
	}
	return w, nil
}

func (w *slWorld) threads() []int {
	var t []int
	for i := 1; i <= w.cfg.SrvTerms; i++ {
		t = append(t, i)
	}
	for _, s := range w.cfg.Svcs {
		t = append(t, 10+s)
		if !inInts(w.cfg.InitSvcs, s) {
			t = append(t, 20+s)
		}
	}
	return t
}

// newService: Server.NewService with the main object, then Add of the other objects of the service.
func (w *slWorld) newService(s int) error {
	sv := w.svcs[s]
	main := w.objs[10*s+1]
	svc, err := w.srv.NewService(sv.name, pong.PingPongObject(main))
	if err != nil {
		return err
	}
	w.mu.Lock()
	sv.svc, sv.sid = svc, svc.ServiceID()
	main.oid = 1
	w.mu.Unlock()
	for _, o := range w.cfg.Objs {
		if o/10 == s && o != 10*s+1 {
			id, err := svc.Add(pong.PingPongObject(w.objs[o]))
			if err != nil {
				return err
			}
			w.mu.Lock()
			w.objs[o].oid = id
			w.mu.Unlock()
		}
	}
	return nil
}

// waitUntil polls pred (under w.mu) until it holds.
func (w *slWorld) waitUntil(d time.Duration, pred func() bool) bool {
	deadline := time.Now().Add(d)
	for {
		w.mu.Lock()
		ok := pred()
		w.mu.Unlock()
		if ok {
			return true
		}
		if time.Now().After(deadline) {
			return false
		}
		time.Sleep(50 * time.Microsecond)
	}
}

// offer: the client dials; once the server reads, the client authenticates.
func (w *slWorld) offer(c int) {
	cn := w.conns[c]
	cli, srv := newSLPipe(w, c, inInts(w.cfg.CloseErr, c))
	w.mu.Lock()
	cn.cli, cn.srv, cn.st = cli, srv, "wait"
	w.mu.Unlock()
	lis := w.lis
	go func() {
		select {
		case lis.ch <- srv:
		case <-lis.closed:
		case <-lis.failing:
		}
		w.touch()
	}()
	queue := make(chan *net.Message, 16)
	ep := net.EndPointFinalizer(cli, func(e net.EndPoint) {
		e.MakeHandler(func(*net.Header) (bool, bool) { return false, true }, queue, func(error) {
			w.mu.Lock()
			cn.closed = true
			w.mu.Unlock()
			w.touch()
		})
	})
	w.mu.Lock()
	cn.ep = ep
	cn.client = bus.NewClient(bus.NewChannel(ep, bus.DefaultCap()))
	w.mu.Unlock()
	go func() {
		// the authenticate call of bus.authenticateCall, without its fall-back (a Capability message and
		// a one second timer) when the call is refused
		cache := bus.NewCache(ep)
		cache.AddService("ServiceZero", 0, object.MetaService0)
		var err error
		service0, err := bus.ServiceServer(cache)
		if err == nil {
			_, err = service0.Authenticate(bus.ClientCap("u", "t"))
		}
		w.mu.Lock()
		switch {
		case err == nil:
			cn.st = "open"
		case strings.Contains(err.Error(), "Service not found"):
			cn.st = "unauth"
		default:
			cn.st = "failed:" + err.Error()
		}
		w.mu.Unlock()
		w.touch()
	}()
}

func (w *slWorld) target(o int) (uint32, uint32) {
	w.mu.Lock()
	defer w.mu.Unlock()
	sid, oid := uint32(1000+o/10), uint32(1000+o)
	if sv := w.svcs[o/10]; sv != nil && sv.sid != 0 {
		sid = sv.sid
	}
	if ob := w.objs[o]; ob != nil && ob.oid != 0 {
		oid = ob.oid
	}
	return sid, oid
}

func slCallCode(reply []byte, err error, tag string) (int, string) {
	if err == nil {
		return 2, ""
	}
	s := err.Error()
	switch {
	case strings.Contains(s, "Service not found"), strings.Contains(s, "Object not found"):
		return 3, s // refused: which of the two errors is not demanded
	case strings.Contains(s, "Remote connection closed"), strings.Contains(s, "closed pipe"), strings.Contains(s, "EOF"):
		return 5, s
	}
	return 6, s
}

// do executes one command of the behaviour.
func (w *slWorld) do(st *slStep) error {
	w.touch()
	switch st.O {
	case "offer":
		w.offer(st.A)
	case "cclose":
		go w.conns[st.A].ep.Close()
	case "listenfail":
		w.lis.fail()
	case "armterm":
		w.arm(fmt.Sprintf("term:%d", st.A))
	case "relterm":
		w.release(fmt.Sprintf("term:%d", st.A))
	case "armclose":
		w.arm(fmt.Sprintf("close:%d", st.A))
	case "relclose":
		w.release(fmt.Sprintf("close:%d", st.A))
	case "armaccept":
		w.arm("accept")
	case "relaccept":
		w.release("accept")
	case "release":
		w.release(fmt.Sprintf("call:%d", st.A))
	case "srvterm":
		t := st.A
		w.setThr(t, "run")
		go func() {
			defer func() {
				if r := recover(); r != nil {
					w.mu.Lock()
					w.panics[t] = fmt.Sprint(r)
					w.mu.Unlock()
					w.setThr(t, "panic")
				}
			}()
			w.srv.Terminate()
			w.setThr(t, "ret")
		}()
	case "svcterm":
		t := 10 + st.A
		sv := w.svcs[st.A]
		if sv.svc == nil {
			return fmt.Errorf("svcterm %d: no such service", st.A)
		}
		w.setThr(t, "run")
		go func() {
			defer func() {
				if r := recover(); r != nil {
					w.mu.Lock()
					w.panics[t] = fmt.Sprint(r)
					w.mu.Unlock()
					w.setThr(t, "panic")
				}
			}()
			sv.svc.Terminate()
			w.setThr(t, "ret")
		}()
	case "newsvcfail":
		// Server.NewService with an object that refuses its activation: an error is the expected outcome
		t := 20 + st.A
		s := st.A
		w.objs[10*s+1].refuse = true
		w.setThr(t, "run")
		go func() {
			if err := w.newService(s); err == nil {
				w.mu.Lock()
				w.panics[t] = "NewService succeeded although the object refused its activation"
				w.mu.Unlock()
				w.setThr(t, "panic")
				return
			}
			w.setThr(t, "ret")
		}()
	case "newsvc":
		t := 20 + st.A
		s := st.A
		w.setThr(t, "run")
		go func() {
			if err := w.newService(s); err != nil {
				w.mu.Lock()
				w.panics[t] = "NewService: " + err.Error()
				w.mu.Unlock()
				w.setThr(t, "panic")
				return
			}
			w.setThr(t, "ret")
		}()
	case "start":
		k, c, o, mode := st.A, st.B, st.C, st.M
		cn := w.conns[c]
		sid, oid := w.target(o)
		call := &slCall{k: k, code: 1}
		w.mu.Lock()
		w.calls[k] = call
		client := cn.client
		if mode == "parkS" || mode == "parkR" {
			w.parks[fmt.Sprintf("%s:%d:%d", mode, sid, oid)] = k
		}
		w.mu.Unlock()
		if mode != "fast" {
			w.arm(fmt.Sprintf("call:%d", k))
		}
		if client == nil {
			return fmt.Errorf("start %d: connection %d has no client", k, c)
		}
		tag := fmt.Sprintf("%d:%s", k, mode)
		go func() {
			rep, err := client.Call(nil, sid, oid, 100, strPayload(tag))
			code, msg := slCallCode(rep, err, tag)
			w.mu.Lock()
			call.code, call.err = code, msg
			w.mu.Unlock()
			w.touch()
		}()
	default:
		return fmt.Errorf("unknown command %q", st.O)
	}
	return nil
}

func (w *slWorld) setThr(t int, s string) {
	w.mu.Lock()
	w.thr[t] = s
	w.mu.Unlock()
	w.touch()
}

// observe: what the specification's Obs shows.
func (w *slWorld) observe() slObs {
	var o slObs
	w.mu.Lock()
	for k := 1; k <= w.cfg.Calls; k++ {
		if c, ok := w.calls[k]; ok {
			o.Calls = append(o.Calls, c.code)
		} else {
			o.Calls = append(o.Calls, 0)
		}
	}
	for _, id := range w.cfg.Objs {
		ob := w.objs[id]
		o.Exec = append(o.Exec, slON{id, int(atomic.LoadInt32(&ob.execs))})
		o.Term = append(o.Term, slON{id, int(atomic.LoadInt32(&ob.terms))})
	}
	for _, c := range w.cfg.Conns {
		cn := w.conns[c]
		st := cn.st
		if cn.closed {
			st = "closed"
		}
		o.Conns = append(o.Conns, slCS{c, st})
	}
	for t, st := range w.thr {
		o.Thr = append(o.Thr, slTS{t, st})
	}
	o.Gates = []slGN{}
	for name, g := range w.gates {
		if g.occupied {
			var kind string
			var n int
			if name == "accept" {
				kind = "accept"
			} else {
				p := strings.SplitN(name, ":", 2)
				kind = p[0]
				fmt.Sscanf(p[1], "%d", &n)
			}
			o.Gates = append(o.Gates, slGN{kind, n})
		}
	}
	o.Wait = w.wait
	sids := map[int]uint32{}
	oids := map[int][2]uint32{}
	for _, s := range w.cfg.Svcs {
		sids[s] = w.svcs[s].sid
	}
	for _, id := range w.cfg.Objs {
		oids[id] = [2]uint32{w.svcs[id/10].sid, w.objs[id].oid}
	}
	w.mu.Unlock()
	w.hmu.Lock()
	for _, s := range w.cfg.Svcs {
		// calls to a service that does not exist (yet) are addressed to 1000+s
		o.Routed = append(o.Routed, slSN{s, w.nRoute[uint32(1000+s)] + w.nRoute[sids[s]]*b2i(sids[s] != 0)})
	}
	for _, id := range w.cfg.Objs {
		n := 0
		if oids[id][0] != 0 && oids[id][1] != 0 {
			n = w.nBox[oids[id]]
		}
		o.Boxed = append(o.Boxed, slON{id, n})
	}
	w.hmu.Unlock()
	if atomic.LoadInt32(&w.lis.inAccept) > 0 {
		o.Acc = "in"
	} else {
		o.Acc = "out"
	}
	for _, s := range w.cfg.Svcs {
		_, err := w.ns.Resolve(w.svcs[s].name)
		st := "enabled"
		if err != nil {
			if strings.Contains(err.Error(), "not enabled") {
				st = "reserved"
			} else {
				st = "free"
			}
		}
		o.Ns = append(o.Ns, slSS{s, st})
	}
	o.norm()
	return o
}

// settle waits until the observation is one of the allowed ones and nothing has moved for slQuiet.
func (w *slWorld) settle(allowed map[string]bool, bound time.Duration) (slObs, bool) {
	deadline := time.Now().Add(bound)
	var last string
	stable := 0
	for {
		o := w.observe()
		k := o.key()
		if allowed[k] {
			if k == last {
				stable++
			} else {
				stable = 0
			}
			last = k
			if stable >= 2 && time.Now().UnixNano()-atomic.LoadInt64(&w.lastAct) > int64(slQuiet) {
				return o, true
			}
		} else {
			last = ""
		}
		if time.Now().After(deadline) {
			return o, false
		}
		time.Sleep(100 * time.Microsecond)
	}
}

// close winds the world down WITHOUT provoking what the behaviours are about: Server.Terminate is only
// called if neither the behaviour nor a failing listener has stopped (or is stopping) the server.
func (w *slWorld) close() {
	failing := false
	select {
	case <-w.lis.failing:
		failing = true
	default:
	}
	w.mu.Lock()
	started := false
	for t, st := range w.thr {
		if t < 10 && st != "idle" {
			started = true
		}
	}
	w.mu.Unlock()
	if failing && started {
		// the accept loop and Server.Terminate may both be inside stoppedWith, held by gates: letting them go
		// would run the race the behaviours are about outside any behaviour.  They stay where they are.
		w.mu.Lock()
		w.dead = true
		conns := []*slConn{}
		for _, c := range w.conns {
			conns = append(conns, c)
		}
		w.mu.Unlock()
		for _, c := range conns {
			if c.cli != nil {
				c.cli.Close()
			}
		}
		return
	}
	w.releaseAll()
	w.mu.Lock()
	conns := []*slConn{}
	for _, c := range w.conns {
		conns = append(conns, c)
	}
	w.mu.Unlock()
	switch {
	case failing:
		// the accept loop stops the server (if Terminate did not): wait for it, or for the loop to be gone
		w.waitUntil(2*time.Second, func() bool { return w.wait })
	case started:
	default:
		done := make(chan struct{})
		go func() {
			defer func() { recover(); close(done) }()
			w.srv.Terminate()
		}()
		select {
		case <-done:
		case <-time.After(2 * time.Second):
		}
	}
	w.waitUntil(2*time.Second, func() bool {
		for t, st := range w.thr {
			if t < 20 && st == "run" {
				return false
			}
		}
		return true
	})
	for _, c := range conns {
		if c.cli != nil {
			c.cli.Close()
		}
	}
}

// ---------------------------------------------------------------------------
// replay of one behaviour
// ---------------------------------------------------------------------------

type slReport struct {
	I        int         `json:"i"`
	Begin    bool        `json:"begin,omitempty"`
	Step     int         `json:"step"`
	Class    string      `json:"class,omitempty"`
	Detail   string      `json:"detail,omitempty"`
	Case     interface{} `json:"case,omitempty"`
	Diverged bool        `json:"diverged,omitempty"`
	Steps    int         `json:"steps"`
	Dev      []string    `json:"dev,omitempty"` // deviations of the code as found that were observed
	Infra    string      `json:"infra,omitempty"`
	Tries    int         `json:"tries,omitempty"`
}

func slKebab(s string) string {
	var b strings.Builder
	for i, r := range s {
		if r >= 'A' && r <= 'Z' {
			if i > 0 {
				b.WriteByte('-')
			}
			b.WriteRune(r + 32)
		} else {
			b.WriteRune(r)
		}
	}
	return b.String()
}

func slOps(t *slTest, n int) []string {
	var ops []string
	for i := 0; i < n && i < len(t.Steps); i++ {
		s := t.Steps[i]
		switch s.O {
		case "start":
			ops = append(ops, fmt.Sprintf("start call%d conn%d obj%d %s", s.A, s.B, s.C, s.M))
		case "newsvcfail":
			ops = append(ops, fmt.Sprintf("newsvc %d (activation refused)", s.A))
		case "listenfail", "armaccept", "relaccept":
			ops = append(ops, s.O)
		default:
			ops = append(ops, fmt.Sprintf("%s %d", s.O, s.A))
		}
	}
	return ops
}

// slDiff names what differs between the observation and the expectation (the aspect that gives the class).
func slDiff(got, exp *slObs, w *slWorld) (string, string) {
	// threads
	for i := range exp.Thr {
		if i < len(got.Thr) && got.Thr[i] != exp.Thr[i] {
			t := exp.Thr[i].T
			kind := "server-terminate"
			if t >= 20 {
				kind = "new-service"
			} else if t >= 10 {
				kind = "service-terminate"
			}
			g, e := got.Thr[i].St, exp.Thr[i].St
			switch {
			case g == "panic":
				w.mu.Lock()
				msg := w.panics[t]
				w.mu.Unlock()
				return kind + "-panics", fmt.Sprintf("thread %d: %s", t, msg)
			case g == "run" && e == "ret":
				return kind + "-does-not-return", fmt.Sprintf("thread %d still running", t)
			case g == "ret" && e == "run":
				return kind + "-returns-early", fmt.Sprintf("thread %d returned, expected to be held", t)
			}
			return kind + "-state", fmt.Sprintf("thread %d: %s, expected %s", t, g, e)
		}
	}
	for i := range exp.Term {
		if got.Term[i].N > exp.Term[i].N {
			return "onterminate-extra", fmt.Sprintf("object %d: OnTerminate ran %d times, expected %d", exp.Term[i].O, got.Term[i].N, exp.Term[i].N)
		}
		if got.Term[i].N < exp.Term[i].N {
			return "onterminate-missing", fmt.Sprintf("object %d: OnTerminate ran %d times, expected %d", exp.Term[i].O, got.Term[i].N, exp.Term[i].N)
		}
	}
	for i := range exp.Conns {
		g, e := got.Conns[i].St, exp.Conns[i].St
		if g != e {
			if e == "closed" {
				return "connection-left-open", fmt.Sprintf("connection %d is %s, expected closed", exp.Conns[i].C, g)
			}
			if g == "closed" {
				return "connection-closed-unexpectedly", fmt.Sprintf("connection %d is closed, expected %s", exp.Conns[i].C, e)
			}
			return "connection-state", fmt.Sprintf("connection %d is %s, expected %s", exp.Conns[i].C, g, e)
		}
	}
	for i := range exp.Calls {
		g, e := got.Calls[i], exp.Calls[i]
		if g != e {
			names := []string{"not started", "pending", "answered", "refused (service / object not found)", "-", "connection closed", "other error"}
			d := fmt.Sprintf("call %d: %s, expected %s", i+1, names[g], names[e])
			w.mu.Lock()
			if c := w.calls[i+1]; c != nil && c.err != "" {
				d += " (" + c.err + ")"
			}
			w.mu.Unlock()
			switch {
			case g == 1:
				return "call-never-ends", d
			case g == 2 && e != 1:
				return "call-answered-by-terminated-service", d
			case e == 1:
				return "call-ends-early", d
			}
			return "call-outcome", d
		}
	}
	for i := range exp.Exec {
		if got.Exec[i].N != exp.Exec[i].N {
			return "invocation-count", fmt.Sprintf("object %d: %d invocations, expected %d", exp.Exec[i].O, got.Exec[i].N, exp.Exec[i].N)
		}
	}
	if got.Wait != exp.Wait {
		if exp.Wait {
			return "waitterminate-not-released", "WaitTerminate still blocks"
		}
		return "waitterminate-released-early", "WaitTerminate released"
	}
	for i := range exp.Ns {
		if got.Ns[i].St != exp.Ns[i].St {
			if exp.Ns[i].St == "free" {
				return "namespace-keeps-service", fmt.Sprintf("service %d is %s in the namespace, expected forgotten", exp.Ns[i].S, got.Ns[i].St)
			}
			return "namespace-state", fmt.Sprintf("service %d is %s in the namespace, expected %s", exp.Ns[i].S, got.Ns[i].St, exp.Ns[i].St)
		}
	}
	if got.Acc != exp.Acc {
		return "accept-loop-state", fmt.Sprintf("accept loop %s, expected %s", got.Acc, exp.Acc)
	}
	if fmt.Sprint(got.Gates) != fmt.Sprint(exp.Gates) {
		return "held-goroutines", fmt.Sprintf("goroutines held at %v, expected %v", got.Gates, exp.Gates)
	}
	if fmt.Sprint(got.Routed, got.Boxed) != fmt.Sprint(exp.Routed, exp.Boxed) {
		return "call-progress", fmt.Sprintf("router look-ups per service %v, mails per object %v; expected %v, %v", got.Routed, got.Boxed, exp.Routed, exp.Boxed)
	}
	return "observation", "observation differs"
}

// slDistance: in how many aspects two observations differ.
func slDistance(a, b *slObs) int {
	n := 0
	for _, p := range [][2]string{{fmt.Sprint(a.Calls), fmt.Sprint(b.Calls)}, {fmt.Sprint(a.Exec), fmt.Sprint(b.Exec)},
		{fmt.Sprint(a.Term), fmt.Sprint(b.Term)}, {fmt.Sprint(a.Conns), fmt.Sprint(b.Conns)}, {fmt.Sprint(a.Thr), fmt.Sprint(b.Thr)},
		{a.Acc, b.Acc}, {fmt.Sprint(a.Gates), fmt.Sprint(b.Gates)}, {fmt.Sprint(a.Routed, a.Boxed), fmt.Sprint(b.Routed, b.Boxed)}, {fmt.Sprint(a.Wait), fmt.Sprint(b.Wait)}, {fmt.Sprint(a.Ns), fmt.Sprint(b.Ns)}} {
		if p[0] != p[1] {
			n++
		}
	}
	return n
}

func slReplay(i int, t *slTest, out func(slReport)) slReport {
	rp := slReport{I: i}
	w, err := newSLWorld(t.Cfg)
	if err != nil {
		rp.Infra = "world: " + err.Error()
		if w != nil {
			w.close()
		}
		return rp
	}
	defer func() {
		// winding the world down (gates released, Server.Terminate if nobody called it) runs qiloop code too:
		// a death there is attributed to the behaviour, as its last step
		out(slReport{I: i, Begin: true, Step: len(t.Steps)})
		w.close()
	}()
	for j := range t.Steps {
		st := &t.Steps[j]
		out(slReport{I: i, Begin: true, Step: j})
		allowed := map[string]bool{}
		for a := range st.Allowed {
			st.Allowed[a].Obs.norm()
			allowed[st.Allowed[a].Obs.key()] = true
		}
		st.Post.norm()
		if err := w.do(st); err != nil {
			rp.Infra = err.Error()
			return rp
		}
		got, ok := w.settle(allowed, slBound)
		rp.Steps = j + 1
		rp.Step = j
		if !ok {
			// the nearest allowed observation says what is wrong
			near := &st.Post
			best := slDistance(&got, near)
			for a := range st.Allowed {
				if d := slDistance(&got, &st.Allowed[a].Obs); d < best {
					best, near = d, &st.Allowed[a].Obs
				}
			}
			aspect, detail := slDiff(&got, near, w)
			rp.Class = "serverlife/" + st.O + "/" + aspect
			rp.Detail = fmt.Sprintf("after %v: %s (not reached within %v)", slOps(t, j+1), detail, slBound)
			rp.Case = map[string]interface{}{"config": t.Cfg, "commands": slOps(t, j+1), "observed": got, "expected (nearest allowed)": near, "allowed": len(st.Allowed)}
			return rp
		}
		// which allowed observation is it: prefer one that needs no deviation of the code as found
		var devs []string
		conform := false
		for _, a := range st.Allowed {
			if a.Obs.key() == got.key() {
				if len(a.Devs) == 0 {
					conform = true
				} else if devs == nil {
					devs = a.Devs
				}
			}
		}
		if !conform && rp.Class == "" {
			rp.Dev = devs
			names := []string{}
			for _, d := range devs {
				names = append(names, slKebab(d))
			}
			rp.Class = "serverlife/code/" + strings.Join(names, "+")
			rp.Detail = fmt.Sprintf("after %v the code behaves as the specification's deviation %v describes", slOps(t, j+1), devs)
			rp.Case = map[string]interface{}{"config": t.Cfg, "commands": slOps(t, j+1), "observed": got}
		}
		if got.key() != st.Post.key() {
			rp.Diverged = true // another allowed outcome: the rest of this behaviour does not apply
			return rp
		}
	}
	return rp
}

func slEnv() {
	var ms int
	if n, _ := fmt.Sscan(os.Getenv("SERVERLIFE_BOUND_MS"), &ms); n == 1 && ms > 0 {
		slBound = time.Duration(ms) * time.Millisecond
	}
}

func cmdSLChild(args []string) {
	slEnv()
	if len(args) < 4 {
		hlib.Fatal("usage: serverlife-child <tests> <from> <w> <n>")
	}
	var from, wk, n int
	fmt.Sscan(args[1], &from)
	fmt.Sscan(args[2], &wk)
	fmt.Sscan(args[3], &n)
	out := bufio.NewWriter(os.Stdout)
	emit := func(r slReport) {
		b, _ := json.Marshal(r)
		out.Write(b)
		out.WriteByte('\n')
		out.Flush()
	}
	i := -1
	hlib.ReadLines(args[0], func(line []byte) {
		i++
		if i < from || i%n != wk {
			return
		}
		var t slTest
		if err := json.Unmarshal(line, &t); err != nil {
			hlib.Fatal("test %d: %v", i, err)
		}
		retries := 2
		if hlib.Thorough() {
			retries = 4
		}
		var rp slReport
		for a := 0; a <= retries; a++ {
			// the order in which the code walks its maps decides between allowed outcomes: a behaviour that took
			// another allowed branch is tried again, to see the rest of this one
			var t2 slTest
			json.Unmarshal(line, &t2)
			rp = slReplay(i, &t2, emit)
			rp.Tries = a + 1
			if !rp.Diverged || rp.Class != "" {
				break
			}
		}
		emit(rp)
	})
	fmt.Fprintf(os.Stderr, "JOURNAL done\n")
}

// cmdSLReplay: parent.
func cmdSLReplay(args []string) {
	slEnv()
	var res hlib.Result
	workers := 4
	if len(args) > 1 {
		fmt.Sscan(args[1], &workers)
	}
	var tests [][]byte
	hlib.ReadLines(args[0], func(l []byte) { tests = append(tests, append([]byte{}, l...)) })
	total := len(tests)
	var mu sync.Mutex
	stop := false
	steps, diverged, crashes, timeouts, replays := 0, 0, 0, 0, 0
	devSeen := map[string]int{}
	costly := 0 // failures that cost a time bound each
	var wg sync.WaitGroup
	for wk := 0; wk < workers; wk++ {
		wg.Add(1)
		go func(wk int) {
			defer wg.Done()
			from := 0
			for restarts := 0; restarts < 30; restarts++ {
				mu.Lock()
				if stop {
					mu.Unlock()
					return
				}
				mu.Unlock()
				cmd := exec.Command(os.Args[0], "serverlife-child", args[0], fmt.Sprint(from), fmt.Sprint(wk), fmt.Sprint(workers))
				var stderr bytes.Buffer
				cmd.Stderr = &stderr
				stdout, _ := cmd.StdoutPipe()
				if err := cmd.Start(); err != nil {
					hlib.Fatal("start child: %v", err)
				}
				lastDone, cur, curStep := from-1, -1, 0
				lines := make(chan []byte, 64)
				go func() {
					sc := bufio.NewScanner(stdout)
					sc.Buffer(make([]byte, 1<<20), 1<<26)
					for sc.Scan() {
						lines <- append([]byte{}, sc.Bytes()...)
					}
					close(lines)
				}()
				hung := false
			loop:
				for {
					select {
					case l, ok := <-lines:
						if !ok {
							break loop
						}
						var rp slReport
						if json.Unmarshal(l, &rp) != nil {
							continue
						}
						if rp.Begin {
							cur, curStep = rp.I, rp.Step
							continue
						}
						lastDone = rp.I
						mu.Lock()
						res.Evaluations++
						steps += rp.Steps
						if rp.Diverged {
							diverged++
						}
						replays += rp.Tries
						if rp.Infra != "" {
							mu.Unlock()
							cmd.Process.Kill()
							hlib.Fatal("behaviour %d: %s", rp.I, rp.Infra)
						}
						if rp.Class != "" {
							res.Fail(rp.Class, rp.Detail, rp.Case)
							if len(rp.Dev) > 0 {
								devSeen[rp.Class]++
							} else {
								costly++
								timeouts++
								if costly >= 10 || res.FailCount[rp.Class] >= 4 {
									stop = true
								}
							}
						} else if rp.I%499 == 0 {
							var t slTest
							json.Unmarshal(tests[rp.I], &t)
							res.Sample(map[string]interface{}{"behaviour": rp.I, "commands": slOps(&t, len(t.Steps)), "observed": "as specified after every command"})
						}
						st := stop
						mu.Unlock()
						if st {
							cmd.Process.Kill()
							break loop
						}
					case <-time.After(4*slBound + 20*time.Second):
						hung = true
						cmd.Process.Kill()
						break loop
					}
				}
				for range lines {
				}
				werr := cmd.Wait()
				mu.Lock()
				if stop {
					mu.Unlock()
					return
				}
				mu.Unlock()
				if werr == nil && !hung && strings.Contains(stderr.String(), "JOURNAL done") {
					return
				}
				// the child died (or stopped talking) while replaying behaviour cur
				tail := stderr.String()
				if strings.Contains(tail, "harness:") && firstFatal(tail) == "(no fatal error line)" {
					hlib.Fatal("child failed: %s", tail)
				}
				if cur < 0 || cur <= lastDone {
					// between two behaviours: nothing to attribute
					cur = lastDone + 1
				}
				var t slTest
				var ops []string
				op := "?"
				if cur < total {
					json.Unmarshal(tests[cur], &t)
					ops = slOps(&t, curStep+1)
					if curStep < len(t.Steps) {
						op = t.Steps[curStep].O
					} else {
						op = "wind-down"
						ops = append(slOps(&t, len(t.Steps)), "(wind-down: every gate released, Server.Terminate unless the behaviour stopped the server)")
					}
				}
				fatal := firstFatal(tail)
				mu.Lock()
				res.Evaluations++
				crashes++
				if hung {
					res.Fail("serverlife/hang/"+op, fmt.Sprintf("after %v the replay process stopped answering", ops), map[string]interface{}{"behaviour": cur, "commands": ops})
					costly += 3
				} else {
					// a death the specification expects from the code as found (the accept goroutine panics in stoppedWith)?
					var devs []string
					if curStep < len(t.Steps) {
						for _, a := range t.Steps[curStep].Allowed {
							if a.Obs.Acc == "panic" && len(a.Devs) > 0 {
								devs = a.Devs
							}
						}
					}
					if devs != nil && strings.Contains(tail, "send on closed channel") && strings.Contains(tail, "stoppedWith") {
						names := []string{}
						for _, d := range devs {
							names = append(names, slKebab(d))
						}
						cl := "serverlife/code/" + strings.Join(names, "+") + "/process-dies"
						res.Fail(cl, fmt.Sprintf("after %v the process dies: %s (the accept goroutine and Server.Terminate both complete stoppedWith)", ops, fatal),
							map[string]interface{}{"behaviour": cur, "commands": ops})
						devSeen[cl]++
					} else {
						if len(tail) > 2500 {
							tail = tail[len(tail)-2500:]
						}
						res.Fail("serverlife/crash@"+slFatalSite(stderr.String()), fmt.Sprintf("after %v the process died: %s", ops, fatal),
							map[string]interface{}{"behaviour": cur, "commands": ops, "stderr": tail})
						costly++
					}
				}
				if costly >= 10 {
					stop = true
				}
				mu.Unlock()
				// next behaviour of this worker after cur
				from = cur + 1
			}
		}(wk)
	}
	wg.Wait()
	res.Distinct = total
	res.SetExtra("steps", steps)
	res.SetExtra("replays", replays)
	res.SetExtra("diverged_to_other_allowed_outcome", diverged)
	res.SetExtra("child_crashes", crashes)
	res.SetExtra("bound_exceeded", timeouts)
	res.SetExtra("stopped_on_failure_budget", stop)
	res.SetExtra("code_deviations_observed", devSeen)
	res.Emit()
}

// slFatalSite: the first qiloop frame of the crash (function name), for the failure class.
func slFatalSite(s string) string {
	for _, l := range strings.Split(s, "\n") {
		l = strings.TrimSpace(l)
		if strings.HasPrefix(l, "github.com/lugu/qiloop/") && strings.Contains(l, "(") {
			f := strings.TrimPrefix(l, "github.com/lugu/qiloop/")
			if i := strings.LastIndex(f, "("); i > 0 {
				f = f[:i]
			}
			return f
		}
	}
	return "unknown"
}

// ---------------------------------------------------------------------------
// recording: free-running concurrent rounds for TraceServerLife.tla
// ---------------------------------------------------------------------------

var slSinkFn func(vhook.Event)

type slRec struct {
	K     string `json:"k"`
	A     int    `json:"a"`
	B     int    `json:"b"`
	C     int    `json:"c"`
	Round int    `json:"round"`
}

func b2i(b bool) int {
	if b {
		return 1
	}
	return 0
}

// slRound runs one round and returns its records (nil, reason: the round could not be recorded).
func slRound(round int, seed int64) ([]slRec, string) {
	rng := rand.New(rand.NewSource(seed*7919 + int64(round)))
	cfg := slCfg{Svcs: []int{1, 2}, InitSvcs: []int{1, 2}, Objs: []int{11, 12, 21}, Conns: []int{1, 2}, InitConns: []int{1, 2},
		CloseErr: []int{1}, SrvTerms: 1, Calls: 4}
	var mu sync.Mutex
	var evs []vhook.Event
	recording := false
	slSinkFn = func(e vhook.Event) {
		mu.Lock()
		if recording || (e.Comp == "server" && e.Ev == "ctx_add") {
			evs = append(evs, e)
		}
		mu.Unlock()
	}
	defer func() { slSinkFn = nil }()
	w, err := newSLWorld(cfg)
	if err != nil {
		return nil, "world: " + err.Error()
	}
	defer w.close()
	// the server side end points, in the order the connections were made
	epConn := map[int]int{}
	mu.Lock()
	n := 0
	for _, e := range evs {
		if e.Comp == "server" && e.Ev == "ctx_add" {
			n++
			epConn[hlib.Num(hlib.KV(e, "ep"))] = n
		}
	}
	evs = nil
	recording = true
	mu.Unlock()
	if n != 2 {
		return nil, fmt.Sprintf("%d contexts registered", n)
	}
	objs := []int{11, 12, 21}
	var wg sync.WaitGroup
	start := make(chan struct{})
	spread := []int{1, 20, 100, 300}[rng.Intn(4)] // how far apart the actors start (microseconds)
	actor := func(f func()) {
		wg.Add(1)
		d := time.Duration(rng.Intn(spread)) * time.Microsecond
		go func() {
			defer wg.Done()
			<-start
			if d > 0 {
				t := time.Now()
				for time.Since(t) < d {
					runtime.Gosched()
				}
			}
			f()
		}()
	}
	callID := map[[2]int]int{} // (connection, message id) -> call
	for c := 1; c <= 2; c++ {
		c := c
		targets := []int{objs[rng.Intn(3)], objs[rng.Intn(3)]}
		client := w.conns[c].client
		for j := 0; j < 2; j++ {
			callID[[2]int{c, 3 + 2*j}] = 2*(c-1) + j + 1
		}
		actor(func() {
			for j, o := range targets {
				k := 2*(c-1) + j + 1
				sid, oid := w.target(o)
				vhook.Emit("serverlife", nil, "start", "k", k, "c", c, "o", o, "world", w.gen)
				rep, err := client.Call(nil, sid, oid, 100, strPayload(fmt.Sprintf("%d:fast", k)))
				code, _ := slCallCode(rep, err, "")
				vhook.Emit("serverlife", nil, "res", "k", k, "code", code, "world", w.gen)
			}
		})
	}
	for _, s := range []int{1, 2} {
		s := s
		if rng.Intn(10) < 6 {
			actor(func() {
				vhook.Emit("serverlife", nil, "svcterm", "s", s, "world", w.gen)
				w.svcs[s].svc.Terminate()
				vhook.Emit("serverlife", nil, "svcret", "s", s, "world", w.gen)
			})
		}
	}
	switch x := rng.Intn(10); {
	case x < 6:
		w.setThr(1, "run")
		actor(func() {
			vhook.Emit("serverlife", nil, "srvterm", "t", 1, "world", w.gen)
			w.srv.Terminate()
			vhook.Emit("serverlife", nil, "srvret", "t", 1, "world", w.gen)
			w.setThr(1, "ret")
		})
	case x < 8:
		actor(func() {
			vhook.Emit("serverlife", nil, "listenfail", "world", w.gen)
			w.lis.fail()
		})
	}
	close(start)
	done := make(chan struct{})
	go func() { wg.Wait(); close(done) }()
	select {
	case <-done:
	case <-time.After(slBound):
		return nil, "hang"
	}
	// the accept loop's stoppedWith (listener failure) has no return to wait for: WaitTerminate is its end
	select {
	case <-w.lis.failing:
		if !w.waitUntil(slBound, func() bool { return w.wait }) {
			return nil, "waitterminate-not-released-after-listener-failure"
		}
	default:
	}
	time.Sleep(200 * time.Microsecond)
	mu.Lock()
	recording = false
	raw := evs
	mu.Unlock()
	recs := []slRec{{K: "reset", Round: round}}
	for _, e := range raw {
		r := slRec{Round: round}
		num := func(k string) int { return hlib.Num(hlib.KV(e, k)) }
		call := func() (int, bool) {
			k, ok := callID[[2]int{epConn[num("ep")], num("id")}]
			svc := num("service")
			return k, ok && svc != 0
		}
		if e.Comp == "serverlife" && num("world") != w.gen {
			continue // a method of an earlier round that ran late (its caller was gone already)
		}
		switch e.Comp + "." + e.Ev {
		case "serverlife.start":
			r.K, r.A, r.B, r.C = "start", num("k"), num("c"), num("o")
		case "serverlife.res":
			r.K, r.A, r.B = "res", num("k"), num("code")
		case "serverlife.svcterm", "serverlife.svcret":
			r.K, r.A = e.Ev, num("s")
		case "serverlife.srvterm", "serverlife.srvret":
			r.K, r.A = e.Ev, num("t")
		case "serverlife.listenfail":
			r.K = "listenfail"
		case "serverlife.onterminate":
			r.K, r.A = "onterm", num("obj")
		case "serverlife.exec":
			var k int
			tag, _ := hlib.KV(e, "tag").(string)
			fmt.Sscanf(tag, "%d:", &k)
			r.K, r.A = "exec", k
		case "router.swap":
			r.K = "swap"
		case "router.remove":
			r.K, r.A, r.B = "rtremove", num("service"), num("ok")
		case "router.route", "router.noroute":
			k, ok := call()
			if !ok {
				continue
			}
			r.K, r.A, r.B = "route", k, b2i(e.Ev == "route")
		case "service.tobox", "service.noobj":
			k, ok := callID[[2]int{epConn[e.Inst], num("id")}]
			if !ok || num("service") == 0 {
				continue
			}
			r.K, r.A, r.B = "box", k, b2i(e.Ev == "tobox")
		case "servicelife.terminate":
			if num("service") == 0 {
				continue // the authentication service: not in the specification
			}
			r.K, r.A = "sterm", num("service")
		case "namespace.remove":
			r.K, r.A, r.B = "nsremove", num("service"), num("ok")
		case "server.closeall":
			r.K = "closeall"
		case "server.ctx_close":
			r.K, r.A = "ctxclose", epConn[num("ep")]
		case "server.stopped":
			r.K = "stopped"
		default:
			continue
		}
		recs = append(recs, r)
	}
	recs = append(recs, slRec{K: "end", Round: round})
	return recs, ""
}

// serverlife-record-child <out.ndjson> <from> <rounds>: journal on stdout
func cmdSLRecordChild(args []string) {
	slEnv()
	var from, rounds int
	fmt.Sscan(args[1], &from)
	fmt.Sscan(args[2], &rounds)
	f, err := os.OpenFile(args[0], os.O_CREATE|os.O_WRONLY|os.O_APPEND, 0644)
	if err != nil {
		hlib.Fatal("open: %v", err)
	}
	defer f.Close()
	for r := from; r < rounds; r++ {
		fmt.Printf("{\"round\":%d}\n", r)
		recs, why := slRound(r, hlib.Seed())
		if recs == nil {
			fmt.Printf("{\"round\":%d,\"fail\":%q}\n", r, why)
			continue
		}
		var buf bytes.Buffer
		for _, rec := range recs {
			b, _ := json.Marshal(rec)
			buf.Write(b)
			buf.WriteByte('\n')
		}
		f.Write(buf.Bytes())
		fmt.Printf("{\"round\":%d,\"done\":true,\"events\":%d}\n", r, len(recs))
	}
	fmt.Fprintf(os.Stderr, "JOURNAL done\n")
}

// serverlife-record <out.ndjson> <rounds>
func cmdSLRecord(args []string) {
	slEnv()
	var res hlib.Result
	var rounds int
	fmt.Sscan(args[1], &rounds)
	os.Remove(args[0])
	from, events, crashes := 0, 0, 0
	for from < rounds && crashes < 8 {
		cmd := exec.Command(os.Args[0], "serverlife-record-child", args[0], fmt.Sprint(from), fmt.Sprint(rounds))
		var stderr bytes.Buffer
		cmd.Stderr = &stderr
		stdout, _ := cmd.StdoutPipe()
		if err := cmd.Start(); err != nil {
			hlib.Fatal("start child: %v", err)
		}
		cur := from
		sc := bufio.NewScanner(stdout)
		for sc.Scan() {
			var j struct {
				Round  int
				Done   bool
				Fail   string
				Events int
			}
			if json.Unmarshal(sc.Bytes(), &j) != nil {
				continue
			}
			cur = j.Round
			if j.Done {
				res.Evaluations++
				events += j.Events
			}
			if j.Fail != "" {
				res.Evaluations++
				if strings.HasPrefix(j.Fail, "world:") || strings.Contains(j.Fail, "contexts registered") {
					cmd.Process.Kill()
					hlib.Fatal("round %d: %s", j.Round, j.Fail)
				}
				res.Fail("serverlife/conc/"+j.Fail, fmt.Sprintf("concurrent round %d (seed %d): %s within %v", j.Round, hlib.Seed(), j.Fail, slBound),
					map[string]interface{}{"round": j.Round, "seed": hlib.Seed()})
				if len(res.Failures) >= 4 {
					cmd.Process.Kill()
				}
			}
		}
		werr := cmd.Wait()
		if len(res.Failures) >= 4 || (werr == nil && strings.Contains(stderr.String(), "JOURNAL done")) {
			break
		}
		tail := stderr.String()
		if strings.Contains(tail, "harness:") && firstFatal(tail) == "(no fatal error line)" {
			hlib.Fatal("record child failed: %s", tail)
		}
		crashes++
		res.Evaluations++
		if len(tail) > 2500 {
			tail = tail[len(tail)-2500:]
		}
		res.Fail("serverlife/conc/crash@"+slFatalSite(stderr.String()), fmt.Sprintf("concurrent round %d (seed %d): the process died: %s", cur, hlib.Seed(), firstFatal(stderr.String())),
			map[string]interface{}{"round": cur, "seed": hlib.Seed(), "stderr": tail})
		from = cur + 1
	}
	res.Distinct = rounds
	res.SetExtra("events", events)
	res.SetExtra("child_crashes", crashes)
	res.Emit()
}
