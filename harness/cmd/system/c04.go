package main

// C04 (b): replay of GenSystem behaviours.  A behaviour is a sequence of
// controlled steps (start call k / write raw frame t / let the method body
// working on tag t return); the harness performs them on a real server with
// the system settled in between and compares what the specification expects
// after the last step: the outcome of every call, the callee-side execution
// log, every response frame that arrived on each connection.

import (
	"encoding/json"
	"fmt"
	"sort"
	"sync"
	"time"

	"github.com/lugu/qiloop/bus"
	"github.com/lugu/qiloop/bus/net"
	"github.com/lugu/qiloop/examples/pong"
	"verif/harness/hlib"
)

type scCall struct {
	Client string `json:"client"`
	Conn   string `json:"conn"`
	Svc    int    `json:"svc"`
	Obj    int    `json:"obj"`
	Act    int    `json:"act"`
}

type scRaw struct {
	Tag  string `json:"tag"`
	Conn string `json:"conn"`
	Type string `json:"type"`
	Svc  int    `json:"svc"`
	Obj  int    `json:"obj"`
	Act  int    `json:"act"`
	ID   int    `json:"id"`
	Pl   string `json:"pl"`
}

// rawMap: TLC prints the empty function as an empty array.
type rawMap map[string]scRaw

func (m *rawMap) UnmarshalJSON(b []byte) error {
	if string(b) == "[]" {
		*m = rawMap{}
		return nil
	}
	x := map[string]scRaw{}
	if err := json.Unmarshal(b, &x); err != nil {
		return err
	}
	*m = x
	return nil
}

type scenario struct {
	Calls map[string]scCall `json:"calls"`
	Raws  rawMap            `json:"raws"`
	Conns []string          `json:"conns"`
	Objs  []int             `json:"objs"`
	Fail  []string          `json:"fail"`
}

type outRec struct {
	Kind string `json:"kind"`
	Val  string `json:"val"`
}

type seenRec struct {
	Type string `json:"type"`
	ID   int    `json:"id"`
	Val  string `json:"val"`
}

type execObs struct {
	Obj  int    `json:"obj"`
	Tag  string `json:"tag"`
	Type string `json:"type"`
}

type obs struct {
	Outcome map[string][]outRec  `json:"outcome"`
	Execs   []execObs            `json:"execs"`
	Seen    map[string][]seenRec `json:"seen"`
	Done    []string             `json:"done"`
}

type behaviour struct {
	H [][]string `json:"h"`
	O obs        `json:"o"`
}

type c04Line struct {
	K string          `json:"K"`
	N string          `json:"N"`
	V json.RawMessage `json:"V"`
}

type callState struct {
	returned bool
	out      outRec
}

// objCode: the objects of the second service are numbered 201, 202, .. (GenSystem.ObjCode).
func objCode(svc, obj int) int {
	if svc == 1 {
		return obj
	}
	return 100*svc + obj
}

// caller: one bus.Client of the specification.
type caller struct {
	sess  bus.Session
	proxy func(name string, svc, obj uint32) (bus.Proxy, error)
}

// buildServices creates the probe objects the scenario names: codes below 100 belong to the probe service, code
// 100*s+o is object o of one more service "probe<s>".  Returns model service -> real service id.
func buildServices(objs []int, gating bool) (*rig, map[int]uint32) {
	sort.Ints(objs)
	first := []string{}
	more := map[int][]string{}
	for _, o := range objs {
		if o < 100 {
			first = append(first, fmt.Sprint(o))
		} else {
			more[o/100] = append(more[o/100], fmt.Sprint(o))
		}
	}
	r, err := newRig(newAuth("yes", nil), first, gating)
	if err != nil {
		hlib.Fatal("rig: %v", err)
	}
	svcs := map[int]uint32{1: r.svcID}
	for s, names := range more {
		id, err := r.addService(fmt.Sprint("probe", s), names)
		if err != nil {
			hlib.Fatal("rig: service %d: %v", s, err)
		}
		svcs[s] = id
	}
	return r, svcs
}

// buildCallers makes the bus.Client objects of the specification.  A connection with ONE client gets a bus.Cache
// (every call draws a fresh proxy from it, as a user of a Session does).  A connection with SEVERAL clients gets
// them the way bus.NewClientObject makes them: one bus.NewClient per client on the channel of the one end point,
// each with its own message id counter starting at 1 (shared[conn] = true).
func (r *rig) buildCallers(clients map[string]string, svcs map[int]uint32) (map[string]*caller, map[string]bool, error) {
	perConn := map[string][]string{}
	for cl, cn := range clients {
		perConn[cn] = append(perConn[cn], cl)
	}
	callers := map[string]*caller{}
	shared := map[string]bool{}
	cns := []string{}
	for cn := range perConn {
		cns = append(cns, cn)
	}
	sort.Strings(cns)
	for _, cn := range cns {
		cls := perConn[cn]
		sort.Strings(cls)
		c := r.conns[cn]
		cache, err := r.setupClient(c)
		if err != nil {
			return nil, nil, err
		}
		meta := cache.Services[r.svcID]
		for s, id := range svcs {
			if s != 1 {
				cache.AddService(fmt.Sprint("probe", s), id, meta)
			}
		}
		if len(cls) == 1 {
			callers[cls[0]] = &caller{sess: cache, proxy: func(name string, svc, obj uint32) (bus.Proxy, error) {
				if _, ok := cache.Names[name]; !ok {
					cache.AddService(name, svc, meta)
				}
				return cache.Proxy(name, obj)
			}}
			continue
		}
		shared[cn] = true
		channel := bus.NewChannel(c.ep, bus.DefaultCap())
		for _, cl := range cls {
			client := bus.NewClient(channel)
			callers[cl] = &caller{sess: cache, proxy: func(name string, svc, obj uint32) (bus.Proxy, error) {
				return bus.NewProxy(client, meta, svc, obj), nil
			}}
		}
	}
	return callers, shared, nil
}

// invoke makes call `tag` through the generated proxy (hello, action 100) or by action id; the outcome in the
// vocabulary of the specification.  A method without result (ping, action 101) answers with an empty payload:
// the result "for its own arguments" is then its own tag; anything else in the payload is decoded as a result of hello.
func invoke(cl *caller, px bus.Proxy, act int, tag string) outRec {
	if act == 100 {
		ret, err := pong.MakePingPong(cl.sess, px).Hello(tag)
		if err != nil {
			return outRec{"error", errClass(err.Error())}
		}
		return outRec{"reply", trimRe(ret)}
	}
	ret, err := px.CallID(uint32(act), strPayload(tag))
	if err != nil {
		return outRec{"error", errClass(err.Error())}
	}
	if len(ret) == 0 {
		return outRec{"reply", tag}
	}
	m := net.NewMessage(net.NewHeader(net.Reply, 0, 0, 0, 0), ret)
	return outRec{"reply", respVal(&m)}
}

// seenVal: the value of the specification for a frame a client end point received.
func seenVal(m *net.Message) string {
	if m.Header.Type == net.Reply && len(m.Payload) == 0 {
		return "void"
	}
	return respVal(m)
}

// c04Run replays one behaviour; returns the failure class ("" = conforms) and a detail.
func c04Run(sc *scenario, b *behaviour) (string, string, interface{}) {
	r, svcs := buildServices(sc.Objs, true)
	defer r.close()
	for _, t := range sc.Fail {
		r.fail[t] = true
	}
	sort.Strings(sc.Conns)
	for _, cn := range sc.Conns {
		if _, err := r.connect(cn); err != nil {
			hlib.Fatal("connect: %v", err)
		}
	}
	clients := map[string]string{}
	for _, k := range sc.Calls {
		clients[k.Client] = k.Conn
	}
	callers, shared, err := r.buildCallers(clients, svcs)
	if err != nil {
		return "c04/no-outcome", "set-up call: " + err.Error(), map[string]interface{}{"steps": "set-up (authenticate, metaObject)"}
	}
	used := map[string]bool{}
	for _, cn := range clients {
		used[cn] = true
	}
	for _, cn := range sc.Conns {
		if !used[cn] {
			c := r.conns[cn]
			if err := bounded("authenticate call", func() error { return bus.AuthenticateUser(c.ep, "u", "t") }); err != nil {
				return "c04/no-outcome", "set-up call: " + err.Error(), nil
			}
		}
	}
	returnedN := 0
	settle := func() bool {
		return r.w.waitFor(tBound, func() bool {
			return r.settledLocked(func() int { return returnedN }, r.callDeliveriesLocked)
		})
	}
	if !r.w.waitFor(3*tBound, func() bool { return r.settledLocked(nil, nil) }) {
		// ordinary calls (authenticate, metaObject) were made and returned, yet a frame is still on its way
		// after three times the bound: a message of the set-up got lost or was answered to nobody
		return "c04/no-outcome", "set-up does not settle: " + r.dump(), map[string]interface{}{"steps": "set-up (authenticate, metaObject)"}
	}
	// baselines: ids used so far, frames seen so far, deliveries so far
	r.w.mu.Lock()
	for _, c := range r.conns {
		c.base = c.cli.w.lastID
		if shared[c.name] {
			c.base = 1 // the clients made for this scenario count from 1, all of them
		}
	}
	base := r.callDeliveriesLocked()
	r.rec.execs = nil
	r.w.mu.Unlock()
	for _, c := range r.conns {
	drain:
		for {
			select {
			case <-c.sniff:
			default:
				break drain
			}
		}
	}
	returnedN = base

	states := map[string]*callState{}
	realSvc := func(s int) uint32 {
		if id, ok := svcs[s]; ok {
			return id
		}
		return 0x7fff0000 + uint32(s) // a service id that does not exist
	}
	realObj := func(s, o int) uint32 {
		if h, ok := r.objs[fmt.Sprint(objCode(s, o))]; ok {
			return h.id
		}
		return 0x7ffffff0 + uint32(o) // an object id that does not exist
	}
	var wg sync.WaitGroup
	stuck := ""
	for _, st := range b.H {
		var started func() bool // the controlled step has taken effect (evaluated under world.mu)
		switch st[0] {
		case "call":
			k := st[1]
			kc := sc.Calls[k]
			cs := &callState{}
			{
				h := r.conns[kc.Conn].cli.w
				before := h.frames
				started = func() bool { return h.frames > before || cs.returned }
			}
			states[k] = cs
			name := "probe"
			if kc.Svc != 1 {
				name = fmt.Sprint("probe", kc.Svc)
			}
			cl := callers[kc.Client]
			px, err := cl.proxy(name, realSvc(kc.Svc), realObj(kc.Svc, kc.Obj))
			if err != nil {
				hlib.Fatal("proxy: %v", err)
			}
			wg.Add(1)
			go func(k string, kc scCall) {
				defer wg.Done()
				out := invoke(cl, px, kc.Act, k)
				r.w.mu.Lock()
				cs.returned, cs.out = true, out
				returnedN++
				r.w.cond.Broadcast()
				r.w.mu.Unlock()
			}(k, kc)
		case "raw":
			rw := sc.Raws[st[1]]
			c := r.conns[rw.Conn]
			svc := realSvc(rw.Svc)
			id := c.base + uint32(rw.ID) - 1
			payload := strPayload(rw.Tag)
			if rw.Pl == "bad" {
				payload = []byte{0xff, 0xff, 0xff, 0x7f}
			}
			hdr := net.NewHeader(typeCode[rw.Type], svc, realObj(rw.Svc, rw.Obj), uint32(rw.Act), id)
			if err := c.ep.Send(net.NewMessage(hdr, payload)); err != nil {
				hlib.Fatal("raw send: %v", err)
			}
		case "fin":
			tag := st[1]
			r.w.mu.Lock()
			before := r.rec.ended[tag]
			r.w.mu.Unlock()
			started = func() bool { return r.rec.ended[tag] > before }
			r.release(tag)
		}
		if started != nil && !r.w.waitFor(tBound, started) {
			stuck = fmt.Sprintf("step %v has no effect within %v", st, tBound)
			break
		}
		if !settle() {
			stuck = fmt.Sprintf("system does not settle within %v after step %v: %s", tBound, st, r.dump())
			break
		}
	}
	// ---- observation
	got := obs{Outcome: map[string][]outRec{}, Seen: map[string][]seenRec{}}
	for k := range sc.Calls {
		got.Outcome[k] = []outRec{}
		if cs, ok := states[k]; ok {
			r.w.mu.Lock()
			if cs.returned {
				got.Outcome[k] = []outRec{cs.out}
				got.Done = append(got.Done, k)
			}
			r.w.mu.Unlock()
		}
	}
	r.w.mu.Lock()
	for _, e := range r.rec.execs {
		o := 0
		fmt.Sscan(e.Obj, &o)
		got.Execs = append(got.Execs, execObs{o, e.Tag, ""})
	}
	r.w.mu.Unlock()
	for _, c := range r.conns {
		got.Seen[c.name] = []seenRec{}
	drain2:
		for {
			select {
			case m := <-c.sniff:
				got.Seen[c.name] = append(got.Seen[c.name], seenRec{typeName[m.Header.Type], int(m.Header.ID) - int(c.base) + 1, seenVal(m)})
			default:
				break drain2
			}
		}
	}
	class, detail := c04Compare(sc, &b.O, &got)
	if class == "" && stuck != "" {
		class, detail = "c04/stuck", stuck
	} else if stuck != "" {
		detail += " | " + stuck
	}
	if class != "" {
		return class, detail, map[string]interface{}{"steps": b.H, "expected": b.O, "got": got}
	}
	return "", "", nil
}

func trimRe(s string) string {
	if len(s) >= 3 && s[:3] == "re:" {
		return s[3:]
	}
	return "?" + s
}

// c04Compare names what differs, most specific first.
func c04Compare(sc *scenario, exp, got *obs) (string, string) {
	// executions: who ran, how often, caused by which frame
	expN, gotN := map[string]int{}, map[string]int{}
	for _, e := range exp.Execs {
		expN[e.Tag]++
	}
	for _, e := range got.Execs {
		gotN[e.Tag]++
	}
	for t, n := range gotN {
		if n > expN[t] {
			if rw, ok := sc.Raws[t]; ok && rw.Type != "post" && rw.Type != "call" {
				return "c04/exec-by-" + rw.Type, fmt.Sprintf("a %s frame ran the method (%d time(s))", rw.Type, n)
			}
			return "c04/exec-more-than-once", fmt.Sprintf("tag %s ran %d times, specification %d", t, n, expN[t])
		}
	}
	for t, n := range expN {
		if gotN[t] < n {
			return "c04/exec-missing", fmt.Sprintf("tag %s ran %d times, specification %d", t, gotN[t], n)
		}
	}
	// outcomes
	for k := range sc.Calls {
		e, g := exp.Outcome[k], got.Outcome[k]
		if len(e) == 1 && len(g) == 0 {
			return "c04/no-outcome", fmt.Sprintf("call %s did not return", k)
		}
		if len(e) == 0 && len(g) == 1 {
			return "c04/early-outcome", fmt.Sprintf("call %s returned %v before the specification allows", k, g[0])
		}
		if len(e) == 1 && len(g) == 1 && e[0] != g[0] {
			if g[0].Kind == "reply" && g[0].Val != k {
				return "c04/outcome-of-other-call", fmt.Sprintf("call %s returned the result for %q", k, g[0].Val)
			}
			return "c04/outcome-differs", fmt.Sprintf("call %s returned %v, specification %v", k, g[0], e[0])
		}
	}
	// per object execution order
	po := func(x []execObs) map[int][]string {
		m := map[int][]string{}
		for _, e := range x {
			m[e.Obj] = append(m[e.Obj], e.Tag)
		}
		return m
	}
	eo, g := po(exp.Execs), po(got.Execs)
	for o, l := range eo {
		if fmt.Sprint(l) != fmt.Sprint(g[o]) {
			return "c04/exec-order", fmt.Sprintf("object %d ran %v, specification %v", o, g[o], l)
		}
	}
	// response frames per connection
	for c, l := range exp.Seen {
		gl := got.Seen[c]
		if fmt.Sprint(l) != fmt.Sprint(gl) {
			for _, x := range gl {
				for t, rw := range sc.Raws {
					if rw.Type == "post" && x.Val == t {
						return "c04/response-to-post", fmt.Sprintf("post %s was answered: %v", t, x)
					}
				}
			}
			return "c04/responses-differ", fmt.Sprintf("connection %s received %v, specification %v", c, gl, l)
		}
	}
	return "", ""
}

func cmdC04Replay(args []string) {
	if len(args) < 1 {
		hlib.Fatal("usage: c04-replay <behaviours.ndjson>")
	}
	var res hlib.Result
	var sc *scenario
	scName := ""
	shapes := map[string]bool{}
	// a tree that deviates makes most behaviours fail, each after a time-out: stop early, the verdict is settled
	const maxFailing = 25
	failing, skipped := 0, 0
	tBound = 3 * time.Second
	hlib.ReadLines(args[0], func(line []byte) {
		var l c04Line
		if err := json.Unmarshal(line, &l); err != nil {
			hlib.Fatal("bad line: %v", err)
		}
		switch l.K {
		case "S":
			sc = &scenario{}
			if err := json.Unmarshal(l.V, sc); err != nil {
				hlib.Fatal("bad scenario: %v", err)
			}
			scName = l.N
		case "B":
			if failing >= maxFailing {
				skipped++
				return
			}
			var b behaviour
			if err := json.Unmarshal(l.V, &b); err != nil {
				hlib.Fatal("bad behaviour: %v", err)
			}
			class, detail, c := c04Run(sc, &b)
			res.Evaluations++
			shapes[scName+fmt.Sprint(b.H)] = true
			if class != "" {
				failing++
				res.Fail(class, detail, map[string]interface{}{"scenario": scName, "case": c})
			} else {
				res.Sample(map[string]interface{}{"scenario": scName, "steps": b.H, "observed": "as specified"})
			}
		}
	})
	res.Distinct = len(shapes)
	if skipped > 0 {
		res.SetExtra("aborted", true)
		res.SetExtra("skipped_after_failures", skipped)
	}
	res.Emit()
}

func init() {
	hlib.Register("c04-replay", cmdC04Replay)
}

func main() { hlib.Main() }
