package main

// C16, extension "termfault" (spec/TermFault.tla): removal and termination of a served
// object while its environment misbehaves.
//
//   tf-replay <tests.ndjson> [workers]   replays the behaviours exported by GenTermFault.tla on a
//                                         real server; every behaviour runs in a CHILD process
//   tf-child  <tests.ndjson> <from> <to>  the child: behaviours [from, to) one after the other,
//                                         one fresh server each; ends at the first failure
//   tf-stress <rounds> [workers]          free-running rounds (no gates between the commands, real
//                                         races): concurrent removals / remote terminates / service
//                                         termination of objects with full mailboxes, parked senders and
//                                         failing subscribers, checked against the invariants of
//                                         TermFault.tla at quiescence; child processes as well
//   tf-stress-child <from> <to>
//
// The rig: bus.StandAloneServer on a harness listener, a service "tf" whose objects are generated-stub
// objects (examples/pong) with harness method bodies - hello("g:..") stays in its body until the harness
// lets it return, hello("f") returns at once -, a second service "witness", and RAW connections over
// harness streams: the harness writes frames and reads frames; the direction server -> client of a
// connection can be made to fail (half.failWrites) while the server keeps reading it.
//
// A behaviour is a list of commands with the observation TermFault.tla expects at quiescence after each
// of them.  The harness computes the same projection from the hook events (end point, server, service,
// mailbox, signal), its own gates (service.remove.unlocked, signal.terminate.send) and the frames the
// connections received, and waits - bounded - until it EQUALS the expected one: equality is both the
// synchronisation (the model's quiescent state has been reached) and the verdict.  Whatever can hang or
// kill the process does so in the child: the parent turns it into a failure class and goes on with the
// next behaviour, within a failure budget.

import (
	"bufio"
	"bytes"
	"encoding/json"
	"fmt"
	"math/rand"
	"os"
	"os/exec"
	"runtime"
	"sort"
	"strings"
	"sync"
	"time"

	"github.com/lugu/qiloop/bus"
	"github.com/lugu/qiloop/bus/net"
	"github.com/lugu/qiloop/examples/pong"
	"github.com/lugu/qiloop/type/basic"
	"github.com/lugu/qiloop/vhook"
	"verif/harness/hlib"
)

var tfBound = 10 * time.Second // in-process streams: the normal latency of a step is microseconds

const (
	tfSignal    = 102 // pong's signal
	tfActHello  = 100
	tfActReg    = 0
	tfActTerm   = 3
	tfActUnreg  = 1
	tfFailLimit = 1 // a child ends at its first failure: the process may be polluted (parked goroutines)
)

// ---------------------------------------------------------------------------
// the exported behaviours
// ---------------------------------------------------------------------------

type tfMsgDef struct {
	C    string `json:"c"`
	Kind string `json:"kind"`
	O    int    `json:"o"`
	R    int    `json:"r"` // kind unsub: the registration it cancels
}

type tfHeader struct {
	Tab  []tfMsgDef `json:"tab"`
	Cap  int        `json:"cap"`
	Objs int        `json:"objs"`
	Fine bool       `json:"fine"`
	// Locks: the export has the steps of RemoveHandler / addSignalUser (LockSteps): the gates handler.closeWith
	// and signal.add.made are armed as well
	Locks bool   `json:"locks"`
	Name  string `json:"name"`
}

type tfObs struct {
	St []int          `json:"st"`
	An []int          `json:"an"`
	Tl []int          `json:"tl"`
	Hn map[string]int `json:"hn"`
	Sn []int          `json:"sn"`
	Rg []int          `json:"rg"`
	Tp []int          `json:"tp"`
	Td []int          `json:"td"`
	Nx []int          `json:"nx"`
	Tm []int          `json:"tm"`
	Rm []int          `json:"rm"`
	Bx []int          `json:"bx"`
	Pk [][]int        `json:"pk"`
	Bs []int          `json:"bs"`
	Hr map[string]int `json:"hr"`
	Bp []int          `json:"bp"`
	Lt int            `json:"lt"`
	Sv int            `json:"sv"`
	Cr int            `json:"cr"`
}

type tfStep struct {
	O    string  `json:"o"`
	A    int     `json:"a"`
	C    string  `json:"c"`
	Post tfObs   `json:"post"`
	Tb   [][]int `json:"tb"`
}

type tfTest struct {
	Cfg   int      `json:"cfg"` // index of the header the behaviour belongs to
	Steps []tfStep `json:"steps"`
	// Alts: the other observations the specification allows after the LAST command (goroutines of the
	// server race: the same commands, the same observations up to there, another outcome)
	Alts []tfObs `json:"alts"`
}

func (o *tfObs) key() string {
	for i := range o.Pk {
		if o.Pk[i] == nil {
			o.Pk[i] = []int{}
		}
	}
	b, _ := json.Marshal(o)
	return string(b)
}

// tfLoad reads a test file: {"hdr": {...}} lines introduce a configuration, {"cfg": i, "steps": [...]} lines
// are behaviours.
func tfLoad(path string, from, to int) ([]tfHeader, []tfTest) {
	var hdrs []tfHeader
	var tests []tfTest
	hlib.ReadLines(path, func(line []byte) {
		if !bytes.HasPrefix(line, []byte(`{"hdr"`)) && (len(tests) < from || (to >= 0 && len(tests) >= to)) {
			tests = append(tests, tfTest{}) // outside the range: counted, not decoded
			return
		}
		if bytes.HasPrefix(line, []byte(`{"hdr"`)) {
			var h struct {
				Hdr tfHeader `json:"hdr"`
			}
			if err := json.Unmarshal(line, &h); err != nil {
				hlib.Fatal("header: %v", err)
			}
			hdrs = append(hdrs, h.Hdr)
			return
		}
		var t tfTest
		if err := json.Unmarshal(line, &t); err != nil {
			hlib.Fatal("behaviour: %v: %s", err, string(line[:min(len(line), 200)]))
		}
		tests = append(tests, t)
	})
	return hdrs, tests
}

// ---------------------------------------------------------------------------
// the rig
// ---------------------------------------------------------------------------

type tfImpl struct {
	r    *tfRig
	k    int // object number of the specification (0: the witness)
	term int // OnTerminate calls (under world.mu)
}

func (p *tfImpl) Activate(activation bus.Activation, helper pong.PingPongSignalHelper) error {
	return nil
}

func (p *tfImpl) OnTerminate() {
	p.r.w.mu.Lock()
	p.term++
	p.r.w.cond.Broadcast()
	p.r.w.mu.Unlock()
}

func (p *tfImpl) Hello(a string) (string, error) {
	r := p.r
	r.w.mu.Lock()
	r.execs[a]++
	var ch chan struct{}
	if strings.HasPrefix(a, "g:") && !r.drain {
		ch = r.tagGate(a)
	}
	r.w.cond.Broadcast()
	r.w.mu.Unlock()
	if ch != nil {
		<-ch
	}
	return "re:" + a, nil
}

func (p *tfImpl) Ping(a string) error { return nil }

type tfConn struct {
	name   string
	cli    *hStream
	srv    *hStream
	srvEp  int // instance of the server-side end point
	frames map[uint32][]*net.Message
	eof    bool
}

type tfPark struct {
	kind string // "unlocked" | "send"
	user uint64
	ch   chan struct{}
}

type tfBox struct {
	enq, recv, done int
	cur             uint32 // id of the mail being run (0: none)
	order           []uint32
}

type tfRig struct {
	w     *world
	hdr   tfHeader
	lis   *hListener
	srv   bus.Server
	svc   bus.Service
	svcID uint32
	svcIn int // hook instance of the service
	wit   bus.Service
	witID uint32
	objID []uint32 // k-1 -> real object id
	impls []*tfImpl
	wimpl *tfImpl
	conns map[string]*tfConn
	base  uint32 // message ids of this rig: base + m
	fine  bool
	// initDone: the registrations in place at the start are made (they are not gated)
	initDone bool
	closed   bool // the rig is gone: events are ignored
	drain    bool // the rig is winding down: nothing is gated any more

	// everything below under world.mu
	execs   map[string]int
	gates   map[string]chan struct{}
	eps     []int                // end point instances in order of their first handler
	live    map[int]map[int]bool // end point -> live handler slots
	baseSl  map[int]int          // end point -> slot of the server's own handler
	tobox   map[uint32]int       // message id -> mailbox instance
	noobj   map[uint32]bool
	consd   map[uint32]bool
	recvd   map[uint32]bool
	doned   map[uint32]bool
	boxes   map[int]*tfBox
	boxOf   map[uint32]int // real object id -> mailbox instance (last seen)
	sigOf   map[int]int    // signal handler instance -> k
	sn      map[int]int
	sawTerm map[int]bool // k -> a snapshot of the termination was taken
	lateAdd int
	termEv  map[int]int // k -> finished signalHandler.OnTerminate calls
	snapN   map[int]int
	sendG   map[int]int
	reg     map[int]bool
	parked  map[int]*tfPark
	svcSet  map[int]bool
	rm      map[int]int
	sv      int
	nfill   uint32
	relN    map[int]int    // end point -> subscriber handlers released (remove / detach / selfremove of a slot that was live)
	makeN   map[int]int    // end point -> subscriber handlers made
	mkAt    map[uint32]int // id of a registerEvent -> makeN of its connection's end point when the mailbox goroutine took it
	parkedB map[int]*tfPark
	relArm  map[uint64]int // goroutine -> object whose terminator is about to call RemoveHandler
	sentM   map[int]bool
	moves   int // hook events + frames received + API calls returned
}

var tfRigGen uint32

func (r *tfRig) tagGate(tag string) chan struct{} {
	ch, ok := r.gates[tag]
	if !ok {
		ch = make(chan struct{})
		r.gates[tag] = ch
	}
	return ch
}

func (r *tfRig) releaseTag(tag string) {
	r.w.mu.Lock()
	ch := r.tagGate(tag)
	select {
	case <-ch:
	default:
		close(ch)
	}
	r.w.mu.Unlock()
}

func tfKvMap(e vhook.Event) map[string]interface{} {
	kv := map[string]interface{}{}
	for i := 0; i+1 < len(e.KV); i += 2 {
		if k, ok := e.KV[i].(string); ok {
			kv[k] = e.KV[i+1]
		}
	}
	return kv
}

func tfU64(v interface{}) uint64 {
	switch x := v.(type) {
	case uint64:
		return x
	case uint32:
		return uint64(x)
	case int:
		return uint64(x)
	}
	return 0
}

func (r *tfRig) kOf(obj uint32) int {
	for i, id := range r.objID {
		if id == obj {
			return i + 1
		}
	}
	return 0
}

// sink runs with vhook's lock held: it must not call into vhook.
func (r *tfRig) sink(e vhook.Event) {
	kv := tfKvMap(e)
	r.w.mu.Lock()
	defer func() {
		r.w.cond.Broadcast()
		r.w.mu.Unlock()
	}()
	if r.closed {
		return
	}
	r.moves++
	switch e.Comp {
	case "endpoint":
		slot, _ := kv["slot"].(int)
		switch e.Ev {
		case "make":
			if _, ok := r.live[e.Inst]; !ok {
				r.live[e.Inst] = map[int]bool{}
				r.baseSl[e.Inst] = slot
				r.eps = append(r.eps, e.Inst)
			}
			if r.baseSl[e.Inst] != slot {
				r.makeN[e.Inst]++
			}
			r.live[e.Inst][slot] = true
		case "removed", "detach", "selfremove": // RemoveHandler: `removed` follows the closer, `remove` precedes it
			if m, ok := r.live[e.Inst]; ok {
				if m[slot] && r.baseSl[e.Inst] != slot {
					r.relN[e.Inst]++
				}
				delete(m, slot)
			}
		}
	case "server":
		if e.Ev == "consumed" {
			id := u32(kv["id"])
			r.consd[id] = true
			if b, ok := r.tobox[id]; ok {
				r.boxes[b].enq++
			}
		}
	case "service":
		switch e.Ev {
		case "tobox":
			id, b := u32(kv["id"]), kv["box"].(int)
			if u32(kv["service"]) != r.svcID && u32(kv["service"]) != r.witID {
				return
			}
			if _, ok := r.boxes[b]; !ok {
				r.boxes[b] = &tfBox{}
			}
			r.tobox[id] = b
			r.boxes[b].order = append(r.boxes[b].order, id)
			if u32(kv["service"]) == r.svcID {
				r.boxOf[u32(kv["object"])] = b
			}
		case "noobj":
			r.noobj[u32(kv["id"])] = true
		case "remove":
			if e.Inst == r.svcIn {
				r.reg[r.kOf(u32(kv["object"]))] = false
			}
		case "terminate":
			if e.Inst == r.svcIn {
				for k := range r.reg {
					r.reg[k] = false
				}
			}
		}
	case "router":
		if e.Ev == "nosvc" { // the service has left the router (Service.Terminate): refused one level up
			r.noobj[u32(kv["id"])] = true
		}
	case "mailbox":
		b, ok := r.boxes[e.Inst]
		if !ok {
			return
		}
		id := u32(kv["id"])
		switch e.Ev {
		case "recv":
			b.recv++
			b.cur = id
			r.recvd[id] = true
			if m := int(id - r.base); id > r.base && m <= len(r.hdr.Tab) && r.hdr.Tab[m-1].Kind == "sub" {
				if c, ok := r.conns[r.hdr.Tab[m-1].C]; ok {
					r.mkAt[id] = r.makeN[c.srvEp]
				}
			}
		case "done":
			b.done++
			b.cur = 0
			r.doned[id] = true
		}
	case "signal":
		switch e.Ev {
		case "activate":
			if u32(kv["service"]) == r.svcID {
				if k := r.kOf(u32(kv["object"])); k > 0 {
					r.sigOf[e.Inst] = k
				}
			}
		case "add", "remove":
			if k, ok := r.sigOf[e.Inst]; ok {
				r.sn[k], _ = kv["n"].(int)
				if e.Ev == "add" && r.sawTerm[k] {
					r.lateAdd++
				}
			}
		case "terminate":
			if k, ok := r.sigOf[e.Inst]; ok {
				r.snapN[k], _ = kv["n"].(int)
				r.sendG[k] = 0
				r.sawTerm[k] = true
				r.sn[k] = 0 // the snapshot empties the table
			}
		case "terminated":
			if k, ok := r.sigOf[e.Inst]; ok {
				r.termEv[k]++
				for g, kk := range r.relArm {
					if kk == k {
						delete(r.relArm, g)
					}
				}
			}
		}
	}
}

// goid: the number of the calling goroutine (gates run on the goroutine of the code under test).
func goid() uint64 {
	var buf [64]byte
	n := runtime.Stack(buf[:], false)
	var id uint64
	fmt.Sscanf(string(buf[:n]), "goroutine %d ", &id)
	return id
}

// gateRelease (signal.terminate.release) never blocks: it remembers which goroutine is about to call RemoveHandler
// for a subscriber of object k, so that gateCloser can tell ITS handler.closeWith from everybody else's.
func (r *tfRig) gateRelease(kvs []interface{}) {
	kv := map[string]interface{}{}
	for i := 0; i+1 < len(kvs); i += 2 {
		if k, ok := kvs[i].(string); ok {
			kv[k] = kvs[i+1]
		}
	}
	if u32(kv["service"]) != r.svcID {
		return
	}
	g := goid()
	r.w.mu.Lock()
	if k := r.kOf(u32(kv["object"])); k > 0 && !r.drain && r.fine && !r.svcSet[k] {
		r.relArm[g] = k
	}
	r.w.mu.Unlock()
}

// gateCloser (handler.closeWith, called by RemoveHandler with the end point's handlersMutex held, before the closer
// takes the signal handler's mutex): parks the terminator of an object there.
func (r *tfRig) gateCloser() {
	g := goid()
	r.w.mu.Lock()
	k, ok := r.relArm[g]
	delete(r.relArm, g)
	if !ok || r.drain {
		r.w.mu.Unlock()
		return
	}
	p := &tfPark{kind: "closer", ch: make(chan struct{})}
	r.parked[k] = p
	r.w.cond.Broadcast()
	r.w.mu.Unlock()
	<-p.ch
}

// gateMade (signal.add.made): the mailbox goroutine stands between MakeHandler and the append to the table.
func (r *tfRig) gateMade(kvs []interface{}) {
	var user uint64
	for i := 0; i+1 < len(kvs); i += 2 {
		if k, ok := kvs[i].(string); ok && k == "user" {
			user = tfU64(kvs[i+1])
		}
	}
	r.w.mu.Lock()
	m := int(uint32(user) - r.base)
	if r.drain || !r.fine || uint32(user) <= r.base || m > len(r.hdr.Tab) || r.initDone == false {
		r.w.mu.Unlock()
		return
	}
	p := &tfPark{kind: "made", user: user, ch: make(chan struct{})}
	r.parkedB[r.hdr.Tab[m-1].O] = p
	r.w.cond.Broadcast()
	r.w.mu.Unlock()
	<-p.ch
}

// gate is installed at service.remove.unlocked and signal.terminate.send.
func (r *tfRig) gate(kind string, kvs []interface{}) {
	kv := map[string]interface{}{}
	for i := 0; i+1 < len(kvs); i += 2 {
		if k, ok := kvs[i].(string); ok {
			kv[k] = kvs[i+1]
		}
	}
	if s, ok := kv["service"]; ok && u32(s) != r.svcID {
		return
	}
	obj := u32(kv["object"])
	r.w.mu.Lock()
	k := r.kOf(obj)
	if r.drain || !r.fine || k == 0 || r.svcSet[k] {
		r.w.mu.Unlock()
		return
	}
	p := &tfPark{kind: kind, user: tfU64(kv["user"]), ch: make(chan struct{})}
	if kind == "send" {
		r.sendG[k]++
		delete(r.relArm, goid())
	}
	r.parked[k] = p
	r.w.cond.Broadcast()
	r.w.mu.Unlock()
	<-p.ch
}

func newTfRig(hdr tfHeader) (*tfRig, error) {
	w := newWorld()
	tfRigGen++
	r := &tfRig{w: w, hdr: hdr, lis: newListener(), conns: map[string]*tfConn{}, base: tfRigGen * 1000, fine: hdr.Fine,
		execs: map[string]int{}, gates: map[string]chan struct{}{}, live: map[int]map[int]bool{}, baseSl: map[int]int{},
		tobox: map[uint32]int{}, noobj: map[uint32]bool{}, consd: map[uint32]bool{}, recvd: map[uint32]bool{}, doned: map[uint32]bool{},
		boxes: map[int]*tfBox{}, boxOf: map[uint32]int{}, sigOf: map[int]int{}, sn: map[int]int{}, sawTerm: map[int]bool{},
		termEv: map[int]int{}, snapN: map[int]int{}, sendG: map[int]int{}, reg: map[int]bool{}, parked: map[int]*tfPark{},
		svcSet: map[int]bool{}, rm: map[int]int{}, relN: map[int]int{}, makeN: map[int]int{}, mkAt: map[uint32]int{},
		parkedB: map[int]*tfPark{}, relArm: map[uint64]int{}}
	// the identifiers of the objects are only known after Add: activate events are matched afterwards
	type act struct {
		inst     int
		svc, obj uint32
	}
	var acts []act
	vhook.SetSink(func(e vhook.Event) {
		if e.Comp == "signal" && e.Ev == "activate" {
			kv := tfKvMap(e)
			w.mu.Lock()
			acts = append(acts, act{e.Inst, u32(kv["service"]), u32(kv["object"])})
			w.mu.Unlock()
		}
	})
	srv, err := bus.StandAloneServer(r.lis, newAuth("yes", nil), bus.PrivateNamespace())
	if err != nil {
		return nil, err
	}
	r.srv = srv
	for k := 1; k <= hdr.Objs; k++ {
		im := &tfImpl{r: r, k: k}
		r.impls = append(r.impls, im)
		actor := pong.PingPongObject(im)
		if k == 1 {
			svc, err := srv.NewService("tf", actor)
			if err != nil {
				return nil, err
			}
			r.svc, r.svcID = svc, svc.ServiceID()
			r.objID = append(r.objID, 1)
		} else {
			id, err := r.svc.Add(actor)
			if err != nil {
				return nil, err
			}
			r.objID = append(r.objID, id)
		}
		r.reg[k] = true
	}
	r.wimpl = &tfImpl{r: r}
	wit, err := srv.NewService("witness", pong.PingPongObject(r.wimpl))
	if err != nil {
		return nil, err
	}
	r.wit, r.witID = wit, wit.ServiceID()
	r.svcIn = vhook.ID(r.svc)
	w.mu.Lock()
	for _, a := range acts {
		if a.svc == r.svcID {
			if k := r.kOf(a.obj); k > 0 {
				r.sigOf[a.inst] = k
			}
		}
	}
	w.mu.Unlock()
	vhook.SetSink(r.sink)
	vhook.SetGate("service.remove.unlocked", func(kv ...interface{}) { r.gate("unlocked", kv) })
	vhook.SetGate("signal.terminate.send", func(kv ...interface{}) { r.gate("send", kv) })
	if hdr.Locks {
		vhook.SetGate("signal.terminate.release", func(kv ...interface{}) { r.gateRelease(kv) })
		vhook.SetGate("handler.closeWith", func(kv ...interface{}) { r.gateCloser() })
		vhook.SetGate("signal.add.made", func(kv ...interface{}) { r.gateMade(kv) })
	}
	return r, nil
}

func (r *tfRig) connect(name string) (*tfConn, error) {
	cli, srv := newPipe(r.w, name)
	c := &tfConn{name: name, cli: cli, srv: srv, frames: map[uint32][]*net.Message{}}
	r.w.mu.Lock()
	known := len(r.eps)
	r.w.mu.Unlock()
	select {
	case r.lis.ch <- srv:
	case <-time.After(tfBound):
		return nil, fmt.Errorf("server does not accept")
	}
	if !r.w.waitFor(tfBound, func() bool { return len(r.eps) > known }) {
		return nil, fmt.Errorf("server end point not created")
	}
	r.w.mu.Lock()
	c.srvEp = r.eps[known]
	r.w.mu.Unlock()
	go func() {
		for {
			m := new(net.Message)
			err := m.Read(cli)
			r.w.mu.Lock()
			if err != nil {
				c.eof = true
			} else {
				c.frames[m.Header.ID] = append(c.frames[m.Header.ID], m)
			}
			r.moves++
			r.w.cond.Broadcast()
			r.w.mu.Unlock()
			if err != nil {
				return
			}
		}
	}()
	r.w.mu.Lock()
	r.conns[name] = c
	r.w.mu.Unlock()
	// authenticate
	m := net.NewMessage(net.NewHeader(net.Call, 0, 0, 8, r.base+900+uint32(len(r.conns))), capPayload("good"))
	id := m.Header.ID
	m.Write(c.cli)
	if !r.w.waitFor(tfBound, func() bool { return len(c.frames[id]) > 0 }) {
		return nil, fmt.Errorf("authentication of %s not answered", name)
	}
	return c, nil
}

func (r *tfRig) frame(c *tfConn, typ uint8, svc, obj, action, id uint32, payload []byte) {
	m := net.NewMessage(net.NewHeader(typ, svc, obj, action, id), payload)
	m.Write(c.cli)
}

func tfRegPayload(obj uint32, user uint64) []byte {
	var b bytes.Buffer
	basic.WriteUint32(obj, &b)
	basic.WriteUint32(tfSignal, &b)
	basic.WriteUint64(user, &b)
	return b.Bytes()
}

func tfU32Payload(v uint32) []byte {
	var b bytes.Buffer
	basic.WriteUint32(v, &b)
	return b.Bytes()
}

func (r *tfRig) id(m int) uint32 { return r.base + uint32(m) }

// send writes the frame of message m of the table.
func (r *tfRig) send(m int) {
	d := r.hdr.Tab[m-1]
	c := r.conns[d.C]
	obj := r.objID[d.O-1]
	switch d.Kind {
	case "call":
		r.frame(c, net.Call, r.svcID, obj, tfActHello, r.id(m), strPayload(fmt.Sprintf("g:%d", r.id(m))))
	case "post":
		r.frame(c, net.Post, r.svcID, obj, tfActHello, r.id(m), strPayload(fmt.Sprintf("g:%d", r.id(m))))
	case "sub":
		r.frame(c, net.Call, r.svcID, obj, tfActReg, r.id(m), tfRegPayload(obj, uint64(r.id(m))))
	case "unsub":
		r.frame(c, net.Call, r.svcID, obj, tfActUnreg, r.id(m), tfRegPayload(obj, uint64(r.id(d.R))))
	case "term":
		r.frame(c, net.Call, r.svcID, obj, tfActTerm, r.id(m), tfU32Payload(obj))
	}
}

func (r *tfRig) action(m int) uint32 {
	switch r.hdr.Tab[m-1].Kind {
	case "sub":
		return tfActReg
	case "unsub":
		return tfActUnreg
	case "term":
		return tfActTerm
	}
	return tfActHello
}

// observeLocked: the projection of the real system that GenTermFault.tla exports (world.mu held).
func (r *tfRig) observeLocked() *tfObs {
	n, nk := len(r.hdr.Tab), r.hdr.Objs
	o := &tfObs{St: make([]int, n), An: make([]int, n), Tl: make([]int, n), Hn: map[string]int{}, Sn: make([]int, nk),
		Rg: make([]int, nk), Tp: make([]int, nk), Td: make([]int, nk), Nx: make([]int, nk), Tm: make([]int, nk),
		Rm: make([]int, nk), Bx: make([]int, nk), Pk: make([][]int, nk), Bs: make([]int, nk), Hr: map[string]int{}, Bp: make([]int, nk)}
	for m := 1; m <= n; m++ {
		id := r.id(m)
		c := r.conns[r.hdr.Tab[m-1].C]
		_, tb := r.tobox[id]
		switch {
		case r.doned[id]:
			o.St[m-1] = 5
		case r.recvd[id]:
			o.St[m-1] = 4
		case tb && r.consd[id]:
			o.St[m-1] = 3
		case tb:
			o.St[m-1] = 2
		case r.noobj[id] && r.consd[id]:
			o.St[m-1] = 6
		case r.noobj[id]:
			o.St[m-1] = 7 // being refused
		case r.sent(m):
			o.St[m-1] = 1
		}
		act := r.action(m)
		for _, f := range c.frames[id] {
			switch {
			case f.Header.Type == net.Error && f.Header.Action == tfSignal && act == tfActReg:
				o.Tl[m-1]++
			case f.Header.Type == net.Reply:
				o.An[m-1] = o.An[m-1]*10 + 1
			case f.Header.Type == net.Error:
				o.An[m-1] = o.An[m-1]*10 + 2
			default:
				o.An[m-1] = o.An[m-1]*10 + 9
			}
		}
	}
	for name, c := range r.conns {
		if name == "filler" || name == "probe" {
			continue
		}
		l := r.live[c.srvEp]
		h := len(l)
		if l[r.baseSl[c.srvEp]] {
			h--
		}
		o.Hn[name] = h
		o.Hr[name] = r.relN[c.srvEp]
	}
	for k := 1; k <= nk; k++ {
		i := k - 1
		o.Sn[i] = r.sn[k]
		if r.reg[k] {
			o.Rg[i] = 1
		}
		o.Tm[i] = r.impls[i].term
		o.Rm[i] = r.rm[k]
		switch p := r.parked[k]; {
		case r.termEv[k] >= 2:
			o.Tp[i] = 6
		case p != nil && p.kind == "unlocked":
			o.Tp[i] = 1
		case p != nil && p.kind == "closer":
			o.Tp[i] = 7
			o.Td[i] = r.snapN[k] - (r.sendG[k] - 1)
		case p != nil && p.kind == "send":
			o.Tp[i] = 3
			o.Td[i] = r.snapN[k] - (r.sendG[k] - 1)
			o.Nx[i] = int(uint32(p.user) - r.base)
		case !r.reg[k]:
			o.Tp[i] = 2 // on its way
		}
		o.Pk[i] = []int{}
		if b, ok := r.boxes[r.boxOf[r.objID[i]]]; ok {
			o.Bx[i] = b.enq - b.recv
			for _, id := range b.order {
				if !r.consd[id] && id > r.base && id <= r.base+uint32(n) {
					o.Pk[i] = append(o.Pk[i], int(id-r.base))
				}
			}
			if b.cur > r.base && b.cur <= r.base+uint32(n) {
				o.Bs[i] = int(b.cur - r.base)
			} else if b.cur != 0 {
				o.Bs[i] = -1 // a filler or a probe is running
			}
			if r.hdr.Locks && o.Bs[i] > 0 && r.hdr.Tab[o.Bs[i]-1].Kind == "sub" {
				// inside addSignalUser: before / inside MakeHandler, or past it
				o.Bp[i] = 1
				if c, ok := r.conns[r.hdr.Tab[o.Bs[i]-1].C]; ok && r.makeN[c.srvEp] > r.mkAt[b.cur] {
					o.Bp[i] = 3 // past MakeHandler, on its way
					if r.parkedB[k] != nil {
						o.Bp[i] = 2 // in the gate signal.add.made
					}
				}
			}
		}
	}
	o.Lt = r.lateAdd
	o.Sv = r.sv
	return o
}

func (r *tfRig) sent(m int) bool { return r.sentM[m] }

// ---------------------------------------------------------------------------
// replay of one behaviour
// ---------------------------------------------------------------------------

type tfFailure struct {
	Class  string
	Detail string
	Case   map[string]interface{}
}

// classify names what differs between the expected and the observed projection.
func (r *tfRig) classify(step tfStep, want, got *tfObs) (string, string) {
	tab := r.hdr.Tab
	for k := range want.Tm {
		if got.Tm[k] > want.Tm[k] && got.Tm[k] > 1 {
			return "termfault/termination-hook-ran-twice", fmt.Sprintf("object %d: OnTerminate ran %d times", k+1, got.Tm[k])
		}
	}
	for k := range want.Rg {
		if want.Rg[k] == 0 && got.Rg[k] == 1 && got.Rm[k] == 2 {
			return "termfault/remove-blocked", fmt.Sprintf("Service.Remove of object %d neither returns nor takes the object out of the table (parked senders: %v, mails in its mailbox: %d)",
				k+1, got.Pk[k], got.Bx[k])
		}
		if want.Tp[k] == 3 && got.Tp[k] == 3 && want.Nx[k] != got.Nx[k] {
			return "termfault/notification-goes-to-another-subscriber", fmt.Sprintf("object %d: the next termination message goes to registration %d, the specification expects registration %d (the snapshot of the table changed under the loop)",
				k+1, got.Nx[k], want.Nx[k])
		}
	}
	for k := range want.Bp {
		if got.Bp[k] == 1 && want.Bp[k] != 1 && got.Tp[k] == 2 && want.Tp[k] != 2 {
			return "termfault/wait-cycle-remove-handler-vs-registration", fmt.Sprintf("object %d: its terminator is inside RemoveHandler (end point's mutex held, waiting for the signal handler's) "+
				"while the registration %d of the same connection is inside addSignalUser waiting for MakeHandler: neither goes on, Remove does not return (%d), the connection dispatches nothing any more",
				k+1, got.Bs[k], got.Rm[k])
		}
	}
	for m := range want.Tl {
		if got.Tl[m] < want.Tl[m] {
			return "termfault/subscriber-not-told", fmt.Sprintf("registration %d (connection %s, object %d) received %d termination message(s), the specification expects %d",
				m+1, tab[m].C, tab[m].O, got.Tl[m], want.Tl[m])
		}
		if got.Tl[m] > want.Tl[m] {
			cl := "termfault/subscriber-told-twice"
			if want.Tl[m] == 0 {
				cl = "termfault/subscriber-told-unexpectedly"
			}
			return cl, fmt.Sprintf("registration %d (connection %s, object %d) received %d termination message(s), the specification expects %d",
				m+1, tab[m].C, tab[m].O, got.Tl[m], want.Tl[m])
		}
	}
	if got.Lt > want.Lt {
		return "termfault/registration-accepted-after-termination", "a registerEvent run after the termination of its object was accepted"
	}
	names := []string{}
	for c := range want.Hn {
		names = append(names, c)
	}
	sort.Strings(names)
	for _, c := range names {
		if got.Hn[c] > want.Hn[c] {
			return "termfault/disconnection-handler-not-released", fmt.Sprintf("connection %s keeps %d subscriber handler(s), the specification expects %d", c, got.Hn[c], want.Hn[c])
		}
		if got.Hn[c] < want.Hn[c] {
			return "termfault/disconnection-handler-lost", fmt.Sprintf("connection %s has %d subscriber handler(s), the specification expects %d", c, got.Hn[c], want.Hn[c])
		}
	}
	for _, c := range names {
		if got.Hr[c] != want.Hr[c] {
			return "termfault/disconnection-handler-release-count-differs", fmt.Sprintf("connection %s: %d subscriber handler(s) released so far, the specification expects %d", c, got.Hr[c], want.Hr[c])
		}
	}
	for k := range want.Sn {
		if got.Sn[k] != want.Sn[k] {
			return "termfault/subscriber-table-differs", fmt.Sprintf("object %d: %d subscriber(s) in the table, the specification expects %d", k+1, got.Sn[k], want.Sn[k])
		}
	}
	for m := range want.An {
		if got.An[m] == want.An[m] {
			continue
		}
		switch {
		case got.An[m] > 9:
			return "termfault/message-answered-twice", fmt.Sprintf("message %d (%s) received several answers (%d)", m+1, tab[m].Kind, got.An[m])
		case got.An[m] == 0:
			return "termfault/call-not-answered", fmt.Sprintf("message %d (%s from %s to object %d) was not answered (stage %d, expected stage %d, answer %d)",
				m+1, tab[m].Kind, tab[m].C, tab[m].O, got.St[m], want.St[m], want.An[m])
		case want.An[m] == 2 && got.An[m] == 1:
			return "termfault/message-to-removed-object-executed", fmt.Sprintf("message %d (%s to object %d) was answered with a result, the specification expects an error", m+1, tab[m].Kind, tab[m].O)
		default:
			return "termfault/answer-differs", fmt.Sprintf("message %d (%s to object %d): answer %d, the specification expects %d", m+1, tab[m].Kind, tab[m].O, got.An[m], want.An[m])
		}
	}
	for k := range want.Rm {
		if got.Rm[k] == 2 && want.Rm[k] != 2 {
			return "termfault/remove-does-not-return", fmt.Sprintf("Service.Remove of object %d has not returned (terminator stage %d)", k+1, got.Tp[k])
		}
		if got.Rm[k] != want.Rm[k] {
			return "termfault/remove-result-differs", fmt.Sprintf("Service.Remove of object %d: %d, the specification expects %d", k+1, got.Rm[k], want.Rm[k])
		}
	}
	if got.Sv != want.Sv {
		return "termfault/service-terminate-does-not-return", fmt.Sprintf("Service.Terminate: %d, the specification expects %d", got.Sv, want.Sv)
	}
	for m := range want.St {
		if got.St[m] != want.St[m] {
			cl := "termfault/message-stuck"
			if got.St[m] > want.St[m] && got.St[m] != 7 {
				cl = "termfault/message-ahead"
			}
			if want.St[m] == 6 && (got.St[m] >= 2 && got.St[m] <= 5) {
				cl = "termfault/message-to-removed-object-queued"
			}
			return cl, fmt.Sprintf("message %d (%s from %s to object %d) is at stage %d, the specification expects %d",
				m+1, tab[m].Kind, tab[m].C, tab[m].O, got.St[m], want.St[m])
		}
	}
	for k := range want.Rg {
		if got.Rg[k] != want.Rg[k] {
			return "termfault/object-table-differs", fmt.Sprintf("object %d: registered %d, the specification expects %d", k+1, got.Rg[k], want.Rg[k])
		}
	}
	for k := range want.Tp {
		if got.Tp[k] != want.Tp[k] || got.Td[k] != want.Td[k] || got.Nx[k] != want.Nx[k] {
			return "termfault/termination-progress-differs", fmt.Sprintf("object %d: terminator at %d (left %d, next %d), the specification expects %d (left %d, next %d)",
				k+1, got.Tp[k], got.Td[k], got.Nx[k], want.Tp[k], want.Td[k], want.Nx[k])
		}
	}
	for k := range want.Tm {
		if got.Tm[k] != want.Tm[k] {
			return "termfault/termination-hook-count-differs", fmt.Sprintf("object %d: OnTerminate ran %d times, the specification expects %d", k+1, got.Tm[k], want.Tm[k])
		}
	}
	return "termfault/observation-differs", "mailbox occupation / parked senders / running mail differ"
}

func eqInts(a, b []int) bool {
	if len(a) != len(b) {
		return false
	}
	for i := range a {
		if a[i] != b[i] {
			return false
		}
	}
	return true
}

func (o *tfObs) equal(p *tfObs) bool {
	if !(eqInts(o.St, p.St) && eqInts(o.An, p.An) && eqInts(o.Tl, p.Tl) && eqInts(o.Sn, p.Sn) && eqInts(o.Rg, p.Rg) &&
		eqInts(o.Tp, p.Tp) && eqInts(o.Td, p.Td) && eqInts(o.Nx, p.Nx) && eqInts(o.Tm, p.Tm) && eqInts(o.Rm, p.Rm) &&
		eqInts(o.Bx, p.Bx) && eqInts(o.Bs, p.Bs) && eqInts(o.Bp, p.Bp) && o.Lt == p.Lt && o.Sv == p.Sv && o.Cr == p.Cr &&
		len(o.Pk) == len(p.Pk) && len(o.Hn) == len(p.Hn) && len(o.Hr) == len(p.Hr)) {
		return false
	}
	for c, n := range o.Hr {
		if m, ok := p.Hr[c]; !ok || m != n {
			return false
		}
	}
	for i := range o.Pk {
		if !eqInts(o.Pk[i], p.Pk[i]) {
			return false
		}
	}
	for c, n := range o.Hn {
		if m, ok := p.Hn[c]; !ok || m != n {
			return false
		}
	}
	return true
}

// waitObs waits until the projection of the real system equals one of the expected ones.  patient: the whole
// bound (a verdict follows); otherwise the wait ends when nothing has moved for a while (no verdict follows).
func (r *tfRig) waitObs(patient bool, want ...*tfObs) (*tfObs, bool) {
	var last *tfObs
	pred := func() bool {
		last = r.observeLocked()
		for _, w := range want {
			if last.equal(w) {
				return true
			}
		}
		return false
	}
	if patient {
		return last, r.w.waitFor(tfBound, pred) || last == nil
	}
	deadline := time.Now().Add(tfBound)
	quiet := 0
	for time.Now().Before(deadline) {
		r.w.mu.Lock()
		before := r.moves
		r.w.mu.Unlock()
		if r.w.waitFor(300*time.Millisecond, pred) {
			return last, true
		}
		r.w.mu.Lock()
		moved := r.moves != before
		r.w.mu.Unlock()
		if moved {
			quiet = 0
		} else if quiet++; quiet >= 3 {
			break
		}
	}
	return last, false
}

// do runs one command (the observation is awaited by the caller).
func (r *tfRig) do(s tfStep) error {
	switch s.O {
	case "send":
		r.w.mu.Lock()
		r.sentM[s.A] = true
		r.w.mu.Unlock()
		r.send(s.A)
	case "fill":
		c := r.conns["filler"]
		obj := r.objID[s.A-1]
		for i := 0; i < r.hdr.Cap; i++ {
			r.w.mu.Lock()
			r.nfill++
			id := r.base + 500 + r.nfill
			r.w.mu.Unlock()
			r.frame(c, net.Post, r.svcID, obj, tfActHello, id, strPayload("f"))
			if !r.w.waitFor(tfBound, func() bool { return r.consd[id] }) {
				return fmt.Errorf("filler %d of object %d is not queued", i+1, s.A)
			}
		}
	case "release":
		r.w.mu.Lock()
		var cur uint32
		if b, ok := r.boxes[r.boxOf[r.objID[s.A-1]]]; ok {
			cur = b.cur
		}
		r.w.mu.Unlock()
		if cur == 0 {
			return fmt.Errorf("release(%d): no mail is running", s.A)
		}
		r.releaseTag(fmt.Sprintf("g:%d", cur))
	case "remove":
		k := s.A
		r.w.mu.Lock()
		r.rm[k] = 2
		r.w.mu.Unlock()
		go func() {
			err := r.svc.Remove(r.objID[k-1])
			r.w.mu.Lock()
			if err == nil {
				r.rm[k] = 3
			} else {
				r.rm[k] = 4
			}
			r.w.cond.Broadcast()
			r.w.mu.Unlock()
		}()
	case "svcterm":
		r.w.mu.Lock()
		for k, in := range r.reg {
			if in {
				r.svcSet[k] = true
			}
		}
		r.sv = 2
		r.w.mu.Unlock()
		go func() {
			r.svc.Terminate()
			r.w.mu.Lock()
			r.sv = 3
			r.w.cond.Broadcast()
			r.w.mu.Unlock()
		}()
	case "break":
		c := r.conns[s.C]
		r.w.mu.Lock()
		c.cli.r.failWrites = true
		r.w.mu.Unlock()
	case "drop":
		r.conns[s.C].cli.Close()
	case "go":
		r.w.mu.Lock()
		p := r.parkedB[s.A]
		r.parkedB[s.A] = nil
		r.w.mu.Unlock()
		if p == nil {
			return fmt.Errorf("go(%d): no registration is parked", s.A)
		}
		close(p.ch)
	case "step":
		r.w.mu.Lock()
		p := r.parked[s.A]
		r.parked[s.A] = nil
		r.w.mu.Unlock()
		if p == nil {
			return fmt.Errorf("step(%d): no goroutine is parked", s.A)
		}
		close(p.ch)
	default:
		return fmt.Errorf("unknown command %q", s.O)
	}
	return nil
}

// probes: after the last command every object that is registered and at rest must answer a fresh call, every
// removed object must refuse it without running it, the other service must answer.
func (r *tfRig) probes(last *tfObs) *tfFailure {
	c := r.conns["probe"]
	type probe struct {
		k    int
		id   uint32
		want int // 1 reply, 2 error
	}
	var ps []probe
	for k := 1; k <= r.hdr.Objs; k++ {
		i := k - 1
		if last.Rg[i] == 1 && (last.Bs[i] != 0 || last.Bx[i] != 0 || len(last.Pk[i]) != 0) {
			continue // busy: a probe would wait (legitimately)
		}
		p := probe{k: k, id: r.base + 800 + uint32(k), want: 2}
		if last.Rg[i] == 1 {
			p.want = 1
		}
		ps = append(ps, p)
		r.frame(c, net.Call, r.svcID, r.objID[i], tfActHello, p.id, strPayload(fmt.Sprintf("p%d", k)))
	}
	wid := r.base + 800
	r.frame(c, net.Call, r.witID, 1, tfActHello, wid, strPayload("w"))
	ps = append(ps, probe{k: 0, id: wid, want: 1})
	ok := r.w.waitFor(tfBound, func() bool {
		for _, p := range ps {
			if len(c.frames[p.id]) == 0 {
				return false
			}
		}
		return true
	})
	r.w.mu.Lock()
	defer r.w.mu.Unlock()
	for _, p := range ps {
		fr := c.frames[p.id]
		what := fmt.Sprintf("object %d", p.k)
		if p.k == 0 {
			what = "the object of the other service"
		}
		if len(fr) == 0 {
			cl := "termfault/other-object-does-not-answer"
			if p.want == 2 {
				cl = "termfault/message-to-removed-object-not-answered"
			}
			return &tfFailure{cl, fmt.Sprintf("a fresh call to %s from a fresh connection is not answered within %v", what, tfBound), nil}
		}
		got := 2
		if fr[0].Header.Type == net.Reply {
			got = 1
		}
		if got != p.want && p.want == 1 {
			return &tfFailure{"termfault/other-object-refuses", fmt.Sprintf("a fresh call to %s (registered, at rest) is answered with an error: %s", what, respVal(fr[0])), nil}
		}
		if got != p.want {
			return &tfFailure{"termfault/message-to-removed-object-executed", fmt.Sprintf("a fresh call to %s, which was removed, is answered with a result", what), nil}
		}
		if p.want == 2 && r.execs[fmt.Sprintf("p%d", p.k)] != 0 {
			return &tfFailure{"termfault/message-to-removed-object-executed", fmt.Sprintf("a fresh call to %s, which was removed, ran its method", what), nil}
		}
	}
	_ = ok
	return nil
}

func (r *tfRig) close() bool {
	r.w.mu.Lock()
	r.drain = true
	for _, ch := range r.gates {
		select {
		case <-ch:
		default:
			close(ch)
		}
	}
	for k, p := range r.parked {
		if p != nil {
			close(p.ch)
			r.parked[k] = nil
		}
	}
	for k, p := range r.parkedB {
		if p != nil {
			close(p.ch)
			r.parkedB[k] = nil
		}
	}
	r.w.mu.Unlock()
	// what is in flight ends by itself now: terminations, Remove / Terminate calls, mails
	clean := r.w.waitFor(tfBound, func() bool {
		for k := 1; k <= r.hdr.Objs; k++ {
			if (!r.reg[k] && r.termEv[k] < 2) || r.rm[k] == 2 {
				return false
			}
		}
		for _, b := range r.boxes {
			if b.recv != b.done || b.enq != b.recv {
				return false
			}
		}
		for id := range r.tobox {
			if !r.consd[id] {
				return false // parked
			}
		}
		for m := range r.sentM {
			id := r.id(m)
			if _, ok := r.tobox[id]; !ok && !r.noobj[id] {
				return false // still in the consumer queue of its connection
			}
		}
		return r.sv != 2
	})
	r.w.mu.Lock()
	r.closed = true
	r.w.mu.Unlock()
	vhook.SetGate("service.remove.unlocked", nil)
	vhook.SetGate("signal.terminate.send", nil)
	vhook.SetGate("signal.terminate.release", nil)
	vhook.SetGate("handler.closeWith", nil)
	vhook.SetGate("signal.add.made", nil)
	for _, c := range r.conns {
		c.cli.Close()
	}
	done := make(chan struct{})
	go func() { r.srv.Terminate(); close(done) }()
	select {
	case <-done:
	case <-time.After(3 * tfBound): // outside the behaviour: generous, the machine is shared
		clean = false
	}
	vhook.SetSink(nil)
	return clean
}

// tfRun replays one behaviour; nil: every observation was the expected one.
func tfRun(hdr tfHeader, t tfTest, idx int) (fail *tfFailure, clean bool, steps int) {
	mk := func(class, detail string, at int, want, got *tfObs) *tfFailure {
		cmds := []string{}
		for _, s := range t.Steps {
			cmds = append(cmds, fmt.Sprintf("%s(%d%s)", s.O, s.A, s.C))
		}
		c := map[string]interface{}{"behaviour": idx, "configuration": hdr.Name, "commands": cmds, "at": at, "table": hdr.Tab}
		if want != nil {
			c["expected"] = want
		}
		if got != nil {
			c["observed"] = got
		}
		if at >= 0 && at < len(t.Steps) {
			c["order_of_registrations"] = t.Steps[0].Tb
		}
		return &tfFailure{class, detail, c}
	}
	r, err := newTfRig(hdr)
	if err != nil {
		return mk("termfault/setup", "rig: "+err.Error(), -1, nil, nil), false, 0
	}
	r.sentM = map[int]bool{}
	defer func() { clean = r.close() && clean }()
	clean = true
	names := map[string]bool{}
	for _, d := range hdr.Tab {
		names[d.C] = true
	}
	all := []string{}
	for n := range names {
		all = append(all, n)
	}
	sort.Strings(all)
	for _, n := range append(all, "filler", "probe") {
		if _, err := r.connect(n); err != nil {
			return mk("termfault/setup", err.Error(), -1, nil, nil), false, 0
		}
	}
	for i, s := range t.Steps {
		steps++
		if s.O == "init" {
			// the registrations in place at the start, in table order
			for _, regs := range s.Tb {
				for _, m := range regs {
					r.w.mu.Lock()
					r.sentM[m] = true
					r.w.mu.Unlock()
					r.send(m)
					id := r.id(m)
					c := r.conns[hdr.Tab[m-1].C]
					if !r.w.waitFor(tfBound, func() bool { return len(c.frames[id]) > 0 && r.doned[id] }) {
						return mk("termfault/setup", fmt.Sprintf("registration %d is not answered", m), i, nil, nil), false, steps
					}
				}
			}
			r.w.mu.Lock()
			r.initDone = true
			r.w.mu.Unlock()
		} else if err := r.do(s); err != nil {
			return mk("termfault/command-not-applicable", err.Error(), i, &t.Steps[i].Post, nil), false, steps
		}
		want := &t.Steps[i].Post
		final := i == len(t.Steps)-1
		wants := []*tfObs{want}
		if final {
			for j := range t.Alts {
				wants = append(wants, &t.Alts[j])
			}
		}
		got, ok := r.waitObs(final, wants...)
		if ok && final {
			// nothing more may arrive: look again after a grace period
			time.Sleep(3 * time.Millisecond)
			r.w.mu.Lock()
			got = r.observeLocked()
			ok = false
			for _, w := range wants {
				if got.equal(w) {
					ok, want = true, w
				}
			}
			r.w.mu.Unlock()
		}
		if !ok && !final {
			// the server's goroutines race in places: another outcome of an EARLIER command than the one this
			// behaviour was exported for is no verdict (that transition is the last step of another behaviour)
			cl, detail := r.classify(s, want, got)
			return &tfFailure{"diverged", fmt.Sprintf("%s after %s(%d%s): %s", cl, s.O, s.A, s.C, detail), nil}, false, steps
		}
		if !ok {
			if want.Lt > 0 && got.Lt < want.Lt {
				// the specification describes the code as found (Dev_LateRegisterAccepted); a tree that refuses the
				// late registration is better than the specification: the behaviour ends here, no verdict
				return nil, true, steps
			}
			cl, detail := r.classify(s, want, got)
			return mk(cl, fmt.Sprintf("after %s(%d%s): %s", s.O, s.A, s.C, detail), i, want, got), false, steps
		}
		if i > 0 && final && want.Lt > t.Steps[i-1].Post.Lt {
			fail = mk("termfault/registration-accepted-after-termination",
				fmt.Sprintf("after %s(%d%s): a registerEvent that was still queued when its object terminated was run and ACCEPTED afterwards: "+
					"a subscriber of a dead object, never told, its disconnection handler never released", s.O, s.A, s.C), i, want, got)
		}
	}
	last := &t.Steps[len(t.Steps)-1].Post
	if f := r.probes(last); f != nil {
		return mk(f.Class, "after the last command: "+f.Detail, len(t.Steps), last, nil), false, steps
	}
	return fail, clean, steps
}

// ---------------------------------------------------------------------------
// child / parent
// ---------------------------------------------------------------------------

type tfChildLine struct {
	K       string                 `json:"k"` // "run" | "fail" | "end"
	I       int                    `json:"i"`
	Class   string                 `json:"class,omitempty"`
	Detail  string                 `json:"detail,omitempty"`
	Case    map[string]interface{} `json:"case,omitempty"`
	Done    int                    `json:"done,omitempty"`
	Steps   int                    `json:"steps,omitempty"`
	Known   int                    `json:"known,omitempty"`
	Unclean bool                   `json:"unclean,omitempty"`
}

func tfSay(l tfChildLine) {
	b, _ := json.Marshal(l)
	os.Stdout.Write(append(b, '\n'))
}

// tf-child <tests> <from> <to>
func cmdTfChild(args []string) {
	var from, to int
	fmt.Sscan(args[1], &from)
	fmt.Sscan(args[2], &to)
	hdrs, tests := tfLoad(args[0], from, to)
	done, steps, known := 0, 0, 0
	for i := from; i < to && i < len(tests); i++ {
		tfSay(tfChildLine{K: "run", I: i})
		f, clean, n := tfRun(hdrs[tests[i].Cfg], tests[i], i)
		steps += n
		done++
		if f != nil && f.Class == "diverged" {
			tfSay(tfChildLine{K: "diverged", I: i, Detail: f.Detail})
			if !clean {
				tfSay(tfChildLine{K: "end", I: i + 1, Done: done, Steps: steps, Unclean: true})
				os.Exit(0)
			}
			continue
		}
		if f != nil {
			tfSay(tfChildLine{K: "fail", I: i, Class: f.Class, Detail: f.Detail, Case: f.Case})
			if f.Class == "termfault/registration-accepted-after-termination" && clean {
				known++
				continue // the rig was closed cleanly: the process is not polluted
			}
			tfSay(tfChildLine{K: "end", I: i + 1, Done: done, Steps: steps, Unclean: true})
			os.Exit(0)
		}
		if !clean {
			tfSay(tfChildLine{K: "end", I: i + 1, Done: done, Steps: steps, Unclean: true})
			os.Exit(0)
		}
	}
	tfSay(tfChildLine{K: "end", I: to, Done: done, Steps: steps})
}

// tfSupervise runs `sub from to` children over [0, n) with `workers` lanes; a child that dies or exceeds its
// wall-clock limit is a failure of the behaviour it was running.
func tfSupervise(res *hlib.Result, sub string, pre []string, n, workers, chunk int, perItem time.Duration, what string) (ran, steps int) {
	var mu sync.Mutex
	diverged, divSamples := 0, []string{}
	defer func() {
		res.SetExtra("diverged", diverged)
		res.SetExtra("diverged_samples", divSamples)
	}()
	next, crashes, fails := 0, 0, 0
	budget := func() bool { return crashes >= 4 || fails >= 12 }
	var wg sync.WaitGroup
	for w := 0; w < workers; w++ {
		wg.Add(1)
		go func() {
			defer wg.Done()
			for {
				mu.Lock()
				if next >= n || budget() {
					mu.Unlock()
					return
				}
				from := next
				to := min(from+chunk, n)
				next = to
				mu.Unlock()
				for from < to {
					mu.Lock()
					stop := budget()
					mu.Unlock()
					if stop {
						return
					}
					args := append([]string{sub}, pre...)
					args = append(args, fmt.Sprint(from), fmt.Sprint(to))
					cmd := exec.Command(os.Args[0], args...)
					var errb bytes.Buffer
					cmd.Stderr = &errb
					out, _ := cmd.StdoutPipe()
					if err := cmd.Start(); err != nil {
						hlib.Fatal("child: %v", err)
					}
					limit := time.Duration(to-from)*perItem + 30*time.Second
					timer := time.AfterFunc(limit, func() { cmd.Process.Kill() })
					cur, ended, resume := -1, false, to
					sc := bufio.NewScanner(out)
					sc.Buffer(make([]byte, 1<<20), 1<<26)
					for sc.Scan() {
						var l tfChildLine
						if json.Unmarshal(sc.Bytes(), &l) != nil {
							continue
						}
						switch l.K {
						case "run":
							cur = l.I
						case "diverged":
							mu.Lock()
							diverged++
							if len(divSamples) < 6 {
								divSamples = append(divSamples, fmt.Sprintf("%s %d: %s", what, l.I, l.Detail))
							}
							mu.Unlock()
						case "fail":
							mu.Lock()
							res.Fail(l.Class, l.Detail, l.Case)
							if l.Class != "termfault/registration-accepted-after-termination" {
								fails++
							}
							mu.Unlock()
						case "end":
							ended = true
							resume = l.I
							mu.Lock()
							ran += l.Done
							steps += l.Steps
							mu.Unlock()
						}
					}
					err := cmd.Wait()
					killed := !timer.Stop()
					if !ended {
						// the child died (or was killed) while running item `cur`
						stderr := errb.String()
						class, detail := "termfault/process-abort", fmt.Sprintf("the server process ended while %s %d ran: %v", what, cur, err)
						switch {
						case killed:
							class, detail = "termfault/hang", fmt.Sprintf("%s %d did not end within %v", what, cur, limit)
						case strings.Contains(stderr, "panic:"):
							class = "termfault/server-panic"
						case strings.Contains(stderr, "fatal error:"):
							class = "termfault/runtime-abort"
						}
						if i := strings.Index(stderr, "panic:"); i >= 0 {
							stderr = stderr[i:]
						} else if i := strings.Index(stderr, "fatal error:"); i >= 0 {
							stderr = stderr[i:]
						}
						if len(stderr) > 3000 {
							stderr = stderr[:3000]
						}
						first := stderr
						if i := strings.Index(first, "\n"); i > 0 {
							first = first[:i]
						}
						mu.Lock()
						res.Fail(class, detail+": "+first, map[string]interface{}{"item": cur, "stderr": stderr, "rerun": strings.Join(append(args[:len(args)-2], fmt.Sprint(cur), fmt.Sprint(cur+1)), " ")})
						crashes++
						fails++
						if cur >= from {
							ran += cur - from + 1
						}
						mu.Unlock()
						if cur < 0 {
							hlib.Fatal("child %v died before its first item: %v\n%s", args, err, stderr)
						}
						resume = cur + 1
					}
					from = resume
				}
			}
		}()
	}
	wg.Wait()
	return
}

// tf-replay <tests.ndjson> [workers]
func cmdTfReplay(args []string) {
	workers := 4
	if len(args) > 1 {
		fmt.Sscan(args[1], &workers)
	}
	_, tests := tfLoad(args[0], 0, 0)
	var res hlib.Result
	ran, steps := tfSupervise(&res, "tf-child", []string{args[0]}, len(tests), workers, 100, 2*time.Second, "behaviour")
	res.Evaluations = ran
	res.Distinct = len(tests)
	res.SetExtra("steps", steps)
	res.SetExtra("behaviours", len(tests))
	if len(tests) > 0 {
		_, some := tfLoad(args[0], len(tests)/2, len(tests)/2+1)
		t := some[len(tests)/2]
		cmds := []string{}
		for _, s := range t.Steps {
			cmds = append(cmds, fmt.Sprintf("%s(%d%s)", s.O, s.A, s.C))
		}
		res.Sample(map[string]interface{}{"behaviour": cmds, "expected_after_last_command": t.Steps[len(t.Steps)-1].Post})
	}
	res.Emit()
}

// ---------------------------------------------------------------------------
// free-running rounds
// ---------------------------------------------------------------------------

// tfStressRound: three objects with subscribers on three connections (some of which fail on write), object 1
// busy with a full mailbox and two senders parked in front of it (a third message waits behind one of
// them), then - all at once, no gate anywhere - Service.Remove of objects 1 and 2 (twice each, from
// different goroutines), a remote terminate, sometimes Service.Terminate, the shutdown of a connection and
// the return of the slow method.  At quiescence the invariants of TermFault.tla are evaluated on what the
// connections received, on the hook counters and on the handler tables.
func tfStressRound(seed int64, round int) *tfFailure {
	rng := rand.New(rand.NewSource(seed*1000003 + int64(round)))
	tab := []tfMsgDef{}
	add := func(c, kind string, o int) int {
		tab = append(tab, tfMsgDef{C: c, Kind: kind, O: o})
		return len(tab)
	}
	conns := []string{"c1", "c2", "c3"}
	var regs []int
	for _, o := range []int{1, 2, 3} {
		perm := rng.Perm(3)
		for _, i := range perm {
			if rng.Intn(4) > 0 {
				regs = append(regs, add(conns[i], "sub", o))
			}
		}
	}
	busy := add("c1", "call", 1)
	park2 := add("c2", "call", 1)
	park3 := add("c3", "post", 1)
	behind := add("c2", "call", 3)
	term := add("c4", "term", 1+rng.Intn(2))
	late1 := add("c4", "call", 1)
	late2 := add("c4", "call", 2)
	hdr := tfHeader{Tab: tab, Cap: 10, Objs: 3, Fine: false, Name: "stress"}
	mk := func(class, detail string, extra map[string]interface{}) *tfFailure {
		c := map[string]interface{}{"round": round, "seed": seed, "table": tab}
		for k, v := range extra {
			c[k] = v
		}
		return &tfFailure{"termfault/stress/" + class, detail, c}
	}
	r, err := newTfRig(hdr)
	if err != nil {
		return mk("setup", err.Error(), nil)
	}
	r.sentM = map[int]bool{}
	clean := false
	defer func() {
		if !clean {
			r.close()
		}
	}()
	for _, n := range []string{"c1", "c2", "c3", "c4", "filler", "probe"} {
		if _, err := r.connect(n); err != nil {
			return mk("setup", err.Error(), nil)
		}
	}
	sendM := func(m int) {
		r.w.mu.Lock()
		r.sentM[m] = true
		r.w.mu.Unlock()
		r.send(m)
	}
	for _, m := range regs {
		sendM(m)
		id, c := r.id(m), r.conns[tab[m-1].C]
		if !r.w.waitFor(tfBound, func() bool { return len(c.frames[id]) > 0 && r.doned[id] }) {
			return mk("setup", fmt.Sprintf("registration %d is not answered", m), nil)
		}
	}
	broken := map[string]bool{}
	for _, c := range conns {
		if rng.Intn(3) == 0 {
			broken[c] = true
			r.w.mu.Lock()
			r.conns[c].cli.r.failWrites = true
			r.w.mu.Unlock()
		}
	}
	// object 1 busy, its mailbox full, two senders parked, one message behind a parked one
	sendM(busy)
	if !r.w.waitFor(tfBound, func() bool { return r.recvd[r.id(busy)] }) {
		return mk("setup", "the slow call does not start", nil)
	}
	full := rng.Intn(4) > 0
	if full {
		if err := r.do(tfStep{O: "fill", A: 1}); err != nil {
			return mk("setup", err.Error(), nil)
		}
	}
	sendM(park2)
	sendM(park3)
	sendM(behind)
	if !r.w.waitFor(tfBound, func() bool {
		_, a := r.tobox[r.id(park2)]
		_, b := r.tobox[r.id(park3)]
		return a && b
	}) {
		return mk("setup", "the senders do not reach the mailbox", nil)
	}
	// ---- everything at once
	var wg sync.WaitGroup
	start := make(chan struct{})
	results := map[string]error{}
	var rmu sync.Mutex
	launch := func(name string, f func() error) {
		wg.Add(1)
		go func() {
			defer wg.Done()
			<-start
			err := f()
			rmu.Lock()
			results[name] = err
			rmu.Unlock()
		}()
	}
	removed := map[int]bool{}
	for _, k := range []int{1, 2} {
		if rng.Intn(5) > 0 {
			k := k
			removed[k] = true
			launch(fmt.Sprintf("remove%d-a", k), func() error { return r.svc.Remove(r.objID[k-1]) })
			launch(fmt.Sprintf("remove%d-b", k), func() error { return r.svc.Remove(r.objID[k-1]) })
		}
	}
	withTerm := rng.Intn(3) > 0
	if withTerm {
		launch("terminate-call", func() error { sendM(term); return nil })
	}
	svcTerm := rng.Intn(4) == 0
	if svcTerm {
		launch("service-terminate", func() error { return r.svc.Terminate() })
	}
	dropped := ""
	if rng.Intn(3) == 0 {
		dropped = conns[rng.Intn(3)]
		launch("drop", func() error { r.conns[dropped].cli.Close(); return nil })
	}
	launch("release", func() error { r.releaseTag(fmt.Sprintf("g:%d", r.id(busy))); return nil })
	close(start)
	apiDone := make(chan struct{})
	go func() { wg.Wait(); close(apiDone) }()
	select {
	case <-apiDone:
	case <-time.After(tfBound):
		rmu.Lock()
		missing := []string{}
		for _, n := range []string{"remove1-a", "remove1-b", "remove2-a", "remove2-b", "service-terminate"} {
			if _, ok := results[n]; !ok && (strings.HasPrefix(n, "remove") && removed[int(n[6]-'0')] || n == "service-terminate" && svcTerm) {
				missing = append(missing, n)
			}
		}
		rmu.Unlock()
		return mk("remove-does-not-return", fmt.Sprintf("%v did not return within %v (object 1 busy, mailbox full: %v, two senders parked)", missing, tfBound, full),
			map[string]interface{}{"missing": missing})
	}
	// let every slow method return, then two late calls from a fresh connection
	r.w.mu.Lock()
	r.drain = true
	for _, ch := range r.gates {
		select {
		case <-ch:
		default:
			close(ch)
		}
	}
	r.w.mu.Unlock()
	healthy := func(c string) bool { return !broken[c] && c != dropped }
	pending := func() []string {
		out := []string{}
		for m := range r.sentM {
			id := r.id(m)
			_, tb := r.tobox[id]
			switch {
			case !tb && !r.noobj[id]:
				out = append(out, fmt.Sprintf("message %d (%s %s->%d) was never routed", m, tab[m-1].Kind, tab[m-1].C, tab[m-1].O))
			case tb && !r.consd[id]:
				out = append(out, fmt.Sprintf("message %d (%s %s->%d) is parked in front of the mailbox", m, tab[m-1].Kind, tab[m-1].C, tab[m-1].O))
			case tb && !r.doned[id]:
				out = append(out, fmt.Sprintf("message %d (%s %s->%d) was queued and never run", m, tab[m-1].Kind, tab[m-1].C, tab[m-1].O))
			case tab[m-1].Kind != "post" && healthy(tab[m-1].C) && len(r.conns[tab[m-1].C].frames[id]) == 0:
				out = append(out, fmt.Sprintf("message %d (%s %s->%d) was not answered", m, tab[m-1].Kind, tab[m-1].C, tab[m-1].O))
			}
		}
		sort.Strings(out)
		return out
	}
	if !r.w.waitFor(tfBound, func() bool { return len(pending()) == 0 }) {
		r.w.mu.Lock()
		p := pending()
		r.w.mu.Unlock()
		return mk("message-stuck", fmt.Sprintf("after everything was released: %s", strings.Join(p, "; ")), map[string]interface{}{"pending": p})
	}
	// the objects that are gone: 1 / 2 if removed, the target of the terminate call, everything after Service.Terminate
	gone := map[int]bool{}
	last := &tfObs{Rg: make([]int, 3), Bs: make([]int, 3), Bx: make([]int, 3), Pk: make([][]int, 3)}
	// what the connections have received is read by goroutines of the harness: the evaluation is repeated until it
	// finds nothing (bounded), then once more after a grace period (nothing may arrive twice)
	var f *tfFailure
	evaluate := func() bool {
		f = nil
		for k := 1; k <= 3; k++ {
			gone[k] = !r.reg[k]
		}
		for k := 1; k <= 3 && f == nil; k++ {
			want := 0
			if gone[k] {
				want = 1
			}
			should := removed[k] || svcTerm || (withTerm && tab[term-1].O == k)
			if gone[k] != should {
				f = mk("object-table-differs", fmt.Sprintf("object %d: gone %v, the operations of the round say %v", k, gone[k], should), nil)
			} else if r.impls[k-1].term != want {
				f = mk("termination-hook-count-differs", fmt.Sprintf("object %d (gone: %v): OnTerminate ran %d times", k, gone[k], r.impls[k-1].term), nil)
			}
		}
		live := map[string]int{}
		for _, m := range regs {
			if f != nil {
				break
			}
			d := tab[m-1]
			told := 0
			for _, fr := range r.conns[d.C].frames[r.id(m)] {
				if fr.Header.Type == net.Error && fr.Header.Action == tfSignal {
					told++
				}
			}
			switch {
			case !gone[d.O] && told > 0:
				f = mk("subscriber-told-unexpectedly", fmt.Sprintf("registration %d (%s on object %d, which is alive) received a termination message", m, d.C, d.O), nil)
			case gone[d.O] && healthy(d.C) && told == 0:
				f = mk("subscriber-not-told", fmt.Sprintf("registration %d (%s on object %d, gone; connection healthy; broken: %v, shut down: %q) received no termination message", m, d.C, d.O, broken, dropped), nil)
			case told > 1:
				f = mk("subscriber-told-twice", fmt.Sprintf("registration %d (%s on object %d) received %d termination messages", m, d.C, d.O, told), nil)
			}
			if !gone[d.O] && d.C != dropped {
				live[d.C]++
			}
		}
		for _, c := range conns {
			if f != nil {
				break
			}
			l := r.live[r.conns[c].srvEp]
			h := len(l)
			if l[r.baseSl[r.conns[c].srvEp]] {
				h--
			}
			if h > live[c] {
				f = mk("disconnection-handler-not-released", fmt.Sprintf("connection %s keeps %d subscriber handler(s), %d registration(s) of live objects", c, h, live[c]), nil)
			} else if h < live[c] {
				f = mk("disconnection-handler-lost", fmt.Sprintf("connection %s has %d subscriber handler(s), %d registration(s) of live objects", c, h, live[c]), nil)
			}
		}
		for _, m := range []int{busy, park2, behind} {
			if f != nil {
				break
			}
			if c := tab[m-1].C; healthy(c) {
				if n := len(r.conns[c].frames[r.id(m)]); n != 1 {
					f = mk("message-answered-twice", fmt.Sprintf("message %d received %d answers", m, n), nil)
				}
			}
		}
		for k := 1; k <= 3; k++ {
			last.Rg[k-1] = 0
			if r.reg[k] {
				last.Rg[k-1] = 1
			}
		}
		return f == nil
	}
	if r.w.waitFor(tfBound, evaluate) {
		time.Sleep(3 * time.Millisecond)
		r.w.mu.Lock()
		evaluate()
		r.w.mu.Unlock()
	}
	if f != nil {
		return f
	}
	// messages sent after everything has returned: refused without running, the others answer
	sendM(late1)
	sendM(late2)
	c4 := r.conns["c4"]
	if !r.w.waitFor(tfBound, func() bool { return len(c4.frames[r.id(late1)]) > 0 && len(c4.frames[r.id(late2)]) > 0 }) {
		return mk("late-message-not-answered", "a call sent after the removals is not answered", nil)
	}
	r.w.mu.Lock()
	for _, m := range []int{late1, late2} {
		k := tab[m-1].O
		isReply := c4.frames[r.id(m)][0].Header.Type == net.Reply
		if gone[k] && (isReply || r.execs[fmt.Sprintf("g:%d", r.id(m))] > 0) {
			f = mk("message-to-removed-object-executed", fmt.Sprintf("a call sent to object %d after its removal had returned was run", k), nil)
		} else if !gone[k] && !isReply {
			f = mk("other-object-refuses", fmt.Sprintf("a call to object %d, which is alive, was refused", k), nil)
		}
	}
	r.w.mu.Unlock()
	if f != nil {
		return f
	}
	if pf := r.probes(last); pf != nil {
		return mk(strings.TrimPrefix(pf.Class, "termfault/"), pf.Detail, nil)
	}
	clean = true
	if !r.close() {
		return mk("server-does-not-stop", "Server.Terminate does not return", nil)
	}
	return nil
}

// tf-stress-child <from> <to>
func cmdTfStressChild(args []string) {
	var from, to int
	fmt.Sscan(args[0], &from)
	fmt.Sscan(args[1], &to)
	done := 0
	for i := from; i < to; i++ {
		tfSay(tfChildLine{K: "run", I: i})
		f := tfStressRound(hlib.Seed(), i)
		done++
		if f != nil {
			tfSay(tfChildLine{K: "fail", I: i, Class: f.Class, Detail: f.Detail, Case: f.Case})
			tfSay(tfChildLine{K: "end", I: i + 1, Done: done, Unclean: true})
			os.Exit(0)
		}
	}
	tfSay(tfChildLine{K: "end", I: to, Done: done})
}

// tf-stress <rounds> [workers]
func cmdTfStress(args []string) {
	rounds, workers := 200, 4
	fmt.Sscan(args[0], &rounds)
	if len(args) > 1 {
		fmt.Sscan(args[1], &workers)
	}
	var res hlib.Result
	ran, _ := tfSupervise(&res, "tf-stress-child", nil, rounds, workers, 50, 3*time.Second, "round")
	res.Evaluations = ran
	res.Distinct = rounds
	res.Emit()
}

func init() {
	if ms := os.Getenv("VERIF_TF_BOUND_MS"); ms != "" {
		var n int
		if fmt.Sscan(ms, &n); n > 0 {
			tfBound = time.Duration(n) * time.Millisecond
		}
	}
	hlib.Register("tf-replay", cmdTfReplay)
	hlib.Register("tf-child", cmdTfChild)
	hlib.Register("tf-stress", cmdTfStress)
	hlib.Register("tf-stress-child", cmdTfStressChild)
}
