package main

// C06: replay of GenServer behaviours (hostile pre-authentication traffic on
// two raw connections) against a real bus.StandAloneServer with each of the
// authenticators.  Observation: every frame each peer received, which
// streams the server closed, which probe methods ran, what the Authenticator
// was asked.  A settled replay (the peer waits for the server to come to
// rest before each frame) has exactly one expected observation; a pipelined
// replay (frames written back to back) has the set of observations the
// specification derives for the documented asynchrony.
//
// The replay runs in a child process with a journal: a crash of the server
// code is attributed to the sequence being replayed.

import (
	"bufio"
	"bytes"
	"encoding/json"
	"fmt"
	"os"
	"os/exec"
	"strings"
	"time"

	"github.com/lugu/qiloop/bus"
	"github.com/lugu/qiloop/bus/net"
	"github.com/lugu/qiloop/type/value"
	"verif/harness/hlib"
)

type pmsg struct {
	Type string `json:"type"`
	Svc  int    `json:"svc"`
	Obj  int    `json:"obj"`
	Act  int    `json:"act"`
	Pl   string `json:"pl"`
}

type c06Step struct {
	C string `json:"c"`
	M pmsg   `json:"m"`
}

type c06Got struct {
	Type string `json:"type"`
	ID   int    `json:"id"`
	Val  string `json:"val"`
}

type c06Exec struct {
	ID   int    `json:"id"`
	Type string `json:"type"`
	Conn string `json:"conn"`
}

type c06Auth struct {
	Pair string `json:"pair"`
	Ok   bool   `json:"ok"`
}

type c06Obs struct {
	Got    map[string][]c06Got `json:"got"`
	Closed map[string]bool     `json:"closed"`
	Execs  []c06Exec           `json:"execs"`
	Auth   []c06Auth           `json:"auth"`
}

type c06Case struct {
	Mode    string    `json:"mode"`
	Script  []bool    `json:"script"`
	Seq     []c06Step `json:"seq"`
	Settled *c06Obs   `json:"settled"`
	Burst   []c06Obs  `json:"burst"`
}

func capPayload(pl string) []byte {
	m := bus.CapabilityMap{}
	switch pl {
	case "good":
		m[bus.KeyUser], m[bus.KeyToken] = value.String("alice"), value.String("secret")
	case "bad":
		m[bus.KeyUser], m[bus.KeyToken] = value.String("alice"), value.String("wrong")
	case "empty":
		m["ClientServerSocket"] = value.Bool(true)
	case "forgedU":
		m[bus.KeyState] = value.Uint(bus.StateDone)
	case "forgedI":
		m[bus.KeyState] = value.Int(int32(bus.StateDone))
	case "badforged":
		m[bus.KeyUser], m[bus.KeyToken] = value.String("alice"), value.String("wrong")
		m[bus.KeyState] = value.Uint(bus.StateDone)
	case "wrongtype":
		m[bus.KeyUser], m[bus.KeyToken] = value.Int(5), value.String("secret")
	case "malformed":
		return []byte{2, 0, 0, 0, 9, 0, 0, 0, 'a', 'u'}
	}
	var b bytes.Buffer
	bus.WriteCapabilityMap(m, &b)
	return b.Bytes()
}

func pairOf(user, token string) string {
	switch {
	case user == "alice" && token == "secret":
		return "good"
	case user == "alice" && token == "wrong":
		return "bad"
	case user == "" && token == "":
		return "empty"
	}
	return "other:" + user + "/" + token
}

// c06Val: the value of the specification for a frame the peer received.
func c06Val(m *net.Message) string {
	if m.Header.Service == 0 && m.Header.Type == net.Reply {
		cm, err := bus.ReadCapabilityMap(bytes.NewReader(m.Payload))
		if err != nil {
			return "undecodable"
		}
		if cm.Authenticated() {
			return "A:done"
		}
		if st, ok := cm[bus.KeyState]; ok {
			if u, ok := st.(value.UintValue); ok && u.Value() == bus.StateError {
				return "A:error"
			}
		}
		return "A:?"
	}
	v := respVal(m)
	if strings.HasPrefix(v, "other:") && (strings.Contains(v, "map") || strings.Contains(v, "capability")) {
		return "badpayload"
	}
	return v
}

func c06Replay(cs *c06Case, burst bool) (*c06Obs, string) { return c06ReplayF(cs, burst, false) }

// c06ReplayF: with wfault every write of the server towards connection c1 fails (the peer never sees an
// answer); what the server does otherwise - in particular closing a refused connection - must not change.
func c06ReplayF(cs *c06Case, burst, wfault bool) (*c06Obs, string) {
	auth := newAuth(cs.Mode, cs.Script)
	r, err := newRig(auth, []string{"1"}, false)
	if err != nil {
		hlib.Fatal("rig: %v", err)
	}
	defer r.close()
	for _, cn := range []string{"c1", "c2"} {
		if _, err := r.connectRaw(cn); err != nil {
			hlib.Fatal("connect: %v", err)
		}
	}
	if wfault {
		r.w.mu.Lock()
		r.conns["c1"].srv.w.failWrites = true
		r.w.mu.Unlock()
	}
	settle := func() bool { return r.w.waitFor(tBound, func() bool { return r.settledLocked(nil, nil) }) }
	stuck := ""
	for i, st := range cs.Seq {
		c := r.conns[st.C]
		svc := uint32(st.M.Svc)
		if st.M.Svc == 1 {
			svc = r.svcID
		}
		id := uint32(i + 1)
		var payload []byte
		if st.M.Svc == 0 && st.M.Act == 8 {
			payload = capPayload(st.M.Pl)
		} else {
			payload = strPayload(fmt.Sprint(id))
		}
		hdr := net.NewHeader(typeCode[st.M.Type], svc, uint32(st.M.Obj), uint32(st.M.Act), id)
		msg := net.NewMessage(hdr, payload)
		msg.Write(c.cli) // a write on a stream the server has closed fails: the peer does not care
		if !burst {
			if !settle() {
				stuck = fmt.Sprintf("server does not come to rest within %v after frame %d: %s", tBound, i+1, r.dump())
				break
			}
		}
	}
	if stuck == "" && !settle() {
		stuck = fmt.Sprintf("server does not come to rest within %v: %s", tBound, r.dump())
	}
	o := &c06Obs{Got: map[string][]c06Got{}, Closed: map[string]bool{}, Execs: []c06Exec{}, Auth: []c06Auth{}}
	r.w.mu.Lock()
	for _, c := range r.conns {
		o.Got[c.name] = []c06Got{}
		for _, m := range c.frames {
			o.Got[c.name] = append(o.Got[c.name], c06Got{typeName[m.Header.Type], int(m.Header.ID), c06Val(m)})
		}
		o.Closed[c.name] = c.rdEOF
	}
	for _, e := range r.rec.execs {
		id := 0
		fmt.Sscan(e.Tag, &id)
		x := c06Exec{ID: id}
		if id >= 1 && id <= len(cs.Seq) {
			x.Type, x.Conn = cs.Seq[id-1].M.Type, cs.Seq[id-1].C
		}
		o.Execs = append(o.Execs, x)
	}
	r.w.mu.Unlock()
	for _, a := range auth.log() {
		o.Auth = append(o.Auth, c06Auth{pairOf(a.User, a.Token), a.Ok})
	}
	return o, stuck
}

func canon(v interface{}) string {
	b, _ := json.Marshal(v)
	return string(b)
}

// c06Diff names what differs between an observation and the closest allowed one.
func c06Diff(cs *c06Case, got *c06Obs, allowed []c06Obs) (string, string) {
	for i := range allowed {
		if canon(allowed[i]) == canon(got) {
			return "", ""
		}
	}
	// executions nobody allows
	okExec := false
	okClosed := false
	okAuth := false
	for i := range allowed {
		if canon(allowed[i].Execs) == canon(got.Execs) {
			okExec = true
		}
		if canon(allowed[i].Closed) == canon(got.Closed) {
			okClosed = true
		}
		if canon(allowed[i].Auth) == canon(got.Auth) {
			okAuth = true
		}
	}
	exp := canon(allowed)
	if !okExec {
		maxE := 0
		for i := range allowed {
			if len(allowed[i].Execs) > maxE {
				maxE = len(allowed[i].Execs)
			}
		}
		if len(got.Execs) > maxE {
			return "c06/delivered-without-accepted-credentials",
				fmt.Sprintf("the probe service ran %v; the specification allows %s", canon(got.Execs), exp)
		}
		return "c06/executions-differ", fmt.Sprintf("probe executions %v; the specification allows %s", canon(got.Execs), exp)
	}
	if !okAuth {
		return "c06/authenticator-log-differs", fmt.Sprintf("the Authenticator was asked %v; the specification allows %s", canon(got.Auth), exp)
	}
	if !okClosed {
		for c, cl := range got.Closed {
			if !cl {
				for i := range allowed {
					if allowed[i].Closed[c] {
						return "c06/refused-connection-left-open", fmt.Sprintf("connection %s is still open: %v; allowed %s", c, canon(got), exp)
					}
				}
			}
		}
		return "c06/connection-closed-unexpectedly", fmt.Sprintf("closed = %v; allowed %s", canon(got.Closed), exp)
	}
	return "c06/responses-differ", fmt.Sprintf("the peers received %v; the specification allows %s", canon(got.Got), exp)
}

// c06-child <file>: one JSON line per case on stdout: {"i":n,"class":..,"detail":..}; journal on stderr.
func cmdC06Child(args []string) {
	start := 0
	if len(args) > 1 {
		fmt.Sscan(args[1], &start)
	}
	tBound = 5 * time.Second
	out := bufio.NewWriter(os.Stdout)
	defer out.Flush()
	i := -1
	hlib.ReadLines(args[0], func(line []byte) {
		i++
		if i < start {
			return
		}
		var cs c06Case
		if err := json.Unmarshal(line, &cs); err != nil {
			hlib.Fatal("bad case: %v", err)
		}
		fmt.Fprintf(os.Stderr, "JOURNAL %d\n", i)
		type rep struct {
			I      int         `json:"i"`
			Mode   string      `json:"mode"`
			Class  string      `json:"class"`
			Detail string      `json:"detail"`
			Case   interface{} `json:"case,omitempty"`
			Runs   int         `json:"runs"`
		}
		rp := rep{I: i, Mode: "settled"}
		if cs.Settled != nil {
			got, stuck := c06Replay(&cs, false)
			rp.Runs++
			rp.Class, rp.Detail = c06Diff(&cs, got, []c06Obs{*cs.Settled})
			if rp.Class == "" && stuck != "" {
				rp.Class, rp.Detail = "c06/stuck", stuck
			}
			if rp.Class != "" {
				rp.Case = map[string]interface{}{"authenticator": cs.Mode, "frames": cs.Seq, "mode": "settled", "got": got, "expected": cs.Settled}
			}
		}
		if rp.Class == "" && cs.Settled != nil {
			// third run: the server cannot write to c1.  Answers are not comparable (none arrives on c1);
			// which connections end up closed, what ran and what the authenticator was asked must be as
			// specified - a refused connection is closed whether or not the error answer could be written
			got, stuck := c06ReplayF(&cs, false, true)
			rp.Runs++
			exp := *cs.Settled
			if canon(exp.Execs) != canon(got.Execs) || canon(exp.Auth) != canon(got.Auth) || canon(exp.Closed) != canon(got.Closed) {
				g2 := *got
				g2.Got = exp.Got
				rp.Mode = "write-fault"
				rp.Class, rp.Detail = c06Diff(&cs, &g2, []c06Obs{exp})
				if rp.Class == "c06/responses-differ" {
					rp.Class = ""
				}
			}
			if rp.Class == "" && stuck != "" {
				rp.Mode = "write-fault"
				rp.Class, rp.Detail = "c06/stuck", stuck
			}
			if rp.Class != "" {
				rp.Case = map[string]interface{}{"authenticator": cs.Mode, "frames": cs.Seq, "mode": "server cannot write to c1", "got": got, "expected": cs.Settled}
			}
		}
		if rp.Class == "" && len(cs.Burst) > 0 && len(cs.Seq) > 1 {
			got, stuck := c06Replay(&cs, true)
			rp.Runs++
			rp.Mode = "pipelined"
			rp.Class, rp.Detail = c06Diff(&cs, got, cs.Burst)
			if rp.Class == "" && stuck != "" {
				rp.Class, rp.Detail = "c06/stuck", stuck
			}
			if rp.Class != "" {
				rp.Case = map[string]interface{}{"authenticator": cs.Mode, "frames": cs.Seq, "mode": "pipelined", "got": got, "allowed": cs.Burst}
			}
		}
		b, _ := json.Marshal(rp)
		out.Write(b)
		out.WriteByte('\n')
		out.Flush()
	})
	fmt.Fprintf(os.Stderr, "JOURNAL done\n")
}

// c06-replay <file>: runs c06-child, restarting it after the case that killed it.
func cmdC06Replay(args []string) {
	var res hlib.Result
	total := 0
	hlib.ReadLines(args[0], func([]byte) { total++ })
	start := 0
	crashes := 0
	runs := 0
	budget := false
	for start < total {
		cmd := exec.Command(os.Args[0], "c06-child", args[0], fmt.Sprint(start))
		var stderr bytes.Buffer
		cmd.Stderr = &stderr
		stdout, err := cmd.StdoutPipe()
		if err != nil {
			hlib.Fatal("pipe: %v", err)
		}
		if err := cmd.Start(); err != nil {
			hlib.Fatal("start child: %v", err)
		}
		last := start - 1
		sc := bufio.NewScanner(stdout)
		sc.Buffer(make([]byte, 1<<20), 1<<26)
		for sc.Scan() {
			var rp struct {
				I      int
				Mode   string
				Class  string
				Detail string
				Case   interface{}
				Runs   int
			}
			if json.Unmarshal(sc.Bytes(), &rp) != nil {
				continue
			}
			last = rp.I
			res.Evaluations++
			runs += rp.Runs
			if rp.Class != "" {
				res.Fail(rp.Class, rp.Detail, rp.Case)
				// failure budget: a broken tree fails thousands of sequences, each after its time bound
				if res.FailCount[rp.Class] >= 40 || len(res.FailCount) >= 12 {
					budget = true
					cmd.Process.Kill()
					break
				}
			} else if rp.I%997 == 0 {
				res.Sample(map[string]interface{}{"case": rp.I, "observed": "as specified (settled and pipelined)"})
			}
		}
		werr := cmd.Wait()
		if budget || (last+1 >= total && werr == nil) {
			break
		}
		// the child died while replaying case last+1
		crashes++
		tail := stderr.String()
		fatal := firstFatal(tail)
		if len(tail) > 3000 {
			tail = tail[len(tail)-3000:]
		}
		class := "c06/server-crash"
		if strings.Contains(tail, "harness:") && fatal == "(no fatal error line)" {
			hlib.Fatal("child failed on case %d: %s", last+1, tail)
		}
		res.Evaluations++
		res.Fail(class, "the process died while replaying the case: "+fatal, map[string]interface{}{"case": last + 1})
		start = last + 2
		if crashes > 20 {
			break
		}
	}
	res.Distinct = total
	res.SetExtra("replays", runs)
	res.SetExtra("child_crashes", crashes)
	res.SetExtra("stopped_on_failure_budget", budget)
	res.Emit()
}

func firstFatal(s string) string {
	for _, l := range strings.Split(s, "\n") {
		if strings.HasPrefix(l, "fatal error") || strings.HasPrefix(l, "panic") {
			return l
		}
	}
	return "(no fatal error line)"
}

func init() {
	hlib.Register("c06-replay", cmdC06Replay)
	hlib.Register("c06-child", cmdC06Child)
}
