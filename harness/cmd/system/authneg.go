package main

// Extension of C06: replay of GenAuthNegotiation behaviours (spec/AuthNegotiation.tla) - the authentication
// NEGOTIATION on one connection, real code on both sides.
//
//   peer    a raw harness-side peer writes hand-built capability maps (every kind of value for auth_user /
//           auth_token, absent, extra keys, a preset __qi_auth_state, an undecodable map) to a real
//           bus.StandAloneServer whose Authenticator (bus.Yes / bus.No / bus.Dictionary / a script) is
//           wrapped by a logger that can be held; the gate is probed with a call to the probe service.
//   client  bus.Authentication (the real client procedure) over an in-memory pipe, against the real server
//           (one or two client goroutines on the one connection) or against a FOREIGN server played by
//           the harness whose answers are the behaviour's commands (done / error / continue with a new
//           token / no state / ill-typed state / Error message / undecodable / Capability message / close).
//
// After every command both sides run to rest and the observation (answers received, Authenticator log,
// stream closed, probe executions, client outcome and tokens, requests pending at the foreign server) is
// compared with the specification's; at the end of a behaviour the gate is probed and compared with the
// specification's gate.  The replay runs in a child process with a journal and a failure budget.

import (
	"bufio"
	"bytes"
	"encoding/json"
	"fmt"
	"os"
	"os/exec"
	"strings"
	"sync"
	"time"

	"github.com/lugu/qiloop/bus"
	"github.com/lugu/qiloop/bus/net"
	"github.com/lugu/qiloop/bus/util"
	"github.com/lugu/qiloop/type/value"
	"verif/harness/hlib"
)

type anVal struct {
	K string `json:"k"`
	V string `json:"v"`
}

type anShape struct {
	U  anVal  `json:"u"`
	T  anVal  `json:"t"`
	X  string `json:"x"`
	St string `json:"st"`
}

type anArg struct {
	I   int     `json:"i"`
	Sh  anShape `json:"sh"`
	U   string  `json:"u"`
	T   string  `json:"t"`
	Ans struct {
		K  string `json:"k"`
		Nt string `json:"nt"`
	} `json:"ans"`
}

type anAsked struct {
	U  string `json:"u"`
	T  string `json:"t"`
	Ok bool   `json:"ok"`
}

type anCli struct {
	Ph  string `json:"ph"`
	Out string `json:"out"`
	N   int    `json:"n"`
	T   anVal  `json:"t"`
	Nt  anVal  `json:"nt"`
}

type anPend struct {
	Kind string `json:"kind"`
	U    anVal  `json:"u"`
	T    anVal  `json:"t"`
}

type anObs struct {
	Gate   bool      `json:"gate"`
	Closed bool      `json:"closed"`
	Asked  []anAsked `json:"asked"`
	Got    []string  `json:"got"`
	Nprobe int       `json:"nprobe"`
	Held   bool      `json:"held"`
	Cli    []anCli   `json:"cli"`
	Pend   []anPend  `json:"pend"`
}

type anStep struct {
	O       string  `json:"o"`
	A       anArg   `json:"a"`
	Post    anObs   `json:"post"`
	Allowed []anObs `json:"allowed"`
}

type anCase struct {
	Driver  string   `json:"driver"`
	Mode    string   `json:"mode"`
	Foreign bool     `json:"foreign"`
	Steps   []anStep `json:"steps"`
}

// ---------------------------------------------------------------------------
// values

func anValue(v anVal, role string) value.Value {
	switch v.K {
	case "str":
		return value.String(v.V)
	case "int":
		return value.Int(0)
	case "uint":
		return value.Uint(0)
	case "bool":
		return value.Bool(true)
	case "long":
		return value.Long(0)
	case "float":
		return value.Float(0)
	case "list":
		// a list holding the accepted credential
		if role == "u" {
			return value.List([]value.Value{value.String("alice")})
		}
		return value.List([]value.Value{value.String("secret")})
	case "raw":
		if role == "u" {
			return value.Raw([]byte("alice"))
		}
		return value.Raw([]byte("secret"))
	case "void":
		return value.Void()
	}
	return nil
}

func anPayload(sh anShape) []byte {
	m := bus.CapabilityMap{}
	if v := anValue(sh.U, "u"); v != nil {
		m[bus.KeyUser] = v
	}
	if v := anValue(sh.T, "t"); v != nil {
		m[bus.KeyToken] = v
	}
	switch sh.X {
	case "benign":
		m["ClientServerSocket"] = value.Bool(true)
		m["MessageFlags"] = value.Bool(true)
		m["verif_extra"] = value.String("x")
	case "newtok":
		m[bus.KeyNewToken] = value.String("secret")
	}
	switch sh.St {
	case "u3":
		m[bus.KeyState] = value.Uint(bus.StateDone)
	case "i3":
		m[bus.KeyState] = value.Int(int32(bus.StateDone))
	case "u2":
		m[bus.KeyState] = value.Uint(bus.StateContinue)
	}
	var b bytes.Buffer
	if sh.X == "garbage" {
		// a map that announces one more entry than it holds: the credentials decode, the map does not
		full := bus.CapabilityMap{}
		for k, v := range m {
			full[k] = v
		}
		bus.WriteCapabilityMap(full, &b)
		p := b.Bytes()
		n := uint32(p[0]) | uint32(p[1])<<8 | uint32(p[2])<<16 | uint32(p[3])<<24
		n++
		p[0], p[1], p[2], p[3] = byte(n), byte(n>>8), byte(n>>16), byte(n>>24)
		return append(p, 7, 0, 0, 0, 'a', 'u')
	}
	bus.WriteCapabilityMap(m, &b)
	return b.Bytes()
}

func anValOf(m bus.CapabilityMap, key string) anVal {
	v, ok := m[key]
	if !ok {
		return anVal{"abs", ""}
	}
	if v == nil {
		return anVal{"nil", ""}
	}
	if s, ok := v.(value.StringValue); ok {
		return anVal{"str", s.Value()}
	}
	return anVal{"other", v.Signature()}
}

// ---------------------------------------------------------------------------
// the Authenticator: the real ones, logged (logAuth), with a gate in front of the decision

type anHoldAuth struct {
	w       *world
	inner   bus.Authenticator
	script  []bool
	n       int
	mu      sync.Mutex
	hold    bool
	blocked bool
	rel     chan struct{}
}

func (a *anHoldAuth) Authenticate(user, token string) bool {
	a.mu.Lock()
	if a.hold {
		ch := a.rel
		a.blocked = true
		a.mu.Unlock()
		a.w.bump()
		<-ch
		a.mu.Lock()
		a.blocked = false
	}
	n := a.n
	a.n++
	a.mu.Unlock()
	defer a.w.bump()
	if a.inner != nil {
		return a.inner.Authenticate(user, token)
	}
	return a.script[n%len(a.script)]
}

func (a *anHoldAuth) setHold() {
	a.mu.Lock()
	a.hold = true
	a.rel = make(chan struct{})
	a.mu.Unlock()
}

func (a *anHoldAuth) release() {
	a.mu.Lock()
	if a.hold {
		a.hold = false
		close(a.rel)
	}
	a.mu.Unlock()
}

func (a *anHoldAuth) isBlocked() bool {
	a.mu.Lock()
	defer a.mu.Unlock()
	return a.blocked
}

func anNewAuth(w *world, mode string) (*anHoldAuth, *logAuth) {
	h := &anHoldAuth{w: w}
	switch mode {
	case "yes":
		h.inner = bus.Yes{}
	case "no":
		h.inner = bus.No{}
	case "dict":
		h.inner = bus.Dictionary(map[string]string{"alice": "secret"})
	case "dictempty":
		h.inner = bus.Dictionary(map[string]string{"alice": "secret", "": ""})
	default:
		h.script = []bool{false, true, false}
	}
	return h, &logAuth{inner: h}
}

// anLog: the Authenticator's log (logAuth appends when the decision returns; while the decision is held
// its mutex is taken, so the log is read from the copy kept here)
type anWorld struct {
	r    *rig
	hold *anHoldAuth
	log  *logAuth
	c    *hconn
	// foreign server
	foreign  bool
	w        *world
	cliS     *hStream
	srvS     *hStream
	ep       net.EndPoint
	reqs     []*net.Message // requests the foreign server has read and not answered (under w.mu)
	nreq     int            // requests read
	fclosed  bool
	clients  map[int]*anClient
	probeIDs uint32
}

type anClient struct {
	mu       sync.Mutex
	prefered bus.CapabilityMap
	running  bool
	ended    bool
	out      string
	errText  string
}

// settled: like rig.settledLocked, and a mail of service 0 whose Authenticator is held counts as rest.
func (a *anWorld) settledLocked() bool {
	r := a.r
	for _, c := range r.conns {
		if !c.srv.r.idleLocked() || !c.cli.r.idleLocked() {
			return false
		}
		e := r.rec.epc(c.srvEpID)
		if !e.rejected {
			if e.deliver != e.fw || e.fw != e.consumed {
				return false
			}
		}
		if !c.srv.r.closed && e.dispatch != c.cli.w.frames {
			return false
		}
		if c.raw {
			if !c.rdEOF && c.rdN != c.srv.w.frames {
				return false
			}
			if c.cli.r.closed && !c.rdEOF {
				return false
			}
			continue
		}
		ce := r.rec.epc(c.epID)
		if !c.cli.r.closed && ce.dispatch != c.srv.w.frames {
			return false
		}
	}
	for _, b := range r.rec.box {
		if b.recv == b.done {
			if b.tobox > b.recv {
				return false
			}
			continue
		}
		if b.recv != b.done+1 {
			return false
		}
		if b.svc == 0 && a.hold.isBlocked() {
			continue
		}
		return false
	}
	return true
}

func (a *anWorld) settle() bool {
	if a.foreign {
		return a.w.waitFor(tBound, func() bool {
			return a.fclosed || (a.srvS.r.idleLocked() && a.cliS.r.idleLocked())
		})
	}
	return a.r.w.waitFor(tBound, func() bool { return a.settledLocked() })
}

// ---------------------------------------------------------------------------
// observation

func anKind(m *net.Message, probeSvc uint32) string {
	h := m.Header
	if h.Service == 0 {
		switch h.Type {
		case net.Reply:
			cm, err := bus.ReadCapabilityMap(bytes.NewReader(m.Payload))
			if err != nil {
				return "undecodable"
			}
			st, ok := cm[bus.KeyState]
			if !ok {
				return "nostate"
			}
			if u, ok := st.(value.UintValue); ok {
				switch u.Value() {
				case bus.StateDone:
					return "done"
				case bus.StateError:
					return "error"
				case bus.StateContinue:
					return "cont"
				}
			}
			return "state:" + st.Signature()
		case net.Error:
			return "errmsg"
		}
		return "svc0:" + typeName[h.Type]
	}
	if h.Service == probeSvc {
		switch h.Type {
		case net.Reply:
			return "probeok"
		case net.Error:
			if respVal(m) == "auth" {
				return "notauth"
			}
			return "probeerr:" + respVal(m)
		}
	}
	return "other:" + typeName[h.Type]
}

// anCapsOfDone: what a "done" answer must hold: the server's own capabilities (DefaultCap) and the state,
// nothing of the client's map, no new token (the real server never issues one).
func anCapsOfDone(m *net.Message) string {
	cm, err := bus.ReadCapabilityMap(bytes.NewReader(m.Payload))
	if err != nil {
		return "undecodable"
	}
	want := bus.DefaultCap()
	want[bus.KeyState] = value.Uint(bus.StateDone)
	for k, v := range want {
		g, ok := cm[k]
		if !ok {
			return "missing " + k
		}
		var b1, b2 bytes.Buffer
		v.Write(&b1)
		g.Write(&b2)
		if !bytes.Equal(b1.Bytes(), b2.Bytes()) {
			return "differs " + k
		}
	}
	for k := range cm {
		if _, ok := want[k]; !ok {
			return "extra " + k
		}
	}
	return ""
}

func (a *anWorld) observe(nClients int) anObs {
	o := anObs{Asked: []anAsked{}, Got: []string{}, Cli: []anCli{}, Pend: []anPend{}}
	if !a.foreign {
		r := a.r
		r.w.mu.Lock()
		if a.c.raw {
			for _, m := range a.c.frames {
				o.Got = append(o.Got, anKind(m, r.svcID))
			}
			o.Closed = a.c.rdEOF
		} else {
			o.Closed = a.c.cli.r.closed
		}
		o.Nprobe = len(r.rec.execs)
		r.w.mu.Unlock()
		o.Held = a.hold.isBlocked()
		if !o.Held {
			for _, c := range a.log.log() {
				o.Asked = append(o.Asked, anAsked{c.User, c.Token, c.Ok})
			}
		} else {
			// logAuth's mutex is held by the blocked decision: the log cannot have changed since
			o.Asked = nil
		}
	} else {
		a.w.mu.Lock()
		o.Closed = a.fclosed
		for _, m := range a.reqs {
			p := anPend{Kind: "auth"}
			if m.Header.Type == net.Capability {
				p.Kind = "cap"
				p.U, p.T = anVal{"abs", ""}, anVal{"abs", ""}
			} else {
				cm, err := bus.ReadCapabilityMap(bytes.NewReader(m.Payload))
				if err != nil {
					p.Kind = "undecodable"
				}
				p.U, p.T = anValOf(cm, bus.KeyUser), anValOf(cm, bus.KeyToken)
			}
			o.Pend = append(o.Pend, p)
		}
		a.w.mu.Unlock()
	}
	for i := 1; i <= nClients; i++ {
		c := a.clients[i]
		x := anCli{Ph: "idle", T: anVal{"abs", ""}, Nt: anVal{"abs", ""}}
		if c != nil {
			c.mu.Lock()
			if c.ended {
				x.Ph, x.Out = "end", c.out
				x.T, x.Nt = anValOf(c.prefered, bus.KeyToken), anValOf(c.prefered, bus.KeyNewToken)
			} else if c.running {
				x.Ph = "run"
			}
			c.mu.Unlock()
		}
		o.Cli = append(o.Cli, x)
	}
	return o
}

// anOutcome maps the error of bus.Authentication to the outcome code of the specification.
func anOutcome(err error) string {
	if err == nil {
		return "ok"
	}
	s := err.Error()
	inner := func(x string) string {
		switch {
		case strings.Contains(x, "missing capability: timeout"):
			return "timeout"
		case strings.Contains(x, "read map") || strings.Contains(x, "capability map too long"):
			return "badcap"
		}
		return "closed"
	}
	switch {
	case strings.HasPrefix(s, "authentication failed: "):
		return inner(s)
	case s == "missing authentication state":
		return "nostate"
	case strings.HasPrefix(s, "authentication status error"):
		return "statetype"
	case s == "Authentication failed":
		return "refused"
	case strings.HasPrefix(s, "invalid state type"):
		return "invalidstate"
	case s == "missing authentication new token":
		return "nonewtoken"
	case s == "new token format error":
		return "newtokenformat"
	case strings.HasPrefix(s, "new token authentication failed: "):
		return inner(s) + "2"
	case s == "new token authentication dropped":
		return "dropped"
	case s == "new token authentication failed":
		return "refused2"
	}
	return "other:" + s
}

// ---------------------------------------------------------------------------
// comparison.  Phases of a client the harness cannot tell apart are compared as "run".

func anNormCli(c anCli) anCli {
	if c.Ph != "end" && c.Ph != "idle" {
		c.Ph = "run"
	}
	if c.Ph != "end" {
		c.T, c.Nt, c.Out = anVal{"abs", ""}, anVal{"abs", ""}, ""
	}
	c.N = 0
	return c
}

func anNorm(o anObs, final bool) anObs {
	n := o
	n.Gate = false // compared by the probe at the end of the behaviour
	n.Cli = nil
	for _, c := range o.Cli {
		n.Cli = append(n.Cli, anNormCli(c))
	}
	if n.Asked == nil {
		n.Asked = []anAsked{}
	}
	if n.Got == nil {
		n.Got = []string{}
	}
	if n.Pend == nil {
		n.Pend = []anPend{}
	}
	return n
}

func anSame(got anObs, exp anObs) bool {
	g, e := anNorm(got, false), anNorm(exp, false)
	if got.Asked == nil { // the log could not be read (decision held): not compared at this step
		g.Asked, e.Asked = nil, nil
	}
	return canon(g) == canon(e)
}

// anClassify names what differs (first difference wins); classes under authneg/gate/ are C06 verdicts.
func anClassify(cs *anCase, k int, got anObs, allowed []anObs) (string, string) {
	exp := allowed[0]
	st := cs.Steps[k]
	why := fmt.Sprintf("after command %d (%s): observed %s; the specification allows %s", k+1, st.O, canon(anNorm(got, false)), canon(allowed))
	// which request is answerable for a gate difference: the last authenticate before
	last := anShape{}
	haveLast := false
	for j := k; j >= 0; j-- {
		if cs.Steps[j].O == "auth" {
			last, haveLast = cs.Steps[j].A.Sh, true
			break
		}
	}
	cause := "refused-pair"
	if haveLast {
		wt := func(v anVal) bool { return v.K == "abs" || v.K == "str" }
		switch {
		case last.X == "garbage":
			cause = "undecodable-map"
		case !wt(last.U):
			cause = "user-of-kind-" + last.U.K
		case !wt(last.T):
			cause = "token-of-kind-" + last.T.K
		case last.St != "none":
			cause = "preset-state-entry"
		case last.X == "newtok":
			cause = "extra-new-token-entry"
		case last.U.K == "abs" || last.T.K == "abs":
			cause = "absent-credential"
		}
	}
	if got.Held || exp.Held {
		cause = "authenticator-still-deciding"
	}
	// 1. the Authenticator's log
	if got.Asked != nil && canon(got.Asked) != canon(anNorm(exp, false).Asked) {
		if len(got.Asked) > len(exp.Asked) {
			return "authneg/gate/authenticator-asked-about-a-pair-not-presented/" + cause, why
		}
		for i := range got.Asked {
			if i < len(exp.Asked) && (got.Asked[i].U != exp.Asked[i].U || got.Asked[i].T != exp.Asked[i].T) {
				return "authneg/gate/authenticator-asked-about-another-pair/" + cause, why
			}
		}
		for i := range got.Asked {
			if i < len(exp.Asked) && got.Asked[i].Ok != exp.Asked[i].Ok {
				if got.Asked[i].Ok {
					return "authneg/gate/authenticator-accepts-a-pair-it-does-not-list", why
				}
				return "authneg/authenticator/refuses-a-listed-pair", why
			}
		}
		return "authneg/authenticator/not-asked", why
	}
	// 2. probes
	if got.Nprobe > exp.Nprobe {
		return "authneg/gate/open-without-accepted-pair/" + cause, why
	}
	if got.Nprobe < exp.Nprobe {
		return "authneg/conformance/gate-closed-after-accepted-pair", why
	}
	// 3. the stream
	if exp.Closed && !got.Closed {
		return "authneg/gate/refused-connection-left-open", why
	}
	if got.Closed && !exp.Closed {
		return "authneg/conformance/connection-closed-unexpectedly", why
	}
	// 4. answers
	if canon(got.Got) != canon(anNorm(exp, false).Got) {
		for i, g := range got.Got {
			if i < len(exp.Got) && g == "done" && exp.Got[i] != "done" {
				return "authneg/answer/done-without-accepted-pair/" + cause, why
			}
		}
		return "authneg/answer/differs", why
	}
	// 5. the client
	for i := range got.Cli {
		if i >= len(exp.Cli) {
			break
		}
		g, e := anNormCli(got.Cli[i]), anNormCli(exp.Cli[i])
		if g.Ph != e.Ph {
			if g.Ph == "run" {
				return "authneg/client/does-not-end", why
			}
			return "authneg/client/ends-early", why
		}
		if g.Out != e.Out {
			if g.Out == "ok" {
				return "authneg/client/success-not-specified", why
			}
			if g.Out == "panic" {
				return "authneg/client/panic", why
			}
			return "authneg/client/outcome-differs", why
		}
		if g.T != e.T || g.Nt != e.Nt {
			return "authneg/client/token-kept-differs", why
		}
	}
	if canon(got.Pend) != canon(anNorm(exp, false).Pend) {
		if len(got.Pend) > len(exp.Pend) {
			return "authneg/client/request-not-specified", why
		}
		return "authneg/client/request-differs", why
	}
	if got.Held != exp.Held {
		return "authneg/authenticator/not-asked", why
	}
	return "authneg/conformance/observation-differs", why
}

// ---------------------------------------------------------------------------
// replay of one behaviour

func (a *anWorld) probe(tag string) {
	a.probeIDs++
	id := 1000 + a.probeIDs
	hdr := net.NewHeader(net.Call, a.r.svcID, 1, 100, id)
	msg := net.NewMessage(hdr, strPayload(tag))
	if a.c.raw {
		msg.Write(a.c.cli)
	} else {
		a.c.ep.Send(msg)
	}
}

func (a *anWorld) startClient(i int, again bool, user, token string) {
	c := a.clients[i]
	if c == nil || !again {
		c = &anClient{prefered: bus.ClientCap(user, token)}
		a.clients[i] = c
	}
	c.mu.Lock()
	c.running, c.ended, c.out = true, false, ""
	c.mu.Unlock()
	ep := a.ep
	frames := func() int {
		if a.foreign {
			return a.cliS.w.frames
		}
		return a.c.cli.w.frames
	}
	a.w.mu.Lock()
	before := frames()
	a.w.mu.Unlock()
	// the command is over when the client's first frame is written (or the procedure has ended)
	defer a.w.waitFor(tBound, func() bool {
		c.mu.Lock()
		defer c.mu.Unlock()
		return c.ended || frames() > before
	})
	go func() {
		var err error
		out := ""
		func() {
			defer func() {
				if r := recover(); r != nil {
					out = "panic"
					c.errText = fmt.Sprint(r)
				}
			}()
			err = bus.Authentication(ep, c.prefered)
			out = anOutcome(err)
		}()
		c.mu.Lock()
		c.running, c.ended, c.out = false, true, out
		if err != nil {
			c.errText = err.Error()
		}
		c.mu.Unlock()
		a.w.bump()
	}()
}

func (a *anWorld) foreignAnswer(k, nt string) {
	a.w.mu.Lock()
	if len(a.reqs) == 0 {
		a.w.mu.Unlock()
		return
	}
	req := a.reqs[0]
	a.reqs = a.reqs[1:]
	a.w.mu.Unlock()
	reply := func(m bus.CapabilityMap) {
		var b bytes.Buffer
		bus.WriteCapabilityMap(m, &b)
		hdr := req.Header
		hdr.Type = net.Reply
		msg := net.NewMessage(hdr, b.Bytes())
		msg.Write(a.srvS)
	}
	caps := func(st value.Value) bus.CapabilityMap {
		m := bus.DefaultCap()
		m["MetaObjectCache"] = value.Bool(true) // differs from the client's default: the documented merge would show
		m["verif_server_cap"] = value.Bool(true)
		if st != nil {
			m[bus.KeyState] = st
		}
		return m
	}
	switch k {
	case "done":
		reply(caps(value.Uint(bus.StateDone)))
	case "error":
		reply(caps(value.Uint(bus.StateError)))
	case "nostate":
		reply(caps(nil))
	case "statestr":
		reply(caps(value.String("3")))
	case "stateint3":
		reply(caps(value.Int(int32(bus.StateDone))))
	case "state7":
		reply(caps(value.Uint(7)))
	case "cont":
		m := caps(value.Uint(bus.StateContinue))
		switch nt {
		case "#abs":
		case "#int":
			m[bus.KeyNewToken] = value.Int(5)
		default:
			m[bus.KeyNewToken] = value.String(nt)
		}
		reply(m)
	case "errmsg":
		hdr := net.NewHeader(net.Error, req.Header.Service, req.Header.Object, req.Header.Action, req.Header.ID)
		msg := net.NewMessage(hdr, errorPayloadAN("verif: refused"))
		msg.Write(a.srvS)
	case "garbage":
		hdr := req.Header
		hdr.Type = net.Reply
		msg := net.NewMessage(hdr, []byte{3, 0, 0, 0, 9, 0, 0, 0, 'a', 'u'})
		msg.Write(a.srvS)
	case "capmsg":
		var b bytes.Buffer
		bus.WriteCapabilityMap(bus.DefaultCap(), &b)
		msg := net.NewMessage(net.NewHeader(net.Capability, 0, 0, 0, 2), b.Bytes())
		msg.Write(a.srvS)
	case "badcap":
		msg := net.NewMessage(net.NewHeader(net.Capability, 0, 0, 0, 2), []byte{3, 0, 0, 0, 9, 0, 0, 0, 'a', 'u'})
		msg.Write(a.srvS)
	case "silent":
	case "close":
		a.srvS.Close()
		a.w.mu.Lock()
		a.fclosed = true
		a.w.mu.Unlock()
	}
}

func errorPayloadAN(s string) []byte {
	var b bytes.Buffer
	value.String(s).Write(&b)
	return b.Bytes()
}

type anReport struct {
	I      int         `json:"i"`
	Class  string      `json:"class"`
	Detail string      `json:"detail"`
	Case   interface{} `json:"case,omitempty"`
	Notes  []string    `json:"notes,omitempty"` // behaviour of the code the specification predicts and names
}

func anReplay(cs *anCase) (class, detail string, notes []string) {
	a := &anWorld{foreign: cs.Foreign, clients: map[int]*anClient{}}
	nClients := 0
	if len(cs.Steps) > 0 {
		nClients = len(cs.Steps[0].Post.Cli)
	}
	if cs.Foreign {
		a.w = newWorld()
		a.cliS, a.srvS = newPipe(a.w, "f1")
		a.ep = net.NewEndPoint(a.cliS)
		go func() {
			for {
				m := new(net.Message)
				if err := m.Read(a.srvS); err != nil {
					a.w.mu.Lock()
					a.fclosed = true
					a.w.cond.Broadcast()
					a.w.mu.Unlock()
					return
				}
				a.w.mu.Lock()
				a.reqs = append(a.reqs, m)
				a.nreq++
				a.w.cond.Broadcast()
				a.w.mu.Unlock()
			}
		}()
		defer func() {
			a.ep.Close()
			a.srvS.Close()
		}()
	} else {
		w := newWorld()
		a.hold, a.log = anNewAuth(w, cs.Mode)
		r, err := newRig(a.log, []string{"1"}, false)
		if err != nil {
			hlib.Fatal("rig: %v", err)
		}
		a.hold.w = r.w
		if os.Getenv("AUTHNEG_DEBUG") != "" {
			r.rec.keep = true
		}
		a.r, a.w = r, r.w
		defer func() {
			a.hold.release()
			r.close()
		}()
		if cs.Driver == "peer" {
			a.c, err = r.connectRaw("c1")
		} else {
			a.c, err = r.connect("c1")
			if err == nil {
				a.ep = a.c.ep
			}
		}
		if err != nil {
			hlib.Fatal("connect: %v", err)
		}
	}
	slow := false // a step whose outcome needs the client's 1 s timer
	for k, st := range cs.Steps {
		switch st.O {
		case "auth":
			hdr := net.NewHeader(net.Call, 0, 0, 8, uint32(k+1))
			msg := net.NewMessage(hdr, anPayload(st.A.Sh))
			msg.Write(a.c.cli)
		case "probe":
			a.probe(fmt.Sprint("p", k+1))
		case "hold":
			a.hold.setHold()
		case "release":
			a.hold.release()
		case "start":
			a.startClient(st.A.I, false, st.A.U, st.A.T)
		case "again":
			a.startClient(st.A.I, true, "", "")
		case "answer":
			slow = st.A.Ans.K == "silent"
			a.foreignAnswer(st.A.Ans.K, st.A.Ans.Nt)
		}
		allowed := st.Allowed
		if len(allowed) == 0 {
			allowed = []anObs{st.Post}
		}
		// rest, then the observation; a client goroutine needs a moment after the last frame moved: the
		// observation is awaited (bounded) before it counts as different
		bound := 1500 * time.Millisecond
		if slow {
			bound = 4 * time.Second
		}
		deadline := time.Now().Add(bound)
		var got anObs
		match := false
		for {
			if !a.settle() {
				return "authneg/conformance/stuck", fmt.Sprintf("nothing comes to rest within %v after command %d (%s)", tBound, k+1, st.O), notes
			}
			got = a.observe(nClients)
			for i := range allowed {
				if anSame(got, allowed[i]) {
					match = true
				}
			}
			if match || time.Now().After(deadline) {
				break
			}
			time.Sleep(2 * time.Millisecond)
		}
		if !match {
			c, d := anClassify(cs, k, got, allowed)
			if os.Getenv("AUTHNEG_DEBUG") != "" && a.r != nil {
				a.r.w.mu.Lock()
				for _, e := range a.r.rec.evs {
					fmt.Fprintf(os.Stderr, "EV %d %s#%d %s %v\n", e.Seq, e.Comp, e.Inst, e.Ev, e.KV)
				}
				a.r.w.mu.Unlock()
			}
			for i := 1; i <= nClients; i++ {
				if cl := a.clients[i]; cl != nil && cl.errText != "" {
					d += fmt.Sprintf(" [client %d: %s]", i, cl.errText)
				}
			}
			return c, d, notes
		}
		for i := range got.Cli {
			if got.Cli[i].Out == "panic" {
				notes = append(notes, "authneg/client/nil-token-after-renewal-panics")
			}
			if got.Cli[i].Out == "ok" && got.Cli[i].T.K == "nil" {
				notes = append(notes, "authneg/client/nil-token-entry-after-renewal")
			}
			if cl := a.clients[i+1]; cs.Foreign && cl != nil && got.Cli[i].Out == "ok" && st.O == "answer" && st.A.Ans.K != "capmsg" {
				cl.mu.Lock()
				_, merged := cl.prefered["verif_server_cap"]
				cl.mu.Unlock()
				if !merged {
					notes = append(notes, "authneg/client/server-capabilities-not-merged-into-the-prefered-map")
				}
			}
		}
		// the answer map of an accepted authenticate
		if !cs.Foreign && a.c.raw {
			a.r.w.mu.Lock()
			for _, m := range a.c.frames {
				if anKind(m, a.r.svcID) == "done" {
					if d := anCapsOfDone(m); d != "" {
						a.r.w.mu.Unlock()
						return "authneg/answer/capabilities-of-done-differ", "the answer of an accepted authenticate is not the server's capabilities + state done: " + d, notes
					}
				}
			}
			a.r.w.mu.Unlock()
		}
	}
	// the gate at the end of the behaviour
	if !cs.Foreign && len(cs.Steps) > 0 {
		lastStep := cs.Steps[len(cs.Steps)-1]
		exp := lastStep.Post
		if len(lastStep.Allowed) == 1 {
			exp = lastStep.Allowed[0]
		}
		if len(lastStep.Allowed) <= 1 && !exp.Closed && lastStep.O != "probe" {
			before := 0
			a.r.w.mu.Lock()
			before = len(a.r.rec.execs)
			a.r.w.mu.Unlock()
			a.probe("final")
			a.settle()
			// the probe's answer (raw) or its execution tells
			a.r.w.waitFor(300*time.Millisecond, func() bool { return len(a.r.rec.execs) > before || a.c.rdEOF || a.c.cli.r.closed })
			a.r.w.mu.Lock()
			delivered := len(a.r.rec.execs) > before
			a.r.w.mu.Unlock()
			if delivered != exp.Gate {
				k := len(cs.Steps) - 1
				g := a.observe(nClients)
				fake := exp
				if delivered {
					g.Nprobe = exp.Nprobe + 1
				} else {
					g.Nprobe = exp.Nprobe - 1
					if g.Nprobe < 0 {
						g.Nprobe = 0
						fake.Nprobe = 1
					}
				}
				g.Asked = exp.Asked
				c, d := anClassify(cs, k, g, []anObs{fake})
				return c, fmt.Sprintf("the probe after the last command was delivered = %v, the specification's gate is open = %v; %s", delivered, exp.Gate, d), notes
			}
		}
	}
	return "", "", notes
}

// authneg-child <file> [start]: one JSON line per behaviour on stdout; journal on stderr.
func cmdAuthNegChild(args []string) {
	start := 0
	if len(args) > 1 {
		fmt.Sscan(args[1], &start)
	}
	tBound = 5 * time.Second
	out := bufio.NewWriter(os.Stdout)
	defer out.Flush()
	i := -1
	hlib.ReadLines(args[0], func(line []byte) {
		i++
		if i < start {
			return
		}
		var cs anCase
		if err := json.Unmarshal(line, &cs); err != nil {
			hlib.Fatal("bad case: %v", err)
		}
		fmt.Fprintf(os.Stderr, "JOURNAL %d\n", i)
		rp := anReport{I: i}
		rp.Class, rp.Detail, rp.Notes = anReplay(&cs)
		if rp.Class != "" {
			cmds := []interface{}{}
			for _, s := range cs.Steps {
				cmds = append(cmds, map[string]interface{}{"o": s.O, "a": s.A})
			}
			rp.Case = map[string]interface{}{"driver": cs.Driver, "authenticator": cs.Mode, "foreign": cs.Foreign, "commands": cmds}
		}
		b, _ := json.Marshal(rp)
		out.Write(b)
		out.WriteByte('\n')
		out.Flush()
	})
	fmt.Fprintf(os.Stderr, "JOURNAL done\n")
}

// authneg-replay <file>: runs authneg-child, restarting it after the behaviour that killed it or on which
// it made no progress.
func cmdAuthNegReplay(args []string) {
	var res hlib.Result
	total := 0
	hlib.ReadLines(args[0], func([]byte) { total++ })
	start := 0
	crashes := 0
	budget := false
	notes := map[string]int{}
	for start < total {
		cmd := exec.Command(os.Args[0], "authneg-child", args[0], fmt.Sprint(start))
		var stderr bytes.Buffer
		cmd.Stderr = &stderr
		stdout, err := cmd.StdoutPipe()
		if err != nil {
			hlib.Fatal("pipe: %v", err)
		}
		if err := cmd.Start(); err != nil {
			hlib.Fatal("start child: %v", err)
		}
		last := start - 1
		lines := make(chan []byte)
		go func() {
			sc := bufio.NewScanner(stdout)
			sc.Buffer(make([]byte, 1<<20), 1<<26)
			for sc.Scan() {
				lines <- append([]byte{}, sc.Bytes()...)
			}
			close(lines)
		}()
		hung := false
	loop:
		for {
			select {
			case b, ok := <-lines:
				if !ok {
					break loop
				}
				var rp anReport
				if json.Unmarshal(b, &rp) != nil {
					continue
				}
				last = rp.I
				res.Evaluations++
				for _, n := range rp.Notes {
					notes[n]++
				}
				if rp.Class != "" {
					res.Fail(rp.Class, rp.Detail, rp.Case)
					if res.FailCount[rp.Class] >= 25 || len(res.FailCount) >= 16 {
						budget = true
						cmd.Process.Kill()
						break loop
					}
				} else if rp.I%499 == 0 {
					res.Sample(map[string]interface{}{"behaviour": rp.I, "observed": "as specified after every command; gate at the end as specified"})
				}
			case <-time.After(60 * time.Second):
				// watchdog: one behaviour takes milliseconds
				hung = true
				cmd.Process.Kill()
				break loop
			}
		}
		werr := cmd.Wait()
		if budget || (!hung && last+1 >= total && werr == nil) {
			break
		}
		crashes++
		tail := stderr.String()
		fatal := firstFatal(tail)
		if len(tail) > 3000 {
			tail = tail[len(tail)-3000:]
		}
		if !hung && strings.Contains(tail, "harness:") && fatal == "(no fatal error line)" {
			hlib.Fatal("child failed on behaviour %d: %s", last+1, tail)
		}
		res.Evaluations++
		if hung {
			res.Fail("authneg/conformance/hang", "no progress for 60 s while replaying the behaviour", map[string]interface{}{"behaviour": last + 1})
		} else {
			res.Fail("authneg/gate/process-dies", "the process died while replaying the behaviour: "+fatal, map[string]interface{}{"behaviour": last + 1})
		}
		start = last + 2
		if crashes > 6 {
			budget = true
			break
		}
	}
	res.Distinct = total
	res.SetExtra("child_restarts", crashes)
	res.SetExtra("stopped_on_failure_budget", budget)
	res.SetExtra("notes", notes)
	res.Emit()
}

// authneg-state <file>: vectors of CapabilityMap.Authenticated() / channel.Authenticated(): one JSON line
// {"s": state value name, "done": bool} per vector (ReadsAsDone of the specification).
func cmdAuthNegState(args []string) {
	var res hlib.Result
	mk := map[string]value.Value{"u1": value.Uint(1), "u2": value.Uint(2), "u3": value.Uint(3), "i3": value.Int(3), "i2": value.Int(2),
		"s3": value.String("3"), "l3": value.Long(3), "u4": value.Uint(4), "b1": value.Bool(true)}
	hlib.ReadLines(args[0], func(line []byte) {
		var v struct {
			S    string `json:"s"`
			Done bool   `json:"done"`
		}
		if json.Unmarshal(line, &v) != nil {
			hlib.Fatal("bad vector")
		}
		res.Evaluations++
		m := bus.CapabilityMap{}
		if v.S != "none" {
			x, ok := mk[v.S]
			if !ok {
				hlib.Fatal("unknown state value %s", v.S)
			}
			m[bus.KeyState] = x
		}
		got := m.Authenticated()
		ch := bus.NewChannel(nil, m)
		got2 := ch.Authenticated()
		if got != v.Done || got2 != v.Done {
			class := "authneg/conformance/state-not-read-as-done"
			if got || got2 {
				class = "authneg/gate/state-" + v.S + "-reads-as-done"
			}
			res.Fail(class, fmt.Sprintf("__qi_auth_state = %s: CapabilityMap.Authenticated() = %v, channel.Authenticated() = %v, specification %v", v.S, got, got2, v.Done), v)
		}
		// SetAuthenticated opens, whatever was there
		ch.SetAuthenticated()
		if !ch.Authenticated() {
			res.Fail("authneg/conformance/set-authenticated-does-not-open", "SetAuthenticated() on state "+v.S+" leaves Authenticated() false", v)
		}
	})
	res.Distinct = res.Evaluations
	res.Emit()
}

// authneg-select: bus.SelectEndPoint (dial + channel.Authenticate) against a foreign server on a unix socket
// that answers by script: when the procedure gives up the client must close the connection (the server
// sees the end of the stream); when it succeeds the connection stays open.
func cmdAuthNegSelect(args []string) {
	var res hlib.Result
	scripts := [][]string{{"done"}, {"error"}, {"nostate"}, {"statestr"}, {"state7"}, {"cont:tokB", "done"}, {"cont:tokB", "error"},
		{"cont:tokB", "cont:tokC"}, {"cont:#abs"}, {"cont:#int"}, {"errmsg", "capmsg"}, {"errmsg", "badcap"}, {"garbage", "capmsg"}}
	for _, sc := range scripts {
		res.Evaluations++
		addr := util.NewUnixAddr()
		lis, err := net.Listen(addr)
		if err != nil {
			hlib.Fatal("listen %s: %v", addr, err)
		}
		eof := make(chan bool, 1)
		go func(sc []string) {
			st, err := lis.Accept()
			if err != nil {
				eof <- false
				return
			}
			a := &anWorld{foreign: true, w: newWorld()}
			a.srvS = nil
			k := 0
			for {
				m := new(net.Message)
				if err := m.Read(st); err != nil {
					eof <- true
					return
				}
				if k >= len(sc) {
					continue
				}
				parts := strings.SplitN(sc[k], ":", 2)
				nt := ""
				if len(parts) > 1 {
					nt = parts[1]
				}
				k++
				anAnswerOn(st, m, parts[0], nt)
			}
		}(sc)
		type out struct {
			err error
			ch  bus.Channel
		}
		done := make(chan out, 1)
		go func() {
			_, ch, err := bus.SelectEndPoint([]string{addr}, "alice", "secret")
			done <- out{err, ch}
		}()
		var o out
		select {
		case o = <-done:
		case <-time.After(10 * time.Second):
			res.Fail("authneg/client/does-not-end", fmt.Sprintf("SelectEndPoint does not return within 10 s against a server answering %v", sc), sc)
			lis.Close()
			continue
		}
		want := anSelectOutcome(sc)
		gotOK := o.err == nil
		if gotOK != (want == "ok") {
			res.Fail("authneg/client/outcome-differs", fmt.Sprintf("server answers %v: SelectEndPoint error = %v, the specification's outcome is %s", sc, o.err, want), sc)
		}
		if o.err != nil {
			select {
			case <-eof:
			case <-time.After(3 * time.Second):
				res.Fail("authneg/client/connection-left-open-after-giving-up", fmt.Sprintf("server answers %v: SelectEndPoint failed (%v) and the connection is still open after 3 s", sc, o.err), sc)
			}
		} else {
			select {
			case <-eof:
				res.Fail("authneg/client/connection-closed-after-success", fmt.Sprintf("server answers %v: the connection was closed", sc), sc)
			case <-time.After(50 * time.Millisecond):
			}
			o.ch.EndPoint().Close()
		}
		lis.Close()
	}
	res.Distinct = len(scripts)
	res.Emit()
}

// anSelectOutcome: the specification's outcome for the scripts above (AuthNegotiation.tla Evaluate / ToFallback)
func anSelectOutcome(sc []string) string {
	switch strings.Join(sc, ",") {
	case "done", "cont:tokB,done", "errmsg,capmsg", "garbage,capmsg":
		return "ok"
	}
	return "fail"
}

// anAnswerOn writes the foreign server's answer k to request req on stream st.
func anAnswerOn(st net.Stream, req *net.Message, k, nt string) {
	w := newWorld()
	cli, srv := newPipe(w, "x")
	a := &anWorld{foreign: true, w: w, cliS: cli, srvS: srv, reqs: []*net.Message{req}}
	a.foreignAnswer(k, nt)
	// what was written to the in-memory pipe goes to the real stream
	w.mu.Lock()
	b := append([]byte{}, cli.r.buf...)
	w.mu.Unlock()
	if len(b) > 0 {
		st.Write(b)
	}
}

func init() {
	hlib.Register("authneg-select", cmdAuthNegSelect)
	hlib.Register("authneg-replay", cmdAuthNegReplay)
	hlib.Register("authneg-child", cmdAuthNegChild)
	hlib.Register("authneg-state", cmdAuthNegState)
}
