package main

// C04, saturation seen on the wire.  A harness-owned connection (no bus.Client,
// no handler table: the harness writes frames and reads frames) parks one call
// in the method of the probe object, then writes - in ONE write - more calls
// and posts than the mailbox (10), the consumer goroutine (1) and the consumer
// queue of the connection (10) can hold, lets everything go and counts the
// frames it received per message id.  What System.tla states about the wire
// (FramesOwed, PostNoResponse, AtMostOneOutcome, OwnResult, ExecOnceIfOk,
// PostAtMostOnce) is evaluated on that count:
//
//   - every Call id gets exactly one frame: the Reply carrying the result for
//     its own argument (method ran exactly once) or the Error "consumer
//     blocked" of the drop step (method did not run);
//   - every Post id gets no frame at all, dropped or not, and ran at most once;
//   - no frame carries an id nobody used.
//
// The trace of a flood written one frame at a time is validated by TLC against
// TraceSystem.tla (c04rec.go, plan "flood"); this is the same statement for
// the burst, where the server's reader, consumer and mailbox goroutines really
// run against each other.

import (
	"bytes"
	"fmt"
	"math/rand"

	"github.com/lugu/qiloop/bus/net"
	"verif/harness/hlib"
)

type satReq struct {
	id   uint32
	post bool
	obj  string
	tag  string
}

func satRound(rng *rand.Rand, round int, res *hlib.Result) {
	r, err := newRig(newAuth("yes", nil), []string{"1", "2"}, true)
	if err != nil {
		hlib.Fatal("rig: %v", err)
	}
	defer r.close()
	conns := []string{"cA"}
	if round%2 == 1 {
		conns = append(conns, "cB") // two saturated connections of one object at a time
	}
	failed := false
	fail := func(class, detail string, c map[string]interface{}) {
		failed = true
		c["round"] = round
		c["connections"] = len(conns)
		res.Fail(class, detail, c)
	}
	for _, cn := range conns {
		c, err := r.connectRaw(cn)
		if err != nil {
			hlib.Fatal("connect: %v", err)
		}
		m := net.NewMessage(net.NewHeader(net.Call, 0, 0, 8, 1), capPayload("good"))
		m.Write(c.cli)
	}
	if !r.w.waitFor(tBound, func() bool { return r.settledLocked(nil, nil) }) {
		fail("c04/no-outcome", "authentication does not settle: "+r.dump(), map[string]interface{}{})
		return
	}
	// the slow call: parks in the method of object 1
	slow := satReq{id: 3, obj: "1", tag: "slow"}
	first := r.conns["cA"]
	sm := net.NewMessage(net.NewHeader(net.Call, r.svcID, r.objs["1"].id, 100, slow.id), strPayload(slow.tag))
	sm.Write(first.cli)
	if !r.w.waitFor(tBound, func() bool { return r.rec.gated["1"] }) {
		fail("c04/exec-missing", "the first call does not reach its method: "+r.dump(), map[string]interface{}{})
		return
	}
	// the burst
	reqs := map[string][]satReq{"cA": {slow}}
	total := 1
	for ci, cn := range conns {
		c := r.conns[cn]
		n := 32 + rng.Intn(40)
		var buf bytes.Buffer
		id := uint32(5 + 1000*ci)
		for j := 0; j < n; j++ {
			q := satReq{id: id, post: rng.Intn(5) < 2, obj: "1"}
			if rng.Intn(8) == 0 {
				q.obj = "2"
			}
			q.tag = fmt.Sprintf("%s_%d", cn, id)
			typ := uint8(net.Call)
			if q.post {
				typ = net.Post
			}
			m := net.NewMessage(net.NewHeader(typ, r.svcID, r.objs[q.obj].id, 100, q.id), strPayload(q.tag))
			m.Write(&buf)
			reqs[cn] = append(reqs[cn], q)
			id++
			total++
		}
		c.cli.Write(buf.Bytes())
	}
	res.Evaluations += total
	// every frame read and dispatched: what is dropped has been dropped (and answered) by now
	ok := r.w.waitFor(tBound, func() bool {
		for _, cn := range conns {
			c := r.conns[cn]
			if !c.srv.r.idleLocked() || r.rec.epc(c.srvEpID).dispatch != c.cli.w.frames {
				return false
			}
		}
		return true
	})
	if !ok {
		fail("c04/stuck", "the server does not read the burst: "+r.dump(), map[string]interface{}{})
		return
	}
	// let everything go
	r.gmu.Lock()
	r.gating = false
	for _, ch := range r.gates {
		select {
		case <-ch:
		default:
			close(ch)
		}
	}
	r.gmu.Unlock()
	// the parked method bodies have left their gates (no new gate is entered), then everything comes to rest
	settled := r.w.waitFor(tBound, func() bool { return !r.rec.gated["1"] && !r.rec.gated["2"] && r.settledLocked(nil, nil) })
	// ---- the count
	r.w.mu.Lock()
	execs := map[string]int{}
	for _, e := range r.rec.execs {
		execs[e.Tag]++
	}
	got := map[string]map[uint32][]*net.Message{}
	for _, cn := range conns {
		got[cn] = map[uint32][]*net.Message{}
		for _, m := range r.conns[cn].frames {
			got[cn][m.Header.ID] = append(got[cn][m.Header.ID], m)
		}
	}
	r.w.mu.Unlock()
	describe := func(ms []*net.Message) []string {
		out := []string{}
		for _, m := range ms {
			out = append(out, fmt.Sprintf("%s id=%d object=%d action=%d %q", typeName[m.Header.Type], m.Header.ID, m.Header.Object, m.Header.Action, respVal(m)))
		}
		return out
	}
	dropped, executed := 0, 0
	for _, cn := range conns {
		known := map[uint32]bool{1: true}
		for _, q := range reqs[cn] {
			known[q.id] = true
			fr := got[cn][q.id]
			c := map[string]interface{}{"connection": cn, "id": q.id, "post": q.post, "object": q.obj, "frames": describe(fr),
				"executions": execs[q.tag], "requests_on_connection": len(reqs[cn])}
			if execs[q.tag] > 1 {
				fail("c04/exec-more-than-once", fmt.Sprintf("request %s ran %d times", q.tag, execs[q.tag]), c)
			}
			executed += execs[q.tag]
			if q.post {
				if len(fr) > 0 {
					fail("c04/response-to-post", fmt.Sprintf("the peer received %d frame(s) carrying the id of a post", len(fr)), c)
				}
				continue
			}
			switch {
			case len(fr) == 0:
				if settled {
					fail("c04/no-outcome", fmt.Sprintf("call id %d was never answered", q.id), c)
				}
				continue
			case len(fr) > 1:
				fail("c04/call-answered-twice", fmt.Sprintf("the peer received %d frames for call id %d", len(fr), q.id), c)
				continue
			}
			m := fr[0]
			if m.Header.Service != r.svcID || m.Header.Object != r.objs[q.obj].id || m.Header.Action != 100 {
				fail("c04/outcome-differs", "the answer does not carry the header of the request", c)
				continue
			}
			switch {
			case m.Header.Type == net.Reply:
				if v := respVal(m); v != q.tag {
					fail("c04/outcome-of-other-call", fmt.Sprintf("call %s returned the result for %q", q.tag, v), c)
				} else if execs[q.tag] != 1 {
					fail("c04/exec-missing", fmt.Sprintf("call %s was answered with a result but ran %d times", q.tag, execs[q.tag]), c)
				}
			case m.Header.Type == net.Error && respVal(m) == "busy":
				dropped++
				if execs[q.tag] != 0 {
					fail("c04/exec-of-dropped-call", fmt.Sprintf("call %s was refused (consumer blocked) and ran all the same", q.tag), c)
				}
			default:
				fail("c04/outcome-differs", fmt.Sprintf("call %s: unexpected answer", q.tag), c)
			}
		}
		for id, fr := range got[cn] {
			if !known[id] {
				fail("c04/frame-owed-by-nobody", fmt.Sprintf("the peer received a frame with id %d, which it never used", id),
					map[string]interface{}{"connection": cn, "frames": describe(fr)})
			}
		}
	}
	if !settled {
		fail("c04/stuck", "the server does not come to rest after the release: "+r.dump(), map[string]interface{}{})
	}
	if dropped == 0 && !failed {
		// the burst is far above the capacities: a run without any dropped call does not exercise the drop step
		hlib.Fatal("saturation round %d dropped no call (%d requests, %d executed)", round, total, executed)
	}
	res.Sample(map[string]interface{}{"saturation_round": round, "connections": len(conns), "requests": total,
		"calls_refused_consumer_blocked": dropped, "executions": executed})
}

// c04-saturate <rounds>
func cmdC04Saturate(args []string) {
	n := 3
	if len(args) > 0 {
		fmt.Sscan(args[0], &n)
	}
	var res hlib.Result
	for i := 0; i < n; i++ {
		rng := rand.New(rand.NewSource(hlib.Seed()*7919 + int64(i)))
		satRound(rng, i, &res)
	}
	res.Distinct = n
	res.Emit()
}

func init() { hlib.Register("c04-saturate", cmdC04Saturate) }
