// Command system: conformance harness for C04 (System.tla), C06 (Server.tla)
// and C12 (SignalLock.tla + hostile sequences in a child process).
package main

import (
	"bytes"
	"context"
	"encoding/binary"
	"fmt"
	"io"
	"strings"
	"sync"
	"time"

	"github.com/lugu/qiloop/bus"
	"github.com/lugu/qiloop/bus/net"
	"github.com/lugu/qiloop/type/basic"
	"github.com/lugu/qiloop/type/value"
	"github.com/lugu/qiloop/vhook"
)

// ---------------------------------------------------------------------------
// world: one condition variable for "something moved" (stream activity, hook
// event, harness event).  Settling = waiting on it until a predicate holds.
// ---------------------------------------------------------------------------

type world struct {
	mu   sync.Mutex
	cond *sync.Cond
}

func newWorld() *world {
	w := &world{}
	w.cond = sync.NewCond(&w.mu)
	return w
}

// bump wakes every waiter.  Callers must NOT hold w.mu.
func (w *world) bump() {
	w.mu.Lock()
	w.cond.Broadcast()
	w.mu.Unlock()
}

// waitFor blocks until pred() (evaluated under w.mu) holds or d elapsed.
func (w *world) waitFor(d time.Duration, pred func() bool) bool {
	deadline := time.Now().Add(d)
	stop := make(chan struct{})
	defer close(stop)
	go func() { // periodic wake-up so that the deadline is noticed
		t := time.NewTicker(20 * time.Millisecond)
		defer t.Stop()
		for {
			select {
			case <-stop:
				return
			case <-t.C:
				w.bump()
			}
		}
	}()
	w.mu.Lock()
	defer w.mu.Unlock()
	for !pred() {
		if time.Now().After(deadline) {
			return false
		}
		w.cond.Wait()
	}
	return true
}

// ---------------------------------------------------------------------------
// Harness owned streams (net.Stream): an in-process duplex pipe with an
// unbounded buffer per direction whose state (bytes pending, reader blocked,
// frames written) is observable.  No socket, no timing.
// ---------------------------------------------------------------------------

type half struct {
	w       *world
	buf     []byte
	closed  bool
	waiting int // readers blocked in Read with an empty buffer
	frames  int // frames written (a Write carries whole frames here)
	lastID  uint32
	hdrs    []net.Header
	// failWrites: every Write towards this half fails (a peer that stopped reading, a broken pipe seen
	// by the writer only): nothing is buffered, the reading direction is not affected
	failWrites bool
}

type hStream struct {
	name string
	r, w *half // read from r, write to w
}

func newPipe(w *world, name string) (*hStream, *hStream) {
	a, b := &half{w: w}, &half{w: w}
	return &hStream{name + "/cli", a, b}, &hStream{name + "/srv", b, a}
}

func (s *hStream) Read(p []byte) (int, error) {
	h := s.r
	h.w.mu.Lock()
	defer h.w.mu.Unlock()
	for len(h.buf) == 0 && !h.closed {
		h.waiting++
		h.w.cond.Broadcast()
		h.w.cond.Wait()
		h.waiting--
	}
	if len(h.buf) == 0 {
		return 0, io.EOF
	}
	n := copy(p, h.buf)
	h.buf = h.buf[n:]
	h.w.cond.Broadcast()
	return n, nil
}

func (s *hStream) Write(p []byte) (int, error) {
	h := s.w
	h.w.mu.Lock()
	defer h.w.mu.Unlock()
	if h.closed {
		return 0, io.ErrClosedPipe
	}
	if h.failWrites {
		return 0, fmt.Errorf("write fault injected by the harness")
	}
	h.buf = append(h.buf, p...)
	// account the frames carried by this write
	q := p
	for len(q) >= net.HeaderSize && binary.BigEndian.Uint32(q[0:4]) == net.Magic {
		var hdr net.Header
		if hdr.Read(bytes.NewReader(q[:net.HeaderSize])) != nil {
			break
		}
		h.frames++
		h.lastID = hdr.ID
		h.hdrs = append(h.hdrs, hdr)
		n := net.HeaderSize + int(hdr.Size)
		if n > len(q) {
			break
		}
		q = q[n:]
	}
	h.w.cond.Broadcast()
	return len(p), nil
}

// Close closes both directions (like net.Conn.Close).
func (s *hStream) Close() error {
	s.r.w.mu.Lock()
	s.r.closed = true
	s.w.closed = true
	s.r.w.cond.Broadcast()
	s.r.w.mu.Unlock()
	return nil
}

func (s *hStream) String() string           { return "harness://" + s.name }
func (s *hStream) Context() context.Context { return context.Background() }

// idleLocked: everything written towards this reader was consumed and the reader
// waits for more (or the direction is closed).  Caller holds world.mu.
func (h *half) idleLocked() bool {
	return h.closed || (len(h.buf) == 0 && h.waiting > 0)
}

// hListener hands harness streams to the server's accept loop.
type hListener struct {
	ch     chan net.Stream
	closed chan struct{}
	once   sync.Once
}

func newListener() *hListener {
	return &hListener{ch: make(chan net.Stream), closed: make(chan struct{})}
}

func (l *hListener) Accept() (net.Stream, error) {
	select {
	case s := <-l.ch:
		return s, nil
	case <-l.closed:
		return nil, fmt.Errorf("listener closed")
	}
}

func (l *hListener) Close() error {
	l.once.Do(func() { close(l.closed) })
	return nil
}

// ---------------------------------------------------------------------------
// Recorder: sink of the vhook events (+ the harness's own events, which go
// through vhook.Emit too, so that everything shares one sequence counter).
// ---------------------------------------------------------------------------

type event struct {
	Seq  uint64
	Comp string
	Inst int
	Ev   string
	KV   map[string]interface{}
}

type epCount struct{ deliver, fw, consumed, dispatch int; rejected bool }
type boxCount struct {
	tobox, recv, done int
	svc, obj          uint32
}

type recorder struct {
	w      *world
	keep   bool
	evs    []event
	ep     map[int]*epCount  // endpoint instance -> counters
	box    map[int]*boxCount // mailbox instance -> counters
	made   []int             // endpoint instances in order of their first "make"
	gated  map[string]bool   // object name -> blocked in the harness gate
	execs  []execRec
	ndeliv map[int]map[int]int // endpoint -> slot -> deliveries
	gen    int
	ended  map[string]int // tag -> method bodies that returned
}

type execRec struct {
	Obj  string `json:"obj"`
	Tag  string `json:"tag"`
	Type string `json:"type"`
}

func newRecorder(w *world) *recorder {
	return &recorder{w: w, ep: map[int]*epCount{}, box: map[int]*boxCount{}, gated: map[string]bool{},
		ndeliv: map[int]map[int]int{}, ended: map[string]int{}}
}

func u32(v interface{}) uint32 {
	switch x := v.(type) {
	case uint32:
		return x
	case int:
		return uint32(x)
	case uint8:
		return uint32(x)
	case uint64:
		return uint32(x)
	}
	return 0
}

func (r *recorder) epc(i int) *epCount {
	c, ok := r.ep[i]
	if !ok {
		c = &epCount{}
		r.ep[i] = c
	}
	return c
}

// sink runs with vhook's lock held: it must not call into vhook.
func (r *recorder) sink(e vhook.Event) {
	kv := map[string]interface{}{}
	for i := 0; i+1 < len(e.KV); i += 2 {
		if k, ok := e.KV[i].(string); ok {
			kv[k] = e.KV[i+1]
		}
	}
	if e.Comp == "harness" {
		if g, _ := kv["rig"].(int); g != r.gen {
			return // an earlier rig still winding down
		}
	}
	r.w.mu.Lock()
	if r.keep {
		r.evs = append(r.evs, event{e.Seq, e.Comp, e.Inst, e.Ev, kv})
	}
	switch e.Comp {
	case "endpoint":
		switch e.Ev {
		case "make":
			if _, ok := r.ep[e.Inst]; !ok {
				r.epc(e.Inst)
				r.made = append(r.made, e.Inst)
			}
		case "dispatch":
			r.epc(e.Inst).dispatch++
		case "deliver":
			r.epc(e.Inst).deliver++
			m := r.ndeliv[e.Inst]
			if m == nil {
				m = map[int]int{}
				r.ndeliv[e.Inst] = m
			}
			if s, ok := kv["slot"].(int); ok {
				m[s]++
			}
		}
	case "server":
		switch e.Ev {
		case "fw":
			r.epc(e.Inst).fw++
		case "consumed":
			r.epc(e.Inst).consumed++
		case "reject":
			r.epc(e.Inst).rejected = true
		}
	case "service":
		if e.Ev == "tobox" {
			b, _ := kv["box"].(int)
			c, ok := r.box[b]
			if !ok {
				c = &boxCount{}
				r.box[b] = c
			}
			c.tobox++
			c.svc, c.obj = u32(kv["service"]), u32(kv["object"])
		}
	case "mailbox":
		c, ok := r.box[e.Inst]
		if !ok {
			// a mailbox of an earlier rig still finishing: every mail of this rig is announced by "tobox" first
			break
		}
		switch e.Ev {
		case "recv":
			c.recv++
			c.svc, c.obj = u32(kv["service"]), u32(kv["object"])
		case "done":
			c.done++
		}
	case "harness":
		switch e.Ev {
		case "exec_begin":
			r.execs = append(r.execs, execRec{kv["obj"].(string), kv["tag"].(string), ""})
		case "exec_end":
			r.ended[kv["tag"].(string)]++
		case "gate":
			r.gated[kv["obj"].(string)] = true
		case "ungate":
			r.gated[kv["obj"].(string)] = false
		}
	}
	r.w.cond.Broadcast()
	r.w.mu.Unlock()
}

// ---------------------------------------------------------------------------
// Frames
// ---------------------------------------------------------------------------

var typeCode = map[string]uint8{"call": net.Call, "reply": net.Reply, "error": net.Error, "post": net.Post,
	"event": net.Event, "capability": net.Capability, "cancel": net.Cancel, "cancelled": net.Cancelled}

var typeName = map[uint8]string{net.Call: "call", net.Reply: "reply", net.Error: "error", net.Post: "post",
	net.Event: "event", net.Capability: "capability", net.Cancel: "cancel", net.Cancelled: "cancelled"}

func strPayload(s string) []byte {
	var b bytes.Buffer
	basic.WriteString(s, &b)
	return b.Bytes()
}

// errClass maps the error strings of qiloop to the error classes of the specification.
func errClass(s string) string {
	switch {
	case strings.Contains(s, "Not authenticated"):
		return "auth"
	case strings.Contains(s, "Service not found"):
		return "nosvc"
	case strings.Contains(s, "Object not found"):
		return "noobj"
	case strings.Contains(s, "Action not found"):
		return "noact"
	case strings.Contains(s, "consumer blocked"):
		return "busy"
	case strings.Contains(s, "app:"):
		return "app"
	case strings.Contains(s, "cannot read"):
		return "badargs"
	case strings.Contains(s, "Remote connection closed"):
		return "closed"
	}
	return "other:" + s
}

// respVal decodes the payload of a response frame into the value of the specification.
func respVal(m *net.Message) string {
	switch m.Header.Type {
	case net.Reply:
		s, err := basic.ReadString(bytes.NewReader(m.Payload))
		if err != nil {
			return "undecodable"
		}
		return strings.TrimPrefix(s, "re:")
	case net.Error:
		v, err := value.NewValue(bytes.NewReader(m.Payload))
		if err != nil {
			return "undecodable"
		}
		if sv, ok := v.(value.StringValue); ok {
			return errClass(sv.Value())
		}
		return "undecodable"
	}
	return ""
}

// ---------------------------------------------------------------------------
// Authenticators with a call log
// ---------------------------------------------------------------------------

type authCall struct {
	User  string `json:"user"`
	Token string `json:"token"`
	Ok    bool   `json:"ok"`
}

type logAuth struct {
	mu     sync.Mutex
	inner  bus.Authenticator
	script []bool
	calls  []authCall
}

func (a *logAuth) Authenticate(user, token string) bool {
	a.mu.Lock()
	defer a.mu.Unlock()
	var ok bool
	if a.inner != nil {
		ok = a.inner.Authenticate(user, token)
	} else {
		ok = a.script[len(a.calls)%len(a.script)]
	}
	a.calls = append(a.calls, authCall{user, token, ok})
	return ok
}

func (a *logAuth) log() []authCall {
	a.mu.Lock()
	defer a.mu.Unlock()
	return append([]authCall{}, a.calls...)
}

func newAuth(mode string, script []bool) *logAuth {
	switch mode {
	case "yes":
		return &logAuth{inner: bus.Yes{}}
	case "no":
		return &logAuth{inner: bus.No{}}
	case "dict":
		return &logAuth{inner: bus.Dictionary(map[string]string{"alice": "secret"})}
	}
	return &logAuth{script: script}
}
