package main

// c04-ids <goroutines> <calls per goroutine>
//
// C04, Client.tla NextID: allocating the identifier of a call is ONE atomic step per bus.Client; calls
// of concurrent goroutines through one client therefore never share an identifier, and each caller gets
// the answer computed for its own arguments.  G goroutines call through one bus.Client over an
// in-memory connection to an echo peer that answers every call with its own payload and records the
// identifiers it sees.  Verdicts: no identifier twice, no caller receives another call's payload, every
// call returns.  The arguments come in several sizes (8 bytes mostly, now and then 300 bytes, 70 kB or
// 200 kB, each filled with a pattern of its own call): a request or an answer of any size is ONE frame
// between the frames of the other callers, in both directions.

import (
	"bytes"
	"encoding/binary"
	"fmt"
	"strconv"
	"sync"
	"sync/atomic"
	"time"

	"github.com/lugu/qiloop/bus"
	"github.com/lugu/qiloop/bus/net"
	"verif/harness/hlib"
)

func init() { hlib.Register("c04-ids", cmdC04IDs) }

func cmdC04IDs(args []string) {
	g, n := 16, 20000
	if len(args) > 0 {
		g, _ = strconv.Atoi(args[0])
	}
	if len(args) > 1 {
		n, _ = strconv.Atoi(args[1])
	}
	res := &hlib.Result{}
	cliEP, srvEP := net.Pipe()
	defer cliEP.Close()
	defer srvEP.Close()
	// the echo peer
	var seenMu sync.Mutex
	seen := make(map[uint32]int, g*n)
	dups := 0
	var firstDup uint32
	q := make(chan *net.Message, 4096)
	srvEP.MakeHandler(func(h *net.Header) (bool, bool) { return h.Type == net.Call, true }, q, nil)
	go func() {
		for m := range q {
			seenMu.Lock()
			seen[m.Header.ID]++
			if seen[m.Header.ID] == 2 {
				dups++
				if firstDup == 0 {
					firstDup = m.Header.ID
				}
			}
			seenMu.Unlock()
			hdr := m.Header
			hdr.Type = net.Reply
			srvEP.Send(net.NewMessage(hdr, m.Payload))
		}
	}()
	client := bus.NewClient(bus.NewChannel(cliEP, bus.DefaultCap()))
	var crossed, failed, hung int64
	var firstCross atomic.Value
	var wg sync.WaitGroup
	start := time.Now()
	for w := 0; w < g; w++ {
		wg.Add(1)
		go func(w int) {
			defer wg.Done()
			for i := 0; i < n; i++ {
				size := 8
				switch {
				case (i+w*17)%1024 == 1000:
					size = 200000
				case (i+w*17)%256 == 200:
					size = 70000
				case (i+w*17)%64 == 33:
					size = 300
				}
				buf := make([]byte, size)
				binary.LittleEndian.PutUint32(buf[0:4], uint32(w))
				binary.LittleEndian.PutUint32(buf[4:8], uint32(i))
				for k := 8; k < size; k++ {
					buf[k] = byte(k*7 + w*31 + i*13)
				}
				done := make(chan struct{})
				var out []byte
				var err error
				go func() {
					out, err = client.Call(nil, 7, 1, 100, buf)
					close(done)
				}()
				select {
				case <-done:
				case <-time.After(20 * time.Second):
					atomic.AddInt64(&hung, 1)
					return
				}
				if err != nil {
					atomic.AddInt64(&failed, 1)
					continue
				}
				if !bytes.Equal(out, buf) {
					if atomic.AddInt64(&crossed, 1) == 1 {
						h := out
						if len(h) > 16 {
							h = h[:16]
						}
						firstCross.Store(fmt.Sprintf("goroutine %d call %d (argument of %d bytes) received %d bytes starting % x", w, i, size, len(out), h))
					}
				}
			}
		}(w)
	}
	wg.Wait()
	res.Evaluations = g * n
	res.Distinct = g * n
	seenMu.Lock()
	d, fd := dups, firstDup
	seenMu.Unlock()
	cse := map[string]interface{}{"goroutines": g, "calls_each": n}
	if d > 0 {
		res.Fail("c04/message-id-used-twice", fmt.Sprintf("%d identifiers were used by two calls of one client (first: %d) in %d concurrent calls", d, fd, g*n), cse)
	}
	if c := atomic.LoadInt64(&crossed); c > 0 {
		res.Fail("c04/outcome-of-other-call", fmt.Sprintf("%d calls received another call's answer (%v)", c, firstCross.Load()), cse)
	}
	if h := atomic.LoadInt64(&hung); h > 0 {
		res.Fail("c04/no-outcome", fmt.Sprintf("%d goroutines had a call that did not return within 20 s", h), cse)
	}
	if f := atomic.LoadInt64(&failed); f > 0 {
		res.Fail("c04/call-failed-without-fault", fmt.Sprintf("%d calls returned an error on a healthy connection", f), cse)
	}
	res.SetExtra("wall_s", time.Since(start).Seconds())
	res.Sample(map[string]interface{}{"goroutines": g, "calls_each": n, "distinct_ids": len(seen)})
	res.Emit()
}
