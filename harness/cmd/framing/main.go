// Command framing: C01 conformance.
package main

// C01: replay of the Framing specification's vectors and behaviours.
//
//   L lines: header fields -> the 28 documented bytes (Message.Write must
//            produce them; Message.Read must recover them).  Whether one
//            write call carries the frame is C10's business, not C01's.
//   B lines: the bytes of the defective headers
//   T lines: scenario + chunk script + expected outcome

import (
	"bytes"
	"encoding/json"
	"fmt"
	"io"

	"github.com/lugu/qiloop/bus/net"
	"verif/harness/hlib"
)

type c01Layout struct {
	ID, Service, Object, Action []int
	Type, Flags, Size           int
	Bytes                       []int
}

type c01Exp struct {
	Decoded int
	Ends    []int
	Final   string
	Maxpos  int
}

type c01Test struct {
	Ps     []int
	Bad    string
	Cut    int
	Chunks [][]int
	Exp    c01Exp
}

func le32(b []int) uint32 {
	return uint32(b[0]) | uint32(b[1])<<8 | uint32(b[2])<<16 | uint32(b[3])<<24
}

func toBytes(b []int) []byte {
	r := make([]byte, len(b))
	for i, x := range b {
		r[i] = byte(x)
	}
	return r
}

// countingWriter records every Write call.
type countingWriter struct {
	calls [][]byte
}

func (w *countingWriter) Write(p []byte) (int, error) {
	w.calls = append(w.calls, append([]byte{}, p...))
	return len(p), nil
}

// shortWriter accepts at most max bytes per call; with failAt > 0 it fails once that many bytes arrived.
type shortWriter struct {
	max, failAt int
	got         []byte
}

func (w *shortWriter) Write(p []byte) (int, error) {
	if w.failAt > 0 && len(w.got) >= w.failAt {
		return 0, fmt.Errorf("write fault injected by the harness")
	}
	n := len(p)
	if n > w.max {
		n = w.max
	}
	if w.failAt > 0 && len(w.got)+n > w.failAt {
		n = w.failAt - len(w.got)
	}
	w.got = append(w.got, p[:n]...)
	// a short count with a nil error: what WriteN's retry loop is written for (transports that take what
	// fits and expect the caller to come back)
	return n, nil
}

// scriptReader serves a byte stream in the chunks of a script; when the
// script is exhausted the rest is served as requested and end-of-stream is
// reported by a separate (0, io.EOF).
type scriptReader struct {
	data   []byte
	pos    int
	script [][]int // [k, eof]
	carry  int     // rest of a chunk the caller's buffer could not take
	eof    bool
	reads  int
	maxReq int
}

func (r *scriptReader) Read(p []byte) (int, error) {
	r.reads++
	if r.eof || r.pos >= len(r.data) {
		r.eof = true
		return 0, io.EOF
	}
	if len(p) == 0 {
		return 0, nil
	}
	k, eof := len(p), false
	if r.carry > 0 {
		k = r.carry
	} else if len(r.script) > 0 {
		k, eof = r.script[0][0], r.script[0][1] == 1
		r.script = r.script[1:]
		if k == 0 { // scripted ReadEOF while data remains cannot happen; ignore
			k = len(p)
		}
	}
	if k > len(r.data)-r.pos {
		k = len(r.data) - r.pos
	}
	if k > len(p) {
		r.carry = k - len(p)
		k = len(p)
		eof = false
	} else {
		r.carry = 0
	}
	copy(p, r.data[r.pos:r.pos+k])
	r.pos += k
	if eof && r.pos == len(r.data) {
		r.eof = true
		return k, io.EOF
	}
	return k, nil
}

func c01Payload(i, n int) []byte {
	p := make([]byte, n)
	for j := range p {
		p[j] = byte((i*31 + j*7 + 3) % 251)
	}
	return p
}

func init() { hlib.Register("c01", cmdC01) }

func main() { hlib.Main() }

func cmdC01(args []string) {
	if len(args) < 1 {
		hlib.Fatal("c01 <vectors.ndjson>")
	}
	res := &hlib.Result{}
	bad := map[string][]byte{}
	var tests []c01Test
	var layouts []c01Layout
	hlib.ReadLines(args[0], func(line []byte) {
		var rec struct {
			K string
			V json.RawMessage
		}
		if err := json.Unmarshal(line, &rec); err != nil {
			hlib.Fatal("bad line: %v", err)
		}
		switch rec.K {
		case "L":
			var l c01Layout
			if err := json.Unmarshal(rec.V, &l); err != nil {
				hlib.Fatal("bad L: %v", err)
			}
			layouts = append(layouts, l)
		case "B":
			var b struct {
				Kind  string
				Bytes []int
			}
			if err := json.Unmarshal(rec.V, &b); err != nil {
				hlib.Fatal("bad B: %v", err)
			}
			bad[b.Kind] = toBytes(b.Bytes)
		case "T":
			var t c01Test
			if err := json.Unmarshal(rec.V, &t); err != nil {
				hlib.Fatal("bad T: %v", err)
			}
			tests = append(tests, t)
		}
	})
	distinct := map[string]bool{}
	for _, l := range layouts {
		c01DoLayout(res, l)
		distinct[fmt.Sprint("L", l.Bytes)] = true
	}
	base := bad["base"]
	delete(bad, "base")
	scaled := 0
	for n, t := range tests {
		c01DoTest(res, t, base, bad, true)
		distinct[fmt.Sprint("T", t.Ps, t.Bad, t.Cut, t.Chunks)] = true
		// the same behaviour at large payload sizes (every behaviour with a payload in the thorough tier, one in
		// three otherwise; the sizes walk the ladder with the behaviour's number and the seed)
		pay := false
		for _, p := range t.Ps {
			pay = pay || p > 0
		}
		if !pay || (!hlib.Thorough() && (n+int(hlib.Seed()))%3 != 0) {
			continue
		}
		big := make([]int, len(t.Ps))
		for i, p := range t.Ps {
			if p > 0 {
				big[i] = c01Ladder[(n/3+i*7+p+int(hlib.Seed()))%len(c01Ladder)]
			}
		}
		u := c01Scaled(t, big)
		c01DoTest(res, u, base, bad, hlib.Thorough() || scaled%4 == 0)
		distinct[fmt.Sprint("T", u.Ps, u.Bad, u.Cut, u.Chunks)] = true
		scaled++
	}
	res.SetExtra("behaviours_at_large_payload_sizes", scaled)
	c01WriteLadder(res, base)
	c01SizeBoundary(res, base)
	res.Distinct = len(distinct)
	res.SetExtra("layout_vectors", len(layouts))
	res.SetExtra("behaviours", len(tests))
	res.Emit()
}

func c01DoLayout(res *hlib.Result, l c01Layout) {
	res.Evaluations++
	size := l.Size
	pl := size
	big := size > 1<<20
	payload := c01Payload(1, pl)
	hdr := net.NewHeader(uint8(l.Type), le32(l.Service), le32(l.Object), le32(l.Action), le32(l.ID))
	hdr.Flags = uint8(l.Flags)
	msg := net.NewMessage(hdr, payload)
	var w countingWriter
	if err := msg.Write(&w); err != nil {
		res.Fail("framing/write-error", err.Error(), l)
		return
	}
	want := append(toBytes(l.Bytes), payload...)
	var all []byte
	for _, c := range w.calls {
		all = append(all, c...)
	}
	cse := l
	if big {
		cse.Bytes = l.Bytes
	}
	if !bytes.Equal(all, want) {
		n := len(all)
		if n > 40 {
			n = 40
		}
		res.Fail("framing/layout-bytes", fmt.Sprintf("wire bytes differ from the documented header: got % x", all[:n]), cse)
		return
	}
	// the same message into writers that take only a few bytes per Write call (io.Writer allows a short
	// write with a nil error only together with... nothing: WriteN's retry loop is what makes the whole
	// message arrive), and into one that fails half way (Write must report it)
	if !big {
		for _, k := range []int{1, 3, 27, 29} {
			sw := &shortWriter{max: k}
			if err := msg.Write(sw); err != nil {
				res.Fail("framing/short-write-error", fmt.Sprintf("a writer that accepts %d bytes per call: %v", k, err), cse)
				break
			}
			if !bytes.Equal(sw.got, want) {
				res.Fail("framing/short-write-bytes", fmt.Sprintf("a writer that accepts %d bytes per call received %d bytes, the message has %d", k, len(sw.got), len(want)), cse)
				break
			}
		}
		if len(want) > 10 {
			fw := &shortWriter{max: 7, failAt: len(want) / 2}
			if err := msg.Write(fw); err == nil {
				res.Fail("framing/write-fault-swallowed", "the writer failed half way and Message.Write reported success", cse)
			}
		}
	}
	// read back from the documented bytes
	var m2 net.Message
	r := &scriptReader{data: want}
	if err := m2.Read(r); err != nil {
		res.Fail("framing/read-documented-bytes", err.Error(), cse)
		return
	}
	if m2.Header != msg.Header || !bytes.Equal(m2.Payload, payload) {
		res.Fail("framing/read-mismatch", fmt.Sprintf("read back %+v", m2.Header), cse)
	}
	if r.pos != len(want) {
		res.Fail("framing/consumed", fmt.Sprintf("consumed %d of %d", r.pos, len(want)), cse)
	}
	if !big && res.Evaluations%500 == 1 && res.Evaluations < 1100 {
		res.Sample(map[string]interface{}{"kind": "layout", "fields": fmt.Sprint(l)})
	}
}

// c01DoTest runs one behaviour; for scenarios ending in a defective header
// every defect kind is tried with the same script.
// c01Scaled instantiates a behaviour of the specification at LARGE payload sizes: the abstract payload lengths
// t.Ps (a few bytes in the bounded model - Framing.tla quantifies over 0..limit) are replaced by the lengths
// big[i]; every position of the behaviour (chunk boundaries, the cut, the expected ends) is carried over by the
// monotone map "header bytes one to one, payload byte o of p to o*L/p".  The expected outcome is the
// specification's: it does not depend on the sizes, only on where the cut and the boundaries fall.
func c01Scaled(t c01Test, big []int) c01Test {
	absStart := make([]int, len(t.Ps)+1)
	conStart := make([]int, len(t.Ps)+1)
	for i, p := range t.Ps {
		absStart[i+1] = absStart[i] + 28 + p
		conStart[i+1] = conStart[i] + 28 + big[i]
	}
	at := func(x int) int {
		for i, p := range t.Ps {
			if x < absStart[i+1] {
				off := x - absStart[i]
				if off <= 28 {
					return conStart[i] + off
				}
				return conStart[i] + 28 + int(int64(off-28)*int64(big[i])/int64(p))
			}
		}
		return conStart[len(t.Ps)] + (x - absStart[len(t.Ps)])
	}
	u := c01Test{Ps: append([]int{}, big...), Bad: t.Bad, Cut: at(t.Cut)}
	pos := 0
	for _, c := range t.Chunks {
		if c[0] == 0 {
			u.Chunks = append(u.Chunks, []int{0, c[1]})
			continue
		}
		k := at(pos+c[0]) - at(pos)
		pos += c[0]
		u.Chunks = append(u.Chunks, []int{k, c[1]})
	}
	u.Exp = c01Exp{Decoded: t.Exp.Decoded, Final: t.Exp.Final, Maxpos: at(t.Exp.Maxpos)}
	for _, e := range t.Exp.Ends {
		u.Exp.Ends = append(u.Exp.Ends, at(e))
	}
	return u
}

// c01Ladder: payload sizes around the places where an implementation may change its strategy (a page, 64 KiB
// and its neighbours, a few hundred kilobytes), none of them a multiple of the others.
var c01Ladder = []int{4095, 4097, 65535, 65536, 65537, 100000, 131073, 196609, 70001, 300007}

func c01DoTest(res *hlib.Result, t c01Test, base []byte, bad map[string][]byte, withBuffer bool) {
	kinds := []string{"none"}
	if t.Bad != "none" {
		kinds = kinds[:0]
		for k := range bad {
			kinds = append(kinds, k)
		}
	}
	for _, kind := range kinds {
		// every behaviour twice: a fresh Message per read, and ONE Message value read into again and again
		// (what it held before must not matter: reading is a function of the bytes)
		var stream []byte
		var msgs []net.Message
		for i, pl := range t.Ps {
			h := net.NewHeader(net.Call, 1, 1, 0x01020304, 0x01020304)
			m := net.NewMessage(h, c01Payload(i, pl))
			msgs = append(msgs, m)
			var buf bytes.Buffer
			if err := m.Write(&buf); err != nil {
				res.Fail("framing/write-error", err.Error(), t)
				return
			}
			stream = append(stream, buf.Bytes()...)
		}
		if kind != "none" {
			stream = append(stream, bad[kind]...)
			stream = append(stream, 0xAA, 0xBB, 0xCC)
		}
		if t.Cut > len(stream) {
			res.Fail("framing/stream-length", fmt.Sprintf("stream is %d bytes, specification says >= %d", len(stream), t.Cut), t)
			return
		}
		stream = stream[:t.Cut]
		// and once more from a *bytes.Buffer holding the whole stream - a reader whose concrete type an
		// implementation may recognise (the library's own buffers are of that type)
		for variant := 0; variant < 3; variant++ {
			reuse, fromBuffer := variant == 1, variant == 2
			if fromBuffer && !withBuffer {
				continue
			}
			res.Evaluations++
			script := make([][]int, len(t.Chunks))
			copy(script, t.Chunks)
			r := &scriptReader{data: stream, script: script}
			var rd io.Reader = r
			pos := func() int { return r.pos }
			if fromBuffer {
				bb := bytes.NewBuffer(append(make([]byte, 0, len(stream)), stream...))
				rd = bb
				pos = func() int { return len(stream) - bb.Len() }
			}
			cse := map[string]interface{}{"ps": t.Ps, "bad": kind, "cut": t.Cut, "chunks": t.Chunks, "exp": t.Exp, "reused_message": reuse, "from_bytes_buffer": fromBuffer}
			decoded := 0
			final := ""
			var held [][]byte // what earlier reads returned: a later read must not change it
			var shared net.Message
			if reuse {
				// the recycled value starts with a payload longer than anything in the stream
				shared.Payload = bytes.Repeat([]byte{0xEE}, 64)
			}
			for {
				var fresh net.Message
				mp := &fresh
				if reuse {
					mp = &shared
				}
				err := mp.Read(rd)
				m := *mp
				if err == nil {
					if decoded >= len(msgs) {
						res.Fail("framing/extra-message", fmt.Sprintf("decoded a message that was never written: %+v", m.Header), cse)
						final = "extra"
						break
					}
					w := msgs[decoded]
					if m.Header != w.Header || !bytes.Equal(m.Payload, w.Payload) {
						res.Fail("framing/lossy", fmt.Sprintf("message %d read back different: %+v", decoded, m.Header), cse)
					}
					held = append(held, m.Payload)
					decoded++
					if decoded <= len(t.Exp.Ends) && pos() != t.Exp.Ends[decoded-1] {
						res.Fail("framing/consumed", fmt.Sprintf("after message %d the reader consumed %d bytes, expected %d", decoded, pos(), t.Exp.Ends[decoded-1]), cse)
					}
					continue
				}
				if err == io.EOF {
					final = "eof"
				} else {
					final = "error"
				}
				break
			}
			for i, h := range held {
				if i < len(msgs) && !bytes.Equal(h, msgs[i].Payload) {
					res.Fail("framing/earlier-payload-changed", fmt.Sprintf("the payload returned for message %d (%d bytes) was changed by a later read into the same Message", i, len(h)), cse)
					break
				}
			}
			if final == "extra" {
				continue
			}
			if decoded != t.Exp.Decoded {
				res.Fail("framing/decoded-count", fmt.Sprintf("decoded %d messages, expected %d (final %s)", decoded, t.Exp.Decoded, final), cse)
				continue
			}
			switch t.Exp.Final {
			case "eof":
				if final != "eof" {
					res.Fail("framing/clean-eof", "end of stream at a message boundary must be reported as io.EOF, got an error", cse)
				}
			case "trunc":
				if final != "error" {
					res.Fail("framing/truncated-accepted", "truncated stream reported as clean end of stream", cse)
				}
			case "reject":
				if final != "error" {
					res.Fail("framing/bad-header-accepted", "defective header ("+kind+") not refused", cse)
				}
			}
			if pos() > t.Exp.Maxpos {
				res.Fail("framing/overread", fmt.Sprintf("consumed %d bytes, at most %d allowed (defective header must be refused before the payload)", pos(), t.Exp.Maxpos), cse)
			}
			if (kind == "none" || kind == "oversize") && len(t.Chunks) > 3 {
				res.Sample(fmt.Sprint(cse))
			}
		}
	}
}

// c01WriteLadder: Message.Write at the large payload sizes into writers that take only part of what they are offered
// (a short count with a nil error: every byte must still arrive, in order, exactly once) and into one that fails
// half way (the failure must be reported).  The documented bytes are header ++ payload whatever the size.
func c01WriteLadder(res *hlib.Result, base []byte) {
	sizes := append([]int{65535, 65536, 1 << 20}, c01Ladder...)
	for i, size := range sizes {
		payload := c01Payload(i, size)
		h := net.NewHeader(net.Reply, 7, 9, 11, uint32(1000+i))
		msg := net.NewMessage(h, payload)
		var ref bytes.Buffer
		if err := msg.Write(&ref); err != nil {
			res.Fail("framing/write-error", err.Error(), size)
			continue
		}
		want := ref.Bytes()
		if len(want) != 28+size || !bytes.Equal(want[28:], payload) || !bytes.Equal(want[:4], base[:4]) {
			res.Fail("framing/layout-bytes", fmt.Sprintf("a message with a payload of %d bytes is written as %d bytes / another payload", size, len(want)), size)
			continue
		}
		for _, max := range []int{4096, 65536, size/2 + 1, 1 << 30} {
			res.Evaluations++
			sw := &shortWriter{max: max}
			if err := msg.Write(sw); err != nil {
				res.Fail("framing/short-write-error", fmt.Sprintf("payload %d, a writer that accepts %d bytes per call: %v", size, max, err), size)
				break
			}
			if !bytes.Equal(sw.got, want) {
				res.Fail("framing/short-write-bytes", fmt.Sprintf("payload %d: a writer that accepts %d bytes per call received %d bytes, the message has %d (first difference at %d)",
					size, max, len(sw.got), len(want), firstDiffBytes(sw.got, want)), size)
				break
			}
		}
		res.Evaluations++
		fw := &shortWriter{max: 1 << 30, failAt: 28 + size/2}
		if err := msg.Write(fw); err == nil {
			res.Fail("framing/write-fault-swallowed", fmt.Sprintf("payload %d: the writer failed half way and Message.Write reported success", size), size)
		}
		// and read back what was written, then once more into the same Message after a smaller one
		var m1 net.Message
		if err := m1.Read(bytes.NewReader(want)); err != nil || m1.Header != msg.Header || !bytes.Equal(m1.Payload, payload) {
			res.Fail("framing/lossy", fmt.Sprintf("payload %d: written message does not read back (%v)", size, err), size)
		}
	}
}

func firstDiffBytes(a, b []byte) int {
	n := len(a)
	if len(b) < n {
		n = len(b)
	}
	for i := 0; i < n; i++ {
		if a[i] != b[i] {
			return i
		}
	}
	return n
}

// c01SizeBoundary: payload sizes limit-1, limit (accepted) and limit+1
// (refused after the header), under three chunk patterns.
func c01SizeBoundary(res *hlib.Result, base []byte) {
	limit := int(net.MaxPayloadSize)
	for _, size := range []int{limit - 1, limit, limit + 1} {
		for _, pat := range [][][]int{nil, {{1, 0}, {27, 0}, {1, 0}}, {{28, 0}, {4096, 0}, {1, 0}}} {
			res.Evaluations++
			hdr := append([]byte{}, base...)
			hdr[8], hdr[9], hdr[10], hdr[11] = byte(size), byte(size>>8), byte(size>>16), byte(size>>24)
			stream := append(hdr, make([]byte, size)...)
			for i := 28; i < len(stream); i += 4099 {
				stream[i] = byte(i)
			}
			r := &scriptReader{data: stream, script: pat}
			var m net.Message
			err := m.Read(r)
			cse := map[string]interface{}{"size": size, "pattern": pat}
			if size <= limit {
				if err != nil {
					res.Fail("framing/limit-refused", fmt.Sprintf("payload of %d bytes (<= limit) refused: %v", size, err), cse)
				} else if !bytes.Equal(m.Payload, stream[28:]) || r.pos != len(stream) {
					res.Fail("framing/lossy", "large payload read back different", cse)
				}
			} else {
				if err == nil {
					res.Fail("framing/bad-header-accepted", "over-limit size accepted", cse)
				}
				if r.pos > 28 {
					res.Fail("framing/overread", fmt.Sprintf("over-limit header: %d bytes consumed", r.pos), cse)
				}
			}
		}
	}
}
