// Command signal: conformance harness of C13 (signals) and C14 (properties).
//
// Sub-commands (each prints one hlib.Result):
//
//	c14-replay <file>   replay the behaviours exported by GenProperty on real objects
//	c14-gated  <file>   force the schedules exported by GenPropertySteps with the
//	                    gates prop.{set,update}.{validate,save,notify}
//	c14-churn  <file>   force the schedules with a changing subscriber set (snapshot + one send
//	                    per subscriber, gates signal.update.send / register / unregister)
//	c14-record <out>    record concurrent histories (inv/res/ev) for TraceProperty
//	c13-*               see signal.go
package main

import (
	"io"
	"log"

	"verif/harness/hlib"
)

func main() {
	// qiloop logs expected errors ("failed to unregister ...") with the standard
	// logger; stdout must stay one JSON document and stderr readable.
	log.SetOutput(io.Discard)
	hlib.Main()
}
