package main

// C14 (c): randomised concurrent histories for TraceProperty.tla.
//
// Per history: a fresh Bomb object, 2-3 remote clients (own connections), 1-2
// goroutines of the service using the generated Update<Prop> helper and three
// subscribers on their own connections: s1 stays subscribed through the
// generated Subscribe<Prop> channel; s2 and s3 are raw subscribers
// (registerEvent / unregisterEvent, events read from a tap inside the
// connection's dispatch) that subscribe, unsubscribe and abruptly disconnect at
// random moments.  Every call is logged as inv/res, every received value as ev,
// a disconnection as close (before the connection is closed) and gone (from the
// hook event `remove` of that user, emitted under signalsMutex), all stamped by
// one mutex-protected log (the order of the file is the real-time order).
// Random pauses at the validate/save/notify gates and before every single send
// of an emission (signal.update.send) widen the windows.

import (
	"math/rand"
	"os"
	"runtime"
	"strconv"
	"sync"
	"sync/atomic"
	"time"

	"github.com/lugu/qiloop/type/value"
	"github.com/lugu/qiloop/vhook"
	"verif/harness/hlib"
)

type histLog struct {
	mu sync.Mutex
	tl *traceLog
	n  int
}

func (h *histLog) put(v map[string]interface{}) {
	h.mu.Lock()
	h.tl.put(v)
	h.n++
	h.mu.Unlock()
}

// churner is a raw subscriber whose events are logged by pump (called by a
// poller and at the synchronisation points).
type churner struct {
	rawSub
	mu   sync.Mutex
	log  *histLog
	gone chan struct{}
	dead bool
}

func (c *churner) pump() {
	c.mu.Lock()
	if c.c != nil && c.tap != nil {
		for _, p := range c.tap.drain() {
			c.log.put(map[string]interface{}{"k": "ev", "s": c.name, "bytes": ints(p)})
		}
	}
	c.mu.Unlock()
}

func (c *churner) subscribe(id uint32) {
	c.log.put(map[string]interface{}{"k": "inv", "c": c.name, "op": opRec("sub", 0, "", c.name)})
	err := c.register(id)
	c.log.put(map[string]interface{}{"k": "res", "c": c.name, "r": retRec(errRet(err))})
	if err != nil {
		c.dead = true // a failed registration is a result TraceProperty does not explain
		return
	}
	c.reg = true
}

func (c *churner) unsubscribe(id uint32) {
	c.log.put(map[string]interface{}{"k": "inv", "c": c.name, "op": opRec("unsub", 0, "", c.name)})
	err := c.unregister(id)
	c.log.put(map[string]interface{}{"k": "res", "c": c.name, "r": retRec(errRet(err))})
	if err != nil {
		c.dead = true
		return
	}
	c.reg = false
}

// disconnect closes the connection abruptly and waits for the server to forget
// the registration (the sink logs "gone").
func (c *churner) disconnect(closing *sync.Map) {
	c.pump()
	c.gone = make(chan struct{})
	closing.Store(c.uid, c)
	c.log.put(map[string]interface{}{"k": "close", "s": c.name})
	c.mu.Lock()
	c.tap.close()
	c.drop()
	c.mu.Unlock()
	c.reg = false
	select {
	case <-c.gone:
	case <-time.After(TBound):
		c.dead = true // stays "closing" in the trace: no further move
	}
	closing.Delete(c.uid)
}

var recWrong = []struct {
	kind, sig string
	bytes     []byte
}{
	{"s", "s", []byte{4, 0, 0, 0, 97, 98, 99, 100}},
	{"I", "I", []byte{5, 0, 0, 0}},
	{"l", "l", []byte{5, 0, 0, 0, 0, 0, 0, 0}},
	{"c", "c", []byte{5}},
	{"li", "[i]", []byte{1, 0, 0, 0, 7, 0, 0, 0}},
}

func c14Record(args []string) {
	if len(args) < 2 {
		hlib.Fatal("usage: c14-record <trace-out> <histories>")
	}
	f, err := os.Create(args[0])
	if err != nil {
		hlib.Fatal("create: %v", err)
	}
	defer f.Close()
	rounds, _ := strconv.Atoi(args[1])
	seed := hlib.Seed()
	w := newWorld()
	log := &histLog{tl: &traceLog{f}}
	clients := []*conn{w.dial(), w.dial(), w.dial()}
	subConns := map[string]*conn{"s1": w.dial()}
	churners := []*churner{{rawSub: rawSub{name: "s2"}, log: log}, {rawSub: rawSub{name: "s3"}, log: log}}
	var closing sync.Map // uid -> *churner being disconnected
	vhook.SetSink(func(e vhook.Event) {
		if e.Comp == "signal" && e.Ev == "remove" {
			if u, ok := kvGet(e.KV, "user").(uint64); ok {
				if c, ok := closing.Load(u); ok {
					ch := c.(*churner)
					log.put(map[string]interface{}{"k": "gone", "s": ch.name})
					close(ch.gone)
				}
			}
		}
	})
	defer vhook.SetSink(nil)
	var nextUID uint64 = 7000
	moves, closes := 0, 0
	res := &hlib.Result{}
	// random pauses at the gates
	var gateRng uint64 = uint64(seed)*2654435761 + 1
	pause := func(kv ...interface{}) {
		x := atomic.AddUint64(&gateRng, 0x9E3779B97F4A7C15)
		x ^= x >> 31
		switch x % 4 {
		case 0:
			runtime.Gosched()
		case 1:
			time.Sleep(time.Duration(x>>8%200) * time.Microsecond)
		}
	}
	for _, p := range gatePoints {
		vhook.SetGate(p, pause)
	}
	// between two sends of one emission: sometimes long enough for a
	// (un)registration or a disconnection to land
	vhook.SetGate("signal.update.send", func(kv ...interface{}) {
		x := atomic.AddUint64(&gateRng, 0x9E3779B97F4A7C15)
		x ^= x >> 29
		switch x % 4 {
		case 0:
			runtime.Gosched()
		case 1:
			time.Sleep(time.Duration(x>>8%150) * time.Microsecond)
		case 2:
			time.Sleep(time.Duration(200+x>>8%600) * time.Microsecond)
		}
	})
	var nextVal int32
	var movesA, closesA int32
	ops, lost := 0, 0
	for r := 0; r < rounds; r++ {
		id, impl := w.addBomb()
		rng := rand.New(rand.NewSource(seed*1000003 + int64(r)))
		subs := map[string]*subscriber{}
		for _, n := range []string{"s1"} {
			c := subConns[n]
			s := &subscriber{name: n, conn: c, bomb: c.bomb(w, id)}
			s.tap = c.tap(w.sid, id, delayID)
			name := n
			s.onEv = func(v int32) {
				log.put(map[string]interface{}{"k": "ev", "s": name, "bytes": ints(le32(v))})
			}
			log.put(map[string]interface{}{"k": "inv", "c": n, "op": opRec("sub", 0, "", n)})
			if err := s.subscribe(); err != nil {
				hlib.Fatal("subscribe: %v", err)
			}
			log.put(map[string]interface{}{"k": "res", "c": n, "r": retRec(retJ{})})
			subs[n] = s
		}
		// the raw subscribers: registered now (in a random order relative to each
		// other) or joining later
		order := []int{0, 1}
		if rng.Intn(2) == 0 {
			order = []int{1, 0}
		}
		for _, i := range order {
			ch := churners[i]
			nextUID++
			ch.dead = false
			ch.mu.Lock()
			ch.attach(w, id, nextUID)
			ch.mu.Unlock()
			if rng.Intn(4) > 0 {
				ch.subscribe(id)
			}
		}
		nClients := 2 + rng.Intn(2)
		nUpd := 1 + rng.Intn(2)
		perClient := 3 + rng.Intn(4)
		var wg sync.WaitGroup
		var cwg sync.WaitGroup
		nextVal = 9 // written values start at 10: never the int32 (5) a wrongly-typed value converts to
		stopPoll := make(chan struct{})
		polled := make(chan struct{})
		go func() {
			defer close(polled)
			for {
				select {
				case <-stopPoll:
					return
				case <-time.After(100 * time.Microsecond):
					for _, ch := range churners {
						ch.pump()
					}
				}
			}
		}()
		for _, ch := range churners {
			cwg.Add(1)
			go func(ch *churner, crng *rand.Rand) {
				defer cwg.Done()
				n := crng.Intn(4)
				for k := 0; k < n && !ch.dead; k++ {
					time.Sleep(time.Duration(crng.Intn(700)) * time.Microsecond)
					switch {
					case !ch.reg:
						ch.subscribe(id)
					case crng.Intn(3) == 0:
						ch.disconnect(&closing)
						if !ch.dead {
							uid := atomic.AddUint64(&nextUID, 1)
							ch.mu.Lock()
							ch.attach(w, id, uid)
							ch.mu.Unlock()
						}
						atomic.AddInt32(&closesA, 1)
					default:
						ch.unsubscribe(id)
					}
					atomic.AddInt32(&movesA, 1)
				}
			}(ch, rand.New(rand.NewSource(rng.Int63())))
		}
		for ci := 0; ci < nClients; ci++ {
			wg.Add(1)
			go func(ci int, crng *rand.Rand) {
				defer wg.Done()
				name := "c" + strconv.Itoa(ci+1)
				bomb := clients[ci].bomb(w, id)
				for k := 0; k < perClient; k++ {
					x := crng.Intn(100)
					switch {
					case x < 35:
						log.put(map[string]interface{}{"k": "inv", "c": name, "op": opRec("get", 0, "", "")})
						rr, _ := genericGet(bomb)
						log.put(map[string]interface{}{"k": "res", "c": name, "r": retRec(rr)})
					case x < 70:
						n := int(atomic.AddInt32(&nextVal, 1))
						log.put(map[string]interface{}{"k": "inv", "c": name, "op": opRec("set", n, "", "")})
						e := bomb.SetDelay(int32(n))
						log.put(map[string]interface{}{"k": "res", "c": name, "r": retRec(errRet(e))})
					case x < 82:
						n := -int(atomic.AddInt32(&nextVal, 1))
						log.put(map[string]interface{}{"k": "inv", "c": name, "op": opRec("set", n, "", "")})
						e := bomb.SetDelay(int32(n))
						log.put(map[string]interface{}{"k": "res", "c": name, "r": retRec(errRet(e))})
					case x < 95:
						wv := recWrong[crng.Intn(len(recWrong))]
						log.put(map[string]interface{}{"k": "inv", "c": name, "op": opRec("setwrong", 0, wv.kind, "")})
						e := bomb.SetProperty(value.String("delay"), value.Opaque(wv.sig, wv.bytes))
						log.put(map[string]interface{}{"k": "res", "c": name, "r": retRec(errRet(e))})
					default:
						log.put(map[string]interface{}{"k": "inv", "c": name, "op": opRec("setunknown", 0, "", "")})
						e := bomb.SetProperty(value.String("nope"), value.Opaque("i", le32(1)))
						log.put(map[string]interface{}{"k": "res", "c": name, "r": retRec(errRet(e))})
					}
				}
			}(ci, rand.New(rand.NewSource(rng.Int63())))
		}
		for ui := 0; ui < nUpd; ui++ {
			wg.Add(1)
			go func(ui int, crng *rand.Rand) {
				defer wg.Done()
				name := "u" + strconv.Itoa(ui+1)
				for k := 0; k < perClient; k++ {
					n := int(atomic.AddInt32(&nextVal, 1))
					if crng.Intn(5) == 0 {
						n = -n
					}
					log.put(map[string]interface{}{"k": "inv", "c": name, "op": opRec("update", n, "", "")})
					e := impl.helper.UpdateDelay(int32(n))
					log.put(map[string]interface{}{"k": "res", "c": name, "r": retRec(errRet(e))})
				}
			}(ui, rand.New(rand.NewSource(rng.Int63())))
		}
		wg.Wait()
		cwg.Wait()
		close(stopPoll)
		<-polled
		ops += (nClients + nUpd) * perClient
		// every event sent so far is on the connection once the fence returns;
		// give the generated channel T_BOUND to hand them over
		for _, s := range subs {
			if err := s.fence(); err != nil {
				hlib.Fatal("fence: %v", err)
			}
			raw := s.tap.drain()
			g := s.takeGen(len(raw))
			if len(g) < len(raw) {
				lost++
			}
		}
		for _, ch := range churners {
			if ch.c != nil && !ch.dead {
				if _, err := ch.aux.IsStatsEnabled(); err != nil {
					hlib.Fatal("fence %s: %v", ch.name, err)
				}
				ch.pump()
			}
		}
		log.put(map[string]interface{}{"k": "end"})
		for _, s := range subs {
			s.unsubscribe()
			s.tap.close()
		}
		for _, ch := range churners {
			if ch.c != nil {
				if ch.reg {
					ch.unregister(id)
					ch.reg = false
				}
				ch.mu.Lock()
				ch.tap.close()
				ch.tap = nil
				ch.mu.Unlock()
			}
		}
		log.put(map[string]interface{}{"k": "reset"})
		w.service.Remove(id)
	}
	for _, p := range gatePoints {
		vhook.SetGate(p, nil)
	}
	vhook.SetGate("signal.update.send", nil)
	moves, closes = int(atomic.LoadInt32(&movesA)), int(atomic.LoadInt32(&closesA))
	res.SetExtra("c14_record_subscriber_moves", moves)
	res.SetExtra("c14_record_disconnections", closes)
	res.Evaluations = rounds
	res.Distinct = rounds
	res.SetExtra("c14_record_ops", ops)
	res.SetExtra("c14_record_lines", log.n)
	res.SetExtra("c14_record_channel_short", lost)
	res.Emit()
}

func init() {
	hlib.Register("c14-record", c14Record)
}
