package main

// C14 (c): randomised concurrent histories for TraceProperty.tla.
//
// Per history: a fresh Bomb object, two subscribers (own connections), 2-3
// remote clients (own connections) and 1-2 goroutines of the service using the
// generated Update<Prop> helper.  Every call is logged as inv/res around the
// generated API, every value delivered by the generated Subscribe<Prop> channel
// as ev, all stamped by one mutex-protected log (the order of the file is the
// real-time order).  Random pauses at the validate/save/notify gates widen the
// windows between the three steps.

import (
	"math/rand"
	"os"
	"runtime"
	"strconv"
	"sync"
	"sync/atomic"
	"time"

	"github.com/lugu/qiloop/type/value"
	"github.com/lugu/qiloop/vhook"
	"verif/harness/hlib"
)

type histLog struct {
	mu sync.Mutex
	tl *traceLog
	n  int
}

func (h *histLog) put(v map[string]interface{}) {
	h.mu.Lock()
	h.tl.put(v)
	h.n++
	h.mu.Unlock()
}

var recWrong = []struct {
	kind, sig string
	bytes     []byte
}{
	{"s", "s", []byte{4, 0, 0, 0, 97, 98, 99, 100}},
	{"I", "I", []byte{5, 0, 0, 0}},
	{"l", "l", []byte{5, 0, 0, 0, 0, 0, 0, 0}},
	{"c", "c", []byte{5}},
	{"li", "[i]", []byte{1, 0, 0, 0, 7, 0, 0, 0}},
}

func c14Record(args []string) {
	if len(args) < 2 {
		hlib.Fatal("usage: c14-record <trace-out> <histories>")
	}
	f, err := os.Create(args[0])
	if err != nil {
		hlib.Fatal("create: %v", err)
	}
	defer f.Close()
	rounds, _ := strconv.Atoi(args[1])
	seed := hlib.Seed()
	w := newWorld()
	log := &histLog{tl: &traceLog{f}}
	clients := []*conn{w.dial(), w.dial(), w.dial()}
	subConns := map[string]*conn{"s1": w.dial(), "s2": w.dial()}
	res := &hlib.Result{}
	// random pauses at the gates
	var gateRng uint64 = uint64(seed)*2654435761 + 1
	pause := func(kv ...interface{}) {
		x := atomic.AddUint64(&gateRng, 0x9E3779B97F4A7C15)
		x ^= x >> 31
		switch x % 4 {
		case 0:
			runtime.Gosched()
		case 1:
			time.Sleep(time.Duration(x>>8%200) * time.Microsecond)
		}
	}
	for _, p := range gatePoints {
		vhook.SetGate(p, pause)
	}
	var nextVal int32
	ops, lost := 0, 0
	for r := 0; r < rounds; r++ {
		id, impl := w.addBomb()
		rng := rand.New(rand.NewSource(seed*1000003 + int64(r)))
		subs := map[string]*subscriber{}
		for _, n := range []string{"s1", "s2"} {
			c := subConns[n]
			s := &subscriber{name: n, conn: c, bomb: c.bomb(w, id)}
			s.tap = c.tap(w.sid, id, delayID)
			name := n
			s.onEv = func(v int32) {
				log.put(map[string]interface{}{"k": "ev", "s": name, "bytes": ints(le32(v))})
			}
			log.put(map[string]interface{}{"k": "inv", "c": n, "op": opRec("sub", 0, "", n)})
			if err := s.subscribe(); err != nil {
				hlib.Fatal("subscribe: %v", err)
			}
			log.put(map[string]interface{}{"k": "res", "c": n, "r": retRec(retJ{})})
			subs[n] = s
		}
		nClients := 2 + rng.Intn(2)
		nUpd := 1 + rng.Intn(2)
		perClient := 3 + rng.Intn(4)
		var wg sync.WaitGroup
		nextVal = 0
		for ci := 0; ci < nClients; ci++ {
			wg.Add(1)
			go func(ci int, crng *rand.Rand) {
				defer wg.Done()
				name := "c" + strconv.Itoa(ci+1)
				bomb := clients[ci].bomb(w, id)
				for k := 0; k < perClient; k++ {
					x := crng.Intn(100)
					switch {
					case x < 35:
						log.put(map[string]interface{}{"k": "inv", "c": name, "op": opRec("get", 0, "", "")})
						rr, _ := genericGet(bomb)
						log.put(map[string]interface{}{"k": "res", "c": name, "r": retRec(rr)})
					case x < 70:
						n := int(atomic.AddInt32(&nextVal, 1))
						log.put(map[string]interface{}{"k": "inv", "c": name, "op": opRec("set", n, "", "")})
						e := bomb.SetDelay(int32(n))
						log.put(map[string]interface{}{"k": "res", "c": name, "r": retRec(errRet(e))})
					case x < 82:
						n := -int(atomic.AddInt32(&nextVal, 1))
						log.put(map[string]interface{}{"k": "inv", "c": name, "op": opRec("set", n, "", "")})
						e := bomb.SetDelay(int32(n))
						log.put(map[string]interface{}{"k": "res", "c": name, "r": retRec(errRet(e))})
					case x < 95:
						wv := recWrong[crng.Intn(len(recWrong))]
						log.put(map[string]interface{}{"k": "inv", "c": name, "op": opRec("setwrong", 0, wv.kind, "")})
						e := bomb.SetProperty(value.String("delay"), value.Opaque(wv.sig, wv.bytes))
						log.put(map[string]interface{}{"k": "res", "c": name, "r": retRec(errRet(e))})
					default:
						log.put(map[string]interface{}{"k": "inv", "c": name, "op": opRec("setunknown", 0, "", "")})
						e := bomb.SetProperty(value.String("nope"), value.Opaque("i", le32(1)))
						log.put(map[string]interface{}{"k": "res", "c": name, "r": retRec(errRet(e))})
					}
				}
			}(ci, rand.New(rand.NewSource(rng.Int63())))
		}
		for ui := 0; ui < nUpd; ui++ {
			wg.Add(1)
			go func(ui int, crng *rand.Rand) {
				defer wg.Done()
				name := "u" + strconv.Itoa(ui+1)
				for k := 0; k < perClient; k++ {
					n := int(atomic.AddInt32(&nextVal, 1))
					if crng.Intn(5) == 0 {
						n = -n
					}
					log.put(map[string]interface{}{"k": "inv", "c": name, "op": opRec("update", n, "", "")})
					e := impl.helper.UpdateDelay(int32(n))
					log.put(map[string]interface{}{"k": "res", "c": name, "r": retRec(errRet(e))})
				}
			}(ui, rand.New(rand.NewSource(rng.Int63())))
		}
		wg.Wait()
		ops += (nClients + nUpd) * perClient
		// every event sent so far is on the connection once the fence returns;
		// give the generated channel T_BOUND to hand them over
		for _, s := range subs {
			if err := s.fence(); err != nil {
				hlib.Fatal("fence: %v", err)
			}
			raw := s.tap.drain()
			g := s.takeGen(len(raw))
			if len(g) < len(raw) {
				lost++
			}
		}
		log.put(map[string]interface{}{"k": "end"})
		for _, s := range subs {
			s.unsubscribe()
			s.tap.close()
		}
		log.put(map[string]interface{}{"k": "reset"})
		w.service.Remove(id)
	}
	for _, p := range gatePoints {
		vhook.SetGate(p, nil)
	}
	res.Evaluations = rounds
	res.Distinct = rounds
	res.SetExtra("c14_record_ops", ops)
	res.SetExtra("c14_record_lines", log.n)
	res.SetExtra("c14_record_channel_short", lost)
	res.Emit()
}

func init() {
	hlib.Register("c14-record", c14Record)
}
