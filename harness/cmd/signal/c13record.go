package main

// C13 (c): randomised drivers.  Per scenario 2-4 threads of the cast run
// subscribe / read / cancel rounds while one emitter emits numbered events on
// both signals; random yields and short sleeps (also at the proxy and server
// gates) vary the interleaving.  The trace is validated by TLC.

import (
	"math/rand"
	"os"
	"runtime"
	"strconv"
	"sync"
	"sync/atomic"
	"time"

	"github.com/lugu/qiloop/vhook"
	"verif/harness/hlib"
)

func c13Record(args []string) {
	if len(args) < 2 {
		hlib.Fatal("usage: c13-record <trace-out> <scenarios> [mode]")
	}
	out, err := os.Create(args[0])
	if err != nil {
		hlib.Fatal("create: %v", err)
	}
	defer out.Close()
	n, _ := strconv.Atoi(args[1])
	seed := hlib.Seed()
	w := newWorld()
	res := &hlib.Result{}
	var gateRng uint64 = uint64(seed)*2654435761 + 7
	pause := func(kv ...interface{}) {
		x := atomic.AddUint64(&gateRng, 0x9E3779B97F4A7C15)
		x ^= x >> 29
		switch x % 5 {
		case 0:
			runtime.Gosched()
		case 1:
			time.Sleep(time.Duration(x>>8%150) * time.Microsecond)
		}
	}
	lines, subs, emits := 0, 0, 0
	var index []map[string]interface{}
	casts := [][]string{{"t1", "t2"}, {"t1", "t2", "t4"}, {"t1", "t3"}, {"t1", "t2", "t3", "t4"}, {"t1", "t4", "t5"}, {"t1", "t2", "t3", "t4", "t5"}}
	for i := 0; i < n; i++ {
		rng := rand.New(rand.NewSource(seed*7919 + int64(i)))
		conns := map[string]*conn{"c1": w.dial(), "c2": w.dial()}
		s := newScenario(w, conns)
		for _, p := range c13Gates {
			gate := p
			vhook.SetGate(gate, func(kv ...interface{}) {
				pause()
				s.pointOnly(gate)
			})
		}
		cast := casts[rng.Intn(len(casts))]
		rounds := 1 + rng.Intn(3)
		nEmit := 3 + rng.Intn(6)
		var wg sync.WaitGroup
		var live int32 = int32(len(cast))
		for _, th := range cast {
			wg.Add(1)
			go func(th string, r *rand.Rand) {
				defer wg.Done()
				defer atomic.AddInt32(&live, -1)
				t := s.threads[th]
				for k := 0; k < rounds; k++ {
					s.subCall(th)
					ok, good := s.subAck(th, TBound)
					if !ok || !good {
						return
					}
					time.Sleep(time.Duration(r.Intn(400)) * time.Microsecond)
					s.cancelCall(th)
					select {
					case <-t.canRet:
					case <-time.After(TBound):
						return
					}
					select {
					case <-t.closed:
					case <-time.After(TBound):
					}
					if r.Intn(2) == 0 {
						runtime.Gosched()
					}
				}
			}(th, rand.New(rand.NewSource(rng.Int63())))
			subs += rounds
		}
		// emitter: keeps going while subscribers are around
		for e := 0; e < nEmit && atomic.LoadInt32(&live) > 0; e++ {
			sig := "A"
			if rng.Intn(3) == 0 {
				sig = "B"
			}
			s.emit(sig)
			select {
			case <-s.emitRet:
			case <-time.After(TBound):
			}
			emits++
			time.Sleep(time.Duration(rng.Intn(200)) * time.Microsecond)
		}
		wg.Wait()
		for _, c := range conns {
			c.bomb(w, s.id).IsStatsEnabled()
		}
		time.Sleep(300 * time.Microsecond)
		nl := s.trace(out)
		index = append(index, map[string]interface{}{"i": i, "lines": nl, "cast": cast})
		lines += nl
		s.close()
		for _, c := range conns {
			c.ep.Close()
		}
	}
	for _, p := range c13Gates {
		vhook.SetGate(p, nil)
	}
	res.Evaluations = n
	res.Distinct = n
	res.SetExtra("c13_record_lines", lines)
	res.SetExtra("index", index)
	res.SetExtra("c13_record_subscriptions", subs)
	res.SetExtra("c13_record_emissions", emits)
	res.Emit()
}

func init() {
	hlib.Register("c13-record", c13Record)
}
