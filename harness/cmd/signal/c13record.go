package main

// C13 (c): randomised drivers.  Per scenario some threads of the cast run
// subscribe / read / cancel rounds while one emitter emits numbered events;
// random yields and short sleeps (also at the proxy and server gates) vary the
// interleaving.  The trace is validated by TLC.  Three kinds of scenario:
//   classic  threads on one object (two signals, two connections)
//   objects  subscribers of sibling objects (same service, same action ids) and of an
//            object with the same id in another service, through ONE client and through
//            separate connections; emissions on all objects; now and then the server
//            sends a non-Event message addressed like a subscribed signal
//   failing  one or two subscribers on the harness-owned connection c3 next to
//            subscribers on healthy connections; at a random moment the server's
//            writes to c3 start failing (io.EOF or another error) while its reader
//            notices nothing, emissions go on, later the reader sees the end

import (
	"math/rand"
	"os"
	"runtime"
	"strconv"
	"sync"
	"sync/atomic"
	"time"

	"github.com/lugu/qiloop/vhook"
	"verif/harness/hlib"
)

type recKind struct {
	name    string
	casts   [][]string
	targets []emission // what the emitter picks from
}

var recKinds = []recKind{
	{"classic", [][]string{{"t1", "t2"}, {"t1", "t2", "t4"}, {"t1", "t3"}, {"t1", "t2", "t3", "t4"}, {"t1", "t4", "t5"},
		{"t1", "t2", "t3", "t4", "t5"}},
		[]emission{{"o1", "A"}, {"o1", "A"}, {"o1", "B"}}},
	{"objects", [][]string{{"t1", "t6"}, {"t1", "t6", "t7"}, {"t1", "t8"}, {"t1", "t6", "t8"}, {"t1", "t2", "t6", "t7"},
		{"t1", "t3", "t6", "t8"}, {"t4", "t6", "t7", "t8"}},
		[]emission{{"o1", "A"}, {"o2", "A"}, {"o3", "A"}, {"o2", "A"}, {"o1", "B"}, {"o2", "B"}}},
	{"failing", [][]string{{"t9", "t4"}, {"t9", "t1", "t4"}, {"t9", "t10", "t4", "t7"}, {"t9", "t1", "t2"}, {"t9", "t10", "t1", "t6"}},
		[]emission{{"o1", "A"}, {"o1", "A"}, {"o2", "A"}}},
}

func c13Record(args []string) {
	if len(args) < 2 {
		hlib.Fatal("usage: c13-record <trace-out> <scenarios>")
	}
	out, err := os.Create(args[0])
	if err != nil {
		hlib.Fatal("create: %v", err)
	}
	defer out.Close()
	n, _ := strconv.Atoi(args[1])
	seed := hlib.Seed()
	w := newWorld13()
	res := &hlib.Result{}
	var gateRng uint64 = uint64(seed)*2654435761 + 7
	pause := func(kv ...interface{}) {
		x := atomic.AddUint64(&gateRng, 0x9E3779B97F4A7C15)
		x ^= x >> 29
		switch x % 5 {
		case 0:
			runtime.Gosched()
		case 1:
			time.Sleep(time.Duration(x>>8%150) * time.Microsecond)
		}
	}
	lines, subs, emits, breaks, injects, rogues := 0, 0, 0, 0, 0, 0
	kinds := map[string]int{}
	var index []map[string]interface{}
	slowN, ran := 0, 0
	var slowT time.Duration
	for i := 0; i < n; i++ {
		// failure budget (see c13-gated)
		if slowN >= 40 || slowT > 60*time.Second {
			break
		}
		ran++
		t0 := time.Now()
		rng := rand.New(rand.NewSource(seed*7919 + int64(i)))
		// half of the scenarios are classic, a quarter each of the others
		kind := recKinds[[]int{0, 1, 0, 2}[i%4]]
		cast := kind.casts[rng.Intn(len(kind.casts))]
		var spy []string
		if kind.name == "objects" {
			spy = []string{"c1", "c2"}
		}
		s := newScenario(w, cast)
		for _, p := range c13Gates {
			gate := p
			vhook.SetGate(gate, func(kv ...interface{}) {
				pause()
				s.pointOnly(gate)
			})
		}
		rounds := 1 + rng.Intn(3)
		nEmit := 3 + rng.Intn(6)
		var wg sync.WaitGroup
		var live int32 = int32(len(cast))
		// c3busy: the threads of c3 hold it (shared) while a call of theirs is in flight; the
		// breaker takes it exclusively: the connection breaks while its client is quiet
		var c3busy sync.RWMutex
		for _, th := range cast {
			wg.Add(1)
			go func(th string, r *rand.Rand) {
				defer wg.Done()
				defer atomic.AddInt32(&live, -1)
				t := s.threads[th]
				onC3 := castConn[th] == "c3"
				for k := 0; k < rounds; k++ {
					if onC3 {
						c3busy.RLock()
						if t.conn.dead() {
							c3busy.RUnlock()
							return
						}
					}
					s.subCall(th)
					ok, good := s.subAck(th, TBound)
					if onC3 {
						c3busy.RUnlock()
					}
					if !ok || !good {
						return
					}
					time.Sleep(time.Duration(r.Intn(400)) * time.Microsecond)
					if onC3 {
						// a subscriber of the connection that is going to break mostly stays
						if k == rounds-1 || r.Intn(3) > 0 {
							return
						}
						c3busy.RLock()
						if t.conn.dead() {
							c3busy.RUnlock()
							return
						}
					}
					s.cancelCall(th)
					select {
					case <-t.canRet:
					case <-time.After(TBound):
					}
					select {
					case <-t.closed:
					case <-time.After(TBound):
					}
					if onC3 {
						c3busy.RUnlock()
					}
					if r.Intn(2) == 0 {
						runtime.Gosched()
					}
				}
			}(th, rand.New(rand.NewSource(rng.Int63())))
			subs += rounds
		}
		breakAt, noticeAt := -1, -1
		if kind.name == "failing" {
			breakAt = rng.Intn(nEmit)
			noticeAt = breakAt + rng.Intn(nEmit-breakAt+1)
		}
		breakKind := []string{"eof", "err"}[rng.Intn(2)]
		injected := map[string]bool{}
		rogued := map[string]bool{}
		// emitter: keeps going while subscribers are around (and, when a connection is to
		// break, until it has broken and the server has seen it)
		for e := 0; e < nEmit && (atomic.LoadInt32(&live) > 0 || breakAt >= 0); e++ {
			if e == breakAt {
				time.Sleep(time.Duration(rng.Intn(300)) * time.Microsecond)
				c3busy.Lock()
				s.conns["c3"].pipe.breakWrites(breakKind)
				c3busy.Unlock()
				breaks++
			}
			if e == noticeAt && e > breakAt {
				s.conns["c3"].pipe.notice()
			}
			if spy != nil && rng.Intn(4) == 0 {
				// (each address at most once per scenario: Signal.tla InjectMsg)
				tg := kind.targets[rng.Intn(len(kind.targets))]
				cn := spy[rng.Intn(2)]
				if !injected[cn+tg.o+tg.sig] {
					injected[cn+tg.o+tg.sig] = true
					s.inject(cn, tg.o, tg.sig)
					injects++
				}
			}
			if spy != nil && rng.Intn(3) == 0 {
				// a foreign unregisterEvent: connection cn names the registration the other
				// connection holds for one of the cast's subscriptions (each connection once)
				th := cast[rng.Intn(len(cast))]
				cn := map[string]string{"c1": "c2", "c2": "c1"}[castConn[th]]
				if !rogued[cn] {
					rogued[cn] = true
					s.rogue(cn, castObj[th], castSig[th], castConn[th])
					select {
					case <-s.rogueRet:
					case <-time.After(TBound):
					}
					rogues++
				}
			}
			tg := kind.targets[rng.Intn(len(kind.targets))]
			s.emit(tg.o, tg.sig)
			select {
			case <-s.emitRet:
			case <-time.After(TBound):
			}
			emits++
			time.Sleep(time.Duration(rng.Intn(200)) * time.Microsecond)
		}
		wg.Wait()
		if c := s.conns["c3"]; c != nil {
			if !c.dead() {
				// the scenario was over before the break: the threads of c3 that stayed
				// subscribed cancel like everybody else
				for _, th := range cast {
					if castConn[th] == "c3" {
						s.finish(th)
					}
				}
			} else {
				c.pipe.notice()
				s.waitClosers(c, TBound)
			}
		}
		s.flush()
		time.Sleep(300 * time.Microsecond)
		nl := s.trace(out)
		index = append(index, map[string]interface{}{"i": i, "lines": nl, "cast": cast, "kind": kind.name})
		kinds[kind.name]++
		lines += nl
		s.close()
		if d := time.Since(t0); d > 1500*time.Millisecond {
			slowN++
			slowT += d
		}
	}
	for _, p := range c13Gates {
		vhook.SetGate(p, nil)
	}
	res.Evaluations = ran
	res.Distinct = ran
	res.SetExtra("c13_record_slow_scenarios", slowN)
	res.SetExtra("c13_record_skipped_after_budget", n-ran)
	res.SetExtra("c13_record_lines", lines)
	res.SetExtra("index", index)
	res.SetExtra("c13_record_subscriptions", subs)
	res.SetExtra("c13_record_emissions", emits)
	res.SetExtra("c13_record_kinds", kinds)
	res.SetExtra("c13_record_breaks", breaks)
	res.SetExtra("c13_record_injections", injects)
	res.SetExtra("c13_record_foreign_unregisters", rogues)
	res.Emit()
}

func init() {
	hlib.Register("c13-record", c13Record)
}
