package main

// C14 (b): sequential replay of the behaviours exported by GenProperty.tla.
//
// Every behaviour runs on a fresh Bomb object (generated stub of examples/space
// over bus.NewBasicObject).  Writers and readers use one connection, every
// subscriber its own.  After each step the real observation
//   ret  result of the operation
//   val  the register as a generic `property` read shows it (+ the generated
//        typed getter as a cross check)
//   ev   the change events that reached each subscriber's connection (raw tap,
//        exact after a fence call) - and what the generated Subscribe<Prop>
//        channel delivered for them
// is compared with the specification's expectation.

import (
	"encoding/json"
	"fmt"
	"os"
	"reflect"
	"sort"
	"sync"
	"time"

	"github.com/lugu/qiloop/bus"
	"github.com/lugu/qiloop/examples/space"
	"github.com/lugu/qiloop/type/value"
	"verif/harness/hlib"
)

type valueJ struct {
	Sig   string `json:"sig"`
	Bytes []int  `json:"bytes"`
}
type retJ struct {
	E     string `json:"e"`
	Sig   string `json:"sig"`
	Bytes []int  `json:"bytes"`
}
type valJ struct {
	Set   bool   `json:"set"`
	Sig   string `json:"sig"`
	Bytes []int  `json:"bytes"`
}
type obsJ struct {
	Ret retJ                `json:"ret"`
	Val valJ                `json:"val"`
	Ev  map[string][]valueJ `json:"ev"`
}
type opJ struct {
	K    string `json:"k"`
	N    int    `json:"n"`
	Kind string `json:"kind"`
	How  string `json:"how"`
	S    string `json:"s"`
}
type stepJ struct {
	Op   opJ    `json:"op"`
	Exp  obsJ   `json:"exp"`
	Alts []obsJ `json:"alts"`
}
type behJ struct {
	Steps []stepJ `json:"steps"`
}
type wrongJ struct {
	Sig   string `json:"sig"`
	Bytes []int  `json:"bytes"`
	Conv  int    `json:"conv"`
}

// realObs is what the implementation showed; events carry bytes only (an
// event has no signature on the wire).
type realObs struct {
	Ret retJ               `json:"ret"`
	Val valJ               `json:"val"`
	Ev  map[string][][]int `json:"ev"`
	Gen map[string][]int32 `json:"gen,omitempty"` // values the generated Subscribe channel delivered
}

func normBytes(b []int) []int {
	if b == nil {
		return []int{}
	}
	return b
}

// diff returns "" when real matches exp, else the first differing field.
func diff(real *realObs, exp *obsJ) string {
	if real.Ret.E != exp.Ret.E {
		return "ret"
	}
	if real.Ret.E == "" && (real.Ret.Sig != exp.Ret.Sig || !reflect.DeepEqual(normBytes(real.Ret.Bytes), normBytes(exp.Ret.Bytes))) {
		return "ret"
	}
	if real.Val.Set != exp.Val.Set {
		return "val"
	}
	if real.Val.Set && (real.Val.Sig != exp.Val.Sig || !reflect.DeepEqual(normBytes(real.Val.Bytes), normBytes(exp.Val.Bytes))) {
		return "val"
	}
	for s, evs := range exp.Ev {
		got := real.Ev[s]
		if len(got) != len(evs) {
			return "ev"
		}
		for i := range evs {
			if !reflect.DeepEqual(normBytes(got[i]), normBytes(evs[i].Bytes)) {
				return "ev"
			}
		}
	}
	return ""
}

// subscriber is one subscriber of property "delay" on its own connection.
type subscriber struct {
	name   string
	conn   *conn
	tap    *rawTap
	bomb   space.BombProxy
	cancel func()
	ch     chan int32
	mu     sync.Mutex
	gen    []int32
	closed chan struct{}
	onEv   func(v int32)
}

func (s *subscriber) subscribe() error {
	cancel, ch, err := s.bomb.SubscribeDelay()
	if err != nil {
		return err
	}
	s.cancel, s.ch = cancel, ch
	s.closed = make(chan struct{})
	s.mu.Lock()
	s.gen = nil
	s.mu.Unlock()
	go func(ch chan int32, closed chan struct{}) {
		for v := range ch {
			s.mu.Lock()
			f := s.onEv
			s.mu.Unlock()
			if f != nil {
				f(v) // logged before it is counted: "end" comes after every ev
			}
			s.mu.Lock()
			s.gen = append(s.gen, v)
			s.mu.Unlock()
		}
		close(closed)
	}(ch, s.closed)
	return nil
}

// unsubscribe cancels and waits for the channel to be closed (ClosedAfterCancel
// belongs to C13; here it only keeps goroutines from piling up).
func (s *subscriber) unsubscribe() error {
	if s.cancel == nil {
		return fmt.Errorf("not subscribed")
	}
	s.cancel()
	s.cancel = nil
	select {
	case <-s.closed:
	case <-time.After(TBound):
		return fmt.Errorf("subscription channel not closed %v after cancel", TBound)
	}
	return nil
}

// fence: a call on the subscriber's connection; when it returns every event
// sent before is in the tap.
func (s *subscriber) fence() error {
	_, err := s.bomb.IsStatsEnabled()
	return err
}

// takeGen waits until the generated channel has delivered n values (or TBound).
func (s *subscriber) takeGen(n int) []int32 {
	deadline := time.Now().Add(TBound)
	for {
		s.mu.Lock()
		if len(s.gen) >= n || time.Now().After(deadline) {
			g := s.gen
			s.gen = nil
			s.mu.Unlock()
			return g
		}
		s.mu.Unlock()
		time.Sleep(50 * time.Microsecond)
	}
}

// c14Worker owns the connections used for a sequence of behaviours.
type c14Worker struct {
	w      *world
	writer *conn
	subs   map[string]*conn
	wrong  map[string]wrongJ
}

func genericGet(obj bus.ObjectProxy) (retJ, valJ) {
	v, err := obj.Property(value.String("delay"))
	if err != nil {
		return retJ{E: "err", Bytes: []int{}}, valJ{Bytes: []int{}}
	}
	sig, data := splitValue(v)
	return retJ{Sig: sig, Bytes: ints(data)}, valJ{Set: true, Sig: sig, Bytes: ints(data)}
}

func errRet(err error) retJ {
	if err != nil {
		return retJ{E: "err", Bytes: []int{}}
	}
	return retJ{Bytes: []int{}}
}

// run replays one behaviour; returns (applicable steps, failure or nil).
func (k *c14Worker) run(b *behJ, res *hlib.Result, mu *sync.Mutex, subNames []string) (ran int, other bool) {
	id, impl := k.w.addBomb()
	defer k.w.service.Remove(id)
	bomb := k.writer.bomb(k.w, id)
	subs := map[string]*subscriber{}
	for _, n := range subNames {
		c := k.subs[n]
		s := &subscriber{name: n, conn: c, bomb: c.bomb(k.w, id)}
		s.tap = c.tap(k.w.sid, id, delayID)
		subs[n] = s
	}
	defer func() {
		for _, s := range subs {
			if s.cancel != nil {
				s.unsubscribe()
			}
			s.tap.close()
		}
	}()
	fail := func(i int, class, detail string, got interface{}) {
		ops := []opJ{}
		for _, st := range b.Steps[:i+1] {
			ops = append(ops, st.Op)
		}
		mu.Lock()
		res.Fail(class, detail, map[string]interface{}{"ops": ops, "step": i, "exp": b.Steps[i].Exp, "got": got})
		mu.Unlock()
	}
	opKey := func(op opJ) string {
		switch op.K {
		case "setwrong":
			if op.How == "id" {
				return "setwrong-byid:" + k.wrong[op.Kind].Sig
			}
			return "setwrong:" + k.wrong[op.Kind].Sig
		case "set", "update":
			if op.N < 0 {
				return op.K + "-invalid"
			}
			if op.How == "id" {
				return op.K + "-byid"
			}
		case "setunknown":
			return "setunknown-" + op.How
		}
		return op.K
	}
	for i := range b.Steps {
		st := &b.Steps[i]
		op := st.Op
		real := &realObs{Ev: map[string][][]int{}, Gen: map[string][]int32{}}
		real.Ret.Bytes = []int{}
		switch op.K {
		case "get":
			real.Ret, _ = genericGet(bomb)
			// cross check: the generated typed getter agrees with the generic read
			tv, terr := bomb.GetDelay()
			if real.Ret.E == "" && real.Ret.Sig == "i" && len(real.Ret.Bytes) == 4 {
				if terr != nil || !reflect.DeepEqual(ints(le32(tv)), real.Ret.Bytes) {
					fail(i, "get/typed-getter-disagrees", fmt.Sprintf("generic read %v, Get<Prop> = %d, %v", real.Ret, tv, terr), real)
					return i, false
				}
			} else if terr == nil {
				fail(i, "get/typed-getter-accepts-untyped-value", fmt.Sprintf("generic read %v but Get<Prop> returned %d", real.Ret, tv), real)
				return i, false
			}
		case "set":
			if op.How == "id" {
				real.Ret = errRet(bomb.SetProperty(value.Uint(delayID), value.Opaque("i", le32(int32(op.N)))))
			} else {
				real.Ret = errRet(bomb.SetDelay(int32(op.N)))
			}
		case "setunknown":
			if op.How == "id" {
				real.Ret = errRet(bomb.SetProperty(value.Uint(4242), value.Opaque("i", le32(1))))
			} else {
				real.Ret = errRet(bomb.SetProperty(value.String("nope"), value.Opaque("i", le32(1))))
			}
		case "setwrong":
			wv, ok := k.wrong[op.Kind]
			if !ok {
				hlib.Fatal("unknown wrong kind %q", op.Kind)
			}
			if op.How == "id" { // the property designated by its identifier: the same demands
				real.Ret = errRet(bomb.SetProperty(value.Uint(delayID), value.Opaque(wv.Sig, toBytes(wv.Bytes))))
			} else {
				real.Ret = errRet(bomb.SetProperty(value.String("delay"), value.Opaque(wv.Sig, toBytes(wv.Bytes))))
			}
		case "update":
			real.Ret = errRet(impl.helper.UpdateDelay(int32(op.N)))
		case "sub":
			real.Ret = errRet(subs[op.S].subscribe())
		case "unsub":
			real.Ret = errRet(subs[op.S].unsubscribe())
		default:
			hlib.Fatal("unknown op %q", op.K)
		}
		// projection of the register
		_, real.Val = genericGet(bomb)
		// events, per subscriber connection
		for n, s := range subs {
			if err := s.fence(); err != nil {
				hlib.Fatal("fence: %v", err)
			}
			raw := s.tap.drain()
			evs := [][]int{}
			for _, p := range raw {
				evs = append(evs, ints(p))
			}
			real.Ev[n] = evs
			if s.cancel != nil && op.K != "sub" {
				// the generated channel delivers exactly what reached the connection
				g := s.takeGen(len(raw))
				real.Gen[n] = g
				okGen := len(g) == len(raw)
				for j := 0; okGen && j < len(raw); j++ {
					okGen = len(raw[j]) >= 4 && reflect.DeepEqual(le32(g[j]), raw[j][:4])
				}
				if !okGen {
					fail(i, "subscribe-channel/differs-from-connection", fmt.Sprintf("connection %v, channel %v", evs, g), real)
					return i, false
				}
			}
		}
		d := diff(real, &st.Exp)
		if d == "" {
			continue
		}
		for a := range st.Alts {
			if diff(real, &st.Alts[a]) == "" {
				return i + 1, true // another branch the property allows
			}
		}
		fail(i, opKey(op)+"/"+d, fmt.Sprintf("%s: expected %s, got %s", d, js(st.Exp), js(real)), real)
		return i + 1, false
	}
	return len(b.Steps), false
}

func js(v interface{}) string {
	b, _ := json.Marshal(v)
	return string(b)
}

func c14Replay(args []string) {
	if len(args) < 1 {
		hlib.Fatal("usage: c14-replay <file>")
	}
	var behs []*behJ
	wrong := map[string]wrongJ{}
	hlib.ReadLines(args[0], func(line []byte) {
		var l struct {
			K string
			V json.RawMessage
		}
		if err := json.Unmarshal(line, &l); err != nil {
			hlib.Fatal("bad line: %v", err)
		}
		switch l.K {
		case "W":
			if err := json.Unmarshal(l.V, &wrong); err != nil {
				hlib.Fatal("bad W line: %v", err)
			}
		case "T":
			b := &behJ{}
			if err := json.Unmarshal(l.V, b); err != nil {
				hlib.Fatal("bad T line: %v", err)
			}
			behs = append(behs, b)
		}
	})
	w := newWorld()
	res := &hlib.Result{}
	var mu sync.Mutex
	workers := 4
	var wg sync.WaitGroup
	next := make(chan *behJ, 64)
	steps, others := 0, 0
	shapes := map[string]bool{}
	for i := 0; i < workers; i++ {
		wg.Add(1)
		go func() {
			defer wg.Done()
			k := &c14Worker{w: w, writer: w.dial(), subs: map[string]*conn{"s1": w.dial(), "s2": w.dial()}, wrong: wrong}
			for b := range next {
				names := map[string]bool{}
				for _, st := range b.Steps {
					for s := range st.Exp.Ev {
						names[s] = true
					}
				}
				var sn []string
				for s := range names {
					sn = append(sn, s)
				}
				sort.Strings(sn)
				n, other := k.run(b, res, &mu, sn)
				mu.Lock()
				steps += n
				if other {
					others++
				}
				last := b.Steps[len(b.Steps)-1].Op
				shapes[last.K+":"+last.Kind+":"+last.How] = true
				mu.Unlock()
			}
		}()
	}
	for _, b := range behs {
		next <- b
	}
	close(next)
	wg.Wait()
	res.Evaluations = len(behs)
	res.Distinct = len(shapes)
	res.SetExtra("c14_replay_steps", steps)
	res.SetExtra("c14_replay_other_branch", others)
	if len(behs) > 0 {
		res.Sample(map[string]interface{}{"behaviour": behs[len(behs)/2]})
	}
	res.Emit()
	os.Exit(0)
}

func init() {
	hlib.Register("c14-replay", c14Replay)
}
