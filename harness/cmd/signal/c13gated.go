package main

// C13 (b): the schedules of GenSignal.tla forced on the real code.
//
// Every goroutine of the scenario is parked at a gate; a controllable step
// releases exactly one of them and waits until it parks again or its call
// returns.  Automatic steps of the schedule are synchronisation points.  The
// verdict does not come from this driver: the recorded trace is validated by
// TLC (TraceSignal.tla); the driver only reports whether the implementation
// could follow the schedule (a conforming implementation that serialises the
// proxy sections cannot follow the overlapping ones - that is not a failure).

import (
	"encoding/json"
	"fmt"
	"os"
	"sync"
	"time"

	"github.com/lugu/qiloop/vhook"
	"verif/harness/hlib"
)

type sstepJ struct {
	A   string `json:"a"`
	Th  string `json:"th"` // thread, or the connection of deliver / inject / rogue / break / notice / closer
	O   string `json:"o"`  // object of an emission / injection / rogue call; the kind of a break
	Sig string `json:"sig"`
	X   string `json:"x"` // rogue: the connection whose registration is named
}
type sschedJ struct {
	Steps []sstepJ                     `json:"steps"`
	Got   map[string][]struct{ K int } `json:"got"`
	Bad   []string                     `json:"bad"`
	Fin   int                          `json:"fin"`
}

var c13Gates = []string{"proxy.sub.local", "proxy.sub.inc", "proxy.sub.key", "proxy.sub.rpc",
	"proxy.unsub.dec", "proxy.unsub.read", "proxy.unsub.clear", "proxy.unsub.rpc", "proxy.unsub.local",
	"signal.register", "signal.unregister", "signal.update.send"}

type park struct {
	actor string
	point string
}

type gsched struct {
	mu       sync.Mutex
	arrivals chan park
	rel      map[string]chan struct{} // per actor
	off      bool
}

func (g *gsched) relOf(actor string) chan struct{} {
	g.mu.Lock()
	defer g.mu.Unlock()
	if g.off {
		return nil
	}
	ch, ok := g.rel[actor]
	if !ok {
		ch = make(chan struct{}, 8)
		g.rel[actor] = ch
	}
	return ch
}

func (g *gsched) install(s *scenario) {
	for _, p := range c13Gates {
		point := p
		vhook.SetGate(point, func(kv ...interface{}) {
			actor := ""
			switch point {
			case "signal.register", "signal.unregister":
				actor = "server"
			case "signal.update.send":
				actor = "emitter"
			default:
				if n, ok := s.byGid.Load(goid()); ok {
					actor = n.(string)
				}
			}
			if actor == "" {
				return
			}
			ch := g.relOf(actor)
			if ch != nil {
				g.arrivals <- park{actor, point}
				<-ch
			}
			s.point(actor, point)
		})
	}
}

// open releases everybody and stops parking; the gates stay installed (they go
// on announcing the steps, see scenario.point) until the scenario is over.
func (g *gsched) open() {
	g.mu.Lock()
	g.off = true
	for _, ch := range g.rel {
		close(ch)
	}
	g.mu.Unlock()
}

func (g *gsched) waitPark(actor string, points ...string) (string, bool) {
	deadline := time.After(syncWait)
	for {
		select {
		case p := <-g.arrivals:
			if p.actor != actor {
				// somebody else moved: not what the schedule says
				return p.actor + "@" + p.point, false
			}
			for _, x := range points {
				if x == p.point {
					return p.point, true
				}
			}
			return p.point, false
		case <-deadline:
			return "timeout", false
		}
	}
}

func c13Gated(args []string) {
	if len(args) < 2 {
		hlib.Fatal("usage: c13-gated <schedules> <trace-out>")
	}
	var scheds []*sschedJ
	hlib.ReadLines(args[0], func(line []byte) {
		var l struct {
			K string
			V json.RawMessage
		}
		if err := json.Unmarshal(line, &l); err != nil {
			hlib.Fatal("bad line: %v", err)
		}
		if l.K == "G" {
			s := &sschedJ{}
			if err := json.Unmarshal(l.V, s); err != nil {
				hlib.Fatal("bad G line: %v", err)
			}
			scheds = append(scheds, s)
		}
	})
	out, err := os.Create(args[1])
	if err != nil {
		hlib.Fatal("create: %v", err)
	}
	defer out.Close()
	w := newWorld13()
	res := &hlib.Result{}
	followed, lines := 0, 0
	stuck := map[string]int{}
	var index []map[string]interface{}
	shapes := map[string]bool{}
	// failure budget: a scenario that takes seconds has run into the bounds of its waits (a
	// channel that is never closed, a call that never returns ...); a tree on which that happens
	// again and again is broken, and what has been recorded by then shows it: stop early
	slowN, skipped := 0, 0
	var slowT time.Duration
	for i, sc := range scheds {
		if slowN >= 40 || slowT > 60*time.Second {
			skipped = len(scheds) - i
			break
		}
		t0 := time.Now()
		var threads []string
		seen := map[string]bool{}
		witness := false
		for _, st := range sc.Steps {
			if _, ok := castConn[st.Th]; ok && !seen[st.Th] {
				seen[st.Th] = true
				threads = append(threads, st.Th)
			}
		}
		for _, st := range sc.Steps {
			// a connection that breaks before any of its threads has moved
			if st.A == "break" && st.Th == "c3" && !seen["t9"] && !seen["t10"] {
				seen["t9"] = true
				threads = append(threads, "t9")
			}
		}
		for _, b := range sc.Bad {
			if len(b) > 2 && b[:2] == "W_" {
				witness = true
			}
		}
		s := newScenario(w, threads)
		at, why := runSchedule(s, sc, witness)
		if at < 0 {
			followed++
		} else {
			stuck[why]++
		}
		n := s.trace(out)
		for _, p := range c13Gates {
			vhook.SetGate(p, nil)
		}
		index = append(index, map[string]interface{}{"i": i, "lines": n, "bad": sc.Bad, "stuck_at": at, "why": why})
		lines += n
		s.close()
		if d := time.Since(t0); d > 1500*time.Millisecond {
			slowN++
			slowT += d
			index[len(index)-1]["slow_ms"] = d.Milliseconds()
		}
		sh := ""
		for _, st := range sc.Steps {
			if st.A != "deliver" && st.A != "forward" {
				sh += st.A[:2] + st.Th + st.O + st.Sig + " "
			}
		}
		shapes[sh] = true
	}
	res.Evaluations = len(scheds) - skipped
	res.Distinct = len(shapes)
	res.SetExtra("c13_gated_slow_scenarios", slowN)
	res.SetExtra("c13_gated_skipped_after_budget", skipped)
	res.SetExtra("c13_gated_followed", followed)
	res.SetExtra("c13_gated_not_followed", stuck)
	res.SetExtra("c13_gated_trace_lines", lines)
	res.SetExtra("index", index)
	if len(scheds) > 0 {
		res.Sample(map[string]interface{}{"schedule": scheds[0].Steps, "predicted": scheds[0].Bad})
	}
	res.Emit()
}

// runSchedule returns (-1, "") when the implementation followed the whole
// schedule, else the step at which it could not and why.
func runSchedule(s *scenario, sc *sschedJ, witness bool) (int, string) {
	g := &gsched{arrivals: make(chan park, 64), rel: map[string]chan struct{}{}}
	g.install(s)
	rpcThread := ""
	acked := map[string]bool{}
	subbed := map[string]bool{}
	recvd := map[string]int{}
	release := func(actor string) { g.relOf(actor) <- struct{}{} }
	fail := func(i int, why string) (int, string) {
		// let everything run to completion, then wind down
		g.open()
		s.windDown()
		return i, why
	}
	for i, st := range sc.Steps {
		th := st.Th
		switch st.A {
		case "sublocal":
			recvd[th] = 0
			subbed[th] = true
			acked[th] = false
			s.subCall(th)
			if p, ok := g.waitPark(th, "proxy.sub.local"); !ok {
				return fail(i, "sublocal:"+p)
			}
			release(th)
			if p, ok := g.waitPark(th, "proxy.sub.inc"); !ok {
				return fail(i, "sublocal2:"+p)
			}
		case "subinc":
			release(th)
			// parks before the handler key is set, or the call returns (2nd.. subscriber)
			select {
			case p := <-g.arrivals:
				if p.actor != th || p.point != "proxy.sub.key" {
					return fail(i, "subinc:"+p.actor+"@"+p.point)
				}
			case err := <-s.threads[th].subRet:
				s.threads[th].subRet <- err
			case <-time.After(syncWait):
				return fail(i, "subinc:timeout")
			}
		case "subkey":
			release(th)
			if p, ok := g.waitPark(th, "proxy.sub.rpc"); !ok {
				return fail(i, "subkey:"+p)
			}
		case "subrpc":
			release(th)
			rpcThread = th
			if p, ok := g.waitPark("server", "signal.register"); !ok {
				return fail(i, "subrpc:"+p)
			}
		case "serverreg":
			release("server")
			// the reply makes the Subscribe call return
			select {
			case err := <-s.threads[rpcThread].subRet:
				s.threads[rpcThread].subRet <- err
			case <-time.After(syncWait):
				return fail(i, "serverreg:no-return")
			}
		case "ack":
			if ok, _ := s.subAck(th, syncWait); !ok {
				return fail(i, "ack:timeout")
			}
			acked[th] = true
		case "cancel":
			s.cancelCall(th)
			if p, ok := g.waitPark(th, "proxy.unsub.dec"); !ok {
				return fail(i, "cancel:"+p)
			}
		case "unsubdec":
			release(th)
			if p, ok := g.waitPark(th, "proxy.unsub.read", "proxy.unsub.local"); !ok {
				return fail(i, "unsubdec:"+p)
			}
		case "unsubread":
			release(th)
			if p, ok := g.waitPark(th, "proxy.unsub.clear"); !ok {
				return fail(i, "unsubread:"+p)
			}
		case "unsubclear":
			release(th)
			if p, ok := g.waitPark(th, "proxy.unsub.rpc"); !ok {
				return fail(i, "unsubclear:"+p)
			}
		case "unsubrpc":
			release(th)
			rpcThread = th
			if p, ok := g.waitPark("server", "signal.unregister"); !ok {
				return fail(i, "unsubrpc:"+p)
			}
		case "rogue":
			s.rogue(th, st.O, st.Sig, st.X)
			rpcThread = "rogue"
			if p, ok := g.waitPark("server", "signal.unregister"); !ok {
				return fail(i, "rogue:"+p)
			}
		case "serverunreg":
			release("server")
			if rpcThread == "rogue" {
				// the foreign call returns (with an error: the user id is not the caller's)
				select {
				case <-s.rogueRet:
				case <-time.After(syncWait):
					return fail(i, "serverunreg:rogue-no-return")
				}
				break
			}
			if p, ok := g.waitPark(rpcThread, "proxy.unsub.local"); !ok {
				return fail(i, "serverunreg:"+p)
			}
		case "abort":
			release(th)
			select {
			case <-s.threads[th].canRet:
				s.threads[th].phase = "cancelled"
			case <-time.After(syncWait):
				return fail(i, "abort:timeout")
			}
			subbed[th] = false
		case "close":
			select {
			case <-s.threads[th].closed:
			case <-time.After(syncWait):
				// ClosedAfterCancel is decided on the trace; go on
			}
		case "again", "deliver", "snapshot", "reply", "cleanup", "drop":
			// cleanup: the emitter removes the registration whose Send failed with io.EOF on
			// its way to the next Send; drop: the forwarding goroutine discards a message
		case "inject":
			s.inject(th, st.O, st.Sig)
		case "break":
			s.conns[th].pipe.breakWrites(st.O)
		case "notice":
			s.conns[th].pipe.notice()
		case "closer":
			// the closers of the connection run by themselves once its reader has seen the end
			s.waitClosers(s.conns[th], syncWait)
		case "emit":
			s.emit(st.O, st.Sig)
			select {
			case p := <-g.arrivals:
				if p.actor != "emitter" {
					return fail(i, "emit:"+p.actor+"@"+p.point)
				}
			case <-s.emitRet:
			case <-time.After(syncWait):
				return fail(i, "emit:timeout")
			}
		case "send":
			release("emitter")
			select {
			case p := <-g.arrivals:
				if p.actor != "emitter" {
					return fail(i, "send:"+p.actor+"@"+p.point)
				}
			case <-s.emitRet:
			case <-time.After(syncWait):
				return fail(i, "send:timeout")
			}
		case "emitret":
			select {
			case <-s.emitRet:
			case <-time.After(syncWait):
				return fail(i, "emitret:timeout")
			}
		case "forward":
			recvd[th]++
			if s.threads[th].phase == "subbing" {
				// Subscribe<X> has not returned yet: nobody reads the channel, the forwarding
				// goroutine holds the event until then (a later forward step waits for both)
				break
			}
			deadline := time.Now().Add(syncWait)
			for s.threads[th].received() < recvd[th] && time.Now().Before(deadline) {
				time.Sleep(20 * time.Microsecond)
			}
			// a missing event is the trace's business (Complete / InOrderNoGap)
		default:
			hlib.Fatal("unknown step %q", st.A)
		}
	}
	// every expected event has been waited for: nothing may still be queued
	if sc.Fin == 1 {
		// a call on every connection: what the server sent before is dispatched
		s.flush()
		hev("quiet")
	}
	g.open()
	if witness {
		// the schedule ends where TLC has seen the situation it was looking for: let the
		// emitter finish, have everything dispatched and give the forwarding goroutines
		// a moment before the subscriptions are cancelled
		if s.emitRet != nil {
			select {
			case <-s.emitRet:
			case <-time.After(TBound):
			}
		}
		s.flush()
		time.Sleep(3 * time.Millisecond)
	}
	s.windDown()
	return -1, ""
}

// windDown: every subscription still open is acknowledged and cancelled, so that
// the scenario ends in a quiescent state (gates are off).
func (s *scenario) windDown() {
	if s.emitRet != nil {
		select {
		case <-s.emitRet:
		case <-time.After(TBound):
		}
	}
	for th := range s.threads {
		s.finish(th)
	}
	// a connection that broke: the server gets to see its end, the closers run
	for _, c := range s.conns {
		if c.dead() {
			c.pipe.notice()
			s.waitClosers(c, TBound)
		}
	}
	// let in-flight replies/events be dispatched before the taps go
	s.flush()
	time.Sleep(200 * time.Microsecond)
}

func init() {
	hlib.Register("c13-gated", c13Gated)
	_ = fmt.Sprintf
}
