// ManagerLog (extension hosted by C14): the logging services of qiloop - bus/logger/log_manager.go,
// log_listener.go, log_provider.go and their generated stubs / proxies - driven through the generated proxies
// on a real server, every client (provider or listener owner) on its own connection.
//
// Sub-commands (each prints one hlib.Result; everything that touches qiloop runs in a child process with a
// journal, a wall-clock limit and a failure budget):
//
//	logger-replay <tests.ndjson> [lanes]   replays the behaviours exported by GenManagerLog.tla: one command at a
//	                                 time, the observation (results of the operations, messages / lists / change
//	                                 events per listener, calls per provider) compared after every command
//	logger-record <out.ndjson> <rounds>    free-running concurrent rounds, recorded for TraceManagerLog.tla
package main

import (
	"bufio"
	"bytes"
	"encoding/json"
	"fmt"
	"math/rand"
	"os"
	"os/exec"
	"reflect"
	"runtime"
	"sort"
	"strconv"
	"strings"
	"sync"
	"sync/atomic"
	"time"

	"github.com/lugu/qiloop/bus"
	"github.com/lugu/qiloop/bus/logger"
	"github.com/lugu/qiloop/bus/net"
	"github.com/lugu/qiloop/bus/util"
	"github.com/lugu/qiloop/type/object"
	"github.com/lugu/qiloop/vhook"
	"verif/harness/hlib"
)

func init() {
	hlib.Register("logger-replay", cmdLoggerReplay)
	hlib.Register("logger-replay-child", cmdLoggerReplayChild)
	hlib.Register("logger-record", cmdLoggerRecord)
	hlib.Register("logger-record-child", cmdLoggerRecordChild)
}

// lgBound: "never" for an answer of the manager on a local socket (normal latency well below 1 ms)
var lgBound = 5 * time.Second

func init() {
	if ms, err := strconv.Atoi(os.Getenv("LOGGER_BOUND_MS")); err == nil && ms > 0 {
		lgBound = time.Duration(ms) * time.Millisecond
	} else if hlib.Thorough() {
		lgBound = 10 * time.Second
	}
}

// ---------------------------------------------------------------------------------------------------------
// the world: one stand-alone server with one LogManager service
// ---------------------------------------------------------------------------------------------------------

type lgWorld struct {
	addr string
	srv  bus.Server
	sid  uint32
}

func lgNewWorld() (*lgWorld, error) {
	addr := util.NewUnixAddr()
	l, err := net.Listen(addr)
	if err != nil {
		return nil, fmt.Errorf("listen %s: %v", addr, err)
	}
	srv, err := bus.StandAloneServer(l, bus.Yes{}, bus.PrivateNamespace())
	if err != nil {
		return nil, fmt.Errorf("server: %v", err)
	}
	service, err := srv.NewService("LogManager", logger.NewLogManager())
	if err != nil {
		return nil, fmt.Errorf("service: %v", err)
	}
	return &lgWorld{addr: addr, srv: srv, sid: service.ServiceID()}, nil
}

// lgSession is what a remote client uses as bus.Session: every proxy goes through the client's ONE connection
// (an object the client hosts is reachable through the connection it was created on only).
type lgSession struct {
	w      *lgWorld
	client bus.Client
}

func (s *lgSession) Proxy(name string, objectID uint32) (bus.Proxy, error) {
	if name != "LogManager" {
		return nil, fmt.Errorf("unknown service %s", name)
	}
	meta, err := bus.GetMetaObject(s.client, s.w.sid, objectID)
	if err != nil {
		return nil, err
	}
	return bus.NewProxy(s.client, meta, s.w.sid, objectID), nil
}
func (s *lgSession) Object(ref object.ObjectReference) (bus.Proxy, error) {
	return bus.NewProxy(s.client, ref.MetaObject, ref.ServiceID, ref.ObjectID), nil
}
func (s *lgSession) Terminate() error { return nil }

// lgConn is one client process' connection: end point, client, session, manager proxy
type lgConn struct {
	w    *lgWorld
	ep   net.EndPoint
	sess *lgSession
	mgr  logger.LogManagerProxy
	dead bool
}

// dial: a new client connection with its manager proxy (the proxy asks the manager object for its meta object: a
// manager that is stuck does not answer)
func (w *lgWorld) dial() (*lgConn, error) {
	type res struct {
		c   *lgConn
		err error
	}
	ch := make(chan res, 1)
	go func() {
		c, err := w.dial1()
		ch <- res{c, err}
	}()
	select {
	case r := <-ch:
		return r.c, r.err
	case <-time.After(lgBound):
		return nil, fmt.Errorf("dial: the manager object does not answer a new client within %v", lgBound)
	}
}

func (w *lgWorld) dial1() (*lgConn, error) {
	ep, err := net.DialEndPoint(w.addr)
	if err != nil {
		return nil, fmt.Errorf("dial: %v", err)
	}
	if err = bus.Authenticate(ep); err != nil {
		return nil, fmt.Errorf("authenticate: %v", err)
	}
	c := &lgConn{w: w, ep: ep}
	c.sess = &lgSession{w: w, client: bus.NewClient(bus.NewChannel(ep, bus.DefaultCap()))}
	c.mgr, err = logger.LogManager(c.sess)
	if err != nil {
		return nil, fmt.Errorf("manager proxy: %v", err)
	}
	return c, nil
}

// barrier: a call on this connection that the server answers (with an error: there is no service 9999) without
// going through any mail box.  The stream is FIFO and the end point dispatches sequentially: when the answer is
// here, every event the server wrote to this connection before is dispatched.
func (c *lgConn) barrier() error {
	done := make(chan struct{})
	go func() {
		c.sess.client.Call(nil, 9999, 1, 2, nil)
		close(done)
	}()
	select {
	case <-done:
		return nil
	case <-time.After(lgBound):
		return fmt.Errorf("a call to an unknown service was not answered within %v", lgBound)
	}
}

// ---------------------------------------------------------------------------------------------------------
// a provider: the implementor records what the manager tells it
// ---------------------------------------------------------------------------------------------------------

// lgTold is one call the manager made to a provider: k = "v" setVerbosity(level) | "c" setCategory(cat, level)
// | "f" clearAndSet(filters)
type lgTold struct {
	K string         `json:"k"`
	L int            `json:"l"`
	C string         `json:"c"`
	F map[string]int `json:"f"`
}

func (t lgTold) String() string {
	switch t.K {
	case "v":
		return fmt.Sprintf("setVerbosity(%d)", t.L)
	case "c":
		return fmt.Sprintf("setCategory(%q,%d)", t.C, t.L)
	}
	ks := []string{}
	for k, v := range t.F {
		if v >= 0 {
			ks = append(ks, fmt.Sprintf("%s:%d", k, v))
		}
	}
	sort.Strings(ks)
	return "clearAndSet{" + strings.Join(ks, ",") + "}"
}

type lgProvider struct {
	conn  *lgConn
	proxy logger.LogProviderProxy
	slot  int
	note  func(slot int, t lgTold) // called inside the implementor (the recorder of the concurrent rounds)
	mu    sync.Mutex
	told  []lgTold
}

func (p *lgProvider) Activate(a bus.Activation, h logger.LogProviderSignalHelper) error { return nil }
func (p *lgProvider) OnTerminate()                                                      {}
func (p *lgProvider) add(t lgTold) {
	p.mu.Lock()
	p.told = append(p.told, t)
	p.mu.Unlock()
	if p.note != nil {
		p.note(p.slot, t)
	}
}
func (p *lgProvider) SetVerbosity(level logger.LogLevel) error {
	p.add(lgTold{K: "v", L: int(level.Level)})
	return nil
}
func (p *lgProvider) SetCategory(category string, level logger.LogLevel) error {
	p.add(lgTold{K: "c", C: category, L: int(level.Level)})
	return nil
}
func (p *lgProvider) ClearAndSet(filters map[string]logger.LogLevel) error {
	f := map[string]int{}
	for k, v := range filters {
		f[k] = int(v.Level)
	}
	p.add(lgTold{K: "f", F: f})
	return nil
}
func (p *lgProvider) all() []lgTold {
	p.mu.Lock()
	defer p.mu.Unlock()
	return append([]lgTold{}, p.told...)
}
func (p *lgProvider) reset() {
	p.mu.Lock()
	p.told = nil
	p.mu.Unlock()
}

func (c *lgConn) newProvider(slot int) (*lgProvider, error) {
	p := &lgProvider{conn: c, slot: slot}
	service := c.mgr.Proxy().ProxyService(c.sess)
	var err error
	p.proxy, err = logger.CreateLogProvider(c.sess, service, p)
	if err != nil {
		return nil, err
	}
	return p, nil
}

// ---------------------------------------------------------------------------------------------------------
// a listener: the generated proxy with its two message signals and its property subscribed, a raw tap per
// signal on the same connection to know how many events the connection has been handed
// ---------------------------------------------------------------------------------------------------------

type lgListener struct {
	conn    *lgConn
	slot    int
	proxy   logger.LogListenerProxy
	note    func(slot int, kind string, ids []int)
	gone    bool // its terminate has returned: the object has dropped the subscriptions
	mu      sync.Mutex
	singles []int   // ids of the messages received through onLogMessage
	batches [][]int // ... through onLogMessages
	levels  []int   // change events of the logLevel property
	tapS    *lgTap
	tapB    *lgTap
	tapL    *lgTap
}

type lgTap struct {
	n int64
}

func lgNewTap(ep net.EndPoint, sid, oid, action uint32) *lgTap {
	t := &lgTap{}
	ep.MakeHandler(func(h *net.Header) (bool, bool) {
		if h.Type == net.Event && h.Service == sid && h.Object == oid && h.Action == action {
			atomic.AddInt64(&t.n, 1)
		}
		return false, true
	}, make(chan *net.Message, 1), nil)
	return t
}
func (t *lgTap) count() int { return int(atomic.LoadInt64(&t.n)) }

// the id of a message is carried by its text ("m<id>"): a real provider does not fill the Id field
func lgMsgID(m logger.LogMessage) int {
	n, err := strconv.Atoi(strings.TrimPrefix(m.Message, "m"))
	if err != nil {
		return -1
	}
	return n
}

const (
	lgSigMessage  = "(s(i)<LogLevel,level>sssI(L)<TimePoint,ns>(L)<TimePoint,ns>)<LogMessage,source,level,category,location,message,id,date,systemDate>"
	lgSigMessages = "[" + lgSigMessage + "]"
)

// attach subscribes the collectors to a listener proxy
func (c *lgConn) attach(p logger.LogListenerProxy, slot int, note func(int, string, []int)) (*lgListener, error) {
	l := &lgListener{conn: c, proxy: p, slot: slot, note: note}
	meta := p.Proxy().MetaObject()
	sidS, err := meta.SignalID("onLogMessage", lgSigMessage)
	if err != nil {
		return nil, err
	}
	sidB, err := meta.SignalID("onLogMessages", lgSigMessages)
	if err != nil {
		return nil, err
	}
	sidL, err := meta.PropertyID("logLevel", "(i)<LogLevel,level>")
	if err != nil {
		return nil, err
	}
	svc, oid := p.Proxy().ServiceID(), p.Proxy().ObjectID()
	l.tapS, l.tapB, l.tapL = lgNewTap(c.ep, svc, oid, sidS), lgNewTap(c.ep, svc, oid, sidB), lgNewTap(c.ep, svc, oid, sidL)
	_, chS, err := p.SubscribeOnLogMessage()
	if err != nil {
		return nil, fmt.Errorf("subscribe onLogMessage: %v", err)
	}
	_, chB, err := p.SubscribeOnLogMessages()
	if err != nil {
		return nil, fmt.Errorf("subscribe onLogMessages: %v", err)
	}
	_, chL, err := p.SubscribeLogLevel()
	if err != nil {
		return nil, fmt.Errorf("subscribe logLevel: %v", err)
	}
	go func() {
		for m := range chS {
			id := lgMsgID(m)
			if l.note != nil { // first the event, then the count that settle() waits for
				l.note(l.slot, "recv", []int{id})
			}
			l.mu.Lock()
			l.singles = append(l.singles, id)
			l.mu.Unlock()
		}
	}()
	go func() {
		for ms := range chB {
			ids := make([]int, len(ms))
			for i, m := range ms {
				ids[i] = lgMsgID(m)
			}
			if l.note != nil {
				l.note(l.slot, "batch", ids)
			}
			l.mu.Lock()
			l.batches = append(l.batches, ids)
			l.mu.Unlock()
		}
	}()
	go func() {
		for v := range chL {
			if l.note != nil {
				l.note(l.slot, "pev", []int{int(v.Level)})
			}
			l.mu.Lock()
			l.levels = append(l.levels, int(v.Level))
			l.mu.Unlock()
		}
	}()
	return l, nil
}

// settle: everything the server wrote to the listener's connection so far is handed over by the subscriptions
func (l *lgListener) settle() error {
	if l.conn.dead {
		return nil
	}
	if err := l.conn.barrier(); err != nil {
		return err
	}
	nS, nB, nL := l.tapS.count(), l.tapB.count(), l.tapL.count()
	deadline := time.Now().Add(lgBound)
	for {
		l.mu.Lock()
		ok := len(l.singles) >= nS && len(l.batches) >= nB && len(l.levels) >= nL
		l.mu.Unlock()
		if ok {
			return nil
		}
		if time.Now().After(deadline) {
			return fmt.Errorf("the subscriptions handed over %d/%d/%d of the %d/%d/%d events the connection received", len(l.singles), len(l.batches), len(l.levels), nS, nB, nL)
		}
		time.Sleep(50 * time.Microsecond)
	}
}

func lgMsg(id int, level int, cat string) logger.LogMessage {
	return logger.LogMessage{Source: "harness", Level: logger.LogLevel{Level: int32(level)}, Category: cat, Location: "h:1", Message: fmt.Sprintf("m%d", id), Id: uint32(id)}
}

// goroutines that wait for a sync.RWMutex inside bus/logger (an operation of the manager that is blocked, not parked)
func lgBlockedInLogger() (int, string) {
	buf := make([]byte, 1<<23)
	n := runtime.Stack(buf, true)
	cnt := 0
	var where []string
	for _, g := range strings.Split(string(buf[:n]), "\n\n") {
		if strings.Contains(g, "sync.runtime_SemacquireRWMutex") && strings.Contains(g, "qiloop/bus/logger.") {
			cnt++
			for _, line := range strings.Split(g, "\n") {
				if strings.Contains(line, "qiloop/bus/logger.(") {
					f := strings.TrimPrefix(strings.SplitN(line, "(0x", 2)[0], "github.com/lugu/qiloop/bus/logger.")
					where = append(where, f)
					break
				}
			}
		}
	}
	sort.Strings(where)
	return cnt, strings.Join(where, " ")
}

// lgStacks: where the goroutines that are inside qiloop stand (for the report of an operation that does not return)
func lgStacks() string {
	buf := make([]byte, 1<<23)
	n := runtime.Stack(buf, true)
	cnt := map[string]int{}
	for _, g := range strings.Split(string(buf[:n]), "\n\n") {
		lines := strings.Split(g, "\n")
		if len(lines) < 2 || !strings.Contains(g, "lugu/qiloop/") {
			continue
		}
		state := lines[0]
		if i := strings.Index(state, "["); i >= 0 {
			state = strings.TrimSuffix(strings.SplitN(state[i+1:], "]", 2)[0], ":")
			state = strings.SplitN(state, ",", 2)[0]
		}
		var fr []string
		for _, line := range lines[1:] {
			if strings.HasPrefix(line, "github.com/lugu/qiloop/") || strings.HasPrefix(line, "main.") {
				f := strings.TrimPrefix(strings.SplitN(line, "(0x", 2)[0], "github.com/lugu/qiloop/")
				f = strings.SplitN(f, "({", 2)[0]
				fr = append(fr, f)
				if len(fr) == 4 {
					break
				}
			}
		}
		cnt[state+": "+strings.Join(fr, " < ")]++
	}
	keys := []string{}
	for k := range cnt {
		keys = append(keys, k)
	}
	sort.Strings(keys)
	var b strings.Builder
	for _, k := range keys {
		fmt.Fprintf(&b, "%dx %s | ", cnt[k], k)
	}
	out := b.String()
	if len(out) > 6000 {
		out = out[:6000]
	}
	return out
}

// ---------------------------------------------------------------------------------------------------------
// logger-replay
// ---------------------------------------------------------------------------------------------------------

type lgCfg struct {
	Listeners int    `json:"listeners"`
	Providers int    `json:"providers"`
	Real      []int  `json:"real"`
	ClientOf  []int  `json:"clientof"` // per listener slot (1-based slots, 0-based index)
	InitLive  []int  `json:"initlive"`
	InitProv  []int  `json:"initprov"`
	PCat      string `json:"pcat"`
}

type lgM struct {
	ID  int    `json:"id"`
	Lvl int    `json:"lvl"`
	Cat string `json:"cat"`
}
type lgOp struct {
	R int `json:"r"`
	V int `json:"v"`
}
type lgObs struct {
	Ops  map[string]lgOp `json:"ops"`
	Rcv  [][]int         `json:"rcv"`
	Bat  [][][]int       `json:"bat"`
	Pev  [][]int         `json:"pev"`
	Told [][]lgTold      `json:"told"`
	Dem  []string        `json:"dem"`
}
type lgStep struct {
	O    string `json:"o"`
	T    int    `json:"t"`
	L    int    `json:"l"`
	P    int    `json:"p"`
	V    int    `json:"v"`
	Q    string `json:"q"`
	H    string `json:"h"`
	Msgs []lgM  `json:"msgs"`
	Post lgObs  `json:"post"`
	// other observations the specification allows after this command sequence (the manager serves its listeners
	// and providers in the order of a Go map)
	Alts []lgObs `json:"alts,omitempty"`
}
type lgTest struct {
	ID    int      `json:"id"`
	Cfg   lgCfg    `json:"cfg"`
	Steps []lgStep `json:"steps"`
}

func lgStepText(s lgStep) string {
	t := s.O
	switch s.O {
	case "create", "terminate", "drop", "getprop", "clear":
		t += fmt.Sprintf("(l%d)", s.L)
	case "setlevel", "setprop":
		t += fmt.Sprintf("(l%d,%d)", s.L, s.V)
	case "addfilter":
		t += fmt.Sprintf("(l%d,%q,%d)", s.L, s.Q, s.V)
	case "addprov", "pdrop":
		t += fmt.Sprintf("(p%d)", s.P)
	case "rmprov":
		t += fmt.Sprintf("(%d)", s.V)
	case "release":
		t += fmt.Sprintf("(t%d)", s.T)
	case "log", "rlog":
		ms := []string{}
		for _, m := range s.Msgs {
			ms = append(ms, fmt.Sprintf("m%d:%d/%s", m.ID, m.Lvl, m.Cat))
		}
		t += fmt.Sprintf("(p%d,%s)", s.P, strings.Join(ms, " "))
	}
	if s.H != "" {
		t += "@" + s.H
	}
	return t
}
func lgTestText(t lgTest, upto int) string {
	var parts []string
	for i, s := range t.Steps {
		if upto >= 0 && i > upto {
			break
		}
		parts = append(parts, lgStepText(s))
	}
	return strings.Join(parts, "; ")
}

type lgFail struct {
	Class  string `json:"class"`
	Detail string `json:"detail"`
	Step   int    `json:"step"`
	Wedged bool   `json:"wedged"` // the world does not answer any more: each such test costs the bound
}
type lgJournal struct {
	St   string   `json:"st"` // begin | end | exit
	I    int      `json:"i"`
	Fail *lgFail  `json:"fail,omitempty"`
	Dem  []string `json:"dem,omitempty"` // demands the model reports broken at the end of a conforming replay
	Ms   int      `json:"ms,omitempty"`
}

// the gates: one operation parks at the point armed for it
var lgGatePoints = map[string]string{"vp": "logger.verbosity.computed", "fp": "logger.filters.computed", "fj": "logger.addfilter.locked"}

type lgGate struct {
	armed   int32
	arrived chan struct{}
	release chan struct{}
}

// pending operation of a thread
type lgPending struct {
	op   string
	done chan lgOp
}

type lgRun struct {
	w       *lgWorld
	cfg     lgCfg
	admin   *lgConn
	clients map[int]*lgConn
	pconns  []*lgConn
	provs   []*lgProvider
	reals   []logger.Logger
	lsts    []*lgListener
	pend    map[int]*lgPending
	last    map[int]lgOp
	lastOp  map[int]string
	gates   map[int]*lgGate // by thread
	removes int64           // signal/remove events seen
	wedged  bool
	base    int // goroutines blocked inside bus/logger when the test began (left behind by stuck worlds of earlier tests)
}

func (r *lgRun) isReal(p int) bool {
	for _, x := range r.cfg.Real {
		if x == p {
			return true
		}
	}
	return false
}

func (r *lgRun) client(id int) (*lgConn, error) {
	if c, ok := r.clients[id]; ok {
		return c, nil
	}
	c, err := r.w.dial()
	if err != nil {
		return nil, err
	}
	r.clients[id] = c
	return c, nil
}

func lgNewRun(cfg lgCfg) (*lgRun, error) {
	w, err := lgNewWorld()
	if err != nil {
		return nil, err
	}
	r := &lgRun{w: w, cfg: cfg, clients: map[int]*lgConn{}, pend: map[int]*lgPending{}, last: map[int]lgOp{}, lastOp: map[int]string{}, gates: map[int]*lgGate{}}
	if r.admin, err = w.dial(); err != nil {
		return nil, err
	}
	r.pconns = make([]*lgConn, cfg.Providers+1)
	r.provs = make([]*lgProvider, cfg.Providers+1)
	r.reals = make([]logger.Logger, cfg.Providers+1)
	r.lsts = make([]*lgListener, cfg.Listeners+1)
	for p := 1; p <= cfg.Providers; p++ {
		if r.pconns[p], err = w.dial(); err != nil {
			return nil, err
		}
		if !r.isReal(p) {
			if r.provs[p], err = r.pconns[p].newProvider(p); err != nil {
				return nil, fmt.Errorf("provider object: %v", err)
			}
		}
	}
	return r, nil
}

// start runs f as the operation of thread t
func (r *lgRun) start(t int, op string, f func() lgOp) {
	p := &lgPending{op: op, done: make(chan lgOp, 1)}
	r.pend[t] = p
	r.lastOp[t] = op
	go func() { p.done <- f() }()
}

func lgCode(err error) int {
	if err != nil {
		return 2
	}
	return 1
}

// exec starts the command of one step
func (r *lgRun) exec(s lgStep) error {
	lv := logger.LogLevel{Level: int32(s.V)}
	if s.H != "" {
		pt, ok := lgGatePoints[s.H]
		if !ok {
			return fmt.Errorf("unknown hold %q", s.H)
		}
		g := &lgGate{armed: 1, arrived: make(chan struct{}, 1), release: make(chan struct{})}
		r.gates[s.T] = g
		vhook.SetGate(pt, func(kv ...interface{}) {
			if atomic.CompareAndSwapInt32(&g.armed, 1, 0) {
				g.arrived <- struct{}{}
				<-g.release
			}
		})
	}
	switch s.O {
	case "create":
		c, err := r.client(r.cfg.ClientOf[s.L-1])
		if err != nil {
			return err
		}
		slot := s.L
		r.start(0, s.O, func() lgOp {
			var lp logger.LogListenerProxy
			var err error
			if slot%2 == 1 {
				lp, err = c.mgr.CreateListener()
			} else {
				lp, err = c.mgr.GetListener()
			}
			if err != nil {
				return lgOp{R: 2}
			}
			l, err := c.attach(lp, slot, nil)
			if err != nil {
				return lgOp{R: 2, V: -1}
			}
			r.lsts[slot] = l
			return lgOp{R: 1}
		})
	case "addprov":
		p := s.P
		c := r.pconns[p]
		if r.isReal(p) {
			r.start(0, s.O, func() lgOp {
				lg, err := logger.NewLogger(c.sess, r.cfg.PCat)
				if err != nil {
					return lgOp{R: 2}
				}
				r.reals[p] = lg
				return lgOp{R: 1, V: -1}
			})
		} else {
			r.start(0, s.O, func() lgOp {
				id, err := c.mgr.AddProvider(r.provs[p].proxy)
				return lgOp{R: lgCode(err), V: int(id)}
			})
		}
	case "rmprov":
		x := int32(s.V)
		r.start(0, s.O, func() lgOp { return lgOp{R: lgCode(r.admin.mgr.RemoveProvider(x))} })
	case "log":
		c := r.pconns[s.P]
		msgs := make([]logger.LogMessage, len(s.Msgs))
		for i, m := range s.Msgs {
			msgs[i] = lgMsg(m.ID, m.Lvl, m.Cat)
		}
		r.start(0, s.O, func() lgOp { c.mgr.Log(msgs); return lgOp{R: 1} })
	case "rlog":
		lg := r.reals[s.P]
		if lg == nil {
			return fmt.Errorf("rlog: provider %d is not a registered real provider", s.P)
		}
		m := s.Msgs[0]
		r.start(0, s.O, func() lgOp {
			text := fmt.Sprintf("m%d", m.ID)
			switch m.Lvl {
			case 2:
				lg.Error(text)
			case 3:
				lg.Warning(text)
			case 4:
				lg.Info(text)
			case 5:
				lg.Verbose(text)
			case 6:
				lg.Debug(text)
			}
			return lgOp{R: 1}
		})
	case "setlevel", "setprop", "getprop", "addfilter", "clear", "terminate":
		l := r.lsts[s.L]
		if l == nil {
			return fmt.Errorf("%s: listener %d does not exist", s.O, s.L)
		}
		op, q := s.O, s.Q
		r.start(s.L, s.O, func() lgOp {
			switch op {
			case "setlevel":
				return lgOp{R: lgCode(l.proxy.SetLevel(lv))}
			case "setprop":
				return lgOp{R: lgCode(l.proxy.SetLogLevel(lv))}
			case "getprop":
				v, err := l.proxy.GetLogLevel()
				if err != nil {
					return lgOp{R: 2}
				}
				return lgOp{R: 1, V: int(v.Level)}
			case "addfilter":
				return lgOp{R: lgCode(l.proxy.AddFilter(q, lv))}
			case "clear":
				return lgOp{R: lgCode(l.proxy.ClearFilters())}
			}
			return lgOp{R: lgCode(l.proxy.Terminate(l.proxy.Proxy().ObjectID()))}
		})
	case "drop":
		cid := r.cfg.ClientOf[s.L-1]
		c := r.clients[cid]
		// the server forgets the subscriptions of the connection: three per listener that is still subscribed
		want := 0
		for slot := 1; slot <= r.cfg.Listeners; slot++ {
			if r.cfg.ClientOf[slot-1] == cid && r.lsts[slot] != nil && !r.lsts[slot].gone {
				want += 3
			}
		}
		before := atomic.LoadInt64(&r.removes)
		c.dead = true
		c.ep.Close()
		deadline := time.Now().Add(lgBound)
		for atomic.LoadInt64(&r.removes) < before+int64(want) {
			if time.Now().After(deadline) {
				return fmt.Errorf("drop: the server forgot %d of the %d subscriptions of the closed connection", atomic.LoadInt64(&r.removes)-before, want)
			}
			time.Sleep(50 * time.Microsecond)
		}
	case "pdrop":
		r.pconns[s.P].dead = true
		r.pconns[s.P].ep.Close()
	case "release":
		g := r.gates[s.T]
		if g == nil {
			return fmt.Errorf("release: thread %d is not parked", s.T)
		}
		close(g.release)
		delete(r.gates, s.T)
	default:
		return fmt.Errorf("unknown command %q", s.O)
	}
	return nil
}

// observe waits until the operations are where the expectation says they are (returned / parked / blocked), lets the
// listeners settle and returns the observation
func (r *lgRun) observe(s lgStep) (lgObs, *lgFail) {
	exp := s.Post
	blockedWant := 0
	threads := []int{}
	for k := range exp.Ops {
		t, _ := strconv.Atoi(k)
		threads = append(threads, t)
	}
	sort.Ints(threads)
	for _, t := range threads {
		p := r.pend[t]
		if p == nil {
			continue
		}
		if exp.Ops[strconv.Itoa(t)].R != 9 {
			select {
			case res := <-p.done:
				r.last[t] = res
				delete(r.pend, t)
			case <-time.After(lgBound):
				r.wedged = true
				n, where := lgBlockedInLogger()
				return lgObs{}, &lgFail{Class: "logger/blocked/" + p.op + "-does-not-return",
					Detail: fmt.Sprintf("%s has not returned within %v (%d goroutine(s) wait for a lock inside bus/logger: %s)", p.op, lgBound, n, where), Wedged: true}
			}
			continue
		}
		// expected not to have returned: parked at its gate ...
		if g := r.gates[t]; g != nil {
			if atomic.LoadInt32(&g.armed) == 1 || len(g.arrived) > 0 {
				select {
				case <-g.arrived:
				case res := <-p.done:
					r.last[t] = res
					delete(r.pend, t)
				case <-time.After(lgBound):
					r.wedged = true
					return lgObs{}, &lgFail{Class: "logger/replay/gate-not-reached", Detail: fmt.Sprintf("%s did not reach the gate before step %s within %v", p.op, s.H, lgBound), Wedged: true}
				}
			}
			continue
		}
		blockedWant++
	}
	if blockedWant > 0 {
		// ... or blocked on a lock of the manager
		deadline := time.Now().Add(lgBound)
		for {
			n, _ := lgBlockedInLogger()
			if n-r.base >= blockedWant {
				break
			}
			returned := false
			for _, t := range threads {
				if p := r.pend[t]; p != nil && exp.Ops[strconv.Itoa(t)].R == 9 && r.gates[t] == nil {
					select {
					case res := <-p.done:
						r.last[t] = res
						delete(r.pend, t)
						returned = true
					default:
					}
				}
			}
			if returned || time.Now().After(deadline) {
				break // the comparison says what differs
			}
			time.Sleep(200 * time.Microsecond)
		}
	}
	for slot := 1; slot <= r.cfg.Listeners; slot++ {
		if l := r.lsts[slot]; l != nil && !l.conn.dead {
			if err := l.settle(); err != nil {
				r.wedged = true
				return lgObs{}, &lgFail{Class: "logger/blocked/listener-connection-not-served", Detail: fmt.Sprintf("listener %d: %v", slot, err), Wedged: true}
			}
		}
	}
	got := lgObs{Ops: map[string]lgOp{}}
	for _, t := range threads {
		if r.pend[t] != nil {
			got.Ops[strconv.Itoa(t)] = lgOp{R: 9}
		} else {
			got.Ops[strconv.Itoa(t)] = r.last[t]
		}
	}
	for slot := 1; slot <= r.cfg.Listeners; slot++ {
		a, c := []int{}, []int{}
		b := [][]int{}
		if l := r.lsts[slot]; l != nil {
			l.mu.Lock()
			a, b, c = append(a, l.singles...), append(b, l.batches...), append(c, l.levels...)
			l.mu.Unlock()
		}
		got.Rcv, got.Bat, got.Pev = append(got.Rcv, a), append(got.Bat, b), append(got.Pev, c)
	}
	for p := 1; p <= r.cfg.Providers; p++ {
		t := []lgTold{}
		if r.provs[p] != nil {
			t = r.provs[p].all()
		}
		got.Told = append(got.Told, t)
	}
	return got, nil
}

func lgSameInts(a, b []int) bool {
	if len(a) != len(b) {
		return false
	}
	for i := range a {
		if a[i] != b[i] {
			return false
		}
	}
	return true
}
func lgSameTold(a, b lgTold) bool {
	if a.K != b.K || a.L != b.L || a.C != b.C {
		return false
	}
	if a.K != "f" {
		return true
	}
	norm := func(f map[string]int) map[string]int {
		m := map[string]int{}
		for k, v := range f {
			if v >= 0 {
				m[k] = v
			}
		}
		return m
	}
	return reflect.DeepEqual(norm(a.F), norm(b.F))
}

var lgOpWhat = map[int]string{0: "nothing", 1: "returned-ok", 2: "returned-an-error", 9: "has-not-returned"}

// compare: the first difference between the observation and the expectation, as a failure class
func (r *lgRun) compare(s lgStep, exp lgObs, got lgObs) *lgFail {
	keys := []string{}
	for k := range exp.Ops {
		keys = append(keys, k)
	}
	sort.Strings(keys)
	for _, k := range keys {
		e, g := exp.Ops[k], got.Ops[k]
		t, _ := strconv.Atoi(k)
		opname := "earlier-operation"
		if t == s.T && s.O != "release" && s.O != "drop" && s.O != "pdrop" {
			opname = s.O
		}
		if g.R != e.R {
			prefix := "logger/ops/"
			if opname == "setprop" || opname == "getprop" {
				prefix = "logger/property/"
			}
			if g.R == 9 {
				r.wedged = true
				prefix = "logger/blocked/"
			}
			return &lgFail{Class: prefix + opname + "-" + lgOpWhat[g.R] + "-instead-of-" + lgOpWhat[e.R],
				Detail: fmt.Sprintf("thread %s: %s %s; the specification: %s", k, opname, lgOpWhat[g.R], lgOpWhat[e.R]), Wedged: g.R == 9}
		}
		if g.R == 1 && g.V != e.V && g.V != -1 {
			if opname == "getprop" {
				return &lgFail{Class: "logger/property/get-returns-other-value", Detail: fmt.Sprintf("listener %s: the logLevel property reads %d, the specification (last accepted write): %d", k, g.V, e.V)}
			}
			return &lgFail{Class: "logger/ops/" + opname + "-returns-other-value", Detail: fmt.Sprintf("%s returned %d, the specification: %d", opname, g.V, e.V)}
		}
	}
	for i := range exp.Rcv {
		if !lgSameInts(got.Rcv[i], exp.Rcv[i]) {
			return &lgFail{Class: "logger/delivery/messages-" + lgDiffKind(got.Rcv[i], exp.Rcv[i]), Detail: fmt.Sprintf("listener %d received by onLogMessage %v, the specification: %v", i+1, got.Rcv[i], exp.Rcv[i])}
		}
	}
	for i := range exp.Bat {
		same := len(got.Bat[i]) == len(exp.Bat[i])
		for j := 0; same && j < len(exp.Bat[i]); j++ {
			same = lgSameInts(got.Bat[i][j], exp.Bat[i][j])
		}
		if !same {
			return &lgFail{Class: "logger/delivery/lists-differ", Detail: fmt.Sprintf("listener %d received by onLogMessages %v, the specification: %v", i+1, got.Bat[i], exp.Bat[i])}
		}
	}
	for i := range exp.Pev {
		if !lgSameInts(got.Pev[i], exp.Pev[i]) {
			return &lgFail{Class: "logger/property/change-events-" + lgDiffKind(got.Pev[i], exp.Pev[i]), Detail: fmt.Sprintf("listener %d: change events of logLevel %v, the specification: %v", i+1, got.Pev[i], exp.Pev[i])}
		}
	}
	for i := range exp.Told {
		if r.isReal(i + 1) {
			continue
		}
		g, e := got.Told[i], exp.Told[i]
		n := len(g)
		if len(e) < n {
			n = len(e)
		}
		for j := 0; j < n; j++ {
			if !lgSameTold(g[j], e[j]) {
				kind := "call-differs"
				if g[j].K == e[j].K {
					kind = map[string]string{"v": "verbosity-differs", "f": "filters-differ", "c": "category-differs"}[g[j].K]
				}
				return &lgFail{Class: "logger/push/" + kind, Detail: fmt.Sprintf("provider %d was told %v as its call %d, the specification: %v (all: %v / %v)", i+1, g[j], j+1, e[j], g, e)}
			}
		}
		if len(g) != len(e) {
			kind := "call-missing"
			if len(g) > len(e) {
				kind = "call-too-many"
			}
			return &lgFail{Class: "logger/push/" + kind, Detail: fmt.Sprintf("provider %d was told %v, the specification: %v", i+1, g, e)}
		}
	}
	return nil
}

func lgDiffKind(got, exp []int) string {
	if len(got) < len(exp) && lgSameInts(got, exp[:len(got)]) {
		return "missing"
	}
	if len(got) > len(exp) && lgSameInts(got[:len(exp)], exp) {
		return "unwanted"
	}
	sg, se := append([]int{}, got...), append([]int{}, exp...)
	sort.Ints(sg)
	sort.Ints(se)
	if lgSameInts(sg, se) {
		return "order"
	}
	return "differ"
}

func (r *lgRun) close() {
	done := make(chan struct{})
	go func() {
		for _, c := range r.clients {
			c.ep.Close()
		}
		for _, c := range r.pconns {
			if c != nil {
				c.ep.Close()
			}
		}
		r.admin.ep.Close()
		r.w.srv.Terminate()
		close(done)
	}()
	select {
	case <-done:
	case <-time.After(2 * time.Second):
	}
}

// lgReplayOne replays one behaviour; dirty: goroutines of the world are left behind (operations that never return):
// the process is not used for another test
func lgReplayOne(t lgTest) (fail *lgFail, dirty bool) {
	f, r := lgReplayOne1(t)
	return f, r == nil || r.wedged || len(r.pend) > 0
}

func lgReplayOne1(t lgTest) (fail *lgFail, r *lgRun) {
	for _, pt := range lgGatePoints {
		vhook.SetGate(pt, nil)
	}
	r, err := lgNewRun(t.Cfg)
	if err != nil {
		return &lgFail{Class: "logger/replay/world-not-built", Detail: err.Error(), Step: -1, Wedged: true}, nil
	}
	r.base, _ = lgBlockedInLogger()
	vhook.SetSink(func(e vhook.Event) {
		if e.Comp == "signal" && e.Ev == "remove" {
			atomic.AddInt64(&r.removes, 1)
		}
	})
	defer func() {
		vhook.SetSink(nil)
		for _, g := range r.gates {
			close(g.release)
		}
		// operations that have not returned: the manager is stuck, nothing can be shut down in an orderly way
		if !r.wedged && len(r.pend) == 0 {
			r.close()
		}
	}()
	// the initial state of the export: providers, then listeners, created one after the other
	setup := []lgStep{}
	for _, p := range t.Cfg.InitProv {
		setup = append(setup, lgStep{O: "addprov", P: p})
	}
	for _, l := range t.Cfg.InitLive {
		setup = append(setup, lgStep{O: "create", L: l})
	}
	for _, s := range setup {
		if err := r.exec(s); err != nil {
			return &lgFail{Class: "logger/replay/world-not-built", Detail: err.Error(), Step: -1, Wedged: true}, r
		}
		select {
		case res := <-r.pend[0].done:
			if res.R != 1 {
				return &lgFail{Class: "logger/replay/world-not-built", Detail: s.O + " failed", Step: -1, Wedged: true}, r
			}
			delete(r.pend, 0)
		case <-time.After(lgBound):
			r.wedged = true
			return &lgFail{Class: "logger/blocked/" + s.O + "-does-not-return", Detail: "while the initial state was built", Step: -1, Wedged: true}, r
		}
	}
	for _, p := range r.provs {
		if p != nil {
			p.reset()
		}
	}
	for i, s := range t.Steps {
		if err := r.exec(s); err != nil {
			r.wedged = true
			return &lgFail{Class: "logger/replay/command-not-executed", Detail: err.Error(), Step: i, Wedged: true}, r
		}
		got, f := r.observe(s)
		if f == nil {
			f = r.compare(s, s.Post, got)
			for _, alt := range s.Alts {
				if f == nil {
					break
				}
				if r.compare(s, alt, got) == nil {
					f = nil
				}
			}
		}
		if f != nil {
			f.Step = i
			if len(s.Alts) > 0 {
				b, _ := json.Marshal(map[string]interface{}{"ops": got.Ops, "rcv": got.Rcv, "bat": got.Bat, "pev": got.Pev, "told": got.Told})
				f.Detail += fmt.Sprintf(" [%d other observation(s) allowed, none matches; observed: %s]", len(s.Alts), b)
			}
			return f, r
		}
		for slot := 1; slot <= t.Cfg.Listeners; slot++ {
			// a terminate that has returned: the object has dropped its subscriptions (accounting of a later drop)
			if l := r.lsts[slot]; l != nil && r.pend[slot] == nil && r.lastOp[slot] == "terminate" && r.last[slot].R == 1 {
				l.gone = true
			}
		}
	}
	return nil, r
}

func cmdLoggerReplayChild(args []string) {
	// logger-replay-child <file> <from> <lanes> <lane>
	from, _ := strconv.Atoi(args[1])
	lanes, _ := strconv.Atoi(args[2])
	lane, _ := strconv.Atoi(args[3])
	out := bufio.NewWriter(os.Stdout)
	say := func(j lgJournal) {
		b, _ := json.Marshal(j)
		out.Write(b)
		out.WriteByte('\n')
		out.Flush()
	}
	i := -1
	dirty := false
	hlib.ReadLines(args[0], func(line []byte) {
		i++
		if i < from || i%lanes != lane || dirty {
			return
		}
		var t lgTest
		if err := json.Unmarshal(line, &t); err != nil {
			hlib.Fatal("test %d: %v", i, err)
		}
		say(lgJournal{St: "begin", I: i})
		t0 := time.Now()
		var f *lgFail
		f, dirty = lgReplayOne(t)
		j := lgJournal{St: "end", I: i, Fail: f, Ms: int(time.Since(t0).Milliseconds())}
		if f == nil && len(t.Steps) > 0 {
			j.Dem = t.Steps[len(t.Steps)-1].Post.Dem
		}
		say(j)
	})
	if !dirty {
		say(lgJournal{St: "exit", I: i})
	}
}

func lgCrashClass(stderr string) string {
	first := strings.SplitN(strings.TrimSpace(stderr), "\n", 2)[0]
	switch {
	case strings.Contains(stderr, "concurrent map"):
		return "logger/crash/concurrent-map-access"
	case strings.Contains(stderr, "all goroutines are asleep"):
		return "logger/crash/deadlock"
	case strings.HasPrefix(first, "panic:"):
		return "logger/crash/panic"
	case strings.HasPrefix(first, "fatal error:"):
		return "logger/crash/fatal-error"
	}
	return "logger/crash/process-ended"
}

func lgReadTests(path string) []lgTest {
	var tests []lgTest
	hlib.ReadLines(path, func(line []byte) {
		var t lgTest
		if err := json.Unmarshal(line, &t); err != nil {
			hlib.Fatal("%s: %v", path, err)
		}
		tests = append(tests, t)
	})
	return tests
}

func cmdLoggerReplay(args []string) {
	var res hlib.Result
	tests := lgReadTests(args[0])
	lanes := 4
	if len(args) > 1 {
		lanes, _ = strconv.Atoi(args[1])
	}
	if lanes > len(tests) {
		lanes = len(tests)
	}
	if lanes < 1 {
		lanes = 1
	}
	var mu sync.Mutex
	bad, budget := 0, 6
	steps := 0
	dems := map[string]int{}
	demFirst := map[string]string{}
	slowMs, slowest := 0, ""
	var wg sync.WaitGroup
	for lane := 0; lane < lanes; lane++ {
		wg.Add(1)
		go func(lane int) {
			defer wg.Done()
			from := 0
			for from < len(tests) {
				mu.Lock()
				stop := bad >= budget
				mu.Unlock()
				if stop {
					return
				}
				cmd := exec.Command(os.Args[0], "logger-replay-child", args[0], strconv.Itoa(from), strconv.Itoa(lanes), strconv.Itoa(lane))
				var stderr bytes.Buffer
				cmd.Stderr = &stderr
				stdout, _ := cmd.StdoutPipe()
				if err := cmd.Start(); err != nil {
					hlib.Fatal("child: %v", err)
				}
				lines := make(chan lgJournal, 1024)
				go func() {
					sc := bufio.NewScanner(stdout)
					sc.Buffer(make([]byte, 1<<20), 1<<26)
					for sc.Scan() {
						var j lgJournal
						if json.Unmarshal(sc.Bytes(), &j) == nil {
							lines <- j
						}
					}
					close(lines)
				}()
				current, left, hung := -1, false, false
			loop:
				for {
					select {
					case j, ok := <-lines:
						if !ok {
							break loop
						}
						mu.Lock()
						switch j.St {
						case "exit":
							left = true
							from = len(tests)
						case "begin":
							current = j.I
						case "end":
							res.Evaluations++
							steps += len(tests[j.I].Steps)
							if j.Ms > slowMs {
								slowMs, slowest = j.Ms, lgTestText(tests[j.I], -1)
							}
							from = j.I + 1
							current = -1
							if j.Fail != nil {
								res.Fail(j.Fail.Class, j.Fail.Detail, map[string]interface{}{"test": tests[j.I].ID, "commands": lgTestText(tests[j.I], j.Fail.Step), "failed_at": j.Fail.Step})
								if j.Fail.Wedged {
									bad++
								}
								n := 0
								for _, c := range res.FailCount {
									n += c
								}
								if n >= 25 {
									bad = budget // enough is known about this tree
								}
							} else {
								for _, d := range j.Dem {
									dems[d]++
									if old, ok := demFirst[d]; !ok || len(lgTestText(tests[j.I], -1)) < len(old) {
										demFirst[d] = lgTestText(tests[j.I], -1)
									}
								}
								if res.Evaluations%211 == 1 {
									res.Sample(map[string]interface{}{"commands": lgTestText(tests[j.I], -1)})
								}
							}
						}
						stop := bad >= budget
						mu.Unlock()
						if stop {
							cmd.Process.Kill()
							break loop
						}
					case <-time.After(4*lgBound + 10*time.Second):
						hung = true
						cmd.Process.Kill()
						break loop
					}
				}
				for range lines {
				}
				err := cmd.Wait()
				mu.Lock()
				if hung && current >= 0 {
					res.Fail("logger/hang/replay-stalled-inside-the-code", "the replay of a behaviour did not end", map[string]interface{}{"test": tests[current].ID, "commands": lgTestText(tests[current], -1)})
					bad++
					from = current + 1
				} else if !left && bad < budget && err != nil && current >= 0 {
					e := stderr.String()
					if len(e) > 1500 {
						e = e[:1500]
					}
					res.Fail(lgCrashClass(e), "the process serving the LogManager ended: "+strings.SplitN(strings.TrimSpace(e), "\n", 2)[0], map[string]interface{}{"test": tests[current].ID, "commands": lgTestText(tests[current], -1), "stderr": e})
					bad++
					from = current + 1
				} else if !left && current < 0 && bad < budget && err != nil {
					bad++ // the child died between two tests: do not loop for ever
				}
				mu.Unlock()
			}
		}(lane)
	}
	wg.Wait()
	res.SetExtra("steps", steps)
	res.SetExtra("slowest_ms", slowMs)
	res.SetExtra("slowest", slowest)
	res.SetExtra("stopped_on_failure_budget", bad >= budget)
	res.SetExtra("demands_broken_by_the_code_as_found", dems)
	res.SetExtra("demands_broken_shortest", demFirst)
	res.Emit()
}

// ---------------------------------------------------------------------------------------------------------
// logger-record: free-running concurrent rounds, recorded for TraceManagerLog.tla
// ---------------------------------------------------------------------------------------------------------

var lgPats = []string{"core", "app"}

// lgRec collects the events of one round in the order of the hooks' counter (the sink runs under their lock)
type lgRec struct {
	evs []vhook.Event
	// open joins: the number of level / filter changes seen when each began (oldest first).  A join that overlaps a
	// change is flagged racy: the code reads the listeners' settings without their lock (see TraceManagerLog.tla)
	vopen, fopen  []int
	nlevel, nfilt int
	racy          map[uint64]bool
}

func (rec *lgRec) sink(e vhook.Event) {
	if e.Comp != "logmgr" && e.Comp != "h" {
		return
	}
	switch e.Ev {
	case "vjoin_begin":
		rec.vopen = append(rec.vopen, rec.nlevel)
		return
	case "fjoin_begin":
		rec.fopen = append(rec.fopen, rec.nfilt)
		return
	case "lst_level":
		rec.nlevel++
	case "lst_filter", "lst_clear":
		rec.nfilt++
	case "vjoin":
		// which of the open joins ends here is not known: the oldest one decides, the youngest one is taken off
		if len(rec.vopen) > 0 {
			rec.racy[e.Seq] = rec.nlevel > rec.vopen[0]
			rec.vopen = rec.vopen[:len(rec.vopen)-1]
		}
	case "fjoin":
		if len(rec.fopen) > 0 {
			rec.racy[e.Seq] = rec.nfilt > rec.fopen[0]
			rec.fopen = rec.fopen[:len(rec.fopen)-1]
		}
	}
	rec.evs = append(rec.evs, e)
}

func lgEmit(kind string, kv ...interface{}) { vhook.Emit("h", nil, kind, kv...) }

type lgRoundFail struct {
	Class  string `json:"class"`
	Detail string `json:"detail"`
}

// one round; returns the trace lines (nil when the round failed) and the failure
func lgRecordRound(round int, seed int64) ([]string, *lgRoundFail) {
	rng := rand.New(rand.NewSource(seed*1000003 + int64(round)))
	rec := &lgRec{racy: map[uint64]bool{}}
	w, err := lgNewWorld()
	if err != nil {
		return nil, &lgRoundFail{"logger/replay/world-not-built", err.Error()}
	}
	vhook.SetSink(rec.sink)
	defer vhook.SetSink(nil)
	lgEmit("reset", "round", round)

	const nL, nP = 4, 2
	clientOf := []int{0, 1, 2, 1, 4}
	var mu sync.Mutex // the harness' own tables
	conns := map[int]*lgConn{}
	dial := func(id int) *lgConn {
		mu.Lock()
		defer mu.Unlock()
		if c, ok := conns[id]; ok {
			return c
		}
		c, err := w.dial()
		if err != nil {
			return nil
		}
		conns[id] = c
		return c
	}
	lsts := make([]*lgListener, nL+1)
	provs := make([]*lgProvider, nP+1)
	pconns := make([]*lgConn, nP+1)
	provIdx := map[int]int{} // manager index -> slot
	admin, err := w.dial()
	if err != nil {
		return nil, &lgRoundFail{"logger/replay/world-not-built", err.Error()}
	}
	for p := 1; p <= nP; p++ {
		if pconns[p], err = w.dial(); err == nil {
			provs[p], err = pconns[p].newProvider(p)
		}
		if err != nil {
			return nil, &lgRoundFail{"logger/replay/world-not-built", err.Error()}
		}
		provs[p].note = func(slot int, t lgTold) {
			if t.K == "c" {
				lgEmit("told_c", "p", slot)
			}
		}
	}
	var failMu sync.Mutex
	var fail *lgRoundFail
	setFail := func(class, detail string) {
		failMu.Lock()
		if fail == nil {
			fail = &lgRoundFail{class, detail}
		}
		failMu.Unlock()
	}
	failed := func() bool { failMu.Lock(); defer failMu.Unlock(); return fail != nil }
	// call runs one operation of thread t with a wall-clock limit
	call := func(t int, o string, kv []interface{}, f func() lgOp) (lgOp, bool) {
		if failed() {
			return lgOp{}, false
		}
		lgEmit("call", append([]interface{}{"t", t, "o", o}, kv...)...)
		done := make(chan lgOp, 1)
		go func() { done <- f() }()
		select {
		case r := <-done:
			lgEmit("ret", "t", t, "r", r.R, "v", r.V)
			return r, true
		case <-time.After(lgBound):
			n, where := lgBlockedInLogger()
			class := "logger/blocked/concurrent-" + o + "-does-not-return"
			if strings.Contains(where, "terminateListener") && strings.Contains(where, "UpdateFilters") && strings.Contains(where, ".filter") {
				// the cycle of Dev_AddFilterHoldsLock, met by chance
				class = "logger/blocked/concurrent-deadlock-addfilter-log-terminate"
			}
			setFail(class, fmt.Sprintf("round %d: %s has not returned within %v (%d goroutine(s) wait for a lock inside bus/logger: %s) goroutines: %s", round, o, lgBound, n, where, lgStacks()))
			return lgOp{}, false
		}
	}
	args := func(l, p, v int, q string, msgs []lgM) []interface{} {
		if msgs == nil {
			msgs = []lgM{}
		}
		return []interface{}{"l", l, "p", p, "v", v, "q", q, "msgs", msgs}
	}
	var mgrMu sync.Mutex // calls to the manager object are issued one at a time (its mail box runs them one at a time)
	nextSlot, nextMsg := 1, 0
	create := func() int {
		mgrMu.Lock()
		defer mgrMu.Unlock()
		if nextSlot > nL {
			return 0
		}
		slot := nextSlot
		c := dial(clientOf[slot])
		if c == nil {
			setFail("logger/blocked/concurrent-new-client-not-served", fmt.Sprintf("round %d: the manager object does not answer a new client within %v", round, lgBound))
			return 0
		}
		if c.dead {
			return 0
		}
		nextSlot++
		_, ok := call(0, "create", args(slot, 0, 0, "", nil), func() lgOp {
			var lp logger.LogListenerProxy
			var err error
			if slot%2 == 1 {
				lp, err = c.mgr.CreateListener()
			} else {
				lp, err = c.mgr.GetListener()
			}
			if err != nil {
				return lgOp{R: 2}
			}
			l, err := c.attach(lp, slot, func(slot int, kind string, ids []int) {
				switch kind {
				case "recv":
					lgEmit("recv", "l", slot, "id", ids[0])
				case "batch":
					lgEmit("batch", "l", slot, "ids", ids)
				case "pev":
					lgEmit("pev", "l", slot, "v", ids[0])
				}
			})
			if err != nil {
				return lgOp{R: 2, V: -1}
			}
			mu.Lock()
			lsts[slot] = l
			mu.Unlock()
			lgEmit("subscribed", "l", slot)
			return lgOp{R: 1}
		})
		if !ok {
			return 0
		}
		return slot
	}
	addprov := func(p int) {
		mgrMu.Lock()
		defer mgrMu.Unlock()
		r, ok := call(0, "addprov", args(0, p, 0, "", nil), func() lgOp {
			id, err := pconns[p].mgr.AddProvider(provs[p].proxy)
			return lgOp{R: lgCode(err), V: int(id)}
		})
		if ok && r.R == 1 {
			mu.Lock()
			provIdx[r.V] = p
			mu.Unlock()
		}
	}
	rmprov := func(x int) {
		mgrMu.Lock()
		defer mgrMu.Unlock()
		call(0, "rmprov", args(0, 0, x, "", nil), func() lgOp { return lgOp{R: lgCode(admin.mgr.RemoveProvider(int32(x)))} })
	}
	cats := []string{"core", "core.net", "app"}
	logsome := func(p int) {
		mgrMu.Lock()
		defer mgrMu.Unlock()
		n := 1 + rng.Intn(2)
		ms := make([]lgM, n)
		msgs := make([]logger.LogMessage, n)
		for i := range ms {
			nextMsg++
			ms[i] = lgM{ID: nextMsg, Lvl: rng.Intn(7), Cat: cats[rng.Intn(len(cats))]}
			msgs[i] = lgMsg(ms[i].ID, ms[i].Lvl, ms[i].Cat)
		}
		call(0, "log", args(0, p, 0, "", ms), func() lgOp { pconns[p].mgr.Log(msgs); return lgOp{R: 1, V: -1} })
	}
	lop := func(slot int, o string, v int, q string) {
		mu.Lock()
		l := lsts[slot]
		mu.Unlock()
		if l == nil || l.conn.dead {
			return
		}
		lv := logger.LogLevel{Level: int32(v)}
		call(slot, o, args(slot, 0, v, q, nil), func() lgOp {
			switch o {
			case "setlevel":
				return lgOp{R: lgCode(l.proxy.SetLevel(lv)), V: -1}
			case "setprop":
				return lgOp{R: lgCode(l.proxy.SetLogLevel(lv)), V: -1}
			case "getprop":
				x, err := l.proxy.GetLogLevel()
				if err != nil {
					return lgOp{R: 2, V: -1}
				}
				return lgOp{R: 1, V: int(x.Level)}
			case "addfilter":
				return lgOp{R: lgCode(l.proxy.AddFilter(q, lv)), V: -1}
			case "clear":
				return lgOp{R: lgCode(l.proxy.ClearFilters()), V: -1}
			}
			return lgOp{R: lgCode(l.proxy.Terminate(l.proxy.Proxy().ObjectID())), V: -1}
		})
	}
	randop := func(slot int, r *rand.Rand) {
		qs := []string{"core", "app", "core", "app", "("}
		switch r.Intn(6) {
		case 0, 1:
			lop(slot, "setlevel", r.Intn(8), "")
		case 2:
			lop(slot, "setprop", r.Intn(8), "")
		case 3:
			lop(slot, "getprop", 0, "")
		case 4:
			lop(slot, "addfilter", r.Intn(8), qs[r.Intn(len(qs))])
		default:
			lop(slot, "clear", 0, "")
		}
	}

	// ---- the world is assembled by sequential calls ...
	addprov(1)
	create()
	create()
	create()
	// ---- ... and used concurrently
	var wg sync.WaitGroup
	seeds := make([]int64, 8)
	for i := range seeds {
		seeds[i] = rng.Int63()
	}
	terminator := 1 + rng.Intn(3)
	wg.Add(6)
	go func() { // provider 1 logs
		defer wg.Done()
		for k := 0; k < 8; k++ {
			logsome(1)
		}
	}()
	go func() { // provider 2 comes, logs and goes; unknown providers are removed
		defer wg.Done()
		r := rand.New(rand.NewSource(seeds[0]))
		rmprov(5 + r.Intn(3))
		addprov(2)
		logsome(2)
		if r.Intn(2) == 0 {
			rmprov(1)
		} else {
			rmprov(0)
		}
		logsome(2)
		rmprov(1)
	}()
	for slot := 1; slot <= 3; slot++ {
		go func(slot int) {
			defer wg.Done()
			r := rand.New(rand.NewSource(seeds[slot]))
			for k := 0; k < 6; k++ {
				randop(slot, r)
			}
			if slot == terminator {
				lop(slot, "terminate", 0, "")
				randop(slot, r) // refused: the object is gone
			}
		}(slot)
	}
	go func() { // a fourth listener appears meanwhile
		defer wg.Done()
		r := rand.New(rand.NewSource(seeds[4]))
		if slot := create(); slot != 0 {
			for k := 0; k < 3; k++ {
				randop(slot, r)
			}
		}
	}()
	wg.Wait()
	// ---- a client goes away; the others are still served
	if !failed() && conns[2] != nil {
		gone := 0
		for slot := 1; slot <= nL; slot++ {
			if clientOf[slot] == 2 && lsts[slot] != nil && slot != terminator {
				gone += 3
			}
		}
		var removes int64
		prev := rec.sink
		_ = prev
		cnt := func(e vhook.Event) {
			if e.Comp == "signal" && e.Ev == "remove" {
				atomic.AddInt64(&removes, 1)
			}
			rec.sink(e)
		}
		vhook.SetSink(cnt)
		lgEmit("drop", "l", 2)
		conns[2].dead = true
		conns[2].ep.Close()
		deadline := time.Now().Add(lgBound)
		for atomic.LoadInt64(&removes) < int64(gone) && time.Now().Before(deadline) {
			time.Sleep(50 * time.Microsecond)
		}
		if atomic.LoadInt64(&removes) < int64(gone) {
			setFail("logger/blocked/connection-loss-not-noticed", fmt.Sprintf("round %d: the server forgot %d of the %d subscriptions of a closed connection within %v", round, removes, gone, lgBound))
		}
		logsome(1)
		for slot := 1; slot <= nL; slot++ {
			if slot != 2 && lsts[slot] != nil {
				lop(slot, "setlevel", rng.Intn(7), "")
				break
			}
		}
		logsome(1)
	}
	if !failed() {
		for slot := 1; slot <= nL; slot++ {
			if l := lsts[slot]; l != nil && !l.conn.dead {
				if err := l.settle(); err != nil {
					setFail("logger/blocked/listener-connection-not-served", fmt.Sprintf("round %d listener %d: %v", round, slot, err))
				}
			}
		}
		lgEmit("quiet")
	}
	vhook.SetSink(nil)
	if fail != nil {
		return nil, fail
	}
	// shut the world down
	done := make(chan struct{})
	go func() {
		for _, c := range conns {
			c.ep.Close()
		}
		for p := 1; p <= nP; p++ {
			pconns[p].ep.Close()
		}
		admin.ep.Close()
		w.srv.Terminate()
		close(done)
	}()
	select {
	case <-done:
	case <-time.After(time.Second):
	}

	// ---- the trace: hook identities -> slots
	lstSlot := map[int]int{}  // vhook id of a logListenerImpl -> slot
	provSlot := map[int]int{} // vhook id of a provider proxy -> slot
	objSlot := map[uint32]int{}
	for slot := 1; slot <= nL; slot++ {
		if lsts[slot] != nil {
			objSlot[lsts[slot].proxy.Proxy().ObjectID()] = slot
		}
	}
	geti := func(m map[string]interface{}, k string) int {
		switch x := m[k].(type) {
		case int:
			return x
		case int32:
			return int(x)
		case uint32:
			return int(x)
		case int64:
			return int(x)
		case uint64:
			return int(x)
		}
		return -1
	}
	for _, e := range rec.evs {
		m := e.Map()
		switch e.Ev {
		case "lst_add":
			if slot, ok := objSlot[uint32(geti(m, "object"))]; ok {
				lstSlot[geti(m, "lst")] = slot
			}
		case "prov_add":
			if slot, ok := provIdx[geti(m, "index")]; ok {
				provSlot[geti(m, "prov")] = slot
			}
		}
	}
	filt := func(v interface{}) map[string]int {
		f := map[string]int{}
		for _, q := range lgPats {
			f[q] = -1
		}
		if fm, ok := v.(map[string]logger.LogLevel); ok {
			for k, lv := range fm {
				f[k] = int(lv.Level)
			}
		}
		return f
	}
	var lines []string
	for _, e := range rec.evs {
		m := e.Map()
		out := map[string]interface{}{"k": e.Ev, "seq": e.Seq}
		slotOf := func() (int, bool) { s, ok := lstSlot[geti(m, "lst")]; return s, ok }
		provOf := func() (int, bool) { s, ok := provSlot[geti(m, "prov")]; return s, ok }
		ok := true
		if e.Comp == "h" {
			for k, v := range m {
				if k != "comp" && k != "inst" && k != "ev" {
					out[k] = v
				}
			}
		} else {
			switch e.Ev {
			case "log_begin", "log_end":
			case "decide":
				out["l"], ok = slotOf()
				out["msg"], out["keep"] = geti(m, "msg"), m["keep"]
			case "lst_add":
				out["l"], ok = slotOf()
				out["index"] = geti(m, "index")
			case "lst_del", "lst_clear":
				out["l"], ok = slotOf()
			case "lst_level":
				out["l"], ok = slotOf()
				out["v"] = geti(m, "level")
			case "lst_filter":
				out["l"], ok = slotOf()
				out["q"], out["v"] = m["pat"], geti(m, "level")
			case "vjoin":
				out["v"], out["racy"] = geti(m, "level"), rec.racy[e.Seq]
			case "fjoin":
				out["f"], out["racy"] = filt(m["filters"]), rec.racy[e.Seq]
			case "vpush":
				out["p"], ok = provOf()
				out["v"] = geti(m, "level")
			case "fpush":
				out["p"], ok = provOf()
				out["f"] = filt(m["filters"])
			case "prov_add":
				out["p"], ok = provOf()
				out["index"] = geti(m, "index")
			case "prov_del", "prov_del_unknown":
				out["index"] = geti(m, "index")
			default:
				continue // lst_del_unknown ...: not part of the trace alphabet
			}
		}
		if !ok {
			return nil, &lgRoundFail{"logger/replay/trace-identity-unknown", fmt.Sprintf("round %d: event %s of an object the harness does not know: %v", round, e.Ev, m)}
		}
		b, err := json.Marshal(out)
		if err != nil {
			return nil, &lgRoundFail{"logger/replay/trace-not-written", err.Error()}
		}
		lines = append(lines, string(b))
	}
	return lines, nil
}

// logger-record-child <out.ndjson> <rounds> [part]: prints one JSON line
func cmdLoggerRecordChild(args []string) {
	rounds, _ := strconv.Atoi(args[1])
	part := 0
	if len(args) > 2 {
		part, _ = strconv.Atoi(args[2])
	}
	f, err := os.Create(args[0])
	if err != nil {
		hlib.Fatal("%v", err)
	}
	wr := bufio.NewWriter(f)
	out := map[string]interface{}{}
	done, events := 0, 0
	for round := 1; round <= rounds; round++ {
		lines, fail := lgRecordRound(part*50+round, hlib.Seed())
		if fail != nil {
			out["fail"] = fail
			break // goroutines of a stuck world are left behind: no further round in this process
		}
		for _, l := range lines {
			wr.WriteString(l)
			wr.WriteByte('\n')
		}
		wr.Flush() // whole rounds only
		done++
		events += len(lines)
	}
	wr.Flush()
	f.Close()
	out["rounds"], out["events"] = done, events
	b, _ := json.Marshal(out)
	fmt.Println(string(b))
}

// logger-record <out.ndjson> <rounds>: children of at most 50 rounds each (the servers of finished rounds leave
// goroutines behind); a round that is stuck or kills its process ends its child, the next child goes on
func cmdLoggerRecord(args []string) {
	var res hlib.Result
	rounds, _ := strconv.Atoi(args[1])
	out, err := os.Create(args[0])
	if err != nil {
		hlib.Fatal("%v", err)
	}
	defer out.Close()
	events, bad := 0, 0
	for part := 0; rounds > 0 && bad < 3; part++ {
		n := rounds
		if n > 50 {
			n = 50
		}
		tmp := fmt.Sprintf("%s.%d", args[0], part)
		cmd := exec.Command(os.Args[0], "logger-record-child", tmp, strconv.Itoa(n), strconv.Itoa(part))
		var stdout, stderr bytes.Buffer
		cmd.Stdout, cmd.Stderr = &stdout, &stderr
		if err := cmd.Start(); err != nil {
			hlib.Fatal("child: %v", err)
		}
		done := make(chan error, 1)
		go func() { done <- cmd.Wait() }()
		var info struct {
			Rounds int          `json:"rounds"`
			Events int          `json:"events"`
			Fail   *lgRoundFail `json:"fail"`
		}
		select {
		case err := <-done:
			if err != nil || json.Unmarshal(bytes.TrimSpace(stdout.Bytes()), &info) != nil {
				e := stderr.String()
				if len(e) > 1500 {
					e = e[:1500]
				}
				res.Fail(lgCrashClass(e), "the process serving the LogManager ended during the concurrent rounds: "+strings.SplitN(strings.TrimSpace(e), "\n", 2)[0], map[string]interface{}{"stderr": e})
				bad++
				rounds -= n // how far it got is not known
			} else {
				rounds -= info.Rounds
				if info.Fail != nil {
					res.Fail(info.Fail.Class, info.Fail.Detail, nil)
					bad++
					rounds--
				}
			}
		case <-time.After(time.Duration(30+2*n)*time.Second + 4*lgBound):
			cmd.Process.Kill()
			<-done
			res.Fail("logger/hang/concurrent-rounds-stalled-inside-the-code", "the concurrent rounds did not end", nil)
			bad++
			rounds -= n
		}
		// whole rounds only (a child that was killed leaves a torn round behind)
		if b, err := os.ReadFile(tmp); err == nil {
			var round []byte
			for _, line := range bytes.SplitAfter(b, []byte("\n")) {
				if bytes.HasPrefix(line, []byte(`{"k":"reset"`)) {
					round = nil
				}
				round = append(round, line...)
				if bytes.HasPrefix(line, []byte(`{"k":"quiet"`)) && bytes.HasSuffix(line, []byte("}\n")) {
					out.Write(round)
					events += bytes.Count(round, []byte("\n"))
					res.Evaluations++
					round = nil
				}
			}
		}
		os.Remove(tmp)
	}
	res.SetExtra("events", events)
	res.Emit()
}

// ---------------------------------------------------------------------------------------------------------
// logger-stress: listeners change their category filters at the same time.  UpdateFilters (log_manager.go
// l.113-125) iterates the filters map of EVERY listener under listenersMutex only, while AddFilter writes its
// own map under its own filtersMutex: the Go runtime ends the process when it notices ("concurrent map
// iteration and map write").
// ---------------------------------------------------------------------------------------------------------

// logger-stress-child <listeners> <iterations>
func cmdLoggerStressChild(args []string) {
	n, _ := strconv.Atoi(args[0])
	iters, _ := strconv.Atoi(args[1])
	w, err := lgNewWorld()
	if err != nil {
		hlib.Fatal("%v", err)
	}
	var wg sync.WaitGroup
	var unanswered int64
	for k := 0; k < n; k++ {
		c, err := w.dial()
		if err != nil {
			hlib.Fatal("%v", err)
		}
		lp, err := c.mgr.CreateListener()
		if err != nil {
			hlib.Fatal("createListener: %v", err)
		}
		wg.Add(1)
		go func(k int) {
			defer wg.Done()
			for i := 0; i < iters; i++ {
				done := make(chan struct{})
				go func() {
					if i%24 == 23 {
						lp.ClearFilters()
					} else {
						lp.AddFilter(fmt.Sprintf("c%d\\.x%d", k, i%24), logger.LogLevel{Level: int32(1 + i%6)})
					}
					close(done)
				}()
				select {
				case <-done:
				case <-time.After(lgBound):
					atomic.AddInt64(&unanswered, 1)
					return
				}
			}
		}(k)
	}
	wg.Wait()
	fmt.Printf("{\"unanswered\": %d}\n", unanswered)
}

// logger-stress <listeners> <iterations>
func cmdLoggerStress(args []string) {
	var res hlib.Result
	cmd := exec.Command(os.Args[0], "logger-stress-child", args[0], args[1])
	var stdout, stderr bytes.Buffer
	cmd.Stdout, cmd.Stderr = &stdout, &stderr
	if err := cmd.Start(); err != nil {
		hlib.Fatal("child: %v", err)
	}
	done := make(chan error, 1)
	go func() { done <- cmd.Wait() }()
	res.Evaluations = 1
	select {
	case err := <-done:
		var info struct {
			Unanswered int `json:"unanswered"`
		}
		if err != nil || json.Unmarshal(bytes.TrimSpace(stdout.Bytes()), &info) != nil {
			e := stderr.String()
			if len(e) > 1500 {
				e = e[:1500]
			}
			res.Fail(lgCrashClass(e), "listeners changing their category filters at the same time: the process serving the LogManager ended: "+strings.SplitN(strings.TrimSpace(e), "\n", 2)[0], map[string]interface{}{"stderr": e})
		} else if info.Unanswered > 0 {
			res.Fail("logger/blocked/concurrent-addfilter-does-not-return", fmt.Sprintf("%d addFilter / clearFilters call(s) were not answered within %v", info.Unanswered, lgBound), nil)
		}
	case <-time.After(120*time.Second + 4*lgBound):
		cmd.Process.Kill()
		res.Fail("logger/hang/filter-stress-stalled-inside-the-code", "the concurrent filter changes did not end", nil)
	}
	res.Emit()
}

func init() {
	hlib.Register("logger-stress", cmdLoggerStress)
	hlib.Register("logger-stress-child", cmdLoggerStressChild)
}
