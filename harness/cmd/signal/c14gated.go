package main

// C14 (b'): the complete schedules of PropertySteps.tla forced on the real code.
//
// The gates prop.{set,update}.{validate,save,notify} (bus/object.go) stop the
// mailbox goroutine / the service goroutine before each of the three steps; the
// driver releases exactly the actor the schedule names and waits until it is
// parked at its next gate or its call has returned.  Expected: the result of
// every call, the value of every read, the final register and every
// subscriber's event sequence, all computed by TLC.

import (
	"encoding/json"
	"fmt"
	"os"
	"reflect"
	"sync"
	"time"

	"github.com/lugu/qiloop/vhook"
	"verif/harness/hlib"
)

type gstepJ struct {
	A   string `json:"a"`
	St  string `json:"st"`
	N   int    `json:"n"`
	Ret struct {
		Done  int    `json:"done"`
		E     string `json:"e"`
		Sig   string `json:"sig"`
		Bytes []int  `json:"bytes"`
	} `json:"ret"`
}
type gschedJ struct {
	Steps     []gstepJ            `json:"steps"`
	Val       valJ                `json:"val"`
	Delivered map[string][]valueJ `json:"delivered"`
}

type arrival struct {
	point string
	n     int32
}

// gateCtl parks the goroutine of a call at the gates.  A value identifies the
// actor (the value sets of the actors are disjoint, an actor has one call in
// flight); cur[actor] is the release channel of its call in flight.
type gateCtl struct {
	arrivals chan arrival
	mu       sync.Mutex
	actorOf  map[int32]string
	cur      map[string]chan struct{}
}

func (g *gateCtl) relOf(n int32) chan struct{} {
	g.mu.Lock()
	defer g.mu.Unlock()
	a, ok := g.actorOf[n]
	if !ok {
		return nil
	}
	return g.cur[a]
}

var gatePoints = []string{"prop.set.validate", "prop.set.save", "prop.set.notify",
	"prop.update.validate", "prop.update.save", "prop.update.notify"}

func (g *gateCtl) install() {
	for _, p := range gatePoints {
		point := p
		vhook.SetGate(point, func(kv ...interface{}) {
			var data []byte
			for i := 0; i+1 < len(kv); i += 2 {
				if kv[i] == "data" {
					data, _ = kv[i+1].([]byte)
				}
			}
			if len(data) < 4 {
				return
			}
			n := int32(uint32(data[0]) | uint32(data[1])<<8 | uint32(data[2])<<16 | uint32(data[3])<<24)
			ch := g.relOf(n)
			if ch == nil {
				return
			}
			g.arrivals <- arrival{point, n}
			<-ch
		})
	}
}

func (g *gateCtl) remove() {
	for _, p := range gatePoints {
		vhook.SetGate(p, nil)
	}
}

type traceLog struct {
	f *os.File
}

func (t *traceLog) put(v map[string]interface{}) {
	if t == nil || t.f == nil {
		return
	}
	b, _ := json.Marshal(v)
	t.f.Write(append(b, '\n'))
}

func opRec(k string, n int, kind, s string) map[string]interface{} {
	return map[string]interface{}{"k": k, "n": n, "kind": kind, "s": s}
}
func retRec(r retJ) map[string]interface{} {
	return map[string]interface{}{"e": r.E, "sig": r.Sig, "bytes": normBytes(r.Bytes)}
}

func c14Gated(args []string) {
	if len(args) < 1 {
		hlib.Fatal("usage: c14-gated <schedules> [trace-out]")
	}
	var scheds []*gschedJ
	hlib.ReadLines(args[0], func(line []byte) {
		var l struct {
			K string
			V json.RawMessage
		}
		if err := json.Unmarshal(line, &l); err != nil {
			hlib.Fatal("bad line: %v", err)
		}
		if l.K == "S" {
			s := &gschedJ{}
			if err := json.Unmarshal(l.V, s); err != nil {
				hlib.Fatal("bad S line: %v", err)
			}
			scheds = append(scheds, s)
		}
	})
	var tl *traceLog
	if len(args) > 1 {
		f, err := os.Create(args[1])
		if err != nil {
			hlib.Fatal("create %s: %v", args[1], err)
		}
		defer f.Close()
		tl = &traceLog{f}
	}
	w := newWorld()
	writer := w.dial()
	subConns := map[string]*conn{"s1": w.dial(), "s2": w.dial()}
	// the gates must exist in this tree, else nothing below is a verdict
	{
		hit := 0
		for _, p := range gatePoints {
			vhook.SetGate(p, func(kv ...interface{}) { hit++ })
		}
		id, impl := w.addBomb()
		impl.helper.UpdateDelay(1)
		writer.bomb(w, id).SetDelay(2)
		for _, p := range gatePoints {
			vhook.SetGate(p, nil)
		}
		w.service.Remove(id)
		if hit != len(gatePoints) {
			hlib.Fatal("property gates missing in this tree: %d of %d gate points reached", hit, len(gatePoints))
		}
	}
	res := &hlib.Result{}
	shapes := map[string]bool{}
	traced := 0
	for si, sc := range scheds {
		shape := ""
		for _, st := range sc.Steps {
			shape += st.A + "." + st.St[:1] + " "
		}
		shapes[shape] = true
		class, detail := runGated(w, writer, subConns, sc, tl)
		if tl != nil {
			traced++
		}
		if class != "" {
			res.Fail(class, detail, map[string]interface{}{"schedule": sc.Steps, "index": si})
		}
	}
	res.Evaluations = len(scheds)
	res.Distinct = len(shapes)
	res.SetExtra("c14_gated_traces", traced)
	if len(scheds) > 0 {
		res.Sample(map[string]interface{}{"schedule": scheds[len(scheds)/2]})
	}
	res.Emit()
}

// runGated forces one schedule; returns a failure class ("" = conforms).
func runGated(w *world, writer *conn, subConns map[string]*conn, sc *gschedJ, tl *traceLog) (class, detail string) {
	id, impl := w.addBomb()
	defer w.service.Remove(id)
	bomb := writer.bomb(w, id)
	subs := map[string]*subscriber{}
	for n, c := range subConns {
		s := &subscriber{name: n, conn: c, bomb: c.bomb(w, id)}
		s.tap = c.tap(w.sid, id, delayID)
		tl.put(map[string]interface{}{"k": "inv", "c": n, "op": opRec("sub", 0, "", n)})
		if err := s.subscribe(); err != nil {
			hlib.Fatal("subscribe: %v", err)
		}
		tl.put(map[string]interface{}{"k": "res", "c": n, "r": retRec(retJ{})})
		subs[n] = s
	}
	g := &gateCtl{arrivals: make(chan arrival, 16), actorOf: map[int32]string{}, cur: map[string]chan struct{}{}}
	done := map[string]chan error{} // per actor: result of the call in flight
	for _, st := range sc.Steps {
		if st.St == "start" {
			g.actorOf[int32(st.N)] = st.A
		}
	}
	g.install()
	cleanup := func() {
		g.remove()
		g.mu.Lock()
		for a, ch := range g.cur {
			close(ch)
			delete(g.cur, a)
		}
		g.mu.Unlock()
		// let released calls finish
		for _, ch := range done {
			select {
			case <-ch:
			case <-time.After(TBound):
			}
		}
		for _, s := range subs {
			s.unsubscribe()
			s.tap.close()
		}
	}
	kindOf := func(a string) string {
		if a == "m" {
			return "set"
		}
		return "update"
	}
	// wait for the next thing actor (a, n) does: parks at a gate or returns
	next := func(actor string) (arr *arrival, err error, returned bool, timeout bool) {
		select {
		case a := <-g.arrivals:
			return &a, nil, false, false
		case e := <-done[actor]:
			delete(done, actor)
			g.mu.Lock()
			delete(g.cur, actor)
			g.mu.Unlock()
			return nil, e, true, false
		case <-time.After(TBound):
			return nil, nil, false, true
		}
	}
	failWith := func(c, d string) (string, string) {
		cleanup()
		tl.put(map[string]interface{}{"k": "reset"})
		return c, d
	}
	for i, st := range sc.Steps {
		n := int32(st.N)
		kind := kindOf(st.A)
		where := fmt.Sprintf("step %d (%s %s %d)", i, st.A, st.St, st.N)
		switch st.St {
		case "start":
			tl.put(map[string]interface{}{"k": "inv", "c": st.A, "op": opRec(kind, st.N, "", "")})
			dch := make(chan error, 1)
			done[st.A] = dch
			g.mu.Lock()
			g.cur[st.A] = make(chan struct{}, 4)
			g.mu.Unlock()
			if st.A == "m" {
				go func() { dch <- bomb.SetDelay(n) }()
			} else {
				go func() { dch <- impl.helper.UpdateDelay(n) }()
			}
			arr, _, returned, timeout := next(st.A)
			if timeout {
				return failWith("gated/"+kind+"/never-reaches-validation", where+": the call neither validated nor returned")
			}
			if returned || arr.n != n || arr.point != "prop."+kind+".validate" {
				return failWith("gated/"+kind+"/step-order", fmt.Sprintf("%s: expected the call parked before validation, got %+v returned=%v", where, arr, returned))
			}
		case "validate", "save", "notify":
			g.relOf(n) <- struct{}{}
			arr, err, returned, timeout := next(st.A)
			if timeout {
				return failWith("gated/"+kind+"/hangs-after-"+st.St, where+": no progress within the bound")
			}
			if st.Ret.Done == 1 {
				if !returned {
					return failWith("gated/"+kind+"/"+st.St+"-does-not-end-call", fmt.Sprintf("%s: expected the call to return, but it went on to %+v", where, *arr))
				}
				r := errRet(err)
				tl.put(map[string]interface{}{"k": "res", "c": st.A, "r": retRec(r)})
				if r.E != st.Ret.E {
					return failWith("gated/"+kind+"/result", fmt.Sprintf("%s: result %q, expected %q (%v)", where, r.E, st.Ret.E, err))
				}
			} else {
				want := map[string]string{"validate": "save", "save": "notify"}[st.St]
				if returned {
					return failWith("gated/"+kind+"/returns-after-"+st.St, fmt.Sprintf("%s: call returned (%v) instead of reaching %s", where, err, want))
				}
				if arr.n != n || arr.point != "prop."+kind+"."+want {
					return failWith("gated/"+kind+"/step-order", fmt.Sprintf("%s: expected gate %s, got %+v", where, want, *arr))
				}
			}
		case "get":
			tl.put(map[string]interface{}{"k": "inv", "c": "m", "op": opRec("get", 0, "", "")})
			r, _ := genericGet(bomb)
			tl.put(map[string]interface{}{"k": "res", "c": "m", "r": retRec(r)})
			exp := retJ{E: st.Ret.E, Sig: st.Ret.Sig, Bytes: st.Ret.Bytes}
			if r.E != exp.E || (r.E == "" && (r.Sig != exp.Sig || !reflect.DeepEqual(normBytes(r.Bytes), normBytes(exp.Bytes)))) {
				return failWith("gated/get/value", fmt.Sprintf("%s: read %s, expected %s", where, js(r), js(exp)))
			}
		}
	}
	g.remove()
	// final register
	_, v := genericGet(bomb)
	if v.Set != sc.Val.Set || (v.Set && (v.Sig != sc.Val.Sig || !reflect.DeepEqual(normBytes(v.Bytes), normBytes(sc.Val.Bytes)))) {
		return failWith("gated/final-value", fmt.Sprintf("register %s, expected %s", js(v), js(sc.Val)))
	}
	// events: exact sequence per subscriber
	for n, s := range subs {
		if err := s.fence(); err != nil {
			hlib.Fatal("fence: %v", err)
		}
		raw := s.tap.drain()
		exp := sc.Delivered[n]
		got := [][]int{}
		for _, p := range raw {
			got = append(got, ints(p))
			tl.put(map[string]interface{}{"k": "ev", "s": n, "bytes": ints(p)})
		}
		ok := len(got) == len(exp)
		for j := 0; ok && j < len(exp); j++ {
			ok = reflect.DeepEqual(got[j], normBytes(exp[j].Bytes))
		}
		if !ok {
			c := "gated/events/sequence"
			if len(got) < len(exp) {
				c = "gated/events/missing"
			} else if len(got) > len(exp) {
				c = "gated/events/extra"
			}
			return failWith(c, fmt.Sprintf("subscriber %s received %v, expected %s", n, got, js(exp)))
		}
		gen := s.takeGen(len(raw))
		okGen := len(gen) == len(raw)
		for j := 0; okGen && j < len(raw); j++ {
			okGen = reflect.DeepEqual(le32(gen[j]), raw[j][:4])
		}
		if !okGen {
			return failWith("subscribe-channel/differs-from-connection", fmt.Sprintf("subscriber %s: connection %v, channel %v", n, got, gen))
		}
	}
	tl.put(map[string]interface{}{"k": "end"})
	cleanup()
	for n := range subs {
		_ = n
	}
	tl.put(map[string]interface{}{"k": "reset"})
	return "", ""
}

func init() {
	hlib.Register("c14-gated", c14Gated)
}
