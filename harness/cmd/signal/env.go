package main

import (
	"bytes"
	"fmt"
	"sync"
	"time"

	"github.com/lugu/qiloop/bus"
	"github.com/lugu/qiloop/bus/net"
	"github.com/lugu/qiloop/bus/util"
	"github.com/lugu/qiloop/examples/space"
	"github.com/lugu/qiloop/type/object"
	"github.com/lugu/qiloop/type/value"
	"verif/harness/hlib"
)

// TBound is the bound for "within bounded time" verdicts: three orders of
// magnitude above the latency of a call on a local socket (< 1 ms).
var TBound = 5 * time.Second

func init() {
	if hlib.Thorough() {
		TBound = 20 * time.Second
	}
}

const (
	delayID = 101 // uid of property "delay" of examples/space Bomb
	boomID  = 100 // uid of signal "boom"
)

// bombImpl is the service implementation under the generated stub of
// examples/space: the validator rejects negative durations (the rule the
// specifications call ValidatorOK) and the helper gives access to the
// generated Update<Prop> / Signal<Sig> entry points.
type bombImpl struct {
	helper space.BombSignalHelper
	mu     sync.Mutex
	seen   []int32 // values handed to the validator
}

func (b *bombImpl) Activate(a bus.Activation, h space.BombSignalHelper) error {
	b.helper = h
	return nil
}
func (b *bombImpl) OnTerminate() {}
func (b *bombImpl) OnDelayChange(d int32) error {
	b.mu.Lock()
	b.seen = append(b.seen, d)
	b.mu.Unlock()
	if d < 0 {
		return fmt.Errorf("duration cannot be negative (%d)", d)
	}
	return nil
}

// world is one server with one service; objects are added per behaviour.
type world struct {
	addr    string
	srv     bus.Server
	service bus.Service
	sid     uint32
}

func newWorld() *world {
	addr := util.NewUnixAddr()
	l, err := net.Listen(addr)
	if err != nil {
		hlib.Fatal("listen %s: %v", addr, err)
	}
	srv, err := bus.StandAloneServer(l, bus.Yes{}, bus.PrivateNamespace())
	if err != nil {
		hlib.Fatal("server: %v", err)
	}
	service, err := srv.NewService("Bomb", space.BombObject(&bombImpl{}))
	if err != nil {
		hlib.Fatal("service: %v", err)
	}
	return &world{addr: addr, srv: srv, service: service, sid: service.ServiceID()}
}

// addBomb registers a fresh Bomb object and returns its id and implementation.
func (w *world) addBomb() (uint32, *bombImpl) {
	impl := &bombImpl{}
	id, err := w.service.Add(space.BombObject(impl))
	if err != nil {
		hlib.Fatal("add object: %v", err)
	}
	if impl.helper == nil {
		hlib.Fatal("object not activated")
	}
	return id, impl
}

// conn is one client connection with ONE bus.Client (what a Session keeps per
// endpoint): proxies made from it share the client's subscription state.
type conn struct {
	ep     net.EndPoint
	client bus.Client
	meta   *object.MetaObject
}

func (w *world) dial() *conn {
	ep, err := net.DialEndPoint(w.addr)
	if err != nil {
		hlib.Fatal("dial: %v", err)
	}
	if err = bus.Authenticate(ep); err != nil {
		hlib.Fatal("authenticate: %v", err)
	}
	c := &conn{ep: ep, client: bus.NewClient(bus.NewChannel(ep, bus.DefaultCap()))}
	return c
}

// bomb returns a generated proxy of object id over this connection.
func (c *conn) bomb(w *world, id uint32) space.BombProxy {
	return space.MakeBomb(nil, c.proxy(w, id))
}

func (c *conn) proxy(w *world, id uint32) bus.Proxy {
	if c.meta == nil {
		m, err := bus.GetMetaObject(c.client, w.sid, id)
		if err != nil {
			hlib.Fatal("meta object: %v", err)
		}
		c.meta = &m
	}
	return bus.NewProxy(c.client, *c.meta, w.sid, id)
}

// rawTap observes, synchronously inside the endpoint's dispatch, every Event
// message of (service, object, action) that reaches a connection: after a call
// made on the same connection has returned, the tap holds every event the
// server sent on it before the reply (the stream is FIFO, dispatch is
// sequential).
type rawTap struct {
	ep net.EndPoint
	id int
	q  chan *net.Message
}

func (c *conn) tap(sid, oid, action uint32) *rawTap {
	t := &rawTap{ep: c.ep, q: make(chan *net.Message, 1<<14)}
	t.id = c.ep.MakeHandler(func(h *net.Header) (bool, bool) {
		return h.Type == net.Event && h.Service == sid && h.Object == oid && h.Action == action, true
	}, t.q, nil)
	return t
}

// drain returns the payloads received so far.
func (t *rawTap) drain() [][]byte {
	var out [][]byte
	for {
		select {
		case m, ok := <-t.q:
			if !ok {
				return out
			}
			out = append(out, m.Payload)
		default:
			return out
		}
	}
}

func (t *rawTap) close() { t.ep.RemoveHandler(t.id) }

func le32(n int32) []byte {
	return []byte{byte(n), byte(n >> 8), byte(n >> 16), byte(n >> 24)}
}

func ints(b []byte) []int {
	r := make([]int, len(b))
	for i, x := range b {
		r[i] = int(x)
	}
	return r
}

func toBytes(b []int) []byte {
	r := make([]byte, len(b))
	for i, x := range b {
		r[i] = byte(x)
	}
	return r
}

// splitValue returns the signature and the data of a value.
func splitValue(v value.Value) (string, []byte) {
	return v.Signature(), value.Bytes(v)
}

var _ = bytes.NewBuffer
