package main

// C13: harness-owned connections and the server they are attached to.
//
//   pipe          an in-process duplex stream (net.Stream on both ends) whose
//                 server -> client direction the harness can break: from then on
//                 every Write of the server fails (io.EOF or another error), the
//                 client's own writes vanish and the server's reader stays
//                 blocked - the peer is gone and the server has not noticed.
//                 notice() ends the server's read direction (the reader sees
//                 io.EOF, the end point shuts down and runs its closers).
//                 The break, every failed Write and the notice are logged through
//                 the hook counter while the pipe's lock is held, and what the
//                 client side still logs (connection tap, subscribers) goes
//                 through alive(): the order of the trace is the order of the
//                 effects.
//   mixListener   what the server accepts from: real unix-socket connections and
//                 the server ends of pipes.
//   spyActor      an object of the scenario's service that remembers the
//                 server-side Channel of the connection it is called from: the
//                 harness can then make the server send any message to that
//                 client through the server's own send path.

import (
	"context"
	"errors"
	"fmt"
	"io"
	"sync"

	"github.com/lugu/qiloop/bus"
	"github.com/lugu/qiloop/bus/net"
)

type pipe struct {
	mu    sync.Mutex
	cond  *sync.Cond
	name  string // connection name of the cast ("c3")
	toCli []byte
	toSrv []byte
	// failure of the server -> client direction
	wfail   error // server writes fail with it
	gone    bool  // the client is gone: its writes vanish, nothing reaches it any more
	srvEOF  bool  // the server's reader sees the end of the stream
	srvShut bool  // the server closed its end
	cliShut bool  // the client closed its end
	fails   int   // failed server writes
}

func newPipe(name string) *pipe {
	p := &pipe{name: name}
	p.cond = sync.NewCond(&p.mu)
	return p
}

type pipeEnd struct {
	p   *pipe
	srv bool
}

var errBrokenPipe = errors.New("write: broken pipe (harness)")

func (e pipeEnd) Read(b []byte) (int, error) {
	p := e.p
	p.mu.Lock()
	defer p.mu.Unlock()
	if e.srv {
		for len(p.toSrv) == 0 && !p.srvEOF && !p.srvShut && !p.cliShut {
			p.cond.Wait()
		}
		if p.srvShut {
			return 0, io.ErrClosedPipe
		}
		if len(p.toSrv) == 0 {
			return 0, io.EOF
		}
		n := copy(b, p.toSrv)
		p.toSrv = p.toSrv[n:]
		return n, nil
	}
	for (len(p.toCli) == 0 || p.gone) && !p.cliShut && !(p.srvShut && !p.gone) {
		p.cond.Wait()
	}
	if p.cliShut {
		return 0, io.ErrClosedPipe
	}
	if len(p.toCli) == 0 {
		return 0, io.EOF
	}
	n := copy(b, p.toCli)
	p.toCli = p.toCli[n:]
	return n, nil
}

func (e pipeEnd) Write(b []byte) (int, error) {
	p := e.p
	p.mu.Lock()
	defer p.mu.Unlock()
	if e.srv {
		if p.wfail != nil || p.srvShut {
			p.fails++
			hev("sendfail", "c", p.name)
			if p.wfail != nil && !p.srvShut {
				return 0, p.wfail
			}
			return 0, io.ErrClosedPipe
		}
		p.toCli = append(p.toCli, b...)
		p.cond.Broadcast()
		return len(b), nil
	}
	if p.cliShut {
		return 0, io.ErrClosedPipe
	}
	if p.gone || p.srvShut {
		return len(b), nil
	}
	p.toSrv = append(p.toSrv, b...)
	p.cond.Broadcast()
	return len(b), nil
}

func (e pipeEnd) Close() error {
	p := e.p
	p.mu.Lock()
	if e.srv {
		p.srvShut = true
	} else {
		p.cliShut = true
	}
	p.cond.Broadcast()
	p.mu.Unlock()
	return nil
}

func (e pipeEnd) String() string {
	if e.srv {
		return "harness://" + e.p.name + "/srv"
	}
	return "harness://" + e.p.name + "/cli"
}
func (e pipeEnd) Context() context.Context { return context.Background() }

// breakWrites: the client is gone, the server's writes fail from now on
// ("eof": with io.EOF).  Logged under the lock: every server write is entirely
// before or entirely after it.
func (p *pipe) breakWrites(kind string) {
	p.mu.Lock()
	if p.wfail == nil {
		if kind == "eof" {
			p.wfail = io.EOF
		} else {
			p.wfail = errBrokenPipe
		}
		p.gone = true
		p.toCli = nil
		hev("break", "c", p.name, "kind", kind)
	}
	p.mu.Unlock()
}

// notice: the server's reader sees the end of the stream.
func (p *pipe) notice() {
	p.mu.Lock()
	if !p.srvEOF {
		p.srvEOF = true
		hev("notice", "c", p.name)
		p.cond.Broadcast()
	}
	p.mu.Unlock()
}

func (p *pipe) broken() bool {
	p.mu.Lock()
	defer p.mu.Unlock()
	return p.gone
}

func (p *pipe) noticed() bool {
	p.mu.Lock()
	defer p.mu.Unlock()
	return p.srvEOF
}

// alive runs f (which logs something seen on the client side) unless the client
// is gone; atomic with breakWrites.  A nil pipe is a socket connection.
func (p *pipe) alive(f func()) {
	if p == nil {
		f()
		return
	}
	p.mu.Lock()
	if !p.gone {
		f()
	}
	p.mu.Unlock()
}

// mixListener hands the server real connections and pipe ends.
type mixListener struct {
	real net.Listener
	ch   chan net.Stream
	done chan struct{}
	once sync.Once
}

func newMixListener(real net.Listener) *mixListener {
	m := &mixListener{real: real, ch: make(chan net.Stream, 64), done: make(chan struct{})}
	go func() {
		for {
			s, err := real.Accept()
			if err != nil {
				return
			}
			select {
			case m.ch <- s:
			case <-m.done:
				s.Close()
				return
			}
		}
	}()
	return m
}

func (m *mixListener) Accept() (net.Stream, error) {
	select {
	case s := <-m.ch:
		return s, nil
	case <-m.done:
		return nil, fmt.Errorf("listener closed")
	}
}

func (m *mixListener) Close() error {
	m.once.Do(func() { close(m.done) })
	return m.real.Close()
}

// spyActor answers any call with an empty reply after remembering where the
// call came from.
type spyActor struct {
	mu   sync.Mutex
	from map[uint32]bus.Channel // call id -> the caller's channel
}

func (a *spyActor) Receive(msg *net.Message, from bus.Channel) error {
	a.mu.Lock()
	if a.from == nil {
		a.from = map[uint32]bus.Channel{}
	}
	a.from[msg.Header.Action] = from
	a.mu.Unlock()
	return from.SendReply(msg, []byte{})
}
func (a *spyActor) Activate(bus.Activation) error { return nil }
func (a *spyActor) OnTerminate()                  {}

func (a *spyActor) channel(token uint32) bus.Channel {
	a.mu.Lock()
	defer a.mu.Unlock()
	return a.from[token]
}
