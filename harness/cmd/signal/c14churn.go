package main

// C14 (b''): complete schedules of PropertySteps.tla with a changing set of
// subscribers (GenPropertySteps_churn*.cfg) forced on the real code.
//
// Cast: the remote writer "m" (own connection), service goroutines u1/u2,
// raw subscribers s1 s2 s3 of the property and f of another signal of the same
// object, each on its own connection (registerEvent / unregisterEvent called
// directly, events observed by a tap inside the connection's dispatch).
//
// Gates: prop.{set,update}.{validate,save,notify} (bus/object.go) as in
// c14-gated; signal.update.send (bus/signal.go) parks the emitter before every
// single send and tells to whom; signal.register / signal.unregister /
// signal.unregister.ack park the mailbox goroutine inside a (un)registration.
// A disconnection has no gate: the subscriber's connection is closed and the
// driver waits for the hook event `remove` of that user (emitted under
// signalsMutex by forgetSignalUser).
//
// Computed by TLC: the result of every call, the final register, and per
// accepted write the subscribers ENTITLED to exactly one event (subscription
// acknowledged before the write was accepted, no request to leave before the
// emission ended) and the subscribers ALLOWED to receive one (joining / leaving
// meanwhile).  Verdicts are the accounting against these sets - nobody twice,
// every entitled subscriber once, nobody outside the allowed set, the events of
// one writer in order - on the events the subscribers' connections received.  To whom the emitter turns next is also predicted by the model
// of the pinned code; a difference there is counted (c14_churn_other_order) but is
// no verdict: an implementation may treat a leaving subscriber differently.

import (
	"encoding/json"
	"fmt"
	"os"
	"reflect"
	"sync"
	"time"

	"github.com/lugu/qiloop/examples/space"
	"github.com/lugu/qiloop/vhook"
	"verif/harness/hlib"
)

type cstepJ struct {
	A   string `json:"a"`
	St  string `json:"st"`
	N   int    `json:"n"`
	S   string `json:"s"`
	Nx  string `json:"nx"`
	Fe  int    `json:"fe"`
	Ret struct {
		Done  int    `json:"done"`
		E     string `json:"e"`
		Sig   string `json:"sig"`
		Bytes []int  `json:"bytes"`
	} `json:"ret"`
}
type acctJ struct {
	V    valueJ   `json:"v"`
	By   string   `json:"by"`
	Must []string `json:"must"`
	May  []string `json:"may"`
}
type cschedJ struct {
	Steps     []cstepJ            `json:"steps"`
	Val       valJ                `json:"val"`
	Init      []string            `json:"init"`
	Delivered map[string][]valueJ `json:"delivered"`
	Acct      []acctJ             `json:"acct"`
}

var churnNames = []string{"s1", "s2", "s3", "f"}

const knownSendErr = "accepted-write-reports-delivery-error"

// rawSub is a subscriber that talks registerEvent / unregisterEvent itself.
type rawSub struct {
	name string
	c    *conn
	obj  space.BombProxy // proxy of the object under test on c
	aux  space.BombProxy // proxy of the service's first object: fence that does not need the mailbox under test
	tap  *rawTap
	uid  uint64
	sig  uint32
	reg  bool
	got  [][]int
}

func (s *rawSub) connect(w *world) {
	if s.c == nil {
		s.c = w.dial()
		s.aux = s.c.bomb(w, 1)
	}
}

// attach binds the subscriber to a fresh object.
func (s *rawSub) attach(w *world, id uint32, uid uint64) {
	s.connect(w)
	s.obj = s.c.bomb(w, id)
	s.tap = s.c.tap(w.sid, id, delayID)
	s.uid = uid
	s.reg = false
	s.got = nil
	s.sig = delayID
	if s.name == "f" {
		s.sig = boomID
	}
}

func (s *rawSub) register(id uint32) error {
	_, err := s.obj.RegisterEvent(id, s.sig, s.uid)
	return err
}

func (s *rawSub) unregister(id uint32) error {
	return s.obj.UnregisterEvent(id, s.sig, s.uid)
}

// collect: after the fence call has returned, every event sent to this
// connection before the call was made is in the tap.
func (s *rawSub) collect() ([][]int, error) {
	if s.c == nil {
		return nil, nil
	}
	if _, err := s.aux.IsStatsEnabled(); err != nil {
		return nil, err
	}
	var fresh [][]int
	for _, p := range s.tap.drain() {
		fresh = append(fresh, ints(p))
	}
	s.got = append(s.got, fresh...)
	return fresh, nil
}

func (s *rawSub) drop() {
	if s.c != nil {
		s.c.ep.Close()
		s.c = nil
	}
}

type carrival struct {
	key   string
	point string
	user  uint64
}

type cgate struct {
	arrivals chan carrival
	mu       sync.Mutex
	rel      map[string]chan struct{}
	byVal    map[int32]string
	byUID    map[uint64]string
	off      bool
}

var churnGates = append(append([]string{}, gatePoints...),
	"signal.update.send", "signal.register", "signal.unregister", "signal.unregister.ack")

func kvGet(kv []interface{}, key string) interface{} {
	for i := 0; i+1 < len(kv); i += 2 {
		if kv[i] == key {
			return kv[i+1]
		}
	}
	return nil
}

func dataInt32(kv []interface{}) (int32, bool) {
	data, _ := kvGet(kv, "data").([]byte)
	if len(data) < 4 {
		return 0, false
	}
	return int32(uint32(data[0]) | uint32(data[1])<<8 | uint32(data[2])<<16 | uint32(data[3])<<24), true
}

func (g *cgate) relOf(key string) chan struct{} {
	g.mu.Lock()
	defer g.mu.Unlock()
	if g.off {
		return nil
	}
	ch, ok := g.rel[key]
	if !ok {
		ch = make(chan struct{}, 8)
		g.rel[key] = ch
	}
	return ch
}

func (g *cgate) install() {
	for _, p := range churnGates {
		point := p
		vhook.SetGate(point, func(kv ...interface{}) {
			key := ""
			var user uint64
			switch point {
			case "signal.register", "signal.unregister", "signal.unregister.ack":
				user, _ = kvGet(kv, "user").(uint64)
				g.mu.Lock()
				key = g.byUID[user]
				g.mu.Unlock()
			default:
				n, ok := dataInt32(kv)
				if !ok {
					return
				}
				g.mu.Lock()
				key = g.byVal[n]
				g.mu.Unlock()
				if point == "signal.update.send" {
					user, _ = kvGet(kv, "user").(uint64)
				}
			}
			if key == "" {
				return
			}
			ch := g.relOf(key)
			if ch == nil {
				return
			}
			g.arrivals <- carrival{key, point, user}
			<-ch
		})
	}
}

// open releases everybody and stops parking.
func (g *cgate) open() {
	g.mu.Lock()
	g.off = true
	for _, ch := range g.rel {
		close(ch)
	}
	g.mu.Unlock()
	for _, p := range churnGates {
		vhook.SetGate(p, nil)
	}
}

type churnRunner struct {
	w       *world
	writer  *conn
	subs    map[string]*rawSub
	removed chan uint64
	nextUID uint64
	other   int // schedules where the emitter's order differed from the code model (no verdict)
	confuse int // schedule counter: every other one adds the foreign-signal pair under the subscriber's id
	// foreign registrations under an id in use that the code acknowledged (it refuses them today)
	confuseAccepted int
}

func c14Churn(args []string) {
	if len(args) < 1 {
		hlib.Fatal("usage: c14-churn <schedules> [trace-out]")
	}
	var scheds []*cschedJ
	hlib.ReadLines(args[0], func(line []byte) {
		var l struct {
			K string
			V json.RawMessage
		}
		if err := json.Unmarshal(line, &l); err != nil {
			hlib.Fatal("bad line: %v", err)
		}
		if l.K == "S" {
			s := &cschedJ{}
			if err := json.Unmarshal(l.V, s); err != nil {
				hlib.Fatal("bad S line: %v", err)
			}
			scheds = append(scheds, s)
		}
	})
	var tl *traceLog
	if len(args) > 1 {
		f, err := os.Create(args[1])
		if err != nil {
			hlib.Fatal("create %s: %v", args[1], err)
		}
		defer f.Close()
		tl = &traceLog{f}
	}
	w := newWorld()
	k := &churnRunner{w: w, writer: w.dial(), subs: map[string]*rawSub{}, removed: make(chan uint64, 64), nextUID: 5000}
	for _, n := range churnNames {
		k.subs[n] = &rawSub{name: n}
	}
	vhook.SetSink(func(e vhook.Event) {
		if e.Comp == "signal" && e.Ev == "remove" {
			if u, ok := kvGet(e.KV, "user").(uint64); ok {
				select {
				case k.removed <- u:
				default:
				}
			}
		}
	})
	defer vhook.SetSink(nil)
	// the gates must exist in this tree, else nothing below is a verdict
	{
		var mu sync.Mutex
		hit := map[string]bool{}
		for _, p := range churnGates {
			point := p
			vhook.SetGate(point, func(kv ...interface{}) { mu.Lock(); hit[point] = true; mu.Unlock() })
		}
		id, impl := w.addBomb()
		s := k.subs["s1"]
		s.attach(w, id, 4999)
		if err := s.register(id); err != nil {
			hlib.Fatal("probe register: %v", err)
		}
		impl.helper.UpdateDelay(1)
		k.writer.bomb(w, id).SetDelay(2)
		if err := s.unregister(id); err != nil {
			hlib.Fatal("probe unregister: %v", err)
		}
		s.tap.close()
		for _, p := range churnGates {
			vhook.SetGate(p, nil)
		}
		w.service.Remove(id)
		if len(hit) != len(churnGates) {
			hlib.Fatal("gates missing in this tree: %d of %d gate points reached (%v)", len(hit), len(churnGates), hit)
		}
	}
	res := &hlib.Result{}
	shapes := map[string]bool{}
	known := 0
	ran, bad := 0, 0
	for si, sc := range scheds {
		if bad >= 60 {
			break // enough evidence; failing schedules may each cost a bounded wait
		}
		ran++
		shape := fmt.Sprint(sc.Init) + " "
		for _, st := range sc.Steps {
			shape += st.A + "." + st.St[:2] + " "
		}
		shapes[shape] = true
		fails := k.run(sc, tl)
		for _, f := range fails {
			if f[0] == knownSendErr {
				known++
			} else {
				bad++
			}
			res.Fail(f[0], f[1], map[string]interface{}{"schedule": sc.Steps, "init": sc.Init, "index": si, "source": "churn"})
		}
	}
	res.Evaluations = ran
	res.Distinct = len(shapes)
	res.SetExtra("c14_churn_send_error_results", known)
	res.SetExtra("c14_churn_other_order", k.other)
	res.SetExtra("c14_churn_foreign_registration_under_used_id_acknowledged", k.confuseAccepted)
	if len(scheds) > 0 {
		res.Sample(map[string]interface{}{"schedule": scheds[len(scheds)/2]})
	}
	res.Emit()
}

// run forces one schedule; returns the failures as (class, detail).
func (k *churnRunner) run(sc *cschedJ, tl *traceLog) (fails [][2]string) {
	w := k.w
	id, impl := w.addBomb()
	defer w.service.Remove(id)
	bomb := k.writer.bomb(w, id)
	g := &cgate{arrivals: make(chan carrival, 64), rel: map[string]chan struct{}{}, byVal: map[int32]string{}, byUID: map[uint64]string{}}
	nameOf := map[uint64]string{}
	for _, n := range churnNames {
		k.nextUID++
		s := k.subs[n]
		s.attach(w, id, k.nextUID)
		g.byUID[s.uid] = n
		nameOf[s.uid] = n
	}
	for _, n := range sc.Init {
		s := k.subs[n]
		if n != "f" {
			tl.put(map[string]interface{}{"k": "inv", "c": n, "op": opRec("sub", 0, "", n)})
		}
		if err := s.register(id); err != nil {
			hlib.Fatal("register %s: %v", n, err)
		}
		s.reg = true
		if n != "f" {
			tl.put(map[string]interface{}{"k": "res", "c": n, "r": retRec(retJ{})})
		}
		// every other schedule: the subscriber also asks for ANOTHER signal of the object under the user id its
		// property subscription holds, and - if that is acknowledged (the code refuses an id in use) - cancels it
		// again.  Either way the property's subscribers are unchanged (PropertySteps.tla: no step), so every
		// expectation of the schedule stands.
		if n != "f" && k.confuse%2 == 1 {
			if _, err := s.obj.RegisterEvent(id, boomID, s.uid); err == nil {
				k.confuseAccepted++
				s.obj.UnregisterEvent(id, boomID, s.uid)
			}
		}
	}
	k.confuse++
	for _, st := range sc.Steps {
		if st.St == "start" {
			g.byVal[int32(st.N)] = st.A
		}
	}
	// drain stale removal notices
	for len(k.removed) > 0 {
		<-k.removed
	}
	done := map[string]chan error{}
	parked := map[string]*carrival{} // emitter parked before a send
	sent := map[string][]string{}    // subscribers the emission in progress has sent to
	emOver := map[string]bool{}
	anyClosed, differs := false, false
	g.install()
	cleaned := false
	cleanup := func() {
		if cleaned {
			return
		}
		cleaned = true
		g.open()
		for _, ch := range done {
			select {
			case <-ch:
			case <-time.After(TBound):
			}
		}
		for _, n := range churnNames {
			s := k.subs[n]
			if s.c != nil {
				if s.reg {
					s.unregister(id)
				}
				s.tap.close()
			}
		}
	}
	abort := func(c, d string) [][2]string {
		cleanup()
		tl.put(map[string]interface{}{"k": "reset"})
		return append(fails, [2]string{c, d})
	}
	kindOf := func(a string) string {
		if a == "m" {
			return "set"
		}
		return "update"
	}
	// what key does next: parks at a gate or its call returns
	next := func(key string) (arr *carrival, err error, returned, timeout bool) {
		select {
		case a := <-g.arrivals:
			return &a, nil, false, false
		case e := <-done[key]:
			delete(done, key)
			return nil, e, true, false
		case <-time.After(TBound):
			return nil, nil, false, true
		}
	}
	release := func(key string) {
		if ch := g.relOf(key); ch != nil {
			ch <- struct{}{}
		}
	}
	for i, st := range sc.Steps {
		n := int32(st.N)
		kind := kindOf(st.A)
		where := fmt.Sprintf("step %d (%s %s %d %s)", i, st.A, st.St, st.N, st.S)
		switch st.St {
		case "start":
			tl.put(map[string]interface{}{"k": "inv", "c": st.A, "op": opRec(kind, st.N, "", "")})
			dch := make(chan error, 1)
			done[st.A] = dch
			parked[st.A], sent[st.A], emOver[st.A] = nil, nil, false
			if st.A == "m" {
				go func() { dch <- bomb.SetDelay(n) }()
			} else {
				go func() { dch <- impl.helper.UpdateDelay(n) }()
			}
			arr, _, returned, timeout := next(st.A)
			if timeout {
				return abort("churn/"+kind+"/never-reaches-validation", where+": the call neither validated nor returned")
			}
			if returned || arr.key != st.A || arr.point != "prop."+kind+".validate" {
				return abort("churn/"+kind+"/step-order", fmt.Sprintf("%s: expected the call parked before validation, got %+v returned=%v", where, arr, returned))
			}
		case "validate", "save":
			release(st.A)
			arr, err, returned, timeout := next(st.A)
			if timeout {
				return abort("churn/"+kind+"/hangs-after-"+st.St, where+": no progress within the bound")
			}
			if st.Ret.Done == 1 {
				if !returned {
					return abort("churn/"+kind+"/"+st.St+"-does-not-end-call", fmt.Sprintf("%s: expected the call to return, but it went on to %+v", where, *arr))
				}
				r := errRet(err)
				tl.put(map[string]interface{}{"k": "res", "c": st.A, "r": retRec(r)})
				if r.E != st.Ret.E {
					return abort("churn/"+kind+"/result", fmt.Sprintf("%s: result %q, expected %q (%v)", where, r.E, st.Ret.E, err))
				}
			} else {
				want := map[string]string{"validate": "save", "save": "notify"}[st.St]
				if returned {
					return abort("churn/"+kind+"/returns-after-"+st.St, fmt.Sprintf("%s: call returned (%v) instead of reaching %s", where, err, want))
				}
				if arr.key != st.A || arr.point != "prop."+kind+"."+want {
					return abort("churn/"+kind+"/step-order", fmt.Sprintf("%s: expected gate %s, got %+v", where, want, *arr))
				}
			}
		case "snapshot", "send":
			if emOver[st.A] {
				continue // the real emission ended earlier than the model's (no verdict by itself)
			}
			// drive the emitter one step; when the model says the emission is over
			// but the emitter wants to go on, let it finish now
			for first := true; first || st.Nx == ""; first = false {
				if p := parked[st.A]; p != nil {
					to := nameOf[p.user]
					if to == "" {
						return abort("churn/emission/send-to-unknown-user", fmt.Sprintf("%s: send to user %d", where, p.user))
					}
					// (a repeated send or a send to the subscriber of another signal is judged
					// by what the subscribers receive, below)
					sent[st.A] = append(sent[st.A], to)
					if first && st.St == "send" && to != st.S {
						differs = true
					}
				}
				release(st.A)
				arr, err, returned, timeout := next(st.A)
				if timeout {
					return abort("churn/"+kind+"/hangs-in-emission", where+": no progress within the bound")
				}
				if returned {
					parked[st.A] = nil
					emOver[st.A] = true
					if st.Nx != "" {
						differs = true
					}
					r := errRet(err)
					tl.put(map[string]interface{}{"k": "res", "c": st.A, "r": retRec(r)})
					if r.E != "" {
						if anyClosed {
							// the write was accepted, saved and broadcast; the error of the send to
							// a disconnected subscriber is returned to the writer
							fails = append(fails, [2]string{knownSendErr, fmt.Sprintf("%s: accepted write returned %v", where, err)})
						} else {
							return abort("churn/"+kind+"/result", fmt.Sprintf("%s: the accepted write returned %v", where, err))
						}
					}
					break
				}
				if arr.key != st.A || arr.point != "signal.update.send" {
					return abort("churn/"+kind+"/step-order", fmt.Sprintf("%s: expected the emitter before a send or the return of the call, got %+v", where, *arr))
				}
				parked[st.A] = arr
				if nameOf[arr.user] != st.Nx {
					differs = true
				}
			}
		case "get":
			tl.put(map[string]interface{}{"k": "inv", "c": "m", "op": opRec("get", 0, "", "")})
			r, _ := genericGet(bomb)
			tl.put(map[string]interface{}{"k": "res", "c": "m", "r": retRec(r)})
			exp := retJ{E: st.Ret.E, Sig: st.Ret.Sig, Bytes: st.Ret.Bytes}
			if r.E != exp.E || (r.E == "" && (r.Sig != exp.Sig || !reflect.DeepEqual(normBytes(r.Bytes), normBytes(exp.Bytes)))) {
				return abort("churn/get/value", fmt.Sprintf("%s: read %s, expected %s", where, js(r), js(exp)))
			}
		case "subreq", "unsubreq":
			s := k.subs[st.S]
			op, point := "sub", "signal.register"
			if st.St == "unsubreq" {
				op, point = "unsub", "signal.unregister"
			}
			if st.S != "f" {
				tl.put(map[string]interface{}{"k": "inv", "c": st.S, "op": opRec(op, 0, "", st.S)})
			}
			dch := make(chan error, 1)
			done[st.S] = dch
			if op == "sub" {
				go func() { dch <- s.register(id) }()
			} else {
				go func() { dch <- s.unregister(id) }()
			}
			arr, err, returned, timeout := next(st.S)
			if timeout || returned || arr.key != st.S || arr.point != point {
				return abort("churn/"+op+"/step-order", fmt.Sprintf("%s: expected the mailbox goroutine at %s, got %+v returned=%v (%v) timeout=%v", where, point, arr, returned, err, timeout))
			}
		case "reg", "unsuback":
			op := map[string]string{"reg": "sub", "unsuback": "unsub"}[st.St]
			release(st.S)
			arr, err, returned, timeout := next(st.S)
			if timeout || !returned {
				return abort("churn/"+op+"/no-acknowledgement", fmt.Sprintf("%s: the call did not return: %+v timeout=%v", where, arr, timeout))
			}
			if err != nil {
				return abort("churn/"+op+"/result", fmt.Sprintf("%s: %v", where, err))
			}
			k.subs[st.S].reg = op == "sub"
			if st.S != "f" {
				tl.put(map[string]interface{}{"k": "res", "c": st.S, "r": retRec(retJ{})})
			}
		case "suback":
			// the acknowledgement left with the release of signal.register
		case "unreg":
			release(st.S)
			arr, err, returned, timeout := next(st.S)
			if timeout || returned || arr.key != st.S || arr.point != "signal.unregister.ack" {
				return abort("churn/unsub/step-order", fmt.Sprintf("%s: expected the mailbox goroutine before the acknowledgement, got %+v returned=%v (%v)", where, arr, returned, err))
			}
		case "disc":
			s := k.subs[st.S]
			fresh, err := s.collect()
			if err != nil {
				hlib.Fatal("fence %s: %v", st.S, err)
			}
			for _, b := range fresh {
				tl.put(map[string]interface{}{"k": "ev", "s": st.S, "bytes": b})
			}
			if st.S != "f" {
				tl.put(map[string]interface{}{"k": "close", "s": st.S})
			}
			uid := s.uid
			// forget the removal notices of earlier unregistrations (this subscriber may have
			// left and come back with the same user id): the one awaited is the server's
			// reaction to the close
			for len(k.removed) > 0 {
				<-k.removed
			}
			s.tap.close()
			s.drop()
			s.reg = false
			anyClosed = true
			deadline := time.After(TBound)
			for gone := false; !gone; {
				select {
				case u := <-k.removed:
					gone = u == uid
				case <-deadline:
					return abort("churn/disconnect/registration-not-forgotten", where+": no removal of the registration of the closed connection within the bound")
				}
			}
			if st.S != "f" {
				tl.put(map[string]interface{}{"k": "gone", "s": st.S})
			}
		default:
			hlib.Fatal("unknown step %q", st.St)
		}
	}
	// final register
	_, v := genericGet(bomb)
	if v.Set != sc.Val.Set || (v.Set && (v.Sig != sc.Val.Sig || !reflect.DeepEqual(normBytes(v.Bytes), normBytes(sc.Val.Bytes)))) {
		return abort("churn/final-value", fmt.Sprintf("register %s, expected %s", js(v), js(sc.Val)))
	}
	// events: accounting per subscriber and accepted write
	for _, n := range churnNames {
		s := k.subs[n]
		fresh, err := s.collect()
		if err != nil {
			hlib.Fatal("fence %s: %v", n, err)
		}
		for _, b := range fresh {
			tl.put(map[string]interface{}{"k": "ev", "s": n, "bytes": b})
		}
		got := s.got
		count := make([]int, len(sc.Acct))
		lastOf := map[string]int{}
		for _, e := range got {
			i := -1
			for j, a := range sc.Acct {
				if reflect.DeepEqual(e, normBytes(a.V.Bytes)) {
					i = j
				}
			}
			switch {
			case i < 0:
				return abort("churn/events/not-an-accepted-write", fmt.Sprintf("subscriber %s received %v: %v is no accepted write of this run", n, got, e))
			case n == "f":
				return abort("churn/events/subscriber-of-another-signal", fmt.Sprintf("subscriber %s (signal %d) received %v", n, boomID, got))
			case !has(sc.Acct[i].May, n):
				return abort("churn/events/outside-subscription", fmt.Sprintf("subscriber %s received %v, but was not subscribed, joining or leaving during the emission of %v", n, got, e))
			}
			count[i]++
			if count[i] > 1 {
				return abort("churn/events/duplicate", fmt.Sprintf("subscriber %s received %v: two events for the write of %v", n, got, e))
			}
			if l, ok := lastOf[sc.Acct[i].By]; ok && l > i {
				return abort("churn/events/order-of-one-writer", fmt.Sprintf("subscriber %s received %v: writes of %s out of order", n, got, sc.Acct[i].By))
			}
			lastOf[sc.Acct[i].By] = i
		}
		for i, a := range sc.Acct {
			if has(a.Must, n) && count[i] != 1 {
				return abort("churn/events/missing", fmt.Sprintf("subscriber %s received %v: no event for the write of %v, although its subscription was acknowledged before the write and it did not ask to leave", n, got, a.V.Bytes))
			}
		}
		exp := sc.Delivered[n]
		same := len(got) == len(exp)
		for j := 0; same && j < len(exp); j++ {
			same = reflect.DeepEqual(got[j], normBytes(exp[j].Bytes))
		}
		if !same {
			differs = true
		}
	}
	if differs {
		k.other++
	}
	tl.put(map[string]interface{}{"k": "end"})
	cleanup()
	tl.put(map[string]interface{}{"k": "reset"})
	return fails
}

func has(l []string, x string) bool {
	for _, y := range l {
		if y == x {
			return true
		}
	}
	return false
}

func init() {
	hlib.Register("c14-churn", c14Churn)
}
