package main

// C13: signal subscriptions.  Scenario runtime shared by
//   c13-gated  <schedules> <trace-out>   force the schedules of GenSignal.tla with gates
//   c13-record <trace-out> <scenarios>   randomised drivers
// Both record one trace (harness events + hook events + connection taps in the
// order of the hook counter) which TLC validates against TraceSignal.tla.
//
// Cast (fixed, TraceSignal.tla knows it):
//   t1, t2: connection c1, signal A (one bus.Client: shared reference count)
//   t3    : connection c1, signal B      t4: connection c2, signal A
//   t5    : connection c2, signal B
// Signal A is Bomb's signal "boom" (Signal<Boom> helper), signal B is the change
// event of property "delay" (Update<Delay> helper): both go through
// signalHandler.UpdateSignal and the generated Subscribe<X> proxies.

import (
	"bytes"
	"encoding/json"
	"fmt"
	"os"
	"runtime"
	"strconv"
	"strings"
	"sync"
	"time"

	"github.com/lugu/qiloop/bus/net"
	"github.com/lugu/qiloop/examples/space"
	"github.com/lugu/qiloop/vhook"
)

var castConn = map[string]string{"t1": "c1", "t2": "c1", "t3": "c1", "t4": "c2", "t5": "c2"}
var castSig = map[string]string{"t1": "A", "t2": "A", "t3": "B", "t4": "A", "t5": "B"}
var sigAction = map[string]uint32{"A": boomID, "B": delayID}

func goid() int64 {
	var buf [64]byte
	n := runtime.Stack(buf[:], false)
	f := strings.Fields(string(buf[:n]))
	if len(f) < 2 {
		return -1
	}
	id, _ := strconv.ParseInt(f[1], 10, 64)
	return id
}

// syncWait bounds the waits the driver uses to keep in step with the
// implementation; it is not a verdict (verdicts come from the trace).
var syncWait = 2 * time.Second

// evLog collects every hook event (and the harness' own, emitted through the
// same counter) of one scenario.
type evLog struct {
	mu  sync.Mutex
	evs []vhook.Event
}

func (l *evLog) sink(e vhook.Event) {
	if e.Comp == "endpoint" {
		return
	}
	l.mu.Lock()
	l.evs = append(l.evs, e)
	l.mu.Unlock()
}

func hev(ev string, kv ...interface{}) { vhook.Emit("h", nil, ev, kv...) }

// point logs which thread is about to take which step of proxy.SubscribeID /
// its cancel function (the gate is called on the thread's goroutine right before
// the step): the State events of the trace carry no thread.
func (s *scenario) point(actor, gate string) {
	if !strings.HasPrefix(gate, "proxy.") {
		return
	}
	p := map[string]string{"proxy.sub.inc": "inc", "proxy.sub.key": "key", "proxy.unsub.dec": "dec",
		"proxy.unsub.read": "read", "proxy.unsub.clear": "clear"}[gate]
	if p != "" {
		hev("pt", "th", actor, "p", p)
	}
}

// pointOnly is the gate function of the ungated runs.
func (s *scenario) pointOnly(gate string) {
	if n, ok := s.byGid.Load(goid()); ok {
		s.point(n.(string), gate)
	}
}

// sthread is one user of the generated Subscribe<X> API.
type sthread struct {
	name   string
	conn   *conn
	bomb   space.BombProxy
	cmd    chan string
	subRet chan error // result of the Subscribe call in flight
	canRet chan struct{}
	closed chan struct{}
	cancel func()
	mu     sync.Mutex
	nrecv  int
	gid    int64
	ready  chan struct{}
	// driver-side phase of the current subscription:
	// "" idle, "subbing" call made, "acked", "cancelling" cancel called, "cancelled"
	phase string
}

type scenario struct {
	w       *world
	id      uint32
	impl    *bombImpl
	conns   map[string]*conn
	threads map[string]*sthread
	log     *evLog
	taps    []func()
	k       int // emissions made
	emitRet chan struct{}
	byGid   sync.Map // goroutine id -> thread name
}

func newScenario(w *world, conns map[string]*conn) *scenario {
	s := &scenario{w: w, conns: conns, threads: map[string]*sthread{}, log: &evLog{}}
	s.id, s.impl = w.addBomb()
	vhook.SetSink(s.log.sink)
	for cn, c := range conns {
		name := cn
		ep := c.ep
		oid := s.id
		hid := ep.MakeHandler(func(h *net.Header) (bool, bool) {
			if h.Service != w.sid || h.Object != oid {
				return false, true
			}
			switch {
			case h.Type == net.Event && h.Action == boomID:
				hev("wire", "c", name, "t", "ev", "sig", "A", "ok", 1)
			case h.Type == net.Event && h.Action == delayID:
				hev("wire", "c", name, "t", "ev", "sig", "B", "ok", 1)
			case (h.Type == net.Reply || h.Type == net.Error) && (h.Action == 0 || h.Action == 1):
				ok := 0
				if h.Type == net.Reply {
					ok = 1
				}
				hev("wire", "c", name, "t", "rep", "sig", "", "ok", ok)
			}
			return false, true
		}, make(chan *net.Message, 1), nil)
		s.taps = append(s.taps, func() { ep.RemoveHandler(hid) })
	}
	for th, cn := range castConn {
		t := &sthread{name: th, conn: conns[cn], bomb: conns[cn].bomb(w, s.id), cmd: make(chan string, 4),
			ready: make(chan struct{})}
		s.threads[th] = t
		go s.runThread(t)
		<-t.ready
	}
	return s
}

// runThread executes "sub" / "cancel" commands on its own goroutine (the gates
// identify the thread by goroutine).
func (s *scenario) runThread(t *sthread) {
	t.gid = goid()
	s.byGid.Store(t.gid, t.name)
	close(t.ready)
	for c := range t.cmd {
		switch c {
		case "sub":
			hev("subcall", "th", t.name)
			var cancel func()
			var err error
			if castSig[t.name] == "A" {
				var ch chan int32
				cancel, ch, err = t.bomb.SubscribeBoom()
				if err == nil {
					t.startReader(ch)
				}
			} else {
				var ch chan int32
				cancel, ch, err = t.bomb.SubscribeDelay()
				if err == nil {
					t.startReader(ch)
				}
			}
			t.cancel = cancel
			t.subRet <- err
		case "cancel":
			if t.cancel != nil {
				t.cancel()
				t.cancel = nil
			}
			hev("cancelret", "th", t.name)
			close(t.canRet)
		}
	}
	s.byGid.Delete(t.gid)
}

func (t *sthread) startReader(ch chan int32) {
	closed := make(chan struct{})
	t.closed = closed
	name := t.name
	go func() {
		for v := range ch {
			hev("recv", "th", name, "k", int(v))
			t.mu.Lock()
			t.nrecv++
			t.mu.Unlock()
		}
		hev("closed", "th", name)
		close(closed)
	}()
}

func (t *sthread) received() int {
	t.mu.Lock()
	defer t.mu.Unlock()
	return t.nrecv
}

// user-level operations (logged)
func (s *scenario) subCall(th string) {
	t := s.threads[th]
	t.subRet = make(chan error, 1)
	t.mu.Lock()
	t.nrecv = 0
	t.mu.Unlock()
	t.phase = "subbing"
	t.closed = nil
	t.cmd <- "sub"
}

// subAck waits for the Subscribe call to return and logs the acknowledgement.
func (s *scenario) subAck(th string, wait time.Duration) (bool, bool) {
	t := s.threads[th]
	select {
	case err := <-t.subRet:
		ok := 0
		if err == nil {
			ok = 1
		}
		hev("suback", "th", th, "ok", ok)
		if err == nil {
			t.phase = "acked"
		} else {
			t.phase = ""
		}
		return true, err == nil
	case <-time.After(wait):
		return false, false
	}
}

func (s *scenario) cancelCall(th string) {
	t := s.threads[th]
	t.canRet = make(chan struct{})
	t.phase = "cancelling"
	hev("cancelcall", "th", th)
	t.cmd <- "cancel"
}

// finish brings a thread's subscription to its end whatever phase it is in
// (used when a scenario winds down; the gates are off by then).
func (s *scenario) finish(th string) {
	t := s.threads[th]
	if t.phase == "subbing" {
		if ok, good := s.subAck(th, TBound); !ok || !good {
			return
		}
	}
	if t.phase == "acked" {
		s.cancelCall(th)
	}
	if t.phase == "cancelling" {
		select {
		case <-t.canRet:
			t.phase = "cancelled"
		case <-time.After(TBound):
			return
		}
	}
	if t.phase == "cancelled" && t.closed != nil {
		select {
		case <-t.closed:
		case <-time.After(TBound):
		}
		t.phase = ""
	}
}

func (s *scenario) emit(sig string) {
	s.k++
	k := s.k
	s.emitRet = make(chan struct{})
	ret := s.emitRet
	hev("emitcall", "k", k, "sig", sig)
	go func() {
		if sig == "A" {
			s.impl.helper.SignalBoom(int32(k))
		} else {
			s.impl.helper.UpdateDelay(int32(k))
		}
		hev("emitret", "k", k)
		close(ret)
	}()
}

func (s *scenario) close() {
	for _, t := range s.threads {
		close(t.cmd)
	}
	for _, f := range s.taps {
		f()
	}
	vhook.SetSink(nil)
	s.w.service.Remove(s.id)
}

// trace converts the collected events into the lines of TraceSignal.tla.
func (s *scenario) trace(out *os.File) int {
	clientConn := map[int]string{}
	for n, c := range s.conns {
		clientConn[vhook.ID(c.client)] = n
	}
	n := 0
	put := func(m map[string]interface{}) {
		b, _ := json.Marshal(m)
		out.Write(append(b, '\n'))
		n++
	}
	prefix := fmt.Sprintf("%d.%d.", s.w.sid, s.id)
	echo := map[interface{}]int{}
	s.log.mu.Lock()
	defer s.log.mu.Unlock()
	for _, e := range s.log.evs {
		m := e.Map()
		switch e.Comp {
		case "h":
			r := map[string]interface{}{"e": e.Ev}
			for k, v := range m {
				if k != "seq" && k != "comp" && k != "inst" && k != "ev" {
					r[k] = v
				}
			}
			put(r)
		case "client":
			if e.Ev != "state" {
				continue
			}
			key, _ := m["key"].(string)
			if !strings.HasPrefix(key, prefix) {
				continue
			}
			rest := strings.TrimPrefix(key, prefix)
			hkey := 0
			if strings.HasSuffix(rest, ".handler") {
				hkey = 1
				rest = strings.TrimSuffix(rest, ".handler")
			}
			act, _ := strconv.Atoi(rest)
			sig := ""
			for sn, a := range sigAction {
				if int(a) == act {
					sig = sn
				}
			}
			cn, ok := clientConn[e.Inst]
			if sig == "" || !ok {
				continue
			}
			add, _ := m["add"].(int)
			val, _ := m["val"].(int)
			// handler values are 63-bit random numbers: only their sign matters to the specification
			if hkey == 1 {
				val = 0
				if add > 0 {
					add = 1
				} else if add < 0 {
					add = -1
				}
			}
			put(map[string]interface{}{"e": "state", "c": cn, "sig": sig, "hkey": hkey, "add": add, "val": val})
		case "signal":
			switch e.Ev {
			case "add":
				put(map[string]interface{}{"e": e.Ev, "n": m["n"]})
			case "remove":
				// RemoveHandler then runs the disconnect closer of the removed user, which
				// calls removeSignalUser once more: that echo is not an unregistration
				echo[m["user"]]++
				put(map[string]interface{}{"e": e.Ev, "n": m["n"]})
			case "remove_unknown":
				if echo[m["user"]] > 0 {
					echo[m["user"]]--
					continue
				}
				put(map[string]interface{}{"e": e.Ev, "n": 0})
			case "add_dup":
				put(map[string]interface{}{"e": e.Ev, "n": 0})
			case "snapshot":
				sid, _ := m["signal"].(uint32)
				sig := ""
				for sn, a := range sigAction {
					if a == sid {
						sig = sn
					}
				}
				if sig != "" {
					put(map[string]interface{}{"e": "snapshot", "sig": sig, "n": m["n"]})
				}
			}
		}
	}
	put(map[string]interface{}{"e": "reset"})
	return n
}

var _ = bytes.NewBuffer
