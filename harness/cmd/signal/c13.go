package main

// C13: signal subscriptions.  Scenario runtime shared by
//   c13-gated  <schedules> <trace-out>   force the schedules of GenSignal.tla with gates
//   c13-record <trace-out> <scenarios>   randomised drivers
// Both record one trace (harness events + hook events + connection taps in the
// order of the hook counter) which TLC validates against TraceSignal.tla.
//
// Objects of a scenario (fresh services per scenario, all of the generated type
// examples/space Bomb, so they share their action ids):
//   o1  main object (id 1) of service S1
//   o2  a second object of S1 (Service.Add): same service, same actions, other object id
//   o3  main object (id 1) of service S2: other service, same object id as o1
// Connections: c1, c2 unix sockets; c3 a harness-owned pipe whose server -> client
// direction can be broken (c13stream.go).  ONE bus.Client per connection (what a
// Session keeps per end point): every proxy of a connection shares the client's
// subscription state and its end point.
//
// Cast (fixed, Signal.tla knows it as Cast / CastConn / CastObj / CastSig):
//   t1, t2: c1 o1 A     t3: c1 o1 B     t4: c2 o1 A     t5: c2 o1 B
//   t6: c1 o2 A         t7: c2 o2 A     t8: c1 o3 A     t9: c3 o1 A     t10: c3 o2 A
// Signal A is Bomb's signal "boom" (Signal<Boom> helper), signal B is the change
// event of property "delay" (Update<Delay> helper): both go through
// signalHandler.UpdateSignal and the generated Subscribe<X> proxies.

import (
	"bytes"
	"encoding/binary"
	"encoding/json"
	"fmt"
	"os"
	"runtime"
	"strconv"
	"strings"
	"sync"
	"time"

	"github.com/lugu/qiloop/bus"
	"github.com/lugu/qiloop/bus/net"
	"github.com/lugu/qiloop/bus/util"
	"github.com/lugu/qiloop/examples/space"
	"github.com/lugu/qiloop/type/object"
	"github.com/lugu/qiloop/vhook"
	"verif/harness/hlib"
)

var castConn = map[string]string{"t1": "c1", "t2": "c1", "t3": "c1", "t4": "c2", "t5": "c2",
	"t6": "c1", "t7": "c2", "t8": "c1", "t9": "c3", "t10": "c3"}
var castSig = map[string]string{"t1": "A", "t2": "A", "t3": "B", "t4": "A", "t5": "B",
	"t6": "A", "t7": "A", "t8": "A", "t9": "A", "t10": "A"}
var castObj = map[string]string{"t1": "o1", "t2": "o1", "t3": "o1", "t4": "o1", "t5": "o1",
	"t6": "o2", "t7": "o2", "t8": "o3", "t9": "o1", "t10": "o2"}
var sigAction = map[string]uint32{"A": boomID, "B": delayID}
var allThreads = []string{"t1", "t2", "t3", "t4", "t5", "t6", "t7", "t8", "t9", "t10"}

// injectID is the message id of the messages the harness injects: no call of a
// scenario gets that far.
const injectID = 0x7fff0000

func goid() int64 {
	var buf [64]byte
	n := runtime.Stack(buf[:], false)
	f := strings.Fields(string(buf[:n]))
	if len(f) < 2 {
		return -1
	}
	id, _ := strconv.ParseInt(f[1], 10, 64)
	return id
}

// syncWait bounds the waits the driver uses to keep in step with the
// implementation; it is not a verdict (verdicts come from the trace).
var syncWait = 2 * time.Second

// evLog collects every hook event (and the harness' own, emitted through the
// same counter) of one scenario.
type evLog struct {
	mu  sync.Mutex
	evs []vhook.Event
}

func (l *evLog) sink(e vhook.Event) {
	if e.Comp == "endpoint" || e.Comp == "service" || e.Comp == "server" {
		return
	}
	l.mu.Lock()
	l.evs = append(l.evs, e)
	l.mu.Unlock()
}

func hev(ev string, kv ...interface{}) { vhook.Emit("h", nil, ev, kv...) }

// point logs which thread is about to take which step of proxy.SubscribeID /
// its cancel function (the gate is called on the thread's goroutine right before
// the step): the State events of the trace carry no thread.
func (s *scenario) point(actor, gate string) {
	if !strings.HasPrefix(gate, "proxy.") {
		return
	}
	p := map[string]string{"proxy.sub.inc": "inc", "proxy.sub.key": "key", "proxy.unsub.dec": "dec",
		"proxy.unsub.read": "read", "proxy.unsub.clear": "clear"}[gate]
	if p != "" {
		hev("pt", "th", actor, "p", p)
	}
}

// pointOnly is the gate function of the ungated runs.
func (s *scenario) pointOnly(gate string) {
	if n, ok := s.byGid.Load(goid()); ok {
		s.point(n.(string), gate)
	}
}

// world13 is one server; services and objects are created per scenario.
type world13 struct {
	addr string
	srv  bus.Server
	ml   *mixListener
	meta *object.MetaObject // of a Bomb: the same for every object of the scenarios
	nsvc int
}

func newWorld13() *world13 {
	addr := util.NewUnixAddr()
	l, err := net.Listen(addr)
	if err != nil {
		hlib.Fatal("listen %s: %v", addr, err)
	}
	ml := newMixListener(l)
	srv, err := bus.StandAloneServer(ml, bus.Yes{}, bus.PrivateNamespace())
	if err != nil {
		hlib.Fatal("server: %v", err)
	}
	return &world13{addr: addr, srv: srv, ml: ml}
}

// sobj is one object of the scenario.
type sobj struct {
	name     string
	sid, oid uint32
	impl     *bombImpl
}

// conn13 is one client connection with ONE bus.Client.
type conn13 struct {
	name   string
	ep     net.EndPoint
	client bus.Client
	pipe   *pipe // nil: unix socket
}

func (w *world13) dial(name string, piped bool) *conn13 {
	c := &conn13{name: name}
	if piped {
		c.pipe = newPipe(name)
		w.ml.ch <- pipeEnd{c.pipe, true}
		c.ep = net.NewEndPoint(pipeEnd{c.pipe, false})
	} else {
		ep, err := net.DialEndPoint(w.addr)
		if err != nil {
			hlib.Fatal("dial: %v", err)
		}
		c.ep = ep
	}
	if err := bus.Authenticate(c.ep); err != nil {
		hlib.Fatal("authenticate %s: %v", name, err)
	}
	c.client = bus.NewClient(bus.NewChannel(c.ep, bus.DefaultCap()))
	return c
}

func (c *conn13) dead() bool { return c.pipe != nil && c.pipe.broken() }

// sthread is one user of the generated Subscribe<X> API.
type sthread struct {
	name   string
	conn   *conn13
	bomb   space.BombProxy
	cmd    chan string
	subRet chan error // result of the Subscribe call in flight
	canRet chan struct{}
	closed chan struct{}
	cancel func()
	mu     sync.Mutex
	nrecv  int
	gid    int64
	ready  chan struct{}
	// driver-side phase of the current subscription:
	// "" idle, "subbing" call made, "acked", "cancelling" cancel called, "cancelled"
	phase string
}

type emission struct{ o, sig string }

type scenario struct {
	w        *world13
	objs     map[string]*sobj
	svcs     []bus.Service
	spy      *spyActor
	spyID    uint32
	spyChan  map[string]bus.Channel // server-side channel of each connection
	rogueRet chan error             // result of the foreign unregisterEvent call in flight
	conns    map[string]*conn13
	threads  map[string]*sthread
	log      *evLog
	taps     []func()
	emits    []emission // emissions made (1-based: emits[k-1])
	emitRet  chan struct{}
	byGid    sync.Map       // goroutine id -> thread name
	instObj  map[int]string // signalHandler (hook instance) -> object
}

// newScenario sets up fresh services / objects, the connections and the threads
// (all of the cast when threads is nil).
func newScenario(w *world13, threads []string) *scenario {
	s := &scenario{w: w, objs: map[string]*sobj{}, conns: map[string]*conn13{}, threads: map[string]*sthread{},
		log: &evLog{}, spyChan: map[string]bus.Channel{}}
	if threads == nil {
		threads = allThreads
	}
	w.nsvc++
	mk := func(name string) (bus.Service, *bombImpl) {
		impl := &bombImpl{}
		svc, err := w.srv.NewService(fmt.Sprintf("Bomb-%d-%s", w.nsvc, name), space.BombObject(impl))
		if err != nil {
			hlib.Fatal("service: %v", err)
		}
		if impl.helper == nil {
			hlib.Fatal("main object not activated")
		}
		s.svcs = append(s.svcs, svc)
		return svc, impl
	}
	svc1, impl1 := mk("a")
	s.objs["o1"] = &sobj{"o1", svc1.ServiceID(), 1, impl1}
	impl2 := &bombImpl{}
	oid2, err := svc1.Add(space.BombObject(impl2))
	if err != nil || impl2.helper == nil {
		hlib.Fatal("add object: %v", err)
	}
	s.objs["o2"] = &sobj{"o2", svc1.ServiceID(), oid2, impl2}
	svc2, impl3 := mk("b")
	s.objs["o3"] = &sobj{"o3", svc2.ServiceID(), 1, impl3}
	s.spy = &spyActor{}
	if s.spyID, err = svc1.Add(s.spy); err != nil {
		hlib.Fatal("add spy: %v", err)
	}

	need := map[string]bool{"c1": true, "c2": true}
	for _, th := range threads {
		need[castConn[th]] = true
	}
	for cn := range need {
		s.conns[cn] = w.dial(cn, cn == "c3")
	}
	if w.meta == nil {
		m, err := bus.GetMetaObject(s.conns["c1"].client, s.objs["o1"].sid, 1)
		if err != nil {
			hlib.Fatal("meta object: %v", err)
		}
		w.meta = &m
	}
	// one call of every connection to the spy object: the harness learns the server-side
	// channel (and end point) of the connection
	token := uint32(1000)
	for cn, c := range s.conns {
		token++
		if _, err := c.client.Call(nil, s.objs["o1"].sid, s.spyID, token, []byte{}); err != nil {
			hlib.Fatal("spy call: %v", err)
		}
		s.spyChan[cn] = s.spy.channel(token)
	}
	// which signalHandler (instance of the hook events) belongs to which object: one marked
	// registration per object, made and removed before the scenario starts
	s.instObj = map[int]string{}
	var mu sync.Mutex
	vhook.SetSink(func(e vhook.Event) {
		if e.Comp == "signal" && e.Ev == "add" {
			if u, _ := e.Map()["user"].(uint64); u >= 1 && u <= 3 {
				mu.Lock()
				s.instObj[e.Inst] = fmt.Sprintf("o%d", u)
				mu.Unlock()
			}
		}
	})
	for n, ob := range s.objs {
		var buf bytes.Buffer
		binary.Write(&buf, binary.LittleEndian, ob.oid)
		binary.Write(&buf, binary.LittleEndian, uint32(boomID))
		binary.Write(&buf, binary.LittleEndian, uint64(n[1]-'0'))
		for _, action := range []uint32{0, 1} { // registerEvent, unregisterEvent
			if _, err := s.conns["c1"].client.Call(nil, ob.sid, ob.oid, action, buf.Bytes()); err != nil {
				hlib.Fatal("marker registration on %s: %v", n, err)
			}
		}
	}
	if len(s.instObj) != len(s.objs) {
		hlib.Fatal("marker registrations: %d of %d objects identified", len(s.instObj), len(s.objs))
	}
	vhook.SetSink(s.log.sink)
	for _, c := range s.conns {
		s.tap(c)
	}
	for _, th := range threads {
		c := s.conns[castConn[th]]
		t := &sthread{name: th, conn: c, bomb: s.bomb(c, castObj[th]), cmd: make(chan string, 4),
			ready: make(chan struct{})}
		s.threads[th] = t
		go s.runThread(t)
		<-t.ready
	}
	return s
}

// bomb returns a generated proxy of object o over connection c (no call is made).
func (s *scenario) bomb(c *conn13, o string) space.BombProxy {
	ob := s.objs[o]
	return space.MakeBomb(nil, bus.NewProxy(c.client, *s.w.meta, ob.sid, ob.oid))
}

// objOf names the scenario object with these ids ("?" if there is none).
func (s *scenario) objOf(sid, oid uint32) string {
	for n, o := range s.objs {
		if o.sid == sid && o.oid == oid {
			return n
		}
	}
	return "?"
}

func sigOf(action uint32) string {
	for n, a := range sigAction {
		if a == action {
			return n
		}
	}
	return "?"
}

// tap logs, synchronously inside the end point's dispatch (= the model's
// Deliver), what reaches connection c: every Event, the replies to registerEvent
// / unregisterEvent, the messages the harness injected.
func (s *scenario) tap(c *conn13) {
	name := c.name
	hid := c.ep.MakeHandler(func(h *net.Header) (bool, bool) {
		switch {
		case h.ID == injectID:
			c.pipe.alive(func() {
				hev("wire", "c", name, "t", "inj", "o", s.objOf(h.Service, h.Object), "sig", sigOf(h.Action), "ok", 1)
			})
		case h.Type == net.Event:
			c.pipe.alive(func() {
				hev("wire", "c", name, "t", "ev", "o", s.objOf(h.Service, h.Object), "sig", sigOf(h.Action), "ok", 1)
			})
		case (h.Type == net.Reply || h.Type == net.Error) && (h.Action == 0 || h.Action == 1) &&
			s.objOf(h.Service, h.Object) != "?":
			ok := 0
			if h.Type == net.Reply {
				ok = 1
			}
			c.pipe.alive(func() { hev("wire", "c", name, "t", "rep", "o", "", "sig", "", "ok", ok) })
		}
		return false, true
	}, make(chan *net.Message, 1), nil)
	s.taps = append(s.taps, func() { c.ep.RemoveHandler(hid) })
}

// runThread executes "sub" / "cancel" commands on its own goroutine (the gates
// identify the thread by goroutine).
func (s *scenario) runThread(t *sthread) {
	t.gid = goid()
	s.byGid.Store(t.gid, t.name)
	close(t.ready)
	for c := range t.cmd {
		switch c {
		case "sub":
			hev("subcall", "th", t.name)
			var cancel func()
			var err error
			if castSig[t.name] == "A" {
				var ch chan int32
				cancel, ch, err = t.bomb.SubscribeBoom()
				if err == nil {
					t.startReader(ch)
				}
			} else {
				var ch chan int32
				cancel, ch, err = t.bomb.SubscribeDelay()
				if err == nil {
					t.startReader(ch)
				}
			}
			t.cancel = cancel
			t.subRet <- err
		case "cancel":
			if t.cancel != nil {
				t.cancel()
				t.cancel = nil
			}
			hev("cancelret", "th", t.name)
			close(t.canRet)
		}
	}
	s.byGid.Delete(t.gid)
}

func (t *sthread) startReader(ch chan int32) {
	closed := make(chan struct{})
	t.closed = closed
	name := t.name
	p := t.conn.pipe
	go func() {
		for v := range ch {
			p.alive(func() { hev("recv", "th", name, "k", int(v)) })
			t.mu.Lock()
			t.nrecv++
			t.mu.Unlock()
		}
		p.alive(func() { hev("closed", "th", name) })
		close(closed)
	}()
}

func (t *sthread) received() int {
	t.mu.Lock()
	defer t.mu.Unlock()
	return t.nrecv
}

// user-level operations (logged)
func (s *scenario) subCall(th string) {
	t := s.threads[th]
	t.subRet = make(chan error, 1)
	t.mu.Lock()
	t.nrecv = 0
	t.mu.Unlock()
	t.phase = "subbing"
	t.closed = nil
	t.cmd <- "sub"
}

// subAck waits for the Subscribe call to return and logs the acknowledgement.
func (s *scenario) subAck(th string, wait time.Duration) (bool, bool) {
	t := s.threads[th]
	select {
	case err := <-t.subRet:
		ok := 0
		if err == nil {
			ok = 1
		}
		hev("suback", "th", th, "ok", ok)
		if err == nil {
			t.phase = "acked"
		} else {
			t.phase = ""
		}
		return true, err == nil
	case <-time.After(wait):
		return false, false
	}
}

func (s *scenario) cancelCall(th string) {
	t := s.threads[th]
	t.canRet = make(chan struct{})
	t.phase = "cancelling"
	hev("cancelcall", "th", th)
	t.cmd <- "cancel"
}

// finish brings a thread's subscription to its end whatever phase it is in
// (used when a scenario winds down; the gates are off by then).  The threads of
// a broken connection are gone: nothing is done for them.
func (s *scenario) finish(th string) {
	t := s.threads[th]
	if t.conn.dead() {
		return
	}
	if t.phase == "subbing" {
		if ok, good := s.subAck(th, TBound); !ok || !good {
			return
		}
	}
	if t.phase == "acked" {
		s.cancelCall(th)
	}
	if t.phase == "cancelling" {
		select {
		case <-t.canRet:
			t.phase = "cancelled"
		case <-time.After(TBound):
			return
		}
	}
	if t.phase == "cancelled" && t.closed != nil {
		select {
		case <-t.closed:
		case <-time.After(TBound):
		}
		t.phase = ""
	}
}

func (s *scenario) emit(o, sig string) {
	s.emits = append(s.emits, emission{o, sig})
	k := len(s.emits)
	s.emitRet = make(chan struct{})
	ret := s.emitRet
	impl := s.objs[o].impl
	hev("emitcall", "k", k, "o", o, "sig", sig)
	go func() {
		if sig == "A" {
			impl.helper.SignalBoom(int32(k))
		} else {
			impl.helper.UpdateDelay(int32(k))
		}
		hev("emitret", "k", k)
		close(ret)
	}()
}

// inject makes the server send, on connection c, a message that is addressed
// like an event of (o, sig) - same service, object and action - but is a Reply.
func (s *scenario) inject(c, o, sig string) {
	ch := s.spyChan[c]
	if ch == nil {
		hlib.Fatal("no spy channel for %s", c)
	}
	ob := s.objs[o]
	hdr := net.NewHeader(net.Reply, ob.sid, ob.oid, sigAction[sig], injectID)
	msg := net.NewMessage(hdr, le32(0))
	hev("inject", "c", c, "o", o, "sig", sig)
	if err := ch.Send(&msg); err != nil {
		hlib.Fatal("inject: %v", err)
	}
}

// liveUser returns the user id of a registration the server holds for connection vc,
// object o, signal sig (the last one made), 0 if there is none.
func (s *scenario) liveUser(vc, o, sig string) uint64 {
	inst := vhook.ID(s.conns[vc].client)
	ob := s.objs[o]
	hkey := fmt.Sprintf("%d.%d.%d.handler", ob.sid, ob.oid, sigAction[sig])
	mine := map[uint64]bool{}
	var last uint64
	live := map[uint64]bool{}
	s.log.mu.Lock()
	defer s.log.mu.Unlock()
	for _, e := range s.log.evs {
		m := e.Map()
		switch {
		case e.Comp == "client" && e.Ev == "state" && e.Inst == inst:
			if key, _ := m["key"].(string); key == hkey {
				if add, _ := m["add"].(int); add > 0 {
					mine[uint64(add)] = true
				}
			}
		case e.Comp == "signal" && (e.Ev == "add" || e.Ev == "remove"):
			u, _ := m["user"].(uint64)
			if mine[u] {
				live[u] = e.Ev == "add"
				if live[u] {
					last = u
				}
			}
		}
	}
	if live[last] {
		return last
	}
	for u, ok := range live {
		if ok {
			return u
		}
	}
	return 0
}

// rogue calls, on connection c, unregisterEvent of object o with the user id of the
// registration connection vc holds for (o, sig).  The call runs on its own goroutine
// (the server may be parked at a gate); its result arrives on s.rogueRet.
func (s *scenario) rogue(c, o, sig, vc string) {
	ob := s.objs[o]
	u := s.liveUser(vc, o, sig)
	var buf bytes.Buffer
	binary.Write(&buf, binary.LittleEndian, ob.oid)
	binary.Write(&buf, binary.LittleEndian, sigAction[sig])
	binary.Write(&buf, binary.LittleEndian, u)
	ret := make(chan error, 1)
	s.rogueRet = ret
	hev("rogue", "c", c, "o", o, "sig", sig, "vc", vc)
	client := s.conns[c].client
	go func() {
		_, err := client.Call(nil, ob.sid, ob.oid, 1 /* unregisterEvent */, buf.Bytes())
		ret <- err
	}()
}

// flush makes a call on every live connection: when it has returned, what the
// server sent on that connection before has been dispatched.
func (s *scenario) flush() bool {
	done := make(chan struct{})
	go func() {
		for _, c := range s.conns {
			if !c.dead() {
				s.bomb(c, "o1").IsStatsEnabled()
			}
		}
		close(done)
	}()
	select {
	case <-done:
		return true
	case <-time.After(TBound):
		return false
	}
}

// usersOf returns the user ids the client of connection c drew (the `add` of its
// State(<key>.handler, handler) calls) and, of those, the ones the server
// registered and has not removed since.
func (s *scenario) liveRegistrations(c *conn13) int {
	inst := vhook.ID(c.client)
	users := map[uint64]bool{}
	live := map[uint64]int{}
	s.log.mu.Lock()
	defer s.log.mu.Unlock()
	for _, e := range s.log.evs {
		m := e.Map()
		switch {
		case e.Comp == "client" && e.Ev == "state" && e.Inst == inst:
			key, _ := m["key"].(string)
			add, _ := m["add"].(int)
			if strings.HasSuffix(key, ".handler") && add > 0 {
				users[uint64(add)] = true
			}
		case e.Comp == "signal" && (e.Ev == "add" || e.Ev == "remove"):
			u, _ := m["user"].(uint64)
			if users[u] {
				if e.Ev == "add" {
					live[u]++
				} else {
					live[u]--
				}
			}
		}
	}
	n := 0
	for _, v := range live {
		if v > 0 {
			n++
		}
	}
	return n
}

// waitClosers: after the server's reader has seen connection c end, the closers
// of its registrations run (goroutines of the end point): wait for them.
func (s *scenario) waitClosers(c *conn13, d time.Duration) bool {
	deadline := time.Now().Add(d)
	for s.liveRegistrations(c) > 0 {
		if time.Now().After(deadline) {
			return false
		}
		time.Sleep(50 * time.Microsecond)
	}
	return true
}

func (s *scenario) close() {
	for _, t := range s.threads {
		close(t.cmd)
	}
	for _, f := range s.taps {
		f()
	}
	vhook.SetSink(nil)
	for _, svc := range s.svcs {
		svc.Terminate()
	}
	for _, c := range s.conns {
		c.ep.Close()
	}
}

// trace converts the collected events into the lines of TraceSignal.tla.
func (s *scenario) trace(out *os.File) int {
	clientConn := map[int]string{}
	for n, c := range s.conns {
		clientConn[vhook.ID(c.client)] = n
	}
	n := 0
	put := func(m map[string]interface{}) {
		b, _ := json.Marshal(m)
		out.Write(append(b, '\n'))
		n++
	}
	type place struct{ c, o string }
	userAt := map[uint64]place{} // user id -> the connection that drew it, the object it is for
	instObj := s.instObj         // signalHandler -> object
	epConn := map[int]string{}   // server-side end point -> connection
	for cn, ch := range s.spyChan {
		if ch != nil {
			epConn[vhook.ID(ch.EndPoint())] = cn
		}
	}
	echo := map[interface{}]int{}
	s.log.mu.Lock()
	defer s.log.mu.Unlock()
	for _, e := range s.log.evs {
		m := e.Map()
		switch e.Comp {
		case "h":
			r := map[string]interface{}{"e": e.Ev}
			for k, v := range m {
				if k != "seq" && k != "comp" && k != "inst" && k != "ev" {
					r[k] = v
				}
			}
			put(r)
		case "client":
			if e.Ev != "state" {
				continue
			}
			cn, ok := clientConn[e.Inst]
			if !ok {
				continue
			}
			// key = "<service>.<object>.<action>[.handler]"
			key, _ := m["key"].(string)
			f := strings.Split(key, ".")
			if len(f) < 3 {
				continue
			}
			sid, _ := strconv.ParseUint(f[0], 10, 32)
			oid, _ := strconv.ParseUint(f[1], 10, 32)
			act, _ := strconv.ParseUint(f[2], 10, 32)
			o, sig := s.objOf(uint32(sid), uint32(oid)), sigOf(uint32(act))
			if o == "?" || sig == "?" {
				continue
			}
			hkey := 0
			if len(f) == 4 && f[3] == "handler" {
				hkey = 1
			}
			add, _ := m["add"].(int)
			val, _ := m["val"].(int)
			// handler values are 63-bit random numbers: only their sign matters to the specification
			if hkey == 1 {
				if add > 0 {
					userAt[uint64(add)] = place{cn, o}
				}
				val = 0
				if add > 0 {
					add = 1
				} else if add < 0 {
					add = -1
				}
			}
			put(map[string]interface{}{"e": "state", "c": cn, "o": o, "sig": sig, "hkey": hkey, "add": add, "val": val})
		case "signal":
			user, _ := m["user"].(uint64)
			ep, _ := m["ep"].(int)
			// where: the object of the table (by the user id, else by the handler already seen),
			// the connection of the registration (by the user id, else by the end point)
			// (the end point of a table event is the one the request came from / the registration
			// was made on: for a removal asked for by another connection it is the asking one)
			where := func() (string, string, bool) {
				p, known := userAt[user]
				if known {
					instObj[e.Inst] = p.o
				}
				o, ok1 := instObj[e.Inst]
				c, ok2 := epConn[ep]
				if !ok2 && known {
					c, ok2 = p.c, true
				}
				return o, c, ok1 && ok2
			}
			switch e.Ev {
			case "add":
				if o, c, ok := where(); ok {
					put(map[string]interface{}{"e": e.Ev, "o": o, "c": c, "n": m["n"]})
				}
			case "remove":
				// RemoveHandler then runs the disconnect closer of the removed user, which
				// calls forgetSignalUser once more: that echo is not an unregistration
				if o, c, ok := where(); ok {
					echo[user]++
					put(map[string]interface{}{"e": e.Ev, "o": o, "c": c, "n": m["n"]})
				}
			case "remove_unknown":
				if echo[user] > 0 {
					echo[user]--
					continue
				}
				if o, c, ok := where(); ok {
					put(map[string]interface{}{"e": e.Ev, "o": o, "c": c, "n": 0})
				}
			case "add_dup":
				if o, c, ok := where(); ok {
					put(map[string]interface{}{"e": e.Ev, "o": o, "c": c, "n": 0})
				}
			case "snapshot":
				// the payload is the number of the emission
				data, _ := m["data"].([]byte)
				if len(data) != 4 {
					continue
				}
				k := int(binary.LittleEndian.Uint32(data))
				if k < 1 || k > len(s.emits) {
					continue
				}
				sid, _ := m["signal"].(uint32)
				instObj[e.Inst] = s.emits[k-1].o
				put(map[string]interface{}{"e": "snapshot", "o": s.emits[k-1].o, "sig": sigOf(sid), "n": m["n"]})
			}
		}
	}
	put(map[string]interface{}{"e": "reset"})
	return n
}
