package main

// C05: generated proxy and stub compile and are mutual inverses.
//
//	c05 <scenarios.ndjson> <workdir> [packages-of-three]
//
// S lines (GenIdlRpc): an interface (IDL text rendered by the specification,
// actions, class) and a behaviour of the IdlRpc machine (operations with
// concrete values and expected observations).  For every distinct interface
// the repository's generator (idl.ParsePackage + stub.GeneratePackage) is
// run at check time; the output goes to its own Go package of a scratch
// module (outside /repo and /verif), together with a small implementor
// derived from the generated interface declarations (go/parser) that forwards
// to the generic runner verif/harness/cmd/grammar/drv.  `go build ./gen/...`
// tells which interfaces do not compile (class does-not-compile/<class of the
// interface>); the others are linked into one program that replays all
// behaviours through generated proxy -> in-process server -> generated stub.
// Plain interfaces are additionally generated in IDL packages of three.
//
// Overload groups (several actions of one name): the implementor and the
// registration are derived from the generated declarations in declaration
// order, so the overloads Set, Set_0, Set_1 .. become methods of their own;
// the runner compares the generated names with the Go names the
// specification derives (acts[].go) and the implementation method that ran
// with the overload the proxy method denotes (ops[].ran / rango).
//
// Packages whose interface exchanges objects of interfaces of the package
// (Probe, Relay, the interface itself) carry the declarations of those
// interfaces (the specification's text, in one of two layouts); their
// implementors forward ident / pass to drv.Obj, and the package registers
// Create<Itf> / Make<Itf> so that the runner can host objects on both sides
// and pass generated proxies the way the generated API demands.  They are
// generated with an empty package path like the repository's own go:generate
// lines (the interface types qualify their names with the package path of
// the InterfaceType, which is empty); one of them is generated a second time
// with the path of its directory (class .../with-package-path).

import (
	"bytes"
	"encoding/json"
	"fmt"
	"go/ast"
	"go/parser"
	"go/printer"
	"go/token"
	"os"
	"os/exec"
	"path/filepath"
	"regexp"
	"sort"
	"strconv"
	"strings"
	"time"

	"github.com/lugu/qiloop/meta/idl"
	"github.com/lugu/qiloop/meta/stub"
	"verif/harness/cmd/grammar/drv"
	"verif/harness/hlib"
)

type c05Scenario struct {
	Cls    string    `json:"cls"`
	Key    []int     `json:"key"`
	Layout string    `json:"layout"`
	Itfs   []string  `json:"itfs"`
	Lines  []string  `json:"lines"`
	Acts   []drv.Act `json:"acts"`
	Ops    []drv.Op  `json:"ops"`
}

// pkgKey names the generated package of a scenario: the interface and the
// layout of the IDL text.
func (sc *c05Scenario) pkgKey() string {
	k := keyString(sc.Key)
	if sc.Layout == "aux-last" {
		k += "_l"
	}
	return k
}

// c05Unit is one interface inside one generated Go package.
type c05Unit struct {
	itfName string
	sc      *c05Scenario // any scenario of the interface (for acts / lines)
}

type c05Package struct {
	name     string // directory under gen/ and registry prefix
	cls      string
	units    []c05Unit
	text     string
	ok       bool
	withPath bool   // generated with the package path of its directory
	variant  string // suffix of the failure class
}

// aux: the interfaces of the package besides the assembled one.
func (p *c05Package) aux() []string {
	if len(p.units) != 1 {
		return nil
	}
	return p.units[0].sc.Itfs
}

func keyString(k []int) string {
	s := make([]string, len(k))
	for i, x := range k {
		s[i] = strconv.Itoa(x)
	}
	return strings.Join(s, "_")
}

func count(acts []drv.Act, kind string) int {
	n := 0
	for _, a := range acts {
		if a.Kind == kind {
			n++
		}
	}
	return n
}

// idlBlocks splits the specification's text into the interface block and the
// struct blocks.
func idlBlocks(lines []string) (itf []string, structs map[string][]string, order []string) {
	structs = map[string][]string{}
	var cur []string
	name := ""
	for _, l := range lines[1:] { // skip "package"
		switch {
		case strings.HasPrefix(l, "interface "):
			cur, name = []string{l}, "#itf"
		case strings.HasPrefix(l, "struct "):
			cur, name = []string{l}, strings.TrimPrefix(l, "struct ")
		case l == "end":
			cur = append(cur, l)
			if name == "#itf" {
				itf = cur
			} else {
				structs[name] = cur
				order = append(order, name)
			}
			cur, name = nil, ""
		default:
			cur = append(cur, "\t"+l)
		}
	}
	return
}

func (p *c05Package) render() {
	if len(p.units) == 1 { // the specification's text (it may declare several interfaces)
		var sb strings.Builder
		for _, l := range p.units[0].sc.Lines {
			switch {
			case strings.HasPrefix(l, "package "), strings.HasPrefix(l, "interface "), strings.HasPrefix(l, "struct "), l == "end":
				sb.WriteString(l + "\n")
			default:
				sb.WriteString("\t" + l + "\n")
			}
		}
		p.text = sb.String()
		return
	}
	var sb strings.Builder
	sb.WriteString("package verifgen\n")
	seen := map[string]bool{}
	var decls []string
	for _, u := range p.units {
		itf, structs, order := idlBlocks(u.sc.Lines)
		itf[0] = "interface " + u.itfName
		sb.WriteString(strings.Join(itf, "\n") + "\n")
		for _, n := range order {
			if !seen[n] {
				seen[n] = true
				decls = append(decls, strings.Join(structs[n], "\n"))
			}
		}
	}
	for _, d := range decls {
		sb.WriteString(d + "\n")
	}
	p.text = sb.String()
}

// generate runs the repository's generator.
func (p *c05Package) generate(dir string) (problem string) {
	var out bytes.Buffer
	var pkg *idl.PackageDeclaration
	var err error
	if pn := guarded(func() { pkg, err = idl.ParsePackage([]byte(p.text)) }); pn != "" {
		return "ParsePackage panics: " + pn
	}
	if err != nil {
		return "ParsePackage: " + err.Error()
	}
	// packages that exchange objects: empty path, like the repository's go:generate lines
	path := "scratch/gen/" + p.name
	if len(p.aux()) > 0 && !p.withPath {
		path = ""
	}
	if pn := guarded(func() { err = stub.GeneratePackage(&out, path, pkg) }); pn != "" {
		return "GeneratePackage panics: " + pn
	}
	if err != nil {
		return "GeneratePackage: " + err.Error()
	}
	if err := os.MkdirAll(dir, 0o755); err != nil {
		hlib.Fatal("mkdir: %v", err)
	}
	if err := os.WriteFile(filepath.Join(dir, "gen.go"), out.Bytes(), 0o644); err != nil {
		hlib.Fatal("write: %v", err)
	}
	return ""
}

type astMethod struct {
	name    string
	params  []string // printed types
	results []string
}

func interfaceMethods(fset *token.FileSet, f *ast.File, typeName string) ([]astMethod, bool) {
	for _, d := range f.Decls {
		gd, ok := d.(*ast.GenDecl)
		if !ok {
			continue
		}
		for _, s := range gd.Specs {
			ts, ok := s.(*ast.TypeSpec)
			if !ok || ts.Name.Name != typeName {
				continue
			}
			it, ok := ts.Type.(*ast.InterfaceType)
			if !ok {
				return nil, false
			}
			var ms []astMethod
			for _, m := range it.Methods.List {
				ft, ok := m.Type.(*ast.FuncType)
				if !ok || len(m.Names) == 0 {
					continue // embedded interface
				}
				am := astMethod{name: m.Names[0].Name}
				pr := func(e ast.Expr) string {
					var b bytes.Buffer
					printer.Fprint(&b, fset, e)
					return b.String()
				}
				if ft.Params != nil {
					for _, fld := range ft.Params.List {
						n := len(fld.Names)
						if n == 0 {
							n = 1
						}
						for i := 0; i < n; i++ {
							am.params = append(am.params, pr(fld.Type))
						}
					}
				}
				if ft.Results != nil {
					for _, fld := range ft.Results.List {
						n := len(fld.Names)
						if n == 0 {
							n = 1
						}
						for i := 0; i < n; i++ {
							am.results = append(am.results, pr(fld.Type))
						}
					}
				}
				ms = append(ms, am)
			}
			return ms, true
		}
	}
	return nil, false
}

func quoteList(l []string) string {
	q := make([]string, len(l))
	for i, s := range l {
		q[i] = strconv.Quote(s)
	}
	return "[]string{" + strings.Join(q, ", ") + "}"
}

// implementor writes impl.go: the implementor of every interface of the
// package, derived from the generated declarations, and the registration.
func (p *c05Package) implementor(dir string) (problem string) {
	fset := token.NewFileSet()
	f, err := parser.ParseFile(fset, filepath.Join(dir, "gen.go"), nil, 0)
	if err != nil {
		return "generated file is not Go: " + err.Error()
	}
	var body strings.Builder
	uses := ""
	for _, u := range p.units {
		nm, ns := count(u.sc.Acts, "method"), count(u.sc.Acts, "signal")
		impl, ok1 := interfaceMethods(fset, f, u.itfName+"Implementor")
		helper, ok2 := interfaceMethods(fset, f, u.itfName+"SignalHelper")
		proxy, ok3 := interfaceMethods(fset, f, u.itfName+"Proxy")
		if !ok1 || !ok2 || !ok3 {
			return fmt.Sprintf("generated file lacks the declarations of %s (implementor %v, helper %v, proxy %v)", u.itfName, ok1, ok2, ok3)
		}
		t := "verifImpl" + u.itfName
		fmt.Fprintf(&body, "type %s struct{ h *drv.Handler }\n\n", t)
		var implMethods, implChanges, helperSignals, helperUpdates, proxyMethods, proxySubs []string
		var proxyProps []string
		idx := 0
		for _, m := range impl {
			switch m.name {
			case "Activate":
				fmt.Fprintf(&body, "func (i *%s) Activate(activation bus.Activation, helper %sSignalHelper) error {\n\treturn i.h.Activate(activation, helper)\n}\n\n", t, u.itfName)
				continue
			case "OnTerminate":
				fmt.Fprintf(&body, "func (i *%s) OnTerminate() {}\n\n", t)
				continue
			case "Ident":
				if hasItf(u.sc.Itfs, "Itf") { // the method every exchanged interface has (IdlRpc: IdentLine)
					fmt.Fprintf(&body, "func (i *%s) Ident() (int32, error) { return i.h.Ident() }\n\n", t)
					continue
				}
			}
			var ps, as []string
			for k, pt := range m.params {
				ps = append(ps, fmt.Sprintf("a%d %s", k, pt))
				as = append(as, fmt.Sprintf("a%d", k))
				uses += pt + " "
			}
			args := "[]interface{}{" + strings.Join(as, ", ") + "}"
			if idx < nm {
				implMethods = append(implMethods, m.name)
				if len(m.results) == 2 {
					uses += m.results[0] + " "
					fmt.Fprintf(&body, "func (i *%s) %s(%s) (%s, error) {\n\tvar r %s\n\terr := i.h.Call(%d, %s, &r)\n\treturn r, err\n}\n\n",
						t, m.name, strings.Join(ps, ", "), m.results[0], m.results[0], idx, args)
				} else {
					fmt.Fprintf(&body, "func (i *%s) %s(%s) error {\n\treturn i.h.Call(%d, %s, nil)\n}\n\n",
						t, m.name, strings.Join(ps, ", "), idx, args)
				}
			} else {
				implChanges = append(implChanges, m.name)
				fmt.Fprintf(&body, "func (i *%s) %s(%s) error {\n\treturn i.h.Change(%d, %s)\n}\n\n",
					t, m.name, strings.Join(ps, ", "), idx-nm, args)
			}
			idx++
		}
		for k, m := range helper {
			if k < ns {
				helperSignals = append(helperSignals, m.name)
			} else {
				helperUpdates = append(helperUpdates, m.name)
			}
		}
		var named []string
		for _, m := range proxy {
			if m.name != "WithContext" && !(m.name == "Ident" && hasItf(u.sc.Itfs, "Itf")) {
				named = append(named, m.name)
			}
		}
		for k, n := range named {
			switch {
			case k < nm:
				proxyMethods = append(proxyMethods, n)
			case k < nm+ns:
				proxySubs = append(proxySubs, n)
			default:
				proxyProps = append(proxyProps, n)
			}
		}
		var creates, makes strings.Builder
		for _, n := range p.aux() {
			arg := "&verifImpl" + n + "{o}"
			if n == "Itf" {
				arg = "&" + t + "{h: o.Sub()}"
			}
			fmt.Fprintf(&creates, "\n\t\t\t%q: func(s bus.Session, svc bus.Service, o *drv.Obj) (interface{}, error) { return Create%s(s, svc, %s) },", n, n, arg)
			fmt.Fprintf(&makes, "\n\t\t\t%q: func(s bus.Session, p bus.Proxy) interface{} { return Make%s(s, p) },", n, n)
		}
		var props []string
		for k := 0; k+2 < len(proxyProps); k += 3 {
			props = append(props, fmt.Sprintf("{%q, %q, %q}", proxyProps[k], proxyProps[k+1], proxyProps[k+2]))
		}
		if len(proxyProps)%3 != 0 {
			props = append(props, `{"?", "?", "?"}`) // shape mismatch: reported by the runner
		}
		fmt.Fprintf(&body, `func init() {
	drv.Register(%q, &drv.Itf{
		Name:          %q,
		NewImpl:       func(h *drv.Handler) interface{} { return &%s{h: h} },
		Object:        func(impl interface{}) bus.Actor { return %sObject(impl.(%sImplementor)) },
		Proxy:         func(s bus.Session) (interface{}, error) { return %s(s) },
		ImplMethods:   %s,
		ImplChanges:   %s,
		HelperSignals: %s,
		HelperUpdates: %s,
		ProxyMethods:  %s,
		ProxySubs:     %s,
		ProxyProps:    [][3]string{%s},
		Create: map[string]func(bus.Session, bus.Service, *drv.Obj) (interface{}, error){%s
		},
		Make: map[string]func(bus.Session, bus.Proxy) interface{}{%s
		},
	})
}

`, p.name+"."+u.itfName, u.itfName, t, u.itfName, u.itfName, u.itfName,
			quoteList(implMethods), quoteList(implChanges), quoteList(helperSignals), quoteList(helperUpdates),
			quoteList(proxyMethods), quoteList(proxySubs), strings.Join(props, ", "), creates.String(), makes.String())
	}
	// the other interfaces of the package: their implementors forward to drv.Obj
	for _, n := range p.aux() {
		switch n {
		case "Probe":
			body.WriteString(`type verifImplProbe struct{ o *drv.Obj }

func (i *verifImplProbe) Activate(activation bus.Activation, helper ProbeSignalHelper) error { return nil }
func (i *verifImplProbe) OnTerminate()                                                         {}
func (i *verifImplProbe) Ident() (int32, error)                                                { return i.o.Ident() }

`)
		case "Relay":
			body.WriteString(`type verifImplRelay struct{ o *drv.Obj }

func (i *verifImplRelay) Activate(activation bus.Activation, helper RelaySignalHelper) error { return nil }
func (i *verifImplRelay) OnTerminate()                                                         {}
func (i *verifImplRelay) Ident() (int32, error)                                                { return i.o.Ident() }
func (i *verifImplRelay) Pass(probe ProbeProxy) (ProbeProxy, error) {
	r, err := i.o.Pass(probe)
	if err != nil || r == nil {
		return nil, err
	}
	return r.(ProbeProxy), nil
}

`)
		}
	}
	var src strings.Builder
	src.WriteString("package verifgen\n\nimport (\n\tbus \"github.com/lugu/qiloop/bus\"\n\tdrv \"verif/harness/cmd/grammar/drv\"\n")
	if strings.Contains(uses, "value.") {
		src.WriteString("\tvalue \"github.com/lugu/qiloop/type/value\"\n")
	}
	if strings.Contains(uses, "object.") {
		src.WriteString("\tobject \"github.com/lugu/qiloop/type/object\"\n")
	}
	src.WriteString(")\n\n" + body.String())
	if err := os.WriteFile(filepath.Join(dir, "impl.go"), []byte(src.String()), 0o644); err != nil {
		hlib.Fatal("write: %v", err)
	}
	return ""
}

func hasItf(l []string, n string) bool {
	for _, x := range l {
		if x == n {
			return true
		}
	}
	return false
}

func goCmd(dir string, args ...string) (string, error) {
	cmd := exec.Command("go", args...)
	cmd.Dir = dir
	cmd.Env = append(os.Environ(), "GOFLAGS=-mod=mod", "GOPROXY=off", "GOSUMDB=off", "GOTOOLCHAIN=local")
	out, err := cmd.CombinedOutput()
	return string(out), err
}

func c05Main(args []string) {
	if len(args) < 2 {
		hlib.Fatal("usage: c05 <scenarios.ndjson> <workdir> [packages-of-three]")
	}
	maxTriples := 10
	if len(args) > 2 {
		maxTriples, _ = strconv.Atoi(args[2])
	}
	res := &hlib.Result{}
	var scenarios []*c05Scenario
	hlib.ReadLines(args[0], func(b []byte) {
		var l c09Line
		if err := json.Unmarshal(b, &l); err != nil || l.K != "S" {
			hlib.Fatal("not an S line: %v", err)
		}
		sc := &c05Scenario{}
		if err := json.Unmarshal(l.V, sc); err != nil {
			hlib.Fatal("scenario: %v", err)
		}
		scenarios = append(scenarios, sc)
	})
	// one package per distinct interface
	byKey := map[string]*c05Package{}
	var pkgs []*c05Package
	for _, sc := range scenarios {
		k := sc.pkgKey()
		if byKey[k] == nil {
			p := &c05Package{name: "g" + k, cls: sc.Cls, units: []c05Unit{{"Itf", sc}}}
			byKey[k] = p
			pkgs = append(pkgs, p)
		}
	}
	// one package that exchanges objects once more, generated with a package path
	for _, p := range pkgs {
		if p.cls == "object" && len(p.aux()) > 0 {
			pkgs = append(pkgs, &c05Package{name: p.name + "_path", cls: p.cls, units: p.units, withPath: true, variant: "/with-package-path"})
			break
		}
	}
	// packages of three plain interfaces (structs shared between interfaces, several stubs in one file)
	var plain []*c05Package
	for _, p := range pkgs {
		if p.cls == "plain" {
			plain = append(plain, p)
		}
	}
	sort.Slice(plain, func(i, j int) bool { return plain[i].name < plain[j].name })
	triples := map[string]*c05Package{} // member key -> triple package
	tripleItf := map[string]string{}
	for k := 0; k+2 < len(plain) && k/3 < maxTriples; k += 3 {
		t := &c05Package{name: fmt.Sprintf("m%d", k/3), cls: "plain"}
		for j, n := range []string{"ItfA", "ItfB", "ItfC"} {
			t.units = append(t.units, c05Unit{n, plain[k+j].units[0].sc})
			triples[plain[k+j].name] = t
			tripleItf[plain[k+j].name] = n
		}
		pkgs = append(pkgs, t)
	}
	work := args[1]
	os.RemoveAll(work)
	if err := os.MkdirAll(filepath.Join(work, "gen"), 0o755); err != nil {
		hlib.Fatal("mkdir: %v", err)
	}
	repo := os.Getenv("VERIF_REPO")
	harnessDir := filepath.Join(os.Getenv("VERIF_SCRATCH_DIR"), "harness")
	gomod := fmt.Sprintf("module scratch\n\ngo 1.21\n\nrequire (\n\tgithub.com/lugu/qiloop v0.0.0\n\tverif/harness v0.0.0\n)\n\nreplace github.com/lugu/qiloop => %s\n\nreplace verif/harness => %s\n", repo, harnessDir)
	os.WriteFile(filepath.Join(work, "go.mod"), []byte(gomod), 0o644)
	if sum, err := os.ReadFile(filepath.Join(repo, "go.sum")); err == nil {
		os.WriteFile(filepath.Join(work, "go.sum"), sum, 0o644)
	}
	caseOfPkg := func(p *c05Package, extra string) interface{} {
		return map[string]interface{}{"package": p.name, "class": p.cls, "idl": p.text, "problem": extra}
	}
	suffix := func(p *c05Package) string {
		if len(p.units) > 1 {
			return "/in-package"
		}
		return p.variant
	}
	generated := 0
	for _, p := range pkgs {
		p.render()
		dir := filepath.Join(work, "gen", p.name)
		if pr := p.generate(dir); pr != "" {
			res.Fail("generator-fails/"+p.cls+suffix(p), pr, caseOfPkg(p, pr))
			continue
		}
		generated++
		if pr := p.implementor(dir); pr != "" {
			res.Fail("does-not-compile/"+p.cls+suffix(p), pr, caseOfPkg(p, pr))
			os.RemoveAll(dir)
			continue
		}
		p.ok = true
	}
	// build all generated packages; the output names the ones that fail.  A file
	// that cannot even be loaded (e.g. an invalid import path) stops the whole
	// build without naming a package: such packages are set aside and the
	// build is repeated.
	t0 := time.Now()
	failing := map[string][]string{}
	re := regexp.MustCompile(`^# scratch/gen/(\S+)`)
	reLoad := regexp.MustCompile(`gen/([^/\s]+)/[^/\s]+\.go:\d+:\d+: (.*)`)
	for round := 0; ; round++ {
		out, _ := goCmd(work, "build", "./gen/...")
		cur := ""
		unloadable := map[string]bool{}
		for _, l := range strings.Split(out, "\n") {
			if m := re.FindStringSubmatch(l); m != nil {
				cur = m[1]
				continue
			}
			if cur != "" && strings.TrimSpace(l) != "" {
				failing[cur] = append(failing[cur], l)
			} else if m := reLoad.FindStringSubmatch(l); m != nil && cur == "" {
				failing[m[1]] = append(failing[m[1]], l)
				unloadable[m[1]] = true
			}
		}
		if len(unloadable) > 0 && round < 5 {
			for n := range unloadable {
				os.RemoveAll(filepath.Join(work, "gen", n))
			}
			continue
		}
		if len(failing) == 0 && strings.TrimSpace(out) != "" && !strings.Contains(out, "go: ") {
			hlib.Fatal("go build: %s", out)
		}
		break
	}
	buildWall := time.Since(t0)
	compiled := 0
	for _, p := range pkgs {
		if !p.ok {
			continue
		}
		if errs, bad := failing[p.name]; bad {
			p.ok = false
			if len(errs) > 4 {
				errs = errs[:4]
			}
			res.Fail("does-not-compile/"+p.cls+suffix(p), strings.Join(errs, "\n"), caseOfPkg(p, strings.Join(errs, "\n")))
			os.RemoveAll(filepath.Join(work, "gen", p.name))
		} else {
			compiled++
		}
	}
	// link what compiled
	var main strings.Builder
	main.WriteString("package main\n\nimport (\n\t\"verif/harness/cmd/grammar/drv\"\n")
	for _, p := range pkgs {
		if p.ok {
			fmt.Fprintf(&main, "\t_ \"scratch/gen/%s\"\n", p.name)
		}
	}
	main.WriteString(")\n\nfunc main() { drv.Main() }\n")
	os.WriteFile(filepath.Join(work, "main.go"), []byte(main.String()), 0o644)
	bin := filepath.Join(work, "run.bin")
	if out, err := goCmd(work, "build", "-o", bin, "."); err != nil {
		hlib.Fatal("linking the scenario program failed (a package that compiled alone): %v\n%s", err, out)
	}
	// scenarios of the packages that compiled
	var run []drv.Scenario
	for i, sc := range scenarios {
		k := "g" + sc.pkgKey()
		if p := byKey[sc.pkgKey()]; p.ok {
			run = append(run, drv.Scenario{Cls: sc.Cls, Key: sc.Key, Acts: sc.Acts, Ops: sc.Ops, Pkg: k + ".Itf", N: i, Itfs: sc.Itfs, Layout: sc.Layout})
		}
		if t := triples[k]; t != nil && t.ok {
			run = append(run, drv.Scenario{Cls: sc.Cls, Key: sc.Key, Acts: sc.Acts, Ops: sc.Ops, Pkg: t.name + "." + tripleItf[k], N: i})
		}
	}
	// the runner keeps some memory per behaviour (servers, pipes and goroutines of the code under
	// test that outlive their server): one process per chunk of behaviours
	const chunk = 2500
	totals := map[string]int{}
	evaluations, operations := 0, 0.0
	for lo := 0; lo < len(run); lo += chunk {
		hi := lo + chunk
		if hi > len(run) {
			hi = len(run)
		}
		part := run[lo:hi]
		scFile := filepath.Join(work, fmt.Sprintf("run-%d.ndjson", lo/chunk))
		fh, _ := os.Create(scFile)
		for _, sc := range part {
			b, _ := json.Marshal(sc)
			fh.Write(append(b, '\n'))
		}
		fh.Close()
		mk := func(start int, jp string) *exec.Cmd {
			return exec.Command(bin, scFile, jp, strconv.Itoa(start))
		}
		caseOf := func(i int) interface{} {
			if i < len(part) {
				return map[string]interface{}{"scenario": part[i].N, "pkg": part[i].Pkg, "ops": part[i].Ops, "ctx": part[i].Cls}
			}
			return nil
		}
		r := runProgram("c05-run", mk, len(part), 1500*time.Second, caseOf)
		for _, f := range r.Failures {
			res.Fail(f.Class, f.Detail, f.Case)
		}
		for k, n := range r.FailCount {
			totals[k] += n
		}
		evaluations += r.Evaluations
		if ops, ok := r.Extra["operations"].(float64); ok {
			operations += ops
		}
	}
	for k, n := range totals { // keep the full counts
		if res.FailCount == nil {
			res.FailCount = map[string]int{}
		}
		if n > res.FailCount[k] {
			res.FailCount[k] = n
		}
	}
	res.Evaluations = evaluations
	res.Distinct = len(byKey)
	for _, sc := range run {
		if len(res.Samples) < 3 && sc.N%211 == 5 {
			res.Sample(sc)
		}
	}
	res.SetExtra("interfaces", len(byKey))
	res.SetExtra("packages", len(pkgs))
	res.SetExtra("packages_generated", generated)
	res.SetExtra("packages_compiled", compiled)
	res.SetExtra("packages_of_three", len(triples)/3)
	exchanging := 0
	for _, p := range byKey {
		if len(p.aux()) > 0 {
			exchanging++
		}
	}
	res.SetExtra("packages_exchanging_objects", exchanging)
	res.SetExtra("scenarios_from_spec", len(scenarios))
	res.SetExtra("scenarios_run", len(run))
	res.SetExtra("go_build_wall_s", int(buildWall.Seconds()))
	res.SetExtra("operations_replayed", operations)
	res.Emit()
}
