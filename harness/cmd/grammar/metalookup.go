package main

// MetaLookup (extension hosted by C05, property half also C14): replay of the rows exported by
// spec/GenMetaLookup.tla into the real lookups of type/object (MetaObject.MethodID / SignalID / PropertyID /
// ActionName / PropertyName / ForEachMethodAndSignal, FullMetaObject) and, for rows with a plan, into a real
// object served by a real server and reached through bus.NewProxy on the meta-object the object reports.
//
//	G line: the generic object of the specification (entries)
//	R line: one row {sel, lay, full, wf, user, mou, lookups, names, actions, plan}
//
// Every lookup is repeated `reps` times, each time on a fresh copy of the meta-object built in another
// insertion order (Go randomises the walk of a map): every answer must be one the specification's rendering of
// the code allows (`code`).  Answers that differ from the specification's intent although the rendering allows
// them (the named deviations MapOrder / LastChanceAny) are reported under metalookup/outside/.
//
// Failure classes: metalookup/own/...      the row is an interface the IDL generator can have produced and the
//                                          query is what a generated proxy asks (an entry's own name and
//                                          signature), or an operation of the end-to-end plan: C05's statement
//                  metalookup/outside/...  everything else (hand-written callers, foreign meta-objects, ids of
//                                          the generic range): observations
//
// usage: metalookup <rows.ndjson> <reps> <e2e rows>      (everything runs in a child process: child.go)

import (
	"bytes"
	"encoding/binary"
	"encoding/json"
	"fmt"
	"go/token"
	"math/rand"
	"sort"
	"strconv"
	"strings"
	"sync"
	"time"

	"github.com/lugu/qiloop/bus"
	"github.com/lugu/qiloop/bus/net"
	"github.com/lugu/qiloop/meta/signature"
	"github.com/lugu/qiloop/type/object"
	"github.com/lugu/qiloop/type/value"
	"verif/harness/hlib"
)

type mlEntry struct {
	K    string `json:"k"`
	Uid  uint32 `json:"uid"`
	Name string `json:"name"`
	Sig  string `json:"sig"`
	Ret  string `json:"ret"`
}

type mlAns struct {
	E   string `json:"e"`
	Id  uint32 `json:"id"`
	Ret string `json:"ret"`
}

type mlLookup struct {
	K      string  `json:"k"`
	Name   string  `json:"name"`
	Sig    string  `json:"sig"`
	Self   bool    `json:"self"`
	Intent mlAns   `json:"intent"`
	Code   []mlAns `json:"code"`
}

type mlNamed struct {
	K   string `json:"k"`
	Uid uint32 `json:"uid"`
	Go  string `json:"go"`
}

type mlAction struct {
	Id    uint32 `json:"id"`
	Name  string `json:"name"`
	Pname string `json:"pname"`
}

type mlOp struct {
	Op   string  `json:"op"`
	K    string  `json:"k"`
	Name string  `json:"name"`
	Sig  string  `json:"sig"`
	Ret  string  `json:"ret"`
	Byid uint32  `json:"byid"`
	Ans  []mlAns `json:"ans"`
}

type mlRow struct {
	Sel     []int       `json:"sel"`
	Lay     string      `json:"lay"`
	Full    bool        `json:"full"`
	Wf      bool        `json:"wf"`
	User    []mlEntry   `json:"user"`
	Mou     []mlEntry   `json:"mou"`
	Lookups []mlLookup  `json:"lookups"`
	Names   [][]mlNamed `json:"names"`
	Actions []mlAction  `json:"actions"`
	Plan    []mlOp      `json:"plan"`
	E2E     bool        `json:"e2e"` // set by the check: replay the plan on a real object
}

// the three long signatures of the generic object, as type/object/server.go spells them
const (
	mlStatsSig = "{I(I(fff)<MinMaxSum,minValue,maxValue,cumulatedValue>(fff)<MinMaxSum,minValue,maxValue,cumulatedValue>(fff)<MinMaxSum,minValue,maxValue,cumulatedValue>)<MethodStatistics,count,wall,user,system>}"
	mlTraceSig = "((IiIm(ll)<timeval,tv_sec,tv_usec>llII)<EventTrace,id,kind,slotId,arguments,timestamp,userUsTime,systemUsTime,callerContext,calleeContext>)"
)

func mlSig(s string) string {
	switch s {
	case "@meta":
		return signature.MetaObjectSignature
	case "@stats":
		return mlStatsSig
	case "@trace":
		return mlTraceSig
	}
	return s
}

var mlKindName = map[string]string{"m": "method", "s": "signal", "p": "property"}

// mlBuild makes a fresh meta-object; the entries are inserted in a random order
func mlBuild(es []mlEntry, rnd *rand.Rand) object.MetaObject {
	m := object.MetaObject{Description: "row", Methods: map[uint32]object.MetaMethod{}, Signals: map[uint32]object.MetaSignal{},
		Properties: map[uint32]object.MetaProperty{}}
	for _, i := range rnd.Perm(len(es)) {
		e := es[i]
		switch e.K {
		case "m":
			m.Methods[e.Uid] = object.MetaMethod{Uid: e.Uid, Name: e.Name, ParametersSignature: mlSig(e.Sig), ReturnSignature: mlSig(e.Ret)}
		case "s":
			m.Signals[e.Uid] = object.MetaSignal{Uid: e.Uid, Name: e.Name, Signature: mlSig(e.Sig)}
		case "p":
			m.Properties[e.Uid] = object.MetaProperty{Uid: e.Uid, Name: e.Name, Signature: mlSig(e.Sig)}
		default:
			hlib.Fatal("unknown kind %q", e.K)
		}
	}
	return m
}

// mlEntriesOf reads a real meta-object back into entries (the key is taken as the id; a Uid field that differs
// from the key is reported by the caller through the returned text)
func mlEntriesOf(m *object.MetaObject) (es []mlEntry, skew string) {
	for k, x := range m.Methods {
		es = append(es, mlEntry{"m", k, x.Name, x.ParametersSignature, x.ReturnSignature})
		if x.Uid != k {
			skew = fmt.Sprintf("method under key %d carries the uid %d", k, x.Uid)
		}
	}
	for k, x := range m.Signals {
		es = append(es, mlEntry{"s", k, x.Name, x.Signature, ""})
		if x.Uid != k {
			skew = fmt.Sprintf("signal under key %d carries the uid %d", k, x.Uid)
		}
	}
	for k, x := range m.Properties {
		es = append(es, mlEntry{"p", k, x.Name, x.Signature, ""})
		if x.Uid != k {
			skew = fmt.Sprintf("property under key %d carries the uid %d", k, x.Uid)
		}
	}
	sort.Slice(es, func(i, j int) bool {
		if es[i].K != es[j].K {
			return es[i].K < es[j].K
		}
		return es[i].Uid < es[j].Uid
	})
	return es, skew
}

func mlNormal(es []mlEntry) []mlEntry {
	out := make([]mlEntry, len(es))
	for i, e := range es {
		e.Sig, e.Ret = mlSig(e.Sig), mlSig(e.Ret)
		out[i] = e
	}
	sort.Slice(out, func(i, j int) bool {
		if out[i].K != out[j].K {
			return out[i].K < out[j].K
		}
		return out[i].Uid < out[j].Uid
	})
	return out
}

// mlDiff names the first difference between two sorted entry lists
func mlDiff(want, have []mlEntry) (what, text string) {
	type key struct {
		k   string
		uid uint32
	}
	idx := func(es []mlEntry) map[key]mlEntry {
		m := make(map[key]mlEntry, len(es))
		for _, e := range es {
			m[key{e.K, e.Uid}] = e
		}
		return m
	}
	w, h := idx(want), idx(have)
	for k, e := range w {
		x, ok := h[k]
		if !ok {
			return "entry-missing", fmt.Sprintf("%s %d %s%s is not in the result", mlKindName[e.K], e.Uid, e.Name, e.Sig)
		}
		if x != e {
			return "entry-differs", fmt.Sprintf("%s %d: want %+v, have %+v", mlKindName[e.K], e.Uid, e, x)
		}
	}
	for k, e := range h {
		if _, ok := w[k]; !ok {
			return "entry-unexpected", fmt.Sprintf("%s %d %s%s is in the result", mlKindName[e.K], e.Uid, e.Name, e.Sig)
		}
	}
	return "", ""
}

type mlCtx struct {
	j       *journal
	rnd     *rand.Rand
	reps    int
	generic []mlEntry
	st      map[string]float64
	line    int
}

func (c *mlCtx) meta(r *mlRow) []mlEntry {
	if !r.Full {
		return r.Mou
	}
	return append(append([]mlEntry{}, r.Mou...), c.generic...)
}

func (c *mlCtx) rowCase(r *mlRow, more map[string]interface{}) map[string]interface{} {
	m := map[string]interface{}{"line": c.line, "sel": r.Sel, "lay": r.Lay, "full": r.Full, "wf": r.Wf, "user": r.User}
	for k, v := range more {
		m[k] = v
	}
	return m
}

func mlScope(own bool) string {
	if own {
		return "metalookup/own/"
	}
	return "metalookup/outside/"
}

func mlAnsText(a mlAns) string {
	if a.E != "ok" {
		return a.E
	}
	if a.Ret != "" {
		return fmt.Sprintf("id %d (returns %s)", a.Id, a.Ret)
	}
	return fmt.Sprintf("id %d", a.Id)
}

// mlAsk runs one lookup on the real code
func mlAsk(m *object.MetaObject, k, name, sig string) (a mlAns, pn string) {
	pn = guarded(func() {
		var id uint32
		var ret string
		var err error
		switch k {
		case "m":
			id, ret, err = m.MethodID(name, mlSig(sig))
		case "s":
			id, err = m.SignalID(name, mlSig(sig))
		case "p":
			id, err = m.PropertyID(name, mlSig(sig))
		}
		if err != nil {
			a = mlAns{E: "missing"}
			if strings.Contains(err.Error(), "cannot parse") {
				a.E = "unparsable"
			}
			return
		}
		a = mlAns{E: "ok", Id: id, Ret: ret}
	})
	return
}

func (c *mlCtx) lookups(r *mlRow) {
	mo := c.meta(r)
	byID := map[string]mlEntry{}
	for _, e := range mo {
		byID[fmt.Sprintf("%s/%d", e.K, e.Uid)] = e
	}
	fn := map[string]string{"m": "MethodID", "s": "SignalID", "p": "PropertyID"}
	type state struct {
		allowed      map[mlAns]bool
		intent       mlAns
		seen         map[mlAns]int
		exact, named []mlEntry
		reported     map[string]bool
	}
	sts := make([]state, len(r.Lookups))
	for li := range r.Lookups {
		l := &r.Lookups[li]
		st := state{allowed: map[mlAns]bool{}, seen: map[mlAns]int{}, reported: map[string]bool{}, intent: l.Intent}
		for _, a := range l.Code {
			a.Ret = mlSig(a.Ret)
			st.allowed[a] = true
		}
		st.intent.Ret = mlSig(st.intent.Ret)
		for _, e := range mo {
			if e.K == l.K && e.Name == l.Name {
				st.named = append(st.named, e)
				if e.Sig == l.Sig {
					st.exact = append(st.exact, e)
				}
			}
		}
		sts[li] = st
	}
	want := mlNormal(mo)
	for rep := 0; rep < c.reps; rep++ {
		// a fresh copy for every repetition (another insertion order; every walk of a Go map starts somewhere else)
		m := mlBuild(mo, c.rnd)
		for li := range r.Lookups {
			l, st := &r.Lookups[li], &sts[li]
			own := r.Wf && l.Self
			kind := mlKindName[l.K]
			a, pn := mlAsk(&m, l.K, l.Name, l.Sig)
			c.st["lookups"]++
			if pn != "" {
				if !st.reported["panics"] {
					c.j.fail(mlScope(own)+kind+"-lookup/panics", pn, c.rowCase(r, map[string]interface{}{"ctx": "lookup", "query": l}))
					st.reported["panics"] = true
				}
				continue
			}
			st.seen[a]++
			if st.allowed[a] {
				continue
			}
			what := "answers-unexpected-id"
			switch {
			case a.E != "ok" && len(st.exact) > 0:
				what = "own-signature-not-found"
			case a.E != "ok" && l.Code[0].E == "ok":
				what = "error-instead-of-the-fallback"
			case a.E != "ok":
				what = "other-error"
			default:
				e, ok := byID[fmt.Sprintf("%s/%d", l.K, a.Id)]
				switch {
				case !ok:
					what = "answers-an-id-without-entry"
				case e.Name != l.Name:
					what = "answers-another-name"
				case len(st.exact) > 0 && e.Sig != l.Sig:
					what = "exact-match-passed-over"
				case len(st.exact) > 1:
					what = "shadowed-action-answered" // name and signature twice: the one declared last is the answer
				case l.K == "m" && mlSig(e.Ret) != a.Ret:
					what = "reports-another-return-signature"
				case l.Code[0].E != "ok":
					what = "answers-where-an-error-is-due"
				case len(st.named) > 1:
					what = "answers-another-overload"
				}
			}
			if !st.reported[what] {
				st.reported[what] = true
				allowed := []string{}
				for _, x := range l.Code {
					allowed = append(allowed, mlAnsText(x))
				}
				c.j.fail(mlScope(own)+kind+"-lookup/"+what, fmt.Sprintf("%s(%q, %q) on %s: %s; the specification allows %s",
					fn[l.K], l.Name, mlSig(l.Sig), mlEntriesText(mo, l.K), mlAnsText(a), strings.Join(allowed, " / ")),
					c.rowCase(r, map[string]interface{}{"ctx": "lookup", "query": l}))
			}
		}
		// a lookup leaves the meta-object as it is
		if have, _ := mlEntriesOf(&m); len(have) != len(want) {
			c.j.fail(mlScope(r.Wf)+"lookup-changes-the-meta-object", fmt.Sprintf("%d entries before, %d after", len(want), len(have)), c.rowCase(r, map[string]interface{}{"ctx": "lookup"}))
		} else if what, text := mlDiff(want, have); what != "" {
			c.j.fail(mlScope(r.Wf)+"lookup-changes-the-meta-object", what+": "+text, c.rowCase(r, map[string]interface{}{"ctx": "lookup"}))
		}
	}
	for li := range r.Lookups {
		l, st := &r.Lookups[li], &sts[li]
		kind := mlKindName[l.K]
		// allowed by the rendering of the code, not by the intent: the named deviations, observed
		if len(st.reported) == 0 {
			dev := false
			for a := range st.seen {
				if a != st.intent {
					dev = true
				}
			}
			if dev {
				what := "last-chance-answers-an-overload"
				if st.intent.E == "ok" {
					what = "answer-depends-on-the-map-walk"
				}
				c.st["lookups_deviating_from_the_intent"]++
				c.j.fail("metalookup/outside/"+kind+"-lookup/"+what, fmt.Sprintf("%s(%q, %q) on %s: answers %v in %d repetitions, the intent is %s",
					fn[l.K], l.Name, mlSig(l.Sig), mlEntriesText(mo, l.K), mlSeenText(st.seen), c.reps, mlAnsText(st.intent)),
					c.rowCase(r, map[string]interface{}{"ctx": "lookup", "query": l}))
			}
			if len(st.seen) > 1 {
				c.st["lookups_with_several_answers"]++
			}
		}
		if r.Wf && l.Self {
			c.st["lookups_own"]++
		}
		c.st["lookup_vectors"]++
	}
}

func mlSeenText(seen map[mlAns]int) string {
	s := []string{}
	for a, n := range seen {
		s = append(s, fmt.Sprintf("%s x%d", mlAnsText(a), n))
	}
	sort.Strings(s)
	return strings.Join(s, ", ")
}

func mlEntriesText(mo []mlEntry, k string) string {
	s := []string{}
	for _, e := range mo {
		if e.K == k && e.Uid >= 86 {
			s = append(s, fmt.Sprintf("%d:%s%s", e.Uid, e.Name, e.Sig))
		}
	}
	sort.Strings(s)
	return "{" + strings.Join(s, " ") + "}"
}

// names: ForEachMethodAndSignal over the interface
func (c *mlCtx) names(r *mlRow) {
	if len(r.Names) != 1 {
		return // a configuration that is not the code
	}
	want := r.Names[0]
	reported := map[string]bool{}
	for rep := 0; rep < c.reps; rep++ {
		m := mlBuild(r.User, c.rnd)
		var have []mlNamed
		var err error
		pn := guarded(func() {
			err = m.ForEachMethodAndSignal(
				func(x object.MetaMethod, n string) error { have = append(have, mlNamed{"m", x.Uid, n}); return nil },
				func(x object.MetaSignal, n string) error { have = append(have, mlNamed{"s", x.Uid, n}); return nil },
				func(x object.MetaProperty, n string) error { have = append(have, mlNamed{"p", x.Uid, n}); return nil })
		})
		c.st["name_walks"]++
		what, text := "", ""
		switch {
		case pn != "":
			what, text = "panics", pn
		case err != nil:
			what, text = "walk-fails", err.Error()
		case len(have) != len(want):
			what, text = "actions-not-covered", fmt.Sprintf("%d callbacks for %d actions", len(have), len(want))
		default:
			used := map[string]bool{}
			for i := range have {
				if !token.IsIdentifier(have[i].Go) || !token.IsExported(have[i].Go) {
					what, text = "not-an-exported-identifier", fmt.Sprintf("%q is handed to the generators: %v", have[i].Go, have)
					break
				}
				if used[have[i].Go] {
					what, text = "names-not-distinct", fmt.Sprintf("%s is handed out twice: %v", have[i].Go, have)
					break
				}
				used[have[i].Go] = true
			}
			if what == "" {
				for i := range have {
					if have[i].K != want[i].K || have[i].Uid != want[i].Uid {
						what, text = "walk-order", fmt.Sprintf("callback %d is for %s %d, the walk is %v", i, mlKindName[have[i].K], have[i].Uid, want)
						break
					}
					if have[i].Go != want[i].Go {
						what, text = "other-name", fmt.Sprintf("%s %d is named %s, the specification names it %s (walk %v)", mlKindName[have[i].K], have[i].Uid, have[i].Go, want[i].Go, have)
						break
					}
				}
			}
		}
		if what != "" && !reported[what] {
			reported[what] = true
			c.j.fail(mlScope(r.Wf)+"names/"+what, text, c.rowCase(r, map[string]interface{}{"ctx": "names", "want": want}))
		}
	}
	c.st["name_vectors"]++
}

// full: FullMetaObject(user) = mou + generic; the argument is left as it was
func (c *mlCtx) full(r *mlRow) {
	if !r.Full {
		return
	}
	want := mlNormal(c.meta(r))
	for rep := 0; rep < 2; rep++ {
		from := mlBuild(r.User, c.rnd)
		var got object.MetaObject
		pn := guarded(func() { got = object.FullMetaObject(from) })
		c.st["merges"]++
		cs := c.rowCase(r, map[string]interface{}{"ctx": "full"})
		if pn != "" {
			c.j.fail(mlScope(r.Wf)+"full/panics", pn, cs)
			return
		}
		have, skew := mlEntriesOf(&got)
		if what, text := mlDiff(want, have); what != "" {
			c.j.fail(mlScope(r.Wf)+"full/"+what, text, cs)
			return
		}
		if skew != "" {
			c.j.fail(mlScope(r.Wf)+"full/key-and-uid-differ", skew, cs)
			return
		}
		back, _ := mlEntriesOf(&from)
		if what, text := mlDiff(mlNormal(r.User), back); what != "" {
			c.j.fail(mlScope(r.Wf)+"full/argument-changed", what+": "+text, cs)
			return
		}
	}
	// the generic object itself must still be what the specification says (a merge that writes into it)
	if c.st["merge_vectors"] == 0 || int(c.st["merge_vectors"])%500 == 0 {
		gen, _ := mlEntriesOf(&object.ObjectMetaObject)
		if what, text := mlDiff(mlNormal(c.generic), gen); what != "" {
			c.j.fail(mlScope(true)+"full/generic-object-"+what, text, c.rowCase(r, map[string]interface{}{"ctx": "full"}))
		}
	}
	c.st["merge_vectors"]++
}

func (c *mlCtx) actions(r *mlRow) {
	mo := c.meta(r)
	for rep := 0; rep < 2; rep++ {
		m := mlBuild(mo, c.rnd)
		for _, a := range r.Actions {
			var name, pname string
			var err, perr error
			pn := guarded(func() {
				name, err = m.ActionName(a.Id)
				pname, perr = m.PropertyName(a.Id)
			})
			c.st["action_names"]++
			cs := c.rowCase(r, map[string]interface{}{"ctx": "action", "id": a.Id})
			if pn != "" {
				c.j.fail(mlScope(r.Wf)+"action-name/panics", pn, cs)
				return
			}
			if err != nil {
				name = ""
			}
			if perr != nil {
				pname = ""
			}
			if name != a.Name {
				c.j.fail(mlScope(r.Wf)+"action-name/other-name", fmt.Sprintf("ActionName(%d) = %q (%v), the specification: %q", a.Id, name, err, a.Name), cs)
				return
			}
			if pname != a.Pname {
				c.j.fail(mlScope(r.Wf)+"action-name/other-property-name", fmt.Sprintf("PropertyName(%d) = %q (%v), the specification: %q", a.Id, pname, perr, a.Pname), cs)
				return
			}
		}
	}
}

// ---------------------------------------------------------------------------------------------------------
// end to end: a real object behind a real server, reached through bus.NewProxy
// ---------------------------------------------------------------------------------------------------------

type mlSeen struct {
	Action  uint32
	Payload []byte
	Type    uint8
}

// mlActor is the object's own part: everything the generic object does not handle arrives here
type mlActor struct {
	mu      sync.Mutex
	seen    []mlSeen
	rets    map[uint32]string
	changes []string
}

func (a *mlActor) Receive(msg *net.Message, from bus.Channel) error {
	a.mu.Lock()
	a.seen = append(a.seen, mlSeen{msg.Header.Action, append([]byte{}, msg.Payload...), msg.Header.Type})
	ret := a.rets[msg.Header.Action]
	a.mu.Unlock()
	var out []byte
	if ret == "i" { // the result tells which action ran
		out = make([]byte, 4)
		binary.LittleEndian.PutUint32(out, msg.Header.Action)
	}
	return from.SendReply(msg, out)
}
func (a *mlActor) Activate(bus.Activation) error { return nil }
func (a *mlActor) OnTerminate()                  {}
func (a *mlActor) take() []mlSeen {
	a.mu.Lock()
	defer a.mu.Unlock()
	s := a.seen
	a.seen = nil
	return s
}
func (a *mlActor) onChange(name string, data []byte) error {
	a.mu.Lock()
	defer a.mu.Unlock()
	a.changes = append(a.changes, fmt.Sprintf("%s=%x", name, data))
	return nil
}
func (a *mlActor) takeChanges() []string {
	a.mu.Lock()
	defer a.mu.Unlock()
	s := a.changes
	a.changes = nil
	return s
}

type mlListener struct{ ch chan struct{} }

func (l *mlListener) Accept() (net.Stream, error) { <-l.ch; return nil, fmt.Errorf("listener closed") }
func (l *mlListener) Close() error {
	select {
	case <-l.ch:
	default:
		close(l.ch)
	}
	return nil
}

// mlArgs: the arguments of a call with the parameter signature sig, and their encoding
func mlArgs(sig string, uid uint32) (args []interface{}, payload []byte) {
	le := func(n uint32) []byte { b := make([]byte, 4); binary.LittleEndian.PutUint32(b, n); return b }
	switch sig {
	case "()":
	case "(i)":
		args, payload = []interface{}{int32(uid + 1000)}, le(uid+1000)
	case "(s)":
		s := fmt.Sprintf("to-%d", uid)
		args, payload = []interface{}{s}, append(le(uint32(len(s))), s...)
	case "(ii)":
		args, payload = []interface{}{int32(uid), int32(7)}, append(le(uid), le(7)...)
	default:
		hlib.Fatal("no arguments for the parameter signature %q", sig)
	}
	return
}

// mlData: a value of the signature sig that tells uid and tag apart
func mlData(sig string, uid uint32, tag uint32) []byte {
	le := func(n uint32) []byte { b := make([]byte, 4); binary.LittleEndian.PutUint32(b, n); return b }
	switch sig {
	case "i", "(i)", "(i)<P,a>":
		return le(uid*16 + tag)
	case "s", "(s)":
		s := fmt.Sprintf("v%d.%d", uid, tag)
		return append(le(uint32(len(s))), s...)
	case "(ii)":
		return append(le(uid), le(tag)...)
	}
	hlib.Fatal("no value for the signature %q", sig)
	return nil
}

// within runs f under a time limit; false = f did not return
func within(d time.Duration, f func()) bool {
	done := make(chan struct{})
	go func() { defer close(done); f() }()
	select {
	case <-done:
		return true
	case <-time.After(d):
		return false
	}
}

const mlLimit = 10 * time.Second

type mlCaller interface {
	Call(method, param, ret string, payload []byte) ([]byte, error)
}

func (c *mlCtx) e2e(r *mlRow) {
	cs := func(op *mlOp) map[string]interface{} {
		return c.rowCase(r, map[string]interface{}{"ctx": "e2e", "op": op})
	}
	// inside C05's statement: what a generated proxy does (Call2 -> MethodID -> CallID, SignalID / PropertyID ->
	// SubscribeID, setProperty / property through the generic object).  proxy.Call (no caller in qiloop, not part of
	// bus.Proxy) and a subscription to the id of a method are replayed and reported as observations.
	fail := func(what, text string, op *mlOp) {
		scope := "metalookup/own/e2e/"
		if op != nil && (op.Op == "call" || op.Op == "subid") {
			scope = "metalookup/outside/e2e/"
		}
		c.j.fail(scope+what, text, cs(op))
	}
	actor := &mlActor{rets: map[uint32]string{}}
	for _, e := range r.User {
		if e.K == "m" {
			actor.rets[e.Uid] = e.Ret
		}
	}
	lst := &mlListener{ch: make(chan struct{})}
	srv, err := bus.StandAloneServer(lst, bus.Yes{}, bus.PrivateNamespace())
	if err != nil {
		hlib.Fatal("server: %v", err)
	}
	hung := false
	defer func() {
		if hung {
			go srv.Terminate()
		} else if !within(mlLimit, func() { srv.Terminate() }) {
			fail("terminate-hangs", "Server.Terminate does not return", nil)
		}
	}()
	obj := bus.NewBasicObject(actor, mlBuild(r.User, c.rnd), actor.onChange)
	svc, err := srv.NewService("row", obj)
	if err != nil {
		fail("service-activation-fails", err.Error(), nil)
		return
	}
	client := srv.Client()
	var meta object.MetaObject
	if !within(mlLimit, func() { meta, err = bus.GetMetaObject(client, svc.ServiceID(), 1) }) {
		hung = true
		fail("meta-object-call-hangs", "the object does not answer metaObject", nil)
		return
	}
	if err != nil {
		fail("meta-object-call-fails", err.Error(), nil)
		return
	}
	// what the object reports is the merged meta-object of the specification
	have, _ := mlEntriesOf(&meta)
	if what, text := mlDiff(mlNormal(c.meta(r)), have); what != "" {
		fail("reported-meta-object/"+what, text, nil)
		return
	}
	proxy := bus.NewProxy(client, meta, svc.ServiceID(), 1)
	objp := bus.MakeObject(proxy)
	emits := []mlEntry{}
	for _, e := range r.User {
		if e.K != "m" {
			emits = append(emits, e)
		}
	}
	sort.Slice(emits, func(i, j int) bool { return emits[i].Uid < emits[j].Uid })
	// one event on every signal and property of the interface, then a second one on `id`: a subscriber of `id`
	// must see exactly its own first and second event
	emitAll := func(id uint32) (want [][]byte, err error) {
		for round := uint32(1); round <= 2; round++ {
			for _, e := range emits {
				if round == 2 && e.Uid != id {
					continue
				}
				d := mlData(e.Sig, e.Uid, round)
				if e.K == "s" {
					err = obj.UpdateSignal(e.Uid, d)
				} else {
					err = obj.UpdateProperty(e.Uid, mlSig(e.Sig), d)
				}
				if err != nil {
					return nil, fmt.Errorf("emit on %d: %v", e.Uid, err)
				}
				if e.Uid == id {
					want = append(want, d)
				}
			}
		}
		return want, nil
	}
	collect := func(ch chan []byte, n int) (got [][]byte, closed bool) {
		for len(got) < n {
			select {
			case d, ok := <-ch:
				if !ok {
					return got, true
				}
				got = append(got, d)
			case <-time.After(mlLimit):
				return got, false
			}
		}
		// nothing more: the events of one connection arrive in the order of emission, and the last expected one
		// is the last one emitted, so whatever was sent in between is already here
		select {
		case d, ok := <-ch:
			if ok {
				got = append(got, d)
			}
		case <-time.After(2 * time.Millisecond):
		}
		return got, false
	}
	sameEvents := func(a, b [][]byte) bool {
		if len(a) != len(b) {
			return false
		}
		for i := range a {
			if !bytes.Equal(a[i], b[i]) {
				return false
			}
		}
		return true
	}
	plan := append([]mlOp{}, r.Plan...)
	sort.Slice(plan, func(i, j int) bool {
		a, b := plan[i], plan[j]
		return fmt.Sprint(a.Op, a.Name, a.Sig, a.Ret, a.Byid) < fmt.Sprint(b.Op, b.Name, b.Sig, b.Ret, b.Byid)
	})
	for oi := range plan {
		op := &plan[oi]
		if len(op.Ans) != 1 {
			// the rendering of the code gives several answers for an operation of the plan: the specification has no
			// single expectation (cannot happen for a well-formed interface: OwnActionReachable)
			fail("plan-is-ambiguous", fmt.Sprintf("%d answers", len(op.Ans)), op)
			continue
		}
		want := op.Ans[0]
		c.st["e2e_ops"]++
		actor.take()
		actor.takeChanges()
		switch op.Op {
		case "call2", "call2wide", "call", "callid":
			uid := want.Id
			if want.E != "ok" {
				uid = 0
			}
			args, payload := mlArgs(op.Sig, op.Byid+uid)
			var cerr error
			var got interface{}
			ok := within(mlLimit, func() {
				switch op.Op {
				case "call2":
					if op.Ret == "i" {
						var ret int32
						cerr = proxy.Call2(op.Name, bus.NewParams(op.Sig, args...), bus.NewResponse("i", &ret))
						got = int64(ret)
					} else {
						var ret struct{}
						cerr = proxy.Call2(op.Name, bus.NewParams(op.Sig, args...), bus.NewResponse("v", &ret))
					}
				case "call2wide":
					var ret int64
					cerr = proxy.Call2(op.Name, bus.NewParams(op.Sig, args...), bus.NewResponse("l", &ret))
					got = ret
				case "call":
					caller, isCaller := proxy.(mlCaller)
					if !isCaller {
						hlib.Fatal("bus.NewProxy returns a proxy without Call")
					}
					var out []byte
					out, cerr = caller.Call(op.Name, op.Sig, op.Ret, payload)
					if cerr == nil && op.Ret == "i" && len(out) == 4 {
						got = int64(binary.LittleEndian.Uint32(out))
					} else if cerr == nil && op.Ret == "i" {
						got = int64(-1)
					}
				case "callid":
					var out []byte
					out, cerr = proxy.CallID(op.Byid, payload)
					if cerr == nil && op.Ret == "i" && len(out) == 4 {
						got = int64(binary.LittleEndian.Uint32(out))
					}
				}
			})
			if !ok {
				hung = true
				fail(op.Op+"-hangs", fmt.Sprintf("%s(%s%s) does not return", op.Op, op.Name, op.Sig), op)
				return
			}
			seen := actor.take()
			if want.E != "ok" {
				if cerr == nil {
					fail(op.Op+"-succeeds-where-an-error-is-due", fmt.Sprintf("%s %s%s -> %s: no error, the object saw %v", op.Op, op.Name, op.Sig, op.Ret, mlActions(seen)), op)
				} else if len(seen) != 0 {
					fail(op.Op+"-refused-but-executed", fmt.Sprintf("%s %s%s -> %s: %v, yet the object saw %v", op.Op, op.Name, op.Sig, op.Ret, cerr, mlActions(seen)), op)
				}
				continue
			}
			if cerr != nil {
				fail(op.Op+"-fails", fmt.Sprintf("%s %s%s: %v (the object saw %v)", op.Op, op.Name, op.Sig, cerr, mlActions(seen)), op)
				continue
			}
			if len(seen) != 1 || seen[0].Action != want.Id {
				what := "-reaches-another-action"
				if len(seen) == 0 {
					what = "-reaches-a-generic-action"
				} else if len(seen) > 1 {
					what = "-executed-more-than-once"
				}
				fail(op.Op+what, fmt.Sprintf("%s %s%s must reach the action %d; the object's own actions executed: %v", op.Op, op.Name, op.Sig, want.Id, mlActions(seen)), op)
				continue
			}
			if !bytes.Equal(seen[0].Payload, payload) {
				fail(op.Op+"-arguments-differ", fmt.Sprintf("sent %x, the object received %x", payload, seen[0].Payload), op)
				continue
			}
			if op.Ret == "i" && got != int64(want.Id) {
				fail(op.Op+"-result-differs", fmt.Sprintf("the action %d answers its id, the caller received %v", want.Id, got), op)
			}
		case "subid":
			var serr error
			var cancel func()
			ok := within(mlLimit, func() { cancel, _, serr = proxy.SubscribeID(op.Byid) })
			if !ok {
				hung = true
				fail("subscribe-hangs", fmt.Sprintf("SubscribeID(%d) does not return", op.Byid), op)
				return
			}
			if want.E != "ok" && serr == nil {
				fail("subscribe-to-a-method-accepted", fmt.Sprintf("SubscribeID(%d): no error, %d is the method %s", op.Byid, op.Byid, op.Name), op)
			} else if want.E == "ok" && serr != nil {
				fail("subscribe-fails", serr.Error(), op)
			}
			if serr == nil && cancel != nil {
				within(mlLimit, cancel)
			}
		case "sub":
			a, pn := mlAsk(proxy.MetaObject(), op.K, op.Name, op.Sig)
			if pn != "" || a != (mlAns{E: want.E, Id: want.Id}) {
				fail("subscribe-lookup-differs", fmt.Sprintf("%s %s %s on the proxy's meta-object: %s %s, the specification: %s", mlKindName[op.K], op.Name, op.Sig, mlAnsText(a), pn, mlAnsText(want)), op)
				continue
			}
			if want.E != "ok" {
				continue
			}
			var cancel func()
			var ch chan []byte
			var serr error
			if !within(mlLimit, func() { cancel, ch, serr = proxy.SubscribeID(a.Id) }) {
				hung = true
				fail("subscribe-hangs", fmt.Sprintf("SubscribeID(%d) does not return", a.Id), op)
				return
			}
			if serr != nil {
				fail("subscribe-fails", fmt.Sprintf("SubscribeID(%d) for the %s %s%s: %v", a.Id, mlKindName[op.K], op.Name, op.Sig, serr), op)
				continue
			}
			var wantEv [][]byte
			var eerr error
			if !within(mlLimit, func() { wantEv, eerr = emitAll(a.Id) }) {
				hung = true
				fail("emit-hangs", "UpdateSignal / UpdateProperty does not return", op)
				return
			}
			if eerr != nil {
				fail("emit-fails", eerr.Error(), op)
			} else {
				got, closed := collect(ch, len(wantEv))
				if closed || !sameEvents(got, wantEv) {
					what := "subscriber-receives-other-events"
					if len(got) < len(wantEv) {
						what = "event-not-delivered"
					}
					fail(what, fmt.Sprintf("subscribed to the %s %s%s (id %d); one event on each of %v, then one more on %d: want %x, received %x (closed %v)",
						mlKindName[op.K], op.Name, op.Sig, a.Id, mlUids(emits), a.Id, wantEv, got, closed), op)
				}
			}
			if !within(mlLimit, cancel) {
				hung = true
				fail("unsubscribe-hangs", "the cancel function does not return", op)
				return
			}
			actor.takeChanges()
		case "setname", "setid":
			// a subscriber of the id the event must go to
			var cancel func()
			var ch chan []byte
			var serr error
			if want.E == "ok" {
				if !within(mlLimit, func() { cancel, ch, serr = proxy.SubscribeID(want.Id) }) {
					hung = true
					fail("subscribe-hangs", fmt.Sprintf("SubscribeID(%d) does not return", want.Id), op)
					return
				}
				if serr != nil {
					fail("subscribe-fails", serr.Error(), op)
					continue
				}
			}
			var name value.Value = value.String(op.Name)
			if op.Op == "setid" {
				name = value.Uint(op.Byid)
			}
			data := mlData(op.Sig, want.Id+op.Byid, 9)
			var perr error
			if !within(mlLimit, func() { perr = objp.SetProperty(name, value.Opaque(mlSig(op.Sig), data)) }) {
				hung = true
				fail("property-set-hangs", "setProperty does not return", op)
				return
			}
			changes := actor.takeChanges()
			if want.E != "ok" {
				if perr == nil || len(changes) != 0 {
					fail("property-set-accepted-where-a-refusal-is-due", fmt.Sprintf("error %v, change callbacks %v", perr, changes), op)
				}
				continue
			}
			if perr != nil {
				fail("property-set-fails", fmt.Sprintf("setProperty(%v, %s value): %v", name, op.Sig, perr), op)
			} else {
				wantChange := fmt.Sprintf("%s=%x", op.Name, data)
				if len(changes) != 1 || changes[0] != wantChange {
					fail("property-change-callback-differs", fmt.Sprintf("want [%s], the object's callback saw %v", wantChange, changes), op)
				}
				got, closed := collect(ch, 1)
				if closed || !sameEvents(got, [][]byte{data}) {
					fail("property-event-not-on-its-id", fmt.Sprintf("a subscriber of the id %d must receive %x, received %x (closed %v)", want.Id, data, got, closed), op)
				}
				var back value.Value
				var gerr error
				if !within(mlLimit, func() { back, gerr = objp.Property(value.String(op.Name)) }) {
					hung = true
					fail("property-get-hangs", "property does not return", op)
					return
				}
				if gerr != nil {
					fail("property-get-fails", gerr.Error(), op)
				} else {
					var buf bytes.Buffer
					if back == nil || back.Write(&buf) != nil {
						fail("property-get-differs", "no value", op)
					} else {
						var wantBuf bytes.Buffer
						value.Opaque(mlSig(op.Sig), data).Write(&wantBuf)
						if !bytes.Equal(buf.Bytes(), wantBuf.Bytes()) {
							fail("property-get-differs", fmt.Sprintf("set %x, get %x (signature and data)", wantBuf.Bytes(), buf.Bytes()), op)
						}
					}
				}
			}
			if cancel != nil && !within(mlLimit, cancel) {
				hung = true
				fail("unsubscribe-hangs", "the cancel function does not return", op)
				return
			}
		case "getid":
			var gerr error
			var back value.Value
			if !within(mlLimit, func() { back, gerr = objp.Property(value.Uint(op.Byid)) }) {
				hung = true
				fail("property-get-hangs", "property does not return", op)
				return
			}
			if gerr != nil {
				c.j.fail("metalookup/outside/e2e/property-get-by-id-refused", fmt.Sprintf("property(%d): %v (setProperty accepts the id)", op.Byid, gerr), cs(op))
			} else if back == nil {
				fail("property-get-differs", "no value and no error", op)
			}
		default:
			hlib.Fatal("unknown operation %q", op.Op)
		}
	}
	c.st["e2e_rows"]++
}

func mlActions(s []mlSeen) []uint32 {
	out := []uint32{}
	for _, x := range s {
		out = append(out, x.Action)
	}
	return out
}

func mlUids(es []mlEntry) []uint32 {
	out := []uint32{}
	for _, e := range es {
		out = append(out, e.Uid)
	}
	return out
}

func metalookupChild(args []string) {
	defer harnessPanic()
	if len(args) < 4 {
		hlib.Fatal("usage: metalookup-child <file> <start> <journal> <reps>")
	}
	start, _ := strconv.Atoi(args[1])
	j := openJournal(args[2])
	reps, _ := strconv.Atoi(args[3])
	if reps < 1 {
		reps = 1
	}
	lines := loadLines(args[0])
	j.watchdog(120 * time.Second)
	c := &mlCtx{j: j, rnd: rand.New(rand.NewSource(hlib.Seed()*7919 + int64(start))), reps: reps, st: map[string]float64{}}
	sum := childSummary{Extra: map[string]interface{}{}}
	j.snapshot = func() childSummary {
		for k, v := range c.st {
			sum.Extra[k] = v
		}
		return sum
	}
	// the generic object comes first in the file, whatever the start
	for i := range lines {
		var l c09Line
		if err := json.Unmarshal(lines[i], &l); err != nil {
			hlib.Fatal("line %d: %v", i, err)
		}
		if l.K == "G" {
			if err := json.Unmarshal(l.V, &c.generic); err != nil {
				hlib.Fatal("line %d: %v", i, err)
			}
			break
		}
	}
	if len(c.generic) == 0 {
		hlib.Fatal("no G line")
	}
	shapes := map[string]bool{}
	for i := start; i < len(lines); i++ {
		j.begin(i)
		var l c09Line
		if err := json.Unmarshal(lines[i], &l); err != nil {
			hlib.Fatal("line %d: %v", i, err)
		}
		if l.K == "G" {
			sum.Evaluations++
			continue
		}
		var r mlRow
		if err := json.Unmarshal(l.V, &r); err != nil {
			hlib.Fatal("line %d: %v", i, err)
		}
		c.line = i
		c.lookups(&r)
		c.names(&r)
		c.full(&r)
		c.actions(&r)
		if r.E2E && len(r.Plan) > 0 {
			c.e2e(&r)
		}
		shapes[fmt.Sprint(r.Sel)] = true
		if len(sum.Samples) < 2 && len(r.Plan) > 0 && r.E2E {
			sum.Samples = append(sum.Samples, map[string]interface{}{"user": r.User, "lay": r.Lay, "lookups": len(r.Lookups), "plan": r.Plan})
		}
		sum.Evaluations++
		sum.Distinct = len(shapes)
	}
	j.finish(j.snapshot())
}

func metalookupMain(args []string) {
	if len(args) < 2 {
		hlib.Fatal("usage: metalookup <rows.ndjson> <reps>")
	}
	lines := loadLines(args[0])
	caseOf := func(i int) interface{} {
		var l c09Line
		json.Unmarshal(lines[i], &l)
		var r mlRow
		json.Unmarshal(l.V, &r)
		return map[string]interface{}{"ctx": "row", "line": i, "sel": r.Sel, "lay": r.Lay, "full": r.Full, "user": r.User}
	}
	res := runChildren("metalookup", args[0], len(lines), 900*time.Second, []string{args[1]}, caseOf)
	// a dead child is a dead lookup or a dead object of a row: C05's when the row has a plan; named like the others
	for i := range res.Failures {
		f := &res.Failures[i]
		if strings.HasPrefix(f.Class, "crash/") || strings.HasPrefix(f.Class, "hang/") || f.Class == "hang" {
			old := f.Class
			f.Class = "metalookup/own/" + strings.TrimSuffix(strings.Replace(old, "/row", "", 1), "/")
			if res.FailCount != nil {
				res.FailCount[f.Class] += res.FailCount[old]
				delete(res.FailCount, old)
			}
		}
	}
	res.Emit()
}

// registered here and not in main.go (which belongs to the checks of C05 / C09 / C18 / C20)
func init() {
	hlib.Register("metalookup", metalookupMain)
	hlib.Register("metalookup-child", metalookupChild)
}
