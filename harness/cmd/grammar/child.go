package main

// Child-process runner.  Everything that can panic, die with a Go fatal
// error or hang inside qiloop runs in a re-executed copy of this binary:
//
//	parent:  <sub> <vector file> ...          -> hlib.Result on stdout
//	child:   <sub>-child <vector file> <start> <journal>
//
// The child processes the lines start.. of the vector file.  Before each case
// it writes the line index into the journal; each failure is appended to
// <journal>.fails at once; counters go to <journal>.sum when it finishes.  If
// the child dies or exceeds its wall-clock limit, the parent attributes the
// death to the journalled case (failure class crash/... or hang/...) and
// restarts the child behind that case.

import (
	"bytes"
	"encoding/json"
	"fmt"
	"os"
	"os/exec"
	"runtime/debug"
	"strconv"
	"strings"
	"sync"
	"syscall"
	"time"

	"verif/harness/hlib"
)

type childSummary struct {
	Evaluations int                    `json:"evaluations"`
	Distinct    int                    `json:"distinct"`
	Samples     []interface{}          `json:"samples"`
	Extra       map[string]interface{} `json:"extra"`
}

// journal is the child's side of the protocol.
type journal struct {
	f     *os.File
	fails *os.File
	path  string
	mu    sync.Mutex
	cur   int
	since time.Time
	// snapshot returns the counters so far; they are saved every 1000
	// cases and by the watchdog, so a dying child loses little.
	snapshot func() childSummary
}

// watchdog ends the child when one case runs longer than limit: the parent
// then reports a hang of exactly that case.
func (j *journal) watchdog(limit time.Duration) {
	go func() {
		for {
			time.Sleep(100 * time.Millisecond)
			j.mu.Lock()
			i, t := j.cur, j.since
			j.mu.Unlock()
			if !t.IsZero() && time.Since(t) > limit {
				fmt.Fprintf(os.Stderr, "watchdog: case %d still running after %v\n", i, limit)
				if j.snapshot != nil {
					j.writeSum(j.snapshot())
				}
				os.Exit(7)
			}
		}
	}()
}

func openJournal(path string) *journal {
	f, err := os.OpenFile(path, os.O_CREATE|os.O_WRONLY|os.O_TRUNC, 0o644)
	if err != nil {
		hlib.Fatal("journal: %v", err)
	}
	ff, err := os.OpenFile(path+".fails", os.O_CREATE|os.O_WRONLY|os.O_APPEND, 0o644)
	if err != nil {
		hlib.Fatal("journal: %v", err)
	}
	return &journal{f: f, fails: ff, path: path}
}

// begin records that case i is about to run.
func (j *journal) begin(i int) {
	fmt.Fprintf(j.f, "%d\n", i)
	if j.snapshot != nil && i%1000 == 999 {
		j.writeSum(j.snapshot())
	}
	j.mu.Lock()
	j.cur, j.since = i, time.Now()
	j.mu.Unlock()
}

func (j *journal) writeSum(s childSummary) {
	b, _ := json.Marshal(s)
	if err := os.WriteFile(j.path+".sum.tmp", b, 0o644); err != nil {
		hlib.Fatal("journal: %v", err)
	}
	os.Rename(j.path+".sum.tmp", j.path+".sum")
}

func (j *journal) fail(class, detail string, c interface{}) {
	b, _ := json.Marshal(hlib.Failure{Class: class, Detail: detail, Case: c})
	j.fails.Write(append(b, '\n'))
}

func (j *journal) finish(s childSummary) {
	j.mu.Lock()
	j.since = time.Time{}
	j.mu.Unlock()
	j.writeSum(s)
}

func lastJournalIndex(path string) int {
	b, err := os.ReadFile(path)
	if err != nil {
		return -1
	}
	lines := strings.Fields(string(b))
	if len(lines) == 0 {
		return -1
	}
	n, err := strconv.Atoi(lines[len(lines)-1])
	if err != nil {
		return -1
	}
	return n
}

// classifyDeath names what killed the child from its stderr.
func classifyDeath(stderr string, timedOut bool) string {
	switch {
	case timedOut || strings.Contains(stderr, "watchdog: case"):
		return "hang"
	case strings.Contains(stderr, "stack overflow"):
		return "crash/stack-overflow"
	case strings.Contains(stderr, "out of memory") || strings.Contains(stderr, "cannot allocate"):
		return "crash/out-of-memory"
	case strings.Contains(stderr, "fatal error:"):
		return "crash/fatal-error"
	case strings.Contains(stderr, "panic:"):
		return "crash/panic"
	}
	return "crash/killed"
}

// runChildren drives the children over the n cases of file; caseOf returns
// the replayable case record of line i (for the failure report).
func runChildren(sub, file string, n int, limit time.Duration, extraArgs []string,
	caseOf func(i int) interface{}) *hlib.Result {
	self, err := os.Executable()
	if err != nil {
		hlib.Fatal("executable: %v", err)
	}
	mk := func(start int, jp string) *exec.Cmd {
		args := append([]string{sub + "-child", file, strconv.Itoa(start), jp}, extraArgs...)
		return exec.Command(self, args...)
	}
	return runProgram(sub, mk, n, limit, caseOf)
}

// runProgram is runChildren for any program that follows the journal protocol.
func runProgram(sub string, mk func(start int, journal string) *exec.Cmd, n int, limit time.Duration,
	caseOf func(i int) interface{}) *hlib.Result {
	res := &hlib.Result{}
	var err error
	dir := os.Getenv("VERIF_SCRATCH_DIR")
	if dir == "" {
		dir = os.TempDir()
	}
	jp := fmt.Sprintf("%s/journal-%s-%d", dir, sub, os.Getpid())
	defer os.Remove(jp)
	defer os.Remove(jp + ".fails")
	defer os.Remove(jp + ".sum")
	os.Remove(jp + ".fails")
	start, restarts := 0, 0
	extra := map[string]interface{}{}
	for start < n {
		os.Remove(jp)
		os.Remove(jp + ".sum")
		cmd := mk(start, jp)
		var stderr bytes.Buffer
		cmd.Stderr = &stderr
		cmd.Stdout = &stderr
		if err := cmd.Start(); err != nil {
			hlib.Fatal("start child: %v", err)
		}
		done := make(chan error, 1)
		go func() { done <- cmd.Wait() }()
		timedOut := false
		select {
		case err = <-done:
		case <-time.After(limit):
			timedOut = true
			cmd.Process.Signal(syscall.SIGQUIT) // goroutine dump into stderr
			select {
			case err = <-done:
			case <-time.After(5 * time.Second):
				cmd.Process.Kill()
				err = <-done
			}
		}
		var sum childSummary
		clean := err == nil && !timedOut
		if b, e := os.ReadFile(jp + ".sum"); e == nil {
			if e := json.Unmarshal(b, &sum); e != nil {
				hlib.Fatal("child summary: %v", e)
			}
			if clean {
				res.Evaluations += sum.Evaluations
			}
			res.Distinct += sum.Distinct
			for _, s := range sum.Samples {
				res.Sample(s)
			}
			for k, v := range sum.Extra {
				if f, ok := v.(float64); ok {
					if old, ok := extra[k].(float64); ok {
						f += old
					}
					extra[k] = f
				} else if _, seen := extra[k]; !seen {
					extra[k] = v
				}
			}
			if clean {
				break
			}
		} else if clean {
			hlib.Fatal("child %s finished without a summary", sub)
		}
		// the child died: attribute the death to the journalled case,
		// unless it reported a problem of the harness itself (hlib.Fatal)
		if cmd.ProcessState != nil && cmd.ProcessState.ExitCode() == 3 {
			hlib.Fatal("child %s: %s", sub, stderr.String())
		}
		i := lastJournalIndex(jp)
		if i < start {
			tail := stderr.String()
			if len(tail) > 2000 {
				tail = tail[len(tail)-2000:]
			}
			hlib.Fatal("child %s died before its first case (start %d): %v\n%s", sub, start, err, tail)
		}
		msg := stderr.String()
		if len(msg) > 1500 {
			msg = msg[:1500]
		}
		res.Fail(classifyDeath(stderr.String(), timedOut)+"/"+deathContext(caseOf(i)), msg, caseOf(i))
		res.Evaluations += i - start + 1
		start = i + 1
		restarts++
		if restarts > 50 {
			// the code under test dies again and again: every death is reported
			// above; the remaining cases are not run
			res.Fail("crash-storm/"+sub, fmt.Sprintf("the child died %d times; %d cases not run", restarts, n-start), nil)
			res.SetExtra("cases_not_run_after_crashes", n-start)
			res.Evaluations += n - start
			break
		}
	}
	// failures the children reported themselves
	if b, err := os.ReadFile(jp + ".fails"); err == nil {
		for _, line := range bytes.Split(b, []byte("\n")) {
			if len(line) == 0 {
				continue
			}
			var f hlib.Failure
			if err := json.Unmarshal(line, &f); err != nil {
				hlib.Fatal("child failure record: %v", err)
			}
			res.Fail(f.Class, f.Detail, f.Case)
		}
	}
	for k, v := range extra {
		res.SetExtra(k, v)
	}
	res.SetExtra("child_restarts", restarts)
	return res
}

// deathContext gives the failure class of a dead child its second half: the
// "ctx" field of the case record when there is one.
func deathContext(c interface{}) string {
	if m, ok := c.(map[string]interface{}); ok {
		if s, ok := m["ctx"].(string); ok && s != "" {
			return s
		}
	}
	return "case"
}

// harnessPanic turns a panic that escapes the guarded calls into qiloop, i.e.
// a bug of this harness, into an infrastructure error (exit code 3); use
// with defer in the child commands.
func harnessPanic() {
	if r := recover(); r != nil {
		hlib.Fatal("harness panic: %v\n%s", r, debug.Stack())
	}
}

// loadLines reads an ndjson file into memory.
func loadLines(path string) [][]byte {
	var lines [][]byte
	hlib.ReadLines(path, func(b []byte) {
		lines = append(lines, append([]byte{}, b...))
	})
	return lines
}
