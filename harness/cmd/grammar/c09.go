package main

// C09: replay of the Signature specification's vectors.
//
//	V lines: a type of the bounded universe: printed signature, IDL name and
//	         Go shape expected by the spec.  signature.Parse must accept it,
//	         print the identical string, print the IDL name, and Type() must
//	         have the expected shape.
//	N lines: a near miss (single-character edit) with the reference parser's
//	         verdict.  Grammatical ones must be accepted and print `canon`;
//	         whatever is accepted must be a fixed point of print-after-parse.
//	R lines: arbitrary strings: error, or accepted and a fixed point.
//	D lines: pathological nesting, described as open^n core close^n.
//
// Nothing may panic, kill the process or hang: the replay runs in a child
// process (child.go).

import (
	"encoding/json"
	"fmt"
	"os"
	"reflect"
	"strconv"
	"strings"
	"time"

	"github.com/lugu/qiloop/meta/signature"
	"verif/harness/hlib"
)

type c09Line struct {
	K string
	V json.RawMessage
}

type c09Vec struct {
	C   string                 `json:"c"`
	Sig string                 `json:"sig"`
	Idl string                 `json:"idl"`
	Go  map[string]interface{} `json:"go"`
	Top string                 `json:"top"`
}

type c09Near struct {
	S      string `json:"s"`
	Acc    bool   `json:"acc"`
	Strict bool   `json:"strict"`
	Canon  string `json:"canon"`
	Ctx   string `json:"ctx,omitempty"`
}

type c09Deep struct {
	Open  string `json:"open"`
	Core  string `json:"core"`
	Close string `json:"close"`
	N     int    `json:"n"`
	Ctx   string `json:"ctx"`
}

func (d c09Deep) text() string {
	return strings.Repeat(d.Open, d.N) + d.Core + strings.Repeat(d.Close, d.N)
}

func clip(s string) string {
	if len(s) > 200 {
		return s[:100] + fmt.Sprintf("...(%d bytes)...", len(s)) + s[len(s)-60:]
	}
	return s
}

// guarded runs f and turns a panic into an error text.
func guarded(f func()) (panicked string) {
	defer func() {
		if r := recover(); r != nil {
			panicked = fmt.Sprint(r)
			if len(panicked) > 300 {
				panicked = panicked[:300]
			}
		}
	}()
	f()
	return ""
}

// shapeDiff compares a reflect.Type with the shape expected by the spec
// (GoKind); "" when it conforms.
func shapeDiff(exp map[string]interface{}, t reflect.Type, path string) string {
	if t == nil {
		return path + ": nil type"
	}
	k, _ := exp["k"].(string)
	switch k {
	case "any":
		return ""
	case "slice":
		if t.Kind() != reflect.Slice {
			return fmt.Sprintf("%s: want slice, have %v", path, t)
		}
		return shapeDiff(exp["e"].(map[string]interface{}), t.Elem(), path+"[]")
	case "map":
		if t.Kind() != reflect.Map {
			return fmt.Sprintf("%s: want map, have %v", path, t)
		}
		if d := shapeDiff(exp["key"].(map[string]interface{}), t.Key(), path+".key"); d != "" {
			return d
		}
		return shapeDiff(exp["val"].(map[string]interface{}), t.Elem(), path+".val")
	case "struct":
		if t.Kind() != reflect.Struct {
			return fmt.Sprintf("%s: want struct, have %v", path, t)
		}
		fs, _ := exp["fs"].([]interface{})
		if t.NumField() != len(fs) {
			return fmt.Sprintf("%s: want %d fields, have %v", path, len(fs), t)
		}
		for i, f := range fs {
			fm := f.(map[string]interface{})
			if want := fm["n"].(string); !tupleName(want) && fieldKey(t.Field(i).Name) != fieldKey(want) {
				return fmt.Sprintf("%s: field %d want name %v, have %s", path, i, want, t.Field(i).Name)
			}
			if d := shapeDiff(fm["t"].(map[string]interface{}), t.Field(i).Type, path+"."+t.Field(i).Name); d != "" {
				return d
			}
		}
		return ""
	default:
		if t.Kind().String() != k {
			return fmt.Sprintf("%s: want %s, have %v", path, k, t)
		}
		return ""
	}
}

// tupleName: the members of a tuple have no names in the signature (the spec
// calls them P0, P1, ...): only their number and types are compared.
func tupleName(n string) bool {
	if len(n) < 2 || n[0] != 'P' {
		return false
	}
	_, err := strconv.Atoi(n[1:])
	return err == nil
}

// fieldKey: the Go field of a struct member must carry the member's name; the
// case and the underscores are the implementation's choice.
func fieldKey(n string) string {
	return strings.ToLower(strings.ReplaceAll(n, "_", ""))
}

type c09Counters struct {
	vec, near, random, deep             int
	accepted, rejected, lenient, goSkip int
	lenientSamples                      []string
}

func c09Vector(j *journal, v c09Vec, cnt *c09Counters) {
	cnt.vec++
	var p signature.Type
	var err error
	if pn := guarded(func() { p, err = signature.Parse(v.Sig) }); pn != "" {
		j.fail("parse-panics/"+v.Top, pn, v)
		return
	}
	if err != nil {
		j.fail("rejects-grammatical/"+v.Top, err.Error(), v)
		return
	}
	var printed, idl string
	if pn := guarded(func() { printed = p.Signature(); idl = p.SignatureIDL() }); pn != "" {
		j.fail("print-panics/"+v.Top, pn, v)
		return
	}
	if printed != v.Sig {
		j.fail("print-differs/"+v.Top, fmt.Sprintf("printed %q", printed), v)
	}
	if idl != v.Idl {
		j.fail("idl-name/"+v.Top, fmt.Sprintf("SignatureIDL %q, expected %q", idl, v.Idl), v)
	}
	k, _ := v.Go["k"].(string)
	if k == "none" {
		cnt.goSkip++ // a map key Go cannot represent: Type() is not defined
		return
	}
	var t reflect.Type
	if pn := guarded(func() { t = p.Type() }); pn != "" {
		cls := "gotype-panics/" + v.Top
		if v.C == "fieldcase" {
			cls = "gotype-panics/fields-differ-by-case"
		}
		j.fail(cls, pn, v)
		return
	}
	if k == "struct?" {
		if t == nil {
			j.fail("go-kind/fields-differ-by-case", "nil type", v)
		}
		return
	}
	if d := shapeDiff(v.Go, t, "T"); d != "" {
		j.fail("go-kind/"+v.Top, d, v)
	}
	c09Use(j, v, p)
}

// Parse is a function of its input: what was done with earlier results (the generators register
// parsed types into a shared TypeSet, which renames structures on a name collision) must not change
// what a later Parse of the same string returns.  Every parsed vector is used that way; the last 300
// strings are parsed again from time to time and must print as before.
var (
	c09Set     = signature.NewTypeSet()
	c09Ring    []c09Vec
	c09Reparse int
)

func c09Use(j *journal, v c09Vec, p signature.Type) {
	guarded(func() { p.RegisterTo(c09Set) })
	c09Ring = append(c09Ring, v)
	if len(c09Ring) < 300 {
		return
	}
	for _, w := range c09Ring {
		c09Reparse++
		var printed string
		var err error
		if pn := guarded(func() {
			var q signature.Type
			q, err = signature.Parse(w.Sig)
			if err == nil {
				printed = q.Signature()
			}
		}); pn != "" || err != nil || printed != w.Sig {
			j.fail("parse-depends-on-history/"+w.Top, fmt.Sprintf("after other types were parsed and registered, %q parses to %q (err %v %s)", w.Sig, printed, err, pn), w)
		}
	}
	c09Ring = c09Ring[:0]
}

// fixedPoint checks the second sentence of the property on an accepted
// input: the printed form parses and prints itself.
func c09FixedPoint(j *journal, ctx, input string, p signature.Type) {
	var s1 string
	if pn := guarded(func() { s1 = p.Signature() }); pn != "" {
		j.fail("print-panics/"+ctx, pn, map[string]string{"s": clip(input), "ctx": ctx})
		return
	}
	var p2 signature.Type
	var err error
	if pn := guarded(func() { p2, err = signature.Parse(s1) }); pn != "" {
		j.fail("parse-panics/"+ctx, pn, map[string]string{"s": clip(s1), "ctx": ctx})
		return
	}
	if err != nil {
		j.fail("printed-form-rejected/"+ctx, err.Error(), map[string]string{"s": clip(input), "printed": clip(s1), "ctx": ctx})
		return
	}
	if s2 := p2.Signature(); s2 != s1 {
		j.fail("not-a-fixed-point/"+ctx, fmt.Sprintf("%q prints %q", clip(s1), clip(s2)),
			map[string]string{"s": clip(input), "ctx": ctx})
	}
	if i1, i2 := p.SignatureIDL(), p2.SignatureIDL(); i1 != i2 {
		j.fail("not-a-fixed-point/"+ctx+"-idl", fmt.Sprintf("%q vs %q", clip(i1), clip(i2)),
			map[string]string{"s": clip(input), "ctx": ctx})
	}
}

func c09Arbitrary(j *journal, ctx, s string, spec *c09Near, cnt *c09Counters) {
	var p signature.Type
	var err error
	if pn := guarded(func() { p, err = signature.Parse(s) }); pn != "" {
		j.fail("parse-panics/"+ctx, pn, map[string]string{"s": clip(s), "ctx": ctx})
		return
	}
	if err != nil {
		cnt.rejected++
		if spec != nil && spec.Strict {
			j.fail("rejects-grammatical/"+ctx, err.Error(), spec)
		}
		return
	}
	if p == nil {
		j.fail("nil-type-without-error/"+ctx, "", map[string]string{"s": clip(s), "ctx": ctx})
		return
	}
	cnt.accepted++
	if spec != nil {
		if spec.Strict {
			if printed := p.Signature(); printed != spec.Canon {
				j.fail("print-differs/"+ctx, fmt.Sprintf("printed %q", printed), spec)
			}
		} else if !spec.Acc {
			// accepted although the grammar (the specification's reference parser) rejects it: "any
			// other input is rejected with an error".  No such input is accepted by the unchanged tree
			// anywhere in the near-miss universe (counted in accepted_beyond_reference_grammar).
			cnt.lenient++
			if len(cnt.lenientSamples) < 5 {
				cnt.lenientSamples = append(cnt.lenientSamples, s)
			}
			j.fail("accepts-ungrammatical/"+ctx, fmt.Sprintf("accepted and printed as %q", p.Signature()), spec)
		}
	}
	c09FixedPoint(j, ctx, s, p)
}

func c09Child(args []string) {
	defer harnessPanic()
	if len(args) < 3 {
		hlib.Fatal("usage: c09-child <file> <start> <journal>")
	}
	start, _ := strconv.Atoi(args[1])
	j := openJournal(args[2])
	lines := loadLines(args[0])
	caseLimit := 30 * time.Second
	if hlib.Thorough() {
		caseLimit = 120 * time.Second
	}
	j.watchdog(caseLimit)
	cnt := &c09Counters{}
	sum := childSummary{Extra: map[string]interface{}{}}
	distinct := map[string]bool{}
	j.snapshot = func() childSummary {
		sum.Distinct = len(distinct)
		for k, v := range map[string]int{"vectors": cnt.vec, "near_misses": cnt.near, "random": cnt.random,
			"deep": cnt.deep, "arbitrary_accepted": cnt.accepted, "arbitrary_rejected": cnt.rejected,
			"accepted_beyond_reference_grammar": cnt.lenient, "go_type_not_representable": cnt.goSkip} {
			sum.Extra[k] = float64(v)
		}
		if len(cnt.lenientSamples) > 0 {
			sum.Extra["accepted_beyond_reference_grammar_samples"] = cnt.lenientSamples
		}
		return sum
	}
	for i := start; i < len(lines); i++ {
		j.begin(i)
		var l c09Line
		if err := json.Unmarshal(lines[i], &l); err != nil {
			hlib.Fatal("line %d: %v", i, err)
		}
		switch l.K {
		case "V":
			var v c09Vec
			if err := json.Unmarshal(l.V, &v); err != nil {
				hlib.Fatal("line %d: %v", i, err)
			}
			distinct["V"+v.Sig] = true
			c09Vector(j, v, cnt)
			if len(sum.Samples) < 3 && i%97 == 0 {
				sum.Samples = append(sum.Samples, v)
			}
		case "N", "R":
			var v c09Near
			if err := json.Unmarshal(l.V, &v); err != nil {
				hlib.Fatal("line %d: %v", i, err)
			}
			distinct["S"+v.S] = true
			if l.K == "N" {
				cnt.near++
				c09Arbitrary(j, "nearmiss", v.S, &v, cnt)
			} else {
				cnt.random++
				ctx := v.Ctx
				if ctx == "" {
					ctx = "random"
				}
				c09Arbitrary(j, ctx, v.S, nil, cnt)
			}
		case "D":
			var v c09Deep
			if err := json.Unmarshal(l.V, &v); err != nil {
				hlib.Fatal("line %d: %v", i, err)
			}
			cnt.deep++
			distinct[fmt.Sprintf("D%s%s%s%d", v.Open, v.Core, v.Close, v.N)] = true
			c09Arbitrary(j, v.Ctx, v.text(), nil, cnt)
		default:
			hlib.Fatal("line %d: unknown kind %q", i, l.K)
		}
		sum.Evaluations++
	}
	j.finish(j.snapshot())
}

func c09Main(args []string) {
	if len(args) < 1 {
		hlib.Fatal("usage: c09 <vector file> [limit seconds]")
	}
	lines := loadLines(args[0])
	limit := 300 * time.Second
	if len(args) > 1 {
		if n, err := strconv.Atoi(args[1]); err == nil {
			limit = time.Duration(n) * time.Second
		}
	}
	caseOf := func(i int) interface{} {
		var l c09Line
		json.Unmarshal(lines[i], &l)
		var m map[string]interface{}
		json.Unmarshal(l.V, &m)
		if l.K == "D" {
			return m
		}
		if s, ok := m["s"].(string); ok {
			m["s"] = clip(s)
		}
		if _, ok := m["ctx"]; !ok {
			m["ctx"] = map[string]string{"V": "vector", "N": "nearmiss", "R": "random"}[l.K]
		}
		return m
	}
	res := runChildren("c09", args[0], len(lines), limit, nil, caseOf)
	if res.Evaluations != len(lines) {
		fmt.Fprintf(os.Stderr, "c09: %d of %d lines evaluated\n", res.Evaluations, len(lines))
	}
	res.Emit()
}
