package main

// C20: replay of the Convert specification's vectors into
// conversion.ConvertFrom / conversion.DecodeFrom.
//
//	V lines: {S, T, v, want, out}: convert the value v of Go type S into a
//	         fresh value of type T.  want = "ok": no error, the target equals
//	         `out` element-, key- and field-wise, converting the target back
//	         into S gives v again, the source is untouched; DecodeFrom over
//	         the encoded source gives the same target.  want = "error": the
//	         conversion must be refused.
//	C lines: {S, T, U, v, out}: S -> T -> U, compare with out, then U -> S.
//
// Go types and values are built by reflection from the abstract trees.

import (
	"bytes"
	"encoding/json"
	"fmt"
	"math"
	"reflect"
	"strconv"
	"strings"
	"time"

	"github.com/lugu/qiloop/type/conversion"
	"github.com/lugu/qiloop/type/encoding"
	"verif/harness/hlib"
)

type c20Type struct {
	K   string     `json:"k"`
	E   *c20Type   `json:"e,omitempty"`
	Key *c20Type   `json:"key,omitempty"`
	Val *c20Type   `json:"val,omitempty"`
	Fs  []c20Field `json:"fs,omitempty"`
}

type c20Field struct {
	N string  `json:"n"`
	T c20Type `json:"t"`
}

type c20Vec struct {
	S    c20Type     `json:"S"`
	T    c20Type     `json:"T"`
	U    *c20Type    `json:"U,omitempty"`
	V    interface{} `json:"v"`
	Want string      `json:"want,omitempty"`
	Out  interface{} `json:"out"`
}

var c20Scalar = map[string]reflect.Type{
	"int8": reflect.TypeOf(int8(0)), "int16": reflect.TypeOf(int16(0)), "int32": reflect.TypeOf(int32(0)),
	"int64": reflect.TypeOf(int64(0)), "uint8": reflect.TypeOf(uint8(0)), "uint16": reflect.TypeOf(uint16(0)),
	"uint32": reflect.TypeOf(uint32(0)), "uint64": reflect.TypeOf(uint64(0)),
	"float32": reflect.TypeOf(float32(0)), "float64": reflect.TypeOf(float64(0)),
	"string": reflect.TypeOf(""), "bool": reflect.TypeOf(false),
}

// the named numbers of Convert!IntTable
var c20Signed = map[string]int64{
	"zero": 0, "one": 1, "neg1": -1, "max8": math.MaxInt8, "min8": math.MinInt8, "umax8": math.MaxUint8,
	"max16": math.MaxInt16, "min16": math.MinInt16, "umax16": math.MaxUint16, "max32": math.MaxInt32,
	"min32": math.MinInt32, "umax32": math.MaxUint32, "max64": math.MaxInt64, "min64": math.MinInt64,
}
var c20Unsigned = map[string]uint64{
	"zero": 0, "one": 1, "max8": math.MaxInt8, "umax8": math.MaxUint8, "max16": math.MaxInt16,
	"umax16": math.MaxUint16, "max32": math.MaxInt32, "umax32": math.MaxUint32, "max64": math.MaxInt64,
	"umax64": math.MaxUint64,
}
var c20Float = map[string]float64{
	"f0": 0, "f1_5": 1.5, "fneg2_25": -2.25, "fmax32": math.MaxFloat32,
	"fsub32": math.SmallestNonzeroFloat32, "dpi": math.Pi, "dmax64": math.MaxFloat64,
}
var c20String = map[string]string{"s_empty": "", "s_a": "a", "s_utf8": "héllo, wörld €"}

func (t *c20Type) goType() reflect.Type {
	switch t.K {
	case "slice":
		return reflect.SliceOf(t.E.goType())
	case "map":
		return reflect.MapOf(t.Key.goType(), t.Val.goType())
	case "struct":
		fs := make([]reflect.StructField, len(t.Fs))
		for i, f := range t.Fs {
			fs[i] = reflect.StructField{Name: f.N, Type: f.T.goType()}
		}
		return reflect.StructOf(fs)
	}
	rt, ok := c20Scalar[t.K]
	if !ok {
		hlib.Fatal("unknown kind %q", t.K)
	}
	return rt
}

func (t *c20Type) String() string {
	switch t.K {
	case "slice":
		return "[]" + t.E.String()
	case "map":
		return "map[" + t.Key.String() + "]" + t.Val.String()
	case "struct":
		s := []string{}
		for _, f := range t.Fs {
			s = append(s, f.N+" "+f.T.String())
		}
		return "struct{" + strings.Join(s, "; ") + "}"
	}
	return t.K
}

// build makes the Go value of type t described by the abstract value a.
func (t *c20Type) build(a interface{}) reflect.Value {
	rt := t.goType()
	v := reflect.New(rt).Elem()
	switch t.K {
	case "slice":
		l := a.([]interface{})
		v.Set(reflect.MakeSlice(rt, len(l), len(l)))
		for i, x := range l {
			v.Index(i).Set(t.E.build(x))
		}
	case "map":
		l := a.([]interface{})
		v.Set(reflect.MakeMapWithSize(rt, len(l)))
		for _, p := range l {
			kv := p.([]interface{})
			v.SetMapIndex(t.Key.build(kv[0]), t.Val.build(kv[1]))
		}
	case "struct":
		l := a.([]interface{})
		for i, x := range l {
			v.Field(i).Set(t.Fs[i].T.build(x))
		}
	default:
		name := a.(string)
		switch rt.Kind() {
		case reflect.Int8, reflect.Int16, reflect.Int32, reflect.Int64:
			n, ok := c20Signed[name]
			if !ok || v.OverflowInt(n) {
				hlib.Fatal("value %s does not fit %s", name, t.K)
			}
			v.SetInt(n)
		case reflect.Uint8, reflect.Uint16, reflect.Uint32, reflect.Uint64:
			n, ok := c20Unsigned[name]
			if !ok || v.OverflowUint(n) {
				hlib.Fatal("value %s does not fit %s", name, t.K)
			}
			v.SetUint(n)
		case reflect.Float32, reflect.Float64:
			f, ok := c20Float[name]
			if !ok {
				hlib.Fatal("unknown float %s", name)
			}
			v.SetFloat(f)
		case reflect.String:
			s, ok := c20String[name]
			if !ok {
				hlib.Fatal("unknown string %s", name)
			}
			v.SetString(s)
		case reflect.Bool:
			v.SetBool(name == "true")
		}
	}
	return v
}

// diff compares the Go value v with the abstract value a of type t; it
// returns "" or the kind of the innermost container that differs and a text.
func (t *c20Type) diff(a interface{}, v reflect.Value, path string) (kind, text string) {
	switch t.K {
	case "slice":
		l := a.([]interface{})
		if v.Kind() != reflect.Slice || v.Len() != len(l) {
			return "slice", fmt.Sprintf("%s: want %d elements, have %v", path, len(l), v)
		}
		for i, x := range l {
			if k, d := t.E.diff(x, v.Index(i), fmt.Sprintf("%s[%d]", path, i)); d != "" {
				if t.E.isScalar() {
					k = "slice"
				}
				return k, d
			}
		}
	case "map":
		l := a.([]interface{})
		if v.Kind() != reflect.Map || v.Len() != len(l) {
			return "map", fmt.Sprintf("%s: want %d entries, have %v", path, len(l), v)
		}
		for _, p := range l {
			kv := p.([]interface{})
			key := t.Key.build(kv[0])
			el := v.MapIndex(key)
			if !el.IsValid() {
				return "map", fmt.Sprintf("%s: key %v missing in %v", path, key, v)
			}
			if k, d := t.Val.diff(kv[1], el, fmt.Sprintf("%s[%v]", path, key)); d != "" {
				if t.Val.isScalar() {
					k = "map"
				}
				return k, d
			}
		}
	case "struct":
		l := a.([]interface{})
		if v.Kind() != reflect.Struct || v.NumField() != len(l) {
			return "struct", fmt.Sprintf("%s: want %d fields, have %v", path, len(l), v)
		}
		for i, x := range l {
			if k, d := t.Fs[i].T.diff(x, v.Field(i), path+"."+t.Fs[i].N); d != "" {
				if t.Fs[i].T.isScalar() {
					k = "struct"
				}
				return k, d
			}
		}
	default:
		want := t.build(a)
		if v.Kind() != want.Kind() || !reflect.DeepEqual(want.Interface(), v.Interface()) {
			return "scalar", fmt.Sprintf("%s: want %v (%s), have %v", path, want, a, v)
		}
	}
	return "", ""
}

func (t *c20Type) isScalar() bool { return t.K != "slice" && t.K != "map" && t.K != "struct" }

// convert calls the code under test: a fresh zero value of type t receives src.
func c20Convert(t *c20Type, src reflect.Value) (dst reflect.Value, err error, panicked string) {
	dst = reflect.New(t.goType())
	panicked = guarded(func() { err = conversion.ConvertFrom(dst.Interface(), src.Interface()) })
	return dst.Elem(), err, panicked
}

type c20Stats struct {
	ok, refuse, chains, decodeFrom, codecSkip, usedDst, call2, call2Skip int
}

var c20Used = map[string]reflect.Value{}

// c20Size: number of elements / entries / fields reachable, a rough measure of "how much is in there"
func c20Size(v reflect.Value) int {
	switch v.Kind() {
	case reflect.Slice:
		n := v.Len()
		for i := 0; i < v.Len(); i++ {
			n += c20Size(v.Index(i))
		}
		return n
	case reflect.Map:
		n := v.Len()
		it := v.MapRange()
		for it.Next() {
			n += c20Size(it.Value())
		}
		return n
	case reflect.Struct:
		n := 0
		for i := 0; i < v.NumField(); i++ {
			n += c20Size(v.Field(i))
		}
		return n
	}
	return 0
}

func (t *c20Type) hasMap() bool {
	switch t.K {
	case "map":
		return true
	case "slice":
		return t.E.hasMap()
	case "struct":
		for i := range t.Fs {
			if t.Fs[i].T.hasMap() {
				return true
			}
		}
	}
	return false
}

// hasFieldsMissingIn: some struct of t (at any depth) has a field the corresponding struct of s lacks;
// the property says nothing about such fields, so a reused destination may keep what it held there
func (t *c20Type) hasFieldsMissingIn(s *c20Type) bool {
	switch t.K {
	case "slice":
		return s.K == "slice" && t.E.hasFieldsMissingIn(s.E)
	case "map":
		return s.K == "map" && (t.Key.hasFieldsMissingIn(s.Key) || t.Val.hasFieldsMissingIn(s.Val))
	case "struct":
		if s.K != "struct" {
			return false
		}
		for i := range t.Fs {
			var m *c20Type
			for jx := range s.Fs {
				if strings.EqualFold(s.Fs[jx].N, t.Fs[i].N) {
					m = &s.Fs[jx].T
				}
			}
			if m == nil || t.Fs[i].T.hasFieldsMissingIn(m) {
				return true
			}
		}
	}
	return false
}

func c20One(j *journal, v *c20Vec, raw json.RawMessage, st *c20Stats) {
	src := v.S.build(v.V)
	top := v.S.K
	if v.S.isScalar() {
		top = "scalar"
	}
	dst, err, pn := c20Convert(&v.T, src)
	if pn != "" {
		j.fail("convert-panics/"+top, pn, raw)
		return
	}
	if v.Want == "error" {
		st.refuse++
		if err == nil {
			tk := v.T.K
			if v.T.isScalar() {
				tk = "scalar"
			}
			j.fail("clash-accepted/"+top+"-into-"+tk,
				fmt.Sprintf("%s converted into %s without error: %v", v.S.String(), v.T.String(), dst), raw)
		}
		return
	}
	st.ok++
	if err != nil {
		j.fail("compatible-refused/"+top, fmt.Sprintf("%s into %s: %v", v.S.String(), v.T.String(), err), raw)
		return
	}
	if k, d := v.T.diff(v.Out, dst, "dst"); d != "" {
		j.fail("value-differs/"+k, fmt.Sprintf("%s into %s: %s", v.S.String(), v.T.String(), d), raw)
		return
	}
	if k, d := v.S.diff(v.V, src, "src"); d != "" {
		j.fail("source-mutated/"+k, d, raw)
	}
	// the same conversion into a destination that is not fresh: it holds the result of an earlier
	// conversion into the same type (a reused variable).  Every element, key and field must equal
	// the source's all the same - nothing of the earlier content may survive where the source speaks
	key := v.T.String()
	// (maps are left out: like encoding/json, the code merges into a map that already exists - the
	// statement does not say whether a reused map is emptied first, so no verdict is derived)
	if prev, ok := c20Used[key]; ok && !v.T.hasFieldsMissingIn(&v.S) && !v.T.hasMap() {
		var err2 error
		if pn := guarded(func() { err2 = conversion.ConvertFrom(prev.Interface(), src.Interface()) }); pn != "" {
			j.fail("convert-panics/used-destination-"+top, pn, raw)
		} else if err2 != nil {
			j.fail("compatible-refused/used-destination-"+top, fmt.Sprintf("%s into a used %s: %v", v.S.String(), v.T.String(), err2), raw)
		} else if k, d := v.T.diff(v.Out, prev.Elem(), "dst"); d != "" {
			j.fail("value-differs/used-destination-"+k, fmt.Sprintf("%s into a %s that held another value: %s", v.S.String(), v.T.String(), d), raw)
		}
		st.usedDst++
	}
	{
		keep := reflect.New(v.T.goType())
		if guarded(func() { err = conversion.ConvertFrom(keep.Interface(), src.Interface()) }) == "" && err == nil {
			// keep the LARGEST value seen for the type, so that later, smaller sources meet leftovers
			if old, ok := c20Used[key]; !ok || c20Size(keep.Elem()) >= c20Size(old.Elem()) {
				c20Used[key] = keep
			}
		}
	}
	// the way back
	back, err, pn := c20Convert(&v.S, dst)
	if pn != "" {
		j.fail("convert-panics/back-"+top, pn, raw)
	} else if err != nil {
		j.fail("back-refused/"+top, fmt.Sprintf("%s back into %s: %v", v.T.String(), v.S.String(), err), raw)
	} else if k, d := v.S.diff(v.V, back, "back"); d != "" {
		j.fail("roundtrip-differs/"+k, fmt.Sprintf("%s -> %s -> back: %s", v.S.String(), v.T.String(), d), raw)
	}
	// DecodeFrom: the source travels encoded (what Proxy.Call2 does).  The
	// codec itself is C02/C03's business: vectors whose source does not
	// survive a plain encode/decode are skipped and counted.
	var buf bytes.Buffer
	var encErr error
	if pn := guarded(func() { encErr = encoding.NewEncoder(encoding.DefaultCap(), &buf).Encode(src.Interface()) }); pn != "" || encErr != nil {
		st.codecSkip++
		return
	}
	plain := reflect.New(v.S.goType())
	var decErr error
	data := buf.Bytes()
	if pn := guarded(func() {
		decErr = encoding.NewDecoder(encoding.DefaultCap(), bytes.NewReader(data)).Decode(plain.Interface())
	}); pn != "" || decErr != nil {
		st.codecSkip++
		return
	}
	if _, d := v.S.diff(v.V, plain.Elem(), "plain"); d != "" {
		st.codecSkip++
		return
	}
	st.decodeFrom++
	dst2 := reflect.New(v.T.goType())
	if pn := guarded(func() {
		err = conversion.DecodeFrom(encoding.NewDecoder(encoding.DefaultCap(), bytes.NewReader(data)), dst2.Interface(), v.S.goType())
	}); pn != "" {
		j.fail("decodefrom-panics/"+top, pn, raw)
	} else if err != nil {
		j.fail("decodefrom-refused/"+top, err.Error(), raw)
	} else if k, d := v.T.diff(v.Out, dst2.Elem(), "decoded"); d != "" {
		j.fail("decodefrom-differs/"+k, d, raw)
	}
	// the same through bus.Proxy.Call2 (c20call2.go)
	c20Call2(j, v, raw, data, top, st)
}

func c20Chain(j *journal, v *c20Vec, raw json.RawMessage, st *c20Stats) {
	st.chains++
	src := v.S.build(v.V)
	mid, err, pn := c20Convert(&v.T, src)
	if pn != "" || err != nil {
		j.fail("chain-step1-fails", fmt.Sprint(pn, err), raw)
		return
	}
	end, err, pn := c20Convert(v.U, mid)
	if pn != "" || err != nil {
		j.fail("chain-step2-fails", fmt.Sprint(pn, err), raw)
		return
	}
	if k, d := v.U.diff(v.Out, end, "end"); d != "" {
		j.fail("chain-value-differs/"+k, d, raw)
		return
	}
	back, err, pn := c20Convert(&v.S, end)
	if pn != "" || err != nil {
		j.fail("chain-back-fails", fmt.Sprint(pn, err), raw)
		return
	}
	if k, d := v.S.diff(v.V, back, "back"); d != "" {
		j.fail("chain-roundtrip-differs/"+k, d, raw)
	}
}

func c20Child(args []string) {
	defer harnessPanic()
	if len(args) < 3 {
		hlib.Fatal("usage: c20-child <file> <start> <journal>")
	}
	start, _ := strconv.Atoi(args[1])
	j := openJournal(args[2])
	lines := loadLines(args[0])
	j.watchdog(60 * time.Second)
	st := &c20Stats{}
	sum := childSummary{Extra: map[string]interface{}{}}
	pairs := map[string]bool{}
	j.snapshot = func() childSummary {
		sum.Distinct = len(pairs)
		for k, n := range map[string]int{"compatible_vectors": st.ok, "clash_vectors": st.refuse, "chains": st.chains,
			"decodefrom_vectors": st.decodeFrom, "decodefrom_skipped_codec_precondition": st.codecSkip,
			"call2_vectors": st.call2, "call2_skipped_codec_precondition": st.call2Skip} {
			sum.Extra[k] = float64(n)
		}
		return sum
	}
	for i := start; i < len(lines); i++ {
		j.begin(i)
		var l c09Line
		if err := json.Unmarshal(lines[i], &l); err != nil {
			hlib.Fatal("line %d: %v", i, err)
		}
		var v c20Vec
		if err := json.Unmarshal(l.V, &v); err != nil {
			hlib.Fatal("line %d: %v", i, err)
		}
		pairs[v.S.String()+">"+v.T.String()] = true
		switch l.K {
		case "V":
			c20One(j, &v, l.V, st)
		case "C":
			c20Chain(j, &v, l.V, st)
		default:
			hlib.Fatal("line %d: unknown kind %q", i, l.K)
		}
		if len(sum.Samples) < 3 && i%1511 == 7 {
			sum.Samples = append(sum.Samples, json.RawMessage(l.V))
		}
		sum.Evaluations++
	}
	j.finish(j.snapshot())
}

func c20Main(args []string) {
	if len(args) < 1 {
		hlib.Fatal("usage: c20 <vector file>")
	}
	lines := loadLines(args[0])
	caseOf := func(i int) interface{} {
		var l c09Line
		json.Unmarshal(lines[i], &l)
		return json.RawMessage(l.V)
	}
	res := runChildren("c20", args[0], len(lines), 600*time.Second, nil, caseOf)
	res.Emit()
}
