// Package drv is the scenario runner linked into the scratch programs that
// C05 builds from generated code.  It knows nothing about a particular
// interface: the generated packages register constructors and the names of
// the generated methods (in declaration order); the runner drives the
// generated proxy and the generated stub by reflection, following the
// operations exported by the IdlRpc specification, and compares every
// observation with the expected one.
package drv

import (
	"bytes"
	"encoding/json"
	"errors"
	"fmt"
	"math"
	"os"
	"reflect"
	"sort"
	"strings"
	"sync"
	"sync/atomic"
	"syscall"
	"time"

	"github.com/lugu/qiloop/bus"
	"github.com/lugu/qiloop/bus/net"
	"github.com/lugu/qiloop/type/object"
	"github.com/lugu/qiloop/type/value"
)

// Itf is what a generated package registers for one interface.
type Itf struct {
	Name          string // interface = service name
	NewImpl       func(h *Handler) interface{}
	Object        func(impl interface{}) bus.Actor
	Proxy         func(s bus.Session) (interface{}, error)
	ImplMethods   []string // implementor: one method per IDL method
	ImplChanges   []string // implementor: On<Prop>Change
	HelperSignals []string // signal helper: Signal<Sig>
	HelperUpdates []string // signal helper: Update<Prop>
	ProxyMethods  []string
	ProxySubs     []string    // Subscribe<Sig>
	ProxyProps    [][3]string // Get<Prop>, Set<Prop>, Subscribe<Prop>
	// the interfaces of the package whose objects are exchanged (IdlRpc: Probe,
	// Relay, Itf): Create<Itf> with an implementor that forwards to o, Make<Itf>
	Create map[string]func(sess bus.Session, svc bus.Service, o *Obj) (interface{}, error)
	Make   map[string]func(sess bus.Session, p bus.Proxy) interface{}
}

var registry = map[string]*Itf{}

// Register is called from the init functions of the generated packages.
func Register(key string, itf *Itf) { registry[key] = itf }

// Act, Op, Scenario mirror the export of GenIdlRpc.
type Act struct {
	Kind string `json:"kind"`
	ID   int    `json:"id"`
	Name string `json:"name"`
	Cls  string `json:"cls"`
	Np   int    `json:"np"`
	Void bool   `json:"void"`
	// Go is the Go name the generators give the action (IdlRpc!GoName; first
	// letter still lower case), Grp its overload group, Psig its parameter
	// signature
	Go   string        `json:"go,omitempty"`
	Grp  string        `json:"grp,omitempty"`
	Psig string        `json:"psig,omitempty"`
	Init []interface{} `json:"init"`
	// the references inside the initial value of a property (hs: the
	// implementation's handles)
	InitObjs []Leaf `json:"initobjs,omitempty"`
}

// Leaf is a reference inside a value (IdlRpc!Leaf): the sender's handle,
// the receiver's new handle (0: nobody receives), the handle of a second
// receiver (the subscriber of a property that is set), the object denoted.
type Leaf struct {
	Hs  int    `json:"hs"`
	Hg  int    `json:"hg"`
	Hg2 int    `json:"hg2"`
	Obj int    `json:"obj"`
	Itf string `json:"itf"`
}

type Op struct {
	Op      string        `json:"op"`
	ID      int           `json:"id"`
	Deliver bool          `json:"deliver"`
	Args    []interface{} `json:"args"`
	Ret     []interface{} `json:"ret"`
	// Expect overrides the expected result of a call (never set by the
	// specification's export: used by the check's self-test to show that
	// the comparison can fail).
	Expect []interface{} `json:"expect,omitempty"`
	// references: an object slot of Args / Ret is {"slot": n}: the n-th entry
	// of Objs resp. Robjs; use / via: Side, H, G and the object Exec that
	// must execute; Dev names a deviation of the pinned code the operation
	// runs into (the class of what is observed then)
	J     int    `json:"j,omitempty"`
	Side  string `json:"side,omitempty"`
	H     int    `json:"h,omitempty"`
	G     int    `json:"g,omitempty"`
	Objs  []Leaf `json:"objs,omitempty"`
	Robjs []Leaf `json:"robjs,omitempty"`
	Exec  int    `json:"exec,omitempty"`
	Dev   string `json:"dev,omitempty"`
	// Ran: the uid of the method the object must execute for a call (the
	// overload the proxy method denotes), RanGo its Go name
	Ran   int    `json:"ran,omitempty"`
	RanGo string `json:"rango,omitempty"`
}

type Scenario struct {
	Cls  string `json:"cls"`
	Key  []int  `json:"key"`
	Acts []Act  `json:"acts"`
	Ops  []Op   `json:"ops"`
	Pkg  string `json:"pkg"` // registry key
	N    int    `json:"n"`   // scenario number
	// the interfaces of the package whose objects are exchanged
	Itfs   []string `json:"itfs,omitempty"`
	Layout string   `json:"layout,omitempty"`
}

func (sc *Scenario) has(itf string) bool {
	for _, n := range sc.Itfs {
		if n == itf {
			return true
		}
	}
	return false
}

// Failure is reported per operation.
type Failure struct {
	Class  string      `json:"class"`
	Detail string      `json:"detail"`
	Case   interface{} `json:"case"`
}

// ---------------------------------------------------------------------------
// abstract values <-> Go values
// ---------------------------------------------------------------------------

var signed = map[string]int64{
	"zero": 0, "one": 1, "neg1": -1, "max8": math.MaxInt8, "min8": math.MinInt8, "umax8": math.MaxUint8,
	"max16": math.MaxInt16, "min16": math.MinInt16, "umax16": math.MaxUint16, "max32": math.MaxInt32,
	"min32": math.MinInt32, "umax32": math.MaxUint32, "max64": math.MaxInt64, "min64": math.MinInt64,
}
var unsigned = map[string]uint64{
	"zero": 0, "one": 1, "max8": math.MaxInt8, "umax8": math.MaxUint8, "max16": math.MaxInt16,
	"umax16": math.MaxUint16, "max32": math.MaxInt32, "umax32": math.MaxUint32, "max64": math.MaxInt64,
	"umax64": math.MaxUint64,
}
var floats = map[string]float64{
	"f0": 0, "f1_5": 1.5, "fneg2_25": -2.25, "fmax32": math.MaxFloat32,
	"fsub32": math.SmallestNonzeroFloat32, "dpi": math.Pi, "dmax64": math.MaxFloat64,
}
var strs = map[string]string{"s_empty": "", "s_a": "a", "s_utf8": "héllo, wörld €"}

var valueType = reflect.TypeOf((*value.Value)(nil)).Elem()

// encodeTree is the harness's own statement of the wire layout: the bytes
// of the abstract value a of the type tree t (IdlRpc / SignatureOps type
// trees: sc, list, map, tuple, struct), written without any code of the
// repository.  It gives the content of dynamic values that hold composites.
func encodeTree(t map[string]interface{}, a interface{}, w *bytes.Buffer) (err error) {
	defer func() {
		if r := recover(); r != nil {
			err = fmt.Errorf("encode %v by %v: %v", a, t["k"], r)
		}
	}()
	le := func(n uint64, size int) {
		for i := 0; i < size; i++ {
			w.WriteByte(byte(n >> (8 * uint(i))))
		}
	}
	sub := func(key string) map[string]interface{} { return t[key].(map[string]interface{}) }
	switch t["k"].(string) {
	case "sc":
		c := t["c"].(string)
		switch c {
		case "c", "w", "i", "l":
			n, ok := signed[a.(string)]
			if !ok {
				return fmt.Errorf("unknown number %v", a)
			}
			le(uint64(n), map[string]int{"c": 1, "w": 2, "i": 4, "l": 8}[c])
		case "C", "W", "I", "L":
			n, ok := unsigned[a.(string)]
			if !ok {
				return fmt.Errorf("unknown number %v", a)
			}
			le(n, map[string]int{"C": 1, "W": 2, "I": 4, "L": 8}[c])
		case "f":
			f, ok := floats[a.(string)]
			if !ok {
				return fmt.Errorf("unknown float %v", a)
			}
			le(uint64(math.Float32bits(float32(f))), 4)
		case "d":
			f, ok := floats[a.(string)]
			if !ok {
				return fmt.Errorf("unknown float %v", a)
			}
			le(math.Float64bits(f), 8)
		case "b":
			if a.(string) == "true" {
				w.WriteByte(1)
			} else {
				w.WriteByte(0)
			}
		case "s":
			str, ok := strs[a.(string)]
			if !ok {
				return fmt.Errorf("unknown string %v", a)
			}
			le(uint64(len(str)), 4)
			w.WriteString(str)
		default:
			return fmt.Errorf("scalar %q inside a dynamic value", c)
		}
	case "list":
		l := a.([]interface{})
		le(uint64(len(l)), 4)
		for _, x := range l {
			if err := encodeTree(sub("e"), x, w); err != nil {
				return err
			}
		}
	case "map":
		l := a.([]interface{})
		le(uint64(len(l)), 4)
		for _, p := range l {
			kv := p.([]interface{})
			if err := encodeTree(sub("key"), kv[0], w); err != nil {
				return err
			}
			if err := encodeTree(sub("val"), kv[1], w); err != nil {
				return err
			}
		}
	case "tuple", "struct":
		ms := t["ms"].([]interface{})
		l := a.([]interface{})
		if len(ms) != len(l) {
			return fmt.Errorf("%d members, %d values", len(ms), len(l))
		}
		for i, m := range ms {
			if err := encodeTree(m.(map[string]interface{}), l[i], w); err != nil {
				return err
			}
		}
	default:
		return fmt.Errorf("type %v inside a dynamic value", t["k"])
	}
	return nil
}

// dynamicOf makes the dynamic value that holds the abstract value v of the
// type tree t: the constructors of the value package for the basic types,
// value.Opaque(signature, bytes) for everything else.
func dynamicOf(sig string, t map[string]interface{}, v interface{}) (value.Value, error) {
	if t["k"] == "sc" {
		name, _ := v.(string)
		switch t["c"] {
		case "c":
			return value.Int8(int8(signed[name])), nil
		case "C":
			return value.Uint8(uint8(unsigned[name])), nil
		case "w":
			return value.Int16(int16(signed[name])), nil
		case "W":
			return value.Uint16(uint16(unsigned[name])), nil
		case "i":
			return value.Int(int32(signed[name])), nil
		case "I":
			return value.Uint(uint32(unsigned[name])), nil
		case "l":
			return value.Long(signed[name]), nil
		case "L":
			return value.Ulong(unsigned[name]), nil
		case "f":
			return value.Float(float32(floats[name])), nil
		case "b":
			return value.Bool(name == "true"), nil
		case "s":
			return value.String(strs[name]), nil
		}
	}
	var buf bytes.Buffer
	if err := encodeTree(t, v, &buf); err != nil {
		return nil, err
	}
	return value.Opaque(sig, buf.Bytes()), nil
}

func dynamic(a interface{}) (value.Value, error) {
	m, ok := a.(map[string]interface{})
	if !ok {
		return nil, fmt.Errorf("dynamic value expected, have %v", a)
	}
	sig, _ := m["sig"].(string)
	if t, ok := m["t"].(map[string]interface{}); ok { // a dynamic value that holds a value of a known type
		return dynamicOf(sig, t, m["v"])
	}
	name, _ := m["v"].(string)
	switch sig {
	case "i":
		return value.Int(int32(signed[name])), nil
	case "s":
		return value.String(strs[name]), nil
	case "b":
		return value.Bool(name == "true"), nil
	}
	return nil, fmt.Errorf("unsupported dynamic value %v", a)
}

// Build makes a Go value of type t from the abstract value a.
func Build(t reflect.Type, a interface{}) (v reflect.Value, err error) { return buildX(nil, t, a) }

// slotOf tells whether the abstract value is an object slot.
func slotOf(a interface{}) (int, bool) {
	m, ok := a.(map[string]interface{})
	if !ok {
		return 0, false
	}
	f, ok := m["slot"].(float64)
	return int(f), ok
}

var objRefType = reflect.TypeOf(object.ObjectReference{})

// buildX is Build for a value that may contain references: an object slot
// is filled with the reference the sender holds (c.from) under the handle of
// the slot's leaf.
func buildX(c *xctx, t reflect.Type, a interface{}) (v reflect.Value, err error) {
	defer func() {
		if r := recover(); r != nil {
			err = fmt.Errorf("build %v from %v: %v", t, a, r)
		}
	}()
	v = reflect.New(t).Elem()
	if n, isSlot := slotOf(a); isSlot {
		if c == nil || n < 1 || n > len(c.leaves) {
			return v, fmt.Errorf("object slot %d without a reference", n)
		}
		leaf := c.leaves[n-1]
		c.w.mu.Lock()
		pv, held := c.from[leaf.Hs]
		c.w.mu.Unlock()
		if !held {
			return v, errNotHeld
		}
		if t == objRefType { // the generic reference
			op, ok := pv.Interface().(bus.ObjectProxy)
			if !ok {
				return v, fmt.Errorf("handle %d is not an object proxy: %v", leaf.Hs, pv.Type())
			}
			v.Set(reflect.ValueOf(bus.ObjectReference(op.Proxy())))
			return v, nil
		}
		if !pv.Type().AssignableTo(t) {
			return v, fmt.Errorf("generated API wants a %v for an object of %s, the reference held is a %v", t, leaf.Itf, pv.Type())
		}
		v.Set(pv)
		return v, nil
	}
	if t == valueType {
		d, err := dynamic(a)
		if err != nil {
			return v, err
		}
		v.Set(reflect.ValueOf(d))
		return v, nil
	}
	switch t.Kind() {
	case reflect.Int8, reflect.Int16, reflect.Int32, reflect.Int64:
		n, ok := signed[a.(string)]
		if !ok || v.OverflowInt(n) {
			return v, fmt.Errorf("%v does not fit %v", a, t)
		}
		v.SetInt(n)
	case reflect.Uint8, reflect.Uint16, reflect.Uint32, reflect.Uint64:
		n, ok := unsigned[a.(string)]
		if !ok || v.OverflowUint(n) {
			return v, fmt.Errorf("%v does not fit %v", a, t)
		}
		v.SetUint(n)
	case reflect.Float32, reflect.Float64:
		f, ok := floats[a.(string)]
		if !ok {
			return v, fmt.Errorf("unknown float %v", a)
		}
		v.SetFloat(f)
	case reflect.String:
		s, ok := strs[a.(string)]
		if !ok {
			return v, fmt.Errorf("unknown string %v", a)
		}
		v.SetString(s)
	case reflect.Bool:
		v.SetBool(a.(string) == "true")
	case reflect.Slice:
		l := a.([]interface{})
		v.Set(reflect.MakeSlice(t, len(l), len(l)))
		for i, x := range l {
			e, err := buildX(c, t.Elem(), x)
			if err != nil {
				return v, err
			}
			v.Index(i).Set(e)
		}
	case reflect.Map:
		l := a.([]interface{})
		v.Set(reflect.MakeMapWithSize(t, len(l)))
		for _, p := range l {
			kv := p.([]interface{})
			k, err := buildX(c, t.Key(), kv[0])
			if err != nil {
				return v, err
			}
			e, err := buildX(c, t.Elem(), kv[1])
			if err != nil {
				return v, err
			}
			v.SetMapIndex(k, e)
		}
	case reflect.Struct:
		l := a.([]interface{})
		if len(l) != t.NumField() {
			return v, fmt.Errorf("%v has %d fields, value has %d", t, t.NumField(), len(l))
		}
		for i, x := range l {
			e, err := buildX(c, t.Field(i).Type, x)
			if err != nil {
				return v, err
			}
			v.Field(i).Set(e)
		}
	default:
		return v, fmt.Errorf("cannot build a %v", t)
	}
	return v, nil
}

// Diff compares the Go value v with the abstract value a; "" when equal.
func Diff(v reflect.Value, a interface{}, path string) (d string) { return diffX(nil, v, a, path) }

// diffX is Diff for a value that may contain references: what arrived in an
// object slot is handed to the exchange context (kept under the receiver's
// handle; checked to denote the object that was sent).
func diffX(c *xctx, v reflect.Value, a interface{}, path string) (d string) {
	defer func() {
		if r := recover(); r != nil {
			d = fmt.Sprintf("%s: %v", path, r)
		}
	}()
	if n, isSlot := slotOf(a); isSlot {
		if c == nil || n < 1 || n > len(c.leaves) {
			return fmt.Sprintf("%s: object slot %d without a reference", path, n)
		}
		c.received(v, c.leaves[n-1], path)
		return ""
	}
	t := v.Type()
	if m, isDyn := a.(map[string]interface{}); t == valueType || (isDyn && m["sig"] != nil) {
		if !t.Implements(valueType) {
			return fmt.Sprintf("%s: want a dynamic value, have %v", path, t)
		}
		want, err := dynamic(a)
		if err != nil {
			return path + ": " + err.Error()
		}
		if v.Kind() == reflect.Interface && v.IsNil() {
			return path + ": nil value"
		}
		have := v.Interface().(value.Value)
		if have.Signature() != want.Signature() || !bytes.Equal(value.Bytes(have), value.Bytes(want)) {
			return fmt.Sprintf("%s: want dynamic %v, have %v %v", path, a, have.Signature(), have)
		}
		return ""
	}
	switch t.Kind() {
	case reflect.Slice:
		l := a.([]interface{})
		if v.Len() != len(l) {
			return fmt.Sprintf("%s: want %d elements, have %d", path, len(l), v.Len())
		}
		if c != nil && c.bind { // keep going: every reference that arrived is kept
			for i, x := range l {
				diffX(c, v.Index(i), x, fmt.Sprintf("%s[%d]", path, i))
			}
			return ""
		}
		for i, x := range l {
			if d := diffX(c, v.Index(i), x, fmt.Sprintf("%s[%d]", path, i)); d != "" {
				return d
			}
		}
	case reflect.Map:
		l := a.([]interface{})
		if v.Len() != len(l) {
			return fmt.Sprintf("%s: want %d entries, have %d", path, len(l), v.Len())
		}
		for _, p := range l {
			kv := p.([]interface{})
			k, err := Build(t.Key(), kv[0])
			if err != nil {
				return path + ": " + err.Error()
			}
			e := v.MapIndex(k)
			if !e.IsValid() {
				return fmt.Sprintf("%s: key %v missing", path, k)
			}
			if d := diffX(c, e, kv[1], fmt.Sprintf("%s[%v]", path, k)); d != "" {
				return d
			}
		}
	case reflect.Struct:
		l := a.([]interface{})
		if len(l) != t.NumField() {
			return fmt.Sprintf("%s: want %d fields, have %v", path, len(l), t)
		}
		for i, x := range l {
			if d := diffX(c, v.Field(i), x, path+"."+t.Field(i).Name); d != "" {
				return d
			}
		}
	default:
		if c != nil && c.bind {
			return ""
		}
		want, err := Build(t, a)
		if err != nil {
			return path + ": " + err.Error()
		}
		if !reflect.DeepEqual(want.Interface(), v.Interface()) {
			return fmt.Sprintf("%s: want %v (%v), have %v", path, want, a, v)
		}
	}
	return ""
}

// ---------------------------------------------------------------------------
// objects and references
// ---------------------------------------------------------------------------

// errNotHeld: an operation needs a reference that an earlier operation of
// the behaviour failed to deliver (that failure was reported there).
var errNotHeld = errors.New("reference not held")

// the objects of a behaviour (IdlRpc!ObjItf, ObjHost): 1 the service's
// object, 2..5 created by the implementation in its service, 6 and 7 by the
// client on the proxy's service reference
var objItf = [...]string{"", "Itf", "Itf", "Probe", "Probe", "Relay", "Probe", "Probe"}

const rootObj = 1

func slotItf(n string) string {
	if n == "obj" {
		return "Probe" // generic references carry Probes
	}
	return n
}

// Obj is the implementation of one object: the generated implementors of the
// exchanged interfaces forward ident and pass to it.
type Obj struct {
	N     int
	Itf   string
	count int32
	w     *world
	mu    sync.Mutex
	seen  []interface{} // the references pass observed
}

// Ident tells which object executes.
func (o *Obj) Ident() (int32, error) {
	atomic.AddInt32(&o.count, 1)
	return int32(o.N), nil
}

// Pass returns the reference it is given.
func (o *Obj) Pass(p interface{}) (interface{}, error) {
	atomic.AddInt32(&o.count, 1)
	o.mu.Lock()
	o.seen = append(o.seen, p)
	o.mu.Unlock()
	return p, nil
}

// Sub is the handler of an object of the assembled interface other than the
// service's own.
func (o *Obj) Sub() *Handler {
	return &Handler{itf: o.w.itf, sc: o.w.sc, w: o.w, obj: o, secondary: true}
}

// world is the state of one behaviour: the objects and the references both
// sides hold (IdlRpc: cheld, sheld).
type world struct {
	itf    *Itf
	sc     *Scenario
	sess   bus.Session
	mu     sync.Mutex
	objs   map[int]*Obj
	client map[int]reflect.Value
	impl   map[int]reflect.Value
	hung   bool
	failed int
	op     interface{}
	report func(class, detail string, op interface{})
}

func (w *world) fail(class, detail string) {
	w.failed++
	w.report(class, detail, w.op)
}

func (w *world) newObj(n int) *Obj {
	o := &Obj{N: n, Itf: objItf[n], w: w}
	w.mu.Lock()
	w.objs[n] = o
	w.mu.Unlock()
	return o
}

func (w *world) hold(side map[int]reflect.Value, h int, v reflect.Value) {
	w.mu.Lock()
	side[h] = v
	w.mu.Unlock()
}

func (w *world) held(side map[int]reflect.Value, h int) (reflect.Value, bool) {
	w.mu.Lock()
	defer w.mu.Unlock()
	v, ok := side[h]
	return v, ok
}

func (w *world) counts() map[int]int32 {
	w.mu.Lock()
	defer w.mu.Unlock()
	c := map[int]int32{}
	for n, o := range w.objs {
		c[n] = atomic.LoadInt32(&o.count)
	}
	return c
}

// callTimeout bounds every call through generated code (in-process: a call
// takes well under a millisecond); once a call of a kind has hung in a
// package, later ones wait shortly.
const callTimeout = 10 * time.Second

var hangs = map[string]bool{}

func (w *world) wait(what string) time.Duration {
	if hangs[w.sc.Pkg+what] {
		return 500 * time.Millisecond
	}
	return callTimeout
}

func (w *world) hangAt(what string) {
	hangs[w.sc.Pkg+what] = true
	w.hung = true
}

// timed runs f; false when it does not return within d (f keeps running).
func timed(d time.Duration, f func()) bool {
	done := make(chan struct{})
	go func() {
		defer close(done)
		f()
	}()
	t := time.NewTimer(d)
	defer t.Stop()
	select {
	case <-done:
		return true
	case <-t.C:
		return false
	}
}

// proxyOf turns what arrived in an object slot into a generated proxy.
func (w *world) proxyOf(v reflect.Value, leaf Leaf) (reflect.Value, string) {
	for v.Kind() == reflect.Interface {
		if v.IsNil() {
			return v, "nil reference"
		}
		v = v.Elem()
	}
	if v.Type() == objRefType { // the generic reference
		mk := w.itf.Make[slotItf(leaf.Itf)]
		if mk == nil {
			return v, "package has no Make" + slotItf(leaf.Itf)
		}
		p, err := w.sess.Object(v.Interface().(object.ObjectReference))
		if err != nil {
			return v, "session.Object: " + err.Error()
		}
		return reflect.ValueOf(mk(w.sess, p)), ""
	}
	if v.Kind() == reflect.Ptr && v.IsNil() {
		return v, "nil reference"
	}
	return v, ""
}

// verify calls ident through a reference: the call must be executed once, by
// the object the reference has to denote, and by no other.
func (w *world) verify(p reflect.Value, obj int, path, cls string) {
	if w.hung {
		return
	}
	before := w.counts()
	var out []reflect.Value
	var err error
	if !timed(w.wait("ident"), func() { out, err = callMethod(nil, p, "Ident", nil) }) {
		w.hangAt("ident")
		w.fail("reference-call-hangs/"+cls, path+": ident through the reference does not return")
		return
	}
	if err == nil {
		err = lastError(out)
	}
	if err != nil {
		w.fail("reference-unusable/"+cls, fmt.Sprintf("%s: ident through the reference (object %d expected): %v", path, obj, err))
		return
	}
	if got := out[0].Int(); got != int64(obj) {
		w.fail("reference-denotes-other-object/"+cls, fmt.Sprintf("%s: the reference reaches object %d, object %d was sent", path, got, obj))
	}
	after := w.counts()
	for n := range after {
		d := after[n] - before[n]
		switch {
		case n == obj && d != 1:
			w.fail("reference-call-not-executed-once/"+cls, fmt.Sprintf("%s: object %d executed the call %d times", path, n, d))
		case n != obj && d != 0:
			w.fail("reference-call-reaches-other-object/"+cls, fmt.Sprintf("%s: object %d executed a call meant for object %d", path, n, obj))
		}
	}
}

// xctx is the context of one transfer of a value that contains references.
type xctx struct {
	w      *world
	from   map[int]reflect.Value // the sender's references (Build)
	to     map[int]reflect.Value // the receiver's (Diff)
	leaves []Leaf
	second bool   // the receiver is the second one: its handle is hg2
	bind   bool   // keep what arrives, check nothing (inside the execution of the object itself)
	cls    string // class of the action
}

func (c *xctx) received(v reflect.Value, leaf Leaf, path string) {
	h := leaf.Hg
	if c.second {
		h = leaf.Hg2
	}
	pv, problem := c.w.proxyOf(v, leaf)
	if problem != "" {
		if !c.bind {
			c.w.fail("reference-unusable/"+c.cls, path+": "+problem)
		}
		return
	}
	if h != 0 {
		c.w.hold(c.to, h, pv)
	}
	if !c.bind {
		c.w.verify(pv, leaf.Obj, path, c.cls)
	}
}

// ---------------------------------------------------------------------------
// the implementor side
// ---------------------------------------------------------------------------

// Handler is shared by the generated implementors: they forward every call.
type Handler struct {
	itf       *Itf
	sc        *Scenario
	w         *world
	obj       *Obj
	secondary bool // an object of the interface other than the service's: creates no objects
	helper    reflect.Value
	mu        sync.Mutex
	calls     []recorded
	cur       *Op         // the operation being replayed
	ret       interface{} // abstract value the next method call returns
	hasRet    bool
	errs      []string
}

type recorded struct {
	kind string // "call" | "change"
	idx  int
	args []interface{}
}

// Activate stores the signal helper, creates the objects the implementation
// hosts and initialises the properties.
func (h *Handler) Activate(activation bus.Activation, helper interface{}) error {
	h.helper = reflect.ValueOf(helper)
	if !h.secondary {
		for _, n := range []int{3, 4, 5, 2} {
			if !h.sc.has(objItf[n]) {
				continue
			}
			mk := h.itf.Create[objItf[n]]
			if mk == nil {
				h.errs = append(h.errs, "package has no Create"+objItf[n])
				continue
			}
			p, err := mk(activation.Session, activation.Service, h.w.newObj(n))
			if err != nil {
				h.errs = append(h.errs, fmt.Sprintf("Create%s: %v", objItf[n], err))
				continue
			}
			h.w.hold(h.w.impl, n, reflect.ValueOf(p))
		}
	}
	props := h.sc.sorted("property")
	for pos, name := range h.itf.HelperUpdates {
		if pos >= len(props) {
			break
		}
		c := &xctx{w: h.w, from: h.w.impl, leaves: props[pos].InitObjs}
		if err := h.helperCall(c, name, props[pos].Init); err != nil && !(h.secondary && errors.Is(err, errNotHeld)) {
			h.errs = append(h.errs, fmt.Sprintf("initialise %s: %v", name, err))
		}
	}
	return nil
}

func (h *Handler) helperCall(c *xctx, name string, args []interface{}) (err error) {
	defer func() {
		if r := recover(); r != nil {
			err = fmt.Errorf("panic: %v", r)
		}
	}()
	m := h.helper.MethodByName(name)
	if !m.IsValid() {
		return fmt.Errorf("helper has no method %s", name)
	}
	if m.Type().NumIn() != len(args) {
		return fmt.Errorf("helper %s takes %d arguments, scenario has %d", name, m.Type().NumIn(), len(args))
	}
	in := make([]reflect.Value, len(args))
	for i, a := range args {
		in[i], err = buildX(c, m.Type().In(i), a)
		if err != nil {
			return err
		}
	}
	out := m.Call(in)
	if e, ok := out[len(out)-1].Interface().(error); ok && e != nil {
		return e
	}
	return nil
}

// Ident is invoked by the generated implementor of an interface that refers
// to itself.
func (h *Handler) Ident() (int32, error) { return h.obj.Ident() }

// bind keeps the references that arrive with the arguments under the
// implementation's handles: the result may pass them on.
func (h *Handler) bind(args []interface{}) {
	if h.cur == nil || len(h.cur.Objs) == 0 {
		return
	}
	c := &xctx{w: h.w, to: h.w.impl, leaves: h.cur.Objs, bind: true}
	for i, a := range args {
		if i < len(h.cur.Args) {
			diffX(c, reflect.ValueOf(a), h.cur.Args[i], "")
		}
	}
}

// Call is invoked by the generated implementor for the idx-th method.
func (h *Handler) Call(idx int, args []interface{}, ret interface{}) error {
	h.mu.Lock()
	defer h.mu.Unlock()
	h.calls = append(h.calls, recorded{"call", idx, args})
	h.bind(args)
	if ret != nil && h.hasRet {
		c := &xctx{w: h.w, from: h.w.impl}
		if h.cur != nil {
			c.leaves = h.cur.Robjs
		}
		v, err := buildX(c, reflect.TypeOf(ret).Elem(), h.ret)
		if errors.Is(err, errNotHeld) {
			return err
		}
		if err != nil {
			h.errs = append(h.errs, err.Error())
			return nil
		}
		reflect.ValueOf(ret).Elem().Set(v)
	}
	return nil
}

// Change is invoked by the generated implementor for the idx-th property.
func (h *Handler) Change(idx int, args []interface{}) error {
	h.mu.Lock()
	defer h.mu.Unlock()
	h.calls = append(h.calls, recorded{"change", idx, args})
	h.bind(args)
	return nil
}

// describe names what the implementation observed.
func describe(itf *Itf, seen []recorded) string {
	if len(seen) == 0 {
		return "nothing"
	}
	var l []string
	for _, r := range seen {
		name := "?"
		if r.kind == "call" && r.idx < len(itf.ImplMethods) {
			name = itf.ImplMethods[r.idx]
		} else if r.kind == "change" && r.idx < len(itf.ImplChanges) {
			name = itf.ImplChanges[r.idx]
		}
		l = append(l, fmt.Sprintf("%s %d %s%v", r.kind, r.idx, name, r.args))
	}
	return strings.Join(l, "; ")
}

func (h *Handler) take() []recorded {
	h.mu.Lock()
	defer h.mu.Unlock()
	c := h.calls
	h.calls = nil
	return c
}

func (h *Handler) expect(op *Op) {
	h.mu.Lock()
	defer h.mu.Unlock()
	h.cur = op
	h.hasRet = op != nil && op.Op == "call" && len(op.Ret) == 1
	if h.hasRet {
		h.ret = op.Ret[0]
	}
}

// ---------------------------------------------------------------------------
// the runner
// ---------------------------------------------------------------------------

func (sc *Scenario) sorted(kind string) []Act {
	var l []Act
	for _, a := range sc.Acts {
		if a.Kind == kind {
			l = append(l, a)
		}
	}
	sort.Slice(l, func(i, j int) bool { return l[i].ID < l[j].ID })
	return l
}

// position of action id among the actions of its kind, in uid order (the
// order in which the generators declare them)
func (sc *Scenario) locate(id int) (Act, int) {
	for _, a := range sc.Acts {
		if a.ID == id {
			for pos, b := range sc.sorted(a.Kind) {
				if b.ID == id {
					return a, pos
				}
			}
		}
	}
	return Act{}, -1
}

type blockingListener struct{ ch chan struct{} }

func (l *blockingListener) Accept() (net.Stream, error) {
	<-l.ch
	return nil, fmt.Errorf("listener closed")
}
func (l *blockingListener) Close() error {
	select {
	case <-l.ch:
	default:
		close(l.ch)
	}
	return nil
}

// sharedSession is the client's session: like bus/session it reaches a
// service through one connection, whatever the number of proxies (the
// server's local session opens a connection per proxy; an object hosted by
// the client is reachable through the connection it was created on only).
type sharedSession struct {
	ns     bus.Namespace
	client bus.Client
}

func (s *sharedSession) Proxy(name string, objectID uint32) (bus.Proxy, error) {
	serviceID, err := s.ns.Resolve(name)
	if err != nil {
		return nil, err
	}
	meta, err := bus.GetMetaObject(s.client, serviceID, objectID)
	if err != nil {
		return nil, fmt.Errorf("metaObject (service %d, object %d): %s", serviceID, objectID, err)
	}
	return bus.NewProxy(s.client, meta, serviceID, objectID), nil
}

func (s *sharedSession) Object(ref object.ObjectReference) (bus.Proxy, error) {
	return bus.NewProxy(s.client, ref.MetaObject, ref.ServiceID, ref.ObjectID), nil
}

func (s *sharedSession) Terminate() error { return nil }

type subscription struct {
	cancel reflect.Value
	ch     reflect.Value
}

const eventTimeout = 10 * time.Second

// once an action of a package has lost an event, later waits for it are short
var lossy = map[string]bool{}

// receive takes one value from a subscription channel.
func receive(ch reflect.Value, who string) (reflect.Value, string) {
	d := eventTimeout
	if lossy[who] {
		d = 300 * time.Millisecond
	}
	v, problem := receiveWithin(ch, d)
	if problem != "" {
		lossy[who] = true
	}
	return v, problem
}

func receiveWithin(ch reflect.Value, eventTimeout time.Duration) (reflect.Value, string) {
	timer := time.NewTimer(eventTimeout)
	defer timer.Stop()
	i, v, ok := reflect.Select([]reflect.SelectCase{
		{Dir: reflect.SelectRecv, Chan: ch},
		{Dir: reflect.SelectRecv, Chan: reflect.ValueOf(timer.C)},
	})
	if i == 1 {
		return v, "nothing received within " + eventTimeout.String()
	}
	if !ok {
		return v, "subscription channel closed"
	}
	return v, ""
}

// payloadDiff compares an event / property value with the abstract values of
// the parameters: one parameter travels alone, several as a struct.
func payloadDiff(c *xctx, v reflect.Value, np int, vals []interface{}) string {
	if np == 1 {
		return diffX(c, v, vals[0], "event")
	}
	return diffX(c, v, interface{}(vals), "event")
}

func callMethod(c *xctx, recv reflect.Value, name string, args []interface{}) (out []reflect.Value, err error) {
	defer func() {
		if r := recover(); r != nil {
			err = fmt.Errorf("panic: %v", r)
		}
	}()
	m := recv.MethodByName(name)
	if !m.IsValid() {
		return nil, fmt.Errorf("no method %s", name)
	}
	if m.Type().NumIn() != len(args) {
		return nil, fmt.Errorf("%s takes %d arguments, scenario has %d", name, m.Type().NumIn(), len(args))
	}
	in := make([]reflect.Value, len(args))
	for i, a := range args {
		in[i], err = buildX(c, m.Type().In(i), a)
		if err != nil {
			return nil, err
		}
	}
	return m.Call(in), nil
}

func lastError(out []reflect.Value) error {
	if len(out) == 0 {
		return nil
	}
	if e, ok := out[len(out)-1].Interface().(error); ok && e != nil {
		return e
	}
	return nil
}

// notHeld: the operation cannot be replayed because an earlier one, whose
// failure was reported, did not deliver a reference.
func notHeld(err error) bool {
	return err != nil && strings.Contains(err.Error(), errNotHeld.Error())
}

// Run executes one scenario; report receives every deviation.
func Run(sc *Scenario, report func(class, detail string, op interface{})) {
	itf, ok := registry[sc.Pkg]
	if !ok {
		report("harness/not-registered", sc.Pkg, nil)
		return
	}
	nm, ns, np := len(sc.sorted("method")), len(sc.sorted("signal")), len(sc.sorted("property"))
	if len(itf.ImplMethods) != nm || len(itf.ProxyMethods) != nm || len(itf.HelperSignals) != ns ||
		len(itf.ProxySubs) != ns || len(itf.HelperUpdates) != np || len(itf.ImplChanges) != np || len(itf.ProxyProps) != np {
		report("generated-api-shape/"+sc.Cls, fmt.Sprintf("interface has %d methods, %d signals, %d properties; generated: %+v", nm, ns, np, *itf), nil)
		return
	}
	// overload groups: the generated names are the ones the specification derives (IdlRpc!GoName)
	for _, kind := range []string{"method", "signal", "property"} {
		for pos, a := range sc.sorted(kind) {
			if a.Cls != "overload" || a.Go == "" {
				continue
			}
			want := strings.Title(a.Go)
			var have []string
			switch kind {
			case "method":
				have = []string{itf.ImplMethods[pos], itf.ProxyMethods[pos]}
			case "signal":
				have = []string{strings.TrimPrefix(itf.HelperSignals[pos], "Signal"), strings.TrimPrefix(itf.ProxySubs[pos], "Subscribe")}
			default:
				have = []string{strings.TrimPrefix(itf.HelperUpdates[pos], "Update"), strings.TrimPrefix(itf.ProxyProps[pos][0], "Get"),
					strings.TrimPrefix(itf.ProxyProps[pos][1], "Set"), strings.TrimPrefix(itf.ProxyProps[pos][2], "Subscribe"),
					strings.TrimSuffix(strings.TrimPrefix(itf.ImplChanges[pos], "On"), "Change")}
			}
			for _, h := range have {
				if h != want {
					report("generated-api-shape/"+sc.Cls, fmt.Sprintf("%s %s (uid %d, parameters %s) of the overload group %q must be named %s, generated: %v",
						kind, a.Name, a.ID, a.Psig, a.Grp, want, have), nil)
					return
				}
			}
		}
	}
	for _, n := range sc.Itfs {
		if itf.Create[n] == nil || itf.Make[n] == nil {
			report("generated-api-shape/"+sc.Cls, "the generated package lacks Create"+n+" / Make"+n, nil)
			return
		}
	}
	w := &world{itf: itf, sc: sc, objs: map[int]*Obj{}, client: map[int]reflect.Value{}, impl: map[int]reflect.Value{}, report: report}
	h := &Handler{itf: itf, sc: sc, w: w, obj: w.newObj(rootObj)}
	listener := &blockingListener{ch: make(chan struct{})}
	names := bus.PrivateNamespace()
	srv, err := bus.StandAloneServer(listener, bus.Yes{}, names)
	if err != nil {
		report("harness/server", err.Error(), nil)
		return
	}
	defer func() {
		if w.hung { // an object of the service waits for ever: Terminate may do so too
			go srv.Terminate()
		} else {
			srv.Terminate()
		}
	}()
	if _, err = srv.NewService(itf.Name, itf.Object(itf.NewImpl(h))); err != nil {
		report("service-activation-fails/"+sc.Cls, err.Error(), nil)
		return
	}
	for _, e := range h.errs {
		report("property-initialisation-fails/"+sc.Cls, e, nil)
	}
	h.errs = nil
	h.take() // change callbacks of the initialisation
	w.sess = &sharedSession{ns: names, client: srv.Client()}
	p, err := itf.Proxy(w.sess)
	if err != nil {
		report("proxy-creation-fails/"+sc.Cls, err.Error(), nil)
		return
	}
	proxy := reflect.ValueOf(p)
	// the references both sides hold at the start (IdlRpc: CHeld0, SHeld0)
	if sc.has("Itf") {
		w.client[rootObj] = proxy
		if p2, err := itf.Proxy(srv.Session()); err == nil { // the implementation's own session
			w.impl[rootObj] = reflect.ValueOf(p2)
		}
	}
	if sc.has("Probe") {
		op, isObj := p.(bus.ObjectProxy)
		if !isObj {
			report("generated-api-shape/"+sc.Cls, "the generated proxy is not a bus.ObjectProxy", nil)
			return
		}
		service := op.Proxy().ProxyService(w.sess)
		for _, n := range []int{6, 7} {
			cp, err := itf.Create["Probe"](w.sess, service, w.newObj(n))
			if err != nil {
				report("client-object-creation-fails/"+sc.Cls, err.Error(), nil)
				return
			}
			w.client[n] = reflect.ValueOf(cp)
		}
	}
	subs := map[int]*subscription{}
	defer func() {
		if !w.hung {
			for _, s := range subs {
				s.cancel.Call(nil)
			}
		}
	}()
	// a call through generated code, bounded
	call := func(c *xctx, recv reflect.Value, name string, args []interface{}, what string) (out []reflect.Value, err error, hung bool) {
		if !timed(w.wait(what), func() { out, err = callMethod(c, recv, name, args) }) {
			w.hangAt(what)
			return nil, nil, true
		}
		if err == nil {
			err = lastError(out)
		}
		return out, err, false
	}
	for i := range sc.Ops {
		op := sc.Ops[i]
		w.op = op
		if op.Op == "use" || op.Op == "via" {
			side := w.client
			if op.Side == "s" {
				side = w.impl
			}
			ref, ok := w.held(side, op.H)
			if !ok {
				if w.failed == 0 {
					report("harness/unknown-handle", fmt.Sprint(op.H), op)
				}
				continue
			}
			if op.Op == "use" {
				w.verify(ref, op.Exec, "use", sc.Cls)
			} else {
				via(w, &op, ref, call)
			}
			if w.hung {
				return
			}
			continue
		}
		act, pos := sc.locate(op.ID)
		if pos < 0 {
			report("harness/unknown-action", fmt.Sprint(op.ID), op)
			return
		}
		cls := act.Cls
		if op.Dev != "" {
			cls = op.Dev
		}
		what := fmt.Sprint(op.Op, op.ID, op.Dev)
		switch op.Op {
		case "call":
			h.expect(&op)
			out, err, hung := call(&xctx{w: w, from: w.client, leaves: op.Objs}, proxy, itf.ProxyMethods[pos], op.Args, what)
			h.expect(nil)
			if hung {
				w.fail("call-hangs/"+cls, "the call does not return within "+callTimeout.String())
				return
			}
			if notHeld(err) && w.failed > 0 {
				h.take()
				continue
			}
			if err != nil {
				w.fail("call-fails/"+cls, err.Error())
				h.take()
				h.errs = nil
				continue
			}
			seen := h.take()
			// the method the object must execute: the overload the proxy method denotes
			ranPos := pos
			if op.Ran != 0 {
				_, ranPos = sc.locate(op.Ran)
			}
			if len(seen) != 1 || seen[0].kind != "call" || seen[0].idx != ranPos {
				w.fail("call-reaches-wrong-method/"+cls, fmt.Sprintf("implementation observed %s, expected method %d (%s, parameters %s) once; called through the proxy method %s",
					describe(itf, seen), ranPos, strings.Title(op.RanGo), act.Psig, itf.ProxyMethods[pos]))
				h.errs = nil
				continue
			}
			if op.RanGo != "" && act.Cls == "overload" && itf.ImplMethods[seen[0].idx] != strings.Title(op.RanGo) {
				w.fail("call-reaches-wrong-method/"+cls, fmt.Sprintf("implementation method %s ran, %s expected", itf.ImplMethods[seen[0].idx], strings.Title(op.RanGo)))
				continue
			}
			if len(seen[0].args) != len(op.Args) {
				w.fail("call-arguments-differ/"+cls, fmt.Sprintf("%d arguments observed", len(seen[0].args)))
				continue
			}
			ca := &xctx{w: w, to: w.impl, leaves: op.Objs, cls: cls}
			for i, a := range seen[0].args {
				if d := diffX(ca, reflect.ValueOf(a), op.Args[i], fmt.Sprintf("arg%d", i)); d != "" {
					w.fail("call-arguments-differ/"+cls, d)
				}
			}
			if len(op.Ret) == 1 && !w.hung {
				if len(out) != 2 {
					w.fail("call-result-differs/"+cls, fmt.Sprintf("%d results", len(out)))
				} else {
					want := op.Ret[0]
					if len(op.Expect) == 1 {
						want = op.Expect[0]
					}
					if d := diffX(&xctx{w: w, to: w.client, leaves: op.Robjs, cls: cls}, out[0], want, "result"); d != "" {
						w.fail("call-result-differs/"+cls, d)
					}
				}
			}
			for _, e := range h.errs {
				report("harness/build", e, op)
			}
			h.errs = nil
		case "sub":
			name := ""
			if act.Kind == "signal" {
				name = itf.ProxySubs[pos]
			} else {
				name = itf.ProxyProps[pos][2]
			}
			out, err, hung := call(nil, proxy, name, nil, what)
			if hung {
				w.fail("subscribe-hangs/"+cls, "the subscription does not return within "+callTimeout.String())
				return
			}
			if err != nil || len(out) != 3 {
				w.fail("subscribe-fails/"+cls, fmt.Sprint(err))
				continue
			}
			subs[op.ID] = &subscription{cancel: out[0], ch: out[1]}
		case "unsub":
			if s := subs[op.ID]; s != nil {
				s.cancel.Call(nil)
				delete(subs, op.ID)
			}
		case "emit":
			var err error
			if !timed(w.wait(what), func() {
				err = h.helperCall(&xctx{w: w, from: w.impl, leaves: op.Objs}, itf.HelperSignals[pos], op.Args)
			}) {
				w.hangAt(what)
				w.fail("emit-hangs/"+cls, "the signal helper does not return within "+callTimeout.String())
				return
			}
			if notHeld(err) && w.failed > 0 {
				continue
			}
			if err != nil {
				w.fail("emit-fails/"+cls, err.Error())
				continue
			}
			if op.Deliver {
				s := subs[op.ID]
				if s == nil {
					continue // the subscription itself failed and was reported
				}
				v, problem := receive(s.ch, fmt.Sprint(sc.Pkg, op.ID))
				if problem != "" {
					w.fail("signal-not-delivered/"+cls, problem)
				} else if d := payloadDiff(&xctx{w: w, to: w.client, leaves: op.Objs, cls: cls}, v, act.Np, op.Args); d != "" {
					w.fail("signal-payload-differs/"+cls, d)
				}
			}
		case "set":
			h.expect(&op)
			_, err, hung := call(&xctx{w: w, from: w.client, leaves: op.Objs}, proxy, itf.ProxyProps[pos][1], op.Args, what)
			h.expect(nil)
			if hung {
				w.fail("property-set-hangs/"+cls, "the call does not return within "+callTimeout.String())
				return
			}
			if notHeld(err) && w.failed > 0 {
				h.take()
				continue
			}
			if err != nil {
				w.fail("property-set-fails/"+cls, err.Error())
				h.take()
				continue
			}
			seen := h.take()
			if len(seen) != 1 || seen[0].kind != "change" || seen[0].idx != pos {
				w.fail("property-change-not-observed/"+cls, fmt.Sprintf("implementation observed %+v", seen))
			} else {
				ca := &xctx{w: w, to: w.impl, leaves: op.Objs, cls: cls}
				for i, a := range seen[0].args {
					if i < len(op.Args) {
						if d := diffX(ca, reflect.ValueOf(a), op.Args[i], fmt.Sprintf("arg%d", i)); d != "" {
							w.fail("property-change-argument-differs/"+cls, d)
						}
					}
				}
			}
			if op.Deliver {
				if s := subs[op.ID]; s != nil {
					v, problem := receive(s.ch, fmt.Sprint(sc.Pkg, op.ID))
					if problem != "" {
						w.fail("property-update-not-delivered/"+cls, problem)
					} else if d := payloadDiff(&xctx{w: w, to: w.client, leaves: op.Objs, second: true, cls: cls}, v, act.Np, op.Args); d != "" {
						w.fail("property-update-differs/"+cls, d)
					}
				}
			}
		case "get":
			out, err, hung := call(nil, proxy, itf.ProxyProps[pos][0], nil, what)
			if hung {
				w.fail("property-get-hangs/"+cls, "the call does not return within "+callTimeout.String())
				return
			}
			if err != nil || len(out) != 2 {
				w.fail("property-get-fails/"+cls, fmt.Sprint(err))
				continue
			}
			if d := payloadDiff(&xctx{w: w, to: w.client, leaves: op.Robjs, cls: cls}, out[0], act.Np, op.Ret); d != "" {
				w.fail("property-get-differs/"+cls, d)
			}
		default:
			report("harness/unknown-op", op.Op, op)
		}
		if w.hung {
			return
		}
	}
}

// via: the client calls pass(g) on a received Relay: the Relay object must
// execute it once, observe a reference to g's object and return it.
func via(w *world, op *Op, relay reflect.Value,
	call func(c *xctx, recv reflect.Value, name string, args []interface{}, what string) ([]reflect.Value, error, bool)) {
	cls := w.sc.Cls
	if len(op.Objs) != 1 || len(op.Robjs) != 1 {
		w.report("harness/via", "one reference each way expected", op)
		return
	}
	o := w.objs[op.Exec]
	if o == nil {
		w.report("harness/via", fmt.Sprint("no object ", op.Exec), op)
		return
	}
	o.mu.Lock()
	o.seen = nil
	o.mu.Unlock()
	before := w.counts()
	slot := map[string]interface{}{"slot": float64(1)}
	out, err, hung := call(&xctx{w: w, from: w.client, leaves: op.Objs}, relay, "Pass", []interface{}{slot}, "via")
	if hung {
		w.fail("reference-call-hangs/"+cls, "pass through the reference does not return")
		return
	}
	if notHeld(err) && w.failed > 0 {
		return
	}
	if err != nil {
		w.fail("reference-unusable/"+cls, fmt.Sprintf("pass through the reference to object %d: %v", op.Exec, err))
		return
	}
	after := w.counts()
	for n := range after {
		d := after[n] - before[n]
		switch {
		case n == op.Exec && d != 1:
			w.fail("reference-call-not-executed-once/"+cls, fmt.Sprintf("pass: object %d executed the call %d times", n, d))
		case n != op.Exec && d != 0:
			w.fail("reference-call-reaches-other-object/"+cls, fmt.Sprintf("pass: object %d executed a call meant for object %d", n, op.Exec))
		}
	}
	o.mu.Lock()
	seen := o.seen
	o.mu.Unlock()
	if len(seen) == 1 {
		(&xctx{w: w, to: w.impl, leaves: op.Objs, cls: cls}).received(reflect.ValueOf(seen[0]), op.Objs[0], "pass: argument")
	}
	if len(out) != 2 {
		w.fail("generated-api-shape/"+cls, fmt.Sprintf("pass returns %d values", len(out)))
		return
	}
	if !w.hung {
		(&xctx{w: w, to: w.client, leaves: op.Robjs, cls: cls}).received(out[0], op.Robjs[0], "pass: result")
	}
}

// Main runs the scenarios of a file (ndjson) and prints one JSON document.
// A journal of the scenario being run and a watchdog make a hang or a crash
// attributable (the parent reads the journal).
func Main() {
	if len(os.Args) < 3 {
		fmt.Fprintln(os.Stderr, "usage: run <scenarios.ndjson> <journal>")
		os.Exit(3)
	}
	data, err := os.ReadFile(os.Args[1])
	if err != nil {
		fmt.Fprintln(os.Stderr, err)
		os.Exit(3)
	}
	// generated decoders allocate what the wire announces: bound the address
	// space so that a runaway allocation ends this process (attributed to the
	// scenario by the journal) instead of exhausting the machine
	lim := syscall.Rlimit{Cur: 6 << 30, Max: 6 << 30}
	syscall.Setrlimit(syscall.RLIMIT_AS, &lim)
	start := 0
	if len(os.Args) > 3 {
		fmt.Sscan(os.Args[3], &start)
	}
	jf, err := os.OpenFile(os.Args[2], os.O_CREATE|os.O_WRONLY|os.O_TRUNC, 0o644)
	if err != nil {
		fmt.Fprintln(os.Stderr, err)
		os.Exit(3)
	}
	out, err := os.OpenFile(os.Args[2]+".fails", os.O_CREATE|os.O_WRONLY|os.O_APPEND, 0o644)
	if err != nil {
		fmt.Fprintln(os.Stderr, err)
		os.Exit(3)
	}
	var mu sync.Mutex
	var cur int
	var since time.Time
	go func() {
		for {
			time.Sleep(200 * time.Millisecond)
			mu.Lock()
			i, t := cur, since
			mu.Unlock()
			if !t.IsZero() && time.Since(t) > 60*time.Second {
				fmt.Fprintf(os.Stderr, "watchdog: case %d still running after 60s\n", i)
				os.Exit(7)
			}
		}
	}()
	n, ops := 0, 0
	for i, line := range bytes.Split(data, []byte("\n")) {
		if len(line) == 0 || i < start {
			continue
		}
		var sc Scenario
		if err := json.Unmarshal(line, &sc); err != nil {
			fmt.Fprintf(os.Stderr, "line %d: %v\n", i, err)
			os.Exit(3)
		}
		fmt.Fprintf(jf, "%d\n", i)
		mu.Lock()
		cur, since = i, time.Now()
		mu.Unlock()
		Run(&sc, func(class, detail string, op interface{}) {
			b, _ := json.Marshal(Failure{class, detail, map[string]interface{}{"scenario": sc.N, "pkg": sc.Pkg, "key": sc.Key, "op": op}})
			out.Write(append(b, '\n'))
		})
		n++
		ops += len(sc.Ops)
	}
	mu.Lock()
	since = time.Time{}
	mu.Unlock()
	b, _ := json.Marshal(map[string]interface{}{"evaluations": n, "distinct": n,
		"extra": map[string]interface{}{"operations": float64(ops)}})
	os.WriteFile(os.Args[2]+".sum", b, 0o644)
}
