// Package drv is the scenario runner linked into the scratch programs that
// C05 builds from generated code.  It knows nothing about a particular
// interface: the generated packages register constructors and the names of
// the generated methods (in declaration order); the runner drives the
// generated proxy and the generated stub by reflection, following the
// operations exported by the IdlRpc specification, and compares every
// observation with the expected one.
package drv

import (
	"bytes"
	"encoding/json"
	"fmt"
	"math"
	"os"
	"reflect"
	"sort"
	"sync"
	"syscall"
	"time"

	"github.com/lugu/qiloop/bus"
	"github.com/lugu/qiloop/bus/net"
	"github.com/lugu/qiloop/type/value"
)

// Itf is what a generated package registers for one interface.
type Itf struct {
	Name          string // interface = service name
	NewImpl       func(h *Handler) interface{}
	Object        func(impl interface{}) bus.Actor
	Proxy         func(s bus.Session) (interface{}, error)
	ImplMethods   []string // implementor: one method per IDL method
	ImplChanges   []string // implementor: On<Prop>Change
	HelperSignals []string // signal helper: Signal<Sig>
	HelperUpdates []string // signal helper: Update<Prop>
	ProxyMethods  []string
	ProxySubs     []string    // Subscribe<Sig>
	ProxyProps    [][3]string // Get<Prop>, Set<Prop>, Subscribe<Prop>
}

var registry = map[string]*Itf{}

// Register is called from the init functions of the generated packages.
func Register(key string, itf *Itf) { registry[key] = itf }

// Act, Op, Scenario mirror the export of GenIdlRpc.
type Act struct {
	Kind string        `json:"kind"`
	ID   int           `json:"id"`
	Name string        `json:"name"`
	Cls  string        `json:"cls"`
	Np   int           `json:"np"`
	Void bool          `json:"void"`
	Init []interface{} `json:"init"`
}

type Op struct {
	Op      string        `json:"op"`
	ID      int           `json:"id"`
	Deliver bool          `json:"deliver"`
	Args    []interface{} `json:"args"`
	Ret     []interface{} `json:"ret"`
	// Expect overrides the expected result of a call (never set by the
	// specification's export: used by the check's self-test to show that
	// the comparison can fail).
	Expect []interface{} `json:"expect,omitempty"`
}

type Scenario struct {
	Cls  string `json:"cls"`
	Key  []int  `json:"key"`
	Acts []Act  `json:"acts"`
	Ops  []Op   `json:"ops"`
	Pkg  string `json:"pkg"` // registry key
	N    int    `json:"n"`   // scenario number
}

// Failure is reported per operation.
type Failure struct {
	Class  string      `json:"class"`
	Detail string      `json:"detail"`
	Case   interface{} `json:"case"`
}

// ---------------------------------------------------------------------------
// abstract values <-> Go values
// ---------------------------------------------------------------------------

var signed = map[string]int64{
	"zero": 0, "one": 1, "neg1": -1, "max8": math.MaxInt8, "min8": math.MinInt8, "umax8": math.MaxUint8,
	"max16": math.MaxInt16, "min16": math.MinInt16, "umax16": math.MaxUint16, "max32": math.MaxInt32,
	"min32": math.MinInt32, "umax32": math.MaxUint32, "max64": math.MaxInt64, "min64": math.MinInt64,
}
var unsigned = map[string]uint64{
	"zero": 0, "one": 1, "max8": math.MaxInt8, "umax8": math.MaxUint8, "max16": math.MaxInt16,
	"umax16": math.MaxUint16, "max32": math.MaxInt32, "umax32": math.MaxUint32, "max64": math.MaxInt64,
	"umax64": math.MaxUint64,
}
var floats = map[string]float64{
	"f0": 0, "f1_5": 1.5, "fneg2_25": -2.25, "fmax32": math.MaxFloat32,
	"fsub32": math.SmallestNonzeroFloat32, "dpi": math.Pi, "dmax64": math.MaxFloat64,
}
var strs = map[string]string{"s_empty": "", "s_a": "a", "s_utf8": "héllo, wörld €"}

var valueType = reflect.TypeOf((*value.Value)(nil)).Elem()

func dynamic(a interface{}) (value.Value, error) {
	m, ok := a.(map[string]interface{})
	if !ok {
		return nil, fmt.Errorf("dynamic value expected, have %v", a)
	}
	sig, _ := m["sig"].(string)
	name, _ := m["v"].(string)
	switch sig {
	case "i":
		return value.Int(int32(signed[name])), nil
	case "s":
		return value.String(strs[name]), nil
	case "b":
		return value.Bool(name == "true"), nil
	}
	return nil, fmt.Errorf("unsupported dynamic value %v", a)
}

// Build makes a Go value of type t from the abstract value a.
func Build(t reflect.Type, a interface{}) (v reflect.Value, err error) {
	defer func() {
		if r := recover(); r != nil {
			err = fmt.Errorf("build %v from %v: %v", t, a, r)
		}
	}()
	v = reflect.New(t).Elem()
	if t == valueType {
		d, err := dynamic(a)
		if err != nil {
			return v, err
		}
		v.Set(reflect.ValueOf(d))
		return v, nil
	}
	switch t.Kind() {
	case reflect.Int8, reflect.Int16, reflect.Int32, reflect.Int64:
		n, ok := signed[a.(string)]
		if !ok || v.OverflowInt(n) {
			return v, fmt.Errorf("%v does not fit %v", a, t)
		}
		v.SetInt(n)
	case reflect.Uint8, reflect.Uint16, reflect.Uint32, reflect.Uint64:
		n, ok := unsigned[a.(string)]
		if !ok || v.OverflowUint(n) {
			return v, fmt.Errorf("%v does not fit %v", a, t)
		}
		v.SetUint(n)
	case reflect.Float32, reflect.Float64:
		f, ok := floats[a.(string)]
		if !ok {
			return v, fmt.Errorf("unknown float %v", a)
		}
		v.SetFloat(f)
	case reflect.String:
		s, ok := strs[a.(string)]
		if !ok {
			return v, fmt.Errorf("unknown string %v", a)
		}
		v.SetString(s)
	case reflect.Bool:
		v.SetBool(a.(string) == "true")
	case reflect.Slice:
		l := a.([]interface{})
		v.Set(reflect.MakeSlice(t, len(l), len(l)))
		for i, x := range l {
			e, err := Build(t.Elem(), x)
			if err != nil {
				return v, err
			}
			v.Index(i).Set(e)
		}
	case reflect.Map:
		l := a.([]interface{})
		v.Set(reflect.MakeMapWithSize(t, len(l)))
		for _, p := range l {
			kv := p.([]interface{})
			k, err := Build(t.Key(), kv[0])
			if err != nil {
				return v, err
			}
			e, err := Build(t.Elem(), kv[1])
			if err != nil {
				return v, err
			}
			v.SetMapIndex(k, e)
		}
	case reflect.Struct:
		l := a.([]interface{})
		if len(l) != t.NumField() {
			return v, fmt.Errorf("%v has %d fields, value has %d", t, t.NumField(), len(l))
		}
		for i, x := range l {
			e, err := Build(t.Field(i).Type, x)
			if err != nil {
				return v, err
			}
			v.Field(i).Set(e)
		}
	default:
		return v, fmt.Errorf("cannot build a %v", t)
	}
	return v, nil
}

// Diff compares the Go value v with the abstract value a; "" when equal.
func Diff(v reflect.Value, a interface{}, path string) (d string) {
	defer func() {
		if r := recover(); r != nil {
			d = fmt.Sprintf("%s: %v", path, r)
		}
	}()
	t := v.Type()
	if m, isDyn := a.(map[string]interface{}); t == valueType || (isDyn && m["sig"] != nil) {
		if !t.Implements(valueType) {
			return fmt.Sprintf("%s: want a dynamic value, have %v", path, t)
		}
		want, err := dynamic(a)
		if err != nil {
			return path + ": " + err.Error()
		}
		if v.Kind() == reflect.Interface && v.IsNil() {
			return path + ": nil value"
		}
		have := v.Interface().(value.Value)
		if have.Signature() != want.Signature() || !bytes.Equal(value.Bytes(have), value.Bytes(want)) {
			return fmt.Sprintf("%s: want dynamic %v, have %v %v", path, a, have.Signature(), have)
		}
		return ""
	}
	switch t.Kind() {
	case reflect.Slice:
		l := a.([]interface{})
		if v.Len() != len(l) {
			return fmt.Sprintf("%s: want %d elements, have %d", path, len(l), v.Len())
		}
		for i, x := range l {
			if d := Diff(v.Index(i), x, fmt.Sprintf("%s[%d]", path, i)); d != "" {
				return d
			}
		}
	case reflect.Map:
		l := a.([]interface{})
		if v.Len() != len(l) {
			return fmt.Sprintf("%s: want %d entries, have %d", path, len(l), v.Len())
		}
		for _, p := range l {
			kv := p.([]interface{})
			k, err := Build(t.Key(), kv[0])
			if err != nil {
				return path + ": " + err.Error()
			}
			e := v.MapIndex(k)
			if !e.IsValid() {
				return fmt.Sprintf("%s: key %v missing", path, k)
			}
			if d := Diff(e, kv[1], fmt.Sprintf("%s[%v]", path, k)); d != "" {
				return d
			}
		}
	case reflect.Struct:
		l := a.([]interface{})
		if len(l) != t.NumField() {
			return fmt.Sprintf("%s: want %d fields, have %v", path, len(l), t)
		}
		for i, x := range l {
			if d := Diff(v.Field(i), x, path+"."+t.Field(i).Name); d != "" {
				return d
			}
		}
	default:
		want, err := Build(t, a)
		if err != nil {
			return path + ": " + err.Error()
		}
		if !reflect.DeepEqual(want.Interface(), v.Interface()) {
			return fmt.Sprintf("%s: want %v (%v), have %v", path, want, a, v)
		}
	}
	return ""
}

// ---------------------------------------------------------------------------
// the implementor side
// ---------------------------------------------------------------------------

// Handler is shared by the generated implementors: they forward every call.
type Handler struct {
	itf    *Itf
	sc     *Scenario
	helper reflect.Value
	mu     sync.Mutex
	calls  []recorded
	ret    interface{} // abstract value the next method call returns
	hasRet bool
	errs   []string
}

type recorded struct {
	kind string // "call" | "change"
	idx  int
	args []interface{}
}

// Activate stores the signal helper and initialises the properties.
func (h *Handler) Activate(activation bus.Activation, helper interface{}) error {
	h.helper = reflect.ValueOf(helper)
	props := h.sc.sorted("property")
	for pos, name := range h.itf.HelperUpdates {
		if pos >= len(props) {
			break
		}
		if err := h.helperCall(name, props[pos].Init); err != nil {
			h.errs = append(h.errs, fmt.Sprintf("initialise %s: %v", name, err))
		}
	}
	return nil
}

func (h *Handler) helperCall(name string, args []interface{}) (err error) {
	defer func() {
		if r := recover(); r != nil {
			err = fmt.Errorf("panic: %v", r)
		}
	}()
	m := h.helper.MethodByName(name)
	if !m.IsValid() {
		return fmt.Errorf("helper has no method %s", name)
	}
	if m.Type().NumIn() != len(args) {
		return fmt.Errorf("helper %s takes %d arguments, scenario has %d", name, m.Type().NumIn(), len(args))
	}
	in := make([]reflect.Value, len(args))
	for i, a := range args {
		in[i], err = Build(m.Type().In(i), a)
		if err != nil {
			return err
		}
	}
	out := m.Call(in)
	if e, ok := out[len(out)-1].Interface().(error); ok && e != nil {
		return e
	}
	return nil
}

// Call is invoked by the generated implementor for the idx-th method.
func (h *Handler) Call(idx int, args []interface{}, ret interface{}) error {
	h.mu.Lock()
	defer h.mu.Unlock()
	h.calls = append(h.calls, recorded{"call", idx, args})
	if ret != nil && h.hasRet {
		v, err := Build(reflect.TypeOf(ret).Elem(), h.ret)
		if err != nil {
			h.errs = append(h.errs, err.Error())
			return nil
		}
		reflect.ValueOf(ret).Elem().Set(v)
	}
	return nil
}

// Change is invoked by the generated implementor for the idx-th property.
func (h *Handler) Change(idx int, args []interface{}) error {
	h.mu.Lock()
	defer h.mu.Unlock()
	h.calls = append(h.calls, recorded{"change", idx, args})
	return nil
}

func (h *Handler) take() []recorded {
	h.mu.Lock()
	defer h.mu.Unlock()
	c := h.calls
	h.calls = nil
	return c
}

// ---------------------------------------------------------------------------
// the runner
// ---------------------------------------------------------------------------

func (sc *Scenario) sorted(kind string) []Act {
	var l []Act
	for _, a := range sc.Acts {
		if a.Kind == kind {
			l = append(l, a)
		}
	}
	sort.Slice(l, func(i, j int) bool { return l[i].ID < l[j].ID })
	return l
}

// position of action id among the actions of its kind, in uid order (the
// order in which the generators declare them)
func (sc *Scenario) locate(id int) (Act, int) {
	for _, a := range sc.Acts {
		if a.ID == id {
			for pos, b := range sc.sorted(a.Kind) {
				if b.ID == id {
					return a, pos
				}
			}
		}
	}
	return Act{}, -1
}

type blockingListener struct{ ch chan struct{} }

func (l *blockingListener) Accept() (net.Stream, error) {
	<-l.ch
	return nil, fmt.Errorf("listener closed")
}
func (l *blockingListener) Close() error {
	select {
	case <-l.ch:
	default:
		close(l.ch)
	}
	return nil
}

type subscription struct {
	cancel reflect.Value
	ch     reflect.Value
}

const eventTimeout = 10 * time.Second

// once an action of a package has lost an event, later waits for it are short
var lossy = map[string]bool{}

// receive takes one value from a subscription channel.
func receive(ch reflect.Value, who string) (reflect.Value, string) {
	d := eventTimeout
	if lossy[who] {
		d = 300 * time.Millisecond
	}
	v, problem := receiveWithin(ch, d)
	if problem != "" {
		lossy[who] = true
	}
	return v, problem
}

func receiveWithin(ch reflect.Value, eventTimeout time.Duration) (reflect.Value, string) {
	timer := time.NewTimer(eventTimeout)
	defer timer.Stop()
	i, v, ok := reflect.Select([]reflect.SelectCase{
		{Dir: reflect.SelectRecv, Chan: ch},
		{Dir: reflect.SelectRecv, Chan: reflect.ValueOf(timer.C)},
	})
	if i == 1 {
		return v, "nothing received within " + eventTimeout.String()
	}
	if !ok {
		return v, "subscription channel closed"
	}
	return v, ""
}

// payloadDiff compares an event / property value with the abstract values of
// the parameters: one parameter travels alone, several as a struct.
func payloadDiff(v reflect.Value, np int, vals []interface{}) string {
	if np == 1 {
		return Diff(v, vals[0], "event")
	}
	return Diff(v, interface{}(vals), "event")
}

func callMethod(recv reflect.Value, name string, args []interface{}) (out []reflect.Value, err error) {
	defer func() {
		if r := recover(); r != nil {
			err = fmt.Errorf("panic: %v", r)
		}
	}()
	m := recv.MethodByName(name)
	if !m.IsValid() {
		return nil, fmt.Errorf("no method %s", name)
	}
	if m.Type().NumIn() != len(args) {
		return nil, fmt.Errorf("%s takes %d arguments, scenario has %d", name, m.Type().NumIn(), len(args))
	}
	in := make([]reflect.Value, len(args))
	for i, a := range args {
		in[i], err = Build(m.Type().In(i), a)
		if err != nil {
			return nil, err
		}
	}
	return m.Call(in), nil
}

func lastError(out []reflect.Value) error {
	if len(out) == 0 {
		return nil
	}
	if e, ok := out[len(out)-1].Interface().(error); ok && e != nil {
		return e
	}
	return nil
}

// Run executes one scenario; report receives every deviation.
func Run(sc *Scenario, report func(class, detail string, op interface{})) {
	itf, ok := registry[sc.Pkg]
	if !ok {
		report("harness/not-registered", sc.Pkg, nil)
		return
	}
	nm, ns, np := len(sc.sorted("method")), len(sc.sorted("signal")), len(sc.sorted("property"))
	if len(itf.ImplMethods) != nm || len(itf.ProxyMethods) != nm || len(itf.HelperSignals) != ns ||
		len(itf.ProxySubs) != ns || len(itf.HelperUpdates) != np || len(itf.ImplChanges) != np || len(itf.ProxyProps) != np {
		report("generated-api-shape/"+sc.Cls, fmt.Sprintf("interface has %d methods, %d signals, %d properties; generated: %+v", nm, ns, np, *itf), nil)
		return
	}
	h := &Handler{itf: itf, sc: sc}
	listener := &blockingListener{ch: make(chan struct{})}
	srv, err := bus.StandAloneServer(listener, bus.Yes{}, bus.PrivateNamespace())
	if err != nil {
		report("harness/server", err.Error(), nil)
		return
	}
	defer srv.Terminate()
	if _, err = srv.NewService(itf.Name, itf.Object(itf.NewImpl(h))); err != nil {
		report("service-activation-fails/"+sc.Cls, err.Error(), nil)
		return
	}
	for _, e := range h.errs {
		report("property-initialisation-fails/"+sc.Cls, e, nil)
	}
	h.errs = nil
	h.take() // change callbacks of the initialisation
	p, err := itf.Proxy(srv.Session())
	if err != nil {
		report("proxy-creation-fails/"+sc.Cls, err.Error(), nil)
		return
	}
	proxy := reflect.ValueOf(p)
	subs := map[int]*subscription{}
	for _, op := range sc.Ops {
		act, pos := sc.locate(op.ID)
		if pos < 0 {
			report("harness/unknown-action", fmt.Sprint(op.ID), op)
			return
		}
		cls := act.Cls
		switch op.Op {
		case "call":
			h.mu.Lock()
			h.hasRet = len(op.Ret) == 1
			if h.hasRet {
				h.ret = op.Ret[0]
			}
			h.mu.Unlock()
			out, err := callMethod(proxy, itf.ProxyMethods[pos], op.Args)
			if err == nil {
				err = lastError(out)
			}
			if err != nil {
				report("call-fails/"+cls, err.Error(), op)
				h.take()
				continue
			}
			seen := h.take()
			if len(seen) != 1 || seen[0].kind != "call" || seen[0].idx != pos {
				report("call-reaches-wrong-method/"+cls, fmt.Sprintf("implementation observed %+v, expected method %d once", seen, pos), op)
				continue
			}
			if len(seen[0].args) != len(op.Args) {
				report("call-arguments-differ/"+cls, fmt.Sprintf("%d arguments observed", len(seen[0].args)), op)
				continue
			}
			for i, a := range seen[0].args {
				if d := Diff(reflect.ValueOf(a), op.Args[i], fmt.Sprintf("arg%d", i)); d != "" {
					report("call-arguments-differ/"+cls, d, op)
				}
			}
			if len(op.Ret) == 1 {
				if len(out) != 2 {
					report("call-result-differs/"+cls, fmt.Sprintf("%d results", len(out)), op)
				} else {
					want := op.Ret[0]
					if len(op.Expect) == 1 {
						want = op.Expect[0]
					}
					if d := Diff(out[0], want, "result"); d != "" {
						report("call-result-differs/"+cls, d, op)
					}
				}
			}
			for _, e := range h.errs {
				report("harness/build", e, op)
			}
			h.errs = nil
		case "sub":
			name := ""
			if act.Kind == "signal" {
				name = itf.ProxySubs[pos]
			} else {
				name = itf.ProxyProps[pos][2]
			}
			out, err := callMethod(proxy, name, nil)
			if err == nil {
				err = lastError(out)
			}
			if err != nil || len(out) != 3 {
				report("subscribe-fails/"+cls, fmt.Sprint(err), op)
				continue
			}
			subs[op.ID] = &subscription{cancel: out[0], ch: out[1]}
		case "unsub":
			if s := subs[op.ID]; s != nil {
				s.cancel.Call(nil)
				delete(subs, op.ID)
			}
		case "emit":
			if err := h.helperCall(itf.HelperSignals[pos], op.Args); err != nil {
				report("emit-fails/"+cls, err.Error(), op)
				continue
			}
			if op.Deliver {
				s := subs[op.ID]
				if s == nil {
					continue // the subscription itself failed and was reported
				}
				v, problem := receive(s.ch, fmt.Sprint(sc.Pkg, op.ID))
				if problem != "" {
					report("signal-not-delivered/"+cls, problem, op)
				} else if d := payloadDiff(v, act.Np, op.Args); d != "" {
					report("signal-payload-differs/"+cls, d, op)
				}
			}
		case "set":
			out, err := callMethod(proxy, itf.ProxyProps[pos][1], op.Args)
			if err == nil {
				err = lastError(out)
			}
			if err != nil {
				report("property-set-fails/"+cls, err.Error(), op)
				h.take()
				continue
			}
			seen := h.take()
			if len(seen) != 1 || seen[0].kind != "change" || seen[0].idx != pos {
				report("property-change-not-observed/"+cls, fmt.Sprintf("implementation observed %+v", seen), op)
			} else {
				for i, a := range seen[0].args {
					if i < len(op.Args) {
						if d := Diff(reflect.ValueOf(a), op.Args[i], fmt.Sprintf("arg%d", i)); d != "" {
							report("property-change-argument-differs/"+cls, d, op)
						}
					}
				}
			}
			if op.Deliver {
				if s := subs[op.ID]; s != nil {
					v, problem := receive(s.ch, fmt.Sprint(sc.Pkg, op.ID))
					if problem != "" {
						report("property-update-not-delivered/"+cls, problem, op)
					} else if d := payloadDiff(v, act.Np, op.Args); d != "" {
						report("property-update-differs/"+cls, d, op)
					}
				}
			}
		case "get":
			out, err := callMethod(proxy, itf.ProxyProps[pos][0], nil)
			if err == nil {
				err = lastError(out)
			}
			if err != nil || len(out) != 2 {
				report("property-get-fails/"+cls, fmt.Sprint(err), op)
				continue
			}
			if d := payloadDiff(out[0], act.Np, op.Ret); d != "" {
				report("property-get-differs/"+cls, d, op)
			}
		default:
			report("harness/unknown-op", op.Op, op)
		}
	}
	for _, s := range subs {
		s.cancel.Call(nil)
	}
}

// Main runs the scenarios of a file (ndjson) and prints one JSON document.
// A journal of the scenario being run and a watchdog make a hang or a crash
// attributable (the parent reads the journal).
func Main() {
	if len(os.Args) < 3 {
		fmt.Fprintln(os.Stderr, "usage: run <scenarios.ndjson> <journal>")
		os.Exit(3)
	}
	data, err := os.ReadFile(os.Args[1])
	if err != nil {
		fmt.Fprintln(os.Stderr, err)
		os.Exit(3)
	}
	// generated decoders allocate what the wire announces: bound the address
	// space so that a runaway allocation ends this process (attributed to the
	// scenario by the journal) instead of exhausting the machine
	lim := syscall.Rlimit{Cur: 6 << 30, Max: 6 << 30}
	syscall.Setrlimit(syscall.RLIMIT_AS, &lim)
	start := 0
	if len(os.Args) > 3 {
		fmt.Sscan(os.Args[3], &start)
	}
	jf, err := os.OpenFile(os.Args[2], os.O_CREATE|os.O_WRONLY|os.O_TRUNC, 0o644)
	if err != nil {
		fmt.Fprintln(os.Stderr, err)
		os.Exit(3)
	}
	out, err := os.OpenFile(os.Args[2]+".fails", os.O_CREATE|os.O_WRONLY|os.O_APPEND, 0o644)
	if err != nil {
		fmt.Fprintln(os.Stderr, err)
		os.Exit(3)
	}
	var mu sync.Mutex
	var cur int
	var since time.Time
	go func() {
		for {
			time.Sleep(200 * time.Millisecond)
			mu.Lock()
			i, t := cur, since
			mu.Unlock()
			if !t.IsZero() && time.Since(t) > 60*time.Second {
				fmt.Fprintf(os.Stderr, "watchdog: case %d still running after 60s\n", i)
				os.Exit(7)
			}
		}
	}()
	n, ops := 0, 0
	for i, line := range bytes.Split(data, []byte("\n")) {
		if len(line) == 0 || i < start {
			continue
		}
		var sc Scenario
		if err := json.Unmarshal(line, &sc); err != nil {
			fmt.Fprintf(os.Stderr, "line %d: %v\n", i, err)
			os.Exit(3)
		}
		fmt.Fprintf(jf, "%d\n", i)
		mu.Lock()
		cur, since = i, time.Now()
		mu.Unlock()
		Run(&sc, func(class, detail string, op interface{}) {
			b, _ := json.Marshal(Failure{class, detail, map[string]interface{}{"scenario": sc.N, "pkg": sc.Pkg, "key": sc.Key, "op": op}})
			out.Write(append(b, '\n'))
		})
		n++
		ops += len(sc.Ops)
	}
	mu.Lock()
	since = time.Time{}
	mu.Unlock()
	b, _ := json.Marshal(map[string]interface{}{"evaluations": n, "distinct": n,
		"extra": map[string]interface{}{"operations": float64(ops)}})
	os.WriteFile(os.Args[2]+".sum", b, 0o644)
}
