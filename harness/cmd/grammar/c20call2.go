package main

// C20 through the door the library itself uses: bus.Proxy.Call2.  When the remote method's return signature differs
// from the one the caller expects, Call2 decodes the answer with the REMOTE type and converts it (conversion.DecodeFrom);
// when the two are the same string it decodes directly.  Every "ok" vector of GenConvert is sent through a real proxy
// whose client answers with the encoding of the source value: the caller must end up with the value the specification
// demands - fields matched by NAME, whatever their order on the remote side.

import (
	"bytes"
	"fmt"
	gonet "net"
	"reflect"
	"strings"
	"sync"

	"github.com/lugu/qiloop/bus"
	"github.com/lugu/qiloop/bus/net"
	"github.com/lugu/qiloop/type/object"
)

var c20SigScalar = map[string]string{"int8": "c", "uint8": "C", "int16": "w", "uint16": "W", "int32": "i", "uint32": "I",
	"int64": "l", "uint64": "L", "float32": "f", "float64": "d", "string": "s", "bool": "b"}

// c20Sig: the signature of a type tree; structures are named P1, P2, ... in the order they are met (the same names on
// both sides: what differs between a remote and a local structure is its fields)
func c20Sig(t *c20Type, n *int) string {
	switch t.K {
	case "slice":
		return "[" + c20Sig(t.E, n) + "]"
	case "map":
		return "{" + c20Sig(t.Key, n) + c20Sig(t.Val, n) + "}"
	case "struct":
		*n++
		name := fmt.Sprintf("P%d", *n)
		ms, fs := "", []string{}
		for i := range t.Fs {
			ms += c20Sig(&t.Fs[i].T, n)
			fs = append(fs, strings.ToLower(t.Fs[i].N[:1])+t.Fs[i].N[1:])
		}
		return "(" + ms + ")<" + name + "," + strings.Join(fs, ",") + ">"
	}
	return c20SigScalar[t.K]
}

type c20Client struct {
	bus.Client
	reply []byte
}

func (c *c20Client) Call(cancel <-chan struct{}, s, o, m uint32, payload []byte) ([]byte, error) {
	return append([]byte{}, c.reply...), nil
}

var c20ClientOnce sync.Once
var c20RealClient bus.Client

func c20Call2(j *journal, v *c20Vec, raw []byte, data []byte, top string, st *c20Stats) {
	c20ClientOnce.Do(func() {
		a, _ := gonet.Pipe()
		c20RealClient = bus.NewClient(bus.NewChannel(net.NewEndPoint(net.ConnStream(a)), bus.DefaultCap()))
	})
	ns, nt := 0, 0
	sigS, sigT := c20Sig(&v.S, &ns), c20Sig(&v.T, &nt)
	if sigS == "" || sigT == "" || len(v.S.Fs) == 0 && v.S.K == "struct" {
		return
	}
	meta := object.MetaObject{Methods: map[uint32]object.MetaMethod{100: {Uid: 100, Name: "get", ParametersSignature: "()", ReturnSignature: sigS}}}
	cl := &c20Client{Client: c20RealClient, reply: data}
	p := bus.NewProxy(cl, meta, 1, 1)
	dst := reflect.New(v.T.goType())
	var err error
	if pn := guarded(func() { err = p.Call2("get", bus.NewParams("()"), bus.NewResponse(sigT, dst.Interface())) }); pn != "" {
		j.fail("call2-panics/"+top, pn, raw)
		return
	}
	st.call2++
	if err != nil {
		// the library derives a Go type from the remote signature; what it cannot derive or decode is the codec's
		// business (C03 / C09), not the conversion's
		if bytes.Contains([]byte(err.Error()), []byte("failed to convert")) {
			j.fail("call2-refused/"+top, fmt.Sprintf("remote %s, expected %s: %v", sigS, sigT, err), raw)
		} else {
			st.call2Skip++
		}
		return
	}
	if k, d := v.T.diff(v.Out, dst.Elem(), "call2"); d != "" {
		j.fail("call2-differs/"+k, fmt.Sprintf("remote %s, expected %s: %s", sigS, sigT, d), raw)
	}
}
