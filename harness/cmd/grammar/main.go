// Command grammar: conformance harness of the grammar / conversion / IDL /
// generated-code properties (C09, C20, C18, C05).  The expected observations
// come from the TLA+ modules Signature, Convert and Idl (vectors exported by
// TLC); this binary replays them into the real qiloop code.
package main

import "verif/harness/hlib"

func main() {
	hlib.Register("c05", c05Main)
	hlib.Register("c09", c09Main)
	hlib.Register("c09-child", c09Child)
	hlib.Register("c18", c18Main)
	hlib.Register("c18-child", c18Child)
	hlib.Register("c18-mutate", c18MutateMain)
	hlib.Register("c18-total", c18TotalMain)
	hlib.Register("c18-total-child", c18TotalChild)
	hlib.Register("c20", c20Main)
	hlib.Register("c20-child", c20Child)
	hlib.Main()
}
